#!/bin/sh
# Builds the whole framework offline from files on disk: translator output,
# Lean model + all property theorems, driver executable, harness (both back-ends).
set -e
cd "$(dirname "$0")"
export CARGO_NET_OFFLINE=true
python3 tools/setup.py
