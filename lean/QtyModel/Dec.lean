import QtyModel.Arith
/-
  Exact model of `fpdec::Decimal` (fpdec 0.11 / fpdec-core 0.8) for the
  operations the library uses: `+ - * /`, `==`, `partial_cmp`, `abs`, unary `-`,
  `Dec!` literals, `Display`, `FromStr`.

  A value is `coeff · 10^(-nfd)` with `coeff : i128`, `nfd ≤ 18`.
  Overflow is modelled where fpdec checks it (`checked_mul`, the 256-bit
  fall-backs) and where the debug profile checks it (`i128` `+ - *`): both
  surface as `Panic.overflow`.
-/
namespace Qty

structure Dec where
  coeff : Int
  nfd : Nat
  deriving DecidableEq, Repr, Inhabited

namespace Dec

def maxNfd : Nat := 18
def i128Max : Int := 2 ^ 127 - 1
def i128Min : Int := -(2 ^ 127)

def fits (c : Int) : Bool := decide (i128Min ≤ c) && decide (c ≤ i128Max)

/-- checked `i128` result -/
def chk (c : Int) (nfd : Nat) : Res Dec :=
  if fits c then .ok ⟨c, nfd⟩ else .error .overflow

def tenPow (n : Nat) : Int := ((10 ^ n : Nat) : Int)

def zero : Dec := ⟨0, 0⟩
def one : Dec := ⟨1, 0⟩

def eqZero (d : Dec) : Bool := d.coeff == 0
def eqOne (d : Dec) : Bool := d.coeff == tenPow d.nfd

/-- representation invariant of `fpdec::Decimal`: `i128` coefficient, at most 18 fractional digits -/
def wf (d : Dec) : Bool := fits d.coeff && decide (d.nfd ≤ maxNfd)

/-- exact rational value -/
def toRat (d : Dec) : Rat := (d.coeff : Rat) / pow10 d.nfd

/-- `mul_pow_ten` (unchecked `i128` multiplication; debug profile) followed by
the coefficient operation `f` (also unchecked). -/
def addSub (f : Int → Int → Int) (a b : Dec) : Res Dec :=
  if a.nfd = b.nfd then chk (f a.coeff b.coeff) a.nfd
  else if a.nfd > b.nfd then
    let bc := b.coeff * tenPow (a.nfd - b.nfd)
    if fits bc then chk (f a.coeff bc) a.nfd else .error .overflow
  else
    let ac := a.coeff * tenPow (b.nfd - a.nfd)
    if fits ac then chk (f ac b.coeff) b.nfd else .error .overflow

def add : Dec → Dec → Res Dec := addSub (· + ·)
def sub : Dec → Dec → Res Dec := addSub (· - ·)

/-- `impl Mul for Decimal` -/
def mul (a b : Dec) : Res Dec :=
  if a.eqZero || b.eqZero then .ok zero
  else if b.eqOne then .ok a
  else if a.eqOne then .ok b
  else
    let s := a.nfd + b.nfd
    let p := a.coeff * b.coeff
    if s ≤ maxNfd then chk p s
    else
      let sh := s - maxNfd
      -- `checked_mul` succeeded → `i128_div_rounded`; otherwise the 256-bit
      -- route, which fails iff the magnitude of the floor quotient leaves i128
      if (p.natAbs / 10 ^ sh : Nat) > i128Max.toNat then .error .overflow
      else chk (divRoundHalfEven p (tenPow sh)) maxNfd

/-- `normalize`: strip trailing zeros of the coefficient. -/
def normalizeAux : Nat → Int → Nat → Dec
  | 0, c, n => ⟨c, n⟩
  | fuel + 1, c, n =>
    if n > 0 ∧ c % 10 = 0 then normalizeAux fuel (c / 10) (n - 1) else ⟨c, n⟩

def normalize (c : Int) (n : Nat) : Dec :=
  if c = 0 then ⟨0, 0⟩ else normalizeAux n c n

/-- `impl Div for Decimal` -/
def div (a b : Dec) : Res Dec :=
  if b.eqZero then .error .divByZero
  else if a.eqZero then .ok zero
  else if b.eqOne then .ok a
  else
    -- a.nfd ≤ 18 ≤ 18 + b.nfd, so the `Greater` branch of
    -- `checked_div_rounded` is unreachable
    let sh := maxNfd + b.nfd - a.nfd
    let n := a.coeff * tenPow sh
    if (n.natAbs / b.coeff.natAbs : Nat) > i128Max.toNat then .error .overflow
    else
      let c := divRoundHalfEven n b.coeff
      if fits c then .ok (normalize c maxNfd) else .error .overflow

def neg (a : Dec) : Res Dec := chk (-a.coeff) a.nfd

/-- `Decimal::abs` (`i128::abs`, panics on `i128::MIN` in debug) -/
def abs (a : Dec) : Res Dec := chk (if a.coeff < 0 then -a.coeff else a.coeff) a.nfd

/-- `PartialEq`: `checked_adjust_coeffs`, unequal if the adjustment overflows;
equivalent to exact comparison (see `Lemmas/Dec`). -/
def beq (a b : Dec) : Bool :=
  a.coeff * tenPow b.nfd == b.coeff * tenPow a.nfd

def pcmp (a b : Dec) : Option Ordering :=
  let x := a.coeff * tenPow b.nfd
  let y := b.coeff * tenPow a.nfd
  some (if x < y then .lt else if x = y then .eq else .gt)

/-- `Dec!(lit)`: `none` when the macro panics (more than 18 fractional digits,
coefficient beyond `i128`). -/
def ofLit (l : Lit) : Option Dec :=
  let e : Int := l.exp - l.nfrac
  if -e > (maxNfd : Int) then none
  else if e > 38 then none
  else
    let c : Int := (l.digits : Int) * (if e > 0 then tenPow e.toNat else 1)
    let c := if l.neg then -c else c
    if fits c then some ⟨c, if e < 0 then (-e).toNat else 0⟩ else none

def same (a b : Dec) : Bool := a.coeff == b.coeff && a.nfd == b.nfd

def arith : Arith Dec where
  zero := zero
  one := one
  add := add
  sub := sub
  mul := mul
  div := div
  neg := neg
  beq := beq
  pcmp := pcmp
  val := fun d => if d.wf then some d.toRat else none
  ofLit := ofLit
  same := same

end Dec
end Qty
