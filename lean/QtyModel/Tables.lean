import QtyModel.Ops
import QtyModel.Derived
import QtyModel.Dec
/-
  From a `QtyDef` (what the macro front end produces) to the run-time table of
  the generated code for a given amount type: units are indices into the
  `VARIANTS` array, `scale` is `Amnt!(literal)`.
-/
namespace Qty

structure RTable (A : Type) where
  name : Text
  kind : QtyKind
  units : Array UnitDef
  /-- `Amnt!(lit)` per unit; empty for types without reference unit -/
  scales : Array A
  refIx : Option Nat
  derived : Option Derived
  /-- the dimensionless amount type `AmountT` itself -/
  isAmount : Bool := false

namespace RTable
variable {A : Type}

def n (T : RTable A) : Nat := T.units.size

/-- Build the table; `none` = some `Amnt!(lit)` does not compile in this back-end. -/
def ofDef (R : Arith A) (d : QtyDef) : Option (RTable A) :=
  let kind := d.kind
  let units := d.units.toArray
  let refIx := match d.refIdent with
    | none => none
    | some r => d.units.findIdx? (fun u => u.ident == r)
  if kind == .withRef then
    let scales := d.units.map (fun u => match u.scale with
      | some l => R.ofLit l
      | none => none)
    if scales.all Option.isSome then
      some { name := d.name, kind, units, refIx, derived := d.derived
             scales := (scales.filterMap id).toArray }
    else none
  else
    some { name := d.name, kind, units, refIx := none, derived := d.derived, scales := #[] }

/-- The dimensionless amount `AmountT` with its unit `One` (`src/lib.rs:407-493`). -/
def amount (R : Arith A) : RTable A where
  name := amountName
  kind := .withRef
  units := #[{ ident := [79, 110, 101], name := [79, 110, 101], symbol := []
               pfx := none, scale := none, doc := none }]
  scales := #[R.one]
  refIx := some 0
  derived := none
  isAmount := true

def scaleOf (R : Arith A) (T : RTable A) (u : Nat) : A := T.scales.getD u R.one

def hasPrefix (T : RTable A) (u : Nat) : Bool :=
  match T.units[u]? with
  | some d => d.pfx.isSome
  | none => false

/-- The view used by the generic algorithms of `Ops`. -/
def qt (R : Arith A) (T : RTable A) : QT A Nat where
  units := List.range T.n
  scale := T.scaleOf R
  hasPrefix := T.hasPrefix
  ref := T.refIx.getD 0
  fitIdentity := if T.isAmount then some (fun a u => ⟨a, u⟩) else none

end RTable
end Qty
