import QtyModel.Base
/-
  The abstract arithmetic interface of the amount type `AmountT`.
  Two instances exist: `Dec.arith` (exact model of `fpdec::Decimal`) and
  `F64.arith` (software IEEE-754 binary64).
-/
namespace Qty

structure Arith (A : Type) where
  zero : A
  one : A
  add : A → A → Res A
  sub : A → A → Res A
  mul : A → A → Res A
  div : A → A → Res A
  neg : A → Res A
  /-- `PartialEq::eq` of the amount type -/
  beq : A → A → Bool
  /-- `PartialOrd::partial_cmp` of the amount type -/
  pcmp : A → A → Option Ordering
  /-- exact value; `none` = NaN / ±inf -/
  val : A → Option Rat
  /-- `Amnt!(lit)`; `none` = the literal is rejected at compile time -/
  ofLit : Lit → Option A
  /-- structural identity used by "returns the identical amount" statements
      (bit pattern for f64, coefficient and digit count for decimal) -/
  same : A → A → Bool

namespace Arith
variable {A : Type} (R : Arith A)

/-- `a < b` as Rust derives it from `partial_cmp`. -/
def lt (a b : A) : Bool := R.pcmp a b == some .lt
def le (a b : A) : Bool := R.pcmp a b == some .lt || R.pcmp a b == some .eq
def gt (a b : A) : Bool := R.pcmp a b == some .gt
def ge (a b : A) : Bool := R.pcmp a b == some .gt || R.pcmp a b == some .eq

end Arith
end Qty
