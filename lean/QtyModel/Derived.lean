import QtyModel.Registry
/-
  Which `Mul`/`Div` operator instances `codegen_impl_mul_div_qties` generates
  for a definition `#[quantity(L * R)]` / `#[quantity(L / R)] struct Q`.
  (Each instance exists in the four owned/borrowed forms.)
-/
namespace Qty

/-- `Lhs op Rhs = Out`; type names as written (`AmountT` is the dimensionless amount). -/
structure Impl where
  isMul : Bool
  lhs : Text
  rhs : Text
  out : Text
  deriving DecidableEq, Repr, Inhabited

/-- `codegen_impl_mul_qties res lhs rhs` -/
def implMulQties (res lhs rhs : Text) : List Impl :=
  if lhs = rhs then [⟨true, lhs, lhs, res⟩]
  else [⟨true, lhs, rhs, res⟩, ⟨true, rhs, lhs, res⟩]

/-- `codegen_impl_div_qties res lhs rhs` -/
def implDivQties (res lhs rhs : Text) : List Impl := [⟨false, lhs, rhs, res⟩]

/-- `codegen_impl_mul_div_qties` -/
def implsOf (q : Text) : Option Derived → List Impl
  | none => []
  | some d =>
    if d.isMul then
      implMulQties q d.lhs d.rhs
        ++ implDivQties d.lhs q d.rhs
        ++ (if d.lhs = d.rhs then [] else implDivQties d.rhs q d.lhs)
    else
      implDivQties q d.lhs d.rhs
        ++ implMulQties d.lhs q d.rhs
        ++ implDivQties d.rhs d.lhs q

/-- "AmountT" -/
def amountName : Text := [65, 109, 111, 117, 110, 116, 84]

end Qty
