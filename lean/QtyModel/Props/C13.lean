import QtyModel.Lemmas.Approx
/-
  C13 — Rates relate two quantities consistently.

  Property theorems only.  `approxRateApply` is the propagated-error description
  of `((q / 1·u) / d) * m` that the run-time oracle evaluates on implementation outputs.
-/
namespace Qty.C13
open Qty Qty.Rate

variable {A : Type} (R : Arith A)

/-- a rate reports exactly its four components -/
theorem accessors (ta pm : A) (tu pu : Nat) :
    (⟨ta, tu, pm, pu⟩ : Rate A).termAmount = ta ∧ (⟨ta, tu, pm, pu⟩ : Rate A).termUnit = tu ∧
    (⟨ta, tu, pm, pu⟩ : Rate A).perMultiple = pm ∧ (⟨ta, tu, pm, pu⟩ : Rate A).perUnit = pu :=
  ⟨rfl, rfl, rfl, rfl⟩

theorem from_qty_vals (term per : Q A Nat) :
    fromQtyVals term per = ⟨term.amount, term.unit, per.amount, per.unit⟩ := rfl

/-- the reciprocal swaps term and per; applied twice it gives the original -/
theorem reciprocal_swaps (r : Rate A) :
    r.reciprocal = ⟨r.perMultiple, r.perUnit, r.termAmount, r.termUnit⟩ := rfl

theorem reciprocal_involutive (r : Rate A) : r.reciprocal.reciprocal = r := rfl

/-- dividing by a rate is multiplying by its reciprocal: the two are the same computation -/
theorem div_is_mul_reciprocal (TT : RTable A) (q : Q A Nat) (r : Rate A) :
    divQ R TT q r = mulQ R TT r.reciprocal q := rfl

/-- per-quantity without reference unit: a value in a different unit gives the documented panic -/
theorem mulQ_unit_mismatch (TP : RTable A) (hk : TP.kind = .noRef) (r : Rate A) (q : Q A Nat)
    (h : q.unit ≠ r.perUnit) : mulQ R TP r q = .error .unitMismatch := by
  simp [mulQ, qdiv, hk, nrDiv, h, bind, Except.bind]

/-- `x / 1` -/
theorem div_one_sound {M : ErrModel} (L : Laws R M) (a : A) (qv : Rat) (x : Approx)
    (hq : R.val a = some qv)
    (hA : Approx.div M (Approx.exact qv) (Approx.exact 1) = some x) (hok : x.ok = true) :
    (∃ c, R.div a R.one = .ok c ∧ Realises R c x) ∧ 0 ≤ x.err :=
  ⟨div_sound R L a R.one _ _ x (exact_sound R _ _ hq) (exact_sound R _ _ L.one_val)
      (exact_err_nonneg _) (exact_err_nonneg _) hA hok,
   div_err_nonneg L.wf _ _ x (exact_err_nonneg _) (exact_err_nonneg _) hA⟩

/-- `q / (1·u)` (`Div<Self>`) is computed within the bound `approxQDiv` propagates -/
theorem qdiv_sound {M : ErrModel} (L : Laws R M) (T : RTable A) (q : Q A Nat) (u : Nat)
    (qv : Rat) (x : Approx) (hq : R.val q.amount = some qv)
    (hA : approxQDiv R M T (Approx.exact qv) q.unit u = .ok (some x)) (hok : x.ok = true) :
    (∃ c, Rate.qdiv R T q ⟨R.one, u⟩ = .ok c ∧ Realises R c x) ∧ 0 ≤ x.err := by
  unfold approxQDiv at hA
  unfold Rate.qdiv
  cases hk : T.kind with
  | withRef =>
    simp only [hk] at hA ⊢
    by_cases hu : q.unit = u
    · simp only [hu, beq_self_eq_true, if_true, Except.ok.injEq] at hA
      have := div_one_sound R L q.amount qv x hq hA hok
      simpa [hrDiv, equivAmount, hu, bind, Except.bind] using this
    · have hu' : (q.unit == u) = false := by simpa using hu
      simp only [hu', Bool.false_eq_true, if_false] at hA
      cases hsu : R.val (T.scaleOf R u) with
      | none => simp [hsu] at hA
      | some su =>
      cases hsq : R.val (T.scaleOf R q.unit) with
      | none => simp [hsu, hsq] at hA
      | some sq =>
      simp only [hsu, hsq, Except.ok.injEq] at hA
      cases hρ : Approx.div M (Approx.exact su) (Approx.exact sq) with
      | none => simp [hρ] at hA
      | some ratio =>
      simp only [hρ, Option.bind_eq_bind, Option.bind_some] at hA
      have e0 := exact_err_nonneg
      have hmok : (Approx.mul M ratio (Approx.exact 1)).ok = true := div_ok_right _ _ x hA hok
      have hρok : ratio.ok = true := mul_ok_left _ _ hmok
      have hρe : 0 ≤ ratio.err := div_err_nonneg L.wf _ _ ratio (e0 _) (e0 _) hρ
      have hme : 0 ≤ (Approx.mul M ratio (Approx.exact 1)).err := mul_err_nonneg L.wf _ _ hρe (e0 _)
      obtain ⟨ρ, hdiv, hρr⟩ := div_sound R L (T.scaleOf R u) (T.scaleOf R q.unit) _ _ ratio
        (exact_sound R _ _ hsu) (exact_sound R _ _ hsq) (e0 _) (e0 _) hρ hρok
      obtain ⟨e, hmul, her⟩ := mul_sound R L ρ R.one ratio (Approx.exact 1) hρr
        (exact_sound R _ _ L.one_val) hρe (e0 _) hmok
      obtain ⟨c, hdiv2, hcr⟩ := div_sound R L q.amount e _ _ x (exact_sound R _ _ hq) her
        (e0 _) hme hA hok
      refine ⟨⟨c, ?_, hcr⟩, div_err_nonneg L.wf _ _ x (e0 _) hme hA⟩
      have hu2 : ¬ u = q.unit := fun h => hu h.symm
      simp [hrDiv, equivAmount, Qty.ratio, RTable.qt, hu2, hdiv, hmul, hdiv2, bind, Except.bind]
  | noRef =>
    simp only [hk] at hA ⊢
    by_cases hu : q.unit = u
    · simp only [hu, beq_self_eq_true, if_true, Except.ok.injEq] at hA
      have := div_one_sound R L q.amount qv x hq hA hok
      simpa [nrDiv, hu] using this
    · have hu' : (q.unit == u) = false := by simpa using hu
      simp [hu'] at hA
  | single =>
    simp only [hk, Except.ok.injEq] at hA ⊢
    exact div_one_sound R L q.amount qv x hq hA hok

/-- what `approxRateApply … = .ok (some w)` says about the intermediate descriptions -/
theorem rate_apply_inv {M : ErrModel} (T : RTable A) (a : Approx) (qu u : Nat) (d m w : Approx)
    (hw : approxRateApply R M T a qu u d m = .ok (some w)) :
    ∃ x amnt, approxQDiv R M T a qu u = .ok (some x) ∧ Approx.div M x d = some amnt ∧
      w = Approx.mul M amnt m := by
  unfold approxRateApply at hw
  cases hA : approxQDiv R M T a qu u with
  | error e => simp [hA] at hw
  | ok ox =>
    cases ox with
    | none => simp [hA] at hw
    | some x =>
      cases hD : Approx.div M x d with
      | none => simp [hA, hD] at hw
      | some amnt =>
        simp [hA, hD] at hw
        exact ⟨x, amnt, rfl, hD, hw.symm⟩

/-- the common core of `rate * q`, `q * rate` and `q / rate`:
`((q / 1·u) / d) * m` is computed within the propagated bound, for every kind of quantity type.
`qv`, `dv`, `mv` are the exact values of the amounts. -/
theorem rate_apply_sound {M : ErrModel} (L : Laws R M) (T : RTable A) (q : Q A Nat) (u : Nat)
    (d m : A) (qv dv mv : Rat) (w : Approx)
    (hq : R.val q.amount = some qv) (hd : R.val d = some dv) (hm : R.val m = some mv)
    (hw : approxRateApply R M T (Approx.exact qv) q.unit u (Approx.exact dv) (Approx.exact mv) = .ok (some w))
    (hok : w.ok = true) :
    ∃ x amnt z, Rate.qdiv R T q ⟨R.one, u⟩ = .ok x ∧ R.div x d = .ok amnt ∧ R.mul amnt m = .ok z ∧
      Realises R z w := by
  obtain ⟨X, AM, hA, hD, rfl⟩ := rate_apply_inv R T _ _ _ _ _ w hw
  have hAMok : AM.ok = true := mul_ok_left _ _ hok
  have hXok : X.ok = true := div_ok_left _ _ AM hD hAMok
  obtain ⟨⟨x, hx, hxr⟩, hXe⟩ := qdiv_sound R L T q u qv X hq hA hXok
  obtain ⟨amnt, hdiv, har⟩ := div_sound R L x d X _ AM hxr (exact_sound R _ _ hd) hXe
    (exact_err_nonneg _) hD hAMok
  have hAMe : 0 ≤ AM.err := div_err_nonneg L.wf _ _ AM hXe (exact_err_nonneg _) hD
  obtain ⟨z, hmul, hzr⟩ := mul_sound R L amnt m AM _ har (exact_sound R _ _ hm) hAMe
    (exact_err_nonneg _) hok
  exact ⟨x, amnt, z, hx, hdiv, hmul, hzr⟩

/-- `rate * q` (and `q * rate`): term amount × (value / per value), in the term unit -/
theorem mulQ_sound {M : ErrModel} (L : Laws R M) (TP : RTable A) (r : Rate A) (q : Q A Nat)
    (qv pmv tav : Rat) (w : Approx)
    (hq : R.val q.amount = some qv) (hpm : R.val r.perMultiple = some pmv) (hta : R.val r.termAmount = some tav)
    (hw : approxRateApply R M TP (Approx.exact qv) q.unit r.perUnit (Approx.exact pmv) (Approx.exact tav) = .ok (some w))
    (hok : w.ok = true) :
    ∃ res, mulQ R TP r q = .ok res ∧ res.unit = r.termUnit ∧ Realises R res.amount w := by
  obtain ⟨x, amnt, z, hx, hdiv, hmul, hzr⟩ :=
    rate_apply_sound R L TP q r.perUnit r.perMultiple r.termAmount qv pmv tav w hq hpm hta hw hok
  refine ⟨⟨z, r.termUnit⟩, ?_, rfl, hzr⟩
  simp [mulQ, hx, hdiv, hmul, bind, Except.bind, pure, Except.pure]

/-- `q / rate`: per amount × (value / term value), in the per unit -/
theorem divQ_sound {M : ErrModel} (L : Laws R M) (TT : RTable A) (r : Rate A) (q : Q A Nat)
    (qv pmv tav : Rat) (w : Approx)
    (hq : R.val q.amount = some qv) (hpm : R.val r.perMultiple = some pmv) (hta : R.val r.termAmount = some tav)
    (hw : approxRateApply R M TT (Approx.exact qv) q.unit r.termUnit (Approx.exact tav) (Approx.exact pmv) = .ok (some w))
    (hok : w.ok = true) :
    ∃ res, divQ R TT q r = .ok res ∧ res.unit = r.perUnit ∧ Realises R res.amount w := by
  obtain ⟨x, amnt, z, hx, hdiv, hmul, hzr⟩ :=
    rate_apply_sound R L TT q r.termUnit r.termAmount r.perMultiple qv tav pmv w hq hta hpm hw hok
  refine ⟨⟨z, r.perUnit⟩, ?_, rfl, hzr⟩
  simp [divQ, hx, hdiv, hmul, bind, Except.bind, pure, Except.pure]

/-- the exact value described by `approxRateApply` for a quantity with reference unit is
`m · (q·s_q) / (d · s_u)`: term amount × (value / per value) -/
theorem rate_apply_value {M : ErrModel} (T : RTable A) (hk : T.kind = .withRef) (qu u : Nat) (qv dv mv sq su : Rat)
    (hsq : R.val (T.scaleOf R qu) = some sq) (hsu : R.val (T.scaleOf R u) = some su)
    (hsq0 : sq ≠ 0) (hsu0 : su ≠ 0) (hd0 : dv ≠ 0) (w : Approx)
    (hw : approxRateApply R M T (Approx.exact qv) qu u (Approx.exact dv) (Approx.exact mv) = .ok (some w)) :
    w.v = mv * (qv * sq) / (dv * su) := by
  obtain ⟨X, AM, hA, hD, rfl⟩ := rate_apply_inv R T _ _ _ _ _ w hw
  rw [mul_v, div_v _ _ AM hD]
  have hXv : X.v = qv * sq / su := by
    unfold approxQDiv at hA
    simp only [hk] at hA
    by_cases hu : qu = u
    · subst hu
      simp only [beq_self_eq_true, if_true, Except.ok.injEq] at hA
      rw [hsq] at hsu
      simp only [Option.some.injEq] at hsu
      subst hsu
      rw [div_v _ _ X hA]
      simp only [Approx.exact]
      field_simp
    · have hu' : (qu == u) = false := by simpa using hu
      simp only [hu', Bool.false_eq_true, if_false, hsu, hsq, Except.ok.injEq] at hA
      cases hρ : Approx.div M (Approx.exact su) (Approx.exact sq) with
      | none => simp [hρ] at hA
      | some ratio =>
        simp only [hρ, Option.bind_eq_bind, Option.bind_some] at hA
        rw [div_v _ _ X hA, mul_v, div_v _ _ ratio hρ]
        simp only [Approx.exact]
        field_simp
  rw [hXv]
  simp only [Approx.exact]
  field_simp

/-- non-vacuity: 3 h at a rate of 90 km per 2 h (decimal back-end, scales 1000 m and 3600 s) -/
example :
    let TD : RTable Dec := { name := [], kind := .withRef, units := #[default, default],
                             scales := #[⟨10, 1⟩, ⟨3600, 0⟩], refIx := some 0, derived := none }
    mulQ Dec.arith TD ⟨⟨90, 0⟩, 5, ⟨2, 0⟩, 1⟩ ⟨⟨3, 0⟩, 1⟩ = .ok ⟨⟨1350, 1⟩, 5⟩ := by
  decide +kernel

end Qty.C13
