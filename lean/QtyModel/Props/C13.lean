import QtyModel.Tables
namespace Qty.C13
end Qty.C13
