import QtyModel.Ops
import QtyModel.Rate
import QtyModel.Generated.Algos
/-
  Tie between code and model for the ALGORITHMS (which trait method `/` of a quantity type WITH a reference unit forwards to).

  `Generated/Algos.lean` is re-emitted from the Rust source on every run
  (tools/translate_algos.py).  Every theorem below states that the re-emitted definition IS the
  hand-written definition which the property theorems are about.  If a change of the code
  changes what one of these functions computes, its theorem no longer checks.
-/
namespace Qty.AlgoTie
open Qty Qty.Gen.Algos

set_option linter.unusedSectionVars false
variable {A U V W : Type} [DecidableEq U] [DecidableEq V] [DecidableEq W]
variable (R : Arith A) (T : QT A U)

theorem withRef_div (a b : Q A U) : Kind.withRef.div R T a b = hrDiv R T a b := rfl

end Qty.AlgoTie
