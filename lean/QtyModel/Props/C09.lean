import QtyModel.Lemmas.ListFind
import QtyModel.Tables
import QtyModel.Generated.Catalogue
import QtyModel.Generated.Astro
import QtyModel.Generated.Synth
/-
  C09 — Unit registry is complete, ordered and invertible.

  Property theorems only.  The general statements hold for EVERY definition the
  model of the macro accepts (any number of units); the statements about the
  generated catalogue are kernel evaluations over the whole regenerated tables.
-/
namespace Qty.C09
open Qty Qty.MacroFront

/-! ### iteration order = stable sort of the declaration -/

/-- the iterated units are the declared units (reference unit included), stably sorted -/
theorem iter_is_sorted_declaration (it : RawItem) (d : QtyDef) (h : expand it = .ok d) :
    ∃ dc, declared it = .ok dc ∧ d.units = isort (orderOf dc) dc.units ∧ d.refIdent = dc.refIdent := by
  unfold expand analyze at h
  cases hd : declared it with
  | error e => simp [hd] at h
  | ok dc =>
    simp only [hd] at h
    cases hp : parseArgs it.args with
    | error e => simp [hp] at h
    | ok dv =>
      simp only [hp, Except.ok.injEq] at h
      exact ⟨dc, rfl, by rw [← h], by rw [← h]⟩

/-- each declared unit is yielded exactly once -/
theorem iter_perm (it : RawItem) (d : QtyDef) (h : expand it = .ok d) :
    ∃ dc, declared it = .ok dc ∧ d.units.Perm dc.units := by
  obtain ⟨dc, h1, h2, _⟩ := iter_is_sorted_declaration it d h
  exact ⟨dc, h1, by rw [h2]; exact isort_perm _ _⟩

/-- non-decreasing in the sort key, for any total and transitive key order -/
theorem iter_sorted (it : RawItem) (d : QtyDef) (h : expand it = .ok d)
    (le : UnitDef → UnitDef → Bool)
    (hle : ∀ dc, declared it = .ok dc → orderOf dc = le)
    (htot : ∀ a b, le a b = true ∨ le b a = true)
    (htr : ∀ a b c, le a b = true → le b c = true → le a c = true) :
    d.units.Pairwise (fun x y => le x y = true) := by
  obtain ⟨dc, h1, h2, _⟩ := iter_is_sorted_declaration it d h
  rw [h2, hle dc h1]
  exact isort_sorted le htot htr _

/-- declaration order breaks ties: restricted to any class `p` of units that the order cannot
separate from each other, the iteration order is the declaration order -/
theorem isort_stable (le : UnitDef → UnitDef → Bool)
    (htot : ∀ a b, le a b = true ∨ le b a = true)
    (htr : ∀ a b c, le a b = true → le b c = true → le a c = true)
    (p : UnitDef → Bool) (hp : ∀ a b, p a = true → p b = true → le a b = true) (l : List UnitDef) :
    (isort le l).filter p = l.filter p := by
  induction l with
  | nil => rfl
  | cons a l ih =>
    unfold isort
    rw [insertBy_filter le p a _ (isort_sorted le htot htr l) (fun b _ ha hb => hp a b ha hb)]
    simp only [List.filter_cons]
    split <;> simp [ih]

/-- the reference unit comes first among the units whose key equals its own (scale one):
it is declared first (`insert(0, ref_unit_def)`) and the sort is stable -/
theorem ref_first_among_equal_keys (le : UnitDef → UnitDef → Bool)
    (htot : ∀ a b, le a b = true ∨ le b a = true)
    (htr : ∀ a b c, le a b = true → le b c = true → le a c = true)
    (rd : UnitDef) (us : List UnitDef) :
    ((isort le (rd :: us)).filter (fun u => le u rd && le rd u)).head? = some rd := by
  rw [isort_stable le htot htr _ (fun a b ha hb => by
    simp only [Bool.and_eq_true] at ha hb
    exact htr _ _ _ ha.1 hb.2)]
  have hrr : le rd rd = true := by
    rcases htot rd rd with h | h <;> exact h
  simp [List.filter_cons, hrr]

/-! ### lookups -/

variable {A : Type} (R : Arith A)

/-- lookup by scale returns the FIRST unit (in iteration order) with that scale, nothing otherwise -/
theorem from_scale_first (T : QT A Nat) (x : A) (u : Nat) (h : unitFromScale R T x = some u) :
    ∃ pre post, T.units = pre ++ u :: post ∧ R.beq (T.scale u) x = true ∧
      ∀ v ∈ pre, R.beq (T.scale v) x = false :=
  find_first _ _ _ h

theorem from_scale_none (T : QT A Nat) (x : A) :
    unitFromScale R T x = none ↔ ∀ v ∈ T.units, R.beq (T.scale v) x = false :=
  find_none_iff _ _

/-- `Unit::from_symbol` / `Quantity::unit_from_symbol`: `iter().find(|u| u.symbol() == symbol)` -/
def fromSymbol (units : List UnitDef) (s : Text) : Option UnitDef :=
  units.find? (fun u => u.symbol == s)

theorem from_symbol_first (units : List UnitDef) (s : Text) (u : UnitDef)
    (h : fromSymbol units s = some u) :
    ∃ pre post, units = pre ++ u :: post ∧ u.symbol = s ∧ ∀ v ∈ pre, v.symbol ≠ s := by
  obtain ⟨pre, post, e, hu, hp⟩ := find_first _ _ _ h
  exact ⟨pre, post, e, by simpa using hu, fun v hv => by simpa using hp v hv⟩

theorem from_symbol_none (units : List UnitDef) (s : Text) :
    fromSymbol units s = none ↔ ∀ v ∈ units, v.symbol ≠ s := by
  unfold fromSymbol; rw [find_none_iff]; simp

/-- where symbols are unique, looking a unit's symbol up returns the unit itself -/
theorem from_symbol_unique (units : List UnitDef) (hn : (units.map (·.symbol)).Nodup)
    (u : UnitDef) (hu : u ∈ units) : fromSymbol units u.symbol = some u :=
  (find_key_iff units (·.symbol) hn u.symbol u).mpr ⟨hu, rfl⟩

/-! ### the regenerated catalogue (main crate, astronomical crate, synthetic definitions) -/

def allItems : List RawItem := Gen.Catalogue.items ++ Gen.Astro.items ++ Gen.Synth.items

/-- checker for one definition: expands; symbols unique; variant identifiers unique; constant
names unique; with a reference unit: exactly one unit is the reference unit, it has scale
literal value one, and the iteration order is non-decreasing in the exact literal value -/
def litLe (a b : UnitDef) : Bool :=
  match a.scale, b.scale with
  | some x, some y => decide (x.value ≤ y.value)
  | _, _ => false

def itemOk (uniqueSymbols : Bool) (it : RawItem) : Bool :=
  match expand it with
  | .error _ => false
  | .ok d =>
    (!uniqueSymbols || decide ((d.units.map (·.symbol)).Nodup)) && decide ((d.units.map (·.ident)).Nodup) &&
    decide ((d.units.map (·.constName)).Nodup) &&
    (match d.refIdent with
     | none => decide (d.units.Pairwise (fun a b => textLe a.name b.name = true))
     | some r =>
       (d.units.filter (fun u => u.ident == r)).length == 1 &&
       d.units.all (fun u => if u.ident == r then (u.scale.map (·.value)) == some 1 else true) &&
       decide (d.units.Pairwise (fun a b => litLe a b = true)))

/-- the predefined quantities (main crate, astronomical crate) also have unique symbols; the synthetic
definitions of the harness deliberately include a type with two units of one symbol -/
theorem catalogue_registry_ok :
    (Gen.Catalogue.items ++ Gen.Astro.items).all (itemOk true) = true ∧ Gen.Synth.items.all (itemOk false) = true := by
  constructor <;> decide +kernel

/-- no two declared scale literals of one catalogue quantity share an `f64` sort key unless they
have the same exact value: the `f64` order used by the macro is faithful to the exact
(decimal) order for every predefined quantity -/
theorem catalogue_keys_faithful :
    allItems.all (fun it => match expand it with
      | .error _ => false
      | .ok d => d.units.all (fun a => d.units.all (fun b => match a.scale, b.scale with
          | some x, some y => (keyLe a b && keyLe b a) == (x.value == y.value)
          | _, _ => true))) = true := by decide +kernel

/-- KNOWN LIMIT (kernel-checked witness): the sort key is `f64` even when the amount type is
decimal, so two decimal literals closer than `f64` resolution are ordered by declaration,
not by value: `1.00000000000000002` declared before `1.00000000000000001` stays before it. -/
theorem f64_key_not_faithful_for_close_decimals :
    let x : UnitDef := { ident := [88], name := [88], symbol := [120], pfx := none, doc := none
                         scale := some { digits := 100000000000000002, nfrac := 17, isFloat := true } }
    let y : UnitDef := { ident := [89], name := [89], symbol := [121], pfx := none, doc := none
                         scale := some { digits := 100000000000000001, nfrac := 17, isFloat := true } }
    isort keyLe [x, y] = [x, y] := by decide +kernel

/-- every unit is reachable through its upper-snake-case constant: the constant generated for a
unit is `UpperSnake(UpperCamel(identifier))`, bound to that variant; non-vacuity on an
identifier with digits, acronym and underscores -/
example : Case.upperSnake (Case.upperCamel (Text.ofString "Meter_per_Second_squared"))
    = Text.ofString "METER_PER_SECOND_SQUARED" := by decide +kernel

example : (isort keyLe
    [{ ident := [82], name := [82], symbol := [114], pfx := none, doc := none, scale := some litOne },
     { ident := [65], name := [65], symbol := [97], pfx := none, doc := none, scale := some { digits := 5, nfrac := 1, isFloat := true } },
     { ident := [66], name := [66], symbol := [98], pfx := none, doc := none, scale := some { digits := 1 } }]).map (·.ident)
    = [[65], [82], [66]] := by decide +kernel

end Qty.C09
