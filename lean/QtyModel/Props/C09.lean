import QtyModel.Tables
namespace Qty.C09
end Qty.C09
