import QtyModel.Props.C15
import QtyModel.Props.C15Dec
import QtyModel.Props.C15F64
import QtyModel.Props.C09
import QtyModel.Props.C17
/-
  C15 — END-TO-END statements: display, split, parse, look up.

  `C15.lean` (shape, width, placement, split), `C15Dec.lean` / `C15F64.lean` (the amount text of
  either back-end), `C09.lean` (`from_symbol`) and `C17.lean` (`FromStr for Decimal`) prove the
  pieces.  This file composes them into statements about WHAT THE DRIVER COMPUTES for the ops
  `fmt` and `fmtrt` (`Main.lean`, `step`):

    fmt   : `expected := Fmt.qtyFmt sp nonneg amtT sym`  with  `nonneg := R.ge a R.zero`,
            `amtT := f sp.prec a`  (`f = AT.absText`)
    fmtrt : `exp := if sym.isEmpty then (if nonneg then [] else [45]) ++ f none a
                    else Fmt.qtyFmt {} nonneg (f none a) sym`

  with `f = Fmt.decAbsText` for the decimal back-end and `f = f64AmountText` (defined in `Main.lean`,
  repeated verbatim below because `Main` is the root of the executable and not a module of the
  library) for binary64.
-/
namespace Qty.C15
open Qty Qty.Fmt Qty.Digits Qty.F64 Qty.C15F64

/-! ### 1. what displaying a value yields (the driver's own expressions) -/

/-- op `fmt`, unit with a non-empty symbol: the driver's `expected` under the specification `sp` -/
def displayWith {A : Type} (R : Arith A) (f : Option Nat → A → Text) (sp : Spec) (a : A) (sym : Text) : Text :=
  qtyFmt sp (R.ge a R.zero) (f sp.prec a) sym

/-- op `fmtrt` (default specification `{}`): the driver's `exp`, unit-less values included -/
def display {A : Type} (R : Arith A) (f : Option Nat → A → Text) (a : A) (sym : Text) : Text :=
  let nonneg := R.ge a R.zero
  if sym.isEmpty then (if nonneg then [] else [45]) ++ f none a
  else qtyFmt {} nonneg (f none a) sym

/-- `Main.f64AmountText`, verbatim: `Display` of `if amount >= 0 { amount } else { -amount }` -/
def f64AmountText (prec : Option Nat) (a : F64) : Text :=
  let b : F64 := if F64.arith.ge a F64.arith.zero then a else
    (match F64.arith.neg a with
     | .ok n => n
     | .error _ => a)
  F64.text prec b

/-- the driver's `nonneg` (`amount >= 0`), decimal back-end -/
def decNonneg (d : Dec) : Bool := Dec.arith.ge d Dec.arith.zero
/-- the driver's `nonneg` (`amount >= 0`), binary64 back-end -/
def f64Nonneg (x : F64) : Bool := F64.arith.ge x F64.arith.zero

/-- `{}` of a decimal value with the unit symbol `sym` (`[]` = unit-less) -/
def displayDec (d : Dec) (sym : Text) : Text := display Dec.arith decAbsText d sym
/-- `{}` of a binary64 value with the unit symbol `sym` (`[]` = unit-less) -/
def displayF64 (x : F64) (sym : Text) : Text := display F64.arith f64AmountText x sym
/-- `{:spec}` of a decimal value, non-empty symbol -/
def displayDecWith (sp : Spec) (d : Dec) (sym : Text) : Text := displayWith Dec.arith decAbsText sp d sym
/-- `{:spec}` of a binary64 value, non-empty symbol -/
def displayF64With (sp : Spec) (x : F64) (sym : Text) : Text := displayWith F64.arith f64AmountText sp x sym

/-- for a non-empty symbol the two ops agree on the default specification -/
theorem display_eq_displayWith {A : Type} (R : Arith A) (f : Option Nat → A → Text) (a : A) (sym : Text)
    (hne : sym ≠ []) : display R f a sym = displayWith R f {} a sym := by
  cases sym with
  | nil => exact absurd rfl hne
  | cons c cs => rfl

/-- the sign of the default specification -/
theorem signOf_default (nonneg : Bool) : signOf {} nonneg = if nonneg then [] else [45] := by
  cases nonneg <;> rfl

/-- SHAPE, generic: sign, amount text, one space, symbol; splitting at the last space gives back
the signed amount text and the symbol (symbol non-empty and without a space) -/
theorem display_split {A : Type} (R : Arith A) (f : Option Nat → A → Text) (a : A) (sym : Text)
    (hne : sym ≠ []) (hsp : ∀ c ∈ sym, c ≠ 32) :
    display R f a sym = ((if R.ge a R.zero then [] else [45]) ++ f none a) ++ [32] ++ sym ∧
    splitLastSpace (display R f a sym) = ((if R.ge a R.zero then [] else [45]) ++ f none a, sym) := by
  have h1 : display R f a sym = ((if R.ge a R.zero then [] else [45]) ++ f none a) ++ [32] ++ sym := by
    rw [display_eq_displayWith R f a sym hne, displayWith, fmt_shape _ _ _ _ rfl, signOf_default]
  exact ⟨h1, by rw [h1, fmt_splits _ _ hsp]⟩

/-- unit-less: just the signed amount text -/
theorem display_unitless {A : Type} (R : Arith A) (f : Option Nat → A → Text) (a : A) :
    display R f a [] = (if R.ge a R.zero then [] else [45]) ++ f none a := rfl

/-! ### the driver's `nonneg` and the signed amount text -/

/-- decimal: `amount >= 0` is "the coefficient is not negative" -/
theorem decNonneg_eq (d : Dec) : decNonneg d = !decide (d.coeff < 0) := by
  show (Dec.pcmp d Dec.zero == some .gt || Dec.pcmp d Dec.zero == some .eq) = _
  simp only [Dec.pcmp, Dec.zero, Dec.tenPow, pow_zero, Nat.cast_one, mul_one, zero_mul]
  rcases lt_trichotomy d.coeff 0 with h | h | h
  · simp [h]
  · simp [h]
  · have h1 : ¬ d.coeff < 0 := by omega
    have h2 : ¬ d.coeff = 0 := by omega
    simp [h1, h2]

/-- decimal: sign and `|d|` text together are the `Display` text of the `Decimal` -/
theorem dec_signed_text (d : Dec) :
    (if decNonneg d then [] else [45]) ++ decAbsText none d = Serde.decText d := by
  rw [decNonneg_eq]
  unfold Serde.decText
  by_cases h : d.coeff < 0 <;> simp [h]

/-- binary64: `amount >= 0` holds for every finite value except the negative non-zero ones — in
particular for `-0.0` -/
theorem f64Nonneg_fin (s : Bool) (m : Nat) (e : Int) :
    f64Nonneg (.fin s m e) = !(s && decide (m ≠ 0)) := by
  show (F64.pcmp (.fin s m e) (.fin false 0 eMin) == some .gt ||
    F64.pcmp (.fin s m e) (.fin false 0 eMin) == some .eq) = _
  rw [pcmp_fin]
  have h0 : tr false 0 eMin = 0 := by simp [tr]
  rw [h0]
  by_cases hm : m = 0
  · subst hm
    have : tr s 0 e = 0 := by simp [tr]
    rw [this]; simp [ratCmp]
  · have hd := decide_tr_neg s m e hm
    have hne : tr s m e ≠ 0 := fun h => hm (tr_eq_zero.mp h)
    cases s with
    | false =>
      have : ¬ tr false m e < 0 := by simpa using hd
      simp [ratCmp, this, hne]
    | true =>
      have : tr true m e < 0 := by simpa using hd
      simp [ratCmp, this, hm]

theorem f64Nonneg_inf (s : Bool) : f64Nonneg (.inf s) = !s := by cases s <;> rfl
theorem f64Nonneg_nan : f64Nonneg .nan = false := rfl

/-- binary64: for everything but NaN, sign and amount text together are the `Display` text of the
`f64` (`-0` for the negative zero: the minus then comes from the amount text, not from the sign) -/
theorem f64_signed_text (prec : Option Nat) (x : F64) (hx : x ≠ .nan) :
    (if f64Nonneg x then [] else [45]) ++ f64AmountText prec x = F64.text prec x := by
  cases x with
  | nan => exact absurd rfl hx
  | inf s => cases s <;> rfl
  | fin s m e =>
    have hn : F64.arith.ge (.fin s m e) F64.arith.zero = !(s && decide (m ≠ 0)) := f64Nonneg_fin s m e
    unfold f64AmountText f64Nonneg
    rw [hn]
    cases s with
    | false => simp
    | true =>
      by_cases hm : m = 0
      · simp [hm]
      · simp only [Bool.true_and, hm, ne_eq, not_false_eq_true, decide_true, Bool.not_true,
          Bool.false_eq_true, if_false]
        rfl

/-- NaN: `NaN >= 0` is false, so a minus is written in front of `NaN` -/
theorem f64_signed_text_nan (prec : Option Nat) :
    (if f64Nonneg .nan then [] else [45]) ++ f64AmountText prec .nan = 45 :: nanText := rfl

/-! ### 2. decimal: display, split, parse -/

/-- ROUND TRIP (decimal).  For every well-formed `Decimal` and every non-empty symbol without a
space: the text splits at its last space into an amount text that `FromStr for Decimal` reads
back as exactly `d` (coefficient AND number of fractional digits) and the symbol itself. -/
theorem display_roundtrip_dec (d : Dec) (h : d.nfd ≤ 18) (sym : Text) (hne : sym ≠ [])
    (hsp : ∀ c ∈ sym, c ≠ 32) :
    Serde.decOfText (splitLastSpace (displayDec d sym)).1 = some d ∧
    (splitLastSpace (displayDec d sym)).2 = sym := by
  have hs := (display_split Dec.arith decAbsText d sym hne hsp).2
  have := dec_signed_text d
  unfold decNonneg at this
  unfold displayDec
  rw [hs, this]
  exact ⟨C17.dec_amount_roundtrip d h, rfl⟩

/-- unit-less values: the whole text reads back as `d` -/
theorem display_roundtrip_dec_unitless (d : Dec) (h : d.nfd ≤ 18) :
    Serde.decOfText (displayDec d []) = some d := by
  have := dec_signed_text d
  unfold decNonneg at this
  unfold displayDec
  rw [display_unitless, this]
  exact C17.dec_amount_roundtrip d h

/-! ### 3. binary64: display, split, parse -/

/-- ROUND TRIP (binary64).  For every canonical datum except NaN — zeros of BOTH signs,
subnormals, normal numbers of both signs, and both infinities — and every non-empty symbol
without a space: the amount part reads back (`f64::from_str`, correctly rounded) as exactly `x`
(the same datum, hence bit-identical) and the symbol part is the symbol. -/
theorem display_roundtrip_f64 (x : F64) (hc : Canonical x) (hx : x ≠ .nan) (sym : Text) (hne : sym ≠ [])
    (hsp : ∀ c ∈ sym, c ≠ 32) :
    parseText (splitLastSpace (displayF64 x sym)).1 = some x ∧
    (splitLastSpace (displayF64 x sym)).2 = sym := by
  have hs := (display_split F64.arith f64AmountText x sym hne hsp).2
  have := f64_signed_text none x hx
  unfold f64Nonneg at this
  unfold displayF64
  rw [hs, this]
  exact ⟨text_none_roundtrip x hc, rfl⟩

/-- unit-less values: the whole text reads back as `x` -/
theorem display_roundtrip_f64_unitless (x : F64) (hc : Canonical x) (hx : x ≠ .nan) :
    parseText (displayF64 x []) = some x := by
  have := f64_signed_text none x hx
  unfold f64Nonneg at this
  unfold displayF64
  rw [display_unitless, this]
  exact text_none_roundtrip x hc

/-- in terms of bit patterns: every pattern that is not a NaN -/
theorem display_roundtrip_f64_bits (b : Nat) (hx : ofBits b ≠ .nan) (sym : Text) (hne : sym ≠ [])
    (hsp : ∀ c ∈ sym, c ≠ 32) :
    (parseText (splitLastSpace (displayF64 (ofBits b) sym)).1).map toBits = some (toBits (ofBits b)) ∧
    (splitLastSpace (displayF64 (ofBits b) sym)).2 = sym := by
  obtain ⟨h1, h2⟩ := display_roundtrip_f64 _ (ofBits_canonical b) hx sym hne hsp
  exact ⟨by rw [h1]; rfl, h2⟩

/-- EXCLUDED CASE, stated exactly: NaN is displayed as `-NaN <symbol>` (`NaN >= 0` is false, the
negation of NaN prints `NaN`); the amount part `-NaN` is not a text the model's reader
`F64.parseText` accepts (it knows `NaN`, `inf`, `-inf` and plain decimals) -/
theorem display_nan_f64 (sym : Text) (hne : sym ≠ []) (hsp : ∀ c ∈ sym, c ≠ 32) :
    displayF64 .nan sym = [45, 78, 97, 78] ++ [32] ++ sym ∧
    (splitLastSpace (displayF64 .nan sym)).1 = [45, 78, 97, 78] ∧
    parseText (splitLastSpace (displayF64 .nan sym)).1 = none := by
  obtain ⟨h1, h2⟩ := display_split F64.arith f64AmountText .nan sym hne hsp
  have h3 := f64_signed_text_nan none
  unfold f64Nonneg at h3
  unfold displayF64
  rw [h2, h1, h3]
  exact ⟨rfl, rfl, by simp only [nanText]; decide⟩

/-! ### 4. the symbol resolves to the unit; display, split, parse, look up -/

/-- where the displayed unit is the ONLY unit of the list with its symbol (what the driver's
`symUnique` tests), looking the symbol up returns it -/
theorem fromSymbol_of_only (units : List UnitDef) (u : UnitDef) (hu : u ∈ units)
    (hon : ∀ v ∈ units, v.symbol = u.symbol → v = u) : C09.fromSymbol units u.symbol = some u := by
  cases h : C09.fromSymbol units u.symbol with
  | none => exact absurd rfl ((C09.from_symbol_none units u.symbol).mp h u hu)
  | some v =>
    obtain ⟨pre, post, e, hs, -⟩ := C09.from_symbol_first units u.symbol v h
    have hv : v ∈ units := by rw [e]; simp
    rw [hon v hv hs]

/-- THE SYMBOL RESOLVES.  If the symbols of the unit list are pairwise different, the symbol
part of the displayed text (any amount type, any amount) looks up to the unit displayed. -/
theorem display_symbol_resolves {A : Type} (R : Arith A) (f : Option Nat → A → Text) (a : A)
    (units : List UnitDef) (hn : (units.map (·.symbol)).Nodup) (u : UnitDef) (hu : u ∈ units)
    (hne : u.symbol ≠ []) (hsp : ∀ c ∈ u.symbol, c ≠ 32) :
    C09.fromSymbol units (splitLastSpace (display R f a u.symbol)).2 = some u := by
  rw [(display_split R f a u.symbol hne hsp).2]
  exact C09.from_symbol_unique units hn u hu

/-- the same under the weaker hypothesis that only THIS symbol is unique in the list -/
theorem display_symbol_resolves_only {A : Type} (R : Arith A) (f : Option Nat → A → Text) (a : A)
    (units : List UnitDef) (u : UnitDef) (hu : u ∈ units)
    (hon : ∀ v ∈ units, v.symbol = u.symbol → v = u)
    (hne : u.symbol ≠ []) (hsp : ∀ c ∈ u.symbol, c ≠ 32) :
    C09.fromSymbol units (splitLastSpace (display R f a u.symbol)).2 = some u := by
  rw [(display_split R f a u.symbol hne hsp).2]
  exact fromSymbol_of_only units u hu hon

/-- without any uniqueness: the look-up finds the FIRST unit (in iteration order) that has the
displayed symbol -/
theorem display_symbol_resolves_first {A : Type} (R : Arith A) (f : Option Nat → A → Text) (a : A)
    (units : List UnitDef) (u : UnitDef) (hu : u ∈ units)
    (hne : u.symbol ≠ []) (hsp : ∀ c ∈ u.symbol, c ≠ 32) :
    ∃ v pre post, C09.fromSymbol units (splitLastSpace (display R f a u.symbol)).2 = some v ∧
      units = pre ++ v :: post ∧ v.symbol = u.symbol ∧ ∀ w ∈ pre, w.symbol ≠ u.symbol := by
  rw [(display_split R f a u.symbol hne hsp).2]
  cases h : C09.fromSymbol units u.symbol with
  | none => exact absurd rfl ((C09.from_symbol_none units u.symbol).mp h u hu)
  | some v =>
    obtain ⟨pre, post, e, hs, hp⟩ := C09.from_symbol_first units u.symbol v h
    exact ⟨v, pre, post, rfl, e, hs, hp⟩

/-- reading a displayed text: split at the last space, parse the amount, look the symbol up -/
def readBack {A : Type} (parse : Text → Option A) (units : List UnitDef) (t : Text) : Option (A × UnitDef) :=
  match parse (splitLastSpace t).1, C09.fromSymbol units (splitLastSpace t).2 with
  | some a, some u => some (a, u)
  | _, _ => none

/-- END TO END (decimal): display, split, parse, look up returns the original (amount, unit) -/
theorem display_read_dec (d : Dec) (h : d.nfd ≤ 18) (units : List UnitDef)
    (hn : (units.map (·.symbol)).Nodup) (u : UnitDef) (hu : u ∈ units)
    (hne : u.symbol ≠ []) (hsp : ∀ c ∈ u.symbol, c ≠ 32) :
    readBack Serde.decOfText units (displayDec d u.symbol) = some (d, u) := by
  unfold readBack
  rw [(display_roundtrip_dec d h u.symbol hne hsp).1]
  have := display_symbol_resolves Dec.arith decAbsText d units hn u hu hne hsp
  unfold displayDec
  rw [this]

/-- END TO END (binary64): display, split, parse, look up returns the original (amount, unit),
for every canonical datum except NaN (both zeros, both infinities included) -/
theorem display_read_f64 (x : F64) (hc : Canonical x) (hx : x ≠ .nan) (units : List UnitDef)
    (hn : (units.map (·.symbol)).Nodup) (u : UnitDef) (hu : u ∈ units)
    (hne : u.symbol ≠ []) (hsp : ∀ c ∈ u.symbol, c ≠ 32) :
    readBack parseText units (displayF64 x u.symbol) = some (x, u) := by
  unfold readBack
  rw [(display_roundtrip_f64 x hc hx u.symbol hne hsp).1]
  have := display_symbol_resolves F64.arith f64AmountText x units hn u hu hne hsp
  unfold displayF64
  rw [this]

/-- NaN does not come back (the amount part `-NaN` is rejected by the model's reader) -/
theorem display_read_f64_nan (units : List UnitDef) (u : UnitDef)
    (hne : u.symbol ≠ []) (hsp : ∀ c ∈ u.symbol, c ≠ 32) :
    readBack parseText units (displayF64 .nan u.symbol) = none := by
  unfold readBack
  rw [(display_nan_f64 u.symbol hne hsp).2.2]

/-! ### the amount texts contain no minus and start with a digit -/

/-- `decAbsText` with the effective precision `p` made explicit -/
def decAbsP (p : Nat) (d : Dec) : Text :=
  let c := d.coeff.natAbs
  if d.nfd = 0 then
    if p > 0 then natDigits c ++ [46] ++ rep p 48 else natDigits c
  else
    let (i, f) : Nat × Nat :=
      if p = d.nfd then (c / 10 ^ d.nfd, c % 10 ^ d.nfd)
      else if p < d.nfd then
        let c' := (divRoundHalfEven d.coeff (Dec.tenPow (d.nfd - p))).natAbs
        (c' / 10 ^ p, c' % 10 ^ p)
      else (c / 10 ^ d.nfd, (c % 10 ^ d.nfd) * 10 ^ (p - d.nfd))
    if p > 0 then natDigits i ++ [46] ++ zeroPadLeft p (natDigits f) else natDigits i

theorem decAbsText_eq (prec : Option Nat) (d : Dec) :
    decAbsText prec d = decAbsP (match prec with | some p => min p Dec.maxNfd | none => d.nfd) d := rfl

/-- for EVERY precision the decimal amount text is a digit string followed by digits and points -/
theorem decAbsText_form (prec : Option Nat) (d : Dec) :
    ∃ i rest, decAbsText prec d = natDigits i ++ rest ∧ ∀ c ∈ rest, Case.isDigit c = true ∨ c = 46 := by
  have tail : ∀ (fp : Text), fp.all Case.isDigit = true →
      ∀ c ∈ [46] ++ fp, Case.isDigit c = true ∨ c = 46 := by
    intro fp hfp c hc
    rcases List.mem_append.mp hc with hc | hc
    · right; simpa using hc
    · left; exact List.all_eq_true.mp hfp c hc
  rw [decAbsText_eq]
  generalize (match prec with | some p => min p Dec.maxNfd | none => d.nfd) = p
  unfold decAbsP
  dsimp only
  by_cases h0 : d.nfd = 0
  · rw [if_pos h0]
    by_cases hp : p > 0
    · rw [if_pos hp]
      exact ⟨_, [46] ++ rep p 48, by rw [List.append_assoc], tail _ (all_rep_zero _)⟩
    · rw [if_neg hp]
      exact ⟨d.coeff.natAbs, [], by simp, by simp⟩
  · rw [if_neg h0]
    generalize (if p = d.nfd then _ else _ : Nat × Nat) = pr
    obtain ⟨i, f⟩ := pr
    dsimp only
    by_cases hp : p > 0
    · rw [if_pos hp]
      exact ⟨i, [46] ++ zeroPadLeft p (natDigits f), by rw [List.append_assoc],
        tail _ (zeroPad_all _ _ (natDigits_all _))⟩
    · rw [if_neg hp]
      exact ⟨i, [], by simp, by simp⟩

/-- a text made of digits and points contains no minus -/
theorem count_minus_of_chars (t : Text) (h : ∀ c ∈ t, Case.isDigit c = true ∨ c = 46) : t.count 45 = 0 := by
  rw [List.count_eq_zero]
  intro hm
  rcases h 45 hm with h | h
  · simp [Case.isDigit] at h
  · cases h

theorem decAbsText_chars (prec : Option Nat) (d : Dec) :
    ∀ c ∈ decAbsText prec d, Case.isDigit c = true ∨ c = 46 := by
  obtain ⟨i, rest, e, hr⟩ := decAbsText_form prec d
  rw [e]
  intro c hc
  rcases List.mem_append.mp hc with hc | hc
  · exact Or.inl (List.all_eq_true.mp (natDigits_all i) c hc)
  · exact hr c hc

theorem decAbsText_no_minus (prec : Option Nat) (d : Dec) : (decAbsText prec d).count 45 = 0 :=
  count_minus_of_chars _ (decAbsText_chars prec d)

theorem decAbsText_head (prec : Option Nat) (d : Dec) :
    ∃ c r, decAbsText prec d = c :: r ∧ Case.isDigit c = true := by
  obtain ⟨i, rest, e, -⟩ := decAbsText_form prec d
  rw [e]
  have hne := natDigits_ne_nil i
  have hall := natDigits_all i
  cases hd : natDigits i with
  | nil => exact absurd hd hne
  | cons c r =>
    rw [hd] at hall
    simp only [List.all_cons, Bool.and_eq_true] at hall
    exact ⟨c, r ++ rest, rfl, hall.1⟩

/-- a minus in front of a text that starts with a digit negates the value read -/
theorem parseDecText_minus_head {t : Text} (h : ∃ c r, t = c :: r ∧ Case.isDigit c = true) :
    parseDecText (45 :: t) = (parseDecText t).map (fun r => (-r.1, r.2)) := by
  obtain ⟨c, r, rfl, hc⟩ := h
  have hns : stripSign (c :: r) = (false, c :: r) :=
    stripSign_nosign _ (fun r' e => digit_ne_minus hc (List.cons.inj e).1)
  rw [parse_eq, parse_eq (c :: r), stripSign_minus, hns]
  cases splitDigits (c :: r) <;> simp

/-- binary64: the amount text of a finite value is the text of `|x|`, with a minus of its own for
the negative zero (`-0.0 >= 0` holds, so `-0.0` itself is handed to `Display`) -/
theorem f64AmountText_fin (prec : Option Nat) (s : Bool) (m : Nat) (e : Int) :
    f64AmountText prec (.fin s m e) =
      (if s && decide (m = 0) then [45] else []) ++ absText prec (.fin s m e) := by
  have hn : F64.arith.ge (.fin s m e) F64.arith.zero = !(s && decide (m ≠ 0)) := f64Nonneg_fin s m e
  unfold f64AmountText
  rw [hn]
  cases s with
  | false => simp [F64.text, signBit]
  | true =>
    by_cases hm : m = 0
    · simp [hm, F64.text, signBit]
    · simp only [Bool.true_and, hm, ne_eq, not_false_eq_true, decide_true, Bool.not_true,
        Bool.false_eq_true, if_false, decide_false, List.nil_append]
      rfl

theorem f64AmountText_inf (prec : Option Nat) (s : Bool) : f64AmountText prec (.inf s) = infText := by
  cases s <;> rfl
theorem f64AmountText_nan (prec : Option Nat) : f64AmountText prec .nan = nanText := rfl

theorem absText_no_minus (prec : Option Nat) (x : F64) : (absText prec x).count 45 = 0 := by
  cases x with
  | nan => rw [absText_nan]; decide
  | inf s => rw [absText_inf]; decide
  | fin s m e => exact count_minus_of_chars _ (absText_shape prec s m e).1

/-- binary64: the amount text contains a minus only for the negative zero -/
theorem f64AmountText_minus (prec : Option Nat) (x : F64) :
    (f64AmountText prec x).count 45 = if x.signBit && x.isZero then 1 else 0 := by
  cases x with
  | nan => rw [f64AmountText_nan]; decide
  | inf s => rw [f64AmountText_inf]; cases s <;> decide
  | fin s m e =>
    rw [f64AmountText_fin, List.count_append, absText_no_minus]
    cases s <;> by_cases hm : m = 0 <;> simp [hm, signBit, isZero]

/-! ### 5. with a precision -/

/-- SHAPE with any specification without a width: sign (`-`, or `+` with the flag), amount text
under the precision, one space, symbol; and the split at the last space -/
theorem displayWith_shape {A : Type} (R : Arith A) (f : Option Nat → A → Text) (sp : Spec) (a : A)
    (sym : Text) (hw : sp.width = none) (hsp : ∀ c ∈ sym, c ≠ 32) :
    displayWith R f sp a sym = (signOf sp (R.ge a R.zero) ++ f sp.prec a) ++ [32] ++ sym ∧
    splitLastSpace (displayWith R f sp a sym) = (signOf sp (R.ge a R.zero) ++ f sp.prec a, sym) := by
  have h1 : displayWith R f sp a sym = (signOf sp (R.ge a R.zero) ++ f sp.prec a) ++ [32] ++ sym := by
    rw [displayWith, fmt_shape _ _ _ _ hw]
  exact ⟨h1, by rw [h1, fmt_splits _ _ hsp]⟩

/-- PRECISION (decimal), `p ≤ 18`, no width: the text is `[-|+]amount␠symbol`; the amount has
exactly `p` fractional digits and its value is within `½·10⁻ᵖ` of `|d|`.
(For `p > 18` fpdec clamps to 18 digits: `dec_precision_clamped`, a known finding.) -/
theorem display_precision_dec (sp : Spec) (p : Nat) (hpr : sp.prec = some p) (hp : p ≤ 18)
    (hw : sp.width = none) (d : Dec) (sym : Text) (hsp : ∀ c ∈ sym, c ≠ 32) :
    displayDecWith sp d sym = (signOf sp (decNonneg d) ++ decAbsText (some p) d) ++ [32] ++ sym ∧
    splitLastSpace (displayDecWith sp d sym) = (signOf sp (decNonneg d) ++ decAbsText (some p) d, sym) ∧
    (decAbsText (some p) d).count 45 = 0 ∧
    ∃ v, parseDecText (decAbsText (some p) d) = some (v, p) ∧
      abs (v - abs d.toRat) ≤ 1 / (2 * (10 : ℚ) ^ p) := by
  obtain ⟨h1, h2⟩ := displayWith_shape Dec.arith decAbsText sp d sym hw hsp
  rw [hpr] at h1 h2
  exact ⟨h1, h2, decAbsText_no_minus _ _, dec_precision_correct d p hp⟩

/-- the sign of a decimal value is the sign of its coefficient -/
theorem dec_toRat_neg {d : Dec} (h : d.coeff < 0) : d.toRat < 0 := by
  rw [Dec.toRat_eq]
  exact div_neg_of_neg_of_pos (by exact_mod_cast h) (by positivity)

theorem dec_toRat_nonneg {d : Dec} (h : ¬ d.coeff < 0) : 0 ≤ d.toRat := by
  rw [Dec.toRat_eq]
  exact div_nonneg (by exact_mod_cast (not_lt.mp h)) (by positivity)

/-- PRECISION (decimal), signed form, without the `+` flag: the amount part of the displayed text
— minus included — is a decimal with exactly `p` fractional digits within `½·10⁻ᵖ` of `d` itself -/
theorem display_precision_dec_signed (sp : Spec) (p : Nat) (hpr : sp.prec = some p) (hp : p ≤ 18)
    (hw : sp.width = none) (hplus : sp.plus = false) (d : Dec) (sym : Text) (hsp : ∀ c ∈ sym, c ≠ 32) :
    ∃ w, parseDecText (splitLastSpace (displayDecWith sp d sym)).1 = some (w, p) ∧
      |w - d.toRat| ≤ 1 / (2 * (10 : ℚ) ^ p) := by
  obtain ⟨-, h2, -, v, hv, hb⟩ := display_precision_dec sp p hpr hp hw d sym hsp
  rw [h2, decNonneg_eq]
  by_cases hc : d.coeff < 0
  · have hs : signOf sp (!decide (d.coeff < 0)) = [45] := by simp [signOf, hc]
    rw [hs]
    refine ⟨-v, ?_, ?_⟩
    · show parseDecText (45 :: decAbsText (some p) d) = _
      rw [parseDecText_minus_head (decAbsText_head _ _), hv]; rfl
    · rw [abs_of_neg (dec_toRat_neg hc)] at hb
      rw [← abs_neg]
      have : -(-v - d.toRat) = v - -d.toRat := by ring
      rw [this]; exact hb
  · have hs : signOf sp (!decide (d.coeff < 0)) = [] := by simp [signOf, hc, hplus]
    rw [hs]
    refine ⟨v, by simpa using hv, ?_⟩
    rw [abs_of_nonneg (dec_toRat_nonneg hc)] at hb
    exact hb

/-- PRECISION (binary64), any `p`, no width, finite `x = ±m·2^e`: the text is
`[-|+]amount␠symbol` where the amount is the text of `|x|` (preceded by a minus of its own for the
negative zero); that text has a point iff `p ≠ 0`, followed by exactly `p` digits, and its
value is within `½·10⁻ᵖ` of `|x| = m·2^e`. -/
theorem display_precision_f64 (sp : Spec) (p : Nat) (hpr : sp.prec = some p) (hw : sp.width = none)
    (s : Bool) (m : Nat) (e : Int) (sym : Text) (hsp : ∀ c ∈ sym, c ≠ 32) :
    displayF64With sp (.fin s m e) sym =
      (signOf sp (f64Nonneg (.fin s m e)) ++ f64AmountText (some p) (.fin s m e)) ++ [32] ++ sym ∧
    splitLastSpace (displayF64With sp (.fin s m e) sym) =
      (signOf sp (f64Nonneg (.fin s m e)) ++ f64AmountText (some p) (.fin s m e), sym) ∧
    f64AmountText (some p) (.fin s m e) =
      (if s && decide (m = 0) then [45] else []) ++ absText (some p) (.fin s m e) ∧
    (absText (some p) (.fin s m e)).count 45 = 0 ∧
    (absText (some p) (.fin s m e)).count 46 = (if p = 0 then 0 else 1) ∧
    (p ≠ 0 → (((absText (some p) (.fin s m e)).dropWhile (· != 46)).drop 1).length = p ∧
      (((absText (some p) (.fin s m e)).dropWhile (· != 46)).drop 1).all Case.isDigit = true) ∧
    ∃ v, parseDecText (absText (some p) (.fin s m e)) = some (v, p) ∧
      |v - (m : ℚ) * 2 ^ e| ≤ 1 / (2 * (10 : ℚ) ^ p) := by
  obtain ⟨h1, h2⟩ := displayWith_shape F64.arith f64AmountText sp (.fin s m e) sym hw hsp
  rw [hpr] at h1 h2
  obtain ⟨-, -, -, hsh⟩ := absText_shape (some p) s m e
  obtain ⟨hd, hf⟩ := hsh p rfl
  exact ⟨h1, h2, f64AmountText_fin _ s m e, absText_no_minus _ _, hd, hf, absText_prec_correct s m e p⟩

/-- PRECISION (binary64), signed form, without the `+` flag: the amount part of the displayed
text is the `{:.p}` text of the `f64` itself (`F64.text`), and it reads as a decimal with exactly
`p` fractional digits within `½·10⁻ᵖ` of the value of `x` -/
theorem display_precision_f64_signed (sp : Spec) (p : Nat) (hpr : sp.prec = some p) (hw : sp.width = none)
    (hplus : sp.plus = false) (s : Bool) (m : Nat) (e : Int) (sym : Text) (hsp : ∀ c ∈ sym, c ≠ 32) :
    (splitLastSpace (displayF64With sp (.fin s m e) sym)).1 = F64.text (some p) (.fin s m e) ∧
    ∃ w, parseDecText (splitLastSpace (displayF64With sp (.fin s m e) sym)).1 = some (w, p) ∧
      |w - tr s m e| ≤ 1 / (2 * (10 : ℚ) ^ p) := by
  obtain ⟨-, h2, -, -, -, -, v, hv, hb⟩ := display_precision_f64 sp p hpr hw s m e sym hsp
  have hsg : signOf sp (f64Nonneg (.fin s m e)) = if f64Nonneg (.fin s m e) then [] else [45] := by
    cases f64Nonneg (.fin s m e) <;> simp [signOf, hplus]
  have ht : (splitLastSpace (displayF64With sp (.fin s m e) sym)).1 = F64.text (some p) (.fin s m e) := by
    rw [h2, hsg]; exact f64_signed_text (some p) (.fin s m e) (by simp)
  refine ⟨ht, ?_⟩
  rw [ht]
  obtain ⟨nf, hpl, -⟩ := absText_plain (some p) s m e
  cases s with
  | false =>
    refine ⟨v, by simpa [F64.text, signBit] using hv, ?_⟩
    simpa [tr] using hb
  | true =>
    refine ⟨-v, ?_, ?_⟩
    · show parseDecText (45 :: absText (some p) (.fin true m e)) = _
      rw [parseDecText_minus hpl, hv]; rfl
    · have : -v - tr true m e = -(v - (m : ℚ) * 2 ^ e) := by simp [tr]; ring
      rw [this, abs_neg]; exact hb

/-- infinities and NaN ignore the precision: `inf␠symbol`, `-inf␠symbol`, `-NaN␠symbol` -/
theorem display_precision_f64_nonfinite (sp : Spec) (hw : sp.width = none) (hplus : sp.plus = false)
    (sym : Text) :
    displayF64With sp (.inf false) sym = infText ++ [32] ++ sym ∧
    displayF64With sp (.inf true) sym = 45 :: infText ++ [32] ++ sym ∧
    displayF64With sp .nan sym = 45 :: nanText ++ [32] ++ sym := by
  refine ⟨?_, ?_, ?_⟩ <;>
    rw [displayF64With, displayWith, fmt_shape _ _ _ _ hw] <;>
    simp [signOf, hplus, f64AmountText_inf, f64AmountText_nan] <;> rfl

/-! ### 6. a single leading minus -/

/-- the sign text contains one minus for negative amounts and none otherwise; it is `-`, `+` (flag) or empty -/
theorem signOf_minus (sp : Spec) (nonneg : Bool) :
    (signOf sp nonneg).count 45 = (if nonneg then 0 else 1) ∧
    (nonneg = false → signOf sp nonneg = [45]) ∧
    (nonneg = true → signOf sp nonneg = if sp.plus then [43] else []) := by
  cases nonneg <;> cases hp : sp.plus <;> simp [signOf, hp]

theorem count_rep_ne (n c x : Nat) (h : c ≠ x) : (rep n c).count x = 0 := by
  rw [List.count_eq_zero]
  intro hm
  exact h (List.eq_of_mem_replicate (show x ∈ List.replicate n c from hm)).symm

/-- PLACEMENT in one formula, for every specification (width, fill, alignment, `+`, `0`):
`fill* sign 0* amount␠symbol fill*` — the zeros only with the `0` flag (and then no fill), the
sign directly in front of the zeros / the amount -/
theorem display_placement {A : Type} (R : Arith A) (f : Option Nat → A → Text) (sp : Spec) (a : A)
    (sym : Text) :
    ∃ lead zeros trail : Nat,
      displayWith R f sp a sym =
        rep lead (sp.fill.getD 32) ++ (signOf sp (R.ge a R.zero) ++ rep zeros 48 ++ f sp.prec a) ++ [32] ++ sym
          ++ rep trail (sp.fill.getD 32) ∧
      (sp.zero = true → lead = 0 ∧ trail = 0) ∧ (sp.zero = false → zeros = 0) := by
  obtain ⟨pre, post, hz, hnz, -, -, -⟩ :=
    fmt_placement sp (R.ge a R.zero) (f sp.prec a ++ [32] ++ sym)
  unfold displayWith qtyFmt
  cases hzero : sp.zero with
  | true =>
    refine ⟨0, pre, 0, ?_, fun _ => ⟨rfl, rfl⟩, fun h => (by cases h)⟩
    rw [(hz hzero).1]; simp [rep, List.append_assoc]
  | false =>
    refine ⟨pre, 0, post, ?_, fun h => (by cases h), fun _ => rfl⟩
    rw [hnz hzero]; simp [rep, List.append_assoc]

/-- SINGLE MINUS, generic: if the amount text itself contains no minus, the segment
`sign 0* amount` of the displayed text contains exactly one minus when `amount >= 0` is false — and
then it is its FIRST character — and none otherwise -/
theorem core_single_minus (sp : Spec) (nonneg : Bool) (zeros : Nat) (amt : Text) (h : amt.count 45 = 0) :
    (signOf sp nonneg ++ rep zeros 48 ++ amt).count 45 = (if nonneg then 0 else 1) ∧
    (nonneg = false → ∃ r, signOf sp nonneg ++ rep zeros 48 ++ amt = 45 :: r ∧ r.count 45 = 0) := by
  have hz : (rep zeros 48).count 45 = 0 := count_rep_ne _ _ _ (by decide)
  obtain ⟨h1, h2, -⟩ := signOf_minus sp nonneg
  refine ⟨by rw [List.count_append, List.count_append, h1, hz, h]; simp only [Nat.add_zero], ?_⟩
  intro hn
  refine ⟨rep zeros 48 ++ amt, by rw [h2 hn]; simp, by rw [List.count_append, hz, h]⟩

/-- SINGLE MINUS (decimal), every specification and every precision: the displayed text is
`fill* core ␠symbol fill*` with `core = sign 0* amount`; `core` contains a minus iff `amount >= 0`
is false, i.e. iff the coefficient is negative, exactly one, in first position. -/
theorem display_single_minus_dec (sp : Spec) (d : Dec) (sym : Text) :
    ∃ (lead trail : Nat) (core : Text),
      displayDecWith sp d sym = rep lead (sp.fill.getD 32) ++ core ++ [32] ++ sym ++ rep trail (sp.fill.getD 32) ∧
      core.count 45 = (if decNonneg d then 0 else 1) ∧
      (decNonneg d = false → ∃ r, core = 45 :: r ∧ r.count 45 = 0) ∧
      (decNonneg d = false ↔ d.coeff < 0) := by
  obtain ⟨lead, zeros, trail, h, -, -⟩ := display_placement Dec.arith decAbsText sp d sym
  obtain ⟨h1, h2⟩ := core_single_minus sp (decNonneg d) zeros (decAbsText sp.prec d) (decAbsText_no_minus _ _)
  exact ⟨lead, trail, _, h, h1, h2, by rw [decNonneg_eq]; simp⟩

/-- the whole displayed text, when neither the fill character nor the symbol is/contains a minus -/
theorem display_minus_count_dec (sp : Spec) (d : Dec) (sym : Text) (hf : sp.fill.getD 32 ≠ 45)
    (hs : sym.count 45 = 0) :
    (displayDecWith sp d sym).count 45 = if d.coeff < 0 then 1 else 0 := by
  obtain ⟨lead, trail, core, h, h1, -, h3⟩ := display_single_minus_dec sp d sym
  rw [h]
  simp only [List.count_append, count_rep_ne _ _ _ hf, h1, hs]
  by_cases hc : d.coeff < 0
  · have : decNonneg d = false := h3.mpr hc
    simp [this, hc]
  · have : decNonneg d = true := by
      cases hn : decNonneg d with
      | true => rfl
      | false => exact absurd (h3.mp hn) hc
    simp [this, hc]

/-- the default display, unit-less values included, in one formula -/
theorem displayDec_eq (d : Dec) (sym : Text) :
    displayDec d sym = (if decNonneg d then [] else [45]) ++
      (decAbsText none d ++ (if sym.isEmpty then [] else 32 :: sym)) := by
  cases sym with
  | nil =>
    show (if _ then _ else _) ++ _ = _
    cases h : Dec.arith.ge d Dec.arith.zero <;> simp [decNonneg, h]
  | cons c cs =>
    show qtyFmt {} _ _ _ = _
    rw [fmt_shape _ _ _ _ rfl, signOf_default]
    cases h : Dec.arith.ge d Dec.arith.zero <;> simp [decNonneg, h]

/-- default specification, unit-less values included: a negative decimal value is displayed with
exactly one minus, in first position; a non-negative one with none (symbols without a minus) -/
theorem display_default_minus_dec (d : Dec) (sym : Text) (hs : sym.count 45 = 0) :
    (displayDec d sym).count 45 = (if d.coeff < 0 then 1 else 0) ∧
    (d.coeff < 0 → ∃ r, displayDec d sym = 45 :: r ∧ r.count 45 = 0) := by
  have ht : (if sym.isEmpty then [] else 32 :: sym).count 45 = 0 := by
    split
    · rfl
    · rw [List.count_cons, hs]; rfl
  have hb : (decAbsText none d ++ (if sym.isEmpty then [] else 32 :: sym)).count 45 = 0 := by
    rw [List.count_append, decAbsText_no_minus, ht]
  rw [displayDec_eq, decNonneg_eq]
  by_cases hc : d.coeff < 0
  · simp only [hc, decide_true, Bool.not_true, Bool.false_eq_true, if_false, if_true]
    exact ⟨by rw [List.count_append, hb]; rfl, fun _ => ⟨_, rfl, hb⟩⟩
  · simp only [hc, decide_false, Bool.not_false, if_true, if_false, List.nil_append]
    exact ⟨hb, fun h => absurd h (by simp)⟩

/-- SINGLE MINUS (binary64), every specification and precision — PARTIAL with respect to the
property text: `core = sign 0* amount` contains AT MOST one minus, exactly one iff the value is NaN
or has its sign bit set.  "Exactly one iff `amount >= 0` is false" holds for everything except the
negative zero: `-0.0 >= 0` is true, the sign text is empty (or `+`), and the minus comes from the
amount text (`Display` of `-0.0` is `-0`), see `display_negzero_f64`. -/
theorem display_single_minus_f64_partial (sp : Spec) (x : F64) (sym : Text) :
    ∃ (lead zeros trail : Nat),
      displayF64With sp x sym =
        rep lead (sp.fill.getD 32) ++ (signOf sp (f64Nonneg x) ++ rep zeros 48 ++ f64AmountText sp.prec x)
          ++ [32] ++ sym ++ rep trail (sp.fill.getD 32) ∧
      (signOf sp (f64Nonneg x) ++ rep zeros 48 ++ f64AmountText sp.prec x).count 45
        = (if f64Nonneg x then 0 else 1) + (if x.signBit && x.isZero then 1 else 0) ∧
      (signOf sp (f64Nonneg x) ++ rep zeros 48 ++ f64AmountText sp.prec x).count 45
        = (if x = .nan ∨ x.signBit = true then 1 else 0) ∧
      ((x.signBit && x.isZero) = false →
        (signOf sp (f64Nonneg x) ++ rep zeros 48 ++ f64AmountText sp.prec x).count 45
          = (if f64Nonneg x then 0 else 1)) ∧
      (f64Nonneg x = false → ∃ r, signOf sp (f64Nonneg x) ++ rep zeros 48 ++ f64AmountText sp.prec x = 45 :: r ∧
        r.count 45 = 0) := by
  obtain ⟨lead, zeros, trail, h, -, -⟩ := display_placement F64.arith f64AmountText sp x sym
  have hz : (rep zeros 48).count 45 = 0 := count_rep_ne _ _ _ (by decide)
  obtain ⟨h1, h2, -⟩ := signOf_minus sp (f64Nonneg x)
  have hc : (signOf sp (f64Nonneg x) ++ rep zeros 48 ++ f64AmountText sp.prec x).count 45
      = (if f64Nonneg x then 0 else 1) + (if x.signBit && x.isZero then 1 else 0) := by
    rw [List.count_append, List.count_append, h1, hz, f64AmountText_minus]; simp only [Nat.add_zero]
  refine ⟨lead, zeros, trail, h, hc, ?_, ?_, ?_⟩
  · rw [hc]
    cases x with
    | nan => simp [f64Nonneg_nan, signBit, isZero]
    | inf s => cases s <;> simp [f64Nonneg_inf, signBit, isZero]
    | fin s m e =>
      rw [f64Nonneg_fin]
      cases s <;> by_cases hm : m = 0 <;> simp [hm, signBit, isZero]
  · intro hnz; rw [hc, hnz]; simp
  · intro hn
    have hnz : (x.signBit && x.isZero) = false := by
      cases x with
      | nan => rfl
      | inf s => simp [isZero]
      | fin s m e =>
        rw [f64Nonneg_fin] at hn
        cases s <;> by_cases hm : m = 0 <;> simp_all [signBit, isZero]
    refine ⟨rep zeros 48 ++ f64AmountText sp.prec x, by rw [h2 hn]; simp, ?_⟩
    rw [List.count_append, hz, f64AmountText_minus, hnz]; simp

/-! ### kernel-checked witnesses for the exclusions and the weakened statement -/

/-- WITNESS for `display_single_minus_f64_partial`: for the negative zero `amount >= 0` is TRUE, yet
the text shows a minus (`-0 m`, from the amount text); with the `+` flag both signs appear and the
minus is not leading (`+-0 m`), with a precision likewise (`+-0.00 m`) -/
theorem display_negzero_f64 :
    f64Nonneg negZero = true ∧
    displayF64 negZero [109] = [45, 48, 32, 109] ∧
    displayF64With { plus := true } negZero [109] = [43, 45, 48, 32, 109] ∧
    displayF64With { plus := true, prec := some 2 } negZero [109] = [43, 45, 48, 46, 48, 48, 32, 109] ∧
    displayF64With { zero := true, width := some 6 } negZero [109] = [48, 48, 45, 48, 32, 109] := by
  decide +kernel

/-- WITNESS for the exclusion "symbol without a space": `1 sq ft` splits at the LAST space into
`1 sq` and `ft`; the amount part does not parse and the symbol part is not the symbol -/
theorem display_symbol_with_space :
    displayDec ⟨1, 0⟩ [115, 113, 32, 102, 116] = [49, 32, 115, 113, 32, 102, 116] ∧
    splitLastSpace (displayDec ⟨1, 0⟩ [115, 113, 32, 102, 116]) = ([49, 32, 115, 113], [102, 116]) ∧
    Serde.decOfText (splitLastSpace (displayDec ⟨1, 0⟩ [115, 113, 32, 102, 116])).1 = none := by
  decide +kernel

/-- WITNESS for the hypothesis "symbols pairwise different": two units with the symbol `t`; the value
displayed in the second one reads back with the first one -/
theorem display_duplicate_symbol :
    let u1 : UnitDef := { ident := [65], name := [65], symbol := [116], pfx := none, scale := none, doc := none }
    let u2 : UnitDef := { ident := [66], name := [66], symbol := [116], pfx := none, scale := none, doc := none }
    readBack Serde.decOfText [u1, u2] (displayDec ⟨-250, 2⟩ u2.symbol) = some (⟨-250, 2⟩, u1) ∧ u1 ≠ u2 := by
  decide +kernel

/-- WITNESS: the empty symbol (unit-less) has no space to split at — the "symbol part" is the whole text -/
theorem display_unitless_no_split :
    displayDec ⟨-250, 2⟩ [] = [45, 50, 46, 53, 48] ∧
    splitLastSpace (displayDec ⟨-250, 2⟩ []) = ([], [45, 50, 46, 53, 48]) := by
  decide +kernel

/-! ### tests (kernel evaluations on concrete values) -/

/-- `-2.50 °C` (decimal): text, split, read back with coefficient -250 and two digits -/
example : displayDec ⟨-250, 2⟩ [176, 67] = [45, 50, 46, 53, 48, 32, 176, 67] ∧
    splitLastSpace (displayDec ⟨-250, 2⟩ [176, 67]) = ([45, 50, 46, 53, 48], [176, 67]) ∧
    Serde.decOfText (splitLastSpace (displayDec ⟨-250, 2⟩ [176, 67])).1 = some ⟨-250, 2⟩ := by
  decide +kernel

/-- `{:.1}` of `-2.50 °C` and of `-0.25 °C` (ties to even): `-2.5 °C`, `-0.2 °C`; `{:+.0}` of `2.50 °C`: `+2 °C` -/
example : displayDecWith { prec := some 1 } ⟨-250, 2⟩ [176, 67] = [45, 50, 46, 53, 32, 176, 67] ∧
    displayDecWith { prec := some 1 } ⟨-25, 2⟩ [176, 67] = [45, 48, 46, 50, 32, 176, 67] ∧
    displayDecWith { plus := true, prec := some 0 } ⟨250, 2⟩ [176, 67] = [43, 50, 32, 176, 67] := by
  decide +kernel

/-- `-0.1 µm` (binary64, bits BFB999999999999A) -/
example : displayF64 (ofBits 0xBFB999999999999A) [181, 109] = [45, 48, 46, 49, 32, 181, 109] ∧
    parseText (splitLastSpace (displayF64 (ofBits 0xBFB999999999999A) [181, 109])).1
      = some (ofBits 0xBFB999999999999A) ∧
    (splitLastSpace (displayF64 (ofBits 0xBFB999999999999A) [181, 109])).2 = [181, 109] := by
  decide +kernel

/-- `1e21 m`: written positionally, 22 digits -/
example : displayF64 (ofBits 0x444B1AE4D6E2EF50) [109] = 49 :: List.replicate 21 48 ++ [32, 109] ∧
    parseText (splitLastSpace (displayF64 (ofBits 0x444B1AE4D6E2EF50) [109])).1
      = some (ofBits 0x444B1AE4D6E2EF50) := by
  decide +kernel

/-- `-0.0 m`: shown as `-0 m`, read back as the NEGATIVE zero -/
example : displayF64 (ofBits 0x8000000000000000) [109] = [45, 48, 32, 109] ∧
    parseText (splitLastSpace (displayF64 (ofBits 0x8000000000000000) [109])).1
      = some (ofBits 0x8000000000000000) ∧ ofBits 0x8000000000000000 = negZero := by
  decide +kernel

/-- `-inf m` and `inf m` read back; `-NaN m` does not -/
example : displayF64 (.inf true) [109] = [45, 105, 110, 102, 32, 109] ∧
    parseText (splitLastSpace (displayF64 (.inf true) [109])).1 = some (.inf true) ∧
    displayF64 (.inf false) [109] = [105, 110, 102, 32, 109] ∧
    displayF64 .nan [109] = [45, 78, 97, 78, 32, 109] ∧
    parseText (splitLastSpace (displayF64 .nan [109])).1 = none := by
  decide +kernel

/-- `{:.2}` of `-0.1 µm`: `-0.10 µm`; `{:*^+12.1}` of `5.0 µm`: `**+5.0 µm***` -/
example : displayF64With { prec := some 2 } (ofBits 0xBFB999999999999A) [181, 109]
      = [45, 48, 46, 49, 48, 32, 181, 109] ∧
    displayF64With { fill := some 42, align := some .center, plus := true, width := some 12, prec := some 1 }
      (ofBits 0x4014000000000000) [181, 109] = [42, 42, 43, 53, 46, 48, 32, 181, 109, 42, 42, 42] := by
  decide +kernel

/-- display, split, parse, look up on a two-unit list -/
example :
    let m : UnitDef := { ident := [77], name := [77], symbol := [109], pfx := none, scale := none, doc := none }
    let um : UnitDef := { ident := [85], name := [85], symbol := [181, 109], pfx := none, scale := none, doc := none }
    readBack parseText [m, um] (displayF64 (ofBits 0xBFB999999999999A) um.symbol)
      = some (ofBits 0xBFB999999999999A, um) ∧
    readBack Serde.decOfText [m, um] (displayDec ⟨-250, 2⟩ m.symbol) = some (⟨-250, 2⟩, m) := by
  decide +kernel

end Qty.C15
