import QtyModel.Fmt
import QtyModel.Lemmas.Basic
import QtyModel.Lemmas.Digits
import QtyModel.Lemmas.DecLaws
/-
  C15 (decimal back-end) — the amount text of `Display for Decimal`:
  without a precision it denotes exactly the stored value with exactly its digit count;
  with a precision `p ≤ 18` it is the correctly rounded value with exactly `p`
  fractional digits.  (For `p > 18` fpdec clamps: `C15.dec_precision_clamped`.)
-/
namespace Qty.C15
open Qty Qty.Fmt Qty.Digits

/-- the digits of a natural number denote it -/
theorem natDigits_value (n : Nat) :
    (natDigits n).all Case.isDigit = true ∧ (natDigits n) ≠ [] ∧
    (natDigits n).foldl (fun acc c => acc * 10 + (c - 48)) 0 = n :=
  ⟨natDigits_all n, natDigits_ne_nil n, natDigits_num n⟩

/-- `|d|` as a quotient of naturals -/
theorem abs_toRat (d : Dec) : abs d.toRat = ((d.coeff.natAbs : Nat) : Rat) / (10 : Rat) ^ d.nfd := by
  rw [Dec.toRat_eq, abs_div, abs_of_pos (by positivity : (0 : Rat) < 10 ^ d.nfd), Nat.cast_natAbs,
    Int.cast_abs]

/-- without a precision the text denotes exactly `|d|`, with exactly `d.nfd` fractional digits -/
theorem dec_no_precision_exact (d : Dec) :
    parseDecText (decAbsText none d) = some (abs d.toRat, d.nfd) := by
  rw [decAbsText_none, abs_toRat]
  split
  · next h => rw [parse_nat, h]; simp
  · next h =>
    rw [parse_fixed _ _ _ (Nat.pos_of_ne_zero h) (Nat.mod_lt _ (by positivity)), Nat.div_add_mod',
      pow10_eq]
    simp

/-- rounding the signed coefficient and taking the magnitude is a correct rounding of the magnitude -/
theorem round_abs_bound (c : Int) (n p : Nat) (h : p < n) :
    |(((divRoundHalfEven c (Dec.tenPow (n - p))).natAbs : Nat) : Rat) / 10 ^ p - |(c : Rat)| / 10 ^ n|
      ≤ 1 / (2 * (10 : Rat) ^ p) := by
  obtain ⟨k, rfl⟩ : ∃ k, n = p + k := ⟨n - p, by omega⟩
  have hk : p + k - p = k := by omega
  rw [hk]
  have hb := rhe_bound c (Dec.tenPow k) (ne_of_gt (Dec.tenPow_pos k))
  rw [Dec.tenPow_cast] at hb
  have hb2 := le_trans (abs_abs_sub_abs_le_abs_sub _ _) hb
  rw [abs_div, abs_of_pos (by positivity : (0 : Rat) < 10 ^ k)] at hb2
  rw [Nat.cast_natAbs, Int.cast_abs]
  generalize ((divRoundHalfEven c (Dec.tenPow k) : Int) : Rat) = R at hb2 ⊢
  have e : |R| / 10 ^ p - |(c : Rat)| / 10 ^ (p + k) = (|R| - |(c : Rat)| / 10 ^ k) / 10 ^ p := by
    rw [pow_add]; field_simp
  have hp : (0 : Rat) < 10 ^ p := by positivity
  rw [e, abs_div, abs_of_pos hp, div_le_div_iff₀ hp (by positivity)]
  nlinarith [hb2, hp]

/-- with a precision `p ≤ 18`: exactly `p` fractional digits, correctly rounded (half-even) -/
theorem dec_precision_correct (d : Dec) (p : Nat) (hp : p ≤ 18) :
    ∃ v, parseDecText (decAbsText (some p) d) = some (v, p) ∧ abs (v - abs d.toRat) ≤ 1 / (2 * (10 : Rat) ^ p) := by
  have hmin : min p Dec.maxNfd = p := Nat.min_eq_left hp
  have hpos : (0 : Rat) ≤ 1 / (2 * (10 : Rat) ^ p) := by positivity
  have exact : ∀ t, parseDecText t = some (abs d.toRat, p) →
      ∃ v, parseDecText t = some (v, p) ∧ abs (v - abs d.toRat) ≤ 1 / (2 * (10 : Rat) ^ p) := by
    intro t ht
    exact ⟨_, ht, by simp⟩
  by_cases h0 : d.nfd = 0
  · by_cases hp0 : p = 0
    · apply exact
      subst hp0
      have : decAbsText (some 0) d = natDigits d.coeff.natAbs := by
        unfold decAbsText; simp [h0]
      rw [this, parse_nat, abs_toRat, h0]; simp
    · apply exact
      have hpp : 0 < p := Nat.pos_of_ne_zero hp0
      have : decAbsText (some p) d = natDigits d.coeff.natAbs ++ [46] ++ rep p 48 := by
        unfold decAbsText; simp [h0, hmin, hpp]
      have hl : (rep p 48).length = p := by simp [rep]
      rw [this, parse_frac _ _ (natDigits_ne_nil _) (natDigits_all _)
        (by intro e; rw [e] at hl; simp at hl; omega) (all_rep_zero p), hl, natDigits_num,
        num_rep_zero, abs_toRat, h0, pow10_eq]
      have : (10 : Rat) ^ p ≠ 0 := by positivity
      push_cast
      simp only [Nat.cast_natAbs, Int.cast_abs]
      field_simp
      simp
  · have hn : 0 < d.nfd := Nat.pos_of_ne_zero h0
    rcases Nat.lt_trichotomy p d.nfd with hlt | heq | hgt
    · -- rounding
      by_cases hp0 : p = 0
      · subst hp0
        have : decAbsText (some 0) d
            = natDigits (divRoundHalfEven d.coeff (Dec.tenPow d.nfd)).natAbs := by
          have hne : ¬ (0 = d.nfd) := by omega
          unfold decAbsText; simp [h0, hn, hne]
        refine ⟨_, by rw [this, parse_nat], ?_⟩
        have := round_abs_bound d.coeff d.nfd 0 hn
        rw [Dec.toRat_eq, abs_div, abs_of_pos (by positivity : (0 : Rat) < 10 ^ d.nfd)]
        simpa using this
      · have hpp : 0 < p := Nat.pos_of_ne_zero hp0
        have hne : p ≠ d.nfd := by omega
        have : decAbsText (some p) d
            = natDigits ((divRoundHalfEven d.coeff (Dec.tenPow (d.nfd - p))).natAbs / 10 ^ p) ++ [46]
              ++ zeroPadLeft p (natDigits ((divRoundHalfEven d.coeff (Dec.tenPow (d.nfd - p))).natAbs % 10 ^ p)) := by
          unfold decAbsText; simp [h0, hmin, hpp, hne, hlt]
        refine ⟨_, by rw [this, parse_fixed _ _ _ hpp (Nat.mod_lt _ (by positivity)), Nat.div_add_mod'], ?_⟩
        have := round_abs_bound d.coeff d.nfd p hlt
        rw [Dec.toRat_eq, abs_div, abs_of_pos (by positivity : (0 : Rat) < 10 ^ d.nfd), pow10_eq]
        simpa using this
    · apply exact
      subst heq
      have : decAbsText (some d.nfd) d = decAbsText none d := by
        unfold decAbsText; simp [hmin]
      rw [this, dec_no_precision_exact]
    · apply exact
      have hpp : 0 < p := by omega
      have hne : p ≠ d.nfd := by omega
      have hnlt : ¬ p < d.nfd := by omega
      have : decAbsText (some p) d
          = natDigits (d.coeff.natAbs / 10 ^ d.nfd) ++ [46]
            ++ zeroPadLeft p (natDigits (d.coeff.natAbs % 10 ^ d.nfd * 10 ^ (p - d.nfd))) := by
        unfold decAbsText; simp [h0, hmin, hpp, hne, hnlt]
      obtain ⟨k, rfl⟩ : ∃ k, p = d.nfd + k := ⟨p - d.nfd, by omega⟩
      have hk : d.nfd + k - d.nfd = k := by omega
      rw [hk] at this
      have hlt : d.coeff.natAbs % 10 ^ d.nfd * 10 ^ k < 10 ^ (d.nfd + k) := by
        rw [pow_add]
        exact Nat.mul_lt_mul_of_pos_right (Nat.mod_lt _ (by positivity)) (by positivity)
      rw [this, parse_fixed _ _ _ hpp hlt, abs_toRat, pow10_eq]
      have e : d.coeff.natAbs / 10 ^ d.nfd * 10 ^ (d.nfd + k) + d.coeff.natAbs % 10 ^ d.nfd * 10 ^ k
          = d.coeff.natAbs * 10 ^ k := by
        conv_rhs => rw [← Nat.div_add_mod' d.coeff.natAbs (10 ^ d.nfd)]
        rw [pow_add]; ring
      rw [e]
      have h1 : (10 : Rat) ^ k ≠ 0 := by positivity
      have h2 : (10 : Rat) ^ d.nfd ≠ 0 := by positivity
      push_cast
      simp only [Nat.cast_natAbs, Int.cast_abs]
      rw [pow_add]
      field_simp

end Qty.C15
