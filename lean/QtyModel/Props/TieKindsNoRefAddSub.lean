import QtyModel.Ops
import QtyModel.Rate
import QtyModel.Generated.Algos
/-
  Tie between code and model for the ALGORITHMS (which trait method `+` and `-` of a quantity type WITHOUT reference unit, and of a single-unit type, forward to).

  `Generated/Algos.lean` is re-emitted from the Rust source on every run
  (tools/translate_algos.py).  Every theorem below states that the re-emitted definition IS the
  hand-written definition which the property theorems are about.  If a change of the code
  changes what one of these functions computes, its theorem no longer checks.
-/
namespace Qty.AlgoTie
open Qty Qty.Gen.Algos

set_option linter.unusedSectionVars false
variable {A U V W : Type} [DecidableEq U] [DecidableEq V] [DecidableEq W]
variable (R : Arith A) (T : QT A U)

theorem noRef_add (a b : Q A U) : Kind.noRef.add R T a b = nrAdd R a b := rfl
theorem noRef_sub (a b : Q A U) : Kind.noRef.sub R T a b = nrSub R a b := rfl
/-- single-unit types: no unit check, no comparison operators at all (the translator checked
that the template has no `PartialEq` / `PartialOrd` impl) -/
theorem single_add (a b : Q A U) :
    Kind.single.add R T a b = (do return ⟨← R.add a.amount b.amount, a.unit⟩) := rfl
theorem single_sub (a b : Q A U) :
    Kind.single.sub R T a b = (do return ⟨← R.sub a.amount b.amount, a.unit⟩) := rfl

end Qty.AlgoTie
