import QtyModel.Tables
namespace Qty.C01
end Qty.C01
