import QtyModel.Lemmas.Basic
/-
  C01 — Unit conversion preserves the physical value.

  Property theorems only.  Quantifiers: every arithmetic `R` satisfying the
  rounding laws `Laws R M`, every unit type `U`, every table `T` (i.e. every
  assignment of scales), every pair of units and every amount.
-/
namespace Qty.C01
open Qty

variable {A U : Type} [DecidableEq U] (R : Arith A) (T : QT A U)

/-- the converted value carries exactly the requested unit -/
theorem convert_unit (q r : Q A U) (u : U) (h : convert R T q u = .ok r) : r.unit = u := by
  unfold convert at h
  cases he : equivAmount R T q u with
  | error e => simp [he, bind, Except.bind] at h
  | ok v => simp [he, bind, Except.bind, pure, Except.pure] at h; rw [← h]

/-- converting to the unit a value already has returns the identical amount
(structurally the same value: no rounding, NaN / -0 / digit count preserved) -/
theorem convert_same_unit (q : Q A U) : convert R T q q.unit = .ok ⟨q.amount, q.unit⟩ := by
  simp [convert, equivAmount, bind, Except.bind, pure, Except.pure]

/-- `equiv_amount` returns the same number that `convert` stores -/
theorem equiv_eq_convert (q : Q A U) (u : U) :
    (convert R T q u).map (·.amount) = equivAmount R T q u := by
  unfold convert
  cases equivAmount R T q u <;> rfl

/-- the physical magnitude (amount × unit scale) is preserved up to the rounding of the
amount type: the error is at most `|s₂|·(E((|ρ|+E ρ)|a|) + |a|·E ρ)` with `ρ = s₁/s₂` —
the same function the run-time oracle `Oracle.c01` evaluates on implementation outputs. -/
theorem convert_mag {M : ErrModel} (L : Laws R M) (q : Q A U) (u : U) (s1 s2 a : Rat)
    (hne : q.unit ≠ u)
    (hs1 : R.val (T.scale q.unit) = some s1) (hs2 : R.val (T.scale u) = some s2) (hs2ne : s2 ≠ 0)
    (ha : R.val q.amount = some a) (hsafe : Oracle.convSafe M s1 s2 a = true) :
    ∃ r y, convert R T q u = .ok r ∧ r.unit = u ∧ R.val r.amount = some y ∧
      ratAbs (y * s2 - a * s1) ≤ Oracle.convBound M s1 s2 a := by
  simp only [Oracle.convSafe, Bool.and_eq_true] at hsafe
  obtain ⟨hsafe1, hsafe2⟩ := hsafe
  obtain ⟨ρ', r', hdiv, hρ'v, hρ'e⟩ := L.div_ok _ _ s1 s2 hs1 hs2 hs2ne hsafe1
  have hE := L.wf.E_nonneg (s1 / s2)
  have hcb : 0 ≤ Oracle.convBoundIn M s1 s2 a := by
    unfold Oracle.convBoundIn
    have h1 := L.wf.E_nonneg ((ratAbs (s1 / s2) + M.E (s1 / s2)) * ratAbs a)
    have h2 : 0 ≤ ratAbs a := by rw [ratAbs_eq_abs]; exact abs_nonneg a
    positivity
  -- |r'| ≤ |ρ| + E ρ
  rw [ratAbs_eq_abs] at hρ'e
  have hr' : |r'| ≤ |s1 / s2| + M.E (s1 / s2) := by
    have := abs_sub_abs_le_abs_sub r' (s1 / s2)
    linarith
  have hprod : ratAbs (r' * a) ≤ ratAbs ((ratAbs (s1 / s2) + M.E (s1 / s2)) * ratAbs a) := by
    simp only [ratAbs_eq_abs]
    rw [abs_mul, abs_mul, abs_abs]
    have : |r'| ≤ abs (|s1 / s2| + M.E (s1 / s2)) := le_trans hr' (le_abs_self _)
    exact mul_le_mul_of_nonneg_right this (abs_nonneg a)
  have hsafe3 : M.safe (r' * a) = true := by
    apply L.wf.safe_mono _ _ _ hsafe2
    refine le_trans hprod ?_
    simp only [ratAbs_eq_abs]
    have h0 : 0 ≤ (|s1 / s2| + M.E (s1 / s2)) * |a| := by positivity
    exact abs_le_abs_of_nonneg h0 (by linarith)
  obtain ⟨c, y, hmul, hyv, hye⟩ := L.mul_ok _ _ r' a hρ'v ha hsafe3
  refine ⟨⟨c, u⟩, y, ?_, rfl, hyv, ?_⟩
  · simp [convert, equivAmount, hne, ratio, hdiv, hmul, bind, Except.bind, pure, Except.pure]
  · have hE2 : M.E (r' * a) ≤ M.E ((ratAbs (s1 / s2) + M.E (s1 / s2)) * ratAbs a) :=
      L.wf.E_mono _ _ hprod
    rw [ratAbs_eq_abs] at hye
    unfold Oracle.convBound Oracle.convBoundIn
    simp only [ratAbs_eq_abs] at *
    have key : y * s2 - a * s1 = s2 * ((y - r' * a) + (r' - s1 / s2) * a) := by
      field_simp; ring
    rw [key, abs_mul]
    apply mul_le_mul_of_nonneg_left _ (abs_nonneg s2)
    calc |y - r' * a + (r' - s1 / s2) * a|
        ≤ |y - r' * a| + |(r' - s1 / s2) * a| := abs_add_le _ _
      _ = |y - r' * a| + |r' - s1 / s2| * |a| := by rw [abs_mul]
      _ ≤ M.E ((|s1 / s2| + M.E (s1 / s2)) * |a|) + |a| * M.E (s1 / s2) := by
          have := mul_le_mul_of_nonneg_right hρ'e (abs_nonneg a)
          linarith [mul_comm (M.E (s1 / s2)) |a|]

/-- non-vacuity: the hypotheses of `convert_mag` are met by a concrete conversion
(3.5 ft → in in the decimal back-end: scales 0.3048 and 0.0254) -/
example : Oracle.convSafe ErrModel.dec (3048 / 10000) (254 / 10000) (35 / 10) = true := by decide +kernel

end Qty.C01
