import QtyModel.Props.OracleSound
/-
  Second part of `OracleSound` (split per property so that a check only rests on the theorems of its
  own property): the remaining run-time oracles (`c04` division case, `c04rt`, `c02one`, `c02symm`,
  `c05fit`, `Approx.judge`) never reject the MODEL's own output.

  Every statement is tied to the place of `Main.lean` (function `step`) where the driver evaluates the
  oracle; where the driver computes the oracle's arguments with local `let`s, the same expressions are
  reproduced as definitions (`Drv.*`) and the theorem is about them.  This file: shared helpers.
-/
set_option linter.unusedSectionVars false
namespace Qty.OracleSound
open Qty

variable {A : Type} (R : Arith A)

/-- Boolean test used by the kernel-checked witnesses below (`Verdict` has no decidable equality) -/
def isFail : Verdict → Bool
  | .fail _ => true
  | _ => false

theorem not_noFail_of_isFail {v : Verdict} (h : isFail v = true) : ¬ NoFail v := by
  cases v with
  | fail w => exact fun hn => hn w rfl
  | ok => cases h
  | skip s => cases h

namespace Drv
theorem lift2_eq_some (f : Rat → Rat → Rat) (x y : Option Rat) (v : Rat)
    (h : (do pure (f (← x) (← y)) : Option Rat) = some v) :
    ∃ a b, x = some a ∧ y = some b ∧ v = f a b := by
  cases x with
  | none => simp at h
  | some a =>
    cases y with
    | none => simp at h
    | some b =>
      simp at h
      exact ⟨a, b, rfl, rfl, h.symm⟩

end Drv

end Qty.OracleSound
