import QtyModel.Props.OracleSoundBase
import QtyModel.Props.C02Inf
/- `OracleSound`, C02: cross-unit comparison. -/
set_option linter.unusedSectionVars false
namespace Qty.OracleSound
open Qty

variable {A : Type} (R : Arith A)

/-! ### C02: cross-unit comparison -/

/- The arguments of the oracles of the op `cmp` (quantity type with reference unit), computed as
`Main.lean` computes them: `si`, `sj` = `R.val` of the two unit scales, `va`, `vb` = `R.val` of the
two amounts. -/
namespace Drv

/-- `let mag (s v : Option Rat) : Option Rat := do let s ← s; let v ← v; pure (s * v)` -/
def mag (s v : Option Rat) : Option Rat := do
  let s ← s
  let v ← v
  pure (s * v)

/-- `let margin (sFrom sTo : Option Rat) (v : Option Rat) : Option Rat := …` -/
def margin (M : ErrModel) (sFrom sTo : Option Rat) (v : Option Rat) : Option Rat := do
  let s1 ← sFrom
  let s2 ← sTo
  let v ← v
  if Oracle.convSafe M s1 s2 v then pure (Oracle.convBound M s1 s2 v) else none

/-- `let mg : Option Rat := do let m1 ← margin sj si (R.val b); let m2 ← margin si sj (R.val a);
pure (if m1 < m2 then m2 else m1)` -/
def mg (M : ErrModel) (si sj va vb : Option Rat) : Option Rat := do
  let m1 ← margin M sj si vb
  let m2 ← margin M si sj va
  pure (if m1 < m2 then m2 else m1)

/-- the whole verdict of the op `cmp` for a type with reference unit:
`((Oracle.c02one (i == j) ownAB o1 mx my mg).and (Oracle.c02one (i == j) ownBA o2 my mx mg)).and
(if nanFree then Oracle.c02symm o1 o2 else .ok)` -/
def cmpVerdict (M : ErrModel) (sameUnit : Bool) (ownAB ownBA o1 o2 : Oracle.CmpObs)
    (si sj va vb : Option Rat) (nanFree : Bool) : Verdict :=
  ((Oracle.c02one sameUnit ownAB o1 (mag si va) (mag sj vb) (mg M si sj va vb)).and
    (Oracle.c02one sameUnit ownBA o2 (mag sj vb) (mag si va) (mg M si sj va vb))).and
    (if nanFree then Oracle.c02symm o1 o2 else .ok)

theorem mag_eq_some (s v : Option Rat) (m : Rat) (h : mag s v = some m) :
    ∃ s' v', s = some s' ∧ v = some v' ∧ m = s' * v' :=
  lift2_eq_some (fun p q => p * q) s v m h

theorem margin_eq_some (M : ErrModel) (sFrom sTo v : Option Rat) (m : Rat)
    (h : margin M sFrom sTo v = some m) :
    ∃ s1 s2 x, sFrom = some s1 ∧ sTo = some s2 ∧ v = some x ∧ Oracle.convSafe M s1 s2 x = true ∧
      m = Oracle.convBound M s1 s2 x := by
  cases sFrom with
  | none => simp [margin] at h
  | some s1 =>
    cases sTo with
    | none => simp [margin] at h
    | some s2 =>
      cases v with
      | none => simp [margin] at h
      | some x =>
        by_cases hs : Oracle.convSafe M s1 s2 x = true
        · simp [margin, hs] at h
          exact ⟨s1, s2, x, rfl, rfl, rfl, hs, h.symm⟩
        · simp [margin, hs] at h

/-- `mg` is the larger of the two conversion bounds, and exists only when both conversions are in range -/
theorem mg_eq_some (M : ErrModel) (si sj va vb : Option Rat) (m : Rat) (h : mg M si sj va vb = some m) :
    ∃ sa sb x y, si = some sa ∧ sj = some sb ∧ va = some x ∧ vb = some y ∧
      Oracle.convSafe M sb sa y = true ∧ Oracle.convSafe M sa sb x = true ∧
      m = max (Oracle.convBound M sb sa y) (Oracle.convBound M sa sb x) := by
  unfold mg at h
  cases h1 : margin M sj si vb with
  | none => simp [h1] at h
  | some m1 =>
    cases h2 : margin M si sj va with
    | none => simp [h1, h2] at h
    | some m2 =>
      simp only [h1, h2, Option.bind_eq_bind, Option.bind_some, Option.pure_def, Option.some.injEq] at h
      obtain ⟨sb, sa, y, hsj, hsi, hvb, hs1, rfl⟩ := margin_eq_some M _ _ _ _ h1
      obtain ⟨sa', sb', x, hsi', hsj', hva, hs2, rfl⟩ := margin_eq_some M _ _ _ _ h2
      rw [hsi] at hsi'; rw [hsj] at hsj'
      cases hsi'; cases hsj'
      refine ⟨sa, sb, x, y, hsi, hsj, hva, hvb, hs1, hs2, ?_⟩
      rw [← h]
      split
      · next hlt => exact (max_eq_right (le_of_lt hlt)).symm
      · next hlt => exact (max_eq_left (not_lt.mp hlt)).symm

end Drv

/-- what the model prints for one operand order is `CmpObs.ofPcmp e p`; it is consistent -/
theorem ofPcmp_consistent (e : Bool) (p : Option Ordering) (h : e = (p == some .eq)) :
    (Oracle.CmpObs.ofPcmp e p).consistent = true := by
  subst h
  cases p with
  | none => decide
  | some o => cases o <;> decide

/-- `Oracle.c02one` for one operand order, any margin that dominates the two conversion bounds -/
theorem c02one_noFail {M : ErrModel} (L : Laws R M) (T : QT A Nat) (a b : Q A Nat)
    (hposa : ∀ s, R.val (T.scale a.unit) = some s → 0 < s)
    (hposb : ∀ s, R.val (T.scale b.unit) = some s → 0 < s)
    (e : Bool) (p : Option Ordering)
    (he : hrEq R T a b = .ok e) (hp : hrPcmp R T a b = .ok p)
    (sameUnit : Bool) (hsame : sameUnit = decide (a.unit = b.unit))
    (omg : Option Rat)
    (hmg : ∀ m, omg = some m → ∀ sa sb x y, R.val (T.scale a.unit) = some sa →
      R.val (T.scale b.unit) = some sb → R.val a.amount = some x → R.val b.amount = some y →
      Oracle.convSafe M sb sa y = true ∧ Oracle.convSafe M sa sb x = true ∧
      max (Oracle.convBound M sb sa y) (Oracle.convBound M sa sb x) ≤ m) :
    NoFail (Oracle.c02one sameUnit
      (Oracle.CmpObs.ofPcmp (R.beq a.amount b.amount) (R.pcmp a.amount b.amount))
      (Oracle.CmpObs.ofPcmp e p)
      (Drv.mag (R.val (T.scale a.unit)) (R.val a.amount))
      (Drv.mag (R.val (T.scale b.unit)) (R.val b.amount)) omg) := by
  unfold Oracle.c02one
  apply and_ne_fail
  · exact NoFail.check _ (ofPcmp_consistent e p (C02.eq_iff_pcmp_eq R T L a b e p he hp))
  by_cases hu : a.unit = b.unit
  · rw [hsame]
    simp only [hu, decide_true, if_true]
    apply NoFail.check
    rw [C02.eq_same_unit R T a b hu] at he
    rw [C02.pcmp_same_unit R T a b hu] at hp
    cases he; cases hp
    exact beq_self_eq_true _
  · rw [hsame]
    simp only [hu, decide_false, Bool.false_eq_true, if_false]
    split
    next _ _ mx my m hmx hmy =>
      obtain ⟨sa, x, hsa, hx, rfl⟩ := Drv.mag_eq_some _ _ _ hmx
      obtain ⟨sb, y, hsb, hy, rfl⟩ := Drv.mag_eq_some _ _ _ hmy
      split
      · next hgap =>
        obtain ⟨hs1, hs2, hle⟩ := hmg m rfl sa sb x y hsa hsb hx hy
        rw [ratAbs_eq_abs] at hgap
        have hgap' : max (Oracle.convBound M sb sa y) (Oracle.convBound M sa sb x)
            < |x * sa - y * sb| := by
          rw [mul_comm x sa, mul_comm y sb]
          exact lt_of_le_of_lt hle hgap
        obtain ⟨hp', he'⟩ := C02.cmp_physical R T L a b sa sb x y hu hsa hsb (hposa sa hsa)
          (hposb sb hsb) hx hy hs1 hs2 hgap'
        rw [hp] at hp'; rw [he] at he'
        cases hp'; cases he'
        apply NoFail.check
        rw [mul_comm sa x, mul_comm sb y]
        simp [Oracle.CmpObs.ofPcmp]
      · exact NoFail.ok
    · exact NoFail.skip _

/-- **C02, one operand order** (`Main.lean`, op `cmp`, branch `T.kind == .withRef`, first call
`Oracle.c02one (i == j) ownAB o1 mx my mg`): `e`, `p` are what the model's `hrEq` / `hrPcmp`
returned for `(a, b)`, printed by `cmpGroup` as `CmpObs.ofPcmp e p`; `mx`, `my`, `mg` are computed
by `Drv.mag` / `Drv.mg` as the driver computes them (`mg` from `Oracle.convSafe` / `Oracle.convBound`).
The unit scales, when finite, are positive (the hypothesis of `C02.cmp_physical`; the driver does
not test it: with a negative scale the physical order IS reversed and the oracle rightly fails). -/
theorem c02one_accepts_model {M : ErrModel} (L : Laws R M) (T : QT A Nat) (a b : Q A Nat)
    (hposa : ∀ s, R.val (T.scale a.unit) = some s → 0 < s)
    (hposb : ∀ s, R.val (T.scale b.unit) = some s → 0 < s)
    (e : Bool) (p : Option Ordering)
    (he : hrEq R T a b = .ok e) (hp : hrPcmp R T a b = .ok p) (w : String) :
    Oracle.c02one (a.unit == b.unit)
      (Oracle.CmpObs.ofPcmp (R.beq a.amount b.amount) (R.pcmp a.amount b.amount))
      (Oracle.CmpObs.ofPcmp e p)
      (Drv.mag (R.val (T.scale a.unit)) (R.val a.amount))
      (Drv.mag (R.val (T.scale b.unit)) (R.val b.amount))
      (Drv.mg M (R.val (T.scale a.unit)) (R.val (T.scale b.unit)) (R.val a.amount) (R.val b.amount))
      ≠ .fail w := by
  refine c02one_noFail R L T a b hposa hposb e p he hp _
    (by by_cases h : a.unit = b.unit <;> simp [h]) _ ?_ w
  intro m hm sa sb x y hsa hsb hx hy
  obtain ⟨sa', sb', x', y', hsa', hsb', hx', hy', hs1, hs2, rfl⟩ := Drv.mg_eq_some M _ _ _ _ _ hm
  rw [hsa] at hsa'; rw [hsb] at hsb'; rw [hx] at hx'; rw [hy] at hy'
  cases hsa'; cases hsb'; cases hx'; cases hy'
  exact ⟨hs1, hs2, le_refl _⟩

/-- **C02, the other operand order** (`Main.lean`, op `cmp`, second call
`Oracle.c02one (i == j) ownBA o2 my mx mg` — same `(i == j)` and same `mg` as the first call):
`e`, `p` are what the model's `hrEq` / `hrPcmp` returned for `(b, a)`. -/
theorem c02one_accepts_model_swapped {M : ErrModel} (L : Laws R M) (T : QT A Nat) (a b : Q A Nat)
    (hposa : ∀ s, R.val (T.scale a.unit) = some s → 0 < s)
    (hposb : ∀ s, R.val (T.scale b.unit) = some s → 0 < s)
    (e : Bool) (p : Option Ordering)
    (he : hrEq R T b a = .ok e) (hp : hrPcmp R T b a = .ok p) (w : String) :
    Oracle.c02one (a.unit == b.unit)
      (Oracle.CmpObs.ofPcmp (R.beq b.amount a.amount) (R.pcmp b.amount a.amount))
      (Oracle.CmpObs.ofPcmp e p)
      (Drv.mag (R.val (T.scale b.unit)) (R.val b.amount))
      (Drv.mag (R.val (T.scale a.unit)) (R.val a.amount))
      (Drv.mg M (R.val (T.scale a.unit)) (R.val (T.scale b.unit)) (R.val a.amount) (R.val b.amount))
      ≠ .fail w := by
  refine c02one_noFail R L T b a hposb hposa e p he hp _ ?_ _ ?_ w
  · by_cases h : a.unit = b.unit
    · simp [h]
    · have h' : ¬ b.unit = a.unit := fun hh => h hh.symm
      simp [h, h']
  intro m hm sb sa y x hsb hsa hy hx
  obtain ⟨sa', sb', x', y', hsa', hsb', hx', hy', hs1, hs2, rfl⟩ := Drv.mg_eq_some M _ _ _ _ _ hm
  rw [hsa] at hsa'; rw [hsb] at hsb'; rw [hx] at hx'; rw [hy] at hy'
  cases hsa'; cases hsb'; cases hx'; cases hy'
  exact ⟨hs2, hs1, le_of_eq (max_comm _ _)⟩

namespace NegScale
/-- decimal back-end, unit `0` of scale `-1`, unit `1` of scale `1` (reference unit) -/
def T : QT Dec Nat := { units := [0, 1], scale := fun u => if u = 0 then ⟨-1, 0⟩ else ⟨1, 0⟩,
                        hasPrefix := fun _ => false, ref := 1 }
def a : Q Dec Nat := ⟨⟨1, 0⟩, 0⟩
def b : Q Dec Nat := ⟨⟨5, 0⟩, 1⟩
end NegScale

/-- Why `c02one_accepts_model` asks for positive scales (which the driver does not test): with a
unit of scale `-1`, `1·u₀` has magnitude `-1 < 5`, but the comparison is carried out in `u₀`
(`1` against `5 / -1 = -5`) and answers `>`.  The oracle FAILS on the model's output — rightly:
the property "comparison follows the physical magnitudes" (`C02.cmp_physical`) does not hold for
such a table, so this is no false alarm on code where the property holds. -/
theorem c02one_rejects_model_negative_scale :
    hrEq Dec.arith NegScale.T NegScale.a NegScale.b = .ok false ∧
    hrPcmp Dec.arith NegScale.T NegScale.a NegScale.b = .ok (some .gt) ∧
    ¬ NoFail (Oracle.c02one (NegScale.a.unit == NegScale.b.unit)
      (Oracle.CmpObs.ofPcmp (Dec.arith.beq NegScale.a.amount NegScale.b.amount)
        (Dec.arith.pcmp NegScale.a.amount NegScale.b.amount))
      (Oracle.CmpObs.ofPcmp false (some .gt))
      (Drv.mag (Dec.arith.val (NegScale.T.scale NegScale.a.unit)) (Dec.arith.val NegScale.a.amount))
      (Drv.mag (Dec.arith.val (NegScale.T.scale NegScale.b.unit)) (Dec.arith.val NegScale.b.amount))
      (Drv.mg ErrModel.dec (Dec.arith.val (NegScale.T.scale NegScale.a.unit))
        (Dec.arith.val (NegScale.T.scale NegScale.b.unit)) (Dec.arith.val NegScale.a.amount)
        (Dec.arith.val NegScale.b.amount))) := by
  refine ⟨by decide +kernel, by decide +kernel, ?_⟩
  apply not_noFail_of_isFail
  decide +kernel

/-- `Oracle.c02symm` accepts two observations related as `C02.cmp_symm` states -/
theorem c02symm_noFail_of_symm (T : QT A Nat) (a b : Q A Nat)
    (hsymm : hrPcmp R T b a = (hrPcmp R T a b).map Oracle.flipOrd ∧ hrEq R T b a = hrEq R T a b)
    (e1 e2 : Bool) (p1 p2 : Option Ordering)
    (he1 : hrEq R T a b = .ok e1) (hp1 : hrPcmp R T a b = .ok p1)
    (he2 : hrEq R T b a = .ok e2) (hp2 : hrPcmp R T b a = .ok p2) :
    NoFail (Oracle.c02symm (Oracle.CmpObs.ofPcmp e1 p1) (Oracle.CmpObs.ofPcmp e2 p2)) := by
  obtain ⟨hsp, hse⟩ := hsymm
  rw [hp1, hp2] at hsp
  rw [he1, he2] at hse
  cases hse
  have : p2 = Oracle.flipOrd p1 := Except.ok.inj hsp
  subst this
  unfold Oracle.c02symm
  apply NoFail.check
  cases p1 with
  | none => cases e1 <;> decide
  | some o => cases o <;> cases e1 <;> decide

/-- **C02, operand-order independence** (`Main.lean`, op `cmp`, `Oracle.c02symm o1 o2`, evaluated
when `nanFree`), strongest form that holds for EVERY arithmetic with `Laws`: the two units are
equal, or their (finite) scales differ, or — two different units of the same scale — the scale is
not zero and both amounts are finite.  The driver only knows `nanFree` (`partial_cmp` of each amount
with itself answers); for an abstract arithmetic that is weaker in the third case, and the
unrestricted statement is FALSE: `c02symm_rejects_model_ill_formed_datum`.  For binary64 the
unrestricted statement holds for every datum that is a binary64 value:
`c02symm_accepts_model_f64`. -/
theorem c02symm_accepts_model_partial {M : ErrModel} (L : Laws R M) (T : QT A Nat) (a b : Q A Nat)
    (hcase : a.unit = b.unit ∨
      ∃ sa sb, R.val (T.scale a.unit) = some sa ∧ R.val (T.scale b.unit) = some sb ∧
        (sa ≠ sb ∨ (sa ≠ 0 ∧ ∃ x y, R.val a.amount = some x ∧ R.val b.amount = some y)))
    (e1 e2 : Bool) (p1 p2 : Option Ordering)
    (he1 : hrEq R T a b = .ok e1) (hp1 : hrPcmp R T a b = .ok p1)
    (he2 : hrEq R T b a = .ok e2) (hp2 : hrPcmp R T b a = .ok p2) (w : String) :
    Oracle.c02symm (Oracle.CmpObs.ofPcmp e1 p1) (Oracle.CmpObs.ofPcmp e2 p2) ≠ .fail w := by
  refine c02symm_noFail_of_symm R T a b ?_ e1 e2 p1 p2 he1 hp1 he2 hp2 w
  rcases hcase with hu | ⟨sa, sb, hsa, hsb, hne | ⟨hsa0, x, y, hx, hy⟩⟩
  · exact C02.cmp_symm_same_unit R T L a b hu
  · exact C02.cmp_symm_diff_scale R T L a b sa sb hsa hsb hne
  · exact C02.cmp_symm R T L a b sa sb x y hsa hsb hsa0 hx hy

/-- The unrestricted statement (only `nanFree`, as the driver tests) is false for an abstract
arithmetic: `F64.arith` satisfies `Laws`, but its carrier also contains data that are no binary64
values (`fin false (2^53+1) 0`); such a datum has no exact value (`val = none`), compares with
itself (`nanFree`), and `1.0 * x` rounds it while `partial_cmp` does not.  With two different units
of the same scale the model answers `>` in one order and `==` in the other, and `Oracle.c02symm`
FAILS on the model's own output.  Not reachable from the driver: its binary64 parser
(`F64.ofBits`) only produces binary64 values (`ofBits_wf`). -/
theorem c02symm_rejects_model_ill_formed_datum :
    ∃ (T : QT F64 Nat) (a b : Q F64 Nat) (sa sb : Rat) (e1 e2 : Bool) (p1 p2 : Option Ordering),
      F64.arith.val (T.scale a.unit) = some sa ∧ F64.arith.val (T.scale b.unit) = some sb ∧
      0 < sa ∧ 0 < sb ∧
      ((F64.arith.pcmp a.amount a.amount).isSome && (F64.arith.pcmp b.amount b.amount).isSome) = true ∧
      hrEq F64.arith T a b = .ok e1 ∧ hrPcmp F64.arith T a b = .ok p1 ∧
      hrEq F64.arith T b a = .ok e2 ∧ hrPcmp F64.arith T b a = .ok p2 ∧
      ¬ NoFail (Oracle.c02symm (Oracle.CmpObs.ofPcmp e1 p1) (Oracle.CmpObs.ofPcmp e2 p2)) := by
  refine ⟨C02.exT, ⟨.fin false (2 ^ 53 + 1) 0, 0⟩, ⟨.fin false (2 ^ 52) 1, 2⟩, 1, 1,
    false, true, some .gt, some .eq,
    by decide +kernel, by decide +kernel, one_pos, one_pos, by decide +kernel,
    by decide +kernel, by decide +kernel, by decide +kernel, by decide +kernel, ?_⟩
  apply not_noFail_of_isFail
  decide +kernel

/-- every bit pattern the driver's binary64 parser accepts denotes a binary64 value -/
theorem ofBits_wf (b : Nat) : F64.wf (F64.ofBits b) = true := by
  unfold F64.ofBits
  dsimp only
  have hf : b / F64.two52 % 2048 < 2048 := Nat.mod_lt _ (by norm_num)
  have hm : b % F64.two52 < F64.two52 := Nat.mod_lt _ (by norm_num [F64.two52])
  generalize b / F64.two52 % 2048 = f at hf ⊢
  generalize b % F64.two52 = m at hm ⊢
  have h52 : F64.two52 = 4503599627370496 := by norm_num [F64.two52]
  have h53 : F64.two53 = 9007199254740992 := by norm_num [F64.two53]
  split_ifs with h1 h2 h3
  · simp only [F64.wf, F64.eMin, F64.eMax]
    refine Bool.and_eq_true_iff.mpr ⟨Bool.and_eq_true_iff.mpr
      ⟨decide_eq_true ?_, decide_eq_true ?_⟩, decide_eq_true ?_⟩ <;> omega
  · rfl
  · rfl
  · simp only [F64.wf, F64.eMin, F64.eMax]
    refine Bool.and_eq_true_iff.mpr ⟨Bool.and_eq_true_iff.mpr
      ⟨decide_eq_true ?_, decide_eq_true ?_⟩, decide_eq_true ?_⟩ <;> omega

theorem f64_ne_nan_of_pcmp_self (a : F64) (h : (F64.arith.pcmp a a).isSome = true) : a ≠ F64.nan := by
  rintro rfl
  exact absurd h (by decide)

/-- **C02, operand-order independence, binary64 back-end**: exactly the driver's situation
(`nanFree`; finite unit scales; amounts that are binary64 values, as everything `F64.ofBits`
produces is) — equal units, different scales, or different units of equal (even zero) scale,
finite or infinite amounts. -/
theorem c02symm_accepts_model_f64 (T : QT F64 Nat) (a b : Q F64 Nat) (sa sb : Rat)
    (hsa : F64.arith.val (T.scale a.unit) = some sa) (hsb : F64.arith.val (T.scale b.unit) = some sb)
    (hnan : ((F64.arith.pcmp a.amount a.amount).isSome && (F64.arith.pcmp b.amount b.amount).isSome) = true)
    (hwa : F64.wf a.amount = true) (hwb : F64.wf b.amount = true)
    (e1 e2 : Bool) (p1 p2 : Option Ordering)
    (he1 : hrEq F64.arith T a b = .ok e1) (hp1 : hrPcmp F64.arith T a b = .ok p1)
    (he2 : hrEq F64.arith T b a = .ok e2) (hp2 : hrPcmp F64.arith T b a = .ok p2) (w : String) :
    (if ((F64.arith.pcmp a.amount a.amount).isSome && (F64.arith.pcmp b.amount b.amount).isSome)
      then Oracle.c02symm (Oracle.CmpObs.ofPcmp e1 p1) (Oracle.CmpObs.ofPcmp e2 p2) else .ok)
      ≠ .fail w := by
  rw [hnan]
  simp only [if_true]
  rw [Bool.and_eq_true] at hnan
  exact c02symm_noFail_of_symm F64.arith T a b
    (C02.f64_cmp_symm_nonnan' T a b sa sb hsa hsb (f64_ne_nan_of_pcmp_self _ hnan.1)
      (f64_ne_nan_of_pcmp_self _ hnan.2) hwa hwb) e1 e2 p1 p2 he1 hp1 he2 hp2 w

/-- **C02, the whole verdict of the op `cmp`** (type with reference unit) on the model's own
answers for both operand orders, `Drv.cmpVerdict` being the driver's expression
`((c02one (i == j) ownAB o1 mx my mg).and (c02one (i == j) ownBA o2 my mx mg)).and
(if nanFree then c02symm o1 o2 else .ok)`; `hcase` is only needed when `nanFree` holds. -/
theorem cmp_accepts_model {M : ErrModel} (L : Laws R M) (T : QT A Nat) (a b : Q A Nat)
    (hposa : ∀ s, R.val (T.scale a.unit) = some s → 0 < s)
    (hposb : ∀ s, R.val (T.scale b.unit) = some s → 0 < s)
    (hcase : ((R.pcmp a.amount a.amount).isSome && (R.pcmp b.amount b.amount).isSome) = true →
      a.unit = b.unit ∨
      ∃ sa sb, R.val (T.scale a.unit) = some sa ∧ R.val (T.scale b.unit) = some sb ∧
        (sa ≠ sb ∨ (sa ≠ 0 ∧ ∃ x y, R.val a.amount = some x ∧ R.val b.amount = some y)))
    (e1 e2 : Bool) (p1 p2 : Option Ordering)
    (he1 : hrEq R T a b = .ok e1) (hp1 : hrPcmp R T a b = .ok p1)
    (he2 : hrEq R T b a = .ok e2) (hp2 : hrPcmp R T b a = .ok p2) (w : String) :
    Drv.cmpVerdict M (a.unit == b.unit)
      (Oracle.CmpObs.ofPcmp (R.beq a.amount b.amount) (R.pcmp a.amount b.amount))
      (Oracle.CmpObs.ofPcmp (R.beq b.amount a.amount) (R.pcmp b.amount a.amount))
      (Oracle.CmpObs.ofPcmp e1 p1) (Oracle.CmpObs.ofPcmp e2 p2)
      (R.val (T.scale a.unit)) (R.val (T.scale b.unit)) (R.val a.amount) (R.val b.amount)
      ((R.pcmp a.amount a.amount).isSome && (R.pcmp b.amount b.amount).isSome) ≠ .fail w := by
  suffices hh : NoFail (Drv.cmpVerdict M (a.unit == b.unit)
      (Oracle.CmpObs.ofPcmp (R.beq a.amount b.amount) (R.pcmp a.amount b.amount))
      (Oracle.CmpObs.ofPcmp (R.beq b.amount a.amount) (R.pcmp b.amount a.amount))
      (Oracle.CmpObs.ofPcmp e1 p1) (Oracle.CmpObs.ofPcmp e2 p2)
      (R.val (T.scale a.unit)) (R.val (T.scale b.unit)) (R.val a.amount) (R.val b.amount)
      ((R.pcmp a.amount a.amount).isSome && (R.pcmp b.amount b.amount).isSome)) from hh w
  unfold Drv.cmpVerdict
  apply and_ne_fail
  · apply and_ne_fail
    · exact fun w => c02one_accepts_model R L T a b hposa hposb e1 p1 he1 hp1 w
    · exact fun w => c02one_accepts_model_swapped R L T a b hposa hposb e2 p2 he2 hp2 w
  · cases hn : ((R.pcmp a.amount a.amount).isSome && (R.pcmp b.amount b.amount).isSome) with
    | false => simp only [Bool.false_eq_true, if_false]; exact NoFail.ok
    | true =>
      simp only [if_true]
      exact fun w => c02symm_accepts_model_partial R L T a b (hcase hn) e1 e2 p1 p2 he1 hp1 he2 hp2 w

end Qty.OracleSound
