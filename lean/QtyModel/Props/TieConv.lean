import QtyModel.Ops
import QtyModel.Generated.Algos
/-
  Tie between code and model for the ALGORITHMS (`LinearScaledUnit::ratio`, `HasRefUnit::{equiv_amount, convert}`).

  `Generated/Algos.lean` is re-emitted from the Rust source on every run
  (tools/translate_algos.py).  Every theorem below states that the re-emitted definition IS the
  hand-written definition of `Ops.lean` which the property theorems are about.  If a change of
  the code changes what one of these functions computes, its theorem no longer checks.
-/
namespace Qty.AlgoTie
open Qty Qty.Gen.Algos

set_option linter.unusedSectionVars false
variable {A U V W : Type} [DecidableEq U] [DecidableEq V] [DecidableEq W]
variable (R : Arith A) (T : QT A U)

theorem ratio_eq (u v : U) : LinearScaledUnit.ratio R T u v = ratio R T u v := rfl

theorem equiv_amount_eq (q : Q A U) (u : U) : HasRefUnit.equiv_amount R T q u = equivAmount R T q u := rfl

theorem convert_eq (q : Q A U) (u : U) : HasRefUnit.convert R T q u = convert R T q u := rfl

end Qty.AlgoTie
