import QtyModel.Props.C13
import QtyModel.Props.C18Generated
/-
  C13Generated — property C13 ("rates") END-TO-END for the types the macro generates.

  `Props/C13` proves the rate operators sound over an ARBITRARY run-time table, with the table's
  scales read inside the propagated description `approxRateApply`.  `Props/Bridge`, `Bridge2`,
  `C18Generated` prove that every table the macro model generates has the exact literal values as
  scales (`GeneratedDec T sc`).  Here the two are composed.  (The first sentence of the property —
  a rate reports its four components, the reciprocal swaps them and is an involution — involves no
  table: `C13.accessors`, `from_qty_vals`, `reciprocal_swaps`, `reciprocal_involutive`.)

   0. `rateApproxM`, `Scaled`, `approxRateApply_scaled`: the propagated description on exact scales
      for any rounding model; what is used of a table (reference unit, exact positive scales).
   1. decimal closed form: inside the range condition `rateInRange` (plain inequalities: divisor
      not zero, scale ratio above two roundings, every intermediate magnitude plus bound at most
      `1e19`) the description IS `rateVal ± rateBound`, `rateBound` an explicit rational function
      (`rateBound_same`, `rateBound_diff`), and `rateInRange` is EQUIVALENT to the hypotheses
      `rateApprox … = some w`, `w.ok = true` of `C18.dec_rate_mul_total_generated`
      (`rateInRange_iff`, `rateApproxM_spec`).
   2. any back-end over `Scaled` tables: `mulQ_value_scaled`, `divQ_value_scaled`,
      `rate_inverse_scaled`.
   3. decimal, generated tables (`GeneratedDec`): `mulQ_value_generated_dec`,
      `divQ_value_generated_dec` (+ `…_of_in_range`), `div_is_mul_reciprocal_generated_dec`
      (`q / rate` and `q * rate.reciprocal` return the SAME value), `rate_inverse_generated_dec`
      (`(rate * q) / rate`) and `rate_inverse_generated_dec'` (`rate * (q / rate)`).
   4. binary64, generated tables with scale literals in the normal range (`GeneratedF64`): the same
      statements on the exact values `Bridge.f64Sc T` of the rounded literals; the bound is the
      `.err` of the propagated description (relative rounding: not unfolded), and the round trip
      is stated for every intermediate amount within the first step's bound.
   5. catalogue: `catalogue_rate_value_dec`, `catalogue_rate_inverse_dec`,
      `catalogue_rate_value_f64` — no hypothesis on a table is left.
   6. non-vacuity: `90 km per 2 h` applied to `3 h` / `180 min` on the generated `Length` and
      `Duration` tables, in both directions and round trip, both back-ends.

  Nothing had to be weakened (no `…_partial` statement).  Side conditions that remain, and why:
  the units are units of their tables; the range condition; positive scale literals
  (`GeneratedDec`, true of the whole catalogue) — `value_needs_positive_literals` is a
  kernel-checked witness that they cannot be dropped (a unit of scale `0.0` is accepted by the
  macro; same-unit application returns `ta · qv / pm` while the formula through the scales gives
  zero).  In `rate_inverse_generated_dec` the second range condition is taken at the largest
  magnitude the intermediate amount can have (exact value plus `rateBound`); the second step is a
  same-unit application, whose range condition is monotone in the magnitude
  (`rateInRange_same_mono`) and whose bound does not depend on the value.
-/
set_option linter.unusedSectionVars false
set_option linter.unusedVariables false
namespace Qty.C13
open Qty Qty.Rate Qty.MacroFront Qty.Bridge Qty.C18 Qty.C09

/-! ### 0. the propagated description on exact scales, for any rounding model -/

/-- `C18.rateApprox` for an arbitrary rounding model `M`: the error-propagated description of
`((q / 1·u) / d) * m` written on the exact unit scales `sc` of a table with reference unit -/
def rateApproxM (M : ErrModel) (sc : Nat → Rat) (qv : Rat) (qu u : Nat) (dv mv : Rat) :
    Option Approx := do
  let x ← (if qu == u then Approx.div M (Approx.exact qv) (Approx.exact 1)
    else do
      let ratio ← Approx.div M (Approx.exact (sc u)) (Approx.exact (sc qu))
      Approx.div M (Approx.exact qv) (Approx.mul M ratio (Approx.exact 1)))
  let amnt ← Approx.div M x (Approx.exact dv)
  pure (Approx.mul M amnt (Approx.exact mv))

theorem rateApprox_eq (sc : Nat → Rat) (qv : Rat) (qu u : Nat) (dv mv : Rat) :
    C18.rateApprox sc qv qu u dv mv = rateApproxM ErrModel.dec sc qv qu u dv mv := rfl

/-- what the rate theorems use of a table: it has a reference unit and every unit `u < T.n` has the
finite positive scale `sc u` -/
structure Scaled {A : Type} (R : Arith A) (T : RTable A) (sc : Nat → Rat) : Prop where
  kind : T.kind = .withRef
  scale : ∀ u, u < T.n → R.val (T.scaleOf R u) = some (sc u) ∧ 0 < sc u

theorem generatedDec_scaled {T : RTable Dec} {sc : Nat → Rat} (hg : GeneratedDec T sc) :
    Scaled Dec.arith T sc :=
  ⟨hg.generated.kind, fun u hu => hg.scale u hu⟩

section generic
variable {A : Type} (R : Arith A) {M : ErrModel}

theorem approxRateApply_scaled {T : RTable A} {sc : Nat → Rat} (hs : Scaled R T sc)
    (qv : Rat) (qu u : Nat) (dv mv : Rat) (hqu : qu < T.n) (hu : u < T.n) :
    approxRateApply R M T (Approx.exact qv) qu u (Approx.exact dv) (Approx.exact mv)
      = .ok (rateApproxM M sc qv qu u dv mv) := by
  have h1 := (hs.scale u hu).1
  have h2 := (hs.scale qu hqu).1
  unfold approxRateApply approxQDiv rateApproxM
  rw [hs.kind]
  by_cases h : qu = u
  · subst h; simp
  · have h' : (qu == u) = false := by simpa using h
    simp only [h', h1, h2]
    rfl

/-- the three steps of `rateApproxM` -/
theorem rateApproxM_inv (sc : Nat → Rat) (qv : Rat) (qu u : Nat) (dv mv : Rat) (w : Approx)
    (hw : rateApproxM M sc qv qu u dv mv = some w) :
    ∃ x amnt,
      (if qu = u then Approx.div M (Approx.exact qv) (Approx.exact 1)
        else (Approx.div M (Approx.exact (sc u)) (Approx.exact (sc qu))).bind fun ratio =>
          Approx.div M (Approx.exact qv) (Approx.mul M ratio (Approx.exact 1))) = some x ∧
      Approx.div M x (Approx.exact dv) = some amnt ∧ w = Approx.mul M amnt (Approx.exact mv) := by
  unfold rateApproxM at hw
  by_cases h : qu = u
  · subst h
    simp only [beq_self_eq_true, if_true, Option.bind_eq_bind, Option.bind_eq_some_iff,
      Option.pure_def, Option.some.injEq] at hw ⊢
    obtain ⟨x, hx, amnt, ham, rfl⟩ := hw
    exact ⟨x, amnt, hx, ham, rfl⟩
  · have h' : (qu == u) = false := by simpa using h
    simp only [h', Bool.false_eq_true, if_false, h, Option.bind_eq_bind, Option.bind_eq_some_iff,
      Option.pure_def, Option.some.injEq] at hw ⊢
    obtain ⟨x, ⟨ρ, hρ, hx⟩, amnt, ham, rfl⟩ := hw
    exact ⟨x, amnt, ⟨ρ, hρ, hx⟩, ham, rfl⟩

end generic

/-! ### 1. the decimal back-end: closed form of the propagated description -/

theorem div_exact (M : ErrModel) (a : Approx) (c : Rat) (hc : c ≠ 0) :
    Approx.div M a (Approx.exact c) = some ⟨a.v / c, a.err / |c| + M.E (|a.v / c| + a.err / |c|),
      a.ok && M.safe (|a.v / c| + a.err / |c| + M.E (|a.v / c| + a.err / |c|))⟩ := by
  have hc' : 0 < |c| := abs_pos.mpr hc
  have e : (|a.v| * 0 + |c| * a.err) / (|c| * (|c| - 0)) = a.err / |c| := by
    rw [mul_zero, zero_add, sub_zero, mul_div_mul_left _ _ (ne_of_gt hc')]
  unfold Approx.div
  simp only [Approx.exact, ratAbs_eq_abs, not_le.mpr hc', if_false, e, Bool.and_true]

theorem div_exact_zero (M : ErrModel) (a : Approx) :
    Approx.div M a (Approx.exact 0) = none := by
  simp [Approx.div, Approx.exact, ratAbs_eq_abs]

theorem mul_exact (M : ErrModel) (a : Approx) (c : Rat) :
    Approx.mul M a (Approx.exact c) = ⟨a.v * c, |c| * a.err + M.E (|a.v * c| + |c| * a.err),
      a.ok && M.safe (|a.v * c| + |c| * a.err + M.E (|a.v * c| + |c| * a.err))⟩ := by
  have e : |a.v| * 0 + |c| * a.err + a.err * 0 = |c| * a.err := by ring
  simp only [Approx.mul, Approx.exact, ratAbs_eq_abs, e, Bool.and_true]

/-- half a unit in the 18th decimal place: the rounding error of one decimal `*` or `/` -/
def eta : Rat := 1 / (2 * 10 ^ 18)

theorem dec_E_eta (t : Rat) : ErrModel.dec.E t = eta := Dec.dec_E t

theorem eta_pos : 0 < eta := by unfold eta; positivity

def qstep (M : ErrModel) (sc : Nat → Rat) (qv : Rat) (qu u : Nat) : Option Approx :=
  if qu == u then Approx.div M (Approx.exact qv) (Approx.exact 1)
    else do
      let ratio ← Approx.div M (Approx.exact (sc u)) (Approx.exact (sc qu))
      Approx.div M (Approx.exact qv) (Approx.mul M ratio (Approx.exact 1))

theorem rateApproxM_steps (M : ErrModel) (sc : Nat → Rat) (qv : Rat) (qu u : Nat) (dv mv : Rat) :
    rateApproxM M sc qv qu u dv mv = (qstep M sc qv qu u).bind fun x =>
      (Approx.div M x (Approx.exact dv)).bind fun amnt =>
        some (Approx.mul M amnt (Approx.exact mv)) := rfl

theorem qstep_same (sc : Nat → Rat) (qv : Rat) (u : Nat) :
    qstep ErrModel.dec sc qv u u = some ⟨qv, eta, ErrModel.dec.safe (|qv| + eta)⟩ := by
  unfold qstep
  rw [if_pos (by simp), div_exact _ _ 1 one_ne_zero]
  simp [Approx.exact, dec_E_eta]

theorem qstep_diff (sc : Nat → Rat) (qv : Rat) (qu u : Nat) (h : qu ≠ u) (hq : sc qu ≠ 0)
    (hρ : 2 * eta < |sc u / sc qu|) :
    qstep ErrModel.dec sc qv qu u = some ⟨qv / (sc u / sc qu),
      2 * eta * |qv| / (|sc u / sc qu| * (|sc u / sc qu| - 2 * eta)) + eta,
      ErrModel.dec.safe (|sc u / sc qu| + eta) && ErrModel.dec.safe (|sc u / sc qu| + 2 * eta) &&
      ErrModel.dec.safe (|qv / (sc u / sc qu)| +
        2 * eta * |qv| / (|sc u / sc qu| * (|sc u / sc qu| - 2 * eta)) + eta)⟩ := by
  unfold qstep
  have h' : (qu == u) = false := by simpa using h
  rw [h', div_exact _ _ _ hq]
  simp only [Bool.false_eq_true, if_false, Option.bind_eq_bind, Option.bind_some, mul_exact]
  unfold Approx.div
  simp only [Approx.exact, dec_E_eta, ratAbs_eq_abs, zero_div, add_zero, zero_add, mul_one,
    abs_one, one_mul, mul_zero, Bool.true_and]
  have e1 : eta + eta = 2 * eta := by ring
  have e2 : |qv| * (2 * eta) = 2 * eta * |qv| := by ring
  have e3 : |sc u / sc qu| + eta + eta = |sc u / sc qu| + 2 * eta := by ring
  simp only [e1, e2, e3]
  rw [if_neg (by linarith)]

theorem qstep_diff_some (sc : Nat → Rat) (qv : Rat) (qu u : Nat) (h : qu ≠ u) (x : Approx)
    (hx : qstep ErrModel.dec sc qv qu u = some x) : sc qu ≠ 0 ∧ 2 * eta < |sc u / sc qu| := by
  have h' : (qu == u) = false := by simpa using h
  by_cases hq : sc qu = 0
  · unfold qstep at hx
    rw [h', hq, div_exact_zero] at hx
    simp at hx
  · refine ⟨hq, ?_⟩
    by_contra hlt
    unfold qstep at hx
    rw [h', div_exact _ _ _ hq] at hx
    simp only [Bool.false_eq_true, if_false, Option.bind_eq_bind, Option.bind_some, mul_exact] at hx
    unfold Approx.div at hx
    simp only [Approx.exact, dec_E_eta, ratAbs_eq_abs, zero_div, add_zero, zero_add, mul_one,
      abs_one, one_mul, mul_zero, Bool.true_and] at hx
    rw [if_pos (by linarith [not_lt.mp hlt])] at hx
    cases hx

/-- exact value of the first step `q / (1·u)`: the amount of `q` expressed in unit `u` -/
def qdivVal (sc : Nat → Rat) (qv : Rat) (qu u : Nat) : Rat :=
  if qu = u then qv else qv / (sc u / sc qu)

/-- error bound of the first step `q / (1·u)` in the decimal back-end -/
def qdivBound (sc : Nat → Rat) (qv : Rat) (qu u : Nat) : Rat :=
  if qu = u then eta
  else 2 * eta * |qv| / (|sc u / sc qu| * (|sc u / sc qu| - 2 * eta)) + eta

def qOk (sc : Nat → Rat) (qv : Rat) (qu u : Nat) : Bool :=
  if qu = u then ErrModel.dec.safe (|qv| + eta)
  else ErrModel.dec.safe (|sc u / sc qu| + eta) && ErrModel.dec.safe (|sc u / sc qu| + 2 * eta) &&
      ErrModel.dec.safe (|qv / (sc u / sc qu)| +
        2 * eta * |qv| / (|sc u / sc qu| * (|sc u / sc qu| - 2 * eta)) + eta)

theorem qstep_closed (sc : Nat → Rat) (qv : Rat) (qu u : Nat)
    (hρ : qu ≠ u → sc qu ≠ 0 ∧ 2 * eta < |sc u / sc qu|) :
    qstep ErrModel.dec sc qv qu u
      = some ⟨qdivVal sc qv qu u, qdivBound sc qv qu u, qOk sc qv qu u⟩ := by
  unfold qdivVal qdivBound qOk
  by_cases h : qu = u
  · subst h
    simp only [if_true, qstep_same]
  · simp only [if_neg h]
    exact qstep_diff sc qv qu u h (hρ h).1 (hρ h).2

/-- exact value of `((q / 1·u) / d) * m` -/
def rateVal (sc : Nat → Rat) (qv : Rat) (qu u : Nat) (dv mv : Rat) : Rat :=
  qdivVal sc qv qu u / dv * mv

/-- error bound of `((q / 1·u) / d) * m` in the decimal back-end, an explicit rational function of
the exact scales and the exact values of the three amounts -/
def rateBound (sc : Nat → Rat) (qv : Rat) (qu u : Nat) (dv mv : Rat) : Rat :=
  |mv| * (qdivBound sc qv qu u / |dv| + eta) + eta

theorem rateApproxM_closed (sc : Nat → Rat) (qv : Rat) (qu u : Nat) (dv mv : Rat) (hd : dv ≠ 0)
    (hρ : qu ≠ u → sc qu ≠ 0 ∧ 2 * eta < |sc u / sc qu|) :
    rateApproxM ErrModel.dec sc qv qu u dv mv = some ⟨rateVal sc qv qu u dv mv,
      rateBound sc qv qu u dv mv,
      qOk sc qv qu u &&
      ErrModel.dec.safe (|qdivVal sc qv qu u / dv| + qdivBound sc qv qu u / |dv| + eta) &&
      ErrModel.dec.safe (|rateVal sc qv qu u dv mv| + rateBound sc qv qu u dv mv)⟩ := by
  rw [rateApproxM_steps, qstep_closed sc qv qu u hρ]
  simp only [Option.bind_some, div_exact _ _ dv hd, mul_exact, dec_E_eta, rateVal, rateBound,
    add_assoc]

theorem rateApproxM_some (sc : Nat → Rat) (qv : Rat) (qu u : Nat) (dv mv : Rat) (w : Approx)
    (hw : rateApproxM ErrModel.dec sc qv qu u dv mv = some w) :
    dv ≠ 0 ∧ (qu ≠ u → sc qu ≠ 0 ∧ 2 * eta < |sc u / sc qu|) := by
  rw [rateApproxM_steps] at hw
  cases hx : qstep ErrModel.dec sc qv qu u with
  | none => rw [hx] at hw; cases hw
  | some x =>
    rw [hx] at hw
    refine ⟨?_, fun h => qstep_diff_some sc qv qu u h x hx⟩
    rintro rfl
    simp [div_exact_zero] at hw

/-- the range condition of `((q / 1·u) / d) * m` in the decimal back-end, in plain inequalities:
the divisor is not zero, the ratio of the two unit scales can be told from zero after two roundings
and every intermediate magnitude plus its error bound is at most `1e19` -/
def rateInRange (sc : Nat → Rat) (qv : Rat) (qu u : Nat) (dv mv : Rat) : Prop :=
  dv ≠ 0 ∧
  (qu ≠ u → 2 * eta < |sc u / sc qu| ∧ |sc u / sc qu| + 2 * eta ≤ 10 ^ 19) ∧
  |qdivVal sc qv qu u| + qdivBound sc qv qu u ≤ 10 ^ 19 ∧
  |qdivVal sc qv qu u / dv| + (qdivBound sc qv qu u / |dv| + eta) ≤ 10 ^ 19 ∧
  |rateVal sc qv qu u dv mv| + rateBound sc qv qu u dv mv ≤ 10 ^ 19

instance (sc : Nat → Rat) (qv : Rat) (qu u : Nat) (dv mv : Rat) :
    Decidable (rateInRange sc qv qu u dv mv) := by
  unfold rateInRange; infer_instance

theorem safe_nonneg (x : Rat) (hx : 0 ≤ x) : ErrModel.dec.safe x = true ↔ x ≤ 10 ^ 19 := by
  rw [Dec.safe_iff, abs_of_nonneg hx]

theorem ratio_ne_zero (sc : Nat → Rat) (qu u : Nat) (h : 2 * eta < |sc u / sc qu|) :
    sc qu ≠ 0 := by
  intro h0
  rw [h0, div_zero, abs_zero] at h
  linarith [eta_pos]

theorem qdivBound_nonneg (sc : Nat → Rat) (qv : Rat) (qu u : Nat)
    (hρ : qu ≠ u → 2 * eta < |sc u / sc qu|) : 0 ≤ qdivBound sc qv qu u := by
  unfold qdivBound
  have := eta_pos
  split_ifs with h
  · linarith
  · have h2 : 0 < |sc u / sc qu| - 2 * eta := by linarith [hρ h]
    have h3 : 0 < |sc u / sc qu| := by linarith
    positivity

theorem qOk_iff (sc : Nat → Rat) (qv : Rat) (qu u : Nat)
    (hρ : qu ≠ u → 2 * eta < |sc u / sc qu|) :
    qOk sc qv qu u = true ↔ (qu ≠ u → |sc u / sc qu| + 2 * eta ≤ 10 ^ 19) ∧
      |qdivVal sc qv qu u| + qdivBound sc qv qu u ≤ 10 ^ 19 := by
  have he := eta_pos
  unfold qOk qdivVal qdivBound
  by_cases h : qu = u
  · simp only [if_pos h]
    rw [safe_nonneg _ (by positivity)]
    exact ⟨fun hh => ⟨fun h' => absurd h h', hh⟩, fun hh => hh.2⟩
  · have h2 : 0 < |sc u / sc qu| - 2 * eta := by linarith [hρ h]
    have h3 : 0 < |sc u / sc qu| := by linarith
    simp only [if_neg h, Bool.and_eq_true]
    rw [safe_nonneg _ (by positivity), safe_nonneg _ (by positivity), safe_nonneg _ (by positivity)]
    constructor
    · rintro ⟨⟨-, hb⟩, hc⟩
      exact ⟨fun _ => hb, by linarith⟩
    · rintro ⟨hb, hc⟩
      exact ⟨⟨by linarith [hb h], hb h⟩, by linarith⟩

/-- **closed form**: inside the range condition the propagated description is the exact value
`rateVal` with the explicit error bound `rateBound` -/
theorem rateApproxM_of_inRange (sc : Nat → Rat) (qv : Rat) (qu u : Nat) (dv mv : Rat)
    (h : rateInRange sc qv qu u dv mv) :
    rateApproxM ErrModel.dec sc qv qu u dv mv
      = some ⟨rateVal sc qv qu u dv mv, rateBound sc qv qu u dv mv, true⟩ := by
  obtain ⟨hd, hρ, h1, h2, h3⟩ := h
  have hρ' : qu ≠ u → 2 * eta < |sc u / sc qu| := fun hh => (hρ hh).1
  have he := eta_pos
  have hb := qdivBound_nonneg sc qv qu u hρ'
  have hd' : 0 < |dv| := abs_pos.mpr hd
  rw [rateApproxM_closed sc qv qu u dv mv hd (fun hh => ⟨ratio_ne_zero sc qu u (hρ' hh), hρ' hh⟩)]
  congr 2
  simp only [Bool.and_eq_true]
  refine ⟨⟨(qOk_iff sc qv qu u hρ').mpr ⟨fun hh => (hρ hh).2, h1⟩, ?_⟩, ?_⟩
  · rw [safe_nonneg _ (by positivity)]; linarith
  · rw [safe_nonneg _ (by unfold rateBound; positivity)]; exact h3

/-- the explicit range condition is EQUIVALENT to `some w`, `w.ok` of the propagated description
(the hypotheses of `C18.dec_rate_mul_total_generated`), and `w` is `rateVal ± rateBound` -/
theorem rateApproxM_spec (sc : Nat → Rat) (qv : Rat) (qu u : Nat) (dv mv : Rat) (w : Approx)
    (hw : rateApproxM ErrModel.dec sc qv qu u dv mv = some w) :
    w.v = rateVal sc qv qu u dv mv ∧ w.err = rateBound sc qv qu u dv mv ∧
    (w.ok = true ↔ rateInRange sc qv qu u dv mv) := by
  obtain ⟨hd, hρ⟩ := rateApproxM_some sc qv qu u dv mv w hw
  have hρ' : qu ≠ u → 2 * eta < |sc u / sc qu| := fun hh => (hρ hh).2
  have he := eta_pos
  have hb := qdivBound_nonneg sc qv qu u hρ'
  have hd' : 0 < |dv| := abs_pos.mpr hd
  rw [rateApproxM_closed sc qv qu u dv mv hd hρ, Option.some.injEq] at hw
  subst hw
  refine ⟨rfl, rfl, ?_⟩
  simp only [Bool.and_eq_true]
  rw [qOk_iff sc qv qu u hρ', safe_nonneg _ (by positivity),
    safe_nonneg _ (by unfold rateBound; positivity)]
  unfold rateInRange
  constructor
  · rintro ⟨⟨⟨ha, hb⟩, hc⟩, hdd⟩
    exact ⟨hd, fun hh => ⟨hρ' hh, ha hh⟩, hb, by linarith, hdd⟩
  · rintro ⟨-, ha, hb, hc, hdd⟩
    exact ⟨⟨⟨fun hh => (ha hh).2, hb⟩, by linarith⟩, hdd⟩

theorem rateInRange_iff (sc : Nat → Rat) (qv : Rat) (qu u : Nat) (dv mv : Rat) :
    rateInRange sc qv qu u dv mv ↔
      ∃ w, rateApproxM ErrModel.dec sc qv qu u dv mv = some w ∧ w.ok = true :=
  ⟨fun h => ⟨_, rateApproxM_of_inRange sc qv qu u dv mv h, rfl⟩,
   fun ⟨w, hw, hok⟩ => ((rateApproxM_spec sc qv qu u dv mv w hw).2.2).mp hok⟩

/-! ### 2. value theorems for any back-end over tables with exact positive scales -/

/-- the exact value is "`m` × (value / `d`·unit)", the value converted through the exact scales -/
theorem rateVal_eq (sc : Nat → Rat) (qv : Rat) (qu u : Nat) (dv mv : Rat)
    (hqu : 0 < sc qu) (hu : 0 < sc u) :
    rateVal sc qv qu u dv mv = mv * (qv * sc qu / (dv * sc u)) := by
  unfold rateVal qdivVal
  have h1 := ne_of_gt hqu
  have h2 := ne_of_gt hu
  split_ifs with h
  · subst h
    by_cases hd : dv = 0
    · subst hd; simp
    · field_simp
  · by_cases hd : dv = 0
    · subst hd; simp
    · field_simp

section generic
variable {A : Type} (R : Arith A) {M : ErrModel}

/-- value of the propagated description, any rounding model -/
theorem rateApproxM_value (sc : Nat → Rat) (qv : Rat) (qu u : Nat) (dv mv : Rat) (w : Approx)
    (hqu : 0 < sc qu) (hu : 0 < sc u)
    (hw : rateApproxM M sc qv qu u dv mv = some w) :
    w.v = mv * (qv * sc qu / (dv * sc u)) ∧ dv ≠ 0 := by
  obtain ⟨x, amnt, hx, ham, rfl⟩ := rateApproxM_inv sc qv qu u dv mv w hw
  have hd : dv ≠ 0 := by
    rintro rfl
    rw [div_exact_zero] at ham
    cases ham
  refine ⟨?_, hd⟩
  rw [mul_v, div_v _ _ amnt ham]
  have h1 := ne_of_gt hqu
  have h2 := ne_of_gt hu
  have hxv : x.v = qv * sc qu / sc u := by
    by_cases h : qu = u
    · subst h
      rw [if_pos rfl] at hx
      rw [div_v _ _ x hx]
      simp only [Approx.exact]
      field_simp
    · rw [if_neg h] at hx
      cases hρ : Approx.div M (Approx.exact (sc u)) (Approx.exact (sc qu)) with
      | none => rw [hρ] at hx; cases hx
      | some ρ =>
        rw [hρ, Option.bind_some] at hx
        rw [div_v _ _ x hx, mul_v, div_v _ _ ρ hρ]
        simp only [Approx.exact]
        field_simp
  rw [hxv]
  simp only [Approx.exact]
  field_simp

variable (L : Laws R M)
include L

/-- **`rate * q` / `q * rate`**, any back-end, per-quantity table with reference unit and exact
positive scales `sc` -/
theorem mulQ_value_scaled {TP : RTable A} {sc : Nat → Rat} (hs : Scaled R TP sc)
    (r : Rate A) (q : Q A Nat) (hqu : q.unit < TP.n) (hpu : r.perUnit < TP.n)
    (qv pmv tav : Rat) (w : Approx)
    (hq : R.val q.amount = some qv) (hpm : R.val r.perMultiple = some pmv)
    (hta : R.val r.termAmount = some tav)
    (hw : rateApproxM M sc qv q.unit r.perUnit pmv tav = some w) (hok : w.ok = true) :
    ∃ res z, Rate.mulQ R TP r q = .ok res ∧ res.unit = r.termUnit ∧
      R.val res.amount = some z ∧
      |z - tav * (qv * sc q.unit / (pmv * sc r.perUnit))| ≤ w.err := by
  obtain ⟨res, h, hu, z, hz, hb⟩ := mulQ_sound R L TP r q qv pmv tav w hq hpm hta
    (by rw [approxRateApply_scaled R hs qv q.unit r.perUnit pmv tav hqu hpu, hw]) hok
  rw [(rateApproxM_value sc qv q.unit r.perUnit pmv tav w (hs.scale _ hqu).2 (hs.scale _ hpu).2
    hw).1] at hb
  exact ⟨res, z, h, hu, hz, hb⟩

/-- **`q / rate`**, any back-end, term-quantity table with reference unit and exact positive
scales `sc` -/
theorem divQ_value_scaled {TT : RTable A} {sc : Nat → Rat} (hs : Scaled R TT sc)
    (r : Rate A) (q : Q A Nat) (hqu : q.unit < TT.n) (htu : r.termUnit < TT.n)
    (qv pmv tav : Rat) (w : Approx)
    (hq : R.val q.amount = some qv) (hpm : R.val r.perMultiple = some pmv)
    (hta : R.val r.termAmount = some tav)
    (hw : rateApproxM M sc qv q.unit r.termUnit tav pmv = some w) (hok : w.ok = true) :
    ∃ res z, Rate.divQ R TT q r = .ok res ∧ res.unit = r.perUnit ∧
      R.val res.amount = some z ∧
      |z - pmv * (qv * sc q.unit / (tav * sc r.termUnit))| ≤ w.err :=
  mulQ_value_scaled R L hs r.reciprocal q hqu htu qv tav pmv w hq hta hpm hw hok


/-- **`(rate * q) / rate` returns `q`**, any back-end: `q` a value of the per quantity (table `TP`),
`TT` the table of the term quantity.  `w1` describes the first step; the second step is described
on the intermediate amount `z1` the first step returned, which lies within `w1.err` of its exact
value — `B2` bounds the error of the second step for every such `z1`.  The result carries the per
unit and its amount is within `B2 + |pm / ta| · w1.err` of the amount of `q` expressed in the per
unit, `qv · s_q / s_pu`. -/
theorem rate_inverse_scaled {TP TT : RTable A} {scP scT : Nat → Rat} (hsP : Scaled R TP scP)
    (hsT : Scaled R TT scT) (r : Rate A) (q : Q A Nat) (hqu : q.unit < TP.n)
    (hpu : r.perUnit < TP.n) (htu : r.termUnit < TT.n) (qv pmv tav : Rat) (w1 : Approx) (B2 : Rat)
    (hq : R.val q.amount = some qv) (hpm : R.val r.perMultiple = some pmv)
    (hta : R.val r.termAmount = some tav)
    (hw1 : rateApproxM M scP qv q.unit r.perUnit pmv tav = some w1) (hok1 : w1.ok = true)
    (hw2 : ∀ z1, |z1 - tav * (qv * scP q.unit / (pmv * scP r.perUnit))| ≤ w1.err →
      ∃ w2, rateApproxM M scT z1 r.termUnit r.termUnit tav pmv = some w2 ∧ w2.ok = true ∧
        w2.err ≤ B2) :
    ∃ res1 res2 z2, Rate.mulQ R TP r q = .ok res1 ∧ Rate.divQ R TT res1 r = .ok res2 ∧
      res2.unit = r.perUnit ∧ R.val res2.amount = some z2 ∧
      |z2 - qv * scP q.unit / scP r.perUnit| ≤ B2 + |pmv / tav| * w1.err := by
  obtain ⟨res1, z1, h1, hu1, hz1, hb1⟩ :=
    mulQ_value_scaled R L hsP r q hqu hpu qv pmv tav w1 hq hpm hta hw1 hok1
  obtain ⟨w2, hw2', hok2, hB2⟩ := hw2 z1 hb1
  have hpm0 : pmv ≠ 0 :=
    (rateApproxM_value scP qv q.unit r.perUnit pmv tav w1 (hsP.scale _ hqu).2 (hsP.scale _ hpu).2
      hw1).2
  have hta0 : tav ≠ 0 :=
    (rateApproxM_value scT z1 r.termUnit r.termUnit tav pmv w2 (hsT.scale _ htu).2
      (hsT.scale _ htu).2 hw2').2
  have hst := ne_of_gt (hsT.scale _ htu).2
  have hsp := ne_of_gt (hsP.scale _ hpu).2
  obtain ⟨res2, z2, h2, hu2, hz2, hb2⟩ :=
    divQ_value_scaled R L hsT r res1 (by rw [hu1]; exact htu) htu z1 pmv tav w2 hz1 hpm hta
      (by rw [hu1]; exact hw2') hok2
  refine ⟨res1, res2, z2, h1, h2, hu2, hz2, ?_⟩
  rw [hu1] at hb2
  have key : z2 - qv * scP q.unit / scP r.perUnit
      = (z2 - pmv * (z1 * scT r.termUnit / (tav * scT r.termUnit)))
        + pmv / tav * (z1 - tav * (qv * scP q.unit / (pmv * scP r.perUnit))) := by
    field_simp
    ring
  rw [key]
  have h3 := abs_add_le (z2 - pmv * (z1 * scT r.termUnit / (tav * scT r.termUnit)))
    (pmv / tav * (z1 - tav * (qv * scP q.unit / (pmv * scP r.perUnit))))
  rw [abs_mul] at h3
  have h4 := mul_le_mul_of_nonneg_left hb1 (abs_nonneg (pmv / tav))
  linarith

end generic

/-! ### 3. decimal back-end, end to end -/

theorem rateBound_same (sc : Nat → Rat) (qv : Rat) (u : Nat) (dv mv : Rat) :
    rateBound sc qv u u dv mv = |mv| * (eta / |dv| + eta) + eta := by
  simp only [rateBound, qdivBound, if_pos]

theorem rateBound_diff (sc : Nat → Rat) (qv : Rat) (qu u : Nat) (dv mv : Rat) (h : qu ≠ u) :
    rateBound sc qv qu u dv mv = |mv| * ((2 * eta * |qv| /
      (|sc u / sc qu| * (|sc u / sc qu| - 2 * eta)) + eta) / |dv| + eta) + eta := by
  simp only [rateBound, qdivBound, if_neg h]

/-- same unit: the range condition is monotone in the magnitude of the value -/
theorem rateInRange_same_mono (sc : Nat → Rat) (X z : Rat) (u : Nat) (dv mv : Rat)
    (hz : |z| ≤ X) (h : rateInRange sc X u u dv mv) : rateInRange sc z u u dv mv := by
  obtain ⟨hd, -, h1, h2, h3⟩ := h
  have hX : 0 ≤ X := le_trans (abs_nonneg z) hz
  have hd' : 0 < |dv| := abs_pos.mpr hd
  simp only [rateVal, rateBound, qdivVal, qdivBound, if_pos, abs_div, abs_mul,
    abs_of_nonneg hX] at h1 h2 h3
  refine ⟨hd, fun hh => absurd rfl hh, ?_, ?_, ?_⟩
  · simp only [qdivVal, qdivBound, if_pos]
    linarith
  · simp only [qdivVal, qdivBound, if_pos, abs_div]
    have := div_le_div_of_nonneg_right hz (le_of_lt hd')
    linarith
  · simp only [rateVal, rateBound, qdivVal, qdivBound, if_pos, abs_div, abs_mul]
    have := mul_le_mul_of_nonneg_right (div_le_div_of_nonneg_right hz (le_of_lt hd'))
      (abs_nonneg mv)
    linarith

section dec

/-- **1. `mulQ_value_generated_dec`** — `rate * q` (and the generated `q * rate`: `Mul<Rate<TQ, Self>>
for PQ` and `Mul<PQ> for Rate<TQ, PQ>` have the same body, the model routes both through `mulQ`)
over a generated decimal per-quantity table `TP` (a generated quantity with positive scale
literals, or `AmountT`; `sc` the exact literal scales).  Inside the range condition (`w.ok` of the
propagated description on the literal scales — the hypotheses of
`C18.dec_rate_mul_total_generated`) the operator returns, the result carries the TERM unit, and
its amount is within the explicit bound `rateBound` of `ta · (qv · s_q / (pm · s_pu))`: term
amount × (value / per value). -/
theorem mulQ_value_generated_dec {TP : RTable Dec} {sc : Nat → Rat} (hg : GeneratedDec TP sc)
    (r : Rate Dec) (q : Q Dec Nat) (hqu : q.unit < TP.n) (hpu : r.perUnit < TP.n)
    (qv pmv tav : Rat) (w : Approx)
    (hq : Dec.arith.val q.amount = some qv) (hpm : Dec.arith.val r.perMultiple = some pmv)
    (hta : Dec.arith.val r.termAmount = some tav)
    (hw : rateApprox sc qv q.unit r.perUnit pmv tav = some w) (hok : w.ok = true) :
    ∃ res z, Rate.mulQ Dec.arith TP r q = .ok res ∧ res.unit = r.termUnit ∧
      Dec.arith.val res.amount = some z ∧
      |z - tav * (qv * sc q.unit / (pmv * sc r.perUnit))|
        ≤ rateBound sc qv q.unit r.perUnit pmv tav := by
  rw [rateApprox_eq] at hw
  have := mulQ_value_scaled Dec.arith Dec.laws (generatedDec_scaled hg) r q hqu hpu qv pmv tav w hq hpm hta hw hok
  rwa [(rateApproxM_spec sc qv q.unit r.perUnit pmv tav w hw).2.1] at this

/-- **1.** the same with the range condition in plain inequalities (`rateInRange`, equivalent to
the hypotheses `hw`, `hok` above by `rateInRange_iff`) -/
theorem mulQ_value_generated_dec_of_in_range {TP : RTable Dec} {sc : Nat → Rat}
    (hg : GeneratedDec TP sc)
    (r : Rate Dec) (q : Q Dec Nat) (hqu : q.unit < TP.n) (hpu : r.perUnit < TP.n)
    (qv pmv tav : Rat)
    (hq : Dec.arith.val q.amount = some qv) (hpm : Dec.arith.val r.perMultiple = some pmv)
    (hta : Dec.arith.val r.termAmount = some tav)
    (hr : rateInRange sc qv q.unit r.perUnit pmv tav) :
    ∃ res z, Rate.mulQ Dec.arith TP r q = .ok res ∧ res.unit = r.termUnit ∧
      Dec.arith.val res.amount = some z ∧
      |z - tav * (qv * sc q.unit / (pmv * sc r.perUnit))|
        ≤ rateBound sc qv q.unit r.perUnit pmv tav :=
  mulQ_value_generated_dec hg r q hqu hpu qv pmv tav _ hq hpm hta
    (rateApproxM_of_inRange sc qv q.unit r.perUnit pmv tav hr) rfl

/-- **2. `divQ_value_generated_dec`** — `q / rate` over a generated decimal term-quantity table
`TT`: inside the range condition the operator returns, the result carries the PER unit, and its
amount is within `rateBound` of `pm · (qv · s_q / (ta · s_tu))`: per amount × (value / term
value). -/
theorem divQ_value_generated_dec {TT : RTable Dec} {sc : Nat → Rat} (hg : GeneratedDec TT sc)
    (r : Rate Dec) (q : Q Dec Nat) (hqu : q.unit < TT.n) (htu : r.termUnit < TT.n)
    (qv pmv tav : Rat) (w : Approx)
    (hq : Dec.arith.val q.amount = some qv) (hpm : Dec.arith.val r.perMultiple = some pmv)
    (hta : Dec.arith.val r.termAmount = some tav)
    (hw : rateApprox sc qv q.unit r.termUnit tav pmv = some w) (hok : w.ok = true) :
    ∃ res z, Rate.divQ Dec.arith TT q r = .ok res ∧ res.unit = r.perUnit ∧
      Dec.arith.val res.amount = some z ∧
      |z - pmv * (qv * sc q.unit / (tav * sc r.termUnit))|
        ≤ rateBound sc qv q.unit r.termUnit tav pmv :=
  mulQ_value_generated_dec hg r.reciprocal q hqu htu qv tav pmv w hq hta hpm hw hok

theorem divQ_value_generated_dec_of_in_range {TT : RTable Dec} {sc : Nat → Rat}
    (hg : GeneratedDec TT sc)
    (r : Rate Dec) (q : Q Dec Nat) (hqu : q.unit < TT.n) (htu : r.termUnit < TT.n)
    (qv pmv tav : Rat)
    (hq : Dec.arith.val q.amount = some qv) (hpm : Dec.arith.val r.perMultiple = some pmv)
    (hta : Dec.arith.val r.termAmount = some tav)
    (hr : rateInRange sc qv q.unit r.termUnit tav pmv) :
    ∃ res z, Rate.divQ Dec.arith TT q r = .ok res ∧ res.unit = r.perUnit ∧
      Dec.arith.val res.amount = some z ∧
      |z - pmv * (qv * sc q.unit / (tav * sc r.termUnit))|
        ≤ rateBound sc qv q.unit r.termUnit tav pmv :=
  divQ_value_generated_dec hg r q hqu htu qv pmv tav _ hq hpm hta
    (rateApproxM_of_inRange sc qv q.unit r.termUnit tav pmv hr) rfl

/-- **3. `div_is_mul_reciprocal_generated_dec`** — on a generated table `q / rate` and
`q * rate.reciprocal` are the SAME computation (`C13.div_is_mul_reciprocal`): inside the range
condition both return, and return the same value — they agree exactly, not only up to rounding -/
theorem div_is_mul_reciprocal_generated_dec {TT : RTable Dec} {sc : Nat → Rat}
    (hg : GeneratedDec TT sc)
    (r : Rate Dec) (q : Q Dec Nat) (hqu : q.unit < TT.n) (htu : r.termUnit < TT.n)
    (qv pmv tav : Rat)
    (hq : Dec.arith.val q.amount = some qv) (hpm : Dec.arith.val r.perMultiple = some pmv)
    (hta : Dec.arith.val r.termAmount = some tav)
    (hr : rateInRange sc qv q.unit r.termUnit tav pmv) :
    ∃ res z, Rate.divQ Dec.arith TT q r = .ok res ∧
      Rate.mulQ Dec.arith TT r.reciprocal q = .ok res ∧ res.unit = r.perUnit ∧
      Dec.arith.val res.amount = some z ∧
      |z - pmv * (qv * sc q.unit / (tav * sc r.termUnit))|
        ≤ rateBound sc qv q.unit r.termUnit tav pmv := by
  obtain ⟨res, z, h, hu, hz, hb⟩ :=
    divQ_value_generated_dec_of_in_range hg r q hqu htu qv pmv tav hq hpm hta hr
  exact ⟨res, z, h, (div_is_mul_reciprocal Dec.arith TT q r) ▸ h, hu, hz, hb⟩

/-- **3. `rate_inverse_generated_dec`** — `(rate * q) / rate` returns `q`: `q` a value of the per
quantity (generated table `TP`), `TT` the generated table of the term quantity.  Range conditions:
`h1` for the first step, `h2` for the second step at the largest magnitude the intermediate amount
can have (exact value plus error bound of the first step; the second step divides a value that
already carries the term unit, so its range condition is monotone in the magnitude).  Both steps
return, the result carries the per unit and its amount is within the composed bound of the amount
of `q` expressed in the per unit, `qv · s_q / s_pu` (for `q.unit = r.perUnit`: of `qv`). -/
theorem rate_inverse_generated_dec {TP TT : RTable Dec} {scP scT : Nat → Rat}
    (hgP : GeneratedDec TP scP) (hgT : GeneratedDec TT scT)
    (r : Rate Dec) (q : Q Dec Nat) (hqu : q.unit < TP.n) (hpu : r.perUnit < TP.n)
    (htu : r.termUnit < TT.n) (qv pmv tav : Rat)
    (hq : Dec.arith.val q.amount = some qv) (hpm : Dec.arith.val r.perMultiple = some pmv)
    (hta : Dec.arith.val r.termAmount = some tav)
    (h1 : rateInRange scP qv q.unit r.perUnit pmv tav)
    (h2 : rateInRange scT (|tav * (qv * scP q.unit / (pmv * scP r.perUnit))|
        + rateBound scP qv q.unit r.perUnit pmv tav) r.termUnit r.termUnit tav pmv) :
    ∃ res1 res2 z2, Rate.mulQ Dec.arith TP r q = .ok res1 ∧
      Rate.divQ Dec.arith TT res1 r = .ok res2 ∧
      res2.unit = r.perUnit ∧ Dec.arith.val res2.amount = some z2 ∧
      |z2 - qv * scP q.unit / scP r.perUnit| ≤ (|pmv| * (eta / |tav| + eta) + eta)
        + |pmv / tav| * rateBound scP qv q.unit r.perUnit pmv tav := by
  have hw1 := rateApproxM_of_inRange scP qv q.unit r.perUnit pmv tav h1
  have key := rate_inverse_scaled Dec.arith Dec.laws (generatedDec_scaled hgP)
    (generatedDec_scaled hgT) r q hqu hpu htu qv pmv tav
    ⟨rateVal scP qv q.unit r.perUnit pmv tav, rateBound scP qv q.unit r.perUnit pmv tav, true⟩
    (|pmv| * (eta / |tav| + eta) + eta) hq hpm hta hw1 rfl
  apply key
  intro z1 hz1
  have hz : |z1| ≤ |tav * (qv * scP q.unit / (pmv * scP r.perUnit))|
      + rateBound scP qv q.unit r.perUnit pmv tav := by
    have := abs_sub_abs_le_abs_sub z1 (tav * (qv * scP q.unit / (pmv * scP r.perUnit)))
    linarith
  have h2' := rateInRange_same_mono scT _ z1 r.termUnit tav pmv hz h2
  exact ⟨_, rateApproxM_of_inRange scT z1 r.termUnit r.termUnit tav pmv h2', rfl,
    le_of_eq (rateBound_same scT z1 r.termUnit tav pmv)⟩

/-- **3.** the other order, `rate * (q / rate)` returns `q`: `q` a value of the term quantity -/
theorem rate_inverse_generated_dec' {TP TT : RTable Dec} {scP scT : Nat → Rat}
    (hgP : GeneratedDec TP scP) (hgT : GeneratedDec TT scT)
    (r : Rate Dec) (q : Q Dec Nat) (hqu : q.unit < TT.n) (hpu : r.perUnit < TP.n)
    (htu : r.termUnit < TT.n) (qv pmv tav : Rat)
    (hq : Dec.arith.val q.amount = some qv) (hpm : Dec.arith.val r.perMultiple = some pmv)
    (hta : Dec.arith.val r.termAmount = some tav)
    (h1 : rateInRange scT qv q.unit r.termUnit tav pmv)
    (h2 : rateInRange scP (|pmv * (qv * scT q.unit / (tav * scT r.termUnit))|
        + rateBound scT qv q.unit r.termUnit tav pmv) r.perUnit r.perUnit pmv tav) :
    ∃ res1 res2 z2, Rate.divQ Dec.arith TT q r = .ok res1 ∧
      Rate.mulQ Dec.arith TP r res1 = .ok res2 ∧
      res2.unit = r.termUnit ∧ Dec.arith.val res2.amount = some z2 ∧
      |z2 - qv * scT q.unit / scT r.termUnit| ≤ (|tav| * (eta / |pmv| + eta) + eta)
        + |tav / pmv| * rateBound scT qv q.unit r.termUnit tav pmv :=
  rate_inverse_generated_dec hgT hgP r.reciprocal q hqu htu hpu qv tav pmv hq hta hpm h1 h2

end dec


/-! ### 4. binary64 back-end -/

section f64

/-- `T` is a BINARY64 table of the generated code whose scale literals lie in `[2^-1073, 2^1023)`
(true of the whole catalogue, `Bridge.catalogue_lits_positive`), or the dimensionless `AmountT`;
its exact scales are `Bridge.f64Sc T`, the values of the rounded literals -/
inductive GeneratedF64 : RTable F64 → Prop
  | ofDef (it : RawItem) (d : QtyDef) (h : expand it = .ok d) (hk : d.kind = .withRef)
      (T : RTable F64) (hT : RTable.ofDef F64.arith d = some T) (hp : LitsNormalF64 d = true) :
      GeneratedF64 T
  | amount : GeneratedF64 (RTable.amount F64.arith)

theorem generatedF64_scaled {T : RTable F64} (hg : GeneratedF64 T) :
    Scaled F64.arith T (f64Sc T) := by
  cases hg with
  | ofDef it d h hk _ hT hp =>
    exact ⟨ofDef_kind F64.arith d T hk hT, fun u hu => f64_scale_pos d hk T hT hp u hu⟩
  | amount =>
    refine ⟨rfl, fun u _ => ?_⟩
    have e : (RTable.amount F64.arith).scaleOf F64.arith u = F64.arith.one :=
      amount_scale F64.arith u
    have hv : F64.arith.val ((RTable.amount F64.arith).scaleOf F64.arith u) = some 1 := by
      rw [e]; exact F64.laws.one_val
    have e2 : f64Sc (RTable.amount F64.arith) u = 1 := by
      unfold f64Sc f64Val
      rw [show F64.val _ = some 1 from hv]; rfl
    rw [e2]
    exact ⟨hv, one_pos⟩

/-- **1., binary64** — `rate * q` / `q * rate` over a generated binary64 per-quantity table: the
scales are the values `f64Sc TP` of the rounded literals, the bound is the `.err` of the propagated
description (a rational function of the inputs through `ErrModel.f64`: relative error `2^-53` plus
`2^-1075` per operation; not unfolded here) -/
theorem mulQ_value_generated_f64 {TP : RTable F64} (hg : GeneratedF64 TP)
    (r : Rate F64) (q : Q F64 Nat) (hqu : q.unit < TP.n) (hpu : r.perUnit < TP.n)
    (qv pmv tav : Rat) (w : Approx)
    (hq : F64.arith.val q.amount = some qv) (hpm : F64.arith.val r.perMultiple = some pmv)
    (hta : F64.arith.val r.termAmount = some tav)
    (hw : rateApproxM ErrModel.f64 (f64Sc TP) qv q.unit r.perUnit pmv tav = some w)
    (hok : w.ok = true) :
    ∃ res z, Rate.mulQ F64.arith TP r q = .ok res ∧ res.unit = r.termUnit ∧
      F64.arith.val res.amount = some z ∧
      |z - tav * (qv * f64Sc TP q.unit / (pmv * f64Sc TP r.perUnit))| ≤ w.err :=
  mulQ_value_scaled F64.arith F64.laws (generatedF64_scaled hg) r q hqu hpu qv pmv tav w hq hpm hta
    hw hok

/-- **2., binary64** — `q / rate` -/
theorem divQ_value_generated_f64 {TT : RTable F64} (hg : GeneratedF64 TT)
    (r : Rate F64) (q : Q F64 Nat) (hqu : q.unit < TT.n) (htu : r.termUnit < TT.n)
    (qv pmv tav : Rat) (w : Approx)
    (hq : F64.arith.val q.amount = some qv) (hpm : F64.arith.val r.perMultiple = some pmv)
    (hta : F64.arith.val r.termAmount = some tav)
    (hw : rateApproxM ErrModel.f64 (f64Sc TT) qv q.unit r.termUnit tav pmv = some w)
    (hok : w.ok = true) :
    ∃ res z, Rate.divQ F64.arith TT q r = .ok res ∧ res.unit = r.perUnit ∧
      F64.arith.val res.amount = some z ∧
      |z - pmv * (qv * f64Sc TT q.unit / (tav * f64Sc TT r.termUnit))| ≤ w.err :=
  divQ_value_scaled F64.arith F64.laws (generatedF64_scaled hg) r q hqu htu qv pmv tav w hq hpm hta
    hw hok

/-- **3., binary64** — `q / rate` and `q * rate.reciprocal` return the same value -/
theorem div_is_mul_reciprocal_generated_f64 {TT : RTable F64} (hg : GeneratedF64 TT)
    (r : Rate F64) (q : Q F64 Nat) (hqu : q.unit < TT.n) (htu : r.termUnit < TT.n)
    (qv pmv tav : Rat) (w : Approx)
    (hq : F64.arith.val q.amount = some qv) (hpm : F64.arith.val r.perMultiple = some pmv)
    (hta : F64.arith.val r.termAmount = some tav)
    (hw : rateApproxM ErrModel.f64 (f64Sc TT) qv q.unit r.termUnit tav pmv = some w)
    (hok : w.ok = true) :
    ∃ res z, Rate.divQ F64.arith TT q r = .ok res ∧
      Rate.mulQ F64.arith TT r.reciprocal q = .ok res ∧ res.unit = r.perUnit ∧
      F64.arith.val res.amount = some z ∧
      |z - pmv * (qv * f64Sc TT q.unit / (tav * f64Sc TT r.termUnit))| ≤ w.err := by
  obtain ⟨res, z, h, hu, hz, hb⟩ :=
    divQ_value_generated_f64 hg r q hqu htu qv pmv tav w hq hpm hta hw hok
  exact ⟨res, z, h, (div_is_mul_reciprocal F64.arith TT q r) ▸ h, hu, hz, hb⟩

/-- **3., binary64** — `(rate * q) / rate` returns `q`.  In binary64 the error of the second step
depends on the intermediate amount `z1` (relative rounding), so the second step is described for
every `z1` within the first step's bound of its exact value, `B2` bounding its error. -/
theorem rate_inverse_generated_f64 {TP TT : RTable F64} (hgP : GeneratedF64 TP)
    (hgT : GeneratedF64 TT) (r : Rate F64) (q : Q F64 Nat) (hqu : q.unit < TP.n)
    (hpu : r.perUnit < TP.n) (htu : r.termUnit < TT.n) (qv pmv tav : Rat) (w1 : Approx) (B2 : Rat)
    (hq : F64.arith.val q.amount = some qv) (hpm : F64.arith.val r.perMultiple = some pmv)
    (hta : F64.arith.val r.termAmount = some tav)
    (hw1 : rateApproxM ErrModel.f64 (f64Sc TP) qv q.unit r.perUnit pmv tav = some w1)
    (hok1 : w1.ok = true)
    (hw2 : ∀ z1, |z1 - tav * (qv * f64Sc TP q.unit / (pmv * f64Sc TP r.perUnit))| ≤ w1.err →
      ∃ w2, rateApproxM ErrModel.f64 (f64Sc TT) z1 r.termUnit r.termUnit tav pmv = some w2 ∧
        w2.ok = true ∧ w2.err ≤ B2) :
    ∃ res1 res2 z2, Rate.mulQ F64.arith TP r q = .ok res1 ∧
      Rate.divQ F64.arith TT res1 r = .ok res2 ∧
      res2.unit = r.perUnit ∧ F64.arith.val res2.amount = some z2 ∧
      |z2 - qv * f64Sc TP q.unit / f64Sc TP r.perUnit| ≤ B2 + |pmv / tav| * w1.err :=
  rate_inverse_scaled F64.arith F64.laws (generatedF64_scaled hgP) (generatedF64_scaled hgT) r q
    hqu hpu htu qv pmv tav w1 B2 hq hpm hta hw1 hok1 hw2

end f64


/-! ### 5. the catalogue -/

section catalogue
set_option maxRecDepth 100000

/-- `rate * q` / `q * rate` for ALL rates whose per quantity has the decimal table `TP` (exact
scales `sc`) and all values of it: inside `rateInRange` the operator returns the term amount ×
(value / per value) in the term unit, within `rateBound` -/
def MulQValueDec (TP : RTable Dec) (sc : Nat → Rat) : Prop :=
  ∀ (r : Rate Dec) (q : Q Dec Nat), q.unit < TP.n → r.perUnit < TP.n → ∀ qv pmv tav : Rat,
    Dec.arith.val q.amount = some qv → Dec.arith.val r.perMultiple = some pmv →
    Dec.arith.val r.termAmount = some tav → rateInRange sc qv q.unit r.perUnit pmv tav →
    ∃ res z, Rate.mulQ Dec.arith TP r q = .ok res ∧ res.unit = r.termUnit ∧
      Dec.arith.val res.amount = some z ∧
      |z - tav * (qv * sc q.unit / (pmv * sc r.perUnit))|
        ≤ rateBound sc qv q.unit r.perUnit pmv tav

/-- `q / rate` for ALL rates whose term quantity has the decimal table `TT` and all values of it:
inside `rateInRange` the operator returns the per amount × (value / term value) in the per unit,
within `rateBound`, and `q * rate.reciprocal` returns the very same value -/
def DivQValueDec (TT : RTable Dec) (sc : Nat → Rat) : Prop :=
  ∀ (r : Rate Dec) (q : Q Dec Nat), q.unit < TT.n → r.termUnit < TT.n → ∀ qv pmv tav : Rat,
    Dec.arith.val q.amount = some qv → Dec.arith.val r.perMultiple = some pmv →
    Dec.arith.val r.termAmount = some tav → rateInRange sc qv q.unit r.termUnit tav pmv →
    ∃ res z, Rate.divQ Dec.arith TT q r = .ok res ∧
      Rate.mulQ Dec.arith TT r.reciprocal q = .ok res ∧ res.unit = r.perUnit ∧
      Dec.arith.val res.amount = some z ∧
      |z - pmv * (qv * sc q.unit / (tav * sc r.termUnit))|
        ≤ rateBound sc qv q.unit r.termUnit tav pmv

/-- `(rate * q) / rate` returns `q` for ALL rates with per-quantity table `TP` and term-quantity
table `TT` and all values `q` of the per quantity (the statement of `rate_inverse_generated_dec`) -/
def RateInverseDec (TP TT : RTable Dec) (scP scT : Nat → Rat) : Prop :=
  ∀ (r : Rate Dec) (q : Q Dec Nat), q.unit < TP.n → r.perUnit < TP.n → r.termUnit < TT.n →
    ∀ qv pmv tav : Rat,
    Dec.arith.val q.amount = some qv → Dec.arith.val r.perMultiple = some pmv →
    Dec.arith.val r.termAmount = some tav →
    rateInRange scP qv q.unit r.perUnit pmv tav →
    rateInRange scT (|tav * (qv * scP q.unit / (pmv * scP r.perUnit))|
        + rateBound scP qv q.unit r.perUnit pmv tav) r.termUnit r.termUnit tav pmv →
    ∃ res1 res2 z2, Rate.mulQ Dec.arith TP r q = .ok res1 ∧
      Rate.divQ Dec.arith TT res1 r = .ok res2 ∧
      res2.unit = r.perUnit ∧ Dec.arith.val res2.amount = some z2 ∧
      |z2 - qv * scP q.unit / scP r.perUnit| ≤ (|pmv| * (eta / |tav| + eta) + eta)
        + |pmv / tav| * rateBound scP qv q.unit r.perUnit pmv tav

/-- `rate * (q / rate)` returns `q` for all values `q` of the term quantity
(`rate_inverse_generated_dec'`) -/
def RateInverseDec' (TP TT : RTable Dec) (scP scT : Nat → Rat) : Prop :=
  ∀ (r : Rate Dec) (q : Q Dec Nat), q.unit < TT.n → r.perUnit < TP.n → r.termUnit < TT.n →
    ∀ qv pmv tav : Rat,
    Dec.arith.val q.amount = some qv → Dec.arith.val r.perMultiple = some pmv →
    Dec.arith.val r.termAmount = some tav →
    rateInRange scT qv q.unit r.termUnit tav pmv →
    rateInRange scP (|pmv * (qv * scT q.unit / (tav * scT r.termUnit))|
        + rateBound scT qv q.unit r.termUnit tav pmv) r.perUnit r.perUnit pmv tav →
    ∃ res1 res2 z2, Rate.divQ Dec.arith TT q r = .ok res1 ∧
      Rate.mulQ Dec.arith TP r res1 = .ok res2 ∧
      res2.unit = r.termUnit ∧ Dec.arith.val res2.amount = some z2 ∧
      |z2 - qv * scT q.unit / scT r.termUnit| ≤ (|tav| * (eta / |pmv| + eta) + eta)
        + |tav / pmv| * rateBound scT qv q.unit r.termUnit tav pmv

theorem mulQValueDec_generated {TP : RTable Dec} {sc : Nat → Rat} (hg : GeneratedDec TP sc) :
    MulQValueDec TP sc :=
  fun r q hqu hpu qv pmv tav hq hpm hta hr =>
    mulQ_value_generated_dec_of_in_range hg r q hqu hpu qv pmv tav hq hpm hta hr

theorem divQValueDec_generated {TT : RTable Dec} {sc : Nat → Rat} (hg : GeneratedDec TT sc) :
    DivQValueDec TT sc :=
  fun r q hqu htu qv pmv tav hq hpm hta hr =>
    div_is_mul_reciprocal_generated_dec hg r q hqu htu qv pmv tav hq hpm hta hr

theorem rateInverseDec_generated {TP TT : RTable Dec} {scP scT : Nat → Rat}
    (hgP : GeneratedDec TP scP) (hgT : GeneratedDec TT scT) :
    RateInverseDec TP TT scP scT ∧ RateInverseDec' TP TT scP scT :=
  ⟨fun r q hqu hpu htu qv pmv tav hq hpm hta h1 h2 =>
    rate_inverse_generated_dec hgP hgT r q hqu hpu htu qv pmv tav hq hpm hta h1 h2,
   fun r q hqu hpu htu qv pmv tav hq hpm hta h1 h2 =>
    rate_inverse_generated_dec' hgP hgT r q hqu hpu htu qv pmv tav hq hpm hta h1 h2⟩

/-- **4. `catalogue_rate_value_dec`** — every predefined quantity of the main crate is accepted by
the macro; if it has a reference unit its decimal table exists and, as per quantity of a rate
(`MulQValueDec`) and as term quantity of a rate (`DivQValueDec`), the value statements hold with
the exact literal scales `litVal d`.  No hypothesis on the table is left. -/
theorem catalogue_rate_value_dec (it : RawItem) (hit : it ∈ Gen.Catalogue.items) :
    ∃ d, expand it = .ok d ∧ (d.kind = .withRef →
      ∃ T, RTable.ofDef Dec.arith d = some T ∧
        MulQValueDec T (litVal d) ∧ DivQValueDec T (litVal d)) := by
  obtain ⟨d, h, hT⟩ := catalogue_dec_table it hit
  refine ⟨d, h, fun hk => ?_⟩
  obtain ⟨T, hT, hg⟩ := hT hk
  exact ⟨T, hT, mulQValueDec_generated hg, divQValueDec_generated hg⟩

/-- the same for ANY item of the catalogue (astronomical crate and synthetic definitions of the
harness included) whose decimal table exists -/
theorem catalogue_rate_value_dec' (it : RawItem) (hit : it ∈ allItems) (d : QtyDef)
    (h : expand it = .ok d) (hk : d.kind = .withRef)
    (T : RTable Dec) (hT : RTable.ofDef Dec.arith d = some T) :
    MulQValueDec T (litVal d) ∧ DivQValueDec T (litVal d) :=
  ⟨mulQValueDec_generated (catalogue_generatedDec it hit d h hk T hT),
   divQValueDec_generated (catalogue_generatedDec it hit d h hk T hT)⟩

/-- **4. `catalogue_rate_inverse_dec`** — for every pair of predefined quantities with reference
unit (per quantity `itP`, term quantity `itT`) multiplying by a rate and dividing by it, in either
order, returns the original value within the composed bound -/
theorem catalogue_rate_inverse_dec (itP itT : RawItem) (hitP : itP ∈ Gen.Catalogue.items)
    (hitT : itT ∈ Gen.Catalogue.items) :
    ∃ dP dT, expand itP = .ok dP ∧ expand itT = .ok dT ∧
      (dP.kind = .withRef → dT.kind = .withRef →
        ∃ TP TT, RTable.ofDef Dec.arith dP = some TP ∧ RTable.ofDef Dec.arith dT = some TT ∧
          RateInverseDec TP TT (litVal dP) (litVal dT) ∧
          RateInverseDec' TP TT (litVal dP) (litVal dT)) := by
  obtain ⟨dP, hP, hTP⟩ := catalogue_dec_table itP hitP
  obtain ⟨dT, hT, hTT⟩ := catalogue_dec_table itT hitT
  refine ⟨dP, dT, hP, hT, fun hkP hkT => ?_⟩
  obtain ⟨TP, hTP, hgP⟩ := hTP hkP
  obtain ⟨TT, hTT, hgT⟩ := hTT hkT
  exact ⟨TP, TT, hTP, hTT, rateInverseDec_generated hgP hgT⟩

/-- the same for any two items of the catalogue whose decimal tables exist -/
theorem catalogue_rate_inverse_dec' (itP itT : RawItem) (hitP : itP ∈ allItems)
    (hitT : itT ∈ allItems) (dP dT : QtyDef) (hP : expand itP = .ok dP) (hT : expand itT = .ok dT)
    (hkP : dP.kind = .withRef) (hkT : dT.kind = .withRef) (TP TT : RTable Dec)
    (hTP : RTable.ofDef Dec.arith dP = some TP) (hTT : RTable.ofDef Dec.arith dT = some TT) :
    RateInverseDec TP TT (litVal dP) (litVal dT) ∧ RateInverseDec' TP TT (litVal dP) (litVal dT) :=
  rateInverseDec_generated (catalogue_generatedDec itP hitP dP hP hkP TP hTP)
    (catalogue_generatedDec itT hitT dT hT hkT TT hTT)

/-! #### binary64 -/

/-- the binary64 table of every item of the catalogue is a `GeneratedF64` table
(`LitsNormalF64` discharged by `Bridge.catalogue_lits_positive`) -/
theorem catalogue_generatedF64 (it : RawItem) (hit : it ∈ allItems) (d : QtyDef)
    (h : expand it = .ok d) (hk : d.kind = .withRef)
    (T : RTable F64) (hT : RTable.ofDef F64.arith d = some T) : GeneratedF64 T := by
  have := expandsTo_of_mem _ _ catalogue_lits_positive it hit d h
  simp only [Bool.and_eq_true] at this
  exact .ofDef it d h hk T hT this.2

/-- `rate * q` / `q * rate` and `q / rate` for all rates over the binary64 table `T` (as per
quantity, resp. term quantity) and all values of it -/
def RateValueF64 (T : RTable F64) : Prop :=
  ∀ (r : Rate F64) (q : Q F64 Nat), q.unit < T.n → ∀ qv pmv tav : Rat,
    F64.arith.val q.amount = some qv → F64.arith.val r.perMultiple = some pmv →
    F64.arith.val r.termAmount = some tav → ∀ w : Approx, w.ok = true →
    (r.perUnit < T.n →
      rateApproxM ErrModel.f64 (f64Sc T) qv q.unit r.perUnit pmv tav = some w →
      ∃ res z, Rate.mulQ F64.arith T r q = .ok res ∧ res.unit = r.termUnit ∧
        F64.arith.val res.amount = some z ∧
        |z - tav * (qv * f64Sc T q.unit / (pmv * f64Sc T r.perUnit))| ≤ w.err) ∧
    (r.termUnit < T.n →
      rateApproxM ErrModel.f64 (f64Sc T) qv q.unit r.termUnit tav pmv = some w →
      ∃ res z, Rate.divQ F64.arith T q r = .ok res ∧
        Rate.mulQ F64.arith T r.reciprocal q = .ok res ∧ res.unit = r.perUnit ∧
        F64.arith.val res.amount = some z ∧
        |z - pmv * (qv * f64Sc T q.unit / (tav * f64Sc T r.termUnit))| ≤ w.err)

theorem rateValueF64_generated {T : RTable F64} (hg : GeneratedF64 T) : RateValueF64 T :=
  fun r q hqu qv pmv tav hq hpm hta w hok =>
    ⟨fun hpu hw => mulQ_value_generated_f64 hg r q hqu hpu qv pmv tav w hq hpm hta hw hok,
     fun htu hw => div_is_mul_reciprocal_generated_f64 hg r q hqu htu qv pmv tav w hq hpm hta hw
       hok⟩

/-- **4., binary64** — every predefined quantity of the main and of the astronomical crate: if it
has a reference unit its binary64 table exists and the value statements hold on the exact values
`f64Sc T` of the rounded scale literals -/
theorem catalogue_rate_value_f64 (it : RawItem)
    (hit : it ∈ Gen.Catalogue.items ++ Gen.Astro.items) :
    ∃ d, expand it = .ok d ∧ (d.kind = .withRef →
      ∃ T, RTable.ofDef F64.arith d = some T ∧ RateValueF64 T) := by
  obtain ⟨d, h, hf⟩ := expandsTo_spec _ it ((List.all_eq_true.mp catalogue_tables_exist.2) it hit)
  refine ⟨d, h, fun hk => ?_⟩
  have hs : (RTable.ofDef F64.arith d).isSome = true := by simpa [hk] using hf
  cases hT : RTable.ofDef F64.arith d with
  | none => rw [hT] at hs; cases hs
  | some T =>
    exact ⟨T, rfl, rateValueF64_generated
      (catalogue_generatedF64 it (List.mem_append_left _ hit) d h hk T hT)⟩

end catalogue


/-! ### 6. non-vacuity -/

section witnesses
set_option maxRecDepth 100000

/-- `r` returned a value in unit `u` whose amount is within `b` of `x` -/
def resWithin (r : Res (Q Dec Nat)) (u : Nat) (x b : Rat) : Bool :=
  match r with
  | .ok res => res.unit == u && (match Dec.arith.val res.amount with
    | some z => decide (|z - x| ≤ b)
    | none => false)
  | .error _ => false

/-- the generated `Length` (term quantity) and `Duration` (per quantity) tables of the main crate,
the units `km`, `h`, `min` found by their scale literals, and a property of all of it -/
def lengthDurationWitness
    (p : (dL dD : QtyDef) → (TL TD : RTable Dec) → (km hr mi : Nat) → Bool) : Bool :=
  match expand Gen.Catalogue.lengthRaw, expand Gen.Catalogue.durationRaw with
  | .ok dL, .ok dD =>
    dL.kind == .withRef && dD.kind == .withRef && LitsPositive dL && LitsPositive dD &&
    (match RTable.ofDef Dec.arith dL, RTable.ofDef Dec.arith dD with
     | some TL, some TD =>
       (match (List.range TL.n).find? (fun u => decide (litVal dL u = 1000)),
          (List.range TD.n).find? (fun u => decide (litVal dD u = 3600)),
          (List.range TD.n).find? (fun u => decide (litVal dD u = 60)) with
        | some km, some hr, some mi =>
          decide (km < TL.n) && decide (hr < TD.n) && decide (mi < TD.n) && p dL dD TL TD km hr mi
        | _, _, _ => false)
     | _, _ => false)
  | _, _ => false

/-- items 1, 4: the rate `90 km per 2 h` applied to `3 h` (same unit) and to `180 min` (other unit)
on the generated `Duration` table: every hypothesis of `mulQ_value_generated_dec_of_in_range`
holds, the operator returns `135 km` within `rateBound`, and `rateBound` is below `1e-13` -/
example : lengthDurationWitness (fun dL dD TL TD km hr mi =>
    decide (Dec.arith.val ⟨3, 0⟩ = some 3) && decide (Dec.arith.val ⟨180, 0⟩ = some 180) &&
    decide (Dec.arith.val ⟨2, 0⟩ = some 2) && decide (Dec.arith.val ⟨90, 0⟩ = some 90) &&
    decide (rateInRange (litVal dD) 3 hr hr 2 90) &&
    decide (rateInRange (litVal dD) 180 mi hr 2 90) &&
    decide (90 * (3 * litVal dD hr / (2 * litVal dD hr)) = 135) &&
    decide (90 * (180 * litVal dD mi / (2 * litVal dD hr)) = 135) &&
    decide (rateBound (litVal dD) 3 hr hr 2 90 = 136 * eta) &&
    decide (rateBound (litVal dD) 180 mi hr 2 90 ≤ 1 / 10 ^ 13) &&
    resWithin (Rate.mulQ Dec.arith TD ⟨⟨90, 0⟩, km, ⟨2, 0⟩, hr⟩ ⟨⟨3, 0⟩, hr⟩) km 135
      (rateBound (litVal dD) 3 hr hr 2 90) &&
    resWithin (Rate.mulQ Dec.arith TD ⟨⟨90, 0⟩, km, ⟨2, 0⟩, hr⟩ ⟨⟨180, 0⟩, mi⟩) km 135
      (rateBound (litVal dD) 180 mi hr 2 90)) = true := by
  decide +kernel

/-- items 2, 3: `270 km` and `270000 m` divided by the rate `90 km per 2 h` on the generated `Length`
table: every hypothesis of `divQ_value_generated_dec_of_in_range` holds, the operator returns
`6 h` within `rateBound`, and `q * rate.reciprocal` returns the same value -/
example : lengthDurationWitness (fun dL dD TL TD km hr mi =>
    let m := (TL.qt Dec.arith).ref
    let r : Rate Dec := ⟨⟨90, 0⟩, km, ⟨2, 0⟩, hr⟩
    decide (m < TL.n) && decide (litVal dL m = 1) &&
    decide (Dec.arith.val ⟨270, 0⟩ = some 270) && decide (Dec.arith.val ⟨270000, 0⟩ = some 270000) &&
    decide (rateInRange (litVal dL) 270 km km 90 2) &&
    decide (rateInRange (litVal dL) 270000 m km 90 2) &&
    decide (2 * (270 * litVal dL km / (90 * litVal dL km)) = 6) &&
    decide (2 * (270000 * litVal dL m / (90 * litVal dL km)) = 6) &&
    decide (rateBound (litVal dL) 270000 m km 90 2 ≤ 1 / 10 ^ 11) &&
    resWithin (Rate.divQ Dec.arith TL ⟨⟨270, 0⟩, km⟩ r) hr 6 (rateBound (litVal dL) 270 km km 90 2) &&
    resWithin (Rate.divQ Dec.arith TL ⟨⟨270000, 0⟩, m⟩ r) hr 6
      (rateBound (litVal dL) 270000 m km 90 2) &&
    decide (Rate.divQ Dec.arith TL ⟨⟨270000, 0⟩, m⟩ r
      = Rate.mulQ Dec.arith TL r.reciprocal ⟨⟨270000, 0⟩, m⟩)) = true := by
  decide +kernel

/-- item 3: `(rate * q) / rate` for the rate `90 km per 2 h` and `q = 180 min`: both range
conditions of `rate_inverse_generated_dec` hold (the second at the largest magnitude of the
intermediate `135 km`), the round trip returns `3 h` = `180 min` within the composed bound, which
is below `1e-14`; and the other order, `rate * (270000 m / rate)`, returns `270 km` = `270000 m` -/
example : lengthDurationWitness (fun dL dD TL TD km hr mi =>
    let m := (TL.qt Dec.arith).ref
    let r : Rate Dec := ⟨⟨90, 0⟩, km, ⟨2, 0⟩, hr⟩
    let b1 := rateBound (litVal dD) 180 mi hr 2 90
    let b1' := rateBound (litVal dL) 270000 m km 90 2
    decide (m < TL.n) &&
    decide (rateInRange (litVal dD) 180 mi hr 2 90) &&
    decide (rateInRange (litVal dL) (|90 * (180 * litVal dD mi / (2 * litVal dD hr))| + b1)
      km km 90 2) &&
    decide (180 * litVal dD mi / litVal dD hr = 3) &&
    decide ((|(2 : Rat)| * (eta / |(90 : Rat)| + eta) + eta) + |(2 : Rat) / 90| * b1 ≤ 1 / 10 ^ 14) &&
    (match Rate.mulQ Dec.arith TD r ⟨⟨180, 0⟩, mi⟩ with
     | .ok res1 => resWithin (Rate.divQ Dec.arith TL res1 r) hr 3
         ((|(2 : Rat)| * (eta / |(90 : Rat)| + eta) + eta) + |(2 : Rat) / 90| * b1)
     | .error _ => false) &&
    decide (rateInRange (litVal dL) 270000 m km 90 2) &&
    decide (rateInRange (litVal dD) (|2 * (270000 * litVal dL m / (90 * litVal dL km))| + b1')
      hr hr 2 90) &&
    decide (270000 * litVal dL m / litVal dL km = 270) &&
    (match Rate.divQ Dec.arith TL ⟨⟨270000, 0⟩, m⟩ r with
     | .ok res1 => resWithin (Rate.mulQ Dec.arith TD r res1) km 270
         ((|(90 : Rat)| * (eta / |(2 : Rat)| + eta) + eta) + |(90 : Rat) / 2| * b1')
     | .error _ => false)) = true := by
  decide +kernel

/-- the hypothesis `GeneratedDec` (positive scale literals, true of the whole catalogue) cannot be
dropped from the value statements: in the table generated from `C18.itZeroScale` (units `Z` = 0 of
scale zero, `R` = 1 = `REF_UNIT`; accepted by the macro) the rate `1 per 1 Z` applied to `1 Z`
satisfies `rateInRange` and returns `1`, whereas "term amount × (value / per value)" evaluated
through the scales, `1 · (1 · 0 / (1 · 0))`, is `0` -/
theorem value_needs_positive_literals :
    ∃ d T, expand itZeroScale = .ok d ∧ d.kind = .withRef ∧ RTable.ofDef Dec.arith d = some T ∧
      (fun d T => !LitsPositive d && decide (T.n = 2) && decide (litVal d 0 = 0) &&
        decide (Dec.arith.val ⟨1, 0⟩ = some 1) &&
        decide (rateInRange (litVal d) 1 0 0 1 1) &&
        decide ((1 : Rat) * (1 * litVal d 0 / (1 * litVal d 0)) = 0) &&
        decide (rateBound (litVal d) 1 0 0 1 1 < 1) &&
        resWithin (Rate.mulQ Dec.arith T ⟨⟨1, 0⟩, 1, ⟨1, 0⟩, 0⟩ ⟨⟨1, 0⟩, 0⟩) 1 1 0) d T = true :=
  genWitness_spec Dec.arith itZeroScale _ (by decide +kernel)

/-- binary64: over the generated binary64 `Duration` table the rate `90` (unit `5` of the term
quantity) per `2 h` applied to `3 h` and to `180 min` satisfies every hypothesis of
`mulQ_value_generated_f64` (scale literals in the normal range, `w.ok`), the propagated bound is
below `1e-12`, and the operator returns `135` within it -/
example : genWitness F64.arith Gen.Catalogue.durationRaw (fun d T =>
    LitsNormalF64 d &&
    (match (List.range T.n).find? (fun u => decide (f64Sc T u = 3600)),
        (List.range T.n).find? (fun u => decide (f64Sc T u = 60)) with
     | some hr, some mi =>
       decide (hr < T.n) && decide (mi < T.n) &&
       decide (F64.arith.val (F64.round 3 false) = some 3) &&
       decide (F64.arith.val (F64.round 180 false) = some 180) &&
       decide (F64.arith.val (F64.round 2 false) = some 2) &&
       decide (F64.arith.val (F64.round 90 false) = some 90) &&
       (match rateApproxM ErrModel.f64 (f64Sc T) 3 hr hr 2 90,
          rateApproxM ErrModel.f64 (f64Sc T) 180 mi hr 2 90 with
        | some w, some w' =>
          w.ok && w'.ok && decide (w.err ≤ 1 / 10 ^ 12) && decide (w'.err ≤ 1 / 10 ^ 12) &&
          (match Rate.mulQ F64.arith T ⟨F64.round 90 false, 5, F64.round 2 false, hr⟩
              ⟨F64.round 3 false, hr⟩,
            Rate.mulQ F64.arith T ⟨F64.round 90 false, 5, F64.round 2 false, hr⟩
              ⟨F64.round 180 false, mi⟩ with
           | .ok res, .ok res' =>
             res.unit == 5 && res'.unit == 5 &&
             (match F64.arith.val res.amount, F64.arith.val res'.amount with
              | some z, some z' =>
                decide (|z - 90 * (3 * f64Sc T hr / (2 * f64Sc T hr))| ≤ w.err) &&
                decide (|z' - 90 * (180 * f64Sc T mi / (2 * f64Sc T hr))| ≤ w'.err)
              | _, _ => false)
           | _, _ => false)
        | _, _ => false)
     | _, _ => false)) = true := by
  decide +kernel

end witnesses

end Qty.C13
