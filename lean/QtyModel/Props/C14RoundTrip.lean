import QtyModel.Props.C14
import QtyModel.Props.Backends
import QtyModel.TempRows
/-
  C14 — "its conversions are mutually inverse and compose consistently", for what
  `ConversionTable::convert` COMPUTES (with rounding), not only for the exact formulas.

  * general part: for EVERY table and every arithmetic satisfying `Laws`, a chain of two
    table conversions realises the composed `Approx` expression; when the published
    constants are mutually inverse (resp. compose to a third row) the exact value of that
    expression is the input itself (resp. the exact value of the direct conversion).
  * concrete part: the regenerated temperature table in the decimal back-end, all six
    ordered pairs (resp. all six ordered triples) of distinct units, every decimal amount
    of magnitude ≤ 10¹², explicit bound.
-/
namespace Qty.C14
open Qty

section General
variable {A : Type} (R : Arith A)

/-- `conv_affine_sound` for an input amount that is itself only known up to an error:
if `q.amount` realises `xa`, one table conversion realises `xa·f + o`. -/
theorem conv_affine_sound_approx {M : ErrModel} (L : Laws R M) (rows : List (ConvRow A))
    (q : Q A Nat) (tgt : Nat) (h : q.unit ≠ tgt) (r : ConvRow A)
    (hfind : rows.find? (fun r => r.fromU == q.unit && r.toU == tgt) = some r)
    (xa f o : Approx) (hx : Realises R q.amount xa) (hxe : 0 ≤ xa.err)
    (hf : Realises R r.factor f) (ho : Realises R r.offset o) (hfe : 0 ≤ f.err) (hoe : 0 ≤ o.err)
    (hok : (Approx.add M (Approx.mul M xa f) o).ok = true) :
    ∃ res, tconv R rows q tgt = .ok (some res) ∧ res.unit = tgt ∧
      Realises R res.amount (Approx.add M (Approx.mul M xa f) o) := by
  have hokm : (Approx.mul M xa f).ok = true := add_ok_left _ _ hok
  obtain ⟨m, hmul, hm⟩ := mul_sound R L q.amount r.factor xa f hx hf hxe hfe hokm
  obtain ⟨c, hadd, hc⟩ := add_sound R L m r.offset _ o hm ho
    (mul_err_nonneg L.wf _ _ hxe hfe) hoe hok
  refine ⟨⟨c, tgt⟩, ?_, rfl, hc⟩
  unfold tconv
  rw [if_neg h, hfind]
  simp [hmul, hadd, bind, Except.bind, pure, Except.pure]

/-- error-propagated value of one table conversion: `a·f + o` -/
def affine (M : ErrModel) (a f o : Approx) : Approx := Approx.add M (Approx.mul M a f) o

/-- error-propagated value of two chained table conversions of the exact amount `x`:
`(x·f₁ + o₁)·f₂ + o₂` -/
def chain (M : ErrModel) (x : Rat) (f1 o1 f2 o2 : Approx) : Approx :=
  Approx.add M (Approx.mul M (Approx.add M (Approx.mul M (Approx.exact x) f1) o1) f2) o2

theorem affine_v (M : ErrModel) (a f o : Approx) : (affine M a f o).v = a.v * f.v + o.v := rfl

theorem chain_v (M : ErrModel) (x : Rat) (f1 o1 f2 o2 : Approx) :
    (chain M x f1 o1 f2 o2).v = (x * f1.v + o1.v) * f2.v + o2.v := rfl

/-- mutually inverse constants: the exact value of the round trip is the input -/
theorem roundtrip_value (M : ErrModel) (x : Rat) (f1 o1 f2 o2 : Approx)
    (hF : f1.v * f2.v = 1) (hO : o1.v * f2.v + o2.v = 0) :
    (chain M x f1 o1 f2 o2).v = x := by
  rw [chain_v]
  have : (x * f1.v + o1.v) * f2.v + o2.v = x * (f1.v * f2.v) + (o1.v * f2.v + o2.v) := by ring
  rw [this, hF, hO]; ring

/-- constants that compose to those of a third row: the exact value of the two-step
conversion is the exact value of the direct one -/
theorem compose_value (M : ErrModel) (x : Rat) (f1 o1 f2 o2 f3 o3 : Approx)
    (hF : f1.v * f2.v = f3.v) (hO : o1.v * f2.v + o2.v = o3.v) :
    (chain M x f1 o1 f2 o2).v = (affine M (Approx.exact x) f3 o3).v := by
  rw [chain_v, affine_v]
  have : (x * f1.v + o1.v) * f2.v + o2.v = x * (f1.v * f2.v) + (o1.v * f2.v + o2.v) := by ring
  rw [this, hF, hO]; rfl

/-- two chained table conversions `u → v → w` (`w = u` allowed) of an exact amount succeed and
realise the composed expression `chain` -/
theorem conv_chain_sound {M : ErrModel} (L : Laws R M) (rows : List (ConvRow A))
    (q : Q A Nat) (v w : Nat) (huv : q.unit ≠ v) (hvw : v ≠ w) (r1 r2 : ConvRow A)
    (hfind1 : rows.find? (fun r => r.fromU == q.unit && r.toU == v) = some r1)
    (hfind2 : rows.find? (fun r => r.fromU == v && r.toU == w) = some r2)
    (x : Rat) (f1 o1 f2 o2 : Approx) (hx : R.val q.amount = some x)
    (hf1 : Realises R r1.factor f1) (ho1 : Realises R r1.offset o1)
    (hf2 : Realises R r2.factor f2) (ho2 : Realises R r2.offset o2)
    (hf1e : 0 ≤ f1.err) (ho1e : 0 ≤ o1.err) (hf2e : 0 ≤ f2.err) (ho2e : 0 ≤ o2.err)
    (hok : (chain M x f1 o1 f2 o2).ok = true) :
    ∃ mid res, tconv R rows q v = .ok (some mid) ∧ mid.unit = v ∧
      tconv R rows mid w = .ok (some res) ∧ res.unit = w ∧
      Realises R res.amount (chain M x f1 o1 f2 o2) := by
  have hok1 : (Approx.add M (Approx.mul M (Approx.exact x) f1) o1).ok = true :=
    mul_ok_left _ _ (add_ok_left _ _ hok)
  obtain ⟨mid, hc1, hu1, hm1⟩ := conv_affine_sound R L rows q v huv r1 hfind1 x f1 o1 hx
    hf1 ho1 hf1e ho1e hok1
  have hmidv : mid.unit ≠ w := by rw [hu1]; exact hvw
  have hfind2' : rows.find? (fun r => r.fromU == mid.unit && r.toU == w) = some r2 := by
    rw [hu1]; exact hfind2
  have he1 : 0 ≤ (Approx.add M (Approx.mul M (Approx.exact x) f1) o1).err :=
    add_err_nonneg L.wf _ _ (mul_err_nonneg L.wf _ _ (exact_err_nonneg x) hf1e) ho1e
  obtain ⟨res, hc2, hu2, hm2⟩ := conv_affine_sound_approx R L rows mid w hmidv r2 hfind2'
    _ f2 o2 hm1 he1 hf2 ho2 hf2e ho2e hok
  exact ⟨mid, res, hc1, hu1, hc2, hu2, hm2⟩

/-- ROUND TRIP, any table, any lawful arithmetic: if the rows found for `(u, v)` and `(v, u)`
realise constants that are mutually inverse (`f₁·f₂ = 1`, `o₁·f₂ + o₂ = 0`), converting
`x·u` to `v` and the result back to `u` succeeds, and the final amount realises an
expression whose exact value is `x` (`roundtrip_value`), i.e. it is within
`(chain M x f1 o1 f2 o2).err` of `x`. -/
theorem conv_roundtrip_sound {M : ErrModel} (L : Laws R M) (rows : List (ConvRow A))
    (q : Q A Nat) (v : Nat) (huv : q.unit ≠ v) (r1 r2 : ConvRow A)
    (hfind1 : rows.find? (fun r => r.fromU == q.unit && r.toU == v) = some r1)
    (hfind2 : rows.find? (fun r => r.fromU == v && r.toU == q.unit) = some r2)
    (x : Rat) (f1 o1 f2 o2 : Approx) (hx : R.val q.amount = some x)
    (hf1 : Realises R r1.factor f1) (ho1 : Realises R r1.offset o1)
    (hf2 : Realises R r2.factor f2) (ho2 : Realises R r2.offset o2)
    (hf1e : 0 ≤ f1.err) (ho1e : 0 ≤ o1.err) (hf2e : 0 ≤ f2.err) (ho2e : 0 ≤ o2.err)
    (hF : f1.v * f2.v = 1) (hO : o1.v * f2.v + o2.v = 0)
    (hok : (chain M x f1 o1 f2 o2).ok = true) :
    ∃ mid back, tconv R rows q v = .ok (some mid) ∧ mid.unit = v ∧
      tconv R rows mid q.unit = .ok (some back) ∧ back.unit = q.unit ∧
      Realises R back.amount (chain M x f1 o1 f2 o2) ∧
      (chain M x f1 o1 f2 o2).v = x ∧
      ∃ z, R.val back.amount = some z ∧ |z - x| ≤ (chain M x f1 o1 f2 o2).err := by
  obtain ⟨mid, back, h1, h2, h3, h4, h5⟩ := conv_chain_sound R L rows q v q.unit huv
    (Ne.symm huv) r1 r2 hfind1 hfind2 x f1 o1 f2 o2 hx hf1 ho1 hf2 ho2 hf1e ho1e hf2e ho2e hok
  have hv := roundtrip_value M x f1 o1 f2 o2 hF hO
  refine ⟨mid, back, h1, h2, h3, h4, h5, hv, ?_⟩
  obtain ⟨z, hz, hze⟩ := h5
  rw [hv] at hze
  exact ⟨z, hz, hze⟩

/-- COMPOSITION, any table, any lawful arithmetic: if the rows found for `(u, v)`, `(v, w)`
and `(u, w)` realise constants with `f₁·f₂ = f₃`, `o₁·f₂ + o₂ = o₃`, then converting
`x·u` to `v` and on to `w`, and converting `x·u` directly to `w`, both succeed and realise
expressions with the SAME exact value (`compose_value`); the two computed amounts differ
by at most the sum of the two propagated bounds. -/
theorem conv_compose_sound {M : ErrModel} (L : Laws R M) (rows : List (ConvRow A))
    (q : Q A Nat) (v w : Nat) (huv : q.unit ≠ v) (hvw : v ≠ w) (huw : q.unit ≠ w)
    (r1 r2 r3 : ConvRow A)
    (hfind1 : rows.find? (fun r => r.fromU == q.unit && r.toU == v) = some r1)
    (hfind2 : rows.find? (fun r => r.fromU == v && r.toU == w) = some r2)
    (hfind3 : rows.find? (fun r => r.fromU == q.unit && r.toU == w) = some r3)
    (x : Rat) (f1 o1 f2 o2 f3 o3 : Approx) (hx : R.val q.amount = some x)
    (hf1 : Realises R r1.factor f1) (ho1 : Realises R r1.offset o1)
    (hf2 : Realises R r2.factor f2) (ho2 : Realises R r2.offset o2)
    (hf3 : Realises R r3.factor f3) (ho3 : Realises R r3.offset o3)
    (hf1e : 0 ≤ f1.err) (ho1e : 0 ≤ o1.err) (hf2e : 0 ≤ f2.err) (ho2e : 0 ≤ o2.err)
    (hf3e : 0 ≤ f3.err) (ho3e : 0 ≤ o3.err)
    (hF : f1.v * f2.v = f3.v) (hO : o1.v * f2.v + o2.v = o3.v)
    (hok12 : (chain M x f1 o1 f2 o2).ok = true)
    (hok3 : (affine M (Approx.exact x) f3 o3).ok = true) :
    ∃ mid two direct, tconv R rows q v = .ok (some mid) ∧ mid.unit = v ∧
      tconv R rows mid w = .ok (some two) ∧ two.unit = w ∧
      tconv R rows q w = .ok (some direct) ∧ direct.unit = w ∧
      Realises R two.amount (chain M x f1 o1 f2 o2) ∧
      Realises R direct.amount (affine M (Approx.exact x) f3 o3) ∧
      (chain M x f1 o1 f2 o2).v = (affine M (Approx.exact x) f3 o3).v ∧
      ∃ z12 z3, R.val two.amount = some z12 ∧ R.val direct.amount = some z3 ∧
        |z12 - z3| ≤ (chain M x f1 o1 f2 o2).err + (affine M (Approx.exact x) f3 o3).err := by
  obtain ⟨mid, two, h1, h2, h3, h4, h5⟩ := conv_chain_sound R L rows q v w huv hvw r1 r2
    hfind1 hfind2 x f1 o1 f2 o2 hx hf1 ho1 hf2 ho2 hf1e ho1e hf2e ho2e hok12
  obtain ⟨direct, h6, h7, h8⟩ := conv_affine_sound R L rows q w huw r3 hfind3 x f3 o3 hx
    hf3 ho3 hf3e ho3e hok3
  have hv := compose_value M x f1 o1 f2 o2 f3 o3 hF hO
  refine ⟨mid, two, direct, h1, h2, h3, h4, h6, h7, h5, h8, hv, ?_⟩
  obtain ⟨z12, hz12, he12⟩ := h5
  obtain ⟨z3, hz3, he3⟩ := h8
  refine ⟨z12, z3, hz12, hz3, ?_⟩
  rw [hv] at he12
  have hz3' : |(affine M (Approx.exact x) f3 o3).v - z3| ≤ (affine M (Approx.exact x) f3 o3).err := by
    rw [abs_sub_comm]; exact he3
  have key : z12 - z3 = (z12 - (affine M (Approx.exact x) f3 o3).v) +
      ((affine M (Approx.exact x) f3 o3).v - z3) := by ring
  rw [key]
  exact le_trans (abs_add_le _ _) (add_le_add he12 hz3')

end General

/-! ### the decimal back-end: explicit error of one and of two steps -/

section Decimal

/-- a published constant known through an 18-digit literal: value `F`, error ≤ ½·10⁻¹⁸ -/
def lit18 (F : Rat) : Approx := ⟨F, 1 / (2 * 10 ^ 18), true⟩

theorem dec_mul_err (a b : Approx) : (Approx.mul ErrModel.dec a b).err =
    |a.v| * b.err + |b.v| * a.err + a.err * b.err + 1 / (2 * 10 ^ 18) := by
  simp only [Approx.mul, ratAbs_eq_abs, Dec.dec_E]

theorem dec_add_err (a b : Approx) : (Approx.add ErrModel.dec a b).err = a.err + b.err := by
  simp only [Approx.add, Dec.dec_Ea, add_zero]

theorem dec_mul_ok (a b : Approx) (ha : a.ok = true) (hb : b.ok = true)
    (hae : 0 ≤ a.err) (hbe : 0 ≤ b.err)
    (h : |a.v * b.v| + (|a.v| * b.err + |b.v| * a.err + a.err * b.err) + 1 / (2 * 10 ^ 18)
      ≤ 10 ^ 19) :
    (Approx.mul ErrModel.dec a b).ok = true := by
  simp only [Approx.mul, Bool.and_eq_true, ha, hb, true_and, ratAbs_eq_abs, Dec.dec_E,
    Dec.safe_iff]
  rw [abs_of_nonneg (by positivity)]
  exact h

theorem dec_add_ok (a b : Approx) (ha : a.ok = true) (hb : b.ok = true)
    (hae : 0 ≤ a.err) (hbe : 0 ≤ b.err)
    (h1 : |a.v| + a.err ≤ 10 ^ 19) (h2 : |b.v| + b.err ≤ 10 ^ 19)
    (h3 : |a.v + b.v| + (a.err + b.err) ≤ 10 ^ 19) :
    (Approx.add ErrModel.dec a b).ok = true := by
  simp only [Approx.add, Bool.and_eq_true, ha, hb, true_and, ratAbs_eq_abs, Dec.dec_Ea,
    Dec.safe_iff, add_zero]
  refine ⟨⟨?_, ?_⟩, ?_⟩
  · rw [abs_of_nonneg (by positivity)]; exact h1
  · rw [abs_of_nonneg (by positivity)]; exact h2
  · rw [abs_of_nonneg (by positivity)]; exact h3

theorem affine_dec_err (x F O : Rat) :
    (affine ErrModel.dec (Approx.exact x) (lit18 F) (lit18 O)).err =
      (|x| + 2) / (2 * 10 ^ 18) := by
  simp only [affine, dec_mul_err, dec_add_err, lit18, Approx.exact]
  ring

theorem chain_dec_err (x F1 O1 F2 O2 : Rat) :
    (chain ErrModel.dec x (lit18 F1) (lit18 O1) (lit18 F2) (lit18 O2)).err =
      (|x * F1 + O1| + |F2| * (|x| + 2) + (|x| + 2) / (2 * 10 ^ 18) + 2) / (2 * 10 ^ 18) := by
  simp only [chain, dec_mul_err, dec_add_err, mul_v, add_v, lit18, Approx.exact]
  ring

theorem lit18_v (F : Rat) : (lit18 F).v = F := rfl
theorem lit18_err (F : Rat) : (lit18 F).err = 1 / (2 * 10 ^ 18) := rfl
theorem lit18_ok (F : Rat) : (lit18 F).ok = true := rfl
theorem lit18_err_nonneg (F : Rat) : 0 ≤ (lit18 F).err := by simp only [lit18]; positivity

/-- first step `x·F + O` of an exact amount in the decimal back-end: in range, and explicit
value / error facts used by the second step -/
theorem affine_dec_ok (x F O : Rat) (hx : |x| ≤ 10 ^ 12) (hF : |F| ≤ 9 / 5) (hO : |O| ≤ 460) :
    (affine ErrModel.dec (Approx.exact x) (lit18 F) (lit18 O)).ok = true := by
  have hx0 := abs_nonneg x
  have hxF : |x * F| ≤ 10 ^ 12 * (9 / 5) := by
    rw [abs_mul]; exact mul_le_mul hx hF (abs_nonneg _) (by norm_num)
  have hs : |x * F + O| ≤ |x * F| + |O| := abs_add_le _ _
  have hm : (Approx.mul ErrModel.dec (Approx.exact x) (lit18 F)).ok = true := by
    apply dec_mul_ok _ _ rfl rfl (exact_err_nonneg x) (lit18_err_nonneg F)
    simp only [Approx.exact, lit18]
    linarith
  have hme : (Approx.mul ErrModel.dec (Approx.exact x) (lit18 F)).err =
      (|x| + 1) / (2 * 10 ^ 18) := by
    rw [dec_mul_err]; simp only [Approx.exact, lit18]; ring
  unfold affine
  apply dec_add_ok _ _ hm rfl _ (lit18_err_nonneg O)
  · rw [hme, mul_v]; simp only [Approx.exact, lit18]; linarith
  · simp only [lit18]; linarith
  · rw [hme, mul_v]; simp only [Approx.exact, lit18]; linarith
  · rw [hme]; positivity

theorem chain_eq_affine (M : ErrModel) (x : Rat) (f1 o1 f2 o2 : Approx) :
    chain M x f1 o1 f2 o2 = affine M (affine M (Approx.exact x) f1 o1) f2 o2 := rfl

/-- two chained steps in the decimal back-end stay in range for `|x| ≤ 10¹²` and constants
of the size of the temperature table's -/
theorem chain_dec_ok (x F1 O1 F2 O2 : Rat) (hx : |x| ≤ 10 ^ 12)
    (hF1 : |F1| ≤ 9 / 5) (hO1 : |O1| ≤ 460) (hF2 : |F2| ≤ 9 / 5) (hO2 : |O2| ≤ 460) :
    (chain ErrModel.dec x (lit18 F1) (lit18 O1) (lit18 F2) (lit18 O2)).ok = true := by
  have hx0 := abs_nonneg x
  have hxF : |x * F1| ≤ 10 ^ 12 * (9 / 5) := by
    rw [abs_mul]; exact mul_le_mul hx hF1 (abs_nonneg _) (by norm_num)
  have hy : |x * F1 + O1| ≤ 2 * 10 ^ 12 := by
    have := abs_add_le (x * F1) O1
    linarith
  have hyF : |(x * F1 + O1) * F2| ≤ 2 * 10 ^ 12 * (9 / 5) := by
    rw [abs_mul]; exact mul_le_mul hy hF2 (abs_nonneg _) (by norm_num)
  have hF20 := abs_nonneg F2
  have hy0 := abs_nonneg (x * F1 + O1)
  have hFe : |F2| * (|x| + 2) ≤ 9 / 5 * (10 ^ 12 + 2) :=
    mul_le_mul hF2 (by linarith) (by linarith) (by norm_num)
  rw [chain_eq_affine]
  have hB := affine_dec_ok x F1 O1 hx hF1 hO1
  have hBe := affine_dec_err x F1 O1
  have hBv : (affine ErrModel.dec (Approx.exact x) (lit18 F1) (lit18 O1)).v = x * F1 + O1 := rfl
  generalize affine ErrModel.dec (Approx.exact x) (lit18 F1) (lit18 O1) = B at hB hBe hBv
  have hBe0 : 0 ≤ B.err := by rw [hBe]; positivity
  have hm : (Approx.mul ErrModel.dec B (lit18 F2)).ok = true := by
    apply dec_mul_ok _ _ hB rfl hBe0 (lit18_err_nonneg F2)
    rw [hBe, hBv]; simp only [lit18]
    have e : |F2| * ((|x| + 2) / (2 * 10 ^ 18)) = |F2| * (|x| + 2) / (2 * 10 ^ 18) := by ring
    rw [e]
    have h1 : |F2| * (|x| + 2) / (2 * 10 ^ 18) ≤ 9 / 5 * (10 ^ 12 + 2) / (2 * 10 ^ 18) :=
      div_le_div_of_nonneg_right hFe (by norm_num)
    linarith
  have hme : (Approx.mul ErrModel.dec B (lit18 F2)).err =
      (|x * F1 + O1| + |F2| * (|x| + 2) + (|x| + 2) / (2 * 10 ^ 18) + 1) / (2 * 10 ^ 18) := by
    rw [dec_mul_err, hBe, hBv]; simp only [lit18]; ring
  have hme1 : (Approx.mul ErrModel.dec B (lit18 F2)).err ≤ 1 := by
    rw [hme, div_le_one (by norm_num)]
    linarith
  have hme0 : 0 ≤ (Approx.mul ErrModel.dec B (lit18 F2)).err :=
    mul_err_nonneg Dec.errModel_wf _ _ hBe0 (lit18_err_nonneg F2)
  have hs := abs_add_le ((x * F1 + O1) * F2) O2
  unfold affine
  apply dec_add_ok _ _ hm rfl hme0 (lit18_err_nonneg O2)
  · rw [mul_v, hBv, lit18_v]; linarith
  · rw [lit18_v, lit18_err]; linarith
  · rw [mul_v, hBv, lit18_v, lit18_v, lit18_err]; linarith

/-- explicit bound: `(4·|x| + 500)·½·10⁻¹⁸` -/
theorem chain_dec_bound (x F1 O1 F2 O2 : Rat) (hx : |x| ≤ 10 ^ 12)
    (hF1 : |F1| ≤ 9 / 5) (hO1 : |O1| ≤ 460) (hF2 : |F2| ≤ 9 / 5) :
    (chain ErrModel.dec x (lit18 F1) (lit18 O1) (lit18 F2) (lit18 O2)).err ≤
      (4 * |x| + 500) / (2 * 10 ^ 18) := by
  have hx0 := abs_nonneg x
  have hxF : |x * F1| ≤ |x| * (9 / 5) := by
    rw [abs_mul]; exact mul_le_mul_of_nonneg_left hF1 hx0
  have hy : |x * F1 + O1| ≤ |x| * (9 / 5) + 460 := by
    have := abs_add_le (x * F1) O1
    linarith
  have hFe : |F2| * (|x| + 2) ≤ 9 / 5 * (|x| + 2) :=
    mul_le_mul_of_nonneg_right hF2 (by linarith)
  have hsm : (|x| + 2) / (2 * 10 ^ 18) ≤ 1 := by
    rw [div_le_one (by norm_num)]; linarith
  rw [chain_dec_err]
  apply div_le_div_of_nonneg_right _ (by norm_num)
  linarith

end Decimal

/-! ### the regenerated temperature table in the decimal back-end

`tempRows` (`QtyModel/TempRows.lean`) is the very definition the driver executes for `temp rows` /
`temp conv` (constants resolved to unit indices of the `Temperature` table, literals through the
back-end's `Amnt!`); the table is built as `buildWorld` builds it (`MacroFront.expand` of the
catalogue item, then `RTable.ofDef`). -/

/-- … in the decimal back-end -/
def tempRowsDec : List (ConvRow Dec) := ((tempTable Dec.arith).bind (tempRows Dec.arith)).getD []
/-- name of unit `u` of `Temperature` -/
def tempUnitName (u : Nat) : Text :=
  ((tempTable Dec.arith).bind (fun T => T.units[u]?.map (·.name))).getD []

/-- what that evaluates to: (from, to, factor coeff, factor digits, offset coeff, offset digits) -/
theorem tempRowsDec_eq :
    tempRowsDec.map (fun r => (r.fromU, r.toU, r.factor.coeff, r.factor.nfd, r.offset.coeff, r.offset.nfd)) =
    [(2, 0, 1, 0, -27315, 2),
     (0, 2, 1, 0, 27315, 2),
     (2, 1, 18, 1, -45967, 2),
     (1, 2, 555555555555555556, 18, 255372222222222222222, 18),
     (0, 1, 18, 1, 32, 0),
     (1, 0, 555555555555555556, 18, -17777777777777777778, 18)] := by
  decide +kernel

/-- unit indices: 0 = °C, 1 = °F, 2 = K -/
theorem tempUnitName_eq : tempUnitName 0 = Spec.Temp.celsius ∧
    tempUnitName 1 = Spec.Temp.fahrenheit ∧ tempUnitName 2 = Spec.Temp.kelvin := by
  decide +kernel

/-- decidable facts about one row: amounts well-formed, factor/offset within ½·10⁻¹⁸ of the exact
constants `F`, `O`, which are of moderate size -/
def rowOk (r : ConvRow Dec) (F O : Rat) : Bool :=
  r.factor.wf && r.offset.wf &&
  decide (ratAbs (r.factor.toRat - F) ≤ 1 / (2 * pow10 18)) &&
  decide (ratAbs (r.offset.toRat - O) ≤ 1 / (2 * pow10 18)) &&
  decide (ratAbs F ≤ 9 / 5) && decide (ratAbs O ≤ 460)

/-- the FIRST row for `(u, v)` exists and matches the exact formula for the units' names -/
def pairOk (u v : Nat) : Bool :=
  match tempRowsDec.find? (fun r => r.fromU == u && r.toU == v),
        Spec.Temp.formula (tempUnitName u) (tempUnitName v) with
  | some r, some (F, O) => rowOk r F O
  | _, _ => false

/-- kernel evaluation over all six ordered pairs -/
theorem pairs_ok : ∀ u < 3, ∀ v < 3, u ≠ v → pairOk u v = true := by
  decide +kernel

theorem pair_facts (u v : Nat) (h : pairOk u v = true) :
    ∃ r F O, tempRowsDec.find? (fun r => r.fromU == u && r.toU == v) = some r ∧
      Spec.Temp.formula (tempUnitName u) (tempUnitName v) = some (F, O) ∧
      Realises Dec.arith r.factor (lit18 F) ∧ Realises Dec.arith r.offset (lit18 O) ∧
      |F| ≤ 9 / 5 ∧ |O| ≤ 460 := by
  unfold pairOk at h
  split at h
  · next r F O hr hf =>
    refine ⟨r, F, O, hr, hf, ?_⟩
    simp only [rowOk, Bool.and_eq_true, decide_eq_true_eq, ratAbs_eq_abs, pow10_eq] at h
    obtain ⟨⟨⟨⟨⟨w1, w2⟩, e1⟩, e2⟩, b1⟩, b2⟩ := h
    exact ⟨⟨_, Dec.val_of_wf w1, e1⟩, ⟨_, Dec.val_of_wf w2, e2⟩, b1, b2⟩
  · exact absurd h (by simp)

/-- ROUND TRIP on the regenerated temperature table, decimal back-end: for every ordered pair
of distinct units (0 = °C, 1 = °F, 2 = K) and every decimal amount `a` of magnitude ≤ 10¹²,
converting there and back succeeds and returns an amount within `(2·|x| + 250)·10⁻¹⁸` of `x`. -/
theorem temp_roundtrip_dec (u v : Nat) (hu : u < 3) (hv : v < 3) (huv : u ≠ v)
    (a : Dec) (x : Rat) (hx : Dec.arith.val a = some x) (hxb : |x| ≤ 10 ^ 12) :
    ∃ mid back z, tconv Dec.arith tempRowsDec ⟨a, u⟩ v = .ok (some mid) ∧ mid.unit = v ∧
      tconv Dec.arith tempRowsDec mid u = .ok (some back) ∧ back.unit = u ∧
      Dec.arith.val back.amount = some z ∧ |z - x| ≤ (4 * |x| + 500) / (2 * 10 ^ 18) := by
  obtain ⟨r1, F1, O1, hr1, hfo1, hf1, ho1, hF1, hO1⟩ := pair_facts u v (pairs_ok u hu v hv huv)
  obtain ⟨r2, F2, O2, hr2, hfo2, hf2, ho2, hF2, hO2⟩ :=
    pair_facts v u (pairs_ok v hv u hu (Ne.symm huv))
  obtain ⟨hF, hO⟩ := formula_inverse _ _ F1 O1 F2 O2 hfo1 hfo2
  obtain ⟨mid, back, h1, h2, h3, h4, -, -, z, hz, hze⟩ :=
    conv_roundtrip_sound Dec.arith Dec.laws tempRowsDec ⟨a, u⟩ v huv r1 r2 hr1 hr2 x
      (lit18 F1) (lit18 O1) (lit18 F2) (lit18 O2) hx hf1 ho1 hf2 ho2
      (lit18_err_nonneg _) (lit18_err_nonneg _) (lit18_err_nonneg _) (lit18_err_nonneg _)
      hF hO (chain_dec_ok x F1 O1 F2 O2 hxb hF1 hO1 hF2 hO2)
  exact ⟨mid, back, z, h1, h2, h3, h4, hz,
    le_trans hze (chain_dec_bound x F1 O1 F2 O2 hxb hF1 hO1 hF2)⟩

/-- COMPOSITION on the regenerated temperature table, decimal back-end: for every ordered
triple of distinct units and every decimal amount of magnitude ≤ 10¹², converting `u → v → w`
and converting `u → w` directly both succeed and the two amounts differ by at most
`(2.5·|x| + 251)·10⁻¹⁸`. -/
theorem temp_compose_dec (u v w : Nat) (hu : u < 3) (hv : v < 3) (hw : w < 3)
    (huv : u ≠ v) (hvw : v ≠ w) (huw : u ≠ w)
    (a : Dec) (x : Rat) (hx : Dec.arith.val a = some x) (hxb : |x| ≤ 10 ^ 12) :
    ∃ mid two direct z12 z3, tconv Dec.arith tempRowsDec ⟨a, u⟩ v = .ok (some mid) ∧ mid.unit = v ∧
      tconv Dec.arith tempRowsDec mid w = .ok (some two) ∧ two.unit = w ∧
      tconv Dec.arith tempRowsDec ⟨a, u⟩ w = .ok (some direct) ∧ direct.unit = w ∧
      Dec.arith.val two.amount = some z12 ∧ Dec.arith.val direct.amount = some z3 ∧
      |z12 - z3| ≤ (5 * |x| + 502) / (2 * 10 ^ 18) := by
  obtain ⟨r1, F1, O1, hr1, hfo1, hf1, ho1, hF1, hO1⟩ := pair_facts u v (pairs_ok u hu v hv huv)
  obtain ⟨r2, F2, O2, hr2, hfo2, hf2, ho2, hF2, hO2⟩ := pair_facts v w (pairs_ok v hv w hw hvw)
  obtain ⟨r3, F3, O3, hr3, hfo3, hf3, ho3, hF3, hO3⟩ := pair_facts u w (pairs_ok u hu w hw huw)
  obtain ⟨hF, hO⟩ := formula_compose _ _ _ F1 O1 F2 O2 F3 O3 hfo1 hfo2 hfo3
  obtain ⟨mid, two, direct, h1, h2, h3, h4, h5, h6, -, -, -, z12, z3, hz12, hz3, hze⟩ :=
    conv_compose_sound Dec.arith Dec.laws tempRowsDec ⟨a, u⟩ v w huv hvw huw r1 r2 r3
      hr1 hr2 hr3 x (lit18 F1) (lit18 O1) (lit18 F2) (lit18 O2) (lit18 F3) (lit18 O3) hx
      hf1 ho1 hf2 ho2 hf3 ho3
      (lit18_err_nonneg _) (lit18_err_nonneg _) (lit18_err_nonneg _) (lit18_err_nonneg _)
      (lit18_err_nonneg _) (lit18_err_nonneg _) hF hO
      (chain_dec_ok x F1 O1 F2 O2 hxb hF1 hO1 hF2 hO2) (affine_dec_ok x F3 O3 hxb hF3 hO3)
  refine ⟨mid, two, direct, z12, z3, h1, h2, h3, h4, h5, h6, hz12, hz3, le_trans hze ?_⟩
  have hb := chain_dec_bound x F1 O1 F2 O2 hxb hF1 hO1 hF2
  rw [affine_dec_err]
  have e : (5 * |x| + 502) / (2 * 10 ^ 18) =
      (4 * |x| + 500) / (2 * 10 ^ 18) + (|x| + 2) / (2 * 10 ^ 18) := by ring
  rw [e]
  exact add_le_add hb le_rfl

/-! ### non-vacuity -/

/-- 20 °C → 68.0 °F → 20.000000000000000030 °C on the regenerated rows: the round trip is
NOT exact (0.555555555555555556 · 1.8 ≠ 1), the error 3·10⁻¹⁷ is within the proved bound
(4·20 + 500)/(2·10¹⁸) = 2.9·10⁻¹⁶ -/
example : tconv Dec.arith tempRowsDec ⟨⟨20, 0⟩, 0⟩ 1 = .ok (some ⟨⟨680, 1⟩, 1⟩) ∧
    tconv Dec.arith tempRowsDec ⟨⟨680, 1⟩, 1⟩ 0 = .ok (some ⟨⟨20000000000000000030, 18⟩, 0⟩) := by
  decide +kernel

/-- 20 °C → °F → K gives 293.150000000000000030 K, the direct row 293.15 K -/
example : tconv Dec.arith tempRowsDec ⟨⟨680, 1⟩, 1⟩ 2 = .ok (some ⟨⟨293150000000000000030, 18⟩, 2⟩) ∧
    tconv Dec.arith tempRowsDec ⟨⟨20, 0⟩, 0⟩ 2 = .ok (some ⟨⟨29315, 2⟩, 2⟩) := by
  decide +kernel

/-- the hypotheses of `temp_roundtrip_dec` are satisfiable, and its conclusion is tight enough
to be informative: instantiated at 20 °C ↔ °F it bounds the observed error -/
example : ∃ mid back z, tconv Dec.arith tempRowsDec ⟨⟨20, 0⟩, 0⟩ 1 = .ok (some mid) ∧ mid.unit = 1 ∧
    tconv Dec.arith tempRowsDec mid 0 = .ok (some back) ∧ back.unit = 0 ∧
    Dec.arith.val back.amount = some z ∧ |z - 20| ≤ (4 * |(20 : Rat)| + 500) / (2 * 10 ^ 18) :=
  temp_roundtrip_dec 0 1 (by decide) (by decide) (by decide) ⟨20, 0⟩ 20
    (by rw [Dec.val_of_wf (by decide)]; simp [Dec.toRat_eq]) (by norm_num)

/-- a hand-written two-row table whose constants are exactly inverse (K ↔ °C): the general
theorem's premisses hold with zero-error constants -/
example : tconv Dec.arith [⟨0, 1, ⟨1, 0⟩, ⟨-27315, 2⟩⟩, ⟨1, 0, ⟨1, 0⟩, ⟨27315, 2⟩⟩] ⟨⟨300, 0⟩, 0⟩ 1
      = .ok (some ⟨⟨2685, 2⟩, 1⟩) ∧
    tconv Dec.arith [⟨0, 1, ⟨1, 0⟩, ⟨-27315, 2⟩⟩, ⟨1, 0, ⟨1, 0⟩, ⟨27315, 2⟩⟩] ⟨⟨2685, 2⟩, 1⟩ 0
      = .ok (some ⟨⟨30000, 2⟩, 0⟩) := by
  decide +kernel

end Qty.C14
