import QtyModel.TypingSpec
import QtyModel.Spec.Dimensions
import QtyModel.Generated.Catalogue
import QtyModel.Generated.Astro
import QtyModel.Generated.Synth
/-
  C06 — Dimensional type safety of quantity arithmetic.  (partial: rustc is modelled)

  The verdict of the type checker for `L op R` is modelled as a lookup in the table of
  generated `impl`s (`Typing.lean`).  The theorems compare that table with the
  specification relation `TypingSpec.result`, written from the property text and
  independently of the generator, and with the independent dimension vectors.
-/
namespace Qty.C06
open Qty

def declsOf (items : List RawItem) : List TyDecl :=
  items.filterMap (fun it => match MacroFront.expand it with
    | .ok d => some (TyDecl.ofDef d)
    | .error _ => none)

def namesOf (decls : List TyDecl) : List Text := amountName :: decls.map (·.name)

/-- the impl table accepts exactly the meaningful combinations, with exactly the meaningful
result type: checked for every operator and every ordered pair of types -/
def agrees (decls : List TyDecl) : Bool :=
  BinOp.all.all (fun op => (namesOf decls).all (fun l => (namesOf decls).all (fun r =>
    typechecks decls op l r == TypingSpec.result decls op l r)))

/-- 15 types x 15 types x 6 operators = 1350 combinations of the main crate -/
theorem catalogue_typing_is_meaningful : agrees (declsOf Gen.Catalogue.items) = true := by decide +kernel
theorem astro_typing_is_meaningful : agrees (declsOf Gen.Astro.items) = true := by decide +kernel
theorem synth_typing_is_meaningful : agrees (declsOf Gen.Synth.items) = true := by decide +kernel

theorem catalogue_combination_count :
    BinOp.all.length * (namesOf (declsOf Gen.Catalogue.items)).length * (namesOf (declsOf Gen.Catalogue.items)).length = 1350 := by
  decide +kernel

/-- at most one result type per operand pair: no two generated impls share `(op, lhs, rhs)`
(otherwise rustc would reject the crate for conflicting implementations) -/
def unambiguous (decls : List TyDecl) : Bool :=
  decide (((implTable decls).map (fun i => (i.op, i.lhs, i.rhs))).Nodup)

theorem catalogue_result_unique : unambiguous (declsOf Gen.Catalogue.items) = true := by decide +kernel
theorem astro_result_unique : unambiguous (declsOf Gen.Astro.items) = true := by decide +kernel
theorem synth_result_unique : unambiguous (declsOf Gen.Synth.items) = true := by decide +kernel

/-- the catalogue generates 34 derived operator instances from 9 derivations -/
theorem catalogue_derived_impl_count :
    ((declsOf Gen.Catalogue.items).flatMap derivedImpls).length = 34 ∧
    ((declsOf Gen.Catalogue.items).filter (fun d => d.derived.isSome)).length = 9 := by decide +kernel

/-! ### dimensions -/

def dimOf (n : Text) : Option Spec.Dim.Vec :=
  (Spec.Dim.table.find? (fun p => Text.ofString p.1 == n)).map (·.2)

def vadd (a b : Spec.Dim.Vec) : Spec.Dim.Vec := List.zipWith (· + ·) a b
def vsub (a b : Spec.Dim.Vec) : Spec.Dim.Vec := List.zipWith (· - ·) a b

/-- every generated operator instance is dimensionally consistent with the independent SI
dimension vectors: `dim Out = dim L + dim R` for `*`, `dim L - dim R` for `/`
(this is what catches a derivation attached to the wrong operand types) -/
def dimensionConsistent (decls : List TyDecl) : Bool :=
  (implTable decls).all (fun i =>
    match i.op, dimOf i.lhs, dimOf i.rhs, dimOf i.out with
    | .mul, some a, some b, some c => vadd a b == c
    | .div, some a, some b, some c => vsub a b == c
    | .add, some a, some b, some c => a == b && a == c
    | .sub, some a, some b, some c => a == b && a == c
    | .eq, some a, some b, _ => a == b
    | .lt, some a, some b, _ => a == b
    | _, _, _, _ => false)

theorem catalogue_dimension_consistent : dimensionConsistent (declsOf Gen.Catalogue.items) = true := by
  decide +kernel

/-- non-vacuity: the specification is not trivially permissive -/
example : TypingSpec.result (declsOf Gen.Catalogue.items) .mul (Text.ofString "Mass") (Text.ofString "Length") = none ∧
    TypingSpec.result (declsOf Gen.Catalogue.items) .mul (Text.ofString "Force") (Text.ofString "Length")
      = some (Text.ofString "Energy") ∧
    TypingSpec.result (declsOf Gen.Catalogue.items) .div amountName (Text.ofString "Mass") = none ∧
    TypingSpec.result (declsOf Gen.Catalogue.items) .div amountName (Text.ofString "Duration")
      = some (Text.ofString "Frequency") := by decide +kernel

end Qty.C06
