import QtyModel.Props.OracleSoundBase
import QtyModel.Props.C05
/- `OracleSound`, C05: the unit `_fit` chooses. -/
set_option linter.unusedSectionVars false
namespace Qty.OracleSound
open Qty

variable {A : Type} (R : Arith A)

/-! ### C05: the unit `_fit` chooses -/

/-- `Oracle.c05fit` on the output of `fit`, for ANY magnitude `mag` shown to the oracle that is
within `tol` of the exact value `xv` of the fitted amount.  (The second call site of `Main.lean`,
ops `dmulu`/`ddivu`, shows the oracle `mag := zv * sw` computed from the RESULT and a tolerance
`tol := 8 * (…)`; this statement covers it whenever `|zv * sw - xv| ≤ tol`, which is a fact about
the particular rounding model, not a consequence of `Laws`.) -/
theorem c05fit_accepts_model_near {M : ErrModel} (L : Laws R M) (T : QT A Nat)
    (hI : T.fitIdentity = none)
    (sc : Nat → Rat) (hsc : ∀ u ∈ eligible T, R.val (T.scale u) = some (sc u))
    (hsorted : (eligible T).Pairwise (fun u v => sc u ≤ sc v))
    (x : A) (xv : Rat) (hx : R.val x = some xv) (r : Q A Nat) (h : fit R T x = .ok r)
    (sw : Rat) (hsw : R.val (T.scale r.unit) = some sw)
    (mag tol : Rat) (hnear : ratAbs (mag - xv) ≤ tol) (w : String) :
    Oracle.c05fit ((eligible T).filterMap (fun u => R.val (T.scale u)))
      ((eligible T).contains r.unit) sw mag tol ≠ .fail w := by
  suffices hh : NoFail (Oracle.c05fit ((eligible T).filterMap (fun u => R.val (T.scale u)))
      ((eligible T).contains r.unit) sw mag tol) from hh w
  obtain ⟨hmem, hspec⟩ := C05.fit_spec R L T hI sc hsc hsorted x xv hx r h
  have hswe : sw = sc r.unit := by
    have := hsc r.unit hmem
    rw [hsw] at this
    exact Option.some.inj this
  subst hswe
  rw [ratAbs_eq_abs] at hnear
  obtain ⟨hlo, hhi⟩ := abs_le.mp hnear
  have hE : ∀ s ∈ (eligible T).filterMap (fun u => R.val (T.scale u)), ∃ v ∈ eligible T, s = sc v := by
    intro s hs
    obtain ⟨v, hv, hvs⟩ := List.mem_filterMap.mp hs
    refine ⟨v, hv, ?_⟩
    rw [hsc v hv] at hvs
    exact (Option.some.inj hvs).symm
  unfold Oracle.c05fit
  apply and_ne_fail
  · exact NoFail.check _ (by simpa using hmem)
  apply and_ne_fail
  · apply NoFail.check
    rw [List.all_eq_true]
    intro s hs
    obtain ⟨v, hv, rfl⟩ := hE s hs
    simp only [Bool.not_eq_true', Bool.and_eq_false_iff, decide_eq_false_iff_not, not_lt, not_le]
    rcases hspec with ⟨-, hmax⟩ | ⟨hall, -⟩
    · by_cases hc : sc v ≤ mag - tol
      · left; exact hmax v hv (by linarith)
      · right; exact not_le.mp hc
    · right
      have := hall v hv
      linarith
  · apply NoFail.check
    rw [Bool.or_eq_true, List.all_eq_true]
    rcases hspec with ⟨hle, -⟩ | ⟨-, hmin⟩
    · right
      simp only [decide_eq_true_eq]
      linarith
    · left
      intro s hs
      obtain ⟨v, hv, rfl⟩ := hE s hs
      simp only [decide_eq_true_eq]
      exact hmin v hv

/-- **C05**, any table (see `c05fit_accepts_model_driver` for the literal form of the driver's call):
the oracle accepts the output of `fit` for every table whose
eligible units have finite scales listed in non-decreasing order (C09), for the tolerance `0` the
driver passes and for every other tolerance `tol ≥ 0`. -/
theorem c05fit_accepts_model {M : ErrModel} (L : Laws R M) (T : QT A Nat)
    (hI : T.fitIdentity = none)
    (sc : Nat → Rat) (hsc : ∀ u ∈ eligible T, R.val (T.scale u) = some (sc u))
    (hsorted : (eligible T).Pairwise (fun u v => sc u ≤ sc v))
    (x : A) (xv : Rat) (hx : R.val x = some xv) (r : Q A Nat) (h : fit R T x = .ok r)
    (sw : Rat) (hsw : R.val (T.scale r.unit) = some sw)
    (tol : Rat) (htol : 0 ≤ tol) (w : String) :
    Oracle.c05fit ((eligible T).filterMap (fun u => R.val (T.scale u)))
      ((eligible T).contains r.unit) sw xv tol ≠ .fail w := by
  exact c05fit_accepts_model_near R L T hI sc hsc hsorted x xv hx r h sw hsw xv tol
    (by rw [sub_self, ratAbs_eq_abs, abs_zero]; exact htol) w

/-- **C05**, literally the call of `Main.lean`, op `fit`:
`Oracle.c05fit E wElig sw x 0` with `E := (eligible (T.qt R)).filterMap (fun u => R.val (T.scaleOf R u))`,
`wElig := (eligible (T.qt R)).contains w || T.isAmount`, evaluated in the branch `T.isAmount = false`
after `R.val a = some x` and `R.val (T.scaleOf R w) = some sw`; `w` is the unit of the model's `fit`. -/
theorem c05fit_accepts_model_driver {M : ErrModel} (L : Laws R M) (T : RTable A)
    (hA : T.isAmount = false)
    (sc : Nat → Rat) (hsc : ∀ u ∈ eligible (T.qt R), R.val (T.scaleOf R u) = some (sc u))
    (hsorted : (eligible (T.qt R)).Pairwise (fun u v => sc u ≤ sc v))
    (a : A) (x : Rat) (hx : R.val a = some x) (r : Q A Nat) (h : fit R (T.qt R) a = .ok r)
    (sw : Rat) (hsw : R.val (T.scaleOf R r.unit) = some sw) (w : String) :
    Oracle.c05fit ((eligible (T.qt R)).filterMap (fun u => R.val (T.scaleOf R u)))
      ((eligible (T.qt R)).contains r.unit || T.isAmount) sw x 0 ≠ .fail w := by
  rw [hA, Bool.or_false]
  exact c05fit_accepts_model R L (T.qt R) (by simp [RTable.qt, hA]) sc hsc hsorted a x hx r h sw hsw
    0 (le_refl _) w

end Qty.OracleSound
