import QtyModel.Props.C01
import QtyModel.Props.C02
import QtyModel.Props.C03
import QtyModel.Props.C04
import QtyModel.Props.C05
import QtyModel.Props.C10
import QtyModel.Props.C13
import QtyModel.Props.Backends
/-
  C18 — Operations are total on in-range inputs.

  * binary floating point: no modelled operation on a quantity with a reference unit returns
    a panic, whatever the amounts (zero, subnormal, infinite, NaN): `f64_*_total`.
  * decimal: no panic inside the magnitude domain: the `*_mag` / `*_sound` theorems of
    C01, C03, C04, C13 instantiated with `Dec.laws` give existence of the result under the
    `safe` side conditions; `convSafe_of_in_range` shows that the property's literal domain
    (|magnitudes| ≤ 1e17) implies those side conditions for a conversion.
  * the only other panic is the documented unit mismatch of types without reference unit
    (`C10.only_documented_panic`).
-/
namespace Qty.C18
open Qty

variable {U V W : Type} [DecidableEq U] [DecidableEq V] [DecidableEq W]

/-! ### binary floating point -/

theorem f64_equiv_total (T : QT F64 U) (q : Q F64 U) (u : U) : ∃ v, equivAmount F64.arith T q u = .ok v := by
  unfold equivAmount ratio
  split
  · exact ⟨_, rfl⟩
  · exact ⟨_, rfl⟩

theorem f64_convert_total (T : QT F64 U) (q : Q F64 U) (u : U) : ∃ r, convert F64.arith T q u = .ok r := by
  obtain ⟨v, hv⟩ := f64_equiv_total T q u
  exact ⟨⟨v, u⟩, by simp [convert, hv, bind, Except.bind, pure, Except.pure]⟩

theorem f64_eq_total (T : QT F64 U) (a b : Q F64 U) : ∃ r, hrEq F64.arith T a b = .ok r := by
  obtain ⟨v, hv⟩ := f64_equiv_total T b a.unit
  obtain ⟨w, hw⟩ := f64_equiv_total T a b.unit
  unfold hrEq
  split <;> simp [hv, hw, bind, Except.bind, pure, Except.pure]

theorem f64_pcmp_total (T : QT F64 U) (a b : Q F64 U) : ∃ r, hrPcmp F64.arith T a b = .ok r := by
  obtain ⟨v, hv⟩ := f64_equiv_total T b a.unit
  obtain ⟨w, hw⟩ := f64_equiv_total T a b.unit
  unfold hrPcmp
  split
  · exact ⟨_, rfl⟩
  · split <;> simp [hv, hw, bind, Except.bind, pure, Except.pure]

theorem f64_add_total (T : QT F64 U) (a b : Q F64 U) : ∃ r, hrAdd F64.arith T a b = .ok r := by
  obtain ⟨v, hv⟩ := f64_equiv_total T b a.unit
  exact ⟨_, by simp only [hrAdd, hv, bind, Except.bind, pure, Except.pure]; rfl⟩

theorem f64_sub_total (T : QT F64 U) (a b : Q F64 U) : ∃ r, hrSub F64.arith T a b = .ok r := by
  obtain ⟨v, hv⟩ := f64_equiv_total T b a.unit
  exact ⟨_, by simp only [hrSub, hv, bind, Except.bind, pure, Except.pure]; rfl⟩

theorem f64_div_total (T : QT F64 U) (a b : Q F64 U) : ∃ r, hrDiv F64.arith T a b = .ok r := by
  obtain ⟨v, hv⟩ := f64_equiv_total T b a.unit
  exact ⟨_, by simp only [hrDiv, hv, bind, Except.bind]; rfl⟩

theorem f64_scalar_total (k : F64) (q : Q F64 U) :
    (∃ r, smul F64.arith k q = .ok r) ∧ (∃ r, muls F64.arith q k = .ok r) ∧ (∃ r, sdiv F64.arith q k = .ok r) := by
  refine ⟨⟨_, rfl⟩, ⟨_, rfl⟩, ⟨_, rfl⟩⟩

/-- `_fit` cannot panic: its `unwrap` is safe because the reference unit is always eligible -/
theorem f64_fit_total (T : QT F64 U) (h : T.ref ∈ T.units) (x : F64) : ∃ r, fit F64.arith T x = .ok r := by
  unfold fit
  cases hI : T.fitIdentity with
  | some mk => exact ⟨_, rfl⟩
  | none =>
    simp only
    have hm := C05.ref_eligible T h
    cases he : eligible T with
    | nil => rw [he] at hm; simp at hm
    | cons first rest => simp [F64.arith, bind, Except.bind, pure, Except.pure]

theorem f64_dmul_total (TL : QT F64 U) (TR : QT F64 V) (TO : QT F64 W) (h : TO.ref ∈ TO.units)
    (l : Q F64 U) (r : Q F64 V) : ∃ res, dmul F64.arith TL TR TO l r = .ok res := by
  unfold dmul
  simp only [F64.arith, bind, Except.bind, pure, Except.pure]
  split
  · exact ⟨_, rfl⟩
  · exact f64_fit_total TO h _

theorem f64_ddiv_total (TL : QT F64 U) (TR : QT F64 V) (TO : QT F64 W) (h : TO.ref ∈ TO.units)
    (l : Q F64 U) (r : Q F64 V) : ∃ res, ddiv F64.arith TL TR TO l r = .ok res := by
  unfold ddiv
  simp only [F64.arith, bind, Except.bind, pure, Except.pure]
  split
  · exact ⟨_, rfl⟩
  · exact f64_fit_total TO h _

/-- rates over quantities with reference unit -/
theorem f64_rate_total (T : RTable F64) (hk : T.kind = .withRef) (r : Rate F64) (q : Q F64 Nat) :
    (∃ res, Rate.mulQ F64.arith T r q = .ok res) ∧ (∃ res, Rate.divQ F64.arith T q r = .ok res) := by
  have hq : ∀ a b : Q F64 Nat, ∃ x, Rate.qdiv F64.arith T a b = .ok x := by
    intro a b
    unfold Rate.qdiv
    rw [hk]
    exact f64_div_total _ a b
  constructor
  · obtain ⟨x, hx⟩ := hq q ⟨F64.arith.one, r.perUnit⟩
    exact ⟨_, by simp only [Rate.mulQ, hx, bind, Except.bind, pure, Except.pure]; rfl⟩
  · obtain ⟨x, hx⟩ := hq q ⟨F64.arith.one, r.termUnit⟩
    exact ⟨_, by simp only [Rate.divQ, hx, bind, Except.bind, pure, Except.pure]; rfl⟩

/-- table-driven conversion never panics in f64 -/
theorem f64_tconv_total (rows : List (ConvRow F64)) (q : Q F64 Nat) (u : Nat) :
    ∃ r, tconv F64.arith rows q u = .ok r := by
  unfold tconv
  split
  · exact ⟨_, rfl⟩
  · split <;> simp [F64.arith, bind, Except.bind, pure, Except.pure]

/-! ### decimal: no panic inside the domain -/

/-- the property's literal domain implies the side condition of the conversion theorems:
scale ratio, amount and converted amount of absolute value at most 1e17 -/
theorem convSafe_of_in_range (s1 s2 a : Rat)
    (hρ : |s1 / s2| ≤ 10 ^ 17) (ha : |a| ≤ 10 ^ 17) (hρa : |s1 / s2 * a| ≤ 10 ^ 17) :
    Oracle.convSafe ErrModel.dec s1 s2 a = true := by
  simp only [Oracle.convSafe, Oracle.convBoundIn, ErrModel.dec, ErrModel.eta18, Bool.and_eq_true,
    decide_eq_true_eq, ratAbs_eq_abs, pow10]
  have h18 : (((10 ^ 18 : ℕ) : ℤ) : ℚ) = 10 ^ 18 := by norm_num
  have h19 : (((10 ^ 19 : ℕ) : ℤ) : ℚ) = 10 ^ 19 := by norm_num
  rw [h18, h19]
  have hna := abs_nonneg a
  have hnr := abs_nonneg (s1 / s2)
  rw [abs_mul] at hρa
  constructor
  · have : (10 : ℚ) ^ 17 ≤ 10 ^ 19 := by norm_num
    linarith
  · have hpos : (0 : ℚ) ≤ (|s1 / s2| + 1 / (2 * 10 ^ 18)) * |a| + (1 / (2 * 10 ^ 18) + |a| * (1 / (2 * 10 ^ 18))) := by
      positivity
    rw [abs_of_nonneg hpos]
    have e1 : (1 : ℚ) / (2 * 10 ^ 18) * |a| ≤ 1 / (2 * 10 ^ 18) * 10 ^ 17 :=
      mul_le_mul_of_nonneg_left ha (by positivity)
    nlinarith [e1]

/-- conversion in the decimal back-end does not panic inside the domain -/
theorem dec_convert_total (T : QT Dec U) (q : Q Dec U) (u : U) (s1 s2 a : Rat)
    (hne : q.unit ≠ u)
    (hs1 : Dec.arith.val (T.scale q.unit) = some s1) (hs2 : Dec.arith.val (T.scale u) = some s2)
    (hs2ne : s2 ≠ 0) (ha : Dec.arith.val q.amount = some a)
    (hρ : |s1 / s2| ≤ 10 ^ 17) (hav : |a| ≤ 10 ^ 17) (hρa : |s1 / s2 * a| ≤ 10 ^ 17) :
    ∃ r, convert Dec.arith T q u = .ok r := by
  obtain ⟨r, _, h, _⟩ := C01.convert_mag Dec.arith T Backends.dec_laws q u s1 s2 a hne hs1 hs2 hs2ne ha
    (convSafe_of_in_range s1 s2 a hρ hav hρa)
  exact ⟨r, h⟩

/-- sums and differences -/
theorem dec_addsub_total (T : QT Dec U) (isSub : Bool) (a b : Q Dec U) (s1 s2 x y : Rat)
    (hne : b.unit ≠ a.unit)
    (hs1 : Dec.arith.val (T.scale a.unit) = some s1) (hs2 : Dec.arith.val (T.scale b.unit) = some s2)
    (hs1ne : s1 ≠ 0) (hx : Dec.arith.val a.amount = some x) (hy : Dec.arith.val b.amount = some y)
    (hsafe : Oracle.convSafe ErrModel.dec s2 s1 y = true)
    (hsafe2 : ErrModel.dec.safe (ratAbs x + (ratAbs (s2 / s1) * ratAbs y + Oracle.convBoundIn ErrModel.dec s2 s1 y)
      + ErrModel.dec.Ea (ratAbs x + (ratAbs (s2 / s1) * ratAbs y + Oracle.convBoundIn ErrModel.dec s2 s1 y))) = true) :
    ∃ r, (if isSub then hrSub Dec.arith T a b else hrAdd Dec.arith T a b) = .ok r := by
  obtain ⟨r, _, h, _⟩ := C03.addsub_mag Dec.arith T Backends.dec_laws isSub a b s1 s2 x y hne hs1 hs2 hs1ne hx hy hsafe hsafe2
  exact ⟨r, h⟩

/-- derived products -/
theorem dec_dmul_total (TL : QT Dec U) (TR : QT Dec V) (TO : QT Dec W)
    (hI : TO.fitIdentity = none) (href : TO.ref ∈ TO.units)
    (l : Q Dec U) (r : Q Dec V) (a b sl sr : Rat)
    (ha : Dec.arith.val l.amount = some a) (hb : Dec.arith.val r.amount = some b)
    (hsl : Dec.arith.val (TL.scale l.unit) = some sl) (hsr : Dec.arith.val (TR.scale r.unit) = some sr)
    (sc : W → Rat) (hsc : ∀ u ∈ TO.units, Dec.arith.val (TO.scale u) = some (sc u) ∧ 0 < sc u)
    (hsafe : ∀ u ∈ TO.units, Oracle.derivedSafe ErrModel.dec (a * b) (sl * sr) (sc u) = true) :
    ∃ res, dmul Dec.arith TL TR TO l r = .ok res := by
  obtain ⟨res, _, h, _⟩ := C04.dmul_mag Dec.arith Backends.dec_laws TL TR TO hI href l r a b sl sr ha hb hsl hsr sc hsc hsafe
  exact ⟨res, h⟩


/-- ratios of like quantities -/
theorem dec_div_total (T : QT Dec U) (a b : Q Dec U) (s1 s2 x y : Rat)
    (hne : b.unit ≠ a.unit)
    (hs1 : Dec.arith.val (T.scale a.unit) = some s1) (hs2 : Dec.arith.val (T.scale b.unit) = some s2) (hs1ne : s1 ≠ 0)
    (hx : Dec.arith.val a.amount = some x) (hy : Dec.arith.val b.amount = some y)
    (hsafe : Oracle.convSafe ErrModel.dec s2 s1 y = true)
    (hcb : Oracle.convBoundIn ErrModel.dec s2 s1 y < ratAbs (s2 / s1 * y))
    (hsafe2 : ErrModel.dec.safe (ratAbs x / (ratAbs (s2 / s1 * y) - Oracle.convBoundIn ErrModel.dec s2 s1 y)
      + ErrModel.dec.E (ratAbs x / (ratAbs (s2 / s1 * y) - Oracle.convBoundIn ErrModel.dec s2 s1 y))) = true) :
    ∃ c, hrDiv Dec.arith T a b = .ok c := by
  obtain ⟨c, _, h, _⟩ := C03.div_ratio Dec.arith T Backends.dec_laws a b s1 s2 x y hne hs1 hs2 hs1ne hx hy hsafe hcb hsafe2
  exact ⟨c, h⟩

/-- comparisons across units: both conversions stay in range, so `==` and `partial_cmp` return -/
theorem dec_cmp_total (T : QT Dec U) (a b : Q Dec U) (sa sb x y : Rat)
    (hsa : Dec.arith.val (T.scale a.unit) = some sa) (hsb : Dec.arith.val (T.scale b.unit) = some sb)
    (hsa0 : sa ≠ 0) (hsb0 : sb ≠ 0)
    (hx : Dec.arith.val a.amount = some x) (hy : Dec.arith.val b.amount = some y)
    (hs1 : Oracle.convSafe ErrModel.dec sb sa y = true) (hs2 : Oracle.convSafe ErrModel.dec sa sb x = true) :
    (∃ e, hrEq Dec.arith T a b = .ok e) ∧ (∃ p, hrPcmp Dec.arith T a b = .ok p) := by
  by_cases hu : a.unit = b.unit
  · rw [C02.eq_same_unit Dec.arith T a b hu, C02.pcmp_same_unit Dec.arith T a b hu]
    exact ⟨⟨_, rfl⟩, ⟨_, rfl⟩⟩
  · have hu' : b.unit ≠ a.unit := fun h => hu h.symm
    obtain ⟨c1, _, he1, _⟩ := equiv_ok Dec.arith T Backends.dec_laws b a.unit sb sa y hu' hsb hsa hsa0 hy hs1
    obtain ⟨c2, _, he2, _⟩ := equiv_ok Dec.arith T Backends.dec_laws a b.unit sa sb x hu hsa hsb hsb0 hx hs2
    constructor
    · unfold hrEq
      split <;> simp [he1, he2, bind, Except.bind, pure, Except.pure]
    · unfold hrPcmp
      simp only [hu, if_false]
      split <;> simp [he1, he2, bind, Except.bind, pure, Except.pure]

/-- derived quotients -/
theorem dec_ddiv_total (TL : QT Dec U) (TR : QT Dec V) (TO : QT Dec W)
    (hI : TO.fitIdentity = none) (href : TO.ref ∈ TO.units)
    (l : Q Dec U) (r : Q Dec V) (a b sl sr : Rat)
    (ha : Dec.arith.val l.amount = some a) (hb : Dec.arith.val r.amount = some b) (hb0 : b ≠ 0)
    (hsl : Dec.arith.val (TL.scale l.unit) = some sl) (hsr : Dec.arith.val (TR.scale r.unit) = some sr) (hsr0 : sr ≠ 0)
    (sc : W → Rat) (hsc : ∀ u ∈ TO.units, Dec.arith.val (TO.scale u) = some (sc u) ∧ 0 < sc u)
    (hsafe : ∀ u ∈ TO.units, Oracle.derivedSafe ErrModel.dec (a / b) (sl / sr) (sc u) = true) :
    ∃ res, ddiv Dec.arith TL TR TO l r = .ok res := by
  obtain ⟨res, _, h, _⟩ := C04.ddiv_mag Dec.arith Backends.dec_laws TL TR TO hI href l r a b sl sr ha hb hb0 hsl hsr hsr0 sc hsc hsafe
  exact ⟨res, h⟩

/-- rates: `rate * q`, `q * rate` and `q / rate` return inside the range described by the
propagated bound (`w.ok`) -/
theorem dec_rate_total (T : RTable Dec) (r : Rate Dec) (q : Q Dec Nat) (qv pmv tav : Rat) (w w' : Approx)
    (hq : Dec.arith.val q.amount = some qv) (hpm : Dec.arith.val r.perMultiple = some pmv)
    (hta : Dec.arith.val r.termAmount = some tav)
    (hw : approxRateApply Dec.arith ErrModel.dec T (Approx.exact qv) q.unit r.perUnit (Approx.exact pmv) (Approx.exact tav) = .ok (some w))
    (hok : w.ok = true)
    (hw' : approxRateApply Dec.arith ErrModel.dec T (Approx.exact qv) q.unit r.termUnit (Approx.exact tav) (Approx.exact pmv) = .ok (some w'))
    (hok' : w'.ok = true) :
    (∃ res, Rate.mulQ Dec.arith T r q = .ok res) ∧ (∃ res, Rate.divQ Dec.arith T q r = .ok res) := by
  obtain ⟨res, h, _⟩ := C13.mulQ_sound Dec.arith Backends.dec_laws T r q qv pmv tav w hq hpm hta hw hok
  obtain ⟨res', h', _⟩ := C13.divQ_sound Dec.arith Backends.dec_laws T r q qv pmv tav w' hq hpm hta hw' hok'
  exact ⟨⟨res, h⟩, ⟨res', h'⟩⟩

/-! ### the only other panic -/

/-- for types without reference unit the only panic beyond the amount type's own is the
documented unit mismatch -/
theorem only_documented_panic {A : Type} (R : Arith A) (a b : Q A U) (p : Panic)
    (h : nrAdd R a b = .error p) : p = .unitMismatch ∨ R.add a.amount b.amount = .error p :=
  C10.only_documented_panic R a b p h

/-- non-vacuity: the domain hypothesis of `convSafe_of_in_range` is met by 3.5 ft → in -/
example : |(3048 / 10000 : Rat) / (254 / 10000)| ≤ 10 ^ 17 ∧ |(35 / 10 : Rat)| ≤ 10 ^ 17 := by
  constructor <;> norm_num [abs_of_pos]

end Qty.C18
