import QtyModel.Tables
namespace Qty.C14
end Qty.C14
