import QtyModel.Lemmas.Approx
import QtyModel.Spec.Temperature
import QtyModel.Generated.TempTable
import QtyModel.Generated.Catalogue
/-
  C14 — Table-driven conversions apply the declared affine map.

  Property theorems only.  The statements about `ConversionTable::convert` hold for
  EVERY table (any list of rows) and every quantity; those about the temperature
  table are kernel evaluations over the regenerated rows (`Generated/TempTable.lean`)
  against the independent formulas of `Spec/Temperature.lean`.
-/
namespace Qty.C14
open Qty

variable {A : Type} (R : Arith A)

/-- the value is returned unchanged when it already has the target unit -/
theorem conv_same_unit (rows : List (ConvRow A)) (q : Q A Nat) :
    tconv R rows q q.unit = .ok (some q) := by
  simp [tconv]

/-- otherwise: amount × factor + offset of the FIRST table entry for that (from, to) pair -/
theorem conv_first_row (rows : List (ConvRow A)) (q : Q A Nat) (tgt : Nat) (h : q.unit ≠ tgt)
    (pre post : List (ConvRow A)) (r : ConvRow A) (hr : rows = pre ++ r :: post)
    (hmatch : r.fromU = q.unit ∧ r.toU = tgt)
    (hpre : ∀ p ∈ pre, ¬ (p.fromU = q.unit ∧ p.toU = tgt)) :
    tconv R rows q tgt = (do
      let m ← R.mul q.amount r.factor
      return some ⟨← R.add m r.offset, tgt⟩) := by
  have hfind : rows.find? (fun r => r.fromU == q.unit && r.toU == tgt) = some r := by
    rw [hr, List.find?_append]
    have hnone : pre.find? (fun r => r.fromU == q.unit && r.toU == tgt) = none := by
      rw [List.find?_eq_none]
      intro p hp
      simpa using hpre p hp
    rw [hnone]
    simp [hmatch.1, hmatch.2]
  unfold tconv
  rw [if_neg h, hfind]

/-- and nothing when there is no such entry -/
theorem conv_none (rows : List (ConvRow A)) (q : Q A Nat) (tgt : Nat) (h : q.unit ≠ tgt)
    (hno : ∀ p ∈ rows, ¬ (p.fromU = q.unit ∧ p.toU = tgt)) :
    tconv R rows q tgt = .ok none := by
  have hfind : rows.find? (fun r => r.fromU == q.unit && r.toU == tgt) = none := by
    rw [List.find?_eq_none]
    intro p hp
    simpa using hno p hp
  unfold tconv
  rw [if_neg h, hfind]

/-- the affine map is computed within the propagated rounding bound: if the row's factor and
offset realise the published constants `f`, `o`, the result realises `x·f + o` -/
theorem conv_affine_sound {M : ErrModel} (L : Laws R M) (rows : List (ConvRow A)) (q : Q A Nat) (tgt : Nat)
    (h : q.unit ≠ tgt) (r : ConvRow A)
    (hfind : rows.find? (fun r => r.fromU == q.unit && r.toU == tgt) = some r)
    (x : Rat) (f o : Approx) (hx : R.val q.amount = some x)
    (hf : Realises R r.factor f) (ho : Realises R r.offset o) (hfe : 0 ≤ f.err) (hoe : 0 ≤ o.err)
    (hok : (Approx.add M (Approx.mul M (Approx.exact x) f) o).ok = true) :
    ∃ res, tconv R rows q tgt = .ok (some res) ∧ res.unit = tgt ∧
      Realises R res.amount (Approx.add M (Approx.mul M (Approx.exact x) f) o) := by
  have hokm : (Approx.mul M (Approx.exact x) f).ok = true := by
    simp only [Approx.add, Bool.and_eq_true] at hok
    exact hok.1.1.1.1
  have hx0 : (0 : Rat) ≤ (Approx.exact x).err := by simp [Approx.exact]
  obtain ⟨m, hmul, hm⟩ := mul_sound R L q.amount r.factor (Approx.exact x) f
    (exact_sound R _ _ hx) hf hx0 hfe hokm
  obtain ⟨c, hadd, hc⟩ := add_sound R L m r.offset _ o hm ho
    (mul_err_nonneg L.wf _ _ hx0 hfe) hoe hok
  refine ⟨⟨c, tgt⟩, ?_, rfl, hc⟩
  unfold tconv
  rw [if_neg h, hfind]
  simp [hmul, hadd, bind, Except.bind, pure, Except.pure]

/-! ### the predefined temperature table -/

/-- constant name ↦ unit name of `Temperature`, through the model of the macro -/
def tempNames : List (Text × Text) :=
  match Gen.Catalogue.items.find? (fun it => it.name == [84, 101, 109, 112, 101, 114, 97, 116, 117, 114, 101]) with
  | some it => match MacroFront.expand it with
    | .ok d => d.units.map (fun u => (u.constName, u.name))
    | .error _ => []
  | none => []

def nameOfConst (c : Text) : Text := ((tempNames.find? (fun p => p.1 == c)).map (·.2)).getD []

/-- the table has a row for every ordered pair of distinct units of Kelvin, °C, °F -/
theorem temp_covers_all_pairs :
    tempNames.length = 3 ∧
    tempNames.all (fun a => tempNames.all (fun b =>
      a.1 == b.1 || Gen.Temp.rows.any (fun r => r.1 == a.1 && r.2.1 == b.1))) = true := by
  decide +kernel

/-- every row's factor and offset literal is the constant of the exact physical formula,
up to half a unit in the 18th decimal place (5/9 and 45967/180 do not terminate) -/
theorem temp_rows_match_formulas :
    Gen.Temp.rows.all (fun r =>
      match Spec.Temp.formula (nameOfConst r.1) (nameOfConst r.2.1) with
      | some (F, O) =>
        decide (ratAbs (r.2.2.1.value - F) ≤ 1 / (2 * pow10 18)) &&
        decide (ratAbs (r.2.2.2.value - O) ≤ 1 / (2 * pow10 18))
      | none => false) = true := by
  decide +kernel

/-- the six cases of the exact formula -/
theorem formula_cases (a b : Text) (F O : Rat) (h : Spec.Temp.formula a b = some (F, O)) :
    (a = Spec.Temp.kelvin ∧ b = Spec.Temp.celsius ∧ F = 1 ∧ O = -27315 / 100) ∨
    (a = Spec.Temp.celsius ∧ b = Spec.Temp.kelvin ∧ F = 1 ∧ O = 27315 / 100) ∨
    (a = Spec.Temp.kelvin ∧ b = Spec.Temp.fahrenheit ∧ F = 9 / 5 ∧ O = -45967 / 100) ∨
    (a = Spec.Temp.fahrenheit ∧ b = Spec.Temp.kelvin ∧ F = 5 / 9 ∧ O = 45967 / 100 * (5 / 9)) ∨
    (a = Spec.Temp.celsius ∧ b = Spec.Temp.fahrenheit ∧ F = 9 / 5 ∧ O = 32) ∨
    (a = Spec.Temp.fahrenheit ∧ b = Spec.Temp.celsius ∧ F = 5 / 9 ∧ O = -32 * (5 / 9)) := by
  unfold Spec.Temp.formula at h
  simp only [Bool.and_eq_true, beq_iff_eq] at h
  split_ifs at h with h1 h2 h3 h4 h5 h6 <;>
    simp only [Option.some.injEq, Prod.mk.injEq] at h <;>
    obtain ⟨rfl, rfl⟩ := h <;> simp [*]

theorem kelvin_ne_celsius : Spec.Temp.kelvin ≠ Spec.Temp.celsius := by decide
theorem kelvin_ne_fahrenheit : Spec.Temp.kelvin ≠ Spec.Temp.fahrenheit := by decide
theorem celsius_ne_fahrenheit : Spec.Temp.celsius ≠ Spec.Temp.fahrenheit := by decide

/-- closes a goal `False`-by-name-clash: `h : n₁ = n₂` for two distinct unit names -/
local macro "name_clash " h:ident : tactic =>
  `(tactic| exact absurd $h (by
      first
        | exact kelvin_ne_celsius | exact kelvin_ne_fahrenheit | exact celsius_ne_fahrenheit
        | exact kelvin_ne_celsius.symm | exact kelvin_ne_fahrenheit.symm
        | exact celsius_ne_fahrenheit.symm))

/-- the exact formulas are mutually inverse -/
theorem formula_inverse (a b : Text) (F O F' O' : Rat)
    (h1 : Spec.Temp.formula a b = some (F, O)) (h2 : Spec.Temp.formula b a = some (F', O')) :
    F * F' = 1 ∧ O * F' + O' = 0 := by
  rcases formula_cases _ _ _ _ h1 with h | h | h | h | h | h <;>
  obtain ⟨rfl, rfl, rfl, rfl⟩ := h <;>
  rcases formula_cases _ _ _ _ h2 with h | h | h | h | h | h <;>
  obtain ⟨ha, hb, rfl, rfl⟩ := h <;>
  first
    | name_clash ha
    | name_clash hb
    | (constructor <;> norm_num)

/-- and compose consistently: converting a → b → c is converting a → c -/
theorem formula_compose (a b c : Text) (F1 O1 F2 O2 F3 O3 : Rat)
    (h1 : Spec.Temp.formula a b = some (F1, O1)) (h2 : Spec.Temp.formula b c = some (F2, O2))
    (h3 : Spec.Temp.formula a c = some (F3, O3)) :
    F1 * F2 = F3 ∧ O1 * F2 + O2 = O3 := by
  rcases formula_cases _ _ _ _ h1 with h | h | h | h | h | h <;>
  obtain ⟨rfl, rfl, rfl, rfl⟩ := h <;>
  rcases formula_cases _ _ _ _ h2 with h | h | h | h | h | h <;>
  obtain ⟨ha, rfl, rfl, rfl⟩ := h <;>
  first
    | name_clash ha
    | (rcases formula_cases _ _ _ _ h3 with h | h | h | h | h | h <;>
       obtain ⟨ha', hb', rfl, rfl⟩ := h <;>
       first
        | name_clash ha'
        | name_clash hb'
        | (constructor <;> norm_num))

/-- non-vacuity: 20 °C → °F through a one-row table in the decimal back-end -/
example : tconv Dec.arith [⟨0, 1, ⟨18, 1⟩, ⟨32, 0⟩⟩] ⟨⟨20, 0⟩, 0⟩ 1 = .ok (some ⟨⟨680, 1⟩, 1⟩) := by
  decide +kernel

end Qty.C14
