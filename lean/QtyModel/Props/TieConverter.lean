import QtyModel.Ops
import QtyModel.Rate
import QtyModel.Generated.Algos
/-
  Tie between code and model for the ALGORITHMS (`ConversionTable::convert` of `src/converter.rs`).

  `Generated/Algos.lean` is re-emitted from the Rust source on every run
  (tools/translate_algos.py).  Every theorem below states that the re-emitted definition IS the
  hand-written definition which the property theorems are about.  If a change of the code
  changes what one of these functions computes, its theorem no longer checks.
-/
namespace Qty.AlgoTie
open Qty Qty.Gen.Algos

set_option linter.unusedSectionVars false
variable {A U V W : Type} [DecidableEq U] [DecidableEq V] [DecidableEq W]
variable (R : Arith A) (T : QT A U)

theorem table_convert_eq (rows : List (ConvRow A)) (q : Q A Nat) (j : Nat) :
    ConversionTable.convert R rows q j = tconv R rows q j := by
  unfold ConversionTable.convert tconv
  split
  · rfl
  · have hf : (fun (r : ConvRow A) => (decide (r.fromU = q.unit) && decide (r.toU = j))) =
        (fun r => r.fromU == q.unit && r.toU == j) := by
      funext r; rfl
    rw [hf]
    cases List.find? (fun (r : ConvRow A) => r.fromU == q.unit && r.toU == j) rows <;> rfl

end Qty.AlgoTie
