import QtyModel.Props.OracleSoundJudge
import QtyModel.Props.C14
/- `OracleSound`, C14: the table-conversion oracle accepts the model. -/
set_option linter.unusedSectionVars false
namespace Qty.OracleSound
open Qty

variable {A : Type} (R : Arith A)

/-- C14, table conversion (`Main.lean`, op `temp conv`,
`Approx.judge (some (Approx.add M (Approx.mul M (Approx.exact x) fApprox) oApprox)) (R.val z) …`):
`f`, `o` describe the published factor and offset, which the row's constants realise. -/
theorem judge_accepts_tconv {M : ErrModel} (L : Laws R M) (rows : List (ConvRow A)) (q : Q A Nat) (tgt : Nat)
    (h : q.unit ≠ tgt) (r : ConvRow A)
    (hfind : rows.find? (fun r => r.fromU == q.unit && r.toU == tgt) = some r)
    (x : Rat) (f o : Approx) (hx : R.val q.amount = some x)
    (hf : Realises R r.factor f) (ho : Realises R r.offset o) (hfe : 0 ≤ f.err) (hoe : 0 ≤ o.err)
    (res : Q A Nat) (hres : tconv R rows q tgt = .ok (some res)) (why w : String) :
    Approx.judge (some (Approx.add M (Approx.mul M (Approx.exact x) f) o)) (R.val res.amount) why
      ≠ .fail w := by
  refine judge_accepts_realised R _ res.amount why ?_ w
  rintro x' hx' hok
  cases hx'
  obtain ⟨res', hres', -, hreal⟩ :=
    C14.conv_affine_sound R L rows q tgt h r hfind x f o hx hf ho hfe hoe hok
  rw [hres] at hres'
  cases hres'
  exact hreal

end Qty.OracleSound
