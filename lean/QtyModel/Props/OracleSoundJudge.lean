import QtyModel.Props.OracleSoundBase
import QtyModel.Lemmas.Approx
/- `OracleSound`: `Approx.judge` never rejects a realised amount (used by C13 and C14). -/
set_option linter.unusedSectionVars false
namespace Qty.OracleSound
open Qty

variable {A : Type} (R : Arith A)

/-! ### `Approx.judge` (C13, C14) -/

/-- **`Approx.judge`** never fails when the observed value is the exact value of an amount `c`
that `Realises` the description (whenever the description exists and is in range).  This is the
situation of every `Approx.judge` call of `Main.lean` (ops `rate … mulq`, `rate … divq`,
`temp conv`): the description is proven sound by `C13.rate_apply_sound` / `C14.conv_affine_sound`,
see the three corollaries below. -/
theorem judge_accepts_realised (x : Option Approx) (c : A) (why : String)
    (h : ∀ x', x = some x' → x'.ok = true → Realises R c x') (w : String) :
    Approx.judge x (R.val c) why ≠ .fail w := by
  suffices hh : NoFail (Approx.judge x (R.val c) why) from hh w
  unfold Approx.judge
  cases x with
  | none => exact NoFail.skip _
  | some x' =>
    dsimp only
    cases hok : x'.ok with
    | false => simp only [Bool.not_false, if_true]; exact NoFail.skip _
    | true =>
      simp only [Bool.not_true, Bool.false_eq_true, if_false]
      obtain ⟨z, hz, hbd⟩ := h x' rfl hok
      simp only [hz]
      exact NoFail.check _ (by rw [ratAbs_eq_abs]; simpa using hbd)

end Qty.OracleSound
