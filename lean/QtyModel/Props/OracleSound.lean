import QtyModel.Props.C01
import QtyModel.Props.C03
import QtyModel.Props.C04
import QtyModel.Props.Backends
/-
  The run-time oracles never reject the model's own output: whenever the model of an
  operation returns a value, the oracle evaluated on THAT value does not fail (it says `ok`,
  or `skip` outside the range the theorems cover).  Together with the bit-exact
  correspondence this means an oracle failure on an implementation output is never an
  artefact of the oracle being stricter than what is proved.
-/
namespace Qty.OracleSound
open Qty

/-- a verdict that is not a failure (whatever the message) -/
def NoFail (v : Verdict) : Prop := ∀ w, v ≠ .fail w

theorem NoFail.ok : NoFail .ok := fun _ h => by cases h
theorem NoFail.skip (s : String) : NoFail (.skip s) := fun _ h => by cases h

theorem check_ne_fail_iff (b : Bool) (msg : String) : NoFail (check b msg) ↔ b = true := by
  cases b
  · simp only [check, Bool.false_eq_true, if_false, iff_false]
    intro h; exact h msg rfl
  · simp only [check, if_true, iff_true]
    exact NoFail.ok

theorem NoFail.check {b : Bool} (msg : String) (h : b = true) : NoFail (check b msg) :=
  (check_ne_fail_iff b msg).mpr h

theorem and_ne_fail {v1 v2 : Verdict} (h1 : NoFail v1) (h2 : NoFail v2) : NoFail (v1.and v2) := by
  intro w
  cases v1 with
  | fail w1 => exact absurd rfl (h1 w1)
  | ok =>
    cases v2 with
    | fail w2 => exact absurd rfl (h2 w2)
    | ok => intro h; cases h
    | skip s => intro h; cases h
  | skip s1 =>
    cases v2 with
    | fail w2 => exact absurd rfl (h2 w2)
    | ok => intro h; cases h
    | skip s => intro h; cases h

variable {A : Type} (R : Arith A)

/-- C01: conversion -/
theorem c01_accepts_model {M : ErrModel} (L : Laws R M) (hsame : ∀ a : A, R.same a a = true)
    (T : QT A Nat) (q : Q A Nat) (j : Nat) (s1 s2 : Rat)
    (hs1 : R.val (T.scale q.unit) = some s1) (hs2 : R.val (T.scale j) = some s2) (hs2ne : s2 ≠ 0)
    (r : Q A Nat) (hr : convert R T q j = .ok r) (w : String) :
    Oracle.c01 M (q.unit == j) j r.unit s1 s2 (R.val q.amount) (R.same r.amount q.amount) (R.val r.amount)
      ≠ .fail w := by
  have hu : r.unit = j := C01.convert_unit R T q r j hr
  suffices h : NoFail (Oracle.c01 M (q.unit == j) j r.unit s1 s2 (R.val q.amount)
      (R.same r.amount q.amount) (R.val r.amount)) from h w
  unfold Oracle.c01
  apply and_ne_fail
  · exact NoFail.check _ (by simp [hu])
  · by_cases hq : q.unit = j
    · have hb : (q.unit == j) = true := by simp [hq]
      rw [hb]
      simp only [if_true]
      apply NoFail.check
      subst hq
      rw [C01.convert_same_unit R T q] at hr
      cases hr
      exact hsame _
    · have hb : (q.unit == j) = false := by simp [hq]
      rw [hb]
      simp only [Bool.false_eq_true, if_false]
      cases ha : R.val q.amount with
      | none => exact NoFail.skip _
      | some a =>
        dsimp only
        by_cases hs : Oracle.convSafe M s1 s2 a = true
        · obtain ⟨r', y, hc, -, hy, hbd⟩ :=
            C01.convert_mag R T L q j s1 s2 a hq hs1 hs2 hs2ne ha hs
          rw [hr] at hc
          cases hc
          simp only [hs, Bool.not_true, Bool.false_eq_true, if_false, hy]
          exact NoFail.check _ (by simpa using hbd)
        · simp only [Bool.not_eq_true] at hs
          simp only [hs, Bool.not_false, if_true]
          exact NoFail.skip _

/-- C03: sum and difference -/
theorem c03addsub_accepts_model {M : ErrModel} (L : Laws R M) (hsame : ∀ a : A, R.same a a = true)
    (T : QT A Nat) (isSub : Bool) (a b : Q A Nat) (s1 s2 : Rat)
    (hs1 : R.val (T.scale a.unit) = some s1) (hs2 : R.val (T.scale b.unit) = some s2) (hs1ne : s1 ≠ 0)
    (r : Q A Nat) (hr : (if isSub then hrSub R T a b else hrAdd R T a b) = .ok r) (w : String) :
    Oracle.c03addsub M isSub a.unit b.unit r.unit s1 s2 (R.val a.amount) (R.val b.amount)
      (match (if isSub then R.sub a.amount b.amount else R.add a.amount b.amount) with
        | .ok o => R.same r.amount o
        | .error _ => false)
      (R.val r.amount) ≠ .fail w := by
  have hu : r.unit = a.unit := by
    cases isSub
    · exact C03.add_unit R T a b r (by simpa using hr)
    · exact C03.sub_unit R T a b r (by simpa using hr)
  suffices h : NoFail (Oracle.c03addsub M isSub a.unit b.unit r.unit s1 s2 (R.val a.amount)
      (R.val b.amount)
      (match (if isSub then R.sub a.amount b.amount else R.add a.amount b.amount) with
        | .ok o => R.same r.amount o
        | .error _ => false)
      (R.val r.amount)) from h w
  unfold Oracle.c03addsub
  apply and_ne_fail
  · exact NoFail.check _ (by simp [hu])
  · by_cases hij : a.unit = b.unit
    · simp only [hij, if_true]
      apply NoFail.check
      cases isSub
      · simp only [Bool.false_eq_true, if_false] at hr ⊢
        rw [C03.add_same_unit R T a b hij.symm] at hr
        cases ho : R.add a.amount b.amount with
        | error e => rw [ho] at hr; cases hr
        | ok o =>
          rw [ho] at hr
          cases hr
          exact hsame _
      · simp only [if_true] at hr ⊢
        rw [C03.sub_same_unit R T a b hij.symm] at hr
        cases ho : R.sub a.amount b.amount with
        | error e => rw [ho] at hr; cases hr
        | ok o =>
          rw [ho] at hr
          cases hr
          exact hsame _
    · simp only [hij, if_false]
      cases hx : R.val a.amount with
      | none => exact NoFail.skip _
      | some x =>
        cases hy : R.val b.amount with
        | none => exact NoFail.skip _
        | some y =>
          dsimp only
          by_cases hs : (Oracle.convSafe M s2 s1 y &&
              M.safe (ratAbs x + (ratAbs (s2 / s1) * ratAbs y + Oracle.convBoundIn M s2 s1 y)
                + M.Ea (ratAbs x + (ratAbs (s2 / s1) * ratAbs y + Oracle.convBoundIn M s2 s1 y)))) = true
          · simp only [hs, Bool.not_true, Bool.false_eq_true, if_false]
            rw [Bool.and_eq_true] at hs
            obtain ⟨r', z, hc, -, hz, hbd⟩ :=
              C03.addsub_mag R T L isSub a b s1 s2 x y (fun h => hij h.symm) hs1 hs2 hs1ne hx hy
                hs.1 hs.2
            rw [hr] at hc
            cases hc
            simp only [hz]
            exact NoFail.check _ (by simpa using hbd)
          · simp only [Bool.not_eq_true] at hs
            simp only [hs, Bool.not_false, if_true]
            exact NoFail.skip _

/-- C03: ratio -/
theorem c03div_accepts_model {M : ErrModel} (L : Laws R M) (hsame : ∀ a : A, R.same a a = true)
    (T : QT A Nat) (a b : Q A Nat) (s1 s2 : Rat)
    (hs1 : R.val (T.scale a.unit) = some s1) (hs2 : R.val (T.scale b.unit) = some s2) (hs1ne : s1 ≠ 0)
    (z : A) (hr : hrDiv R T a b = .ok z) (w : String) :
    Oracle.c03div M a.unit b.unit s1 s2 (R.val a.amount) (R.val b.amount)
      (match R.div a.amount b.amount with
        | .ok o => R.same z o
        | .error _ => false)
      (R.val z) ≠ .fail w := by
  suffices h : NoFail (Oracle.c03div M a.unit b.unit s1 s2 (R.val a.amount) (R.val b.amount)
      (match R.div a.amount b.amount with
        | .ok o => R.same z o
        | .error _ => false)
      (R.val z)) from h w
  unfold Oracle.c03div
  by_cases hij : a.unit = b.unit
  · simp only [hij, if_true]
    apply NoFail.check
    rw [C03.div_same_unit R T a b hij.symm] at hr
    rw [hr]
    exact hsame _
  · simp only [hij, if_false]
    cases hx : R.val a.amount with
    | none => exact NoFail.skip _
    | some x =>
      cases hy : R.val b.amount with
      | none => exact NoFail.skip _
      | some y =>
        dsimp only
        split
        · exact NoFail.skip _
        split
        · exact NoFail.skip _
        split
        · exact NoFail.skip _
        split
        · exact NoFail.skip _
        next ht hs hcb hs2' =>
        simp only [Bool.not_eq_true, Bool.not_eq_false', ge_iff_le, not_le] at hs hcb hs2'
        obtain ⟨c, v, hc, hv, hbd⟩ :=
          C03.div_ratio R T L a b s1 s2 x y (fun h => hij h.symm) hs1 hs2 hs1ne hx hy hs hcb hs2'
        rw [hr] at hc
        cases hc
        simp only [hv]
        exact NoFail.check _ (by simpa using hbd)

/-- Direct ("soundness") form of `C04.tail_mag`: for the result `res` the common tail of the
generated `Mul`/`Div` bodies ACTUALLY returned, the unit is one of the table's, and the bound
holds as soon as the range condition holds for the unit `res` carries (not for every unit of the
table, which `C04.tail_mag` needs in order to show that a result exists at all). -/
theorem tail_sound {W : Type} [DecidableEq W] {M : ErrModel} (L : Laws R M) (TO : QT A W)
    (hI : TO.fitIdentity = none) (href : TO.ref ∈ TO.units)
    (pa ps : Rat) (p s : A) (pv sv : Rat)
    (hp : R.val p = some pv) (hs : R.val s = some sv)
    (hpe : |pv - pa| ≤ M.E pa) (hse : |sv - ps| ≤ M.E ps)
    (sc : W → Rat) (hsc : ∀ u ∈ TO.units, R.val (TO.scale u) = some (sc u) ∧ 0 < sc u)
    (res : Q A W)
    (hcase : (∃ w, unitFromScale R TO s = some w ∧ res = ⟨p, w⟩) ∨
       (unitFromScale R TO s = none ∧ ∃ x, R.mul p s = .ok x ∧ fit R TO x = .ok res)) :
    res.unit ∈ TO.units ∧
      (Oracle.derivedSafe M pa ps (sc res.unit) = true →
        ∃ z, R.val res.amount = some z ∧
          ratAbs (z * sc res.unit - pa * ps) ≤ Oracle.derivedBound M pa ps (sc res.unit)) := by
  simp only [Oracle.derivedSafe, Oracle.derivedBound, Bool.and_eq_true, ratAbs_eq_abs] at *
  have hEpa := L.wf.E_nonneg pa
  have hEps := L.wf.E_nonneg ps
  set P := |pa| + M.E pa with hPdef
  set S := |ps| + M.E ps with hSdef
  have hP0 : 0 ≤ P := by positivity
  have hS0 : 0 ≤ S := by positivity
  have hEPS := L.wf.E_nonneg (P * S)
  have hP : |pv| ≤ P := by
    have := abs_sub_abs_le_abs_sub pv pa
    linarith
  have hS : |sv| ≤ S := by
    have := abs_sub_abs_le_abs_sub sv ps
    linarith
  have hcore : |pv * sv - pa * ps| ≤ P * M.E ps + |ps| * M.E pa := by
    have key : pv * sv - pa * ps = pv * (sv - ps) + ps * (pv - pa) := by ring
    rw [key]
    calc |pv * (sv - ps) + ps * (pv - pa)|
        ≤ |pv * (sv - ps)| + |ps * (pv - pa)| := abs_add_le _ _
      _ = |pv| * |sv - ps| + |ps| * |pv - pa| := by rw [abs_mul, abs_mul]
      _ ≤ P * M.E ps + |ps| * M.E pa := by
          have h1 := mul_le_mul hP hse (abs_nonneg _) hP0
          have h2 := mul_le_mul_of_nonneg_left hpe (abs_nonneg ps)
          linarith
  rcases hcase with ⟨w, hf, rfl⟩ | ⟨hf, x, hmul, hfitres⟩
  · have hwm : w ∈ TO.units := List.mem_of_find?_eq_some hf
    have hwb : R.beq (TO.scale w) s = true :=
      List.find?_some (p := fun u => R.beq (TO.scale u) s) hf
    rw [L.beq_val _ _ _ _ (hsc w hwm).1 hs] at hwb
    have hsw : sc w = sv := by simpa using hwb
    refine ⟨hwm, fun _ => ⟨pv, hp, ?_⟩⟩
    dsimp only
    rw [hsw]
    have h1 := L.wf.E_nonneg ((P * S + M.E (P * S)) / sv)
    have h2 : 0 ≤ |sv| * M.E ((P * S + M.E (P * S)) / sv) := by positivity
    linarith
  · obtain ⟨w, hwel, hfit⟩ := C05.fit_eq_div R TO hI href x
    have hwm : w ∈ TO.units := ((C05.mem_eligible TO w).mp hwel).1
    rw [hfitres] at hfit
    cases hd : R.div x (TO.scale w) with
    | error e => rw [hd] at hfit; cases hfit
    | ok c0 =>
    rw [hd] at hfit
    cases hfit
    refine ⟨hwm, ?_⟩
    dsimp only
    rintro ⟨⟨⟨hsP, hsS⟩, hsX⟩, hsQ⟩
    have hPS0 : 0 ≤ P * S := by positivity
    have hpvsv : |pv * sv| ≤ P * S := by
      rw [abs_mul]; exact mul_le_mul hP hS (abs_nonneg _) hP0
    have hsafe1 : M.safe (pv * sv) = true := by
      apply L.wf.safe_mono _ _ _ hsX
      simp only [ratAbs_eq_abs]
      rw [abs_of_nonneg (by linarith : 0 ≤ P * S + M.E (P * S))]
      linarith
    obtain ⟨x', xv, hmul', hxv, hxe⟩ := L.mul_ok p s pv sv hp hs hsafe1
    rw [hmul] at hmul'
    cases hmul'
    rw [ratAbs_eq_abs] at hxe
    have hE1 : M.E (pv * sv) ≤ M.E (P * S) := by
      apply L.wf.E_mono
      simp only [ratAbs_eq_abs]
      rw [abs_of_nonneg hPS0]; exact hpvsv
    have hX0 : 0 ≤ P * S + M.E (P * S) := by linarith
    have hxvX : |xv| ≤ P * S + M.E (P * S) := by
      have := abs_sub_abs_le_abs_sub xv (pv * sv)
      linarith
    obtain ⟨hswv, hgt⟩ := hsc w hwm
    have hsw0 : sc w ≠ 0 := ne_of_gt hgt
    have hquot : |xv / sc w| ≤ |(P * S + M.E (P * S)) / sc w| := by
      rw [abs_div, abs_div, abs_of_nonneg hX0]
      exact div_le_div_of_nonneg_right hxvX (abs_nonneg _)
    have hsafe2 : M.safe (xv / sc w) = true := by
      apply L.wf.safe_mono _ _ _ hsQ
      simp only [ratAbs_eq_abs]
      refine le_trans hquot ?_
      have h1 : 0 ≤ (P * S + M.E (P * S)) / sc w := div_nonneg hX0 (le_of_lt hgt)
      have h2 := L.wf.E_nonneg ((P * S + M.E (P * S)) / sc w)
      rw [abs_of_nonneg h1, abs_of_nonneg (by linarith)]
      linarith
    obtain ⟨c, z, hdiv, hzv, hze⟩ := L.div_ok x (TO.scale w) xv (sc w) hxv hswv hsw0 hsafe2
    rw [hd] at hdiv
    cases hdiv
    rw [ratAbs_eq_abs] at hze
    have hE2 : M.E (xv / sc w) ≤ M.E ((P * S + M.E (P * S)) / sc w) := by
      apply L.wf.E_mono
      simp only [ratAbs_eq_abs]; exact hquot
    refine ⟨z, hzv, ?_⟩
    have key : z * sc w - pa * ps
        = sc w * (z - xv / sc w) + (xv - pv * sv) + (pv * sv - pa * ps) := by
      field_simp; ring
    rw [key]
    have h1 : |sc w * (z - xv / sc w)| ≤ |sc w| * M.E ((P * S + M.E (P * S)) / sc w) := by
      rw [abs_mul]
      exact mul_le_mul_of_nonneg_left (le_trans hze hE2) (abs_nonneg _)
    have h2 := abs_add_le (sc w * (z - xv / sc w) + (xv - pv * sv)) (pv * sv - pa * ps)
    have h3 := abs_add_le (sc w * (z - xv / sc w)) (xv - pv * sv)
    linarith

/-- C04: derived product (positive scales of the result quantity) -/
theorem c04_mul_accepts_model {M : ErrModel} (L : Laws R M)
    (TL TR TO : QT A Nat) (hI : TO.fitIdentity = none) (href : TO.ref ∈ TO.units)
    (l r : Q A Nat) (a b sl sr : Rat)
    (ha : R.val l.amount = some a) (hb : R.val r.amount = some b)
    (hsl : R.val (TL.scale l.unit) = some sl) (hsr : R.val (TR.scale r.unit) = some sr)
    (sc : Nat → Rat) (hsc : ∀ u ∈ TO.units, R.val (TO.scale u) = some (sc u) ∧ 0 < sc u)
    (res : Q A Nat) (hres : dmul R TL TR TO l r = .ok res) (w : String) :
    Oracle.c04 M (some (a * b)) (some (sl * sr)) (R.val (TO.scale res.unit)) (R.val res.amount) ≠ .fail w := by
  suffices h : NoFail (Oracle.c04 M (some (a * b)) (some (sl * sr)) (R.val (TO.scale res.unit))
      (R.val res.amount)) from h w
  unfold Oracle.c04
  cases hsw : R.val (TO.scale res.unit) with
  | none => exact NoFail.skip _
  | some sw =>
    dsimp only
    split
    · exact NoFail.skip _
    split
    · exact NoFail.skip _
    next hpos hsafe =>
    simp only [Bool.not_eq_true, Bool.not_eq_false'] at hsafe
    obtain ⟨hs1, hs2⟩ := C04.safe_of_derivedSafe L.wf _ _ _ hsafe
    obtain ⟨s, sv, hsmul, hsv, hse⟩ := L.mul_ok _ _ sl sr hsl hsr hs2
    obtain ⟨p, pv, hpmul, hpv, hpe⟩ := L.mul_ok _ _ a b ha hb hs1
    rw [ratAbs_eq_abs] at hse hpe
    have hcase : (∃ w, unitFromScale R TO s = some w ∧ res = ⟨p, w⟩) ∨
        (unitFromScale R TO s = none ∧ ∃ x, R.mul p s = .ok x ∧ fit R TO x = .ok res) := by
      simp only [dmul, hsmul, hpmul, bind, Except.bind, pure, Except.pure] at hres
      cases hf : unitFromScale R TO s with
      | some u =>
        rw [hf] at hres
        cases hres
        exact Or.inl ⟨u, rfl, rfl⟩
      | none =>
        rw [hf] at hres
        refine Or.inr ⟨rfl, ?_⟩
        cases hx : R.mul p s with
        | error e => rw [hx] at hres; cases hres
        | ok x => rw [hx] at hres; exact ⟨x, rfl, hres⟩
    obtain ⟨hmem, hbound⟩ :=
      tail_sound R L TO hI href (a * b) (sl * sr) p s pv sv hpv hsv hpe hse sc hsc res hcase
    have hswe : sw = sc res.unit := by
      have := (hsc res.unit hmem).1
      rw [hsw] at this
      exact Option.some.inj this
    subst hswe
    obtain ⟨z, hz, hbd⟩ := hbound hsafe
    simp only [hz]
    exact NoFail.check _ (by simpa using hbd)

/-- both amount back-ends: `same` (bit / representation identity) is reflexive, so the four
statements above hold for `f64` and for `Decimal` without side conditions -/
theorem dec_same_refl (a : Dec) : Dec.arith.same a a = true := by
  show Dec.same a a = true
  simp [Dec.same]

theorem f64_same_refl (a : F64) : F64.arith.same a a = true := by
  show F64.same a a = true
  simp [F64.same]

end Qty.OracleSound
