import QtyModel.Registry
namespace Qty.C11
end Qty.C11
