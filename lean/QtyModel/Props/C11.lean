import QtyModel.Lemmas.ListFind
import QtyModel.Lemmas.MacroFront
import QtyModel.Lemmas.DecLaws
import QtyModel.Props.C09
/-
  C11 — Generated types reflect their declaration in any order or literal form.
  (partial: `syn` and rustc are modelled)

  Property theorems only, about the token-level model of the macro front end
  (`MacroFront`): which raw definitions expand, what the expansion contains, and
  that permuting the unit attributes only permutes the units.
-/
namespace Qty.C11
open Qty Qty.MacroFront

def unitAttrs (it : RawItem) : List RawAttr := it.attrs.filter (fun a => a.kind == .unit)
def refAttrs (it : RawItem) : List RawAttr := it.attrs.filter (fun a => a.kind == .refUnit)

def argsOk (args : List Tok) : Bool :=
  match parseArgs args with
  | .ok _ => true
  | .error _ => false

/-- well-formedness of a raw definition, as a decidable predicate on its tokens:
a field-less, non-generic struct; no argument or `A * B` / `A / B`; at least one `#[unit]`;
at most one `#[ref_unit]`; with a reference unit: it has no scale and every unit has one;
without: no unit has a scale or a prefix -/
def WellFormedRaw (it : RawItem) : Bool :=
  it.isStruct && !it.hasGenerics && !it.hasFields && argsOk it.args && !(unitAttrs it).isEmpty &&
  (match refAttrs it with
   | [] => (unitAttrs it).all (fun a => match parseUnit a.toks with
       | some u => u.scale.isNone && u.pfx.isNone
       | none => false)
   | [r] => (match parseUnit r.toks with
       | some rd => rd.scale.isNone
       | none => false) &&
       (unitAttrs it).all (fun a => match parseUnit a.toks with
         | some u => u.scale.isSome
         | none => false)
   | _ => false)


/-! ### helper lemmas: the shape of `declared` / `expand` in terms of the attribute lists -/

theorem expand_eq (it : RawItem) : expand it =
    match declared it with
    | .error e => .error e
    | .ok dc =>
      match parseArgs it.args with
      | .error e => .error e
      | .ok dv => .ok { name := it.name, derived := dv, refIdent := dc.refIdent
                        units := isort (orderOf dc) dc.units } := by
  unfold expand analyze
  cases declared it with
  | error e => rfl
  | ok dc => cases parseArgs it.args <;> rfl

theorem expand_error_of_declared (it : RawItem) (e : MacroErr) (h : declared it = .error e) :
    expand it = .error e := by
  rw [expand_eq, h]

theorem expand_ok_inv (it : RawItem) (d : QtyDef) (h : expand it = .ok d) :
    ∃ dc dv, declared it = .ok dc ∧ parseArgs it.args = .ok dv ∧
      d = { name := it.name, derived := dv, refIdent := dc.refIdent
            units := isort (orderOf dc) dc.units } := by
  rw [expand_eq] at h
  cases hd : declared it with
  | error e => simp [hd] at h
  | ok dc =>
    cases hp : parseArgs it.args with
    | error e => simp [hd, hp] at h
    | ok dv =>
      simp only [hd, hp, Except.ok.injEq] at h
      exact ⟨dc, dv, rfl, rfl, h.symm⟩

theorem expand_ok_iff' (it : RawItem) :
    (∃ d, expand it = .ok d) ↔ (∃ dc, declared it = .ok dc) ∧ argsOk it.args = true := by
  rw [expand_eq]; unfold argsOk
  cases declared it with
  | error e => simp
  | ok dc => cases parseArgs it.args <;> simp

/-- the three mutually exclusive shapes of `declared` on a field-less, non-generic struct:
no, one, or several `#[ref_unit]` attributes -/
theorem declared_spec (it : RawItem) (hs : it.isStruct = true) (hg : it.hasGenerics = false)
    (hf : it.hasFields = false) :
    (refAttrs it = [] ∧ declared it =
      if (unitAttrs it).isEmpty then
        .error ⟨.callSite, "At least one unit description must be given via attribute `unit`."⟩
      else match parseUnits false (unitsIx it) with
        | .error e => .error e
        | .ok us => .ok { refIdent := none, units := us }) ∨
    (∃ j r, refAttrs it = [r] ∧ it.attrs[j]? = some r ∧ declared it =
      if (unitAttrs it).isEmpty then
        .error ⟨.callSite, "At least one unit description must be given via attribute `unit`."⟩
      else match parseUnit r.toks with
        | none => .error ⟨.attr j, "2, 3 or 4 comma-separated args expected."⟩
        | some rd =>
          if rd.scale.isSome then .error ⟨.attr j, "No scale expected for ref_unit."⟩
          else match parseUnits true (unitsIx it) with
            | .error e => .error e
            | .ok us => .ok { refIdent := some rd.ident
                              units := { rd with scale := some litOne } :: us }) ∨
    (∃ j a msg, 2 ≤ (refAttrs it).length ∧ it.attrs[j]? = some a ∧ a.kind = .refUnit ∧
      declared it = .error ⟨.attr j, msg⟩) := by
  have hu : (unitsIx it).isEmpty = (unitAttrs it).isEmpty := unitsIx_isEmpty it
  rcases refsIx_cases it with ⟨h, hr⟩ | ⟨j, r, h, hr, hj⟩ | ⟨p, j, a, rest, h, hr, hj, hk⟩
  · left; exact ⟨hr, by rw [declared_none it hs hg hf h, hu]; rfl⟩
  · right; left; exact ⟨j, r, hr, hj, by rw [declared_one it hs hg hf j r h, hu]; rfl⟩
  · right; right; exact ⟨j, a, _, hr, hj, hk, declared_two it hs hg hf p j a rest h⟩

theorem unitOk_false_eq : unitOk false = (fun a => match parseUnit a.toks with
    | some u => u.scale.isNone && u.pfx.isNone
    | none => false) := by
  funext a; unfold unitOk; cases parseUnit a.toks <;> simp

theorem unitOk_true_eq : unitOk true = (fun a => match parseUnit a.toks with
    | some u => u.scale.isSome
    | none => false) := by
  funext a; unfold unitOk; cases parseUnit a.toks <;> simp

/-- what a successful `declared` returns -/
theorem declared_ok_spec (it : RawItem) (dc : Declared) (h : declared it = .ok dc) :
    it.isStruct = true ∧ it.hasGenerics = false ∧ it.hasFields = false ∧ unitAttrs it ≠ [] ∧
    ∃ us, us = (unitAttrs it).filterMap (fun a => parseUnit a.toks) ∧
      us.length = (unitAttrs it).length ∧
      ((refAttrs it = [] ∧ dc = { refIdent := none, units := us }) ∨
       (∃ r rd, refAttrs it = [r] ∧ parseUnit r.toks = some rd ∧ rd.scale = none ∧
          dc = { refIdent := some rd.ident, units := { rd with scale := some litOne } :: us })) := by
  cases hs : it.isStruct with
  | false => obtain ⟨m, e⟩ := declared_item it (Or.inl hs); rw [e] at h; cases h
  | true =>
  cases hg : it.hasGenerics with
  | true => obtain ⟨m, e⟩ := declared_item it (Or.inr (Or.inl hg)); rw [e] at h; cases h
  | false =>
  cases hf : it.hasFields with
  | true => obtain ⟨m, e⟩ := declared_item it (Or.inr (Or.inr hf)); rw [e] at h; cases h
  | false =>
  refine ⟨rfl, rfl, rfl, ?_⟩
  rcases declared_spec it hs hg hf with ⟨hr, hd⟩ | ⟨j, r, hr, hj, hd⟩ | ⟨j, a, msg, h2, _, _, hd⟩
  · rw [hd] at h
    cases hu : (unitAttrs it).isEmpty with
    | true => simp [hu] at h
    | false =>
      simp only [hu, Bool.false_eq_true, if_false] at h
      cases hp : parseUnits false (unitsIx it) with
      | error e => simp [hp] at h
      | ok us =>
        simp only [hp, Except.ok.injEq] at h
        obtain ⟨h1, h2⟩ := parseUnitsIx_ok false it us hp
        exact ⟨by intro e; simp [e] at hu, us, h1, h2, Or.inl ⟨hr, h.symm⟩⟩
  · rw [hd] at h
    cases hu : (unitAttrs it).isEmpty with
    | true => simp [hu] at h
    | false =>
      simp only [hu, Bool.false_eq_true, if_false] at h
      cases hpr : parseUnit r.toks with
      | none => simp [hpr] at h
      | some rd =>
        simp only [hpr] at h
        cases hsc : rd.scale with
        | some l => simp [hsc] at h
        | none =>
          simp only [hsc, Option.isSome_none, Bool.false_eq_true, if_false] at h
          cases hp : parseUnits true (unitsIx it) with
          | error e => simp [hp] at h
          | ok us =>
            simp only [hp, Except.ok.injEq] at h
            obtain ⟨h1, h2⟩ := parseUnitsIx_ok true it us hp
            exact ⟨by intro e; simp [e] at hu, us, h1, h2, Or.inr ⟨r, rd, hr, hpr, hsc, h.symm⟩⟩
  · rw [hd] at h; cases h

/-- the macro accepts EXACTLY the well-formed definitions (any number of units) -/
theorem expand_ok_iff (it : RawItem) : (∃ d, expand it = .ok d) ↔ WellFormedRaw it = true := by
  rw [expand_ok_iff']
  cases hs : it.isStruct with
  | false => obtain ⟨m, e⟩ := declared_item it (Or.inl hs); simp [e, WellFormedRaw, hs]
  | true =>
  cases hg : it.hasGenerics with
  | true => obtain ⟨m, e⟩ := declared_item it (Or.inr (Or.inl hg)); simp [e, WellFormedRaw, hg]
  | false =>
  cases hf : it.hasFields with
  | true => obtain ⟨m, e⟩ := declared_item it (Or.inr (Or.inr hf)); simp [e, WellFormedRaw, hf]
  | false =>
  unfold WellFormedRaw
  simp only [hs, hg, hf, Bool.not_false, Bool.true_and, Bool.and_true]
  rcases declared_spec it hs hg hf with ⟨hr, hd⟩ | ⟨j, r, hr, hj, hd⟩ | ⟨j, a, msg, h2, _, _, hd⟩
  · rw [hd, hr]
    cases hu : (unitAttrs it).isEmpty with
    | true => simp
    | false =>
      have : _ ↔ (unitAttrs it).all (unitOk false) = true := parseUnitsIx_ok_iff false it
      rw [unitOk_false_eq] at this
      simp only [Bool.false_eq_true, if_false, Bool.not_false, Bool.and_eq_true]
      rw [and_comm, ← this]
      cases parseUnits false (unitsIx it) <;> simp
  · rw [hd, hr]
    cases hu : (unitAttrs it).isEmpty with
    | true => simp
    | false =>
      have : _ ↔ (unitAttrs it).all (unitOk true) = true := parseUnitsIx_ok_iff true it
      rw [unitOk_true_eq] at this
      simp only [Bool.false_eq_true, if_false, Bool.not_false, Bool.and_eq_true]
      cases hpr : parseUnit r.toks with
      | none => simp
      | some rd =>
        cases hsc : rd.scale with
        | some l => simp [hsc]
        | none =>
          simp only [hsc, Option.isSome_none, Bool.false_eq_true, if_false, Option.isNone_none, true_and]
          rw [and_comm, ← this]
          cases parseUnits true (unitsIx it) <;> simp
  · rw [hd]
    have : ∃ x y l, refAttrs it = x :: y :: l := by
      cases h : refAttrs it with
      | nil => simp [h] at h2
      | cons x l => cases l with
        | nil => simp [h] at h2
        | cons y l => exact ⟨x, y, l, rfl⟩
    obtain ⟨x, y, l, e⟩ := this
    simp [e]

/-- the six documented forms of a unit attribute are parsed faithfully: identifier ↦ variant
(UpperCamel) and name (underscores shown as spaces), symbol, prefix, scale literal, doc -/
theorem parse_unit_forms (i s d p : Text) (l : Lit) :
    parseUnit [.ident i, .comma, .str s] =
      some ⟨Case.upperCamel i, i.map (fun c => if c = 95 then 32 else c), s, none, none, none⟩ ∧
    parseUnit [.ident i, .comma, .str s, .comma, .str d] =
      some ⟨Case.upperCamel i, i.map (fun c => if c = 95 then 32 else c), s, none, none, some d⟩ ∧
    parseUnit [.ident i, .comma, .str s, .comma, .float l] =
      some ⟨Case.upperCamel i, i.map (fun c => if c = 95 then 32 else c), s, none, some l, none⟩ ∧
    parseUnit [.ident i, .comma, .str s, .comma, .int l, .comma, .str d] =
      some ⟨Case.upperCamel i, i.map (fun c => if c = 95 then 32 else c), s, none, some l, some d⟩ ∧
    parseUnit [.ident i, .comma, .str s, .comma, .ident p, .comma, .float l] =
      some ⟨Case.upperCamel i, i.map (fun c => if c = 95 then 32 else c), s, some p, some l, none⟩ ∧
    parseUnit [.ident i, .comma, .str s, .comma, .ident p, .comma, .int l, .comma, .str d] =
      some ⟨Case.upperCamel i, i.map (fun c => if c = 95 then 32 else c), s, some p, some l, some d⟩ := by
  refine ⟨rfl, rfl, rfl, rfl, rfl, rfl⟩

/-- what the expansion contains: the struct's name, and exactly one unit per `#[unit]` /
`#[ref_unit]` attribute, carrying what that attribute declares (the reference unit gets
the scale literal `1.0`) -/
theorem expand_faithful (it : RawItem) (d : QtyDef) (h : expand it = .ok d) :
    d.name = it.name ∧
    d.units.length = (unitAttrs it).length + (refAttrs it).length ∧
    (∀ u ∈ d.units, ∃ a ∈ it.attrs, ∃ u0, parseUnit a.toks = some u0 ∧
      ((a.kind = .unit ∧ u = u0) ∨ (a.kind = .refUnit ∧ u = { u0 with scale := some litOne }))) ∧
    (d.refIdent.isSome ↔ (refAttrs it) ≠ []) := by
  obtain ⟨dc, dv, hd, _, rfl⟩ := expand_ok_inv it d h
  obtain ⟨_, _, _, _, us, hus, hlen, hc⟩ := declared_ok_spec it dc hd
  have hmem : ∀ u ∈ us, ∃ a ∈ it.attrs, ∃ u0, parseUnit a.toks = some u0 ∧
      ((a.kind = .unit ∧ u = u0) ∨ (a.kind = .refUnit ∧ u = { u0 with scale := some litOne })) := by
    intro u hu
    rw [hus, List.mem_filterMap] at hu
    obtain ⟨a, ha, hpa⟩ := hu
    unfold unitAttrs at ha
    rw [List.mem_filter] at ha
    exact ⟨a, ha.1, u, hpa, Or.inl ⟨by simpa using ha.2, rfl⟩⟩
  refine ⟨rfl, ?_, ?_, ?_⟩
  · show (isort (orderOf dc) dc.units).length = _
    rw [(isort_perm _ _).length_eq]
    rcases hc with ⟨hr, rfl⟩ | ⟨r, rd, hr, _, _, rfl⟩
    · simp [hr, hlen]
    · simp [hr, hlen]
  · intro u hu
    have hu' : u ∈ dc.units := (isort_perm _ _).mem_iff.mp hu
    rcases hc with ⟨hr, rfl⟩ | ⟨r, rd, hr, hpr, _, rfl⟩
    · exact hmem u hu'
    · rcases List.mem_cons.mp hu' with rfl | hu'
      · have hr' : r ∈ refAttrs it := by rw [hr]; simp
        unfold refAttrs at hr'
        rw [List.mem_filter] at hr'
        exact ⟨r, hr'.1, rd, hpr, Or.inr ⟨by simpa using hr'.2, rfl⟩⟩
      · exact hmem u hu'
  · rcases hc with ⟨hr, rfl⟩ | ⟨r, rd, hr, _, _, rfl⟩
    · simp [hr]
    · simp [hr]

/-- the path the generator takes depends only on the declaration: single unit, without or
with reference unit -/
theorem expand_kind (it : RawItem) (d : QtyDef) (h : expand it = .ok d) :
    d.kind = (if (unitAttrs it).length + (refAttrs it).length = 1 then QtyKind.single
              else if (refAttrs it) = [] then .noRef else .withRef) := by
  obtain ⟨_, hl, _, hr⟩ := expand_faithful it d h
  unfold QtyDef.kind
  rw [hl]
  by_cases h1 : (unitAttrs it).length + (refAttrs it).length = 1
  · simp [h1]
  · simp only [h1, if_false]
    by_cases h2 : refAttrs it = []
    · have : d.refIdent.isNone = true := by
        cases hd : d.refIdent with
        | none => rfl
        | some x => rw [hd] at hr; exact absurd h2 (hr.mp rfl)
      simp [h2, this]
    · have : d.refIdent.isNone = false := by
        have := hr.mpr h2
        cases hd : d.refIdent with
        | none => simp [hd] at this
        | some x => rfl
      simp [h2, this]

set_option linter.unusedVariables false in
/-- reordering the unit attributes changes nothing but, possibly, the order of the units:
the two expansions have the same units (as multisets), the same reference unit and the same
derivation; by `C09.iter_sorted` both are sorted, so only units sharing a key can swap -/
theorem permutation_invariant (it1 it2 : RawItem) (hp : it1.attrs.Perm it2.attrs)
    (hn : it1.name = it2.name) (ha : it1.args = it2.args) (hs : it1.isStruct = it2.isStruct)
    (hg : it1.hasGenerics = it2.hasGenerics) (hf : it1.hasFields = it2.hasFields)
    (d1 d2 : QtyDef) (h1 : expand it1 = .ok d1) (h2 : expand it2 = .ok d2) :
    d1.units.Perm d2.units ∧ d1.refIdent = d2.refIdent ∧ d1.derived = d2.derived ∧ d1.name = d2.name := by
  obtain ⟨dc1, dv1, hd1, ha1, rfl⟩ := expand_ok_inv it1 d1 h1
  obtain ⟨dc2, dv2, hd2, ha2, rfl⟩ := expand_ok_inv it2 d2 h2
  obtain ⟨_, _, _, _, us1, hus1, _, hc1⟩ := declared_ok_spec it1 dc1 hd1
  obtain ⟨_, _, _, _, us2, hus2, _, hc2⟩ := declared_ok_spec it2 dc2 hd2
  have hpu : (unitAttrs it1).Perm (unitAttrs it2) := hp.filter _
  have hpr : (refAttrs it1).Perm (refAttrs it2) := hp.filter _
  have hus : us1.Perm us2 := by rw [hus1, hus2]; exact hpu.filterMap _
  have hdv : dv1 = dv2 := by
    rw [ha] at ha1; rw [ha1] at ha2; exact Except.ok.inj ha2
  have key : dc1.units.Perm dc2.units ∧ dc1.refIdent = dc2.refIdent := by
    rcases hc1 with ⟨hr1, rfl⟩ | ⟨r1, rd1, hr1, hp1, _, rfl⟩ <;>
      rcases hc2 with ⟨hr2, rfl⟩ | ⟨r2, rd2, hr2, hp2, _, rfl⟩
    · exact ⟨hus, rfl⟩
    · rw [hr1, hr2] at hpr; simpa using hpr.length_eq
    · rw [hr1, hr2] at hpr; simpa using hpr.length_eq
    · rw [hr1, hr2] at hpr
      have : r1 = r2 := by simpa using hpr
      subst this
      rw [hp1] at hp2
      cases hp2
      exact ⟨hus.cons _, rfl⟩
  refine ⟨?_, key.2, hdv, hn⟩
  exact ((isort_perm _ _).trans key.1).trans (isort_perm _ _).symm

/-- and a permuted well-formed definition is again well-formed -/
theorem wellformed_perm (it1 it2 : RawItem) (hp : it1.attrs.Perm it2.attrs)
    (ha : it1.args = it2.args) (hs : it1.isStruct = it2.isStruct)
    (hg : it1.hasGenerics = it2.hasGenerics) (hf : it1.hasFields = it2.hasFields)
    (h : WellFormedRaw it1 = true) : WellFormedRaw it2 = true := by
  have hpu : (unitAttrs it1).Perm (unitAttrs it2) := hp.filter _
  have hpr : (refAttrs it1).Perm (refAttrs it2) := hp.filter _
  have hall : ∀ f : RawAttr → Bool, (unitAttrs it2).all f = (unitAttrs it1).all f :=
    fun f => (hpu.all_eq).symm
  have hemp : (unitAttrs it2).isEmpty = (unitAttrs it1).isEmpty := by
    have := hpu.length_eq
    cases h1 : unitAttrs it1 <;> cases h2 : unitAttrs it2 <;> simp [h1, h2] at this ⊢
  unfold WellFormedRaw at h ⊢
  rw [← ha, ← hs, ← hg, ← hf, hemp, hall, hall]
  cases h1 : refAttrs it1 with
  | nil =>
    rw [h1] at hpr h
    rw [List.nil_perm.mp hpr]; exact h
  | cons r l =>
    cases l with
    | nil =>
      rw [h1] at hpr h
      rw [← List.singleton_perm.mp hpr]; exact h
    | cons r' l => rw [h1] at h; simp at h

/-- the scale a unit reports is the literal's exact value in the amount type: decimal exactly
(for literals with at most 18 fractional digits), binary correctly rounded -/
theorem scale_is_literal_value (l : Lit) (d : Dec) (h : Dec.ofLit l = some d) : d.toRat = l.value := by
  simp only [Dec.ofLit] at h
  split_ifs at h <;>
    simp only [Option.some.injEq] at h <;> subst h <;>
    rw [Dec.toRat_eq] <;> unfold Lit.value <;> simp only [pow10_eq] <;>
    rename_i hn _ _ _
  · exfalso; omega
  · have hge : l.exp - (l.nfrac : Int) ≥ 0 := by omega
    simp only [if_pos hge]
    simp [hn, Dec.tenPow_cast]
  · have hge : ¬ l.exp - (l.nfrac : Int) ≥ 0 := by omega
    simp only [if_neg hge]
    simp [hn, neg_div]
  · have h0 : l.exp - (l.nfrac : Int) = 0 := by omega
    simp [hn, h0]
  · exfalso; omega
  · have hge : l.exp - (l.nfrac : Int) ≥ 0 := by omega
    simp only [if_pos hge]
    simp [hn, Dec.tenPow_cast]
  · have hge : ¬ l.exp - (l.nfrac : Int) ≥ 0 := by omega
    simp only [if_neg hge]
    simp [hn]
  · have h0 : l.exp - (l.nfrac : Int) = 0 := by omega
    simp [hn, h0]

/-- non-vacuity: a concrete well-formed definition with three attributes in "wrong" order -/
example : WellFormedRaw
    { args := [], name := [81],
      attrs := [⟨.unit, [.ident [66], .comma, .str [98], .comma, .float { digits := 5, nfrac := 1, isFloat := true }]⟩,
                ⟨.refUnit, [.ident [65], .comma, .str [97]]⟩,
                ⟨.unit, [.ident [67], .comma, .str [99], .comma, .ident [75, 73, 76, 79], .comma, .int { digits := 1000 }]⟩] } = true := by
  decide +kernel

end Qty.C11
