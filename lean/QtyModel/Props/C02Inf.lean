import QtyModel.Props.C02
import QtyModel.Lemmas.F64Inf
/-
  C02 — operand-order independence of cross-unit `==` / `partial_cmp` for ALL
  non-NaN amounts, i.e. including `+inf` and `-inf` (which `cmp_symm` of
  `Props/C02.lean` does not cover: it asks for finite amounts).

  * `cmp_symm_same_unit`, `cmp_symm_diff_scale`: any amount type satisfying the
    rounding laws, no hypothesis at all on the amounts (NaN, infinities allowed).
    Both operand orders convert the SAME operand (the one whose unit has the larger
    scale), so the two answers are the two orders of one and the same
    `partial_cmp` of the amount type.
  * `f64_cmp_symm_nonnan`: binary64, all non-NaN amounts, all units — the remaining
    case of two different units with the same scale is the only one where the two
    operand orders convert different operands; there the ratio is exactly 1 and
    `1 · x` compares like `x` for every non-NaN `x` (`F64.one_mul_pcmp_left`).
-/
namespace Qty.C02
open Qty

variable {A U : Type} [DecidableEq U] (R : Arith A) (T : QT A U)

/-! ### general part: no hypothesis on the amounts -/

/-- equal units: the amount type's own comparison, whose symmetry is a law for all values -/
theorem cmp_symm_same_unit {M : ErrModel} (L : Laws R M) (a b : Q A U) (hu : a.unit = b.unit) :
    hrPcmp R T b a = (hrPcmp R T a b).map Oracle.flipOrd ∧ hrEq R T b a = hrEq R T a b := by
  have hu' : b.unit = a.unit := hu.symm
  rw [pcmp_same_unit R T a b hu, pcmp_same_unit R T b a hu', eq_same_unit R T a b hu,
    eq_same_unit R T b a hu']
  refine ⟨by rw [L.pcmp_flip a.amount b.amount]; rfl, ?_⟩
  rw [L.beq_pcmp, L.beq_pcmp, L.pcmp_flip a.amount b.amount]
  cases R.pcmp a.amount b.amount with
  | none => rfl
  | some o => cases o <;> rfl

/-- Units of different scale: `a == b` exactly when `b == a`, and `partial_cmp` is reversed
when the operands are swapped, for ALL amounts (infinite and NaN amounts included; if the
conversion panics, it panics identically in both orders). -/
theorem cmp_symm_diff_scale {M : ErrModel} (L : Laws R M) (a b : Q A U) (sa sb : Rat)
    (hsa : R.val (T.scale a.unit) = some sa) (hsb : R.val (T.scale b.unit) = some sb)
    (hne : sa ≠ sb) :
    hrPcmp R T b a = (hrPcmp R T a b).map Oracle.flipOrd ∧ hrEq R T b a = hrEq R T a b := by
  have hu : ¬ a.unit = b.unit := fun h => by
    rw [h, hsb] at hsa; exact hne (Option.some.inj hsa).symm
  have hu' : ¬ b.unit = a.unit := fun h => hu h.symm
  have hab := le_total_of_val R L _ _ sa sb hsa hsb
  have hba := le_total_of_val R L _ _ sb sa hsb hsa
  unfold hrPcmp hrEq
  simp only [hu, hu', if_false]
  rcases lt_or_gt_of_ne hne with h | h
  · -- a's unit is strictly smaller: both orders compare a.amount with b converted
    have h1 : R.le (T.scale a.unit) (T.scale b.unit) = true := hab.mpr (le_of_lt h)
    have h2 : ¬ R.le (T.scale b.unit) (T.scale a.unit) = true := fun hh => not_le.mpr h (hba.mp hh)
    simp only [h1, h2, ↓reduceIte, Bool.false_eq_true]
    cases hq : equivAmount R T b a.unit with
    | error e => simp [bind, Except.bind, Except.map]
    | ok v =>
      simp only [bind, Except.bind, pure, Except.pure, Except.map]
      refine ⟨by rw [L.pcmp_flip], ?_⟩
      rw [L.beq_pcmp, L.beq_pcmp, L.pcmp_flip a.amount v]
      cases R.pcmp a.amount v with
      | none => rfl
      | some o => cases o <;> rfl
  · -- b's unit is strictly smaller
    have h1 : ¬ R.le (T.scale a.unit) (T.scale b.unit) = true := fun hh => not_le.mpr h (hab.mp hh)
    have h2 : R.le (T.scale b.unit) (T.scale a.unit) = true := hba.mpr (le_of_lt h)
    simp only [h1, h2, ↓reduceIte, Bool.false_eq_true]
    cases hq : equivAmount R T a b.unit with
    | error e => simp [bind, Except.bind, Except.map]
    | ok v =>
      simp only [bind, Except.bind, pure, Except.pure, Except.map]
      refine ⟨by rw [L.pcmp_flip v b.amount], ?_⟩
      rw [L.beq_pcmp, L.beq_pcmp, L.pcmp_flip v b.amount]
      cases R.pcmp v b.amount with
      | none => rfl
      | some o => cases o <;> rfl

/-! ### binary64: all non-NaN amounts, all units -/

/-- conclusion shape shared by the two equal-scale sub-cases: both orders reduce to the
amount type's own comparison of two fixed data `p`, `q` -/
theorem symm_of_pcmp (p q : F64) :
    (Except.ok (F64.pcmp q p) : Res (Option Ordering))
        = (Except.ok (F64.pcmp p q) : Res (Option Ordering)).map Oracle.flipOrd ∧
    (Except.ok (F64.beq q p) : Res Bool) = Except.ok (F64.beq p q) := by
  refine ⟨by rw [F64.pcmp_flip p q]; rfl, ?_⟩
  unfold F64.beq
  rw [F64.pcmp_flip p q]
  cases F64.pcmp p q with
  | none => rfl
  | some o => cases o <;> rfl

/-- Binary64 back-end: `a == b` exactly when `b == a`, and `partial_cmp` is reversed when the
operands are swapped, for all amounts that are binary64 values other than NaN — finite,
`+inf` or `-inf` — and all units (equal, of different scale, or different with equal scale).

`hwa`/`hwb` say that the datum denotes a binary64 value at all (`F64.wf`: `m < 2^53`,
`-1074 ≤ e ≤ 971`; always true for `inf`).  They are needed because the model type `F64` also
contains raw data `fin s m e` that are no binary64 values, on which `F64.mul` rounds while
`F64.pcmp` does not: see `f64_cmp_symm_fails_for_ill_formed_datum` below.  This is a quirk of
the model's carrier type, not of the Rust code (every Rust `f64` is well-formed).

Nothing is asked of the scales beyond being finite: for two different units whose scales are
both zero the ratio is `0/0 = NaN` in both orders. -/
theorem f64_cmp_symm_nonnan' {U : Type} [DecidableEq U] (T : QT F64 U) (a b : Q F64 U)
    (sa sb : Rat)
    (hsa : F64.arith.val (T.scale a.unit) = some sa)
    (hsb : F64.arith.val (T.scale b.unit) = some sb)
    (ha : a.amount ≠ F64.nan) (hb : b.amount ≠ F64.nan)
    (hwa : F64.wf a.amount = true) (hwb : F64.wf b.amount = true) :
    hrPcmp F64.arith T b a = (hrPcmp F64.arith T a b).map Oracle.flipOrd ∧
    hrEq F64.arith T b a = hrEq F64.arith T a b := by
  by_cases hu : a.unit = b.unit
  · exact cmp_symm_same_unit F64.arith T F64.laws a b hu
  by_cases hne : sa = sb
  swap
  · exact cmp_symm_diff_scale F64.arith T F64.laws a b sa sb hsa hsb hne
  -- two different units with the same scale
  subst hne
  have hu' : ¬ b.unit = a.unit := fun h => hu h.symm
  have h1 : F64.arith.le (T.scale a.unit) (T.scale b.unit) = true :=
    (le_total_of_val F64.arith F64.laws _ _ sa sa hsa hsb).mpr (le_refl _)
  have h2 : F64.arith.le (T.scale b.unit) (T.scale a.unit) = true :=
    (le_total_of_val F64.arith F64.laws _ _ sa sa hsb hsa).mpr (le_refl _)
  have e1 : equivAmount F64.arith T b a.unit
      = .ok (F64.mul (F64.div (T.scale b.unit) (T.scale a.unit)) b.amount) := by
    simp only [equivAmount, hu', if_false, ratio]; rfl
  have e2 : equivAmount F64.arith T a b.unit
      = .ok (F64.mul (F64.div (T.scale a.unit) (T.scale b.unit)) a.amount) := by
    simp only [equivAmount, hu, if_false, ratio]; rfl
  unfold hrPcmp hrEq
  simp only [hu, hu', if_false, h1, h2, if_true, e1, e2, bind, Except.bind, pure, Except.pure]
  show (Except.ok (F64.pcmp _ _) : Res (Option Ordering))
        = (Except.ok (F64.pcmp _ _) : Res (Option Ordering)).map Oracle.flipOrd ∧
      (Except.ok (F64.beq _ _) : Res Bool) = Except.ok (F64.beq _ _)
  by_cases hs0 : sa = 0
  · -- both scales are zero: the ratio is NaN in both orders, nothing compares
    subst hs0
    obtain ⟨s, m, e, hA, -, -, -, hA0⟩ := F64.val_some hsa
    obtain ⟨t, n, f, hB, -, -, -, hB0⟩ := F64.val_some hsb
    have hm : m = 0 := F64.tr_eq_zero.mp hA0.symm
    have hn : n = 0 := F64.tr_eq_zero.mp hB0.symm
    subst hm hn
    have d1 : F64.div (T.scale b.unit) (T.scale a.unit) = .nan := by rw [hA, hB]; simp [F64.div]
    have d2 : F64.div (T.scale a.unit) (T.scale b.unit) = .nan := by rw [hA, hB]; simp [F64.div]
    have mnan : ∀ x, F64.mul .nan x = .nan := fun x => by cases x <;> rfl
    have pnan : ∀ x, F64.pcmp x .nan = none := fun x => by cases x <;> rfl
    rw [d1, d2, mnan, mnan]
    unfold F64.beq
    rw [pnan, pnan]
    exact ⟨rfl, rfl⟩
  · -- the ratio has exact value 1 in both orders; `1 · x` compares like `x`
    obtain ⟨c1, hd1, hc1⟩ := F64.laws.div_self_val _ _ sa hsb hsa hs0
    obtain ⟨c2, hd2, hc2⟩ := F64.laws.div_self_val _ _ sa hsa hsb hs0
    have hd1' : F64.div (T.scale b.unit) (T.scale a.unit) = c1 := Except.ok.inj hd1
    have hd2' : F64.div (T.scale a.unit) (T.scale b.unit) = c2 := Except.ok.inj hd2
    rw [hd1', hd2']
    unfold F64.beq
    rw [F64.one_mul_pcmp_right hc1 hb hwb, F64.one_mul_pcmp_right hc2 ha hwa]
    exact symm_of_pcmp a.amount b.amount

set_option linter.unusedVariables false in
/-- The statement of the property with the scale hypotheses of `cmp_symm` (non-zero scales);
they are not needed (`f64_cmp_symm_nonnan'`), only `hwa`/`hwb` are. -/
theorem f64_cmp_symm_nonnan {U : Type} [DecidableEq U] (T : QT F64 U) (a b : Q F64 U)
    (sa sb : Rat)
    (hsa : F64.arith.val (T.scale a.unit) = some sa)
    (hsb : F64.arith.val (T.scale b.unit) = some sb)
    (hsa0 : sa ≠ 0) (hsb0 : sb ≠ 0)
    (ha : a.amount ≠ F64.nan) (hb : b.amount ≠ F64.nan)
    (hwa : F64.wf a.amount = true) (hwb : F64.wf b.amount = true) :
    hrPcmp F64.arith T b a = (hrPcmp F64.arith T a b).map Oracle.flipOrd ∧
    hrEq F64.arith T b a = hrEq F64.arith T a b :=
  f64_cmp_symm_nonnan' T a b sa sb hsa hsb ha hb hwa hwb

/-! ### the excluded corner, and non-vacuity -/

/-- binary64 `1000.0` -/
def f1000 : F64 := .fin false (1000 * 2 ^ 43) (-43)
/-- binary64 `5.0` -/
def f5 : F64 := .fin false (5 * 2 ^ 50) (-50)

/-- three units: `0` = metre (scale 1), `1` = kilometre (scale 1000), `2` = a second unit of
scale 1 (a different unit with the same scale as the metre) -/
def exT : QT F64 Nat :=
  { units := [0, 1, 2], scale := fun u => if u = 1 then f1000 else F64.one,
    hasPrefix := fun _ => false, ref := 0 }

/-- Why `hwa`/`hwb` cannot be dropped.  `fin false (2^53+1) 0` is a datum of the model type
that is not a binary64 value (53 bits hold at most `2^53-1`).  With two different units of
the same scale, `x(unit 0)` against `2^53(unit 2)`: in one order the ill-formed datum is
compared as it is (`2^53+1 > 2^53`), in the other order it is first multiplied by the ratio
`1.0`, which rounds it to `2^53` (`2^53 == 2^53`).  The amount is neither NaN nor infinite. -/
theorem f64_cmp_symm_fails_for_ill_formed_datum :
    let x : F64 := .fin false (2 ^ 53 + 1) 0
    let y : F64 := .fin false (2 ^ 52) 1
    x ≠ F64.nan ∧ y ≠ F64.nan ∧ F64.wf x = false ∧ F64.wf y = true ∧
    hrPcmp F64.arith exT ⟨x, 0⟩ ⟨y, 2⟩ = .ok (some .gt) ∧
    hrPcmp F64.arith exT ⟨y, 2⟩ ⟨x, 0⟩ = .ok (some .eq) ∧
    hrEq F64.arith exT ⟨x, 0⟩ ⟨y, 2⟩ = .ok false ∧
    hrEq F64.arith exT ⟨y, 2⟩ ⟨x, 0⟩ = .ok true := by
  decide +kernel

/-- non-vacuity, units of different scale: `+inf m` against `5 km` -/
example :
    hrPcmp F64.arith exT ⟨.inf false, 0⟩ ⟨f5, 1⟩ = .ok (some .gt) ∧
    hrPcmp F64.arith exT ⟨f5, 1⟩ ⟨.inf false, 0⟩ = .ok (some .lt) ∧
    hrEq F64.arith exT ⟨.inf false, 0⟩ ⟨f5, 1⟩ = .ok false ∧
    hrEq F64.arith exT ⟨f5, 1⟩ ⟨.inf false, 0⟩ = .ok false := by
  decide +kernel

/-- the theorem instantiated on that pair (all hypotheses hold) -/
example :
    hrPcmp F64.arith exT ⟨f5, 1⟩ ⟨.inf false, 0⟩
      = (hrPcmp F64.arith exT ⟨.inf false, 0⟩ ⟨f5, 1⟩).map Oracle.flipOrd ∧
    hrEq F64.arith exT ⟨f5, 1⟩ ⟨.inf false, 0⟩ = hrEq F64.arith exT ⟨.inf false, 0⟩ ⟨f5, 1⟩ :=
  f64_cmp_symm_nonnan exT ⟨.inf false, 0⟩ ⟨f5, 1⟩ 1 1000
    (by decide +kernel) (by decide +kernel) (by decide) (by decide)
    (by decide) (by decide) (by decide) (by decide)

/-- non-vacuity, two different units of the SAME scale, both amounts infinite or one finite:
`-inf(unit 0)` vs `5(unit 2)`, `+inf(unit 0)` vs `+inf(unit 2)` -/
example :
    hrPcmp F64.arith exT ⟨.inf true, 0⟩ ⟨f5, 2⟩ = .ok (some .lt) ∧
    hrPcmp F64.arith exT ⟨f5, 2⟩ ⟨.inf true, 0⟩ = .ok (some .gt) ∧
    hrPcmp F64.arith exT ⟨.inf false, 0⟩ ⟨.inf false, 2⟩ = .ok (some .eq) ∧
    hrEq F64.arith exT ⟨.inf false, 2⟩ ⟨.inf false, 0⟩ = .ok true := by
  decide +kernel

example :
    hrPcmp F64.arith exT ⟨f5, 2⟩ ⟨.inf true, 0⟩
      = (hrPcmp F64.arith exT ⟨.inf true, 0⟩ ⟨f5, 2⟩).map Oracle.flipOrd ∧
    hrEq F64.arith exT ⟨f5, 2⟩ ⟨.inf true, 0⟩ = hrEq F64.arith exT ⟨.inf true, 0⟩ ⟨f5, 2⟩ :=
  f64_cmp_symm_nonnan exT ⟨.inf true, 0⟩ ⟨f5, 2⟩ 1 1
    (by decide +kernel) (by decide +kernel) (by decide) (by decide)
    (by decide) (by decide) (by decide) (by decide)

end Qty.C02
