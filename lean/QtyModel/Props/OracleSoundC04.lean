import QtyModel.Props.OracleSoundBase
import QtyModel.Props.C04RoundTrip
/- `OracleSound`, C04: derived quotient and the two-step chains (see `OracleSoundBase.lean`). -/
set_option linter.unusedSectionVars false
namespace Qty.OracleSound
open Qty

variable {A : Type} (R : Arith A)

/-! ### C04: what the two generated operator bodies ACTUALLY return -/

/-- Direct ("soundness") form of `C04.dmul_mag`: for the result `res` that `dmul` returned, the
unit is one of the result table's and the bound holds as soon as the range condition holds for
the unit `res` carries. -/
theorem dmul_sound {U V W : Type} [DecidableEq U] [DecidableEq V] [DecidableEq W]
    {M : ErrModel} (L : Laws R M)
    (TL : QT A U) (TR : QT A V) (TO : QT A W) (hI : TO.fitIdentity = none) (href : TO.ref ∈ TO.units)
    (l : Q A U) (r : Q A V) (a b sl sr : Rat)
    (ha : R.val l.amount = some a) (hb : R.val r.amount = some b)
    (hsl : R.val (TL.scale l.unit) = some sl) (hsr : R.val (TR.scale r.unit) = some sr)
    (sc : W → Rat) (hsc : ∀ u ∈ TO.units, R.val (TO.scale u) = some (sc u) ∧ 0 < sc u)
    (res : Q A W) (hres : dmul R TL TR TO l r = .ok res)
    (hsafe : Oracle.derivedSafe M (a * b) (sl * sr) (sc res.unit) = true) :
    res.unit ∈ TO.units ∧ ∃ z, R.val res.amount = some z ∧
      ratAbs (z * sc res.unit - (a * b) * (sl * sr)) ≤
        Oracle.derivedBound M (a * b) (sl * sr) (sc res.unit) := by
  have hmem : res.unit ∈ TO.units := C05.dmul_unit_mem R TL TR TO hI l r res hres
  refine ⟨hmem, ?_⟩
  obtain ⟨hs1, hs2⟩ := C04.safe_of_derivedSafe L.wf _ _ _ hsafe
  obtain ⟨s, sv, hsmul, hsv, hse⟩ := L.mul_ok _ _ sl sr hsl hsr hs2
  obtain ⟨p, pv, hpmul, hpv, hpe⟩ := L.mul_ok _ _ a b ha hb hs1
  rw [ratAbs_eq_abs] at hse hpe
  have hcase : (∃ w, unitFromScale R TO s = some w ∧ res = ⟨p, w⟩) ∨
      (unitFromScale R TO s = none ∧ ∃ x, R.mul p s = .ok x ∧ fit R TO x = .ok res) := by
    simp only [dmul, hsmul, hpmul, bind, Except.bind, pure, Except.pure] at hres
    cases hf : unitFromScale R TO s with
    | some u =>
      rw [hf] at hres
      cases hres
      exact Or.inl ⟨u, rfl, rfl⟩
    | none =>
      rw [hf] at hres
      refine Or.inr ⟨rfl, ?_⟩
      cases hx : R.mul p s with
      | error e => rw [hx] at hres; cases hres
      | ok x => rw [hx] at hres; exact ⟨x, rfl, hres⟩
  exact (tail_sound R L TO hI href (a * b) (sl * sr) p s pv sv hpv hsv hpe hse sc hsc res hcase).2 hsafe

/-- the same for `ddiv` (non-zero divisor amount and divisor scale) -/
theorem ddiv_sound {U V W : Type} [DecidableEq U] [DecidableEq V] [DecidableEq W]
    {M : ErrModel} (L : Laws R M)
    (TL : QT A U) (TR : QT A V) (TO : QT A W) (hI : TO.fitIdentity = none) (href : TO.ref ∈ TO.units)
    (l : Q A U) (r : Q A V) (a b sl sr : Rat)
    (ha : R.val l.amount = some a) (hb : R.val r.amount = some b) (hb0 : b ≠ 0)
    (hsl : R.val (TL.scale l.unit) = some sl) (hsr : R.val (TR.scale r.unit) = some sr) (hsr0 : sr ≠ 0)
    (sc : W → Rat) (hsc : ∀ u ∈ TO.units, R.val (TO.scale u) = some (sc u) ∧ 0 < sc u)
    (res : Q A W) (hres : ddiv R TL TR TO l r = .ok res)
    (hsafe : Oracle.derivedSafe M (a / b) (sl / sr) (sc res.unit) = true) :
    res.unit ∈ TO.units ∧ ∃ z, R.val res.amount = some z ∧
      ratAbs (z * sc res.unit - (a / b) * (sl / sr)) ≤
        Oracle.derivedBound M (a / b) (sl / sr) (sc res.unit) := by
  have hmem : res.unit ∈ TO.units := C05.ddiv_unit_mem R TL TR TO hI l r res hres
  refine ⟨hmem, ?_⟩
  obtain ⟨hs1, hs2⟩ := C04.safe_of_derivedSafe L.wf _ _ _ hsafe
  obtain ⟨s, sv, hsdiv, hsv, hse⟩ := L.div_ok _ _ sl sr hsl hsr hsr0 hs2
  obtain ⟨p, pv, hpdiv, hpv, hpe⟩ := L.div_ok _ _ a b ha hb hb0 hs1
  rw [ratAbs_eq_abs] at hse hpe
  have hcase : (∃ w, unitFromScale R TO s = some w ∧ res = ⟨p, w⟩) ∨
      (unitFromScale R TO s = none ∧ ∃ x, R.mul p s = .ok x ∧ fit R TO x = .ok res) := by
    simp only [ddiv, hsdiv, hpdiv, bind, Except.bind, pure, Except.pure] at hres
    cases hf : unitFromScale R TO s with
    | some u =>
      rw [hf] at hres
      cases hres
      exact Or.inl ⟨u, rfl, rfl⟩
    | none =>
      rw [hf] at hres
      refine Or.inr ⟨rfl, ?_⟩
      cases hx : R.mul p s with
      | error e => rw [hx] at hres; cases hres
      | ok x => rw [hx] at hres; exact ⟨x, rfl, hres⟩
  exact (tail_sound R L TO hI href (a / b) (sl / sr) p s pv sv hpv hsv hpe hse sc hsc res hcase).2 hsafe

/-- `Oracle.c04` does not fail when, in the situation in which it judges at all (finite arguments,
positive result scale, in range), the result it is shown satisfies the per-step soundness
statement (`dmul_sound` / `ddiv_sound`) for the exact products `pa`, `ps` it is given -/
theorem c04_noFail_of_sound {M : ErrModel} (opa ops osw oz : Option Rat)
    (h : ∀ pa ps sw, opa = some pa → ops = some ps → osw = some sw → 0 < sw →
      Oracle.derivedSafe M pa ps sw = true →
      ∃ z, oz = some z ∧ ratAbs (z * sw - pa * ps) ≤ Oracle.derivedBound M pa ps sw) :
    NoFail (Oracle.c04 M opa ops osw oz) := by
  unfold Oracle.c04
  split
  next pa ps sw =>
    split
    · exact NoFail.skip _
    split
    · exact NoFail.skip _
    next hpos hsafe =>
    simp only [Bool.not_eq_true, Bool.not_eq_false'] at hsafe
    obtain ⟨z, hz, hbd⟩ := h pa ps sw rfl rfl rfl (not_le.mp hpos) hsafe
    simp only [hz]
    exact NoFail.check _ (by simpa using hbd)
  · exact NoFail.skip _

/-- **C04, derived quotient** (`Main.lean`, op `ddiv`, line `let magV := Oracle.c04 M pa ps sw (R.val z)`
with `isMul = false`; also the first `Oracle.c04` of the op `ddm` and the second one of the op `dmd`).
The driver passes `pa = none` when the divisor amount is zero (the oracle then skips), so `b ≠ 0`
is the driver's situation.  `sr ≠ 0`: when this theorem was written the driver did NOT check it for the
op `ddiv` (it did, through `nz`, for `dmd`/`ddm`), see `c04_div_rejects_model_zero_divisor_scale` below;
the driver now passes `ps = none` for a divisor unit of scale zero, so this is the driver's situation. -/
theorem c04_div_accepts_model {M : ErrModel} (L : Laws R M)
    (TL TR TO : QT A Nat) (hI : TO.fitIdentity = none) (href : TO.ref ∈ TO.units)
    (l r : Q A Nat) (a b sl sr : Rat)
    (ha : R.val l.amount = some a) (hb : R.val r.amount = some b) (hb0 : b ≠ 0)
    (hsl : R.val (TL.scale l.unit) = some sl) (hsr : R.val (TR.scale r.unit) = some sr) (hsr0 : sr ≠ 0)
    (sc : Nat → Rat) (hsc : ∀ u ∈ TO.units, R.val (TO.scale u) = some (sc u) ∧ 0 < sc u)
    (res : Q A Nat) (hres : ddiv R TL TR TO l r = .ok res) (w : String) :
    Oracle.c04 M (some (a / b)) (some (sl / sr)) (R.val (TO.scale res.unit)) (R.val res.amount) ≠ .fail w := by
  refine c04_noFail_of_sound _ _ _ _ ?_ w
  intro pa ps sw hpa hps hsw _ hsafe
  cases hpa; cases hps
  have hmem : res.unit ∈ TO.units := C05.ddiv_unit_mem R TL TR TO hI l r res hres
  have hswe : sw = sc res.unit := by
    have := (hsc res.unit hmem).1
    rw [hsw] at this
    exact Option.some.inj this
  subst hswe
  exact (ddiv_sound R L TL TR TO hI href l r a b sl sr ha hb hb0 hsl hsr hsr0 sc hsc res hres hsafe).2

namespace ZeroScale
/-- one unit of scale `1.0` -/
def TI : QT F64 Nat := { units := [0], scale := fun _ => F64.one, hasPrefix := fun _ => false, ref := 0 }
/-- one unit of scale `0.0` -/
def TZ : QT F64 Nat := { units := [0], scale := fun _ => F64.zero, hasPrefix := fun _ => false, ref := 0 }
end ZeroScale

/-- `sr ≠ 0` cannot be dropped from `c04_div_accepts_model`, and the op `ddiv` of the driver does
not establish it (`ps` is computed as `opQ p q` without `nz`): binary64 back-end, divisor unit of
scale `0.0`, `1 / 1`.  The model returns `+inf` (scale quotient `1.0 / 0.0 = +inf`, no unit of that
scale, `_fit` of `1 · inf`), the driver passes `ps = some (1 / 0) = some 0`, everything is "in
range", and the oracle FAILS on the model's own output.  (In the decimal back-end the model panics
with `divByZero`, so no oracle is evaluated.  A unit scale of zero does not occur in a generated
table whose scales are positive literals; the ops `dmd`/`ddm` guard with `nz sb`.)
CORRECTED in the driver after this witness was found: `ps` is `none` (the oracle skips) when the divisor
unit's scale is zero.  The witness stays as the record of why the guard is there. -/
theorem c04_div_rejects_model_zero_divisor_scale :
    ∃ (TL TR TO : QT F64 Nat) (l r res : Q F64 Nat) (a b sl sr : Rat) (sc : Nat → Rat),
      TO.fitIdentity = none ∧ TO.ref ∈ TO.units ∧
      F64.arith.val l.amount = some a ∧ F64.arith.val r.amount = some b ∧ b ≠ 0 ∧
      F64.arith.val (TL.scale l.unit) = some sl ∧ F64.arith.val (TR.scale r.unit) = some sr ∧
      (∀ u ∈ TO.units, F64.arith.val (TO.scale u) = some (sc u) ∧ 0 < sc u) ∧
      ddiv F64.arith TL TR TO l r = .ok res ∧
      ¬ NoFail (Oracle.c04 ErrModel.f64 (some (a / b)) (some (sl / sr))
        (F64.arith.val (TO.scale res.unit)) (F64.arith.val res.amount)) := by
  refine ⟨ZeroScale.TI, ZeroScale.TZ, ZeroScale.TI, ⟨F64.one, 0⟩, ⟨F64.one, 0⟩, ⟨.inf false, 0⟩,
    1, 1, 1, 0, fun _ => 1,
    rfl, by decide, by decide +kernel, by decide +kernel, one_ne_zero, by decide +kernel,
    by decide +kernel, ?_, by decide +kernel, ?_⟩
  · intro u _
    refine ⟨?_, one_pos⟩
    show F64.arith.val F64.one = some 1
    decide +kernel
  · apply not_noFail_of_isFail
    decide +kernel

/-! ### C04: the two-step chains `(x * y) / y` and `(x / y) * y` -/

/- The arguments of the oracles of the ops `dmd` / `ddm`, computed as `Main.lean` computes them
(the `let`s before `Oracle.c04rt M isMul m0 pa1 ps1 sw1 bs pa2 ps2 sw2 (R.val z2)`):
`av`, `bv` = `R.val` of the operand amounts, `sa`, `sb` = `R.val` of the operand unit scales,
`sw1`, `zv1` = `R.val` of the scale of the intermediate's unit and of its amount, `sw2` the same for
the final result. -/
namespace Drv

/-- `let opQ (fwd : Bool) (p q : Rat) : Rat := if fwd then p * q else p / q` -/
def opQ (fwd : Bool) (p q : Rat) : Rat := if fwd then p * q else p / q

/-- `let nz (q : Option Rat) : Option Rat := q.bind (fun q => if q == 0 then none else some q)` -/
def nz (q : Option Rat) : Option Rat := q.bind (fun q => if q == 0 then none else some q)

def pa1 (isMul : Bool) (av bv : Option Rat) : Option Rat :=
  do pure (opQ isMul (← av) (← (if isMul then bv else nz bv)))
def ps1 (isMul : Bool) (sa sb : Option Rat) : Option Rat :=
  do pure (opQ isMul (← sa) (← (if isMul then sb else nz sb)))
def pa2 (isMul : Bool) (zv1 bv : Option Rat) : Option Rat :=
  do pure (opQ (!isMul) (← zv1) (← (if isMul then nz bv else bv)))
def ps2 (isMul : Bool) (sw1 sb : Option Rat) : Option Rat :=
  do pure (opQ (!isMul) (← sw1) (← (if isMul then nz sb else sb)))
def m0 (av sa : Option Rat) : Option Rat := do pure ((← av) * (← sa))
def bs (bv sb : Option Rat) : Option Rat := do pure ((← bv) * (← sb))

/-- the third verdict of the chain ops: `Oracle.c04rt M isMul m0 pa1 ps1 sw1 bs pa2 ps2 sw2 (R.val z2)` -/
def chainRt (M : ErrModel) (isMul : Bool) (av bv sa sb sw1 zv1 sw2 zv2 : Option Rat) : Verdict :=
  Oracle.c04rt M isMul (m0 av sa) (pa1 isMul av bv) (ps1 isMul sa sb) sw1 (bs bv sb)
    (pa2 isMul zv1 bv) (ps2 isMul sw1 sb) sw2 zv2

/-- the whole verdict of the chain ops:
`((Oracle.c04 M pa1 ps1 sw1 zv1).and (Oracle.c04 M pa2 ps2 sw2 (R.val z2))).and (Oracle.c04rt …)` -/
def chainVerdict (M : ErrModel) (isMul : Bool) (av bv sa sb sw1 zv1 sw2 zv2 : Option Rat) : Verdict :=
  ((Oracle.c04 M (pa1 isMul av bv) (ps1 isMul sa sb) sw1 zv1).and
    (Oracle.c04 M (pa2 isMul zv1 bv) (ps2 isMul sw1 sb) sw2 zv2)).and
    (chainRt M isMul av bv sa sb sw1 zv1 sw2 zv2)

theorem nz_eq_some (q : Option Rat) (v : Rat) : nz q = some v ↔ q = some v ∧ v ≠ 0 := by
  cases q with
  | none => simp [nz]
  | some x =>
    by_cases hx : x = 0
    · subst hx
      simp only [nz, Option.bind_some, beq_self_eq_true, if_true, Option.some.injEq]
      constructor
      · intro h; cases h
      · rintro ⟨rfl, h⟩; exact absurd rfl h
    · have : (x == 0) = false := by simpa using hx
      simp only [nz, Option.bind_some, this, Bool.false_eq_true, if_false, Option.some.injEq]
      constructor
      · rintro rfl; exact ⟨rfl, hx⟩
      · rintro ⟨rfl, -⟩; rfl

end Drv

/-- the conclusion of `C04.mul_then_div_mag` from the two per-step bounds -/
theorem rt_mul_div (a b sa sb z sw1 z' sw2 B1 B2 : Rat) (hb0 : b ≠ 0) (hsb0 : sb ≠ 0)
    (h1 : |z * sw1 - a * b * (sa * sb)| ≤ B1) (h2 : |z' * sw2 - z / b * (sw1 / sb)| ≤ B2) :
    |z' * sw2 - a * sa| ≤ B2 + B1 / |b * sb| := by
  have hbs : b * sb ≠ 0 := mul_ne_zero hb0 hsb0
  have hpos : 0 < |b * sb| := abs_pos.mpr hbs
  have key : z' * sw2 - a * sa
      = (z' * sw2 - z / b * (sw1 / sb)) + (z * sw1 - a * b * (sa * sb)) / (b * sb) := by
    field_simp
    ring
  rw [key]
  have h3 : |(z * sw1 - a * b * (sa * sb)) / (b * sb)| ≤ B1 / |b * sb| := by
    rw [abs_div]
    exact div_le_div_of_nonneg_right h1 (le_of_lt hpos)
  have h4 := abs_add_le (z' * sw2 - z / b * (sw1 / sb)) ((z * sw1 - a * b * (sa * sb)) / (b * sb))
  linarith

/-- the conclusion of `C04.div_then_mul_mag` from the two per-step bounds -/
theorem rt_div_mul (a b sa sb z sw1 z' sw2 B1 B2 : Rat) (hb0 : b ≠ 0) (hsb0 : sb ≠ 0)
    (h1 : |z * sw1 - a / b * (sa / sb)| ≤ B1) (h2 : |z' * sw2 - z * b * (sw1 * sb)| ≤ B2) :
    |z' * sw2 - a * sa| ≤ B2 + B1 * |b * sb| := by
  have key : z' * sw2 - a * sa
      = (z' * sw2 - z * b * (sw1 * sb)) + (z * sw1 - a / b * (sa / sb)) * (b * sb) := by
    field_simp
    ring
  rw [key]
  have h3 : |(z * sw1 - a / b * (sa / sb)) * (b * sb)| ≤ B1 * |b * sb| := by
    rw [abs_mul]
    exact mul_le_mul_of_nonneg_right h1 (abs_nonneg _)
  have h4 := abs_add_le (z' * sw2 - z * b * (sw1 * sb)) ((z * sw1 - a / b * (sa / sb)) * (b * sb))
  linarith

/-- `Oracle.c04rt` does not fail when, in the situation in which it judges at all (all arguments
finite, positive result scales, non-zero factor, both steps in range), the final amount is finite
and within the composed bound -/
theorem c04rt_noFail_of_sound {M : ErrModel} (isMul : Bool)
    (om0 opa1 ops1 osw1 obs opa2 ops2 osw2 oz2 : Option Rat)
    (h : ∀ m0 pa1 ps1 sw1 bs pa2 ps2 sw2, om0 = some m0 → opa1 = some pa1 → ops1 = some ps1 →
      osw1 = some sw1 → obs = some bs → opa2 = some pa2 → ops2 = some ps2 → osw2 = some sw2 →
      0 < sw1 → 0 < sw2 → bs ≠ 0 →
      Oracle.derivedSafe M pa1 ps1 sw1 = true → Oracle.derivedSafe M pa2 ps2 sw2 = true →
      ∃ z2, oz2 = some z2 ∧
        ratAbs (z2 * sw2 - m0) ≤
          (if isMul then Oracle.derivedBound M pa2 ps2 sw2 + Oracle.derivedBound M pa1 ps1 sw1 / ratAbs bs
           else Oracle.derivedBound M pa2 ps2 sw2 + Oracle.derivedBound M pa1 ps1 sw1 * ratAbs bs)) :
    NoFail (Oracle.c04rt M isMul om0 opa1 ops1 osw1 obs opa2 ops2 osw2 oz2) := by
  unfold Oracle.c04rt
  split
  next m0 pa1 ps1 sw1 bs pa2 ps2 sw2 =>
    split
    · exact NoFail.skip _
    split
    · exact NoFail.skip _
    split
    · exact NoFail.skip _
    next hpos hbs hsafe =>
    simp only [Bool.or_eq_true, decide_eq_true_eq, not_or, not_le, beq_iff_eq,
      Bool.not_eq_true'] at hpos hbs hsafe
    obtain ⟨z2, hz2, hbd⟩ := h m0 pa1 ps1 sw1 bs pa2 ps2 sw2 rfl rfl rfl rfl rfl rfl rfl rfl
      hpos.1 hpos.2 hbs (by simpa using hsafe.1) (by simpa using hsafe.2)
    simp only [hz2]
    exact NoFail.check _ (by simpa using hbd)
  · exact NoFail.skip _

/-- **C04, two-step chains** (`Main.lean`, ops `dmd` (`isMul = true`, `(x * y) / y`) and `ddm`
(`isMul = false`, `(x / y) * y`), third verdict
`Oracle.c04rt M isMul m0 pa1 ps1 sw1 bs pa2 ps2 sw2 (R.val z2)`): `p` is what the model's first
step returned, `q` what its second step returned on `p` (the driver's `step1`, `step2`); the
oracle's arguments are computed from them by `Drv.chainRt` exactly as the driver does.  The oracle
itself skips unless both steps are in range for the units actually carried, so no range hypothesis
is needed; proved from the per-step statements `dmul_sound` / `ddiv_sound` composed as in
`C04.mul_then_div_mag` / `C04.div_then_mul_mag` (`rt_mul_div`, `rt_div_mul`). -/
theorem c04rt_accepts_model {M : ErrModel} (L : Laws R M)
    (TL TR TO : QT A Nat) (hIO : TO.fitIdentity = none) (hIL : TL.fitIdentity = none)
    (hrefO : TO.ref ∈ TO.units) (hrefL : TL.ref ∈ TL.units)
    (isMul : Bool) (x y : Q A Nat)
    (scO : Nat → Rat) (hscO : ∀ u ∈ TO.units, R.val (TO.scale u) = some (scO u) ∧ 0 < scO u)
    (scL : Nat → Rat) (hscL : ∀ u ∈ TL.units, R.val (TL.scale u) = some (scL u) ∧ 0 < scL u)
    (p q : Q A Nat)
    (h1 : (if isMul then dmul R TL TR TO x y else ddiv R TL TR TO x y) = .ok p)
    (h2 : (if isMul then ddiv R TO TR TL p y else dmul R TO TR TL p y) = .ok q) (w : String) :
    Drv.chainRt M isMul (R.val x.amount) (R.val y.amount) (R.val (TL.scale x.unit))
      (R.val (TR.scale y.unit)) (R.val (TO.scale p.unit)) (R.val p.amount)
      (R.val (TL.scale q.unit)) (R.val q.amount) ≠ .fail w := by
  suffices hh : NoFail (Drv.chainRt M isMul (R.val x.amount) (R.val y.amount) (R.val (TL.scale x.unit))
      (R.val (TR.scale y.unit)) (R.val (TO.scale p.unit)) (R.val p.amount)
      (R.val (TL.scale q.unit)) (R.val q.amount)) from hh w
  unfold Drv.chainRt
  apply c04rt_noFail_of_sound
  intro m0 pa1 ps1 sw1 bs pa2 ps2 sw2 hm0 hpa1 hps1 hsw1 hbs hpa2 hps2 hsw2 hp1 hp2 hbs0 hsafe1 hsafe2
  obtain ⟨a, sa, hav, hsa, rfl⟩ := Drv.lift2_eq_some (fun p q => p * q) _ _ _ hm0
  obtain ⟨b, sb, hbv, hsb, rfl⟩ := Drv.lift2_eq_some (fun p q => p * q) _ _ _ hbs
  have hb0 : b ≠ 0 := fun h => hbs0 (by rw [h, zero_mul])
  have hsb0 : sb ≠ 0 := fun h => hbs0 (by rw [h, mul_zero])
  cases isMul with
  | true =>
    simp only [if_true] at h1 h2
    obtain ⟨a', b', ha', hb', rfl⟩ := Drv.lift2_eq_some (Drv.opQ true) _ _ _ hpa1
    obtain ⟨sa', sb', hsa', hsb', rfl⟩ := Drv.lift2_eq_some (Drv.opQ true) _ _ _ hps1
    obtain ⟨z1, b'', hz1, hb'', rfl⟩ := Drv.lift2_eq_some (Drv.opQ (!true)) _ _ _ hpa2
    obtain ⟨sw1', sb'', hsw1', hsb'', rfl⟩ := Drv.lift2_eq_some (Drv.opQ (!true)) _ _ _ hps2
    simp only [if_true, Drv.nz_eq_some] at hb' hsb' hb'' hsb''
    rw [hav] at ha'; rw [hbv] at hb' hb''; rw [hsa] at hsa'; rw [hsb] at hsb' hsb''
    rw [hsw1] at hsw1'
    cases ha'; cases hb'; cases hb''.1; cases hsa'; cases hsb'; cases hsb''.1; cases hsw1'
    simp only [Drv.opQ, if_true, Bool.not_true, Bool.false_eq_true, if_false] at hsafe1 hsafe2 ⊢
    have hpm : p.unit ∈ TO.units := C05.dmul_unit_mem R TL TR TO hIO x y p h1
    have hqm : q.unit ∈ TL.units := C05.ddiv_unit_mem R TO TR TL hIL p y q h2
    have e1 : sw1 = scO p.unit := by
      have := (hscO p.unit hpm).1; rw [hsw1] at this; exact Option.some.inj this
    have e2 : sw2 = scL q.unit := by
      have := (hscL q.unit hqm).1; rw [hsw2] at this; exact Option.some.inj this
    subst e1 e2
    obtain ⟨-, z1', hz1', hbd1⟩ :=
      dmul_sound R L TL TR TO hIO hrefO x y a b sa sb hav hbv hsa hsb scO hscO p h1 hsafe1
    rw [hz1] at hz1'; cases hz1'
    obtain ⟨-, z2, hz2, hbd2⟩ :=
      ddiv_sound R L TO TR TL hIL hrefL p y z1 b (scO p.unit) sb hz1 hbv hb0 hsw1 hsb hsb0
        scL hscL q h2 hsafe2
    refine ⟨z2, hz2, ?_⟩
    simp only [ratAbs_eq_abs] at hbd1 hbd2 ⊢
    exact rt_mul_div a b sa sb z1 (scO p.unit) z2 (scL q.unit) _ _ hb0 hsb0 hbd1 hbd2
  | false =>
    simp only [Bool.false_eq_true, if_false] at h1 h2
    obtain ⟨a', b', ha', hb', rfl⟩ := Drv.lift2_eq_some (Drv.opQ false) _ _ _ hpa1
    obtain ⟨sa', sb', hsa', hsb', rfl⟩ := Drv.lift2_eq_some (Drv.opQ false) _ _ _ hps1
    obtain ⟨z1, b'', hz1, hb'', rfl⟩ := Drv.lift2_eq_some (Drv.opQ (!false)) _ _ _ hpa2
    obtain ⟨sw1', sb'', hsw1', hsb'', rfl⟩ := Drv.lift2_eq_some (Drv.opQ (!false)) _ _ _ hps2
    simp only [Bool.false_eq_true, if_false, Drv.nz_eq_some] at hb' hsb' hb'' hsb''
    rw [hav] at ha'; rw [hbv] at hb' hb''; rw [hsa] at hsa'; rw [hsb] at hsb' hsb''
    rw [hsw1] at hsw1'
    cases ha'; cases hb'.1; cases hb''; cases hsa'; cases hsb'.1; cases hsb''; cases hsw1'
    simp only [Drv.opQ, if_true, Bool.not_false, Bool.false_eq_true, if_false] at hsafe1 hsafe2 ⊢
    have hpm : p.unit ∈ TO.units := C05.ddiv_unit_mem R TL TR TO hIO x y p h1
    have hqm : q.unit ∈ TL.units := C05.dmul_unit_mem R TO TR TL hIL p y q h2
    have e1 : sw1 = scO p.unit := by
      have := (hscO p.unit hpm).1; rw [hsw1] at this; exact Option.some.inj this
    have e2 : sw2 = scL q.unit := by
      have := (hscL q.unit hqm).1; rw [hsw2] at this; exact Option.some.inj this
    subst e1 e2
    obtain ⟨-, z1', hz1', hbd1⟩ :=
      ddiv_sound R L TL TR TO hIO hrefO x y a b sa sb hav hbv hb0 hsa hsb hsb0 scO hscO p h1 hsafe1
    rw [hz1] at hz1'; cases hz1'
    obtain ⟨-, z2, hz2, hbd2⟩ :=
      dmul_sound R L TO TR TL hIL hrefL p y z1 b (scO p.unit) sb hz1 hbv hsw1 hsb
        scL hscL q h2 hsafe2
    refine ⟨z2, hz2, ?_⟩
    simp only [ratAbs_eq_abs] at hbd1 hbd2 ⊢
    exact rt_div_mul a b sa sb z1 (scO p.unit) z2 (scL q.unit) _ _ hb0 hsb0 hbd1 hbd2

namespace Drv
theorem pa2_eq (isMul : Bool) (zv1 bv : Option Rat) : pa2 isMul zv1 bv = pa1 (!isMul) zv1 bv := by
  cases isMul <;> rfl
theorem ps2_eq (isMul : Bool) (sw1 sb : Option Rat) : ps2 isMul sw1 sb = ps1 (!isMul) sw1 sb := by
  cases isMul <;> rfl
end Drv

/-- one step of a chain: `Oracle.c04` with the arguments the chain ops compute for a product
(`fwd = true`) or a quotient (`fwd = false`, zero divisor amount or divisor scale mapped to `none`
by `nz`) accepts what the model's operator returned -/
theorem step_c04_noFail {M : ErrModel} (L : Laws R M)
    (TL TR TO : QT A Nat) (hI : TO.fitIdentity = none) (href : TO.ref ∈ TO.units)
    (fwd : Bool) (l r : Q A Nat)
    (sc : Nat → Rat) (hsc : ∀ u ∈ TO.units, R.val (TO.scale u) = some (sc u) ∧ 0 < sc u)
    (res : Q A Nat) (hres : (if fwd then dmul R TL TR TO l r else ddiv R TL TR TO l r) = .ok res) :
    NoFail (Oracle.c04 M (Drv.pa1 fwd (R.val l.amount) (R.val r.amount))
      (Drv.ps1 fwd (R.val (TL.scale l.unit)) (R.val (TR.scale r.unit)))
      (R.val (TO.scale res.unit)) (R.val res.amount)) := by
  apply c04_noFail_of_sound
  intro pa ps sw hpa hps hsw _ hsafe
  cases fwd with
  | true =>
    simp only [if_true] at hres
    obtain ⟨a, b, ha, hb, rfl⟩ := Drv.lift2_eq_some (Drv.opQ true) _ _ _ hpa
    obtain ⟨sl, sr, hsl, hsr, rfl⟩ := Drv.lift2_eq_some (Drv.opQ true) _ _ _ hps
    simp only [if_true] at hb hsr
    simp only [Drv.opQ, if_true] at hsafe ⊢
    have hmem : res.unit ∈ TO.units := C05.dmul_unit_mem R TL TR TO hI l r res hres
    have e : sw = sc res.unit := by
      have := (hsc res.unit hmem).1; rw [hsw] at this; exact Option.some.inj this
    subst e
    exact (dmul_sound R L TL TR TO hI href l r a b sl sr ha hb hsl hsr sc hsc res hres hsafe).2
  | false =>
    simp only [Bool.false_eq_true, if_false] at hres
    obtain ⟨a, b, ha, hb, rfl⟩ := Drv.lift2_eq_some (Drv.opQ false) _ _ _ hpa
    obtain ⟨sl, sr, hsl, hsr, rfl⟩ := Drv.lift2_eq_some (Drv.opQ false) _ _ _ hps
    simp only [Bool.false_eq_true, if_false, Drv.nz_eq_some] at hb hsr
    simp only [Drv.opQ, Bool.false_eq_true, if_false] at hsafe ⊢
    have hmem : res.unit ∈ TO.units := C05.ddiv_unit_mem R TL TR TO hI l r res hres
    have e : sw = sc res.unit := by
      have := (hsc res.unit hmem).1; rw [hsw] at this; exact Option.some.inj this
    subst e
    exact (ddiv_sound R L TL TR TO hI href l r a b sl sr ha hb.1 hb.2 hsl hsr.1 hsr.2 sc hsc res
      hres hsafe).2

/-- **C04, two-step chains, the whole verdict** of the ops `dmd` / `ddm` (`Main.lean`:
`((Oracle.c04 M pa1 ps1 sw1 zv1).and (Oracle.c04 M pa2 ps2 sw2 (R.val z2))).and (Oracle.c04rt …)`)
on the model's own two results -/
theorem chain_accepts_model {M : ErrModel} (L : Laws R M)
    (TL TR TO : QT A Nat) (hIO : TO.fitIdentity = none) (hIL : TL.fitIdentity = none)
    (hrefO : TO.ref ∈ TO.units) (hrefL : TL.ref ∈ TL.units)
    (isMul : Bool) (x y : Q A Nat)
    (scO : Nat → Rat) (hscO : ∀ u ∈ TO.units, R.val (TO.scale u) = some (scO u) ∧ 0 < scO u)
    (scL : Nat → Rat) (hscL : ∀ u ∈ TL.units, R.val (TL.scale u) = some (scL u) ∧ 0 < scL u)
    (p q : Q A Nat)
    (h1 : (if isMul then dmul R TL TR TO x y else ddiv R TL TR TO x y) = .ok p)
    (h2 : (if isMul then ddiv R TO TR TL p y else dmul R TO TR TL p y) = .ok q) (w : String) :
    Drv.chainVerdict M isMul (R.val x.amount) (R.val y.amount) (R.val (TL.scale x.unit))
      (R.val (TR.scale y.unit)) (R.val (TO.scale p.unit)) (R.val p.amount)
      (R.val (TL.scale q.unit)) (R.val q.amount) ≠ .fail w := by
  suffices hh : NoFail (Drv.chainVerdict M isMul (R.val x.amount) (R.val y.amount)
      (R.val (TL.scale x.unit)) (R.val (TR.scale y.unit)) (R.val (TO.scale p.unit)) (R.val p.amount)
      (R.val (TL.scale q.unit)) (R.val q.amount)) from hh w
  unfold Drv.chainVerdict
  apply and_ne_fail
  · apply and_ne_fail
    · exact step_c04_noFail R L TL TR TO hIO hrefO isMul x y scO hscO p h1
    · rw [Drv.pa2_eq, Drv.ps2_eq]
      refine step_c04_noFail R L TO TR TL hIL hrefL (!isMul) p y scL hscL q ?_
      cases isMul <;> simpa using h2
  · exact fun w => c04rt_accepts_model R L TL TR TO hIO hIL hrefO hrefL isMul x y scO hscO scL hscL
      p q h1 h2 w

end Qty.OracleSound
