import QtyModel.Fmt
namespace Qty.C15
end Qty.C15
