import QtyModel.Fmt
import QtyModel.Lemmas.Basic
/-
  C15 — Text output is faithful and parseable.  (partial: `core::fmt` is modelled)

  Property theorems only, about the model `Fmt` of `Quantity::fmt`, `Display for Rate`
  and `Display for Decimal`.  What is NOT modelled: the digits std prints for an `f64`
  (taken from std in the correspondence run and checked there for digit count and
  correct rounding) and `Formatter::pad` for unit symbols (compared with std's own
  formatting of the symbol string).
-/
namespace Qty.C15
open Qty Qty.Fmt

/-- the sign text: exactly one leading minus for negative amounts, `+` only with the flag -/
def signOf (sp : Spec) (nonneg : Bool) : Text := if !nonneg then [45] else if sp.plus then [43] else []

/-- without a width: sign, amount text, ONE space, unit symbol — nothing else -/
theorem fmt_shape (sp : Spec) (nonneg : Bool) (amt sym : Text) (h : sp.width = none) :
    qtyFmt sp nonneg amt sym = signOf sp nonneg ++ amt ++ [32] ++ sym := by
  simp [qtyFmt, padNumeric, h, signOf, List.append_assoc]

/-- the displayed length IN CHARACTERS is the requested width, or the natural length if that is larger -/
theorem fmt_width (sp : Spec) (nonneg : Bool) (body : Text) :
    (padNumeric sp nonneg body).length =
      max (sp.width.getD 0) (body.length + (signOf sp nonneg).length) := by
  unfold padNumeric signOf
  cases hw : sp.width with
  | none => simp [List.length_append, Nat.add_comm]
  | some w =>
    by_cases hle : w ≤ body.length + (if (!nonneg) = true then [45] else if sp.plus = true then [43] else ([] : Text)).length
    · simp only [hle, if_true, Option.getD_some, List.length_append]
      omega
    · simp only [hle, if_false, Option.getD_some]
      by_cases hz : sp.zero = true
      · simp only [hz, if_true, List.length_append, rep, List.length_replicate]; omega
      · simp only [hz, Bool.false_eq_true, if_false]
        rcases ha : sp.align with _ | a
        · simp only [List.length_append, rep, List.length_replicate]; omega
        · cases a <;> simp only [List.length_append, rep, List.length_replicate] <;> omega

/-- `padNumeric` spelled out with `signOf` -/
theorem padNumeric_eq (sp : Spec) (nonneg : Bool) (body : Text) :
    padNumeric sp nonneg body =
      (match sp.width with
       | none => signOf sp nonneg ++ body
       | some w =>
         if w ≤ body.length + (signOf sp nonneg).length then signOf sp nonneg ++ body
         else if sp.zero then signOf sp nonneg ++ rep (w - (body.length + (signOf sp nonneg).length)) 48 ++ body
         else
           let pad := w - (body.length + (signOf sp nonneg).length)
           let pp : Nat × Nat := match sp.align with
             | some .left => (0, pad)
             | some .center => (pad / 2, (pad + 1) / 2)
             | _ => (pad, 0)
           rep pp.1 (sp.fill.getD 32) ++ signOf sp nonneg ++ body ++ rep pp.2 (sp.fill.getD 32)) := by
  unfold padNumeric signOf
  cases sp.width with
  | none => rfl
  | some w =>
    simp only
    split
    · rfl
    · split
      · rfl
      · rcases sp.align with _ | a
        · rfl
        · cases a <;> rfl

/-- sign, fill and alignment apply to the text as a whole: the output is
`fill* ++ sign ++ body ++ fill*`, or `sign ++ 0* ++ body` with the zero flag; the sign is
adjacent to the amount text and occurs once -/
theorem fmt_placement (sp : Spec) (nonneg : Bool) (body : Text) :
    ∃ pre post : Nat,
      (sp.zero = true → padNumeric sp nonneg body = signOf sp nonneg ++ rep pre 48 ++ body ∧ post = 0) ∧
      (sp.zero = false → padNumeric sp nonneg body =
          rep pre (sp.fill.getD 32) ++ signOf sp nonneg ++ body ++ rep post (sp.fill.getD 32)) ∧
      (sp.zero = false → sp.align = some .left → pre = 0) ∧
      (sp.zero = false → (sp.align = some .right ∨ sp.align = none) → post = 0) ∧
      (sp.zero = false → sp.align = some .center → (post = pre ∨ post = pre + 1)) := by
  rw [padNumeric_eq]
  generalize signOf sp nonneg = sg
  cases hw : sp.width with
  | none => exact ⟨0, 0, by simp [rep], by simp [rep], by simp, by simp, by simp⟩
  | some w =>
    simp only
    by_cases hle : w ≤ body.length + sg.length
    · simp only [hle, if_true]
      exact ⟨0, 0, by simp [rep], by simp [rep], by simp, by simp, by simp⟩
    · simp only [hle, if_false]
      cases hz : sp.zero with
      | true => exact ⟨w - (body.length + sg.length), 0, by simp, by simp, by simp, by simp, by simp⟩
      | false =>
        simp only [Bool.false_eq_true, if_false]
        rcases ha : sp.align with _ | a
        · exact ⟨w - (body.length + sg.length), 0, by simp, by simp, by simp, by simp, by simp⟩
        · cases a
          · exact ⟨0, w - (body.length + sg.length), by simp, by simp, by simp, by simp, by simp⟩
          · refine ⟨(w - (body.length + sg.length)) / 2, (w - (body.length + sg.length) + 1) / 2,
              by simp, by simp, by simp, by simp, ?_⟩
            intro _ _; omega
          · exact ⟨w - (body.length + sg.length), 0, by simp, by simp, by simp, by simp, by simp⟩

/-- split a displayed text at its LAST space -/
def splitLastSpace (t : Text) : Text × Text :=
  let r := t.reverse
  ((r.dropWhile (· != 32)).drop 1 |>.reverse, (r.takeWhile (· != 32)).reverse)

/-- round trip of the shape: the displayed text splits at the last space into the amount text
and the symbol, for every symbol without a space (as in the whole catalogue) -/
theorem fmt_splits (amt sym : Text) (h : ∀ c ∈ sym, c ≠ 32) :
    splitLastSpace (amt ++ [32] ++ sym) = (amt, sym) := by
  unfold splitLastSpace
  have hr : (amt ++ [32] ++ sym).reverse = sym.reverse ++ 32 :: amt.reverse := by simp
  have hall : ∀ c ∈ sym.reverse, (c != 32) = true := by
    intro c hc; simpa using h c (List.mem_reverse.mp hc)
  simp only [hr]
  rw [List.takeWhile_append_of_pos hall, List.dropWhile_append_of_pos hall]
  simp

/-- a rate displays as `term / per`; the per-multiple is omitted when it is one -/
theorem rate_fmt_per_one (ta ts pa ps : Text) (hts : ts ≠ []) (hps : ps ≠ []) :
    rateFmt ta ts pa ps true = ta ++ [32] ++ ts ++ [32, 47, 32] ++ ps ∧
    rateFmt ta ts pa ps false = ta ++ [32] ++ ts ++ [32, 47, 32] ++ pa ++ [32] ++ ps := by
  cases ts with
  | nil => exact absurd rfl hts
  | cons a as =>
    cases ps with
    | nil => exact absurd rfl hps
    | cons b bs => simp [rateFmt, List.append_assoc]

theorem rate_fmt_unitless (ta pa : Text) (one : Bool) : rateFmt ta [] pa [] one = ta ++ [32, 47, 32] ++ pa := by
  simp [rateFmt]

/-- non-vacuity: `{:*^+12.1}` of -5.0 µm is `**-5.0 µm***` (12 characters although `µ` is two bytes) -/
example : qtyFmt { fill := some 42, align := some .center, plus := true, width := some 12, prec := some 1 }
    false [53, 46, 48] [181, 109] = [42, 42, 45, 53, 46, 48, 32, 181, 109, 42, 42, 42] := by decide

/-- KNOWN FINDING (kernel-checked witness): the decimal back-end clamps a precision above 18:
`{:.20}` of 0.1 shows 18 fractional digits -/
theorem dec_precision_clamped :
    (decAbsText (some 20) ⟨1, 1⟩).length = 20 ∧ decAbsText (some 20) ⟨1, 1⟩ = decAbsText (some 18) ⟨1, 1⟩ := by
  decide +kernel

end Qty.C15
