import QtyModel.F64Text
import QtyModel.Lemmas.Digits
import QtyModel.Lemmas.DecLaws
import QtyModel.Lemmas.F64Laws
/-
  C15 (binary64 back-end) — the amount text `F64.absText` computed by the model
  (`QtyModel/F64Text.lean`, validated line by line against `core::fmt::Display for f64` and
  `f64::from_str` of Rust 1.95 on more than 1.8 million doubles: zero differences):

  (a) shape: digits with at most one `.`; exactly `p` fractional digits for `{:.p}`;
  (b) `{:.p}` is correctly rounded: the text denotes a value within `½·10⁻ᵖ` of `|x|`;
  (c) `{}` round-trips: reading the text back (`F64.parseText`, correctly rounded) gives `|x|`;
  (d) bit-exact round trip of the SIGNED text for every canonical datum / every bit pattern;
  (e) the search never skips a grid on which a neighbour of `x` reads back as `x`;
  (f) `round` is monotone, hence `{}` prints THE shortest text: no decimal on a coarser grid
      and no decimal with fewer digits reads back as `x`, and on its grid the text is the
      closest one to `|x|` among those that read back.

  Everything is unconditional (no `_partial` statement is left).  The examples at the end are
  kernel evaluations on concrete values and are labelled as tests.
-/
namespace Qty.C15F64
open Qty Qty.Fmt Qty.Digits Qty.F64

/-! ### (a) shape -/

/-- a plain decimal text: a non-empty digit string, followed — iff `nf ≠ 0` — by `.` and
exactly `nf` digits -/
def Plain (t : Text) (nf : Nat) : Prop :=
  ∃ ip fp, ip ≠ [] ∧ ip.all Case.isDigit = true ∧ fp.all Case.isDigit = true ∧ fp.length = nf ∧
    t = if nf = 0 then ip else ip ++ 46 :: fp

theorem natDigits_plain (n : Nat) : Plain (natDigits n) 0 :=
  ⟨natDigits n, [], natDigits_ne_nil n, natDigits_all n, rfl, rfl, rfl⟩

theorem fixedText_plain (N p : Nat) : Plain (fixedText N p) p := by
  unfold fixedText
  by_cases hp : p = 0
  · subst hp
    simpa using natDigits_plain N
  · have hpp : 0 < p := Nat.pos_of_ne_zero hp
    refine ⟨natDigits (N / 10 ^ p), zeroPadLeft p (natDigits (N % 10 ^ p)), natDigits_ne_nil _,
      natDigits_all _, zeroPad_all _ _ (natDigits_all _),
      zeroPad_len _ _ (natDigits_len _ _ hpp (Nat.mod_lt _ (by positivity))), ?_⟩
    simp [hp]

theorem decText_plain (D : Nat) (k : Int) : Plain (decText D k) (-k).toNat := by
  unfold decText
  by_cases hk : k ≥ 0
  · have : (-k).toNat = 0 := by omega
    rw [if_pos hk, this]; exact natDigits_plain _
  · rw [if_neg hk]; exact fixedText_plain _ _

theorem digit_count_dot (l : Text) (h : l.all Case.isDigit = true) : l.count 46 = 0 := by
  rw [List.count_eq_zero]
  intro hm
  have := List.all_eq_true.mp h 46 hm
  simp [Case.isDigit] at this

/-- every character of a plain text is a digit or the point -/
theorem Plain.chars {t : Text} {nf : Nat} (h : Plain t nf) :
    ∀ c ∈ t, Case.isDigit c = true ∨ c = 46 := by
  obtain ⟨ip, fp, -, hi, hf, -, rfl⟩ := h
  intro c hc
  split at hc
  · exact Or.inl (List.all_eq_true.mp hi c hc)
  · rcases List.mem_append.mp hc with hc | hc
    · exact Or.inl (List.all_eq_true.mp hi c hc)
    · rcases List.mem_cons.mp hc with hc | hc
      · exact Or.inr hc
      · exact Or.inl (List.all_eq_true.mp hf c hc)

/-- a plain text has no point without fractional digits and exactly one otherwise -/
theorem Plain.dots {t : Text} {nf : Nat} (h : Plain t nf) :
    t.count 46 = if nf = 0 then 0 else 1 := by
  obtain ⟨ip, fp, -, hi, hf, -, rfl⟩ := h
  split
  · exact digit_count_dot ip hi
  · rw [List.count_append, List.count_cons, digit_count_dot ip hi, digit_count_dot fp hf]; simp

/-- the digits after the point: exactly `nf` -/
theorem Plain.frac {t : Text} {nf : Nat} (h : Plain t nf) (hnf : nf ≠ 0) :
    ((t.dropWhile (· != 46)).drop 1).length = nf ∧
      ((t.dropWhile (· != 46)).drop 1).all Case.isDigit = true := by
  obtain ⟨ip, fp, -, hi, hf, hl, rfl⟩ := h
  rw [if_neg hnf, dropWhile_split ip fp hi]
  exact ⟨hl, hf⟩

/-- a plain text starts with a digit -/
theorem Plain.head {t : Text} {nf : Nat} (h : Plain t nf) :
    ∃ c r, t = c :: r ∧ Case.isDigit c = true := by
  obtain ⟨ip, fp, hne, hi, -, -, rfl⟩ := h
  cases ip with
  | nil => exact absurd rfl hne
  | cons c r =>
    simp only [List.all_cons, Bool.and_eq_true] at hi
    split
    · exact ⟨c, r, rfl, hi.1⟩
    · exact ⟨c, r ++ 46 :: fp, rfl, hi.1⟩

/-- the text of a finite double is plain for every precision … -/
theorem absText_plain (prec : Option Nat) (s : Bool) (m : Nat) (e : Int) :
    ∃ nf, Plain (absText prec (.fin s m e)) nf ∧ ∀ p, prec = some p → nf = p := by
  cases prec with
  | some p => exact ⟨p, fixedText_plain _ _, fun q hq => (Option.some.inj hq)⟩
  | none =>
    by_cases hm : m = 0
    · refine ⟨0, ?_, fun p hp => by cases hp⟩
      simp only [absText, hm, if_true]
      exact ⟨[48], [], by simp, rfl, rfl, rfl, rfl⟩
    · refine ⟨(-(shortest m e).2).toNat, ?_, fun p hp => by cases hp⟩
      simp only [absText, hm, if_false]
      exact decText_plain _ _

/-- (a) SHAPE.  The text of `|x|` for a finite `x` consists of digits and at most one `.`;
it starts with a digit; with a precision `p` it has a `.` iff `p ≠ 0`, followed by exactly
`p` digits. -/
theorem absText_shape (prec : Option Nat) (s : Bool) (m : Nat) (e : Int) :
    (∀ c ∈ absText prec (.fin s m e), Case.isDigit c = true ∨ c = 46) ∧
    (absText prec (.fin s m e)).count 46 ≤ 1 ∧
    (∃ c r, absText prec (.fin s m e) = c :: r ∧ Case.isDigit c = true) ∧
    ∀ p, prec = some p →
      (absText prec (.fin s m e)).count 46 = (if p = 0 then 0 else 1) ∧
      (p ≠ 0 → (((absText prec (.fin s m e)).dropWhile (· != 46)).drop 1).length = p ∧
        (((absText prec (.fin s m e)).dropWhile (· != 46)).drop 1).all Case.isDigit = true) := by
  obtain ⟨nf, hpl, hnf⟩ := absText_plain prec s m e
  refine ⟨hpl.chars, ?_, hpl.head, ?_⟩
  · rw [hpl.dots]; split <;> omega
  · intro p hp
    have := hnf p hp
    subst this
    exact ⟨hpl.dots, hpl.frac⟩

/-- infinities and NaN ignore the precision -/
theorem absText_inf (prec : Option Nat) (s : Bool) : absText prec (.inf s) = infText := rfl
theorem absText_nan (prec : Option Nat) : absText prec .nan = nanText := rfl

/-! ### (b) `{:.p}` is correctly rounded -/

/-- the text `fixedText N p` denotes `N / 10^p` with exactly `p` fractional digits -/
theorem parse_fixedText (N p : Nat) :
    parseDecText (fixedText N p) = some ((N : ℚ) / 10 ^ p, p) := by
  unfold fixedText
  by_cases hp : p = 0
  · subst hp; rw [if_pos rfl, parse_nat]; simp
  · rw [if_neg hp, parse_fixed _ _ _ (Nat.pos_of_ne_zero hp) (Nat.mod_lt _ (by positivity)),
      Nat.div_add_mod', pow10_eq]
    simp

theorem absDen_pos (e : Int) : 0 < absDen e := by
  unfold absDen; split <;> positivity

/-- `absNum / absDen` is `m · 2^e` -/
theorem absNum_div_absDen (m : Nat) (e : Int) :
    ((absNum m e : ℕ) : ℚ) / ((absDen e : ℕ) : ℚ) = (m : ℚ) * 2 ^ e := by
  unfold absNum absDen
  split
  · next h =>
    obtain ⟨n, rfl⟩ := Int.eq_ofNat_of_zero_le h
    simp [zpow_natCast]
  · next h =>
    obtain ⟨n, hn⟩ := Int.eq_ofNat_of_zero_le (show 0 ≤ -e by omega)
    have he : e = -(n : ℤ) := by omega
    subst he
    rw [neg_neg, Int.toNat_natCast, zpow_neg, zpow_natCast]
    push_cast
    rw [div_eq_mul_inv]

/-- the rounded digits are within one half of `m · 2^e · 10^p` -/
theorem fixedDigits_bound (m : Nat) (e : Int) (p : Nat) :
    |((fixedDigits m e p : ℕ) : ℚ) - (m : ℚ) * 2 ^ e * 10 ^ p| ≤ 1 / 2 := by
  unfold fixedDigits
  have hB : (0 : ℤ) < ((absDen e : ℕ) : ℤ) := by exact_mod_cast absDen_pos e
  have h1 := rhe_bound ((absNum m e * 10 ^ p : ℕ) : ℤ) ((absDen e : ℕ) : ℤ) (ne_of_gt hB)
  have h2 := drhe_nonneg ((absNum m e * 10 ^ p : ℕ) : ℤ) ((absDen e : ℕ) : ℤ)
    (Int.natCast_nonneg _) hB
  generalize divRoundHalfEven ((absNum m e * 10 ^ p : ℕ) : ℤ) ((absDen e : ℕ) : ℤ) = R at h1 h2
  have hR : ((R.toNat : ℕ) : ℚ) = (R : ℚ) := by
    have : ((R.toNat : ℕ) : ℤ) = R := Int.toNat_of_nonneg h2
    exact_mod_cast congrArg (Int.cast (R := ℚ)) this
  rw [hR]
  have e2 : (((absNum m e * 10 ^ p : ℕ) : ℤ) : ℚ) / (((absDen e : ℕ) : ℤ) : ℚ)
      = (m : ℚ) * 2 ^ e * 10 ^ p := by
    rw [← absNum_div_absDen]; push_cast; ring
  rwa [e2] at h1

/-- (b) CORRECT ROUNDING.  With a precision `p` the text of `fin s m e` is a decimal with exactly
`p` fractional digits whose value differs from `|x| = m · 2^e` by at most `½·10⁻ᵖ`. -/
theorem absText_prec_correct (s : Bool) (m : Nat) (e : Int) (p : Nat) :
    ∃ v, parseDecText (absText (some p) (.fin s m e)) = some (v, p) ∧
      |v - (m : ℚ) * 2 ^ e| ≤ 1 / (2 * (10 : ℚ) ^ p) := by
  refine ⟨_, parse_fixedText _ _, ?_⟩
  have hb := fixedDigits_bound m e p
  have hp : (0 : ℚ) < 10 ^ p := by positivity
  have e1 : ((fixedDigits m e p : ℕ) : ℚ) / 10 ^ p - (m : ℚ) * 2 ^ e
      = (((fixedDigits m e p : ℕ) : ℚ) - (m : ℚ) * 2 ^ e * 10 ^ p) / 10 ^ p := by
    field_simp
  rw [e1, abs_div, abs_of_pos hp, div_le_div_iff₀ hp (by positivity)]
  nlinarith [hb, hp]

/-- `|x|` of a finite well-formed datum -/
theorem abs_tr (s : Bool) (m : Nat) (e : Int) : |tr s m e| = (m : ℚ) * 2 ^ e := by
  unfold tr
  rw [abs_mul, abs_mul, abs_of_pos (P_pos e), Nat.abs_cast]
  split <;> simp

/-- (b) in terms of the value of the datum: for every finite well-formed `x` with value `q` -/
theorem absText_prec_correct_val (x : F64) (q : ℚ) (hx : x.val = some q) (p : Nat) :
    ∃ v, parseDecText (absText (some p) x) = some (v, p) ∧ |v - abs q| ≤ 1 / (2 * (10 : ℚ) ^ p) := by
  obtain ⟨s, m, e, rfl, -, -, -, rfl⟩ := val_some hx
  rw [abs_tr]
  exact absText_prec_correct s m e p

/-! ### (c) `{}` round-trips -/

/-- on a plain text `parseText` is the correctly rounded value of the decimal -/
theorem parseText_plain {t : Text} {nf : Nat} (h : Plain t nf) :
    parseText t = (parseDecText t).map (fun r => round r.1 false) := by
  obtain ⟨c, r, rfl, hc⟩ := h.head
  have h1 : c ≠ 105 := by intro e; subst e; simp [Case.isDigit] at hc
  have h2 : c ≠ 45 := by intro e; subst e; simp [Case.isDigit] at hc
  have h3 : c ≠ 78 := by intro e; subst e; simp [Case.isDigit] at hc
  have h4 : (c == 45) = false := by simpa using h2
  unfold parseText infText nanText
  simp [h1, h2, h3, h4]

/-- the text `decText D k` denotes `D · 10^k` -/
theorem parse_decText (D : Nat) (k : Int) :
    parseDecText (decText D k) = some (decVal D k, (-k).toNat) := by
  unfold decText decVal
  by_cases hk : k ≥ 0
  · have : (-k).toNat = 0 := by omega
    rw [if_pos hk, if_pos hk, this, parse_nat]
  · rw [if_neg hk, if_neg hk, parse_fixedText, pow10_eq]
    simp

/-- reading the text of `D · 10^k` back is rounding `D · 10^k` -/
theorem parseText_decText (D : Nat) (k : Int) :
    parseText (decText D k) = some (round (decVal D k) false) := by
  rw [parseText_plain (decText_plain D k), parse_decText]; rfl

/-- the search only returns digits that read back as the target (or the exact digits) -/
theorem shortAux_ok (tgt : F64) (A B : Nat) (ex : Nat × Int)
    (hex : round (decVal ex.1 ex.2) false = tgt) : ∀ (fuel : Nat) (k : Int),
    round (decVal (shortAux tgt A B ex fuel k).1 (shortAux tgt A B ex fuel k).2) false = tgt := by
  intro fuel
  induction fuel with
  | zero => intro k; exact hex
  | succ fuel ih =>
    intro k
    unfold shortAux
    dsimp only
    split_ifs with h1 h2 h3 h4
    · simp only [Bool.and_eq_true, decide_eq_true_eq] at h1; exact h1.1
    · simp only [Bool.and_eq_true, decide_eq_true_eq] at h1; exact h1.2
    · exact of_decide_eq_true h3
    · exact of_decide_eq_true h4
    · exact ih _

/-- the exact digits denote `m · 2^e` -/
theorem decVal_exactDigits (m : Nat) (e : Int) :
    decVal (exactDigits m e).1 (exactDigits m e).2 = (m : ℚ) * 2 ^ e := by
  unfold exactDigits
  split
  · next h =>
    obtain ⟨n, rfl⟩ := Int.eq_ofNat_of_zero_le h
    simp [decVal, zpow_natCast]
  · next h =>
    obtain ⟨n, hn⟩ := Int.eq_ofNat_of_zero_le (show 0 ≤ -e by omega)
    have he : e = -(n : ℤ) := by omega
    subst he
    have hneg : ¬ (-(n : ℤ) ≥ 0) := h
    simp only [decVal, hneg, if_false, neg_neg, Int.toNat_natCast, pow10_eq, zpow_neg,
      zpow_natCast]
    push_cast
    have : (10 : ℚ) ^ n = 2 ^ n * 5 ^ n := by rw [← mul_pow]; norm_num
    rw [this]
    field_simp

theorem canon_eq (m : Nat) (e : Int) : canon m e = round ((m : ℚ) * 2 ^ e) false := by
  unfold canon; rw [pow2_eq]; simp

/-- the shortest digits read back as the canonical datum of `m · 2^e` -/
theorem shortest_ok (m : Nat) (e : Int) :
    round (decVal (shortest m e).1 (shortest m e).2) false = canon m e := by
  unfold shortest
  exact shortAux_ok _ _ _ _ (by rw [decVal_exactDigits, canon_eq]) _ _

/-- reading the shortest text back gives the canonical datum of `|x|` (for ANY `m`, `e`) -/
theorem parseText_absText_none (s : Bool) (m : Nat) (e : Int) :
    parseText (absText none (.fin s m e)) = some (round ((m : ℚ) * 2 ^ e) false) := by
  by_cases hm : m = 0
  · subst hm
    have : absText none (.fin s 0 e) = natDigits 0 := by simp [absText, natDigits]
    rw [this, parseText_plain (natDigits_plain 0), parse_nat]
    simp
  · have : absText none (.fin s m e) = decText (shortest m e).1 (shortest m e).2 := by
      simp [absText, hm]
    rw [this, parseText_decText, shortest_ok, canon_eq]

/-- (c) ROUND TRIP.  For every finite well-formed `x` with value `q`, the text printed without
a precision reads back (correctly rounded, as `f64::from_str` does) as a double whose value is
exactly `|q|` — namely the canonical datum `round |q|` of `|x|`. -/
theorem absText_none_roundtrip (x : F64) (q : ℚ) (hx : x.val = some q) :
    ∃ y, parseText (absText none x) = some y ∧ y.val = some |q| ∧ y = round |q| false := by
  obtain ⟨s, m, e, rfl, hm, h1, h2, rfl⟩ := val_some hx
  refine ⟨_, parseText_absText_none s m e, ?_, by rw [abs_tr]⟩
  have := round_exact' false m e false hm h1 h2
  rw [abs_tr]
  simpa [tr] using this

/-! ### (d) bit-exact round trip of the signed text for canonical data -/

/-- the canonical representation of binary64 values (what `ofBits` and `round` produce):
subnormals and zeros as `m · 2^-1074` with `m < 2^52`, normal numbers with `2^52 ≤ m < 2^53` -/
def Canonical : F64 → Prop
  | .fin _ m e => (m < two52 ∧ e = eMin) ∨ (two52 ≤ m ∧ m < two53 ∧ eMin ≤ e ∧ e ≤ eMax)
  | _ => True

theorem ofBits_canonical (b : Nat) : Canonical (ofBits b) := by
  unfold ofBits
  dsimp only
  have hf : b / two52 % 2048 < 2048 := Nat.mod_lt _ (by norm_num)
  have hm : b % two52 < two52 := Nat.mod_lt _ (by norm_num [two52])
  generalize b / two52 % 2048 = f at hf ⊢
  generalize b % two52 = m at hm ⊢
  have h52 : two52 = 4503599627370496 := by norm_num [two52]
  have h53 : two53 = 9007199254740992 := by norm_num [two53]
  split_ifs with h1 h2 h3
  · exact Or.inl ⟨hm, rfl⟩
  · trivial
  · trivial
  · refine Or.inr ⟨by omega, by omega, ?_, ?_⟩ <;> simp only [eMin, eMax] <;> omega

/-- the exponent `round` chooses for a canonical magnitude is the stored one -/
theorem rexp_canonical (m : ℕ) (e : ℤ) (hm0 : m ≠ 0) (hm : m < two53) (h1 : eMin ≤ e)
    (h2 : e ≤ eMax) (hc : e = eMin ∨ two52 ≤ m) : rexp ((m : ℚ) * 2 ^ e) = e := by
  have hmq : (0 : ℚ) < m := by exact_mod_cast Nat.pos_of_ne_zero hm0
  have ha : (0 : ℚ) < (m : ℚ) * 2 ^ e := mul_pos hmq (P_pos e)
  have hMq : (m : ℚ) < 2 ^ (53 : ℤ) := by rw [← two53_cast]; exact_mod_cast hm
  have hltE : (m : ℚ) * 2 ^ e < 2 ^ (53 + e) := by
    rw [P_add]; exact mul_lt_mul_of_pos_right hMq (P_pos e)
  have hlt : (m : ℚ) * 2 ^ e < 2 ^ (1024 : ℤ) :=
    lt_of_lt_of_le hltE (P_le (by unfold eMax at h2; omega))
  obtain ⟨r1, -, r3, r4, -⟩ := rexp_spec _ ha hlt
  generalize rexp ((m : ℚ) * 2 ^ e) = r at *
  have up : r ≤ e := by
    rcases r4 with r4 | r4
    · unfold eMin at h1; omega
    · have := P_lt_iff.mp (lt_of_le_of_lt r4 hltE); omega
  have lo : e ≤ r := by
    rcases hc with hc | hc
    · unfold eMin at hc; omega
    · have h52 : (2 : ℚ) ^ (52 : ℤ) ≤ m := by rw [← two52_cast]; exact_mod_cast hc
      have h3 : (m : ℚ) * 2 ^ e < 2 ^ (53 + r) := by
        rw [div_lt_iff₀ (P_pos r)] at r3; rw [P_add]; exact r3
      have h4 : (2 : ℚ) ^ (52 + e) ≤ m * 2 ^ e := by
        rw [P_add]; exact mul_le_mul_of_nonneg_right h52 (le_of_lt (P_pos e))
      have := P_lt_iff.mp (lt_of_le_of_lt h4 h3); omega
  omega

theorem decide_tr_neg (s : Bool) (m : ℕ) (e : ℤ) (hm0 : m ≠ 0) : decide (tr s m e < 0) = s := by
  have hmq : (0 : ℚ) < m := by exact_mod_cast Nat.pos_of_ne_zero hm0
  have ha : (0 : ℚ) < (m : ℚ) * 2 ^ e := mul_pos hmq (P_pos e)
  unfold tr
  cases s
  · simp only [Bool.false_eq_true, if_false, one_mul, decide_eq_false_iff_not, not_lt]
    exact le_of_lt ha
  · simp only [if_true, decide_eq_true_eq]
    linarith

/-- rounding the value of a canonical datum (zero sign = its sign) gives back the datum -/
theorem round_canonical (s : Bool) (m : ℕ) (e : ℤ) (hc : Canonical (.fin s m e)) :
    round (tr s m e) s = .fin s m e := by
  have h52 : two52 = 4503599627370496 := by norm_num [two52]
  have h53 : two53 = 9007199254740992 := by norm_num [two53]
  obtain ⟨hm, h1, h2, hc'⟩ : m < two53 ∧ eMin ≤ e ∧ e ≤ eMax ∧ (e = eMin ∨ two52 ≤ m) := by
    rcases hc with ⟨a, b⟩ | ⟨a, b, c, d⟩
    · subst b; exact ⟨by omega, le_refl _, by decide, Or.inl rfl⟩
    · exact ⟨b, c, d, Or.inr a⟩
  by_cases hm0 : m = 0
  · subst hm0
    have he : e = eMin := by
      rcases hc' with h | h
      · exact h
      · omega
    subst he
    have : tr s 0 eMin = 0 := by simp [tr]
    rw [this]; unfold round; simp
  · have hq : tr s m e ≠ 0 := fun h => hm0 (tr_eq_zero.mp h)
    rw [round_unfold _ _ hq, abs_tr, rexp_canonical m e hm0 hm h1 h2 hc']
    have : (m : ℚ) * 2 ^ e / 2 ^ e = m := by
      have := P_pos e
      field_simp
    rw [this, rne_nat, decide_tr_neg s m e hm0]
    have hne : m ≠ two53 := by omega
    have hgt : ¬ e > eMax := by omega
    simp [hne, hgt]

/-- `round` commutes with negation (the zero sign flips as well) -/
theorem round_neg (q : ℚ) (b : Bool) : round (-q) (!b) = neg (round q b) := by
  by_cases hq : q = 0
  · subst hq; unfold round; simp [neg]
  · have hq' : -q ≠ 0 := neg_ne_zero.mpr hq
    have hd : decide (-q < 0) = !decide (q < 0) := by
      rcases lt_or_gt_of_ne hq with h | h
      · have h1 : ¬ (-q < 0) := by linarith
        simp [h, h1]
      · have h1 : -q < 0 := by linarith
        have h2 : ¬ q < 0 := by linarith
        simp [h1, h2]
    rw [round_unfold _ _ hq', round_unfold _ _ hq, abs_neg, hd]
    split_ifs <;> rfl

/-- the sign in front of a plain text negates the value -/
theorem parseDecText_minus {t : Text} {nf : Nat} (h : Plain t nf) :
    parseDecText (45 :: t) = (parseDecText t).map (fun r => (-r.1, r.2)) := by
  obtain ⟨c, r, rfl, hc⟩ := h.head
  have hns : stripSign (c :: r) = (false, c :: r) :=
    stripSign_nosign _ (fun r' e => digit_ne_minus hc (List.cons.inj e).1)
  rw [parse_eq, parse_eq (c :: r), stripSign_minus, hns]
  cases splitDigits (c :: r) <;> simp

theorem parseText_minus {t : Text} {nf : Nat} (h : Plain t nf) :
    parseText (45 :: t) = (parseDecText t).map (fun r => round (-r.1) true) := by
  obtain ⟨c, r, rfl, hc⟩ := h.head
  have h1 : c ≠ 105 := by intro e; subst e; simp [Case.isDigit] at hc
  have := parseDecText_minus h
  unfold parseText infText nanText
  rw [this]
  cases parseDecText (c :: r) <;> simp [h1]

/-- (d) BIT-EXACT ROUND TRIP of the signed text printed without a precision: every canonical
datum — in particular everything `ofBits` produces: zeros of both signs, subnormals, normal
numbers, infinities, NaN — reads back as itself. -/
theorem text_none_roundtrip (x : F64) (hc : Canonical x) : parseText (text none x) = some x := by
  cases x with
  | nan => decide
  | inf s => cases s <;> decide
  | fin s m e =>
    obtain ⟨nf, hpl, -⟩ := absText_plain none s m e
    have hcan : Canonical (.fin false m e) := hc
    have hr := round_canonical false m e hcan
    have htr : tr false m e = (m : ℚ) * 2 ^ e := by simp [tr]
    rw [htr] at hr
    cases s with
    | false =>
      have : text none (.fin false m e) = absText none (.fin false m e) := by
        simp [text, signBit]
      rw [this, parseText_absText_none, hr]
    | true =>
      have : text none (.fin true m e) = 45 :: absText none (.fin true m e) := by
        simp [text, signBit]
      have hp := parseText_absText_none true m e
      rw [parseText_plain hpl] at hp
      rw [this, parseText_minus hpl]
      cases hd : parseDecText (absText none (.fin true m e)) with
      | none => rw [hd] at hp; simp at hp
      | some r =>
        rw [hd] at hp
        simp only [Option.map_some, Option.some.injEq] at hp ⊢
        have := round_neg r.1 false
        simp only [Bool.not_false] at this
        rw [this, hp, hr]; rfl

/-- every bit pattern: print without a precision, read back, same datum -/
theorem text_none_roundtrip_bits (b : Nat) :
    parseText (text none (ofBits b)) = some (ofBits b) :=
  text_none_roundtrip _ (ofBits_canonical b)

/-! ### (e) the search does not skip a coarser grid -/

/-- the lower neighbour `⌊x / 10^k⌋` of `x = A / B` on the grid `10^k` -/
def gridLo (A B : Nat) (k : Int) : Nat := A * 10 ^ (-k).toNat / (B * 10 ^ k.toNat)

/-- on every grid coarser than the one returned (and not coarser than the first one tried)
neither neighbour of `x` reads back as the target -/
theorem shortAux_minimal (tgt : F64) (A B : Nat) (ex : Nat × Int) : ∀ (fuel : Nat) (k0 : Int),
    k0 - fuel ≤ ex.2 → ∀ k', (shortAux tgt A B ex fuel k0).2 < k' → k' ≤ k0 →
      round (decVal (gridLo A B k') k') false ≠ tgt ∧
      round (decVal (gridLo A B k' + 1) k') false ≠ tgt := by
  intro fuel
  induction fuel with
  | zero =>
    intro k0 hex k' h1 h2
    simp only [shortAux] at h1
    simp only [Nat.cast_zero, sub_zero] at hex
    omega
  | succ fuel ih =>
    intro k0 hex k' h1 h2
    unfold shortAux at h1
    dsimp only at h1
    split_ifs at h1 with c1 c2 c3 c4
    · simp only at h1; omega
    · simp only at h1; omega
    · simp only at h1; omega
    · simp only at h1; omega
    · by_cases hk : k' = k0
      · subst hk
        exact ⟨fun h => c3 (decide_eq_true h), fun h => c4 (decide_eq_true h)⟩
      · exact ih (k0 - 1) (by push_cast at hex; omega) k' h1 (by omega)

/-- (e) for `(D, k) = shortest m e` and every grid `10^k'` with `k < k' ≤ startExp m e`, neither
neighbour of `m · 2^e` on that grid reads back as (the canonical datum of) `m · 2^e` -/
theorem shortest_minimal (m : Nat) (e : Int) (k' : Int) (h1 : (shortest m e).2 < k')
    (h2 : k' ≤ startExp m e) :
    round (decVal (gridLo (absNum m e) (absDen e) k') k') false ≠ canon m e ∧
    round (decVal (gridLo (absNum m e) (absDen e) k' + 1) k') false ≠ canon m e := by
  unfold shortest at h1
  refine shortAux_minimal _ _ _ _ _ _ ?_ k' h1 h2
  unfold exactDigits
  split <;> simp only <;> omega


/-! ### (f) monotonicity of `round`; the text is the shortest one that round-trips -/

/-- canonical mantissa/exponent pairs -/
def CanonME (m : ℕ) (e : ℤ) : Prop := m < two53 ∧ eMin ≤ e ∧ e ≤ eMax ∧ (e = eMin ∨ two52 ≤ m)

theorem canonME_inj {m1 m2 : ℕ} {e1 e2 : ℤ} (h1 : CanonME m1 e1) (h2 : CanonME m2 e2)
    (hv : (m1 : ℚ) * 2 ^ e1 = (m2 : ℚ) * 2 ^ e2) : m1 = m2 ∧ e1 = e2 := by
  have key : ∀ {m1 m2 : ℕ} {e1 e2 : ℤ}, CanonME m1 e1 → CanonME m2 e2 →
      (m1 : ℚ) * 2 ^ e1 = (m2 : ℚ) * 2 ^ e2 → e1 ≤ e2 → m1 = m2 ∧ e1 = e2 := by
    intro m1 m2 e1 e2 h1 h2 hv hle
    rcases lt_or_eq_of_le hle with hlt | heq
    · exfalso
      obtain ⟨a1, b1, c1, d1⟩ := h1
      obtain ⟨a2, b2, c2, d2⟩ := h2
      have hm2 : two52 ≤ m2 := by
        rcases d2 with d | d
        · omega
        · exact d
      have k1 : (m1 : ℚ) < 2 ^ (53 : ℤ) := by rw [← two53_cast]; exact_mod_cast a1
      have k2 : (2 : ℚ) ^ (52 : ℤ) ≤ m2 := by rw [← two52_cast]; exact_mod_cast hm2
      have l1 : (m1 : ℚ) * 2 ^ e1 < 2 ^ (53 + e1) := by
        rw [P_add]; exact mul_lt_mul_of_pos_right k1 (P_pos _)
      have l2 : (2 : ℚ) ^ (52 + e2) ≤ m2 * 2 ^ e2 := by
        rw [P_add]; exact mul_le_mul_of_nonneg_right k2 (le_of_lt (P_pos _))
      have l3 : (2 : ℚ) ^ (53 + e1) ≤ 2 ^ (52 + e2) := P_le (by omega)
      linarith
    · subst heq
      have := mul_right_cancel₀ (ne_of_gt (P_pos e1)) hv
      exact ⟨by exact_mod_cast this, rfl⟩
  rcases le_total e1 e2 with h | h
  · exact key h1 h2 hv h
  · obtain ⟨a, b⟩ := key h2 h1 hv.symm h; exact ⟨a.symm, b.symm⟩

/-- the unbounded rounding `rhe(q / 2^rexp q) · 2^rexp q` of a positive rational -/
def V (q : ℚ) : ℚ := (roundHalfEvenRat (q / 2 ^ rexp q) : ℚ) * 2 ^ rexp q

theorem rne_mono {x y : ℚ} (hx : 0 ≤ x) (hxy : x ≤ y) :
    roundHalfEvenRat x ≤ roundHalfEvenRat y := by
  by_contra hlt
  rw [not_le] at hlt
  have h1 := (abs_le.mp (rne_spec x hx)).2
  have h2 := (abs_le.mp (rne_spec y (le_trans hx hxy))).1
  have h3 : (roundHalfEvenRat y : ℚ) + 1 ≤ roundHalfEvenRat x := by exact_mod_cast hlt
  have : x = y := by linarith
  subst this; exact lt_irrefl _ hlt

theorem floorLog2_mono {a b : ℚ} (ha : 0 < a) (hab : a ≤ b) : floorLog2 a ≤ floorLog2 b := by
  obtain ⟨h1, -⟩ := floorLog2_spec a ha
  obtain ⟨-, h2⟩ := floorLog2_spec b (lt_of_lt_of_le ha hab)
  have := P_lt_iff.mp (lt_of_le_of_lt (le_trans h1 hab) h2); omega

theorem rexp_mono {a b : ℚ} (ha : 0 < a) (hab : a ≤ b) : rexp a ≤ rexp b := by
  have := floorLog2_mono ha hab
  simp only [rexp, eMin]; split_ifs <;> omega

theorem rne_ge_two52 (q : ℚ) (hq : 0 < q) (hlt : q < 2 ^ (1024 : ℤ)) (hne : rexp q ≠ -1074) :
    two52 ≤ roundHalfEvenRat (q / 2 ^ rexp q) := by
  obtain ⟨-, -, -, r4, -⟩ := rexp_spec q hq hlt
  have h4 : (2 : ℚ) ^ (rexp q + 52) ≤ q := by
    rcases r4 with h | h
    · exact absurd h hne
    · exact h
  have h5 : ((two52 : ℕ) : ℚ) ≤ q / 2 ^ rexp q := by
    rw [two52_cast, le_div_iff₀ (P_pos _), ← P_add, add_comm]; exact h4
  have := rne_mono (Nat.cast_nonneg _) h5
  rwa [rne_nat] at this

theorem round_pos_cases (q : ℚ) (b : Bool) (hq : 0 < q) (hlt : q < 2 ^ (1024 : ℤ)) :
    (round q b = .inf false ∧ (2 : ℚ) ^ (1024 : ℤ) ≤ V q) ∨
    (∃ m e, round q b = .fin false m e ∧ CanonME m e ∧ (m : ℚ) * 2 ^ e = V q ∧
      V q < 2 ^ (1024 : ℤ)) := by
  have hq0 : q ≠ 0 := ne_of_gt hq
  have habs : |q| = q := abs_of_pos hq
  have hneg : decide (q < 0) = false := by simp [le_of_lt hq]
  obtain ⟨r1, r2, r3, -, -⟩ := rexp_spec q hq hlt
  have hx0 : 0 ≤ q / 2 ^ rexp q := div_nonneg (le_of_lt hq) (le_of_lt (P_pos _))
  have hm := rne_le_two53 _ hx0 r3
  have hm52 := rne_ge_two52 q hq hlt
  rw [round_unfold q b hq0, habs, hneg]
  unfold V
  generalize rexp q = e at *
  generalize roundHalfEvenRat (q / 2 ^ e) = m at *
  by_cases hm2 : m = two53
  · subst hm2
    by_cases he : e + 1 > eMax
    · left
      refine ⟨by simp [he], ?_⟩
      have : e = 971 := by unfold eMax at he; omega
      subst this; rw [two53_cast, ← P_add]; norm_num
    · right
      refine ⟨two52, e + 1, by simp [he], ⟨by decide, by unfold eMin; omega,
        by unfold eMax at he ⊢; omega, Or.inr (le_refl _)⟩, ?_, ?_⟩
      · rw [two52_cast, two53_cast, ← P_add, ← P_add]; congr 1; ring
      · rw [two53_cast, ← P_add]; exact P_lt (by unfold eMax at he; omega)
  · have hlt53 : m < two53 := lt_of_le_of_ne hm hm2
    have he : ¬ e > eMax := by unfold eMax; omega
    right
    refine ⟨m, e, by simp [hm2, he], ⟨hlt53, by unfold eMin; omega, by unfold eMax; omega, ?_⟩,
      rfl, ?_⟩
    · by_cases h : e = -1074
      · left; exact h
      · right; exact hm52 h
    · have : (m : ℚ) < 2 ^ (53 : ℤ) := by rw [← two53_cast]; exact_mod_cast hlt53
      calc (m : ℚ) * 2 ^ e < 2 ^ (53 : ℤ) * 2 ^ e := mul_lt_mul_of_pos_right this (P_pos e)
        _ = 2 ^ (53 + e) := (P_add _ _).symm
        _ ≤ 2 ^ (1024 : ℤ) := P_le (by omega)

theorem V_mono {a b : ℚ} (ha : 0 < a) (hab : a ≤ b) (hb : b < 2 ^ (1024 : ℤ)) : V a ≤ V b := by
  have hb0 := lt_of_lt_of_le ha hab
  have hle := rexp_mono ha hab
  obtain ⟨a1, -, a3, -, -⟩ := rexp_spec a ha (lt_of_le_of_lt hab hb)
  have hxa0 : 0 ≤ a / 2 ^ rexp a := div_nonneg (le_of_lt ha) (le_of_lt (P_pos _))
  unfold V
  rcases lt_or_eq_of_le hle with hlt | heq
  · have hma := rne_le_two53 _ hxa0 a3
    have hmb := rne_ge_two52 b hb0 hb (by omega)
    have k1 : (roundHalfEvenRat (a / 2 ^ rexp a) : ℚ) ≤ 2 ^ (53 : ℤ) := by
      rw [← two53_cast]; exact_mod_cast hma
    have k2 : (2 : ℚ) ^ (52 : ℤ) ≤ roundHalfEvenRat (b / 2 ^ rexp b) := by
      rw [← two52_cast]; exact_mod_cast hmb
    calc (roundHalfEvenRat (a / 2 ^ rexp a) : ℚ) * 2 ^ rexp a
        ≤ 2 ^ (53 : ℤ) * 2 ^ rexp a := mul_le_mul_of_nonneg_right k1 (le_of_lt (P_pos _))
      _ = 2 ^ (53 + rexp a) := (P_add _ _).symm
      _ ≤ 2 ^ (52 + rexp b) := P_le (by omega)
      _ = 2 ^ (52 : ℤ) * 2 ^ rexp b := P_add _ _
      _ ≤ roundHalfEvenRat (b / 2 ^ rexp b) * 2 ^ rexp b :=
        mul_le_mul_of_nonneg_right k2 (le_of_lt (P_pos _))
  · rw [heq]
    apply mul_le_mul_of_nonneg_right _ (le_of_lt (P_pos _))
    rw [heq] at hxa0
    exact_mod_cast rne_mono hxa0 (div_le_div_of_nonneg_right hab (le_of_lt (P_pos _)))

/-- `round` is monotone: between two positive rationals with the same rounding everything
rounds the same way -/
theorem round_sandwich {a b c : ℚ} (z : Bool) (ha : 0 < a) (hab : a ≤ b) (hbc : b ≤ c)
    (hc : c < 2 ^ (1024 : ℤ)) (h : round a z = round c z) : round b z = round a z := by
  have hb0 := lt_of_lt_of_le ha hab
  have hb : b < 2 ^ (1024 : ℤ) := lt_of_le_of_lt hbc hc
  have m1 := V_mono ha hab hb
  have m2 := V_mono hb0 hbc hc
  rcases round_pos_cases a z ha (lt_of_le_of_lt hab hb) with ⟨ra, va⟩ | ⟨ma, ea, ra, ca, va, va'⟩
  · rcases round_pos_cases b z hb0 hb with ⟨rb, vb⟩ | ⟨mb, eb, rb, cb, vb, vb'⟩
    · rw [ra, rb]
    · exfalso; linarith
  · rcases round_pos_cases c z (lt_of_lt_of_le hb0 hbc) hc with ⟨rc, vc⟩ | ⟨mc, ec, rc, cc, vc, vc'⟩
    · rw [ra, rc] at h; cases h
    · rw [ra, rc] at h
      injection h with _ hm he
      subst hm; subst he
      have hv : V b = V a := le_antisymm (by rw [← va, vc]; exact m2) m1
      rcases round_pos_cases b z hb0 hb with ⟨rb, vb⟩ | ⟨mb, eb, rb, cb, vb, vb'⟩
      · exfalso; linarith
      · obtain ⟨e1, e2⟩ := canonME_inj cb ca (by rw [vb, va, hv])
        rw [ra, rb, e1, e2]

theorem round_big (q : ℚ) (b : Bool) (h : (2 : ℚ) ^ (1024 : ℤ) ≤ q) : round q b = .inf false := by
  have hq : 0 < q := lt_of_lt_of_le (P_pos _) h
  obtain ⟨-, h2⟩ := floorLog2_spec q hq
  have hfl := P_lt_iff.mp (lt_of_le_of_lt h h2)
  have hr : rexp |q| = floorLog2 q - 52 := by
    rw [abs_of_pos hq]; simp only [rexp, eMin]; split_ifs <;> omega
  have hneg : decide (q < 0) = false := by simp [le_of_lt hq]
  rw [round_unfold q b (ne_of_gt hq), hr, hneg]
  have e1 : floorLog2 q - 52 + 1 > eMax := by unfold eMax; omega
  have e2 : floorLog2 q - 52 > eMax := by unfold eMax; omega
  simp [e1, e2]

theorem decVal_eq (D : ℕ) (k : ℤ) : decVal D k = (D : ℚ) * 10 ^ k := by
  unfold decVal
  split
  · next h =>
    obtain ⟨n, rfl⟩ := Int.eq_ofNat_of_zero_le h
    simp [zpow_natCast]
  · next h =>
    obtain ⟨n, hn⟩ := Int.eq_ofNat_of_zero_le (show 0 ≤ -k by omega)
    have he : k = -(n : ℤ) := by omega
    subst he
    rw [neg_neg, Int.toNat_natCast, pow10_eq, zpow_neg, zpow_natCast, div_eq_mul_inv]
    simp

theorem ten_zpow_split (k : ℤ) : (10 : ℚ) ^ k = 10 ^ k.toNat / 10 ^ (-k).toNat := by
  rcases le_total 0 k with h | h
  · obtain ⟨n, rfl⟩ := Int.eq_ofNat_of_zero_le h
    have : (-(n : ℤ)).toNat = 0 := by omega
    simp [this, zpow_natCast]
  · obtain ⟨n, hn⟩ := Int.eq_ofNat_of_zero_le (show 0 ≤ -k by omega)
    have he : k = -(n : ℤ) := by omega
    subst he
    have : (-(n : ℤ)).toNat = 0 := by omega
    simp [this, zpow_neg, zpow_natCast]

/-- `gridLo` is the floor of `x / 10^k`: `x = A / B` lies between the two neighbours -/
theorem gridLo_spec (A B : ℕ) (hB : 0 < B) (k : ℤ) :
    decVal (gridLo A B k) k ≤ (A : ℚ) / B ∧ (A : ℚ) / B < decVal (gridLo A B k + 1) k := by
  rw [decVal_eq, decVal_eq, ten_zpow_split k]
  unfold gridLo
  have hden : 0 < B * 10 ^ k.toNat := by positivity
  have h1 := Nat.div_mul_le_self (A * 10 ^ (-k).toNat) (B * 10 ^ k.toNat)
  have h2 := Nat.lt_mul_div_succ (A * 10 ^ (-k).toNat) hden
  generalize A * 10 ^ (-k).toNat / (B * 10 ^ k.toNat) = L at h1 h2 ⊢
  have h1q : (L : ℚ) * (B * 10 ^ k.toNat) ≤ A * 10 ^ (-k).toNat := by exact_mod_cast h1
  have h2q : (A : ℚ) * 10 ^ (-k).toNat < B * 10 ^ k.toNat * (L + 1) := by exact_mod_cast h2
  have hBq : (0 : ℚ) < B := by exact_mod_cast hB
  have ha : (0 : ℚ) < 10 ^ (-k).toNat := by positivity
  have hb : (0 : ℚ) < 10 ^ k.toNat := by positivity
  constructor
  · rw [← mul_div_assoc, div_le_div_iff₀ ha hBq]
    nlinarith
  · push_cast
    rw [← mul_div_assoc, div_lt_div_iff₀ hBq ha]
    nlinarith

theorem decVal_mono {D1 D2 : ℕ} (h : D1 ≤ D2) (k : ℤ) : decVal D1 k ≤ decVal D2 k := by
  rw [decVal_eq, decVal_eq]
  exact mul_le_mul_of_nonneg_right (by exact_mod_cast h) (le_of_lt (zpow_pos (by norm_num) k))

theorem decVal_nonneg (D : ℕ) (k : ℤ) : 0 ≤ decVal D k := by
  rw [decVal_eq]
  exact mul_nonneg (Nat.cast_nonneg _) (le_of_lt (zpow_pos (by norm_num) k))

/-- the canonical datum of a well-formed magnitude has exactly that value -/
theorem canon_val (m : ℕ) (e : ℤ) (hm : m < two53) (h1 : eMin ≤ e) (h2 : e ≤ eMax) :
    val (canon m e) = some ((m : ℚ) * 2 ^ e) := by
  have := round_exact' false m e false hm h1 h2
  rw [canon_eq]
  simpa [tr] using this

theorem wf_lt (m : ℕ) (e : ℤ) (hm : m < two53) (h2 : e ≤ eMax) :
    (m : ℚ) * 2 ^ e < 2 ^ (1024 : ℤ) := by
  have k1 : (m : ℚ) < 2 ^ (53 : ℤ) := by rw [← two53_cast]; exact_mod_cast hm
  calc (m : ℚ) * 2 ^ e < 2 ^ (53 : ℤ) * 2 ^ e := mul_lt_mul_of_pos_right k1 (P_pos e)
    _ = 2 ^ (53 + e) := (P_add _ _).symm
    _ ≤ 2 ^ (1024 : ℤ) := P_le (by unfold eMax at h2; omega)

/-- if ANY decimal on the grid `10^k'` reads back as `x = m · 2^e`, then so does one of the two
neighbours of `x` on that grid (the ones the search looks at) -/
theorem grid_neighbour (m : ℕ) (e : ℤ) (hm0 : m ≠ 0) (hm : m < two53) (h1 : eMin ≤ e)
    (h2 : e ≤ eMax) (D' : ℕ) (k' : ℤ) (h : round (decVal D' k') false = canon m e) :
    round (decVal (gridLo (absNum m e) (absDen e) k') k') false = canon m e ∨
    round (decVal (gridLo (absNum m e) (absDen e) k' + 1) k') false = canon m e := by
  have hmq : (0 : ℚ) < m := by exact_mod_cast Nat.pos_of_ne_zero hm0
  have hx : (0 : ℚ) < (m : ℚ) * 2 ^ e := mul_pos hmq (P_pos e)
  have hxlt := wf_lt m e hm h2
  have hcx := canon_eq m e
  have hv := canon_val m e hm h1 h2
  obtain ⟨g1, g2⟩ := gridLo_spec (absNum m e) (absDen e) (absDen_pos e) k'
  rw [absNum_div_absDen] at g1 g2
  generalize gridLo (absNum m e) (absDen e) k' = L at g1 g2 ⊢
  have hc0 : 0 < decVal D' k' := by
    rcases lt_or_eq_of_le (decVal_nonneg D' k') with h0 | h0
    · exact h0
    · exfalso
      rw [← h0] at h
      rw [← h, val_round_zero] at hv
      have := Option.some.inj hv
      linarith
  rcases Nat.lt_or_ge L D' with hlt | hge
  · right
    have hle : decVal (L + 1) k' ≤ decVal D' k' := decVal_mono hlt k'
    by_cases hbig : decVal D' k' < 2 ^ (1024 : ℤ)
    · have := round_sandwich false hx (le_of_lt g2) hle hbig (by rw [← hcx, h])
      rw [this, ← hcx]
    · exfalso
      rw [round_big _ _ (not_lt.mp hbig)] at h
      rw [← h] at hv
      simp [val, wf, toRat] at hv
  · left
    have hle : decVal D' k' ≤ decVal L k' := decVal_mono hge k'
    have := round_sandwich false hc0 hle g1 hxlt (by rw [h, hcx])
    rw [this, h]

/-- no decimal on a coarser grid (not coarser than the first grid tried) reads back as `x` -/
theorem shortest_coarsest_upto (m : ℕ) (e : ℤ) (hm0 : m ≠ 0) (hm : m < two53) (h1 : eMin ≤ e)
    (h2 : e ≤ eMax) (D' : ℕ) (k' : ℤ) (hk : k' ≤ startExp m e)
    (h : round (decVal D' k') false = canon m e) : k' ≤ (shortest m e).2 := by
  by_contra hlt
  rw [not_le] at hlt
  obtain ⟨n1, n2⟩ := shortest_minimal m e k' hlt hk
  rcases grid_neighbour m e hm0 hm h1 h2 D' k' h with g | g
  · exact n1 g
  · exact n2 g


/-- the start-grid inequality `2^(fl+1) ≤ 10^(startExp+1)` for `fl = i - 1074`, as a
computation on naturals -/
def boundOk (i : ℕ) : Bool :=
  let fl : ℤ := (i : ℤ) - 1074
  let t := fl + 1
  let K := (fl + 2) * 30103 / 100000 + 2
  if t ≥ 0 then decide (K ≥ 0) && decide (2 ^ t.toNat ≤ 10 ^ K.toNat)
  else if K ≥ 0 then true else decide (10 ^ (-K).toNat ≤ 2 ^ (-t).toNat)

theorem boundOk_range : (List.range 2098).all boundOk = true := by decide +kernel

theorem boundOk_all : ∀ i, i < 2098 → boundOk i = true := fun i hi =>
  List.all_eq_true.mp boundOk_range i (List.mem_range.mpr hi)

theorem start_bound (fl : ℤ) (h1 : -1074 ≤ fl) (h2 : fl ≤ 1023) :
    (2 : ℚ) ^ (fl + 1) ≤ 10 ^ ((fl + 2) * 30103 / 100000 + 2) := by
  obtain ⟨i, hi⟩ := Int.eq_ofNat_of_zero_le (show 0 ≤ fl + 1074 by omega)
  have hb := boundOk_all i (by omega)
  have hfl : fl = (i : ℤ) - 1074 := by omega
  subst hfl
  unfold boundOk at hb
  dsimp only at hb
  generalize ((i : ℤ) - 1074 + 2) * 30103 / 100000 + 2 = K at hb ⊢
  generalize (i : ℤ) - 1074 + 1 = t at hb ⊢
  split_ifs at hb with c1 c2
  · simp only [Bool.and_eq_true, decide_eq_true_eq] at hb
    obtain ⟨n, rfl⟩ := Int.eq_ofNat_of_zero_le c1
    obtain ⟨k, rfl⟩ := Int.eq_ofNat_of_zero_le hb.1
    simp only [Int.toNat_natCast] at hb
    rw [zpow_natCast, zpow_natCast]; exact_mod_cast hb.2
  · calc (2 : ℚ) ^ t ≤ 1 := zpow_le_one_of_nonpos₀ (by norm_num) (by omega)
      _ ≤ 10 ^ K := one_le_zpow₀ (by norm_num) c2
  · simp only [decide_eq_true_eq] at hb
    obtain ⟨n, hn⟩ := Int.eq_ofNat_of_zero_le (show 0 ≤ -t by omega)
    obtain ⟨k, hk⟩ := Int.eq_ofNat_of_zero_le (show 0 ≤ -K by omega)
    have e1 : t = -(n : ℤ) := by omega
    have e2 : K = -(k : ℤ) := by omega
    subst e1; subst e2
    simp only [neg_neg, Int.toNat_natCast] at hb
    rw [zpow_neg, zpow_neg, zpow_natCast, zpow_natCast]
    apply inv_anti₀ (by positivity)
    exact_mod_cast hb


/-- a decimal that reads back as the finite non-zero `x` is positive and below `2^1024` -/
theorem readback_range (m : ℕ) (e : ℤ) (hm0 : m ≠ 0) (hm : m < two53) (h1 : eMin ≤ e)
    (h2 : e ≤ eMax) (D' : ℕ) (k' : ℤ) (h : round (decVal D' k') false = canon m e) :
    0 < decVal D' k' ∧ decVal D' k' < 2 ^ (1024 : ℤ) := by
  have hmq : (0 : ℚ) < m := by exact_mod_cast Nat.pos_of_ne_zero hm0
  have hx : (0 : ℚ) < (m : ℚ) * 2 ^ e := mul_pos hmq (P_pos e)
  have hv := canon_val m e hm h1 h2
  constructor
  · rcases lt_or_eq_of_le (decVal_nonneg D' k') with h0 | h0
    · exact h0
    · exfalso
      rw [← h0] at h
      rw [← h, val_round_zero] at hv
      have := Option.some.inj hv
      linarith
  · by_contra hbig
    rw [round_big _ _ (not_lt.mp hbig)] at h
    rw [← h] at hv
    simp [val, wf, toRat] at hv

/-- no decimal on a grid coarser than the first one tried reads back as `x` -/
theorem above_start (m : ℕ) (e : ℤ) (hm0 : m ≠ 0) (hm : m < two53) (h1 : eMin ≤ e)
    (h2 : e ≤ eMax) (D' : ℕ) (k' : ℤ) (hk : startExp m e < k')
    (h : round (decVal D' k') false = canon m e) : False := by
  have hmq : (0 : ℚ) < m := by exact_mod_cast Nat.pos_of_ne_zero hm0
  have hx : (0 : ℚ) < (m : ℚ) * 2 ^ e := mul_pos hmq (P_pos e)
  have hv := canon_val m e hm h1 h2
  have hcx := canon_eq m e
  obtain ⟨hc0, hclt⟩ := readback_range m e hm0 hm h1 h2 D' k' h
  -- the binade of `x`
  have hl52 : m.log2 < 53 := (Nat.log2_lt hm0).mpr hm
  have hfl1 : -1074 ≤ (m.log2 : ℤ) + e := by unfold eMin at h1; omega
  have hfl2 : (m.log2 : ℤ) + e ≤ 1023 := by unfold eMax at h2; omega
  have hxP : (m : ℚ) * 2 ^ e < 2 ^ ((m.log2 : ℤ) + e + 1) := by
    have : (m : ℚ) < 2 ^ ((m.log2 : ℤ) + 1) := by
      have h := @Nat.lt_log2_self m
      have e1 : ((m.log2 : ℤ) + 1) = ((m.log2 + 1 : ℕ) : ℤ) := by push_cast; rfl
      rw [e1, zpow_natCast]; exact_mod_cast h
    have e2 : (m.log2 : ℤ) + e + 1 = ((m.log2 : ℤ) + 1) + e := by ring
    rw [e2, P_add]; exact mul_lt_mul_of_pos_right this (P_pos e)
  have hsb := start_bound _ hfl1 hfl2
  generalize hfl : (m.log2 : ℤ) + e = fl at *
  -- `D' · 10^k' ≥ 10^(startExp + 1) ≥ 2^(fl + 1)`
  have hD : 1 ≤ D' := by
    rcases Nat.eq_zero_or_pos D' with h0 | h0
    · subst h0; rw [decVal_eq] at hc0; simp at hc0
    · exact h0
  have hPc : (2 : ℚ) ^ (fl + 1) ≤ decVal D' k' := by
    rw [decVal_eq]
    have k1 : (10 : ℚ) ^ ((fl + 2) * 30103 / 100000 + 2) ≤ 10 ^ k' := by
      apply zpow_le_zpow_right₀ (by norm_num)
      unfold startExp at hk; rw [hfl] at hk; omega
    have k2 : (1 : ℚ) ≤ D' := by exact_mod_cast hD
    have k3 : (0 : ℚ) < 10 ^ k' := zpow_pos (by norm_num) k'
    nlinarith
  have hs := round_sandwich false hx (le_of_lt hxP) hPc hclt (by rw [← hcx, h])
  -- but `2^(fl+1)` is a double
  have hPlt : fl + 1 < 1024 := P_lt_iff.mp (lt_of_le_of_lt hPc hclt)
  have hvP : val (round ((2 : ℚ) ^ (fl + 1)) false) = some (2 ^ (fl + 1)) := by
    by_cases hsm : fl + 1 ≤ 971
    · exact round_exact false 1 (fl + 1) false (by decide) (by unfold eMin; omega)
        (by unfold eMax; omega) _ (by simp)
    · refine round_exact false two52 (fl + 1 - 52) false (by decide) (by unfold eMin; omega)
        (by unfold eMax; omega) _ ?_
      rw [two52_cast]
      simp only [Bool.false_eq_true, if_false, one_mul]
      rw [← P_add]; congr 1; ring
  rw [hs, ← hcx, hv] at hvP
  have := Option.some.inj hvP
  linarith

/-- (f) SHORTEST.  For a well-formed non-zero `x = m · 2^e` and `(D, k) = shortest m e` (the text
is `D · 10^k`): NO decimal `D' · 10^k'` on a coarser grid `k' > k` reads back as `x`. -/
theorem shortest_coarsest (m : ℕ) (e : ℤ) (hm0 : m ≠ 0) (hm : m < two53) (h1 : eMin ≤ e)
    (h2 : e ≤ eMax) (D' : ℕ) (k' : ℤ) (h : round (decVal D' k') false = canon m e) :
    k' ≤ (shortest m e).2 := by
  rcases le_or_gt k' (startExp m e) with hk | hk
  · exact shortest_coarsest_upto m e hm0 hm h1 h2 D' k' hk h
  · exact absurd h (fun h => above_start m e hm0 hm h1 h2 D' k' hk h)

/-- the distances of `x = A / B` to its two neighbours on the grid `10^k`, in terms of the
remainder the search compares -/
theorem grid_rem (A B : ℕ) (hB : 0 < B) (k : ℤ) :
    (A : ℚ) / B - decVal (gridLo A B k) k
      = ((A * 10 ^ (-k).toNat % (B * 10 ^ k.toNat) : ℕ) : ℚ) / ((B * 10 ^ k.toNat : ℕ) : ℚ) * 10 ^ k ∧
    decVal (gridLo A B k + 1) k - (A : ℚ) / B
      = (((B * 10 ^ k.toNat : ℕ) : ℚ) - ((A * 10 ^ (-k).toNat % (B * 10 ^ k.toNat) : ℕ) : ℚ))
          / ((B * 10 ^ k.toNat : ℕ) : ℚ) * 10 ^ k := by
  rw [decVal_eq, decVal_eq]
  unfold gridLo
  have hdm := Nat.div_add_mod (A * 10 ^ (-k).toNat) (B * 10 ^ k.toNat)
  generalize A * 10 ^ (-k).toNat / (B * 10 ^ k.toNat) = L at hdm ⊢
  generalize A * 10 ^ (-k).toNat % (B * 10 ^ k.toNat) = r at hdm ⊢
  have hq : ((B * 10 ^ k.toNat : ℕ) : ℚ) * L + r = (A : ℚ) * 10 ^ (-k).toNat := by exact_mod_cast hdm
  have hBq : (0 : ℚ) < B := by exact_mod_cast hB
  have ha : (0 : ℚ) < 10 ^ (-k).toNat := by positivity
  have hb : (0 : ℚ) < 10 ^ k.toNat := by positivity
  rw [ten_zpow_split k]
  push_cast at hq ⊢
  constructor
  · field_simp
    linarith
  · field_simp
    linarith

/-- what the search returns: the exact digits, or a neighbour of `x` that reads back as the
target and that — if the other neighbour reads back as well — is the closer one -/
theorem shortAux_result (tgt : F64) (A B : Nat) (ex : Nat × Int) : ∀ (fuel : Nat) (k0 : Int),
    shortAux tgt A B ex fuel k0 = ex ∨
    ((shortAux tgt A B ex fuel k0).1 = gridLo A B (shortAux tgt A B ex fuel k0).2 ∧
      (round (decVal (gridLo A B (shortAux tgt A B ex fuel k0).2 + 1)
          (shortAux tgt A B ex fuel k0).2) false = tgt →
        2 * (A * 10 ^ (-(shortAux tgt A B ex fuel k0).2).toNat
              % (B * 10 ^ (shortAux tgt A B ex fuel k0).2.toNat))
          < B * 10 ^ (shortAux tgt A B ex fuel k0).2.toNat)) ∨
    ((shortAux tgt A B ex fuel k0).1 = gridLo A B (shortAux tgt A B ex fuel k0).2 + 1 ∧
      (round (decVal (gridLo A B (shortAux tgt A B ex fuel k0).2)
          (shortAux tgt A B ex fuel k0).2) false = tgt →
        B * 10 ^ (shortAux tgt A B ex fuel k0).2.toNat
          ≤ 2 * (A * 10 ^ (-(shortAux tgt A B ex fuel k0).2).toNat
              % (B * 10 ^ (shortAux tgt A B ex fuel k0).2.toNat)))) := by
  intro fuel
  induction fuel with
  | zero => intro k0; left; rfl
  | succ fuel ih =>
    intro k0
    unfold shortAux
    dsimp only
    split_ifs with c1 c2 c3 c4
    · right; left; exact ⟨rfl, fun _ => c2⟩
    · right; right; exact ⟨rfl, fun _ => not_lt.mp c2⟩
    · right; left
      refine ⟨rfl, fun h => ?_⟩
      exfalso; apply c1
      simp only [Bool.and_eq_true, decide_eq_true_eq]
      exact ⟨of_decide_eq_true c3, h⟩
    · right; right
      refine ⟨rfl, fun h => ?_⟩
      exact absurd (decide_eq_true h) c3
    · exact ih _

/-- (f) CLOSEST.  Among the decimals on the grid of the text that read back as `x`, the text is
closest to `x`. -/
theorem shortest_closest (m : ℕ) (e : ℤ) (hm0 : m ≠ 0) (hm : m < two53) (h1 : eMin ≤ e)
    (h2 : e ≤ eMax) (D' : ℕ)
    (h : round (decVal D' (shortest m e).2) false = canon m e) :
    |decVal (shortest m e).1 (shortest m e).2 - (m : ℚ) * 2 ^ e|
      ≤ |decVal D' (shortest m e).2 - (m : ℚ) * 2 ^ e| := by
  have hmq : (0 : ℚ) < m := by exact_mod_cast Nat.pos_of_ne_zero hm0
  have hx : (0 : ℚ) < (m : ℚ) * 2 ^ e := mul_pos hmq (P_pos e)
  have hxlt := wf_lt m e hm h2
  have hcx := canon_eq m e
  obtain ⟨hc0, hclt⟩ := readback_range m e hm0 hm h1 h2 D' _ h
  have hres := shortAux_result (canon m e) (absNum m e) (absDen e) (exactDigits m e)
    ((startExp m e - (if e ≥ 0 then 0 else e) + 1).toNat) (startExp m e)
  change _ ∨ ((shortest m e).1 = _ ∧ _) ∨ ((shortest m e).1 = _ ∧ _) at hres
  have hsh : shortAux (canon m e) (absNum m e) (absDen e) (exactDigits m e)
    ((startExp m e - (if e ≥ 0 then 0 else e) + 1).toNat) (startExp m e) = shortest m e := rfl
  rw [hsh] at hres
  generalize shortest m e = r at hres h hc0 hclt ⊢
  obtain ⟨g1, g2⟩ := gridLo_spec (absNum m e) (absDen e) (absDen_pos e) r.2
  obtain ⟨d1, d2⟩ := grid_rem (absNum m e) (absDen e) (absDen_pos e) r.2
  rw [absNum_div_absDen] at g1 g2 d1 d2
  have hden : (0 : ℚ) < ((absDen e * 10 ^ r.2.toNat : ℕ) : ℚ) := by
    have := absDen_pos e
    exact_mod_cast (show 0 < absDen e * 10 ^ r.2.toNat by positivity)
  have hten : (0 : ℚ) < 10 ^ r.2 := zpow_pos (by norm_num) _
  generalize hL : gridLo (absNum m e) (absDen e) r.2 = L at *
  generalize hrem : absNum m e * 10 ^ (-r.2).toNat % (absDen e * 10 ^ r.2.toNat) = rem at *
  generalize hdd : absDen e * 10 ^ r.2.toNat = den at *
  -- the two candidates when both read back
  have lo_of : D' ≤ L → round (decVal L r.2) false = canon m e := fun hge => by
    have := round_sandwich false hc0 (decVal_mono hge r.2) g1 hxlt (by rw [h, hcx])
    rw [this, h]
  have hi_of : L < D' → round (decVal (L + 1) r.2) false = canon m e := fun hlt => by
    have := round_sandwich false hx (le_of_lt g2) (decVal_mono hlt r.2) hclt (by rw [← hcx, h])
    rw [this, ← hcx]
  rcases hres with hex | ⟨hr1, hcl⟩ | ⟨hr1, hcl⟩
  · have : decVal r.1 r.2 = (m : ℚ) * 2 ^ e := by rw [hex]; exact decVal_exactDigits m e
    rw [this, sub_self, abs_zero]; exact abs_nonneg _
  · rw [hr1]
    rcases Nat.lt_or_ge L D' with hlt | hge
    · have hc := hcl (hi_of hlt)
      have hcq : 2 * (rem : ℚ) < den := by exact_mod_cast hc
      have hmono := decVal_mono hlt r.2
      have hgap : (m : ℚ) * 2 ^ e - decVal L r.2 < decVal (L + 1) r.2 - (m : ℚ) * 2 ^ e := by
        rw [d1, d2]
        apply mul_lt_mul_of_pos_right _ hten
        rw [div_lt_div_iff_of_pos_right hden]; linarith
      rw [abs_of_nonpos (by linarith), abs_of_nonneg (by linarith)]
      linarith
    · have hmono := decVal_mono hge r.2
      rw [abs_of_nonpos (by linarith), abs_of_nonpos (by linarith)]
      linarith
  · rw [hr1]
    rcases Nat.lt_or_ge L D' with hlt | hge
    · have hmono := decVal_mono hlt r.2
      rw [abs_of_nonneg (by linarith), abs_of_nonneg (by linarith)]
      linarith
    · have hc := hcl (lo_of hge)
      have hcq : (den : ℚ) ≤ 2 * rem := by exact_mod_cast hc
      have hmono := decVal_mono hge r.2
      have hgap : decVal (L + 1) r.2 - (m : ℚ) * 2 ^ e ≤ (m : ℚ) * 2 ^ e - decVal L r.2 := by
        rw [d1, d2]
        apply mul_le_mul_of_nonneg_right _ (le_of_lt hten)
        rw [div_le_div_iff_of_pos_right hden]; linarith
      rw [abs_of_nonneg (by linarith), abs_of_nonpos (by linarith)]
      linarith

theorem num_cons (x : Nat) (xs : Text) : num (x :: xs) = (x - 48) * 10 ^ xs.length + num xs := by
  have := foldl_start xs (0 * 10 + (x - 48))
  simpa [num] using this

theorem num_lt (ds : Text) (h : ds.all Case.isDigit = true) : num ds < 10 ^ ds.length := by
  induction ds with
  | nil => simp [num]
  | cons x xs ih =>
    simp only [List.all_cons, Bool.and_eq_true] at h
    have hx : x - 48 ≤ 9 := by
      have := h.1; simp [Case.isDigit] at this; omega
    have := ih h.2
    rw [num_cons, List.length_cons, pow_succ]
    nlinarith

theorem natDigits_lt (n : Nat) : n < 10 ^ (natDigits n).length := by
  have := num_lt _ (natDigits_all n)
  rwa [natDigits_num] at this

theorem natDigits_ge (n : Nat) (h : 2 ≤ (natDigits n).length) :
    10 ^ ((natDigits n).length - 1) ≤ n := by
  by_contra hlt
  have := natDigits_len n ((natDigits n).length - 1) (by omega) (not_le.mp hlt)
  omega

/-- (f) FEWEST DIGITS.  No decimal `D' · 10^k'` that reads back as `x` has fewer
digits `D'` than the text has. -/
theorem shortest_fewest (m : ℕ) (e : ℤ) (hm0 : m ≠ 0) (hm : m < two53) (h1 : eMin ≤ e)
    (h2 : e ≤ eMax) (D' : ℕ) (k' : ℤ) (h : round (decVal D' k') false = canon m e) :
    (natDigits (shortest m e).1).length ≤ (natDigits D').length := by
  by_contra hlt
  rw [not_le] at hlt
  have hk := shortest_coarsest m e hm0 hm h1 h2 D' k' h
  have hok := shortest_ok m e
  obtain ⟨hc0, hclt⟩ := readback_range m e hm0 hm h1 h2 D' k' h
  obtain ⟨hd0, hdlt⟩ := readback_range m e hm0 hm h1 h2 _ _ hok
  generalize hr : shortest m e = r at *
  have hn' : 1 ≤ (natDigits D').length := by
    have := natDigits_ne_nil D'
    cases hnd : natDigits D' with
    | nil => exact absurd hnd this
    | cons a l => simp
  have hD := natDigits_ge r.1 (by omega)
  have hD'lt := natDigits_lt D'
  generalize (natDigits r.1).length = n at *
  generalize (natDigits D').length = n' at *
  -- the power of ten between the two decimals
  have e1 : decVal D' k' ≤ decVal 1 ((n : ℤ) - 1 + r.2) := by
    rw [decVal_eq, decVal_eq]
    have a1 : (D' : ℚ) ≤ 10 ^ (n' : ℤ) := by
      rw [zpow_natCast]; exact_mod_cast le_of_lt hD'lt
    have a2 : (10 : ℚ) ^ ((n' : ℤ) + k') ≤ 10 ^ ((n : ℤ) - 1 + r.2) :=
      zpow_le_zpow_right₀ (by norm_num) (by omega)
    have a3 : (0 : ℚ) < 10 ^ k' := zpow_pos (by norm_num) _
    calc (D' : ℚ) * 10 ^ k' ≤ 10 ^ (n' : ℤ) * 10 ^ k' := mul_le_mul_of_nonneg_right a1 (le_of_lt a3)
      _ = 10 ^ ((n' : ℤ) + k') := (zpow_add₀ (by norm_num) _ _).symm
      _ ≤ 10 ^ ((n : ℤ) - 1 + r.2) := a2
      _ = ((1 : ℕ) : ℚ) * 10 ^ ((n : ℤ) - 1 + r.2) := by simp
  have e2 : decVal 1 ((n : ℤ) - 1 + r.2) ≤ decVal r.1 r.2 := by
    rw [decVal_eq, decVal_eq]
    have a1 : (10 : ℚ) ^ (((n - 1 : ℕ) : ℤ)) ≤ r.1 := by
      rw [zpow_natCast]; exact_mod_cast hD
    have a3 : (0 : ℚ) < 10 ^ r.2 := zpow_pos (by norm_num) _
    have a4 : (n : ℤ) - 1 = ((n - 1 : ℕ) : ℤ) := by omega
    calc ((1 : ℕ) : ℚ) * 10 ^ ((n : ℤ) - 1 + r.2) = 10 ^ ((n : ℤ) - 1) * 10 ^ r.2 := by
          rw [Nat.cast_one, one_mul, zpow_add₀ (by norm_num)]
      _ ≤ (r.1 : ℚ) * 10 ^ r.2 := by rw [a4]; exact mul_le_mul_of_nonneg_right a1 (le_of_lt a3)
  have hs := round_sandwich false hc0 e1 e2 hdlt (by rw [h, hok])
  have := shortest_coarsest m e hm0 hm h1 h2 1 ((n : ℤ) - 1 + r.2) (by rw [hs, h])
  rw [hr] at this
  omega

/-- (f) summary for `{}` in terms of texts: the text of a well-formed non-zero `x = ± m · 2^e`
is `decText D k` — the positional text of `D · 10^k` — where, for EVERY positional decimal text
`decText D' k'` that reads back (`parseText`) as the same double as the printed text does,
the grid of the printed text is at least as coarse (`k' ≤ k`), it has at most as many digits
(`D` vs `D'`), and on its own grid it is closest to `|x|`. -/
theorem absText_none_shortest (s : Bool) (m : ℕ) (e : ℤ) (hm0 : m ≠ 0) (hm : m < two53)
    (h1 : eMin ≤ e) (h2 : e ≤ eMax) :
    ∃ D k, absText none (.fin s m e) = decText D k ∧
      parseText (decText D k) = some (canon m e) ∧ val (canon m e) = some ((m : ℚ) * 2 ^ e) ∧
      ∀ D' k', parseText (decText D' k') = parseText (decText D k) →
        k' ≤ k ∧ (natDigits D).length ≤ (natDigits D').length ∧
        (k' = k → |decVal D k - (m : ℚ) * 2 ^ e| ≤ |decVal D' k - (m : ℚ) * 2 ^ e|) := by
  refine ⟨(shortest m e).1, (shortest m e).2, by simp [absText, hm0], ?_,
    canon_val m e hm h1 h2, ?_⟩
  · rw [parseText_decText, shortest_ok]
  · intro D' k' hp
    rw [parseText_decText, parseText_decText, shortest_ok] at hp
    have hp := Option.some.inj hp
    refine ⟨shortest_coarsest m e hm0 hm h1 h2 D' k' hp,
      shortest_fewest m e hm0 hm h1 h2 D' k' hp, ?_⟩
    intro hk
    subst hk
    exact shortest_closest m e hm0 hm h1 h2 D' hp

/-! ### tests (kernel-checked evaluations on concrete values, not theorems of the model) -/

/-- test: `0.1` -/
example : text none (ofBits 0x3FB999999999999A) = [48, 46, 49] := by decide +kernel
/-- test: `1/3` prints as `0.3333333333333333` (16 threes) -/
example : text none (ofBits 0x3FD5555555555555) = 48 :: 46 :: List.replicate 16 51 := by
  decide +kernel
/-- test: `5e-324` prints as `0.` + 323 zeros + `5` -/
example : text none (ofBits 1) = 48 :: 46 :: (List.replicate 323 48 ++ [53]) := by decide +kernel
/-- test: `2^53` prints as `9007199254740992` -/
example : text none (ofBits 0x4340000000000000)
    = [57, 48, 48, 55, 49, 57, 57, 50, 53, 52, 55, 52, 48, 57, 57, 50] := by decide +kernel
/-- test: `1e23` prints as `1` + 23 zeros (the double is 99999999999999991611392) -/
example : text none (ofBits 0x44B52D02C7E14AF6) = 49 :: List.replicate 23 48 := by decide +kernel
/-- test: `1e21` prints positionally, also with a precision -/
example : text (some 2) (ofBits 0x444B1AE4D6E2EF50)
    = 49 :: (List.replicate 21 48 ++ [46, 48, 48]) := by decide +kernel
/-- test: `-0` -/
example : text none (ofBits 0x8000000000000000) = [45, 48] := by decide +kernel
/-- tests: ties to even — `{:.0}` of 0.5, 1.5, 2.5 is `0`, `2`, `2`; `{:.2}` of 0.125, 0.375 is
`0.12`, `0.38`; `{:.0}` of 9.5 is `10` -/
example : text (some 0) (ofBits 0x3FE0000000000000) = [48] := by decide +kernel
example : text (some 0) (ofBits 0x3FF8000000000000) = [50] := by decide +kernel
example : text (some 0) (ofBits 0x4004000000000000) = [50] := by decide +kernel
example : text (some 2) (ofBits 0x3FC0000000000000) = [48, 46, 49, 50] := by decide +kernel
example : text (some 2) (ofBits 0x3FD8000000000000) = [48, 46, 51, 56] := by decide +kernel
example : text (some 0) (ofBits 0x4023000000000000) = [49, 48] := by decide +kernel
/-- tests: the reader -/
example : parseText [48, 46, 49] = some (ofBits 0x3FB999999999999A) := by decide +kernel
example : parseText (49 :: List.replicate 23 48) = some (ofBits 0x44B52D02C7E14AF6) := by
  decide +kernel
example : parseText [45, 48] = some (ofBits 0x8000000000000000) := by decide +kernel

end Qty.C15F64
