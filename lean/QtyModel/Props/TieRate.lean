import QtyModel.Ops
import QtyModel.Rate
import QtyModel.Generated.Algos
/-
  Tie between code and model for the ALGORITHMS (`src/rate.rs` and the rate operators of `codegen_impl_std_traits`).

  `Generated/Algos.lean` is re-emitted from the Rust source on every run
  (tools/translate_algos.py).  Every theorem below states that the re-emitted definition IS the
  hand-written definition which the property theorems are about.  If a change of the code
  changes what one of these functions computes, its theorem no longer checks.
-/
namespace Qty.AlgoTie
open Qty Qty.Gen.Algos

set_option linter.unusedSectionVars false
variable {A U V W : Type} [DecidableEq U] [DecidableEq V] [DecidableEq W]
variable (R : Arith A) (T : QT A U)

theorem rate_from_qty_vals_eq (t p : Q A Nat) : Gen.Algos.Rate.from_qty_vals R t p = Rate.fromQtyVals t p := rfl

theorem rate_reciprocal_eq (r : Rate A) : Gen.Algos.Rate.reciprocal R r = Rate.reciprocal r := rfl

theorem rate_accessors (r : Rate A) :
    Gen.Algos.Rate.term_amount R r = r.termAmount ∧ Gen.Algos.Rate.term_unit R r = r.termUnit ∧
    Gen.Algos.Rate.per_unit_multiple R r = r.perMultiple ∧ Gen.Algos.Rate.per_unit R r = r.perUnit :=
  ⟨rfl, rfl, rfl, rfl⟩

theorem rate_new_eq (a : A) (u : Nat) (m : A) (p : Nat) : Gen.Algos.Rate.new R a u m p = ⟨a, u, m, p⟩ := rfl

/-- `Rate * PQ` (src/rate.rs) -/
theorem rate_mul_eq (TP : RTable A) (r : Rate A) (q : Q A Nat) :
    Gen.Algos.Rate.mul R (Rate.qdiv R TP) r q = Rate.mulQ R TP r q := rfl

/-- `PQ * Rate` (macro template) -/
theorem qty_mul_rate_eq (TP : RTable A) (r : Rate A) (q : Q A Nat) :
    Template.qty_mul_rate R (Rate.qdiv R TP) q r = Rate.mulQ R TP r q := rfl

/-- `TQ / Rate` (macro template) -/
theorem qty_div_rate_eq (TT : RTable A) (r : Rate A) (q : Q A Nat) :
    Template.qty_div_rate R (Rate.qdiv R TT) q r = Rate.divQ R TT q r := rfl

end Qty.AlgoTie
