import QtyModel.Ops
import QtyModel.Rate
import QtyModel.Generated.Algos
/-
  Tie between code and model for the ALGORITHMS (which trait method `/` of a quantity type WITHOUT reference unit, and of a single-unit type, forwards to).

  `Generated/Algos.lean` is re-emitted from the Rust source on every run
  (tools/translate_algos.py).  Every theorem below states that the re-emitted definition IS the
  hand-written definition which the property theorems are about.  If a change of the code
  changes what one of these functions computes, its theorem no longer checks.
-/
namespace Qty.AlgoTie
open Qty Qty.Gen.Algos

set_option linter.unusedSectionVars false
variable {A U V W : Type} [DecidableEq U] [DecidableEq V] [DecidableEq W]
variable (R : Arith A) (T : QT A U)

theorem noRef_div (a b : Q A U) : Kind.noRef.div R T a b = nrDiv R a b := rfl
theorem single_div (a b : Q A U) : Kind.single.div R T a b = R.div a.amount b.amount := rfl

end Qty.AlgoTie
