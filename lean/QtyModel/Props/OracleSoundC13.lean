import QtyModel.Props.OracleSoundJudge
import QtyModel.Props.C13
/- `OracleSound`, C13: the rate oracles accept the model. -/
set_option linter.unusedSectionVars false
namespace Qty.OracleSound
open Qty

variable {A : Type} (R : Arith A)

/-- C13, `rate * q` (`Main.lean`, op `rate … mulq`, `Approx.judge a1 (R.val z) "rate * q is not …"`):
`a1` is what `approxRateApply` returned, `z` the amount of the model's `mulQ`. -/
theorem judge_accepts_mulQ {M : ErrModel} (L : Laws R M) (TP : RTable A) (r : Rate A) (q : Q A Nat)
    (qv pmv tav : Rat) (a1 : Option Approx)
    (hq : R.val q.amount = some qv) (hpm : R.val r.perMultiple = some pmv) (hta : R.val r.termAmount = some tav)
    (hw : approxRateApply R M TP (Approx.exact qv) q.unit r.perUnit (Approx.exact pmv) (Approx.exact tav) = .ok a1)
    (res : Q A Nat) (hres : Rate.mulQ R TP r q = .ok res) (why w : String) :
    Approx.judge a1 (R.val res.amount) why ≠ .fail w := by
  refine judge_accepts_realised R a1 res.amount why ?_ w
  rintro x' rfl hok
  obtain ⟨res', hres', -, hreal⟩ := C13.mulQ_sound R L TP r q qv pmv tav x' hq hpm hta hw hok
  rw [hres] at hres'
  cases hres'
  exact hreal

/-- C13, `q / rate` (`Main.lean`, op `rate … divq`, `Approx.judge a1 (R.val z) "q / rate is not …"`) -/
theorem judge_accepts_divQ {M : ErrModel} (L : Laws R M) (TT : RTable A) (r : Rate A) (q : Q A Nat)
    (qv pmv tav : Rat) (a1 : Option Approx)
    (hq : R.val q.amount = some qv) (hpm : R.val r.perMultiple = some pmv) (hta : R.val r.termAmount = some tav)
    (hw : approxRateApply R M TT (Approx.exact qv) q.unit r.termUnit (Approx.exact tav) (Approx.exact pmv) = .ok a1)
    (res : Q A Nat) (hres : Rate.divQ R TT q r = .ok res) (why w : String) :
    Approx.judge a1 (R.val res.amount) why ≠ .fail w := by
  refine judge_accepts_realised R a1 res.amount why ?_ w
  rintro x' rfl hok
  obtain ⟨res', hres', -, hreal⟩ := C13.divQ_sound R L TT r q qv pmv tav x' hq hpm hta hw hok
  rw [hres] at hres'
  cases hres'
  exact hreal

end Qty.OracleSound
