import QtyModel.Props.TieFit
import QtyModel.Ops
import QtyModel.Generated.Algos
/-
  Tie between code and model for the ALGORITHMS (the bodies of the derived `Mul` / `Div` operators inside the macro's `quote!` templates).

  `Generated/Algos.lean` is re-emitted from the Rust source on every run
  (tools/translate_algos.py).  Every theorem below states that the re-emitted definition IS the
  hand-written definition of `Ops.lean` which the property theorems are about.  If a change of
  the code changes what one of these functions computes, its theorem no longer checks.
-/
namespace Qty.AlgoTie
open Qty Qty.Gen.Algos

set_option linter.unusedSectionVars false
variable {A U V W : Type} [DecidableEq U] [DecidableEq V] [DecidableEq W]
variable (R : Arith A) (T : QT A U)

theorem template_mul_eq (TL : QT A U) (TR : QT A V) (TO : QT A W) (l : Q A U) (r : Q A V) :
    Template.mul R TL TR TO l r = dmul R TL TR TO l r := by
  unfold Template.mul dmul
  simp only [fitOf_eq, unit_from_scale_eq]
  rfl

theorem template_sqared_mul_eq (TL : QT A U) (TO : QT A W) (l r : Q A U) :
    Template.sqared_mul R TL TO l r = dmul R TL TL TO l r := by
  unfold Template.sqared_mul dmul
  simp only [fitOf_eq, unit_from_scale_eq]
  rfl

theorem template_div_eq (TL : QT A U) (TR : QT A V) (TO : QT A W) (l : Q A U) (r : Q A V) :
    Template.div R TL TR TO l r = ddiv R TL TR TO l r := by
  unfold Template.div ddiv
  simp only [fitOf_eq, unit_from_scale_eq]
  rfl

end Qty.AlgoTie
