import QtyModel.Props.C09
import QtyModel.Lemmas.F64Laws
/-
  C09 — the order `analyze` sorts by is a total preorder on units carrying a numeric scale
  literal, so `C09.iter_sorted` applies to every definition with a reference unit.
-/
namespace Qty.C09
open Qty Qty.MacroFront

/-! ### the `f64` comparison is a total preorder away from `nan` -/

theorem round_ne_nan (q : Rat) (b : Bool) : F64.round q b ≠ F64.nan := by
  unfold F64.round
  split
  · simp
  · dsimp only
    split <;> split <;> (simp only []; split <;> simp)

/-- `pcmp a b ≠ some .gt`, as a Boolean -/
def f64Le (a b : F64) : Bool :=
  match F64.pcmp a b with
  | some .gt => false
  | _ => true

theorem ratCmp_le_iff (x y : Rat) : (ratCmp x y ≠ Ordering.gt) ↔ x ≤ y := by
  unfold ratCmp
  rcases lt_trichotomy x y with h | h | h
  · simp [h, le_of_lt h]
  · simp [h]
  · have h1 : ¬ x < y := not_lt.mpr (le_of_lt h)
    have h2 : ¬ x = y := ne_of_gt h
    simp [h1, h2, not_le.mpr h]

theorem f64Le_fin (s t : Bool) (m n : Nat) (e f : Int) :
    f64Le (.fin s m e) (.fin t n f) = true ↔ F64.tr s m e ≤ F64.tr t n f := by
  unfold f64Le
  rw [F64.pcmp_fin, ← ratCmp_le_iff]
  cases ratCmp (F64.tr s m e) (F64.tr t n f) <;> simp

theorem f64Le_total (a b : F64) (ha : a ≠ .nan) (hb : b ≠ .nan) :
    f64Le a b = true ∨ f64Le b a = true := by
  cases a with
  | nan => exact absurd rfl ha
  | inf s =>
    cases b with
    | nan => exact absurd rfl hb
    | inf t => cases s <;> cases t <;> simp [f64Le, F64.pcmp]
    | fin t n f => cases s <;> simp [f64Le, F64.pcmp]
  | fin s m e =>
    cases b with
    | nan => exact absurd rfl hb
    | inf t => cases t <;> simp [f64Le, F64.pcmp]
    | fin t n f =>
      rw [f64Le_fin, f64Le_fin]
      exact le_total _ _

theorem f64Le_trans (a b c : F64) (ha : a ≠ .nan) (hb : b ≠ .nan) (hc : c ≠ .nan)
    (hab : f64Le a b = true) (hbc : f64Le b c = true) : f64Le a c = true := by
  cases a with
  | nan => exact absurd rfl ha
  | inf s =>
    cases b with
    | nan => exact absurd rfl hb
    | inf t =>
      cases c with
      | nan => exact absurd rfl hc
      | inf u => revert hab hbc; cases s <;> cases t <;> cases u <;> simp [f64Le, F64.pcmp]
      | fin u k g => revert hab hbc; cases s <;> cases t <;> simp [f64Le, F64.pcmp]
    | fin t n f =>
      cases c with
      | nan => exact absurd rfl hc
      | inf u => revert hab hbc; cases s <;> cases u <;> simp [f64Le, F64.pcmp]
      | fin u k g => revert hab; cases s <;> simp [f64Le, F64.pcmp]
  | fin s m e =>
    cases b with
    | nan => exact absurd rfl hb
    | inf t =>
      cases c with
      | nan => exact absurd rfl hc
      | inf u => revert hab hbc; cases t <;> cases u <;> simp [f64Le, F64.pcmp]
      | fin u k g => revert hab hbc; cases t <;> simp [f64Le, F64.pcmp]
    | fin t n f =>
      cases c with
      | nan => exact absurd rfl hc
      | inf u => revert hbc; cases u <;> simp [f64Le, F64.pcmp]
      | fin u k g =>
        rw [f64Le_fin] at hab hbc ⊢
        exact le_trans hab hbc

/-- units whose scale literal is present (all units of a definition with reference unit) -/
def HasScale (u : UnitDef) : Prop := u.scale.isSome = true

theorem sortKey_ne_nan (a : UnitDef) (ha : HasScale a) : sortKey a ≠ F64.nan := by
  unfold HasScale at ha
  unfold sortKey
  cases h : a.scale with
  | none => simp [h] at ha
  | some l => exact round_ne_nan _ _

theorem keyLe_eq (a b : UnitDef) : keyLe a b = f64Le (sortKey a) (sortKey b) := rfl

theorem keyLe_total (a b : UnitDef) (ha : HasScale a) (hb : HasScale b) :
    keyLe a b = true ∨ keyLe b a = true := by
  rw [keyLe_eq, keyLe_eq]
  exact f64Le_total _ _ (sortKey_ne_nan a ha) (sortKey_ne_nan b hb)

theorem keyLe_trans (a b c : UnitDef) (ha : HasScale a) (hb : HasScale b) (hc : HasScale c)
    (hab : keyLe a b = true) (hbc : keyLe b c = true) : keyLe a c = true := by
  rw [keyLe_eq] at hab hbc ⊢
  exact f64Le_trans _ _ _ (sortKey_ne_nan a ha) (sortKey_ne_nan b hb) (sortKey_ne_nan c hc) hab hbc

/-! ### lexicographic order on texts -/

theorem textLe_total : ∀ (s t : Text), textLe s t = true ∨ textLe t s = true
  | [], _ => Or.inl (by simp [textLe])
  | _ :: _, [] => Or.inr (by simp [textLe])
  | a :: as, b :: bs => by
    simp only [textLe]
    rcases Nat.lt_trichotomy a b with h | h | h
    · left; simp [h]
    · subst h; simp only [Nat.lt_irrefl, if_false, gt_iff_lt]; exact textLe_total as bs
    · right; simp [h]

theorem textLe_trans : ∀ (s t u : Text), textLe s t = true → textLe t u = true → textLe s u = true
  | [], _, _ => by simp [textLe]
  | _ :: _, [], _ => by simp [textLe]
  | _ :: _, _ :: _, [] => by simp [textLe]
  | a :: as, b :: bs, c :: cs => by
    simp only [textLe, gt_iff_lt]
    intro h1 h2
    by_cases hab : a < b
    · by_cases hbc : b < c
      · simp [Nat.lt_trans hab hbc]
      · simp only [hbc, if_false] at h2
        by_cases hcb : c < b
        · simp [hcb] at h2
        · have : b = c := by omega
          subst this; simp [hab]
    · simp only [hab, if_false] at h1
      by_cases hba : b < a
      · simp [hba] at h1
      · have : a = b := by omega
        subst this
        simp only [Nat.lt_irrefl, if_false] at h1
        by_cases hac : a < c
        · simp [hac]
        · simp only [hac, if_false] at h2 ⊢
          by_cases hca : c < a
          · simp [hca] at h2
          · simp only [hca, if_false] at h2 ⊢
            exact textLe_trans as bs cs h1 h2

/-- name order (types without reference unit) is a total preorder without any hypothesis -/
theorem nameLe_total (a b : UnitDef) : nameLe a b = true ∨ nameLe b a = true :=
  textLe_total _ _

theorem nameLe_trans (a b c : UnitDef) (hab : nameLe a b = true) (hbc : nameLe b c = true) :
    nameLe a c = true :=
  textLe_trans _ _ _ hab hbc

end Qty.C09
