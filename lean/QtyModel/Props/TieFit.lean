import QtyModel.Ops
import QtyModel.Generated.Algos
/-
  Tie between code and model for the ALGORITHMS (`from_scale`, `unit_from_scale`, `is_ref_unit`, `_fit`).

  `Generated/Algos.lean` is re-emitted from the Rust source on every run
  (tools/translate_algos.py).  Every theorem below states that the re-emitted definition IS the
  hand-written definition of `Ops.lean` which the property theorems are about.  If a change of
  the code changes what one of these functions computes, its theorem no longer checks.
-/
namespace Qty.AlgoTie
open Qty Qty.Gen.Algos

set_option linter.unusedSectionVars false
variable {A U V W : Type} [DecidableEq U] [DecidableEq V] [DecidableEq W]
variable (R : Arith A) (T : QT A U)

theorem from_scale_eq (x : A) : LinearScaledUnit.from_scale R T x = unitFromScale R T x := rfl

theorem unit_from_scale_eq (x : A) : HasRefUnit.unit_from_scale R T x = unitFromScale R T x := rfl

theorem is_ref_unit_eq (u : U) : LinearScaledUnit.is_ref_unit R T u = decide (u = T.ref) := rfl

/-- the default `_fit` (every type but `AmountT`) -/
theorem fit_eq (h : T.fitIdentity = none) (x : A) : HasRefUnit._fit R T x = fit R T x := by
  unfold HasRefUnit._fit fit eligible
  simp only [h]
  cases hl : List.filter (fun u => !T.hasPrefix T.ref || T.hasPrefix u) T.units with
  | nil => rfl
  | cons first rest =>
    simp only [List.head?_cons, List.tail_cons, unwrapOpt]
    show (match (List.filter (fun u => R.gt (T.scale u) (T.scale first) && R.le (T.scale u) x) rest).getLast? with
      | some unit_ => bind (R.div x (T.scale unit_)) fun t3 => pure (⟨t3, unit_⟩ : Q A U)
      | none => bind (R.div x (T.scale first)) fun t4 => pure (⟨t4, first⟩ : Q A U)) = _
    cases (List.filter (fun u => R.gt (T.scale u) (T.scale first) && R.le (T.scale u) x) rest).getLast? <;> rfl

/-- `_fit` as the operator templates reach it (default method, or the identity of `AmountT`,
whose override the translator checked to be `fn _fit(amount) -> Self { amount }`) -/
theorem fitOf_eq (x : A) : fitOf R T x = fit R T x := by
  unfold fitOf
  cases h : T.fitIdentity with
  | some mk => simp only [fit, h]; rfl
  | none => simp only [fit_eq R T h]

end Qty.AlgoTie
