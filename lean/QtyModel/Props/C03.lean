import QtyModel.Lemmas.Conv
/-
  C03 — Sum, difference and ratio of like quantities honour units.

  Property theorems only; quantifiers as in C01 (every arithmetic with `Laws`,
  every table, every unit pair, every amount).  The numeric bounds are literally
  the expressions evaluated by the run-time oracles `Oracle.c03addsub`, `Oracle.c03div`.
-/
namespace Qty.C03
open Qty

variable {A U : Type} [DecidableEq U] (R : Arith A) (T : QT A U)

/-- `a + b` / `a - b` are expressed in the left operand's unit -/
theorem add_unit (a b r : Q A U) (h : hrAdd R T a b = .ok r) : r.unit = a.unit := by
  unfold hrAdd at h
  cases he : equivAmount R T b a.unit with
  | error e => simp [he, bind, Except.bind] at h
  | ok v =>
    cases hs : R.add a.amount v with
    | error e => simp [he, hs, bind, Except.bind] at h
    | ok w => simp [he, hs, bind, Except.bind, pure, Except.pure] at h; rw [← h]

theorem sub_unit (a b r : Q A U) (h : hrSub R T a b = .ok r) : r.unit = a.unit := by
  unfold hrSub at h
  cases he : equivAmount R T b a.unit with
  | error e => simp [he, bind, Except.bind] at h
  | ok v =>
    cases hs : R.sub a.amount v with
    | error e => simp [he, hs, bind, Except.bind] at h
    | ok w => simp [he, hs, bind, Except.bind, pure, Except.pure] at h; rw [← h]

/-- when both operands share a unit the results are exactly the amount type's own
`+`, `-`, `/` applied to the two amounts -/
theorem add_same_unit (a b : Q A U) (h : b.unit = a.unit) :
    hrAdd R T a b = (R.add a.amount b.amount).map (fun x => ⟨x, a.unit⟩) := by
  simp only [hrAdd, equivAmount, h, if_true, bind, Except.bind, pure, Except.pure]
  cases R.add a.amount b.amount <;> rfl

theorem sub_same_unit (a b : Q A U) (h : b.unit = a.unit) :
    hrSub R T a b = (R.sub a.amount b.amount).map (fun x => ⟨x, a.unit⟩) := by
  simp only [hrSub, equivAmount, h, if_true, bind, Except.bind, pure, Except.pure]
  cases R.sub a.amount b.amount <;> rfl

theorem div_same_unit (a b : Q A U) (h : b.unit = a.unit) :
    hrDiv R T a b = R.div a.amount b.amount := by
  simp [hrDiv, equivAmount, h, bind, Except.bind]

/-- mixed units: the magnitude of `a ± b` equals the exact sum / difference of the operands'
magnitudes up to `|s₁|·(Ea(|x| + ŷmax) + convBoundIn)` -/
theorem addsub_mag {M : ErrModel} (L : Laws R M) (isSub : Bool) (a b : Q A U) (s1 s2 x y : Rat)
    (hne : b.unit ≠ a.unit)
    (hs1 : R.val (T.scale a.unit) = some s1) (hs2 : R.val (T.scale b.unit) = some s2) (hs1ne : s1 ≠ 0)
    (hx : R.val a.amount = some x) (hy : R.val b.amount = some y)
    (hsafe : Oracle.convSafe M s2 s1 y = true)
    (hsafe2 : M.safe (ratAbs x + (ratAbs (s2 / s1) * ratAbs y + Oracle.convBoundIn M s2 s1 y)
      + M.Ea (ratAbs x + (ratAbs (s2 / s1) * ratAbs y + Oracle.convBoundIn M s2 s1 y))) = true) :
    ∃ r z, (if isSub then hrSub R T a b else hrAdd R T a b) = .ok r ∧ r.unit = a.unit ∧
      R.val r.amount = some z ∧
      ratAbs (z * s1 - (if isSub then x * s1 - y * s2 else x * s1 + y * s2)) ≤
        ratAbs s1 * (M.Ea (ratAbs x + (ratAbs (s2 / s1) * ratAbs y + Oracle.convBoundIn M s2 s1 y))
          + Oracle.convBoundIn M s2 s1 y) := by
  obtain ⟨c, y', heq, hy'v, hy'e, hy'b⟩ := equiv_ok R T L b a.unit s2 s1 y hne hs2 hs1 hs1ne hy hsafe
  have hcb := convBoundIn_nonneg L.wf s2 s1 y
  have hEa := L.wf.Ea_nonneg (ratAbs x + (ratAbs (s2 / s1) * ratAbs y + Oracle.convBoundIn M s2 s1 y))
  simp only [ratAbs_eq_abs] at hsafe2 hEa ⊢
  set W := |x| + (|s2 / s1| * |y| + Oracle.convBoundIn M s2 s1 y) with hW
  have hW0 : 0 ≤ W := by positivity
  cases isSub with
  | false =>
    have hsum : ratAbs (x + y') ≤ ratAbs W := by
      simp only [ratAbs_eq_abs]
      rw [abs_of_nonneg hW0]
      calc |x + y'| ≤ |x| + |y'| := abs_add_le _ _
        _ ≤ W := by linarith
    have hs3 : M.safe (x + y') = true := by
      apply L.wf.safe_mono _ _ _ hsafe2
      refine le_trans hsum ?_
      simp only [ratAbs_eq_abs]
      exact abs_le_abs_of_nonneg hW0 (by linarith)
    have hsx : M.safe x = true := by
      apply L.wf.safe_mono _ _ _ hsafe2
      simp only [ratAbs_eq_abs]
      exact le_trans (by linarith [abs_nonneg y'] : |x| ≤ W + M.Ea W) (le_abs_self _)
    have hsy : M.safe y' = true := by
      apply L.wf.safe_mono _ _ _ hsafe2
      simp only [ratAbs_eq_abs]
      exact le_trans (by linarith [abs_nonneg x] : |y'| ≤ W + M.Ea W) (le_abs_self _)
    obtain ⟨d, z, hadd, hzv, hze⟩ := L.add_ok _ _ x y' hx hy'v hsx hsy hs3
    refine ⟨⟨d, a.unit⟩, z, ?_, rfl, hzv, ?_⟩
    · simp [hrAdd, heq, hadd, bind, Except.bind, pure, Except.pure]
    · have hE2 := L.wf.Ea_mono _ _ hsum
      rw [ratAbs_eq_abs] at hze
      have key : z * s1 - (x * s1 + y * s2) = s1 * ((z - (x + y')) + (y' - s2 / s1 * y)) := by
        field_simp; ring
      simp only [Bool.false_eq_true, if_false]
      rw [key, abs_mul]
      apply mul_le_mul_of_nonneg_left _ (abs_nonneg s1)
      calc |z - (x + y') + (y' - s2 / s1 * y)| ≤ |z - (x + y')| + |y' - s2 / s1 * y| := abs_add_le _ _
        _ ≤ _ := by linarith
  | true =>
    have hsum : ratAbs (x - y') ≤ ratAbs W := by
      simp only [ratAbs_eq_abs]
      rw [abs_of_nonneg hW0]
      calc |x - y'| ≤ |x| + |y'| := abs_sub _ _
        _ ≤ W := by linarith
    have hs3 : M.safe (x - y') = true := by
      apply L.wf.safe_mono _ _ _ hsafe2
      refine le_trans hsum ?_
      simp only [ratAbs_eq_abs]
      exact abs_le_abs_of_nonneg hW0 (by linarith)
    have hsx : M.safe x = true := by
      apply L.wf.safe_mono _ _ _ hsafe2
      simp only [ratAbs_eq_abs]
      exact le_trans (by linarith [abs_nonneg y'] : |x| ≤ W + M.Ea W) (le_abs_self _)
    have hsy : M.safe y' = true := by
      apply L.wf.safe_mono _ _ _ hsafe2
      simp only [ratAbs_eq_abs]
      exact le_trans (by linarith [abs_nonneg x] : |y'| ≤ W + M.Ea W) (le_abs_self _)
    obtain ⟨d, z, hadd, hzv, hze⟩ := L.sub_ok _ _ x y' hx hy'v hsx hsy hs3
    refine ⟨⟨d, a.unit⟩, z, ?_, rfl, hzv, ?_⟩
    · simp [hrSub, heq, hadd, bind, Except.bind, pure, Except.pure]
    · have hE2 := L.wf.Ea_mono _ _ hsum
      rw [ratAbs_eq_abs] at hze
      have key : z * s1 - (x * s1 - y * s2) = s1 * ((z - (x - y')) - (y' - s2 / s1 * y)) := by
        field_simp; ring
      simp only [if_true]
      rw [key, abs_mul]
      apply mul_le_mul_of_nonneg_left _ (abs_nonneg s1)
      calc |z - (x - y') - (y' - s2 / s1 * y)| ≤ |z - (x - y')| + |y' - s2 / s1 * y| := abs_sub _ _
        _ ≤ _ := by linarith

/-- mixed units: `a / b` is the dimensionless ratio of the magnitudes, `x·s₁/(y·s₂) = x/(ρ·y)`
with `ρ = s₂/s₁`, up to `|x|·cb/((|ρy|−cb)·|ρy|) + E(|x|/(|ρy|−cb))` -/
theorem div_ratio {M : ErrModel} (L : Laws R M) (a b : Q A U) (s1 s2 x y : Rat)
    (hne : b.unit ≠ a.unit)
    (hs1 : R.val (T.scale a.unit) = some s1) (hs2 : R.val (T.scale b.unit) = some s2) (hs1ne : s1 ≠ 0)
    (hx : R.val a.amount = some x) (hy : R.val b.amount = some y)
    (hsafe : Oracle.convSafe M s2 s1 y = true)
    (hcb : Oracle.convBoundIn M s2 s1 y < ratAbs (s2 / s1 * y))
    (hsafe2 : M.safe (ratAbs x / (ratAbs (s2 / s1 * y) - Oracle.convBoundIn M s2 s1 y)
      + M.E (ratAbs x / (ratAbs (s2 / s1 * y) - Oracle.convBoundIn M s2 s1 y))) = true) :
    ∃ c z, hrDiv R T a b = .ok c ∧ R.val c = some z ∧
      ratAbs (z - x / (s2 / s1 * y)) ≤
        ratAbs x * Oracle.convBoundIn M s2 s1 y /
            ((ratAbs (s2 / s1 * y) - Oracle.convBoundIn M s2 s1 y) * ratAbs (s2 / s1 * y))
          + M.E (ratAbs x / (ratAbs (s2 / s1 * y) - Oracle.convBoundIn M s2 s1 y)) := by
  obtain ⟨c, y', heq, hy'v, hy'e, _⟩ := equiv_ok R T L b a.unit s2 s1 y hne hs2 hs1 hs1ne hy hsafe
  have hcb0 := convBoundIn_nonneg L.wf s2 s1 y
  simp only [ratAbs_eq_abs] at hcb hsafe2 ⊢
  set t := s2 / s1 * y with ht
  set cb := Oracle.convBoundIn M s2 s1 y with hcbdef
  have hlo : 0 < |t| - cb := by linarith
  have ht0 : 0 < |t| := by linarith
  -- |y'| ≥ |t| - cb > 0
  have hy'lo : |t| - cb ≤ |y'| := by
    have := abs_sub_abs_le_abs_sub t y'
    rw [abs_sub_comm] at this
    linarith
  have hy'ne : y' ≠ 0 := by
    intro h; rw [h, abs_zero] at hy'lo; linarith
  have hy'pos : 0 < |y'| := abs_pos.mpr hy'ne
  have hq : ratAbs (x / y') ≤ ratAbs (|x| / (|t| - cb)) := by
    simp only [ratAbs_eq_abs]
    rw [abs_div, abs_div, abs_abs, abs_of_pos hlo]
    exact div_le_div_of_nonneg_left (abs_nonneg x) hlo hy'lo
  have hEq := L.wf.E_nonneg (|x| / (|t| - cb))
  have hs3 : M.safe (x / y') = true := by
    apply L.wf.safe_mono _ _ _ hsafe2
    refine le_trans hq ?_
    simp only [ratAbs_eq_abs]
    have h0 : 0 ≤ |x| / (|t| - cb) := by positivity
    exact abs_le_abs_of_nonneg h0 (by linarith)
  obtain ⟨d, z, hdiv, hzv, hze⟩ := L.div_ok _ _ x y' hx hy'v hy'ne hs3
  refine ⟨d, z, ?_, hzv, ?_⟩
  · simp [hrDiv, heq, hdiv, bind, Except.bind]
  · have hE2 := L.wf.E_mono _ _ hq
    rw [ratAbs_eq_abs] at hze
    have htne : t ≠ 0 := abs_pos.mp ht0
    have key : z - x / t = (z - x / y') + x * (t - y') / (y' * t) := by
      field_simp; ring
    rw [key]
    have h2 : |x * (t - y') / (y' * t)| ≤ |x| * cb / ((|t| - cb) * |t|) := by
      rw [abs_div, abs_mul, abs_mul]
      have hnum : |x| * |t - y'| ≤ |x| * cb := by
        apply mul_le_mul_of_nonneg_left _ (abs_nonneg x)
        rw [abs_sub_comm]; exact hy'e
      have hden : (|t| - cb) * |t| ≤ |y'| * |t| := mul_le_mul_of_nonneg_right hy'lo (le_of_lt ht0)
      have hdenpos : 0 < (|t| - cb) * |t| := mul_pos hlo ht0
      calc |x| * |t - y'| / (|y'| * |t|) ≤ |x| * cb / (|y'| * |t|) := by
            apply div_le_div_of_nonneg_right hnum (by positivity)
        _ ≤ |x| * cb / ((|t| - cb) * |t|) := by
            apply div_le_div_of_nonneg_left (by positivity) hdenpos hden
    calc |z - x / y' + x * (t - y') / (y' * t)| ≤ |z - x / y'| + |x * (t - y') / (y' * t)| := abs_add_le _ _
      _ ≤ _ := by linarith

/-- non-vacuity: the hypotheses of `addsub_mag` / `div_ratio` hold for 2 ft + 7 in (decimal) -/
example : Oracle.convSafe ErrModel.dec (254 / 10000) (3048 / 10000) 7 = true := by decide +kernel

end Qty.C03
