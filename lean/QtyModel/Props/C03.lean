import QtyModel.Tables
namespace Qty.C03
end Qty.C03
