import QtyModel.Tables
/-
  C10 — Quantities without a reference unit never mix units silently.

  Property theorems only; they hold for every arithmetic `R`, every unit type
  with decidable equality and all amounts.
-/
namespace Qty.C10
open Qty

variable {A U : Type} [DecidableEq U] (R : Arith A)

/-- two values are equal only if they have the same unit and the same amount -/
theorem eq_iff (a b : Q A U) :
    nrEq R a b = true ↔ a.unit = b.unit ∧ R.beq a.amount b.amount = true := by
  simp [nrEq]

/-- values in different units are unordered -/
theorem pcmp_diff_unit (a b : Q A U) (h : a.unit ≠ b.unit) : nrPcmp R a b = none := by
  simp [nrPcmp, h]

theorem pcmp_same_unit (a b : Q A U) (h : a.unit = b.unit) :
    nrPcmp R a b = R.pcmp a.amount b.amount := by
  simp [nrPcmp, h]

/-- adding, subtracting or dividing values in different units panics (the documented panic) -/
theorem add_diff_unit (a b : Q A U) (h : a.unit ≠ b.unit) : nrAdd R a b = .error .unitMismatch := by
  simp [nrAdd, h]
theorem sub_diff_unit (a b : Q A U) (h : a.unit ≠ b.unit) : nrSub R a b = .error .unitMismatch := by
  simp [nrSub, h]
theorem div_diff_unit (a b : Q A U) (h : a.unit ≠ b.unit) : nrDiv R a b = .error .unitMismatch := by
  simp [nrDiv, h]

/-- with equal units the operations are exactly the amount type's own on the amounts -/
theorem add_same_unit (a b : Q A U) (h : a.unit = b.unit) :
    nrAdd R a b = (R.add a.amount b.amount).map (fun x => ⟨x, a.unit⟩) := by
  simp only [nrAdd, h, if_true]; cases R.add a.amount b.amount <;> rfl
theorem sub_same_unit (a b : Q A U) (h : a.unit = b.unit) :
    nrSub R a b = (R.sub a.amount b.amount).map (fun x => ⟨x, a.unit⟩) := by
  simp only [nrSub, h, if_true]; cases R.sub a.amount b.amount <;> rfl
theorem div_same_unit (a b : Q A U) (h : a.unit = b.unit) :
    nrDiv R a b = R.div a.amount b.amount := by
  simp [nrDiv, h]

/-- a type with a single unit always reports that unit and never raises the unit-mismatch panic:
its operations are plain amount arithmetic -/
theorem single_unit_plain (hU : ∀ u v : U, u = v) (a b : Q A U) :
    nrAdd R a b = (R.add a.amount b.amount).map (fun x => ⟨x, a.unit⟩) ∧
    nrSub R a b = (R.sub a.amount b.amount).map (fun x => ⟨x, a.unit⟩) ∧
    nrDiv R a b = R.div a.amount b.amount :=
  ⟨add_same_unit R a b (hU _ _), sub_same_unit R a b (hU _ _), div_same_unit R a b (hU _ _)⟩

/-- the only panic of `+ - /` beyond the amount type's own is the unit mismatch -/
theorem only_documented_panic (a b : Q A U) (p : Panic) (h : nrAdd R a b = .error p) :
    p = .unitMismatch ∨ R.add a.amount b.amount = .error p := by
  by_cases hu : a.unit = b.unit
  · rw [add_same_unit R a b hu] at h
    cases hm : R.add a.amount b.amount with
    | error e => rw [hm] at h; simp [Except.map] at h; right; rw [h]
    | ok v => rw [hm] at h; simp [Except.map] at h
  · rw [add_diff_unit R a b hu] at h; left; cases h; rfl

/-- non-vacuity: concrete values in two different units / the same unit (decimal back-end) -/
example : nrAdd Dec.arith (⟨⟨1, 0⟩, (0 : Nat)⟩ : Q Dec Nat) ⟨⟨1, 0⟩, 1⟩ = .error .unitMismatch := by decide
example : nrAdd Dec.arith (⟨⟨15, 1⟩, (1 : Nat)⟩ : Q Dec Nat) ⟨⟨2, 0⟩, 1⟩ = .ok ⟨⟨35, 1⟩, 1⟩ := by decide
example : nrEq Dec.arith (⟨⟨1, 0⟩, (0 : Nat)⟩ : Q Dec Nat) ⟨⟨1, 0⟩, 1⟩ = false := by decide

end Qty.C10
