import QtyModel.Lemmas.DecLaws
import QtyModel.Lemmas.F64Laws
/-
  The two amount back-ends satisfy the rounding laws the numeric property
  theorems are stated over, so those theorems hold for them unconditionally
  (no hypothesis about the arithmetic is left):

  * `Dec.arith`  — exact model of `fpdec::Decimal`  (absolute error ½·10⁻¹⁸ per `*` `/`, `+ -` exact)
  * `F64.arith`  — software IEEE-754 binary64        (relative error 2⁻⁵³ plus 2⁻¹⁰⁷⁵ per operation)
-/
namespace Qty.Backends
open Qty

theorem dec_laws : Laws Dec.arith ErrModel.dec := Dec.laws
theorem f64_laws : Laws F64.arith ErrModel.f64 := F64.laws

/-- the law needs the operands in range: with only the sum bounded it is false (kernel-checked witness) -/
theorem dec_add_needs_operands_in_range :
    ¬ ∀ a b x y, Dec.arith.val a = some x → Dec.arith.val b = some y →
      ErrModel.dec.safe (x + y) = true →
      ∃ c z, Dec.arith.add a b = .ok c ∧ Dec.arith.val c = some z ∧
        ratAbs (z - (x + y)) ≤ ErrModel.dec.Ea (x + y) := Dec.add_ok_false

end Qty.Backends
