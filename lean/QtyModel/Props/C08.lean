import QtyModel.Tables
/-
  C08 — Construction and scaling by numbers are exact and unit-preserving.

  Property theorems only.  All statements hold for EVERY arithmetic `R`, every
  unit type and every amount (including NaN, ±0, ±inf: nothing about the amount
  is assumed).  They are shallow by design — the generated code is a field
  store and one call of the amount type's operator — the value of the check is
  the correspondence run that ties these definitions to the real code.
-/
namespace Qty.C08
open Qty

variable {A U : Type} (R : Arith A)

/-- constructor / `amount * unit` / `unit * amount` store exactly what was given -/
theorem new_amount (a : A) (u : U) : (Q.new a u).amount = a := rfl
theorem new_unit (a : A) (u : U) : (Q.new a u).unit = u := rfl

/-- `k * q`: unit kept, amount is literally `R.mul k q.amount` (operand order kept) -/
theorem smul_spec (k : A) (q : Q A U) :
    smul R k q = (R.mul k q.amount).map (fun a => ⟨a, q.unit⟩) := by
  unfold smul; cases R.mul k q.amount <;> rfl

/-- `q * k` -/
theorem muls_spec (q : Q A U) (k : A) :
    muls R q k = (R.mul q.amount k).map (fun a => ⟨a, q.unit⟩) := by
  unfold muls; cases R.mul q.amount k <;> rfl

/-- `q / k` -/
theorem sdiv_spec (q : Q A U) (k : A) :
    sdiv R q k = (R.div q.amount k).map (fun a => ⟨a, q.unit⟩) := by
  unfold sdiv; cases R.div q.amount k <;> rfl

theorem smul_unit (k : A) (q r : Q A U) (h : smul R k q = .ok r) : r.unit = q.unit := by
  rw [smul_spec] at h; cases hm : R.mul k q.amount <;> simp [hm, Except.map] at h; rw [← h]
theorem muls_unit (k : A) (q r : Q A U) (h : muls R q k = .ok r) : r.unit = q.unit := by
  rw [muls_spec] at h; cases hm : R.mul q.amount k <;> simp [hm, Except.map] at h; rw [← h]
theorem sdiv_unit (k : A) (q r : Q A U) (h : sdiv R q k = .ok r) : r.unit = q.unit := by
  rw [sdiv_spec] at h; cases hm : R.div q.amount k <;> simp [hm, Except.map] at h; rw [← h]

/-- the dimensionless amount is a quantity whose only unit has an empty symbol and scale one -/
theorem one_is_quantity :
    (RTable.amount R).n = 1 ∧
    ((RTable.amount R).units.toList.map (·.symbol)) = [[]] ∧
    (RTable.amount R).scaleOf R 0 = R.one ∧
    (RTable.amount R).refIx = some 0 := by
  exact ⟨rfl, rfl, rfl, rfl⟩

/-- non-vacuity: a concrete scaled value in the decimal arithmetic -/
example : smul Dec.arith ⟨3, 0⟩ (⟨⟨25, 1⟩, (2 : Nat)⟩ : Q Dec Nat) = .ok ⟨⟨75, 1⟩, 2⟩ := by decide

end Qty.C08
