import QtyModel.Props.C11
import QtyModel.Typing
/-
  C12 — Malformed quantity definitions are rejected at compile time.
  (partial: `syn` and rustc are modelled)

  One theorem per defect class: EVERY raw definition having the defect is rejected by the
  model of the macro, and the error is attached to the offending attribute (or to the
  `#[quantity]` call site / the item, where the real macro uses `abort_call_site!` / reports
  the item).  Together with `C11.expand_ok_iff` the macro accepts exactly the well-formed ones.
-/
namespace Qty.C12
open Qty Qty.MacroFront Qty.C11

/-! ### helper lemmas -/

theorem isEmpty_false_of_mem {α : Type} {l : List α} {a : α} (h : a ∈ l) : l.isEmpty = false := by
  cases l with
  | nil => simp at h
  | cons _ _ => rfl

/-- a `#[unit]` attribute failing the check of the mode makes the scan of the unit attributes
fail, at some `#[unit]` attribute -/
theorem parseUnitsIx_fails (w : Bool) (it : RawItem) (a : RawAttr) (ha : a ∈ unitAttrs it)
    (hbad : unitOk w a = false) :
    ∃ j msg b, parseUnits w (unitsIx it) = .error ⟨.attr j, msg⟩ ∧ it.attrs[j]? = some b ∧
      b.kind = .unit := by
  cases hp : parseUnits w (unitsIx it) with
  | ok us =>
    have hall : (unitAttrs it).all (unitOk w) = true := (parseUnitsIx_ok_iff w it).mp ⟨us, hp⟩
    rw [List.all_eq_true] at hall
    rw [hall a ha] at hbad
    cases hbad
  | error e =>
    obtain ⟨j, b, msg, h1, h2, rfl⟩ := parseUnitsIx_error w it e hp
    exact ⟨j, msg, b, rfl, h1, h2⟩

theorem parseArgs_error_site (args : List Tok) (e : MacroErr) (h : parseArgs args = .error e) :
    e.site = .args := by
  unfold parseArgs at h
  split at h
  · cases h
  · split at h
    · cases h
    · split at h
      · cases h
      · cases h; rfl
  · cases h; rfl

/-- a definition with no unit -/
theorem no_unit (it : RawItem) (hs : it.isStruct = true) (hg : it.hasGenerics = false)
    (hf : it.hasFields = false) (h : unitAttrs it = []) (hr : (refAttrs it).length ≤ 1) :
    ∃ msg, expand it = .error ⟨.callSite, msg⟩ := by
  have hu : (unitAttrs it).isEmpty = true := by rw [h]; rfl
  rcases declared_spec it hs hg hf with ⟨_, hd⟩ | ⟨j, r, _, _, hd⟩ | ⟨j, a, msg, h2, _, _, _⟩
  · rw [hu] at hd; exact ⟨_, expand_error_of_declared it _ hd⟩
  · rw [hu] at hd; exact ⟨_, expand_error_of_declared it _ hd⟩
  · omega

/-- more than one reference unit: reported at the second `#[ref_unit]` attribute -/
theorem two_ref_units (it : RawItem) (hs : it.isStruct = true) (hg : it.hasGenerics = false)
    (hf : it.hasFields = false) (h : 2 ≤ (refAttrs it).length) :
    ∃ j msg a, expand it = .error ⟨.attr j, msg⟩ ∧ it.attrs[j]? = some a ∧ a.kind = .refUnit := by
  rcases declared_spec it hs hg hf with ⟨hr, _⟩ | ⟨j, r, hr, _, _⟩ | ⟨j, a, msg, _, hj, hk, hd⟩
  · rw [hr] at h; simp at h
  · rw [hr] at h; simp at h
  · exact ⟨j, msg, a, expand_error_of_declared it _ hd, hj, hk⟩

/-- a scale on the reference unit: reported at the `#[ref_unit]` attribute -/
theorem scale_on_ref_unit (it : RawItem) (hs : it.isStruct = true) (hg : it.hasGenerics = false)
    (hf : it.hasFields = false) (hu : unitAttrs it ≠ []) (r : RawAttr) (hr : refAttrs it = [r])
    (u : UnitDef) (hp : parseUnit r.toks = some u) (hsc : u.scale.isSome = true) :
    ∃ j msg, expand it = .error ⟨.attr j, msg⟩ ∧ it.attrs[j]? = some r := by
  have hu' : (unitAttrs it).isEmpty = false := by
    cases h : unitAttrs it with
    | nil => exact absurd h hu
    | cons _ _ => rfl
  rcases declared_spec it hs hg hf with ⟨hr', _⟩ | ⟨j, r', hr', hj, hd⟩ | ⟨j, a, msg, h2, _, _, _⟩
  · rw [hr] at hr'; cases hr'
  · rw [hr] at hr'
    cases hr'
    rw [hu', hp] at hd
    simp only [Bool.false_eq_true, if_false, hsc, if_true] at hd
    exact ⟨j, _, expand_error_of_declared it _ hd, hj⟩
  · rw [hr] at h2; simp at h2

/-- a unit without scale next to a reference unit: reported at that `#[unit]` attribute -/
theorem unit_without_scale_beside_ref (it : RawItem) (hs : it.isStruct = true) (hg : it.hasGenerics = false)
    (hf : it.hasFields = false) (r : RawAttr) (hr : refAttrs it = [r])
    (rd : UnitDef) (hp : parseUnit r.toks = some rd) (hrs : rd.scale = none)
    (a : RawAttr) (ha : a ∈ unitAttrs it) (u : UnitDef) (hpu : parseUnit a.toks = some u) (hus : u.scale = none) :
    ∃ j msg b, expand it = .error ⟨.attr j, msg⟩ ∧ it.attrs[j]? = some b ∧ b.kind = .unit := by
  have hu' : (unitAttrs it).isEmpty = false := isEmpty_false_of_mem ha
  have hbad : unitOk true a = false := by unfold unitOk; rw [hpu]; simp [hus]
  obtain ⟨i, msg, b, hpe, hi, hb⟩ := parseUnitsIx_fails true it a ha hbad
  rcases declared_spec it hs hg hf with ⟨hr', _⟩ | ⟨j, r', hr', hj, hd⟩ | ⟨j, a, msg, h2, _, _, _⟩
  · rw [hr] at hr'; cases hr'
  · rw [hr] at hr'
    cases hr'
    rw [hu', hp] at hd
    simp only [Bool.false_eq_true, if_false, hrs, Option.isSome_none, hpe] at hd
    exact ⟨i, msg, b, expand_error_of_declared it _ hd, hi, hb⟩
  · rw [hr] at h2; simp at h2

/-- a scale or prefix without any reference unit: reported at a `#[unit]` attribute -/
theorem scale_or_prefix_without_ref (it : RawItem) (hs : it.isStruct = true) (hg : it.hasGenerics = false)
    (hf : it.hasFields = false) (hr : refAttrs it = [])
    (a : RawAttr) (ha : a ∈ unitAttrs it) (u : UnitDef) (hpu : parseUnit a.toks = some u)
    (hbad : u.scale.isSome = true ∨ u.pfx.isSome = true) :
    ∃ j msg b, expand it = .error ⟨.attr j, msg⟩ ∧ it.attrs[j]? = some b ∧ b.kind = .unit := by
  have hu' : (unitAttrs it).isEmpty = false := isEmpty_false_of_mem ha
  have hbad' : unitOk false a = false := by
    unfold unitOk; rw [hpu]
    cases hs : u.scale <;> cases hx : u.pfx <;> simp [hs, hx] at hbad ⊢
  obtain ⟨i, msg, b, hpe, hi, hb⟩ := parseUnitsIx_fails false it a ha hbad'
  rcases declared_spec it hs hg hf with ⟨_, hd⟩ | ⟨j, r', hr', _, _⟩ | ⟨j, a, msg, h2, _, _, _⟩
  · rw [hu'] at hd
    simp only [Bool.false_eq_true, if_false, hpe] at hd
    exact ⟨i, msg, b, expand_error_of_declared it _ hd, hi, hb⟩
  · rw [hr] at hr'; cases hr'
  · rw [hr] at h2; simp at h2

/-- a wrong number or kind of attribute arguments (the token list is not one of the documented
forms): reported at an attribute -/
theorem bad_attribute_arguments (it : RawItem) (hs : it.isStruct = true) (hg : it.hasGenerics = false)
    (hf : it.hasFields = false) (hr : (refAttrs it).length ≤ 1)
    (a : RawAttr) (ha : a ∈ it.attrs) (hbad : parseUnit a.toks = none) :
    ∃ j msg, expand it = .error ⟨.attr j, msg⟩ ∨ expand it = .error ⟨.callSite, msg⟩ := by
  have hbad' : ∀ w, unitOk w a = false := by intro w; unfold unitOk; rw [hbad]
  cases hk : a.kind with
  | unit =>
    have hau : a ∈ unitAttrs it := by
      unfold unitAttrs; rw [List.mem_filter]; exact ⟨ha, by simp [hk]⟩
    have hu' : (unitAttrs it).isEmpty = false := isEmpty_false_of_mem hau
    rcases declared_spec it hs hg hf with ⟨_, hd⟩ | ⟨j, r, _, _, hd⟩ | ⟨j, a, msg, h2, _, _, _⟩
    · obtain ⟨i, msg, b, hpe, _, _⟩ := parseUnitsIx_fails false it a hau (hbad' false)
      rw [hu'] at hd
      simp only [Bool.false_eq_true, if_false, hpe] at hd
      exact ⟨i, msg, Or.inl (expand_error_of_declared it _ hd)⟩
    · obtain ⟨i, msg, b, hpe, _, _⟩ := parseUnitsIx_fails true it a hau (hbad' true)
      rw [hu'] at hd
      simp only [Bool.false_eq_true, if_false] at hd
      cases hpr : parseUnit r.toks with
      | none =>
        rw [hpr] at hd
        exact ⟨j, _, Or.inl (expand_error_of_declared it _ hd)⟩
      | some rd =>
        rw [hpr] at hd
        cases hsc : rd.scale.isSome with
        | true =>
          simp only [hsc, if_true] at hd
          exact ⟨j, _, Or.inl (expand_error_of_declared it _ hd)⟩
        | false =>
          simp only [hsc, Bool.false_eq_true, if_false, hpe] at hd
          exact ⟨i, msg, Or.inl (expand_error_of_declared it _ hd)⟩
    · omega
  | refUnit =>
    have har : a ∈ refAttrs it := by
      unfold refAttrs; rw [List.mem_filter]; exact ⟨ha, by simp [hk]⟩
    rcases declared_spec it hs hg hf with ⟨hr', _⟩ | ⟨j, r, hr', _, hd⟩ | ⟨j, a, msg, h2, _, _, _⟩
    · rw [hr'] at har; simp at har
    · rw [hr'] at har
      have : a = r := by simpa using har
      subst this
      cases hu' : (unitAttrs it).isEmpty with
      | true =>
        rw [hu'] at hd
        exact ⟨0, _, Or.inr (expand_error_of_declared it _ hd)⟩
      | false =>
        rw [hu', hbad] at hd
        exact ⟨j, _, Or.inl (expand_error_of_declared it _ hd)⟩
    · omega

/-- struct fields, generic parameters, or an item that is not a struct: reported at the item -/
theorem bad_item (it : RawItem) (h : it.isStruct = false ∨ it.hasGenerics = true ∨ it.hasFields = true) :
    ∃ msg, expand it = .error ⟨.item, msg⟩ := by
  obtain ⟨msg, e⟩ := declared_item it h
  exact ⟨msg, expand_error_of_declared it _ e⟩

/-- a derivation argument other than a product or quotient of two identifiers -/
theorem bad_derivation_arg (it : RawItem) (h : WellFormedRaw { it with args := [] } = true)
    (hbad : argsOk it.args = false) : ∃ msg, expand it = .error ⟨.args, msg⟩ := by
  obtain ⟨⟨dc, hd⟩, _⟩ := (expand_ok_iff' _).mp ((expand_ok_iff _).mpr h)
  have hd' : declared it = .ok dc := hd
  rw [expand_eq, hd']
  unfold argsOk at hbad
  cases hp : parseArgs it.args with
  | ok dv => simp [hp] at hbad
  | error e =>
    have := parseArgs_error_site _ e hp
    obtain ⟨site, msg⟩ := e
    cases this
    exact ⟨msg, rfl⟩

/-- the accepted derivation arguments are exactly: nothing, `A * B`, `A / B` -/
theorem args_ok_iff (args : List Tok) :
    argsOk args = true ↔
      args = [] ∨ ∃ a b, args = [.ident a, .punct 42, .ident b] ∨ args = [.ident a, .punct 47, .ident b] := by
  constructor
  · intro h
    unfold argsOk parseArgs at h
    split at h
    · next heq =>
      split at heq
      · left; rfl
      · next l c r =>
        right
        split at heq
        · next hc => subst hc; exact ⟨l, r, Or.inl rfl⟩
        · split at heq
          · next hc => subst hc; exact ⟨l, r, Or.inr rfl⟩
          · cases heq
      · cases heq
    · cases h
  · rintro (rfl | ⟨a, b, rfl | rfl⟩) <;> rfl

/-- a derived definition whose operand or result type lacks a reference unit gets no usable
operator: the generated impls carry `HasRefUnit` bounds on both operands, and the impl table
of the type checker drops them -/
theorem derived_needs_ref_units (decls : List TyDecl) (i : OpImpl)
    (hi : i ∈ (decls.flatMap derivedImpls).filter (fun i => hasRefUnit decls i.lhs && hasRefUnit decls i.rhs)) :
    hasRefUnit decls i.lhs = true ∧ hasRefUnit decls i.rhs = true := by
  have := (List.mem_filter.mp hi).2
  simpa using this

/-- non-vacuity: the 'missing scale' program of tests/ui is rejected at its third attribute -/
example : expand
    { args := [], name := [70, 111, 111],
      attrs := [⟨.refUnit, [.ident [65], .comma, .str [97], .comma, .ident [77, 69, 71, 65]]⟩,
                ⟨.unit, [.ident [66], .comma, .str [98], .comma, .float { digits := 4, nfrac := 1, isFloat := true }]⟩,
                ⟨.unit, [.ident [67], .comma, .str [99]]⟩] }
    = .error ⟨.attr 2, "<scale> arg expected."⟩ := by
  decide +kernel

end Qty.C12
