import QtyModel.Registry
namespace Qty.C12
end Qty.C12
