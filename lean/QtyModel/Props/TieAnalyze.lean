import QtyModel.Registry
import QtyModel.Generated.Algos
/-
  Tie between code and model for the ORDER in which `analyze` (qty-macros) leaves the units:
  the statements that assign, extend and sort `qty_def.units` are executed symbolically by the
  translator along both paths (with / without `#[ref_unit]`) and re-emitted as list expressions;
  a stable sort by a comparator is `isort` by "not Greater".
-/
namespace Qty.AlgoTie
open Qty Qty.MacroFront Qty.Gen.Algos

theorem textCmp_ne_gt (x y : Text) : (textCmp x y != Ordering.gt) = textLe x y := by
  induction x generalizing y with
  | nil => cases y <;> rfl
  | cons a as ih =>
    cases y with
    | nil => rfl
    | cons b bs =>
      simp only [textCmp, textLe]
      by_cases h1 : a < b
      · simp [h1]
      · by_cases h2 : a > b
        · simp [h1, h2]
        · simp only [h1, h2, if_false]
          exact ih bs

theorem keyCmp_ne_gt (a b : UnitDef) :
    (unwrapOrd (F64.pcmp (sortKey a) (sortKey b)) != Ordering.gt) = keyLe a b := by
  unfold keyLe
  cases F64.pcmp (sortKey a) (sortKey b) with
  | none => rfl
  | some o => cases o <;> rfl

/-- with a reference unit: the reference unit (given the literal `1.0`) is put in front of the
`#[unit]` attributes in source order, then a stable sort by the `f64` value of the scale -/
theorem analyze_withRef_eq (r : UnitDef) (us : List UnitDef) :
    Analyze.withRef r us = isort keyLe (r :: us) := by
  unfold Analyze.withRef
  congr 1
  funext a b
  exact keyCmp_ne_gt a b

/-- without reference unit: a stable sort by name -/
theorem analyze_noRef_eq (us : List UnitDef) : Analyze.noRef us = isort nameLe us := by
  unfold Analyze.noRef
  congr 1
  funext a b
  exact textCmp_ne_gt a.name b.name

/-- the model's `analyze` orders what a definition declares exactly this way -/
theorem analyze_units (it : RawItem) (dc : Declared) (h : declared it = .ok dc) :
    (analyze it).map (·.units) =
      .ok (if dc.refIdent.isSome then isort keyLe dc.units else isort nameLe dc.units) := by
  unfold analyze
  rw [h]
  unfold orderOf
  cases hr : dc.refIdent <;> simp [Except.map, hr]

end Qty.AlgoTie
