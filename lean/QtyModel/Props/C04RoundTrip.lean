import QtyModel.Props.C04
import QtyModel.Props.Backends
/-
  C04, last sentence — "Consequently multiplying by a value and then dividing by it (or the
  reverse) returns the original magnitude."

  Property theorems only.  `mul_then_div_mag` composes `dmul_mag` with `ddiv_mag`
  (`(x * y) / y`), `div_then_mul_mag` composes `ddiv_mag` with `dmul_mag` (`(x / y) * y`).
  The reference-unit magnitude of the round trip is the one of `x` up to the rounding bound of
  the second operator plus the rounding bound of the first operator propagated through the
  second one (divided resp. multiplied by the magnitude `|b * sb|` of `y`).  In an exact
  arithmetic (`M.E = 0`) both bounds vanish and the magnitude is returned exactly
  (`derivedBound_exact`, `mul_then_div_mag_exact`, `div_then_mul_mag_exact`).
-/
set_option linter.unusedSectionVars false
namespace Qty.C04
open Qty

variable {A U V W : Type} [DecidableEq U] [DecidableEq V] [DecidableEq W] (R : Arith A)

/-! ### `(x * y) / y` -/

/-- Multiplying by a value and then dividing by it returns the original magnitude, up to the two
propagated rounding bounds.

Tables: `TA` (type of `x` and of the round trip's result), `TB` (type of `y`), `TQ` (type of the
product `x * y`).  Hypotheses:
* `hIQ`, `hIA`: neither result type overrides `_fit` with the identity (only `AmountT` does);
* `hrefQ`, `hrefA`: the reference units are listed in their tables;
* `ha`, `hb`: the operand amounts are finite, with exact values `a`, `b`; `hb0`: `y` is not zero;
* `hsa`, `hsb`: the operands' unit scales are finite, with exact values `sa`, `sb`; `hsb0`: the
  scale of `y`'s unit is not zero;
* `hscQ`, `hscA`: `scQ`, `scA` are the exact scales of the units of `TQ`, `TA`, all positive;
* `hsafe1`: the range condition of `dmul_mag` for `x * y`, whatever unit the product gets;
* `hsafe2`: the range condition of `ddiv_mag` for `p / y`, for EVERY amount `z` in EVERY unit `w`
  the product `p` can have according to `dmul_mag` (its magnitude `z * scQ w` is within
  `derivedBound` of the exact product), whatever unit the quotient gets.

Conclusion: both operators succeed (`p = x * y`, `q = p / y`), and the reference-unit magnitude
`z' * scA q.unit` of `q` is the reference-unit magnitude `a * sa` of `x` up to the rounding bound
of the division plus the rounding bound of the multiplication divided by `|b * sb|`. -/
theorem mul_then_div_mag {M : ErrModel} (L : Laws R M)
    (TA : QT A U) (TB : QT A V) (TQ : QT A W)
    (hIQ : TQ.fitIdentity = none) (hIA : TA.fitIdentity = none)
    (hrefQ : TQ.ref ∈ TQ.units) (hrefA : TA.ref ∈ TA.units)
    (x : Q A U) (y : Q A V) (a b sa sb : Rat)
    (ha : R.val x.amount = some a) (hb : R.val y.amount = some b) (hb0 : b ≠ 0)
    (hsa : R.val (TA.scale x.unit) = some sa) (hsb : R.val (TB.scale y.unit) = some sb)
    (hsb0 : sb ≠ 0)
    (scQ : W → Rat) (hscQ : ∀ w ∈ TQ.units, R.val (TQ.scale w) = some (scQ w) ∧ 0 < scQ w)
    (scA : U → Rat) (hscA : ∀ u ∈ TA.units, R.val (TA.scale u) = some (scA u) ∧ 0 < scA u)
    (hsafe1 : ∀ w ∈ TQ.units, Oracle.derivedSafe M (a * b) (sa * sb) (scQ w) = true)
    (hsafe2 : ∀ w ∈ TQ.units, ∀ z : Rat,
      ratAbs (z * scQ w - (a * b) * (sa * sb)) ≤ Oracle.derivedBound M (a * b) (sa * sb) (scQ w) →
      ∀ u ∈ TA.units, Oracle.derivedSafe M (z / b) (scQ w / sb) (scA u) = true) :
    ∃ (p : Q A W) (q : Q A U) (z z' : Rat),
      dmul R TA TB TQ x y = .ok p ∧ ddiv R TQ TB TA p y = .ok q ∧
      p.unit ∈ TQ.units ∧ q.unit ∈ TA.units ∧
      R.val p.amount = some z ∧ R.val q.amount = some z' ∧
      ratAbs (z' * scA q.unit - a * sa) ≤
        Oracle.derivedBound M (z / b) (scQ p.unit / sb) (scA q.unit)
          + Oracle.derivedBound M (a * b) (sa * sb) (scQ p.unit) / ratAbs (b * sb) := by
  obtain ⟨p, z, hp, hpm, hz, hb1⟩ :=
    dmul_mag R L TA TB TQ hIQ hrefQ x y a b sa sb ha hb hsa hsb scQ hscQ hsafe1
  obtain ⟨q, z', hq, hqm, hz', hb2⟩ :=
    ddiv_mag R L TQ TB TA hIA hrefA p y z b (scQ p.unit) sb hz hb hb0 (hscQ p.unit hpm).1 hsb hsb0
      scA hscA (hsafe2 p.unit hpm z hb1)
  refine ⟨p, q, z, z', hp, hq, hpm, hqm, hz, hz', ?_⟩
  simp only [ratAbs_eq_abs] at hb1 hb2 ⊢
  have hbs : b * sb ≠ 0 := mul_ne_zero hb0 hsb0
  have hpos : 0 < |b * sb| := abs_pos.mpr hbs
  have key : z' * scA q.unit - a * sa
      = (z' * scA q.unit - z / b * (scQ p.unit / sb))
        + (z * scQ p.unit - a * b * (sa * sb)) / (b * sb) := by
    field_simp
    ring
  rw [key]
  have h1 : |(z * scQ p.unit - a * b * (sa * sb)) / (b * sb)|
      ≤ Oracle.derivedBound M (a * b) (sa * sb) (scQ p.unit) / |b * sb| := by
    rw [abs_div]
    exact div_le_div_of_nonneg_right hb1 (le_of_lt hpos)
  have h2 := abs_add_le (z' * scA q.unit - z / b * (scQ p.unit / sb))
    ((z * scQ p.unit - a * b * (sa * sb)) / (b * sb))
  linarith

/-! ### `(x / y) * y` -/

/-- Dividing by a value and then multiplying by it returns the original magnitude, up to the two
propagated rounding bounds.

Tables: `TA` (type of `x` and of the round trip's result), `TB` (type of `y`), `TQ` (type of the
quotient `x / y`).  The hypotheses are the ones of `mul_then_div_mag` with the two operators
exchanged:
* `hsafe1`: the range condition of `ddiv_mag` for `x / y`, whatever unit the quotient gets;
* `hsafe2`: the range condition of `dmul_mag` for `p * y`, for EVERY amount `z` in EVERY unit `w`
  the quotient `p` can have according to `ddiv_mag`, whatever unit the product gets.

Conclusion: both operators succeed (`p = x / y`, `q = p * y`), and the reference-unit magnitude
`z' * scA q.unit` of `q` is the reference-unit magnitude `a * sa` of `x` up to the rounding bound
of the multiplication plus the rounding bound of the division multiplied by `|b * sb|`. -/
theorem div_then_mul_mag {M : ErrModel} (L : Laws R M)
    (TA : QT A U) (TB : QT A V) (TQ : QT A W)
    (hIQ : TQ.fitIdentity = none) (hIA : TA.fitIdentity = none)
    (hrefQ : TQ.ref ∈ TQ.units) (hrefA : TA.ref ∈ TA.units)
    (x : Q A U) (y : Q A V) (a b sa sb : Rat)
    (ha : R.val x.amount = some a) (hb : R.val y.amount = some b) (hb0 : b ≠ 0)
    (hsa : R.val (TA.scale x.unit) = some sa) (hsb : R.val (TB.scale y.unit) = some sb)
    (hsb0 : sb ≠ 0)
    (scQ : W → Rat) (hscQ : ∀ w ∈ TQ.units, R.val (TQ.scale w) = some (scQ w) ∧ 0 < scQ w)
    (scA : U → Rat) (hscA : ∀ u ∈ TA.units, R.val (TA.scale u) = some (scA u) ∧ 0 < scA u)
    (hsafe1 : ∀ w ∈ TQ.units, Oracle.derivedSafe M (a / b) (sa / sb) (scQ w) = true)
    (hsafe2 : ∀ w ∈ TQ.units, ∀ z : Rat,
      ratAbs (z * scQ w - (a / b) * (sa / sb)) ≤ Oracle.derivedBound M (a / b) (sa / sb) (scQ w) →
      ∀ u ∈ TA.units, Oracle.derivedSafe M (z * b) (scQ w * sb) (scA u) = true) :
    ∃ (p : Q A W) (q : Q A U) (z z' : Rat),
      ddiv R TA TB TQ x y = .ok p ∧ dmul R TQ TB TA p y = .ok q ∧
      p.unit ∈ TQ.units ∧ q.unit ∈ TA.units ∧
      R.val p.amount = some z ∧ R.val q.amount = some z' ∧
      ratAbs (z' * scA q.unit - a * sa) ≤
        Oracle.derivedBound M (z * b) (scQ p.unit * sb) (scA q.unit)
          + Oracle.derivedBound M (a / b) (sa / sb) (scQ p.unit) * ratAbs (b * sb) := by
  obtain ⟨p, z, hp, hpm, hz, hb1⟩ :=
    ddiv_mag R L TA TB TQ hIQ hrefQ x y a b sa sb ha hb hb0 hsa hsb hsb0 scQ hscQ hsafe1
  obtain ⟨q, z', hq, hqm, hz', hb2⟩ :=
    dmul_mag R L TQ TB TA hIA hrefA p y z b (scQ p.unit) sb hz hb (hscQ p.unit hpm).1 hsb
      scA hscA (hsafe2 p.unit hpm z hb1)
  refine ⟨p, q, z, z', hp, hq, hpm, hqm, hz, hz', ?_⟩
  simp only [ratAbs_eq_abs] at hb1 hb2 ⊢
  have key : z' * scA q.unit - a * sa
      = (z' * scA q.unit - z * b * (scQ p.unit * sb))
        + (z * scQ p.unit - a / b * (sa / sb)) * (b * sb) := by
    field_simp
    ring
  rw [key]
  have h1 : |(z * scQ p.unit - a / b * (sa / sb)) * (b * sb)|
      ≤ Oracle.derivedBound M (a / b) (sa / sb) (scQ p.unit) * |b * sb| := by
    rw [abs_mul]
    exact mul_le_mul_of_nonneg_right hb1 (abs_nonneg _)
  have h2 := abs_add_le (z' * scA q.unit - z * b * (scQ p.unit * sb))
    ((z * scQ p.unit - a / b * (sa / sb)) * (b * sb))
  linarith

/-! ### exact arithmetic: the magnitude is returned exactly -/

/-- in an arithmetic that does not round, the bound of a derived operator is zero -/
theorem derivedBound_exact {M : ErrModel} (hE : ∀ x, M.E x = 0) (pa ps sw : Rat) :
    Oracle.derivedBound M pa ps sw = 0 := by
  simp [Oracle.derivedBound, hE]

/-- `mul_then_div_mag` for an arithmetic that does not round: `(x * y) / y` has exactly the
reference-unit magnitude of `x` -/
theorem mul_then_div_mag_exact {M : ErrModel} (L : Laws R M) (hE : ∀ x, M.E x = 0)
    (TA : QT A U) (TB : QT A V) (TQ : QT A W)
    (hIQ : TQ.fitIdentity = none) (hIA : TA.fitIdentity = none)
    (hrefQ : TQ.ref ∈ TQ.units) (hrefA : TA.ref ∈ TA.units)
    (x : Q A U) (y : Q A V) (a b sa sb : Rat)
    (ha : R.val x.amount = some a) (hb : R.val y.amount = some b) (hb0 : b ≠ 0)
    (hsa : R.val (TA.scale x.unit) = some sa) (hsb : R.val (TB.scale y.unit) = some sb)
    (hsb0 : sb ≠ 0)
    (scQ : W → Rat) (hscQ : ∀ w ∈ TQ.units, R.val (TQ.scale w) = some (scQ w) ∧ 0 < scQ w)
    (scA : U → Rat) (hscA : ∀ u ∈ TA.units, R.val (TA.scale u) = some (scA u) ∧ 0 < scA u)
    (hsafe1 : ∀ w ∈ TQ.units, Oracle.derivedSafe M (a * b) (sa * sb) (scQ w) = true)
    (hsafe2 : ∀ w ∈ TQ.units, ∀ z : Rat,
      ratAbs (z * scQ w - (a * b) * (sa * sb)) ≤ Oracle.derivedBound M (a * b) (sa * sb) (scQ w) →
      ∀ u ∈ TA.units, Oracle.derivedSafe M (z / b) (scQ w / sb) (scA u) = true) :
    ∃ (p : Q A W) (q : Q A U) (z' : Rat),
      dmul R TA TB TQ x y = .ok p ∧ ddiv R TQ TB TA p y = .ok q ∧ q.unit ∈ TA.units ∧
      R.val q.amount = some z' ∧ z' * scA q.unit = a * sa := by
  obtain ⟨p, q, z, z', hp, hq, -, hqm, -, hz', hbound⟩ :=
    mul_then_div_mag R L TA TB TQ hIQ hIA hrefQ hrefA x y a b sa sb ha hb hb0 hsa hsb hsb0
      scQ hscQ scA hscA hsafe1 hsafe2
  refine ⟨p, q, z', hp, hq, hqm, hz', ?_⟩
  rw [derivedBound_exact hE, derivedBound_exact hE, ratAbs_eq_abs, zero_div, add_zero] at hbound
  exact sub_eq_zero.mp (abs_nonpos_iff.mp hbound)

/-- `div_then_mul_mag` for an arithmetic that does not round: `(x / y) * y` has exactly the
reference-unit magnitude of `x` -/
theorem div_then_mul_mag_exact {M : ErrModel} (L : Laws R M) (hE : ∀ x, M.E x = 0)
    (TA : QT A U) (TB : QT A V) (TQ : QT A W)
    (hIQ : TQ.fitIdentity = none) (hIA : TA.fitIdentity = none)
    (hrefQ : TQ.ref ∈ TQ.units) (hrefA : TA.ref ∈ TA.units)
    (x : Q A U) (y : Q A V) (a b sa sb : Rat)
    (ha : R.val x.amount = some a) (hb : R.val y.amount = some b) (hb0 : b ≠ 0)
    (hsa : R.val (TA.scale x.unit) = some sa) (hsb : R.val (TB.scale y.unit) = some sb)
    (hsb0 : sb ≠ 0)
    (scQ : W → Rat) (hscQ : ∀ w ∈ TQ.units, R.val (TQ.scale w) = some (scQ w) ∧ 0 < scQ w)
    (scA : U → Rat) (hscA : ∀ u ∈ TA.units, R.val (TA.scale u) = some (scA u) ∧ 0 < scA u)
    (hsafe1 : ∀ w ∈ TQ.units, Oracle.derivedSafe M (a / b) (sa / sb) (scQ w) = true)
    (hsafe2 : ∀ w ∈ TQ.units, ∀ z : Rat,
      ratAbs (z * scQ w - (a / b) * (sa / sb)) ≤ Oracle.derivedBound M (a / b) (sa / sb) (scQ w) →
      ∀ u ∈ TA.units, Oracle.derivedSafe M (z * b) (scQ w * sb) (scA u) = true) :
    ∃ (p : Q A W) (q : Q A U) (z' : Rat),
      ddiv R TA TB TQ x y = .ok p ∧ dmul R TQ TB TA p y = .ok q ∧ q.unit ∈ TA.units ∧
      R.val q.amount = some z' ∧ z' * scA q.unit = a * sa := by
  obtain ⟨p, q, z, z', hp, hq, -, hqm, -, hz', hbound⟩ :=
    div_then_mul_mag R L TA TB TQ hIQ hIA hrefQ hrefA x y a b sa sb ha hb hb0 hsa hsb hsb0
      scQ hscQ scA hscA hsafe1 hsafe2
  refine ⟨p, q, z', hp, hq, hqm, hz', ?_⟩
  rw [derivedBound_exact hE, derivedBound_exact hE, ratAbs_eq_abs, zero_mul, add_zero] at hbound
  exact sub_eq_zero.mp (abs_nonpos_iff.mp hbound)

/-! ### the second-step range condition as a finite check

`hsafe2` quantifies over every intermediate amount `z`.  `derivedSafe` is monotone in the
magnitude of the amount product, so it is enough to evaluate it once per pair of units, at the
largest magnitude the intermediate can have. -/

/-- `derivedSafe` is monotone in the magnitude of the exact amount product (quotient) -/
theorem derivedSafe_mono {M : ErrModel} (Wf : M.WF) (pa pa' ps sw : Rat) (hsw : 0 < sw)
    (hle : ratAbs pa ≤ ratAbs pa') (h : Oracle.derivedSafe M pa' ps sw = true) :
    Oracle.derivedSafe M pa ps sw = true := by
  simp only [Oracle.derivedSafe, Bool.and_eq_true] at h ⊢
  obtain ⟨⟨⟨hP, hS⟩, hX⟩, hQ⟩ := h
  have hE := Wf.E_mono pa pa' hle
  simp only [ratAbs_eq_abs] at *
  have hEpa := Wf.E_nonneg pa
  have hEps := Wf.E_nonneg ps
  set P := |pa| + M.E pa with hPd
  set P' := |pa'| + M.E pa' with hP'd
  set S := |ps| + M.E ps with hSd
  have hP0 : 0 ≤ P := by positivity
  have hS0 : 0 ≤ S := by positivity
  have hPP : P ≤ P' := by linarith
  have hPS0 : 0 ≤ P * S := by positivity
  have hPS : P * S ≤ P' * S := mul_le_mul_of_nonneg_right hPP hS0
  have hEPS : M.E (P * S) ≤ M.E (P' * S) := by
    apply Wf.E_mono
    simp only [ratAbs_eq_abs]
    rw [abs_of_nonneg hPS0, abs_of_nonneg (le_trans hPS0 hPS)]
    exact hPS
  have hEPS0 := Wf.E_nonneg (P * S)
  have hX0 : 0 ≤ P * S + M.E (P * S) := by linarith
  have hXX : P * S + M.E (P * S) ≤ P' * S + M.E (P' * S) := by linarith
  have hD0 : 0 ≤ (P * S + M.E (P * S)) / sw := div_nonneg hX0 (le_of_lt hsw)
  have hDD : (P * S + M.E (P * S)) / sw ≤ (P' * S + M.E (P' * S)) / sw :=
    div_le_div_of_nonneg_right hXX (le_of_lt hsw)
  have hED : M.E ((P * S + M.E (P * S)) / sw) ≤ M.E ((P' * S + M.E (P' * S)) / sw) := by
    apply Wf.E_mono
    simp only [ratAbs_eq_abs]
    rw [abs_of_nonneg hD0, abs_of_nonneg (le_trans hD0 hDD)]
    exact hDD
  have hED0 := Wf.E_nonneg ((P * S + M.E (P * S)) / sw)
  refine ⟨⟨⟨?_, hS⟩, ?_⟩, ?_⟩
  · apply Wf.safe_mono _ _ _ hP
    simp only [ratAbs_eq_abs]
    rw [abs_of_nonneg hP0, abs_of_nonneg (le_trans hP0 hPP)]
    exact hPP
  · apply Wf.safe_mono _ _ _ hX
    simp only [ratAbs_eq_abs]
    rw [abs_of_nonneg hX0, abs_of_nonneg (le_trans hX0 hXX)]
    exact hXX
  · apply Wf.safe_mono _ _ _ hQ
    simp only [ratAbs_eq_abs]
    have h0 : 0 ≤ (P * S + M.E (P * S)) / sw + M.E ((P * S + M.E (P * S)) / sw) := by linarith
    have hle' : (P * S + M.E (P * S)) / sw + M.E ((P * S + M.E (P * S)) / sw)
        ≤ (P' * S + M.E (P' * S)) / sw + M.E ((P' * S + M.E (P' * S)) / sw) := by linarith
    rw [abs_of_nonneg h0, abs_of_nonneg (le_trans h0 hle')]
    exact hle'

/-- an amount `z` whose magnitude `z * s` is within `B` of `c` is at most `(|c| + B) / s` -/
theorem intermediate_le (z s c B : Rat) (hs : 0 < s) (h : ratAbs (z * s - c) ≤ B) :
    ratAbs z ≤ (ratAbs c + B) / s ∧ 0 ≤ ratAbs c + B := by
  simp only [ratAbs_eq_abs] at *
  have h1 : |z * s| ≤ |c| + B := by
    have := abs_sub_abs_le_abs_sub (z * s) c
    linarith
  have h2 : 0 ≤ |c| + B := le_trans (abs_nonneg _) h1
  refine ⟨?_, h2⟩
  rw [le_div_iff₀ hs]
  rw [abs_mul, abs_of_pos hs] at h1
  exact h1

/-- `mul_then_div_mag` with the range condition of the division evaluated once per pair of
units, at the largest intermediate amount `(|a·b·sa·sb| + derivedBound) / scQ w` -/
theorem mul_then_div_mag_of_worst {M : ErrModel} (L : Laws R M)
    (TA : QT A U) (TB : QT A V) (TQ : QT A W)
    (hIQ : TQ.fitIdentity = none) (hIA : TA.fitIdentity = none)
    (hrefQ : TQ.ref ∈ TQ.units) (hrefA : TA.ref ∈ TA.units)
    (x : Q A U) (y : Q A V) (a b sa sb : Rat)
    (ha : R.val x.amount = some a) (hb : R.val y.amount = some b) (hb0 : b ≠ 0)
    (hsa : R.val (TA.scale x.unit) = some sa) (hsb : R.val (TB.scale y.unit) = some sb)
    (hsb0 : sb ≠ 0)
    (scQ : W → Rat) (hscQ : ∀ w ∈ TQ.units, R.val (TQ.scale w) = some (scQ w) ∧ 0 < scQ w)
    (scA : U → Rat) (hscA : ∀ u ∈ TA.units, R.val (TA.scale u) = some (scA u) ∧ 0 < scA u)
    (hsafe1 : ∀ w ∈ TQ.units, Oracle.derivedSafe M (a * b) (sa * sb) (scQ w) = true)
    (hsafe2 : ∀ w ∈ TQ.units, ∀ u ∈ TA.units,
      Oracle.derivedSafe M
        ((ratAbs ((a * b) * (sa * sb)) + Oracle.derivedBound M (a * b) (sa * sb) (scQ w))
          / scQ w / b)
        (scQ w / sb) (scA u) = true) :
    ∃ (p : Q A W) (q : Q A U) (z z' : Rat),
      dmul R TA TB TQ x y = .ok p ∧ ddiv R TQ TB TA p y = .ok q ∧
      p.unit ∈ TQ.units ∧ q.unit ∈ TA.units ∧
      R.val p.amount = some z ∧ R.val q.amount = some z' ∧
      ratAbs (z' * scA q.unit - a * sa) ≤
        Oracle.derivedBound M (z / b) (scQ p.unit / sb) (scA q.unit)
          + Oracle.derivedBound M (a * b) (sa * sb) (scQ p.unit) / ratAbs (b * sb) := by
  apply mul_then_div_mag R L TA TB TQ hIQ hIA hrefQ hrefA x y a b sa sb ha hb hb0 hsa hsb hsb0
    scQ hscQ scA hscA hsafe1
  intro w hw z hz u hu
  obtain ⟨hle, h0⟩ := intermediate_le z (scQ w) _ _ (hscQ w hw).2 hz
  refine derivedSafe_mono L.wf _ _ _ _ (hscA u hu).2 ?_ (hsafe2 w hw u hu)
  simp only [ratAbs_eq_abs] at *
  rw [abs_div, abs_div _ b, abs_div, abs_of_nonneg h0, abs_of_pos (hscQ w hw).2]
  exact div_le_div_of_nonneg_right hle (abs_nonneg b)

/-- `div_then_mul_mag` with the range condition of the multiplication evaluated once per pair of
units, at the largest intermediate amount `(|a/b·sa/sb| + derivedBound) / scQ w` -/
theorem div_then_mul_mag_of_worst {M : ErrModel} (L : Laws R M)
    (TA : QT A U) (TB : QT A V) (TQ : QT A W)
    (hIQ : TQ.fitIdentity = none) (hIA : TA.fitIdentity = none)
    (hrefQ : TQ.ref ∈ TQ.units) (hrefA : TA.ref ∈ TA.units)
    (x : Q A U) (y : Q A V) (a b sa sb : Rat)
    (ha : R.val x.amount = some a) (hb : R.val y.amount = some b) (hb0 : b ≠ 0)
    (hsa : R.val (TA.scale x.unit) = some sa) (hsb : R.val (TB.scale y.unit) = some sb)
    (hsb0 : sb ≠ 0)
    (scQ : W → Rat) (hscQ : ∀ w ∈ TQ.units, R.val (TQ.scale w) = some (scQ w) ∧ 0 < scQ w)
    (scA : U → Rat) (hscA : ∀ u ∈ TA.units, R.val (TA.scale u) = some (scA u) ∧ 0 < scA u)
    (hsafe1 : ∀ w ∈ TQ.units, Oracle.derivedSafe M (a / b) (sa / sb) (scQ w) = true)
    (hsafe2 : ∀ w ∈ TQ.units, ∀ u ∈ TA.units,
      Oracle.derivedSafe M
        ((ratAbs ((a / b) * (sa / sb)) + Oracle.derivedBound M (a / b) (sa / sb) (scQ w))
          / scQ w * b)
        (scQ w * sb) (scA u) = true) :
    ∃ (p : Q A W) (q : Q A U) (z z' : Rat),
      ddiv R TA TB TQ x y = .ok p ∧ dmul R TQ TB TA p y = .ok q ∧
      p.unit ∈ TQ.units ∧ q.unit ∈ TA.units ∧
      R.val p.amount = some z ∧ R.val q.amount = some z' ∧
      ratAbs (z' * scA q.unit - a * sa) ≤
        Oracle.derivedBound M (z * b) (scQ p.unit * sb) (scA q.unit)
          + Oracle.derivedBound M (a / b) (sa / sb) (scQ p.unit) * ratAbs (b * sb) := by
  apply div_then_mul_mag R L TA TB TQ hIQ hIA hrefQ hrefA x y a b sa sb ha hb hb0 hsa hsb hsb0
    scQ hscQ scA hscA hsafe1
  intro w hw z hz u hu
  obtain ⟨hle, h0⟩ := intermediate_le z (scQ w) _ _ (hscQ w hw).2 hz
  refine derivedSafe_mono L.wf _ _ _ _ (hscA u hu).2 ?_ (hsafe2 w hw u hu)
  simp only [ratAbs_eq_abs] at *
  rw [abs_mul, abs_mul _ b, abs_div, abs_of_nonneg h0, abs_of_pos (hscQ w hw).2]
  exact mul_le_mul_of_nonneg_right hle (abs_nonneg b)

/-! ### non-vacuity: `(3 m · 2 m) / 2 m` and `(6 m² / 2 m) · 2 m` in the decimal back-end -/

namespace Example

/-- lengths: unit `0` = mm (scale 0.001), unit `1` = m (scale 1, reference unit) -/
def len : QT Dec Nat :=
  { units := [0, 1], scale := fun u => if u = 0 then ⟨1, 3⟩ else ⟨1, 0⟩,
    hasPrefix := fun _ => false, ref := 1 }

/-- areas: unit `0` = mm² (scale 0.000001), unit `1` = m² (scale 1, reference unit) -/
def area : QT Dec Nat :=
  { units := [0, 1], scale := fun u => if u = 0 then ⟨1, 6⟩ else ⟨1, 0⟩,
    hasPrefix := fun _ => false, ref := 1 }

/-- exact scales of `len` -/
def scLen (u : Nat) : Rat := if u = 0 then 1 / 1000 else 1
/-- exact scales of `area` -/
def scArea (u : Nat) : Rat := if u = 0 then 1 / 1000000 else 1

end Example

open Example in
/-- the operators return the original value: `3 m · 2 m = 6 m²`, `6 m² / 2 m = 3 m`,
`3 m · 2 mm = 6000 mm²` (no unit of scale 0.001 in `area`: `_fit`), `6000 mm² / 2 mm = 3000 mm`
(the same magnitude `3000 · 0.001 = 3 · 1`, in another unit: the statement is about magnitudes) -/
example :
    dmul Dec.arith len len area ⟨⟨3, 0⟩, 1⟩ ⟨⟨2, 0⟩, 1⟩ = .ok ⟨⟨6, 0⟩, 1⟩ ∧
    ddiv Dec.arith area len len ⟨⟨6, 0⟩, 1⟩ ⟨⟨2, 0⟩, 1⟩ = .ok ⟨⟨3, 0⟩, 1⟩ ∧
    dmul Dec.arith len len area ⟨⟨3, 0⟩, 1⟩ ⟨⟨2, 0⟩, 0⟩ = .ok ⟨⟨6000, 0⟩, 0⟩ ∧
    ddiv Dec.arith area len len ⟨⟨6000, 0⟩, 0⟩ ⟨⟨2, 0⟩, 0⟩ = .ok ⟨⟨3000, 0⟩, 0⟩ := by
  decide +kernel

open Example in
/-- the range conditions for the numbers involved (first step: product `6` with scale product
`1`; second step: quotient `6 / 2` with scale quotient `1 / 1`), for both result units, and the
composed bound for the result actually returned (`6 m²`, then `3 m`): below `10⁻¹⁷` -/
example :
    Oracle.derivedSafe ErrModel.dec (3 * 2) (1 * 1) (scArea 0) = true ∧
    Oracle.derivedSafe ErrModel.dec (3 * 2) (1 * 1) (scArea 1) = true ∧
    Oracle.derivedSafe ErrModel.dec (6 / 2) (1 / 1) (scLen 0) = true ∧
    Oracle.derivedSafe ErrModel.dec (6 / 2) (1 / 1) (scLen 1) = true ∧
    Oracle.derivedBound ErrModel.dec (6 / 2) (scArea 1 / 1) (scLen 1)
      + Oracle.derivedBound ErrModel.dec (3 * 2) (1 * 1) (scArea 1) / ratAbs (2 * 1)
      ≤ 1 / pow10 17 := by
  decide +kernel

open Example in
/-- ALL hypotheses of `mul_then_div_mag` hold for `(3 m · 2 m) / 2 m` in the decimal back-end
(through `mul_then_div_mag_of_worst`, whose finite range condition the kernel evaluates), so its
conclusion does: the result has the magnitude `3 · 1` of `x` up to the composed bound. -/
example :
    ∃ (p q : Q Dec Nat) (z z' : Rat),
      dmul Dec.arith len len area ⟨⟨3, 0⟩, 1⟩ ⟨⟨2, 0⟩, 1⟩ = .ok p ∧
      ddiv Dec.arith area len len p ⟨⟨2, 0⟩, 1⟩ = .ok q ∧
      p.unit ∈ area.units ∧ q.unit ∈ len.units ∧
      Dec.arith.val p.amount = some z ∧ Dec.arith.val q.amount = some z' ∧
      ratAbs (z' * scLen q.unit - 3 * 1) ≤
        Oracle.derivedBound ErrModel.dec (z / 2) (scArea p.unit / 1) (scLen q.unit)
          + Oracle.derivedBound ErrModel.dec (3 * 2) (1 * 1) (scArea p.unit) / ratAbs (2 * 1) :=
  mul_then_div_mag_of_worst Dec.arith Backends.dec_laws len len area rfl rfl
    (by decide) (by decide) ⟨⟨3, 0⟩, 1⟩ ⟨⟨2, 0⟩, 1⟩ 3 2 1 1
    (by decide +kernel) (by decide +kernel) (by decide +kernel)
    (by decide +kernel) (by decide +kernel) (by decide +kernel)
    scArea (by decide +kernel) scLen (by decide +kernel)
    (by decide +kernel) (by decide +kernel)

open Example in
/-- the same for the reverse round trip `(6 m² / 2 m) · 2 m`, through
`div_then_mul_mag_of_worst` (here `TA = area`, `TQ = len`) -/
example :
    ∃ (p q : Q Dec Nat) (z z' : Rat),
      ddiv Dec.arith area len len ⟨⟨6, 0⟩, 1⟩ ⟨⟨2, 0⟩, 1⟩ = .ok p ∧
      dmul Dec.arith len len area p ⟨⟨2, 0⟩, 1⟩ = .ok q ∧
      p.unit ∈ len.units ∧ q.unit ∈ area.units ∧
      Dec.arith.val p.amount = some z ∧ Dec.arith.val q.amount = some z' ∧
      ratAbs (z' * scArea q.unit - 6 * 1) ≤
        Oracle.derivedBound ErrModel.dec (z * 2) (scLen p.unit * 1) (scArea q.unit)
          + Oracle.derivedBound ErrModel.dec (6 / 2) (1 / 1) (scLen p.unit) * ratAbs (2 * 1) :=
  div_then_mul_mag_of_worst Dec.arith Backends.dec_laws area len len rfl rfl
    (by decide) (by decide) ⟨⟨6, 0⟩, 1⟩ ⟨⟨2, 0⟩, 1⟩ 6 2 1 1
    (by decide +kernel) (by decide +kernel) (by decide +kernel)
    (by decide +kernel) (by decide +kernel) (by decide +kernel)
    scLen (by decide +kernel) scArea (by decide +kernel)
    (by decide +kernel) (by decide +kernel)

end Qty.C04
