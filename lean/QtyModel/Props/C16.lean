import QtyModel.SIPrefix
import QtyModel.Spec.SI
/-
  C16 — SI prefix table is a consistent bijection.

  The five hand-maintained tables of src/si_prefixes.rs are regenerated from the
  source on every run (`Generated/SI.lean`); the theorems are re-checked against
  what the source says now.  `from_abbr_iff` / `from_exp_iff` quantify over ALL
  strings / ALL integers, not over a sample.
-/
namespace Qty.C16
open Qty Qty.SIPrefix

abbrev spec := Spec.SI.rows

/-! ### the generated tables are the brochure table -/

theorem variants_match_spec : Gen.SI.variants = spec.map (fun r => (r.ident, r.exp)) := by decide +kernel
theorem names_match_spec : Gen.SI.nameArms = spec.map (fun r => (r.ident, r.name)) := by decide +kernel
theorem abbrs_match_spec : Gen.SI.abbrArms = spec.map (fun r => (r.ident, r.abbr)) := by decide +kernel
theorem from_abbr_arms_match_spec :
    Gen.SI.fromAbbrArms = spec.map (fun r => (some r.abbr, some r.ident)) ++ [(none, none)] := by decide +kernel
theorem from_exp_arms_match_spec :
    Gen.SI.fromExpArms = spec.map (fun r => (some r.exp, some r.ident)) ++ [(none, none)] := by decide +kernel

/-! ### the brochure table is one-to-one in every column, from quecto to quetta -/

theorem spec_count : spec.length = 25 := by decide
theorem ident_injective : (spec.map (·.ident)).Nodup := by decide +kernel
theorem name_injective : (spec.map (·.name)).Nodup := by decide +kernel
theorem abbr_injective : (spec.map (·.abbr)).Nodup := by decide +kernel
theorem exp_injective : (spec.map (·.exp)).Nodup := by decide +kernel
theorem exps_in_i8 : spec.all (fun r => decide (-128 ≤ r.exp ∧ r.exp ≤ 127)) = true := by decide +kernel

/-! ### generic facts about keyed lookup in a list with distinct keys -/

theorem find_key_iff {α κ : Type} [BEq κ] [LawfulBEq κ] (rows : List α) (key : α → κ)
    (h : (rows.map key).Nodup) (k : κ) (r : α) :
    rows.find? (fun x => key x == k) = some r ↔ r ∈ rows ∧ key r = k := by
  induction rows with
  | nil => simp
  | cons a as ih =>
    simp only [List.map_cons, List.nodup_cons] at h
    by_cases hk : key a = k
    · simp only [List.find?_cons, hk, beq_self_eq_true, Option.some.injEq, List.mem_cons]
      constructor
      · intro e; subst e; exact ⟨Or.inl rfl, hk⟩
      · rintro ⟨hm | hm, hr⟩
        · exact hm.symm
        · exfalso; apply h.1; rw [hk, ← hr]; exact List.mem_map_of_mem hm
    · have : (key a == k) = false := by simp [hk]
      simp only [List.find?_cons, this, List.mem_cons]
      rw [ih h.2]
      constructor
      · rintro ⟨hm, hr⟩; exact ⟨Or.inr hm, hr⟩
      · rintro ⟨hm | hm, hr⟩
        · subst hm; exact absurd hr hk
        · exact ⟨hm, hr⟩

/-- a `match` whose arms are `key r => Some(val r)` for the rows, then `_ => None` -/
theorem armsLookup_rows {α κ β : Type} [BEq κ] [LawfulBEq κ] (rows : List α) (key : α → κ) (val : α → β) (k : κ) :
    armsLookup (rows.map (fun r => (some (key r), some (val r))) ++ [(none, none)]) k =
      (rows.find? (fun x => key x == k)).map val := by
  unfold armsLookup
  induction rows with
  | nil => simp
  | cons a as ih =>
    by_cases hk : key a = k
    · simp [hk]
    · have h1 : (key a == k) = false := by simp [hk]
      have this : ((some (key a) : Option κ) == none || (some (key a) : Option κ) == some k) = false := by
        simp [hk]
      simp only [List.map_cons, List.cons_append, List.find?_cons, h1, this]
      exact ih

theorem assoc_rows {α κ β : Type} [BEq κ] [LawfulBEq κ] (rows : List α) (key : α → κ) (val : α → β) (k : κ) :
    assoc (rows.map (fun r => (key r, val r))) k = (rows.find? (fun x => key x == k)).map val := by
  unfold assoc
  induction rows with
  | nil => simp
  | cons a as ih =>
    by_cases hk : key a = k
    · simp [hk]
    · have h1 : (key a == k) = false := by simp [hk]
      simp only [List.map_cons, List.find?_cons, h1]
      exact ih

/-! ### lookup returns exactly the prefix with that abbreviation / exponent, nothing otherwise -/

/-- for EVERY string `s` and prefix `p`: `from_abbr(s) = Some(p)` iff `p.abbr() = s` -/
theorem from_abbr_iff (s p : Text) : fromAbbr s = some p ↔ abbr p = some s := by
  unfold fromAbbr abbr
  rw [from_abbr_arms_match_spec, abbrs_match_spec, armsLookup_rows spec (·.abbr) (·.ident) s,
    assoc_rows spec (·.ident) (·.abbr) p]
  simp only [Option.map_eq_some_iff]
  constructor
  · rintro ⟨r, hr, rfl⟩
    rw [find_key_iff _ _ abbr_injective] at hr
    exact ⟨r, (find_key_iff _ _ ident_injective _ _).mpr ⟨hr.1, rfl⟩, hr.2⟩
  · rintro ⟨r, hr, rfl⟩
    rw [find_key_iff _ _ ident_injective] at hr
    exact ⟨r, (find_key_iff _ _ abbr_injective _ _).mpr ⟨hr.1, rfl⟩, hr.2⟩

/-- for EVERY integer `e` and prefix `p`: `from_exp(e) = Some(p)` iff `p.exp() = e` -/
theorem from_exp_iff (e : Int) (p : Text) : fromExp e = some p ↔ exp p = some e := by
  unfold fromExp exp
  rw [from_exp_arms_match_spec, variants_match_spec, armsLookup_rows spec (·.exp) (·.ident) e,
    assoc_rows spec (·.ident) (·.exp) p]
  simp only [Option.map_eq_some_iff]
  constructor
  · rintro ⟨r, hr, rfl⟩
    rw [find_key_iff _ _ exp_injective] at hr
    exact ⟨r, (find_key_iff _ _ ident_injective _ _).mpr ⟨hr.1, rfl⟩, hr.2⟩
  · rintro ⟨r, hr, rfl⟩
    rw [find_key_iff _ _ ident_injective] at hr
    exact ⟨r, (find_key_iff _ _ exp_injective _ _).mpr ⟨hr.1, rfl⟩, hr.2⟩

/-- nothing for any other input -/
theorem from_abbr_none (s : Text) (h : ∀ r ∈ spec, r.abbr ≠ s) : fromAbbr s = none := by
  cases hf : fromAbbr s with
  | none => rfl
  | some p =>
    rw [from_abbr_iff] at hf
    unfold abbr at hf
    rw [abbrs_match_spec, assoc_rows spec (·.ident) (·.abbr) p] at hf
    simp only [Option.map_eq_some_iff] at hf
    obtain ⟨r, hr, hs⟩ := hf
    rw [find_key_iff _ _ ident_injective] at hr
    exact absurd hs (h r hr.1)

theorem from_exp_none (e : Int) (h : ∀ r ∈ spec, r.exp ≠ e) : fromExp e = none := by
  cases hf : fromExp e with
  | none => rfl
  | some p =>
    rw [from_exp_iff] at hf
    unfold exp at hf
    rw [variants_match_spec, assoc_rows spec (·.ident) (·.exp) p] at hf
    simp only [Option.map_eq_some_iff] at hf
    obtain ⟨r, hr, hs⟩ := hf
    rw [find_key_iff _ _ ident_injective] at hr
    exact absurd hs (h r hr.1)

/-! ### iteration yields every prefix once, in increasing exponent order -/

theorem iter_complete : iter = spec.map (·.ident) := by
  unfold iter; rw [variants_match_spec]; simp [List.map_map, Function.comp_def]

theorem iter_nodup : iter.Nodup := by rw [iter_complete]; exact ident_injective

theorem iter_increasing : (spec.map (·.exp)).Pairwise (· < ·) := by decide +kernel

/-- non-vacuity: concrete lookups -/
example : fromAbbr [100, 97] = some [68, 69, 67, 65] := by decide +kernel   -- "da" ↦ DECA
example : fromExp (-6) = some [77, 73, 67, 82, 79] := by decide +kernel     -- -6 ↦ MICRO
example : fromExp 4 = none := by decide +kernel
example : fromAbbr [75] = none := by decide +kernel                         -- "K"

end Qty.C16
