import QtyModel.Tables
namespace Qty.C05
end Qty.C05
