import QtyModel.Lemmas.Conv
/-
  C05 — Derived results use the natural or the best-fitting unit.

  Property theorems only.  Quantifiers: every arithmetic with `Laws`, every
  result table `T` (any number of units), every magnitude.
-/
set_option linter.unusedSectionVars false
namespace Qty.C05
open Qty

variable {A U V W : Type} [DecidableEq U] [DecidableEq V] [DecidableEq W] (R : Arith A)

/-- the eligible units: all units if the reference unit has no SI prefix, else the SI-prefixed ones -/
theorem mem_eligible (T : QT A U) (u : U) :
    u ∈ eligible T ↔ u ∈ T.units ∧ (T.hasPrefix T.ref = false ∨ T.hasPrefix u = true) := by
  simp [eligible, List.mem_filter]

/-- the reference unit is always eligible, so `_fit`'s `unwrap` cannot fail on a table that lists it -/
theorem ref_eligible (T : QT A U) (h : T.ref ∈ T.units) : T.ref ∈ eligible T := by
  rw [mem_eligible]
  refine ⟨h, ?_⟩
  cases T.hasPrefix T.ref <;> simp

theorem getLast?_filter_pairwise {α : Type} (rel : α → α → Prop) (p : α → Bool) (l : List α)
    (hl : l.Pairwise rel) (w : α) (hw : (l.filter p).getLast? = some w) :
    w ∈ l ∧ p w = true ∧ ∀ v ∈ l, p v = true → v = w ∨ rel v w := by
  have hmem : w ∈ l.filter p := List.mem_of_getLast? hw
  rw [List.mem_filter] at hmem
  refine ⟨hmem.1, hmem.2, ?_⟩
  intro v hv hpv
  obtain ⟨ys, hys⟩ := List.getLast?_eq_some_iff.mp hw
  have hpw : (l.filter p).Pairwise rel := hl.sublist List.filter_sublist
  rw [hys, List.pairwise_append] at hpw
  have hvm : v ∈ l.filter p := List.mem_filter.mpr ⟨hv, hpv⟩
  rw [hys, List.mem_append] at hvm
  rcases hvm with hvm | hvm
  · exact Or.inr (hpw.2.2 v hvm w (by simp))
  · exact Or.inl (by simpa using hvm)

/-- structure of a successful `_fit` -/
theorem fit_cases (T : QT A U) (hI : T.fitIdentity = none) (x : A) (r : Q A U)
    (h : fit R T x = .ok r) :
    ∃ first rest, eligible T = first :: rest ∧
      r.unit = ((rest.filter (fun u => R.gt (T.scale u) (T.scale first) && R.le (T.scale u) x)).getLast?.getD first) ∧
      R.div x (T.scale r.unit) = .ok r.amount := by
  unfold fit at h
  rw [hI] at h
  simp only at h
  split at h
  · cases h
  · next first rest heq =>
    refine ⟨first, rest, heq, ?_⟩
    generalize (rest.filter (fun u => R.gt (T.scale u) (T.scale first) && R.le (T.scale u) x)).getLast?.getD first = w at h ⊢
    cases hd : R.div x (T.scale w) with
    | error e => simp only [hd, bind, Except.bind] at h; cases h
    | ok v =>
      simp only [hd, bind, Except.bind, pure, Except.pure] at h
      cases h
      exact ⟨rfl, hd⟩

/- ORIGINAL STATEMENT (false as written):

    theorem fit_never_unwrap_none (T : QT A U) (h : T.ref ∈ T.units) (x : A) :
        fit R T x ≠ .error .unwrapNone

  `R` is an arbitrary arithmetic here, and `_fit` ends with `R.div x (scale u)`, whose panic it
  propagates.  Nothing prevents an abstract `R.div` from itself answering
  `.error .unwrapNone` (see `fit_unwrap_none_of_div` below for a kernel-checked witness), so
  the statement needs the hypothesis that the DIVISION does not report that panic kind.  It is
  only needed for the magnitude `x` and the scales of the eligible units; both back-ends
  satisfy it for all operands (`fit_never_unwrap_none_dec`, `fit_never_unwrap_none_f64`). -/

/-- the reference unit is always eligible, so `_fit`'s own `unwrap` cannot fail on a table that
lists it: the only way `_fit` reports `unwrap-none` is that the amount type's division does -/
theorem fit_never_unwrap_none (T : QT A U) (h : T.ref ∈ T.units) (x : A)
    (hdiv : ∀ u ∈ eligible T, R.div x (T.scale u) ≠ .error .unwrapNone) :
    fit R T x ≠ .error .unwrapNone := by
  intro hh
  unfold fit at hh
  split at hh
  · cases hh
  · split at hh
    · next heq => have := ref_eligible T h; rw [heq] at this; cases this
    · next first rest heq =>
      have hwm : (rest.filter (fun u => R.gt (T.scale u) (T.scale first) && R.le (T.scale u) x)).getLast?.getD first
          ∈ eligible T := by
        rw [heq]
        cases hl : (rest.filter (fun u => R.gt (T.scale u) (T.scale first) && R.le (T.scale u) x)).getLast? with
        | none => simp
        | some v =>
          have := List.mem_of_getLast? hl
          rw [List.mem_filter] at this
          simp [this.1]
      dsimp only at hh
      generalize (rest.filter (fun u => R.gt (T.scale u) (T.scale first) && R.le (T.scale u) x)).getLast?.getD first = w at hh hwm
      have := hdiv w hwm
      cases hd : R.div x (T.scale w) with
      | error e =>
        simp only [hd, bind, Except.bind] at hh
        cases hh; exact this hd
      | ok v =>
        simp only [hd, bind, Except.bind, pure, Except.pure] at hh
        cases hh

/-- witness that the extra hypothesis of `fit_never_unwrap_none` cannot be dropped -/
theorem fit_unwrap_none_of_div :
    ∃ (R : Arith Unit) (T : QT Unit Unit) (x : Unit),
      T.ref ∈ T.units ∧ fit R T x = .error .unwrapNone :=
  ⟨{ zero := (), one := (), add := fun _ _ => .ok (), sub := fun _ _ => .ok (),
     mul := fun _ _ => .ok (), div := fun _ _ => .error .unwrapNone, neg := fun _ => .ok (),
     beq := fun _ _ => true, pcmp := fun _ _ => some .eq, val := fun _ => some 0,
     ofLit := fun _ => some (), same := fun _ _ => true },
   { units := [()], scale := fun _ => (), hasPrefix := fun _ => false, ref := () }, (),
   by simp, by decide⟩

theorem dec_div_ne_unwrapNone (a b : Dec) : Dec.arith.div a b ≠ .error .unwrapNone := by
  show Dec.div a b ≠ _
  unfold Dec.div
  dsimp only
  split_ifs <;> simp

theorem f64_div_ne_unwrapNone (a b : F64) : F64.arith.div a b ≠ .error .unwrapNone := by
  intro h; cases h

/-- the original statement holds for both back-ends -/
theorem fit_never_unwrap_none_dec (T : QT Dec U) (h : T.ref ∈ T.units) (x : Dec) :
    fit Dec.arith T x ≠ .error .unwrapNone :=
  fit_never_unwrap_none Dec.arith T h x (fun u _ => dec_div_ne_unwrapNone x (T.scale u))

theorem fit_never_unwrap_none_f64 (T : QT F64 U) (h : T.ref ∈ T.units) (x : F64) :
    fit F64.arith T x ≠ .error .unwrapNone :=
  fit_never_unwrap_none F64.arith T h x (fun u _ => f64_div_ne_unwrapNone x (T.scale u))

/-- on a table that lists its reference unit (and does not override `_fit`), `_fit` is one
division of the magnitude by the scale of some eligible unit -/
theorem fit_eq_div (T : QT A U) (hI : T.fitIdentity = none) (h : T.ref ∈ T.units) (x : A) :
    ∃ w ∈ eligible T, fit R T x = (R.div x (T.scale w)).map (fun a => (⟨a, w⟩ : Q A U)) := by
  unfold fit
  rw [hI]
  dsimp only
  split
  · next heq => have := ref_eligible T h; rw [heq] at this; cases this
  · next first rest heq =>
    have hwm : (rest.filter (fun u => R.gt (T.scale u) (T.scale first) && R.le (T.scale u) x)).getLast?.getD first
        ∈ eligible T := by
      rw [heq]
      cases hl : (rest.filter (fun u => R.gt (T.scale u) (T.scale first) && R.le (T.scale u) x)).getLast? with
      | none => simp
      | some v =>
        have := List.mem_of_getLast? hl
        rw [List.mem_filter] at this
        simp [this.1]
    refine ⟨_, hwm, ?_⟩
    generalize (rest.filter (fun u => R.gt (T.scale u) (T.scale first) && R.le (T.scale u) x)).getLast?.getD first = w
    cases R.div x (T.scale w) <;> rfl

/-- the fitted value always carries an eligible unit (hence a unit of the result quantity)
and its amount is the magnitude divided by that unit's scale -/
theorem fit_unit_mem (T : QT A U) (hI : T.fitIdentity = none) (x : A) (r : Q A U)
    (h : fit R T x = .ok r) : r.unit ∈ eligible T ∧ R.div x (T.scale r.unit) = .ok r.amount := by
  obtain ⟨first, rest, heq, hu, hd⟩ := fit_cases R T hI x r h
  refine ⟨?_, hd⟩
  rw [heq, hu]
  cases hl : (rest.filter (fun u => R.gt (T.scale u) (T.scale first) && R.le (T.scale u) x)).getLast? with
  | none => simp
  | some v =>
    have := List.mem_of_getLast? hl
    rw [List.mem_filter] at this
    simp [this.1]

theorem gt_iff_of_val {M : ErrModel} (L : Laws R M) (c d : A) (x y : Rat)
    (hc : R.val c = some x) (hd : R.val d = some y) :
    (R.gt c d = true ↔ y < x) := by
  unfold Arith.gt
  rw [L.pcmp_val c d x y hc hd]
  unfold ratCmp
  rcases lt_trichotomy x y with h | h | h
  · simp [h, not_lt.mpr (le_of_lt h)]
  · subst h; simp
  · simp [h, not_lt.mpr (le_of_lt h), ne_of_gt h]

theorem le_iff_of_val {M : ErrModel} (L : Laws R M) (c d : A) (x y : Rat)
    (hc : R.val c = some x) (hd : R.val d = some y) :
    (R.le c d = true ↔ x ≤ y) := by
  unfold Arith.le
  rw [L.pcmp_val c d x y hc hd]
  unfold ratCmp
  rcases lt_trichotomy x y with h | h | h
  · simp [h, le_of_lt h]
  · subst h; simp
  · simp [not_lt.mpr (le_of_lt h), ne_of_gt h, not_le.mpr h]

/-- Characterisation of the unit `_fit` chooses.  `sc u` is the exact value of the scale of `u`,
`xv` the exact value of the magnitude; the eligible units are listed in non-decreasing scale
order (C09).  Either the chosen unit `w` is a largest eligible unit whose scale does not
exceed the magnitude, or no eligible unit's scale is `≤` the magnitude and `w` is a smallest one. -/
theorem fit_spec {M : ErrModel} (L : Laws R M) (T : QT A U) (hI : T.fitIdentity = none)
    (sc : U → Rat) (hsc : ∀ u ∈ eligible T, R.val (T.scale u) = some (sc u))
    (hsorted : (eligible T).Pairwise (fun u v => sc u ≤ sc v))
    (x : A) (xv : Rat) (hx : R.val x = some xv) (r : Q A U) (h : fit R T x = .ok r) :
    r.unit ∈ eligible T ∧
    ((sc r.unit ≤ xv ∧ ∀ v ∈ eligible T, sc v ≤ xv → sc v ≤ sc r.unit) ∨
     ((∀ v ∈ eligible T, xv < sc v) ∧ ∀ v ∈ eligible T, sc r.unit ≤ sc v)) := by
  refine ⟨(fit_unit_mem R T hI x r h).1, ?_⟩
  obtain ⟨first, rest, heq, hu, -⟩ := fit_cases R T hI x r h
  rw [heq] at hsc hsorted ⊢
  rw [List.pairwise_cons] at hsorted
  obtain ⟨hfirst, hrest⟩ := hsorted
  have hp : ∀ v ∈ rest, ((R.gt (T.scale v) (T.scale first) && R.le (T.scale v) x) = true ↔
      sc first < sc v ∧ sc v ≤ xv) := by
    intro v hv
    rw [Bool.and_eq_true,
      gt_iff_of_val R L _ _ _ _ (hsc v (List.mem_cons_of_mem _ hv)) (hsc first List.mem_cons_self),
      le_iff_of_val R L _ _ _ _ (hsc v (List.mem_cons_of_mem _ hv)) hx]
  rw [hu]
  cases hl : (rest.filter (fun u => R.gt (T.scale u) (T.scale first) && R.le (T.scale u) x)).getLast? with
  | none =>
    simp only [Option.getD_none]
    have hnone : ∀ v ∈ rest, ¬ (sc first < sc v ∧ sc v ≤ xv) := by
      intro v hv hc
      have hvm : v ∈ rest.filter (fun u => R.gt (T.scale u) (T.scale first) && R.le (T.scale u) x) :=
        List.mem_filter.mpr ⟨hv, (hp v hv).mpr hc⟩
      rw [List.getLast?_eq_none_iff] at hl
      rw [hl] at hvm
      cases hvm
    have hmin : ∀ v ∈ first :: rest, sc first ≤ sc v := by
      intro v hv
      rcases List.mem_cons.mp hv with rfl | hv
      · exact le_refl _
      · exact hfirst v hv
    by_cases hfx : sc first ≤ xv
    · left
      refine ⟨hfx, ?_⟩
      intro v hv hvx
      rcases List.mem_cons.mp hv with rfl | hv
      · exact le_refl _
      · by_contra hc
        exact hnone v hv ⟨not_le.mp hc, hvx⟩
    · right
      refine ⟨?_, hmin⟩
      intro v hv
      exact lt_of_lt_of_le (not_le.mp hfx) (hmin v hv)
  | some w =>
    simp only [Option.getD_some]
    obtain ⟨hwm, hpw, hall⟩ := getLast?_filter_pairwise (fun u v => sc u ≤ sc v) _ rest hrest w hl
    have hw := (hp w hwm).mp hpw
    left
    refine ⟨hw.2, ?_⟩
    intro v hv hvx
    rcases List.mem_cons.mp hv with rfl | hv
    · exact le_of_lt hw.1
    · by_cases hc : sc first < sc v
      · rcases hall v hv ((hp v hv).mpr ⟨hc, hvx⟩) with rfl | h'
        · exact le_refl _
        · exact h'
      · exact le_trans (not_lt.mp hc) (le_of_lt hw.1)

/-- natural unit: if some unit of the result quantity has a scale equal (in the amount type) to the
computed product of the operand scales, the result uses the FIRST such unit in iteration order
and its amount is exactly the amount type's product of the operand amounts -/
theorem dmul_natural (TL : QT A U) (TR : QT A V) (TO : QT A W) (l : Q A U) (r : Q A V)
    (s : A) (hs : R.mul (TL.scale l.unit) (TR.scale r.unit) = .ok s)
    (w : W) (hw : TO.units.find? (fun u => R.beq (TO.scale u) s) = some w) :
    dmul R TL TR TO l r = (R.mul l.amount r.amount).map (fun a => ⟨a, w⟩) := by
  unfold dmul
  simp only [hs, bind, Except.bind, unitFromScale, hw, pure, Except.pure]
  cases R.mul l.amount r.amount <;> rfl

theorem ddiv_natural (TL : QT A U) (TR : QT A V) (TO : QT A W) (l : Q A U) (r : Q A V)
    (s : A) (hs : R.div (TL.scale l.unit) (TR.scale r.unit) = .ok s)
    (w : W) (hw : TO.units.find? (fun u => R.beq (TO.scale u) s) = some w) :
    ddiv R TL TR TO l r = (R.div l.amount r.amount).map (fun a => ⟨a, w⟩) := by
  unfold ddiv
  simp only [hs, bind, Except.bind, unitFromScale, hw, pure, Except.pure]
  cases R.div l.amount r.amount <;> rfl

/-- otherwise the result is the fitted reference-unit magnitude `(a·b)·scale` -/
theorem dmul_fitted (TL : QT A U) (TR : QT A V) (TO : QT A W) (l : Q A U) (r : Q A V)
    (s : A) (hs : R.mul (TL.scale l.unit) (TR.scale r.unit) = .ok s)
    (hw : TO.units.find? (fun u => R.beq (TO.scale u) s) = none) :
    dmul R TL TR TO l r = (do fit R TO (← R.mul (← R.mul l.amount r.amount) s)) := by
  unfold dmul
  simp only [hs, bind, Except.bind, unitFromScale, hw]

theorem ddiv_fitted (TL : QT A U) (TR : QT A V) (TO : QT A W) (l : Q A U) (r : Q A V)
    (s : A) (hs : R.div (TL.scale l.unit) (TR.scale r.unit) = .ok s)
    (hw : TO.units.find? (fun u => R.beq (TO.scale u) s) = none) :
    ddiv R TL TR TO l r = (do fit R TO (← R.mul (← R.div l.amount r.amount) s)) := by
  unfold ddiv
  simp only [hs, bind, Except.bind, unitFromScale, hw]

/-- common tail of the two generated operator bodies -/
theorem tail_unit_mem (TO : QT A W) (hI : TO.fitIdentity = none) (s : A) (pa : Res A)
    (res : Q A W)
    (h : (match unitFromScale R TO s with
          | some u => (do return ⟨← pa, u⟩ : Res (Q A W))
          | none => (do fit R TO (← R.mul (← pa) s))) = .ok res) :
    res.unit ∈ TO.units := by
  cases hf : unitFromScale R TO s with
  | some w =>
    rw [hf] at h
    have hwm : w ∈ TO.units := List.mem_of_find?_eq_some hf
    cases hp : pa with
    | error e => simp only [hp, bind, Except.bind] at h; cases h
    | ok p =>
      simp only [hp, bind, Except.bind, pure, Except.pure] at h
      cases h; exact hwm
  | none =>
    rw [hf] at h
    cases hp : pa with
    | error e => simp only [hp, bind, Except.bind] at h; cases h
    | ok p =>
      simp only [hp, bind, Except.bind] at h
      cases hx : R.mul p s with
      | error e => simp only [hx] at h; cases h
      | ok x =>
        simp only [hx] at h
        exact ((mem_eligible TO _).mp (fit_unit_mem R TO hI x res h).1).1

/-- the result of a derived product always carries a unit of the result quantity -/
theorem dmul_unit_mem (TL : QT A U) (TR : QT A V) (TO : QT A W) (hI : TO.fitIdentity = none)
    (l : Q A U) (r : Q A V) (res : Q A W) (h : dmul R TL TR TO l r = .ok res) :
    res.unit ∈ TO.units := by
  unfold dmul at h
  cases hs : R.mul (TL.scale l.unit) (TR.scale r.unit) with
  | error e => simp only [hs, bind, Except.bind] at h; cases h
  | ok s =>
    simp only [hs, bind, Except.bind] at h
    exact tail_unit_mem R TO hI s (R.mul l.amount r.amount) res h

theorem ddiv_unit_mem (TL : QT A U) (TR : QT A V) (TO : QT A W) (hI : TO.fitIdentity = none)
    (l : Q A U) (r : Q A V) (res : Q A W) (h : ddiv R TL TR TO l r = .ok res) :
    res.unit ∈ TO.units := by
  unfold ddiv at h
  cases hs : R.div (TL.scale l.unit) (TR.scale r.unit) with
  | error e => simp only [hs, bind, Except.bind] at h; cases h
  | ok s =>
    simp only [hs, bind, Except.bind] at h
    exact tail_unit_mem R TO hI s (R.div l.amount r.amount) res h

/-- `unit_from_scale` of an amount with exact value one finds the reference unit when it is the
first unit of scale one -/
theorem unitFromScale_one {M : ErrModel} (L : Laws R M) (TO : QT A W)
    (sc : W → Rat) (hsc : ∀ u ∈ TO.units, R.val (TO.scale u) = some (sc u))
    (pre post : List W) (hunits : TO.units = pre ++ TO.ref :: post)
    (href : sc TO.ref = 1) (hpre : ∀ u ∈ pre, sc u ≠ 1)
    (s : A) (hs : R.val s = some 1) : unitFromScale R TO s = some TO.ref := by
  unfold unitFromScale
  have hb : ∀ u ∈ TO.units, R.beq (TO.scale u) s = decide (sc u = 1) :=
    fun u hu => L.beq_val _ _ _ _ (hsc u hu) hs
  have hrefm : TO.ref ∈ TO.units := by rw [hunits]; simp
  have hnone : pre.find? (fun u => R.beq (TO.scale u) s) = none := by
    rw [List.find?_eq_none]
    intro u hu
    have hum : u ∈ TO.units := by rw [hunits]; simp [hu]
    rw [hb u hum]
    simp [hpre u hu]
  have hrefb : R.beq (TO.scale TO.ref) s = true := by
    rw [hb _ hrefm]; simp [href]
  have : (pre ++ TO.ref :: post).find? (fun u => R.beq (TO.scale u) s) = some TO.ref := by
    rw [List.find?_append, hnone, List.find?_cons]
    simp [hrefb]
  rw [← hunits] at this
  exact this

/-- operands given in reference units produce a result in the reference unit, provided the
reference unit of the result comes first among its units of scale one (C09) -/
theorem dmul_ref_units {M : ErrModel} (L : Laws R M) (TL : QT A U) (TR : QT A V) (TO : QT A W)
    (l : Q A U) (r : Q A V) (hl : l.unit = TL.ref) (hr : r.unit = TR.ref)
    (hsl : R.val (TL.scale TL.ref) = some 1) (hsr : R.val (TR.scale TR.ref) = some 1)
    (sc : W → Rat) (hsc : ∀ u ∈ TO.units, R.val (TO.scale u) = some (sc u))
    (pre post : List W) (hunits : TO.units = pre ++ TO.ref :: post)
    (href : sc TO.ref = 1) (hpre : ∀ u ∈ pre, sc u ≠ 1)
    (res : Q A W) (h : dmul R TL TR TO l r = .ok res) : res.unit = TO.ref := by
  obtain ⟨s, hs, hsv⟩ := L.one_mul_val _ _ 1 hsl hsr
  rw [← hl, ← hr] at hs
  have hf := unitFromScale_one R L TO sc hsc pre post hunits href hpre s hsv
  rw [dmul_natural R TL TR TO l r s hs TO.ref hf] at h
  cases hp : R.mul l.amount r.amount with
  | error e => rw [hp] at h; cases h
  | ok p => rw [hp] at h; cases h; rfl

theorem ddiv_ref_units {M : ErrModel} (L : Laws R M) (TL : QT A U) (TR : QT A V) (TO : QT A W)
    (l : Q A U) (r : Q A V) (hl : l.unit = TL.ref) (hr : r.unit = TR.ref)
    (hsl : R.val (TL.scale TL.ref) = some 1) (hsr : R.val (TR.scale TR.ref) = some 1)
    (sc : W → Rat) (hsc : ∀ u ∈ TO.units, R.val (TO.scale u) = some (sc u))
    (pre post : List W) (hunits : TO.units = pre ++ TO.ref :: post)
    (href : sc TO.ref = 1) (hpre : ∀ u ∈ pre, sc u ≠ 1)
    (res : Q A W) (h : ddiv R TL TR TO l r = .ok res) : res.unit = TO.ref := by
  obtain ⟨s, hs, hsv⟩ := L.div_self_val _ _ 1 hsl hsr one_ne_zero
  rw [← hl, ← hr] at hs
  have hf := unitFromScale_one R L TO sc hsc pre post hunits href hpre s hsv
  rw [ddiv_natural R TL TR TO l r s hs TO.ref hf] at h
  cases hp : R.div l.amount r.amount with
  | error e => rw [hp] at h; cases h
  | ok p => rw [hp] at h; cases h; rfl

/-- non-vacuity: a three-unit table (scales 0.001, 1, 1000; no SI prefix on the reference unit)
where fitting 2500 chooses the unit with scale 1000 and fitting 0.0002 falls back to the smallest -/
example :
    let T : QT Dec Nat := { units := [0, 1, 2],
                            scale := fun u => if u = 0 then ⟨1, 3⟩ else if u = 1 then ⟨10, 1⟩ else ⟨1000, 0⟩,
                            hasPrefix := fun _ => false, ref := 1 }
    fit Dec.arith T ⟨2500, 0⟩ = .ok ⟨⟨25, 1⟩, 2⟩ ∧ fit Dec.arith T ⟨2, 4⟩ = .ok ⟨⟨2, 1⟩, 0⟩ := by
  decide +kernel

end Qty.C05
