import QtyModel.Props.C09
import QtyModel.Generated.Algos
/-
  Tie between code and model for the symbol lookups `Unit::from_symbol` and
  `Quantity::unit_from_symbol` (bodies re-emitted from src/lib.rs on every run).
-/
namespace Qty.AlgoTie
open Qty Qty.Gen.Algos

variable {A : Type} (R : Arith A)

theorem from_symbol_eq (units : List UnitDef) (s : Text) :
    Gen.Algos.Unit.from_symbol R ⟨units, (·.symbol)⟩ s = C09.fromSymbol units s := rfl

theorem unit_from_symbol_eq (units : List UnitDef) (s : Text) :
    Gen.Algos.Quantity.unit_from_symbol R ⟨units, (·.symbol)⟩ s = C09.fromSymbol units s := rfl

end Qty.AlgoTie
