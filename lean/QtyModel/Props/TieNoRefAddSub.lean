import QtyModel.Ops
import QtyModel.Generated.Algos
/-
  Tie between code and model for the ALGORITHMS (`Quantity::{add, sub}`, used by types without reference unit).

  `Generated/Algos.lean` is re-emitted from the Rust source on every run
  (tools/translate_algos.py).  Every theorem below states that the re-emitted definition IS the
  hand-written definition of `Ops.lean` which the property theorems are about.  If a change of
  the code changes what one of these functions computes, its theorem no longer checks.
-/
namespace Qty.AlgoTie
open Qty Qty.Gen.Algos

set_option linter.unusedSectionVars false
variable {A U V W : Type} [DecidableEq U] [DecidableEq V] [DecidableEq W]
variable (R : Arith A) (T : QT A U)

theorem nr_add_eq (a b : Q A U) : Quantity.add R T a b = nrAdd R a b := rfl
theorem nr_sub_eq (a b : Q A U) : Quantity.sub R T a b = nrSub R a b := rfl

end Qty.AlgoTie
