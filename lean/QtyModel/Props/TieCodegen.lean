import QtyModel.Registry
import QtyModel.Generated.Algos
/-
  Tie between code and model for the `for unit in units` loops of the code generator
  (`codegen_unit_variants`, `codegen_unit_variants_array`, `codegen_fn_name`, `codegen_fn_symbol`,
  `codegen_fn_si_prefix`, `codegen_fn_scale`, `codegen_unit_constants`): the translator executes
  each loop body symbolically (every path must emit the same arm, up to the `#[doc]` attribute)
  and re-emits the list of arms.  The model assumes that the i-th variant of the generated enum
  is the i-th unit of `analyze`'s list and that `name()`, `symbol()`, `si_prefix()`, `scale()`
  and the constants of a variant are the fields of THAT unit; these theorems derive it from the
  emitted arms (first matching arm of a Rust `match`).
-/
namespace Qty.AlgoTie
open Qty Qty.MacroFront Qty.Gen.Algos

/-- value of a Rust `match self { Self::V₁ => e₁, Self::V₂ => e₂, … }` for the variant `v` -/
def armLookup {β : Type} (arms : List (Text × β)) (v : Text) : Option β :=
  (arms.find? (fun p => p.1 == v)).map (·.2)

theorem armLookup_map {α β : Type} (l : List α) (key : α → Text) (val : α → β)
    (hn : (l.map key).Nodup) (u : α) (hu : u ∈ l) :
    armLookup (l.map (fun x => (key x, val x))) (key u) = some (val u) := by
  induction l with
  | nil => cases hu
  | cons a l ih =>
    simp only [List.map_cons, List.nodup_cons] at hn
    unfold armLookup
    simp only [List.map_cons, List.find?_cons]
    by_cases h : key a = key u
    · simp only [h, beq_self_eq_true, Option.map_some]
      rcases List.mem_cons.mp hu with rfl | hm
      · rfl
      · exact absurd (List.mem_map.mpr ⟨u, hm, h.symm⟩) hn.1
    · have hb : (key a == key u) = false := by simpa using h
      simp only [hb]
      rcases List.mem_cons.mp hu with rfl | hm
      · exact absurd rfl h
      · exact ih hn.2 hm

theorem armLookup_none {α β : Type} (l : List α) (key : α → Text) (val : α → β) (v : Text)
    (h : ∀ x ∈ l, key x ≠ v) : armLookup (l.map (fun x => (key x, val x))) v = none := by
  induction l with
  | nil => rfl
  | cons a l ih =>
    unfold armLookup
    have hb : (key a == v) = false := by simpa using h a (List.mem_cons_self ..)
    simp only [List.map_cons, List.find?_cons, hb]
    exact ih (fun x hx => h x (List.mem_cons_of_mem _ hx))

/-- enum variants and the `VARIANTS` array (what `iter()` walks) are the units in `analyze`'s order -/
theorem variants_in_order (units : List UnitDef) :
    Codegen.variants units = units.map (·.ident) ∧ Codegen.variants_array units = units.map (·.ident) :=
  ⟨rfl, rfl⟩

theorem name_of_variant (units : List UnitDef) (hn : (units.map (·.ident)).Nodup) (u : UnitDef) (hu : u ∈ units) :
    armLookup (Codegen.fn_name units) u.ident = some u.name :=
  armLookup_map units (·.ident) (·.name) hn u hu

theorem symbol_of_variant (units : List UnitDef) (hn : (units.map (·.ident)).Nodup) (u : UnitDef) (hu : u ∈ units) :
    armLookup (Codegen.fn_symbol units) u.ident = some u.symbol :=
  armLookup_map units (·.ident) (·.symbol) hn u hu

theorem nodup_filter_map {α : Type} (l : List α) (p : α → Bool) (key : α → Text) (hn : (l.map key).Nodup) :
    ((l.filter p).map key).Nodup := by
  induction l with
  | nil => exact List.nodup_nil
  | cons a l ih =>
    simp only [List.map_cons, List.nodup_cons] at hn
    simp only [List.filter_cons]
    split
    · simp only [List.map_cons, List.nodup_cons]
      refine ⟨?_, ih hn.2⟩
      intro hm
      obtain ⟨x, hx, hk⟩ := List.mem_map.mp hm
      exact hn.1 (List.mem_map.mpr ⟨x, (List.mem_filter.mp hx).1, hk⟩)
    · exact ih hn.2

/-- `si_prefix()`: the unit's own prefix, `None` (the `_ => None` arm) for units without one -/
theorem si_prefix_of_variant (units : List UnitDef) (hn : (units.map (·.ident)).Nodup) (u : UnitDef) (hu : u ∈ units) :
    (armLookup (Codegen.fn_si_prefix units) u.ident).getD none = u.pfx := by
  unfold Codegen.fn_si_prefix
  by_cases hp : u.pfx.isSome
  · rw [armLookup_map (units.filter (fun unit => unit.pfx.isSome)) (·.ident) (·.pfx)
      (nodup_filter_map units _ _ hn) u (List.mem_filter.mpr ⟨hu, hp⟩)]
    rfl
  · rw [armLookup_none]
    · cases h : u.pfx with
      | none => rfl
      | some x => simp [h] at hp
    · intro x hx hk
      obtain ⟨hxm, hxp⟩ := List.mem_filter.mp hx
      -- x and u have the same identifier, so they are the same element of a list without duplicates
      have : x = u := by
        clear hp hxp hx
        induction units with
        | nil => cases hu
        | cons a l ih =>
          simp only [List.map_cons, List.nodup_cons] at hn
          rcases List.mem_cons.mp hxm with rfl | hxl <;> rcases List.mem_cons.mp hu with rfl | hul
          · rfl
          · exact absurd (List.mem_map.mpr ⟨u, hul, hk.symm⟩) hn.1
          · exact absurd (List.mem_map.mpr ⟨x, hxl, hk⟩) hn.1
          · exact ih hn.2 hul hxl
      subst this
      exact hp hxp

/-- `scale()`: `Amnt!(<the unit's own scale literal>)` -/
theorem scale_of_variant (units : List UnitDef) (hn : (units.map (·.ident)).Nodup) (u : UnitDef) (hu : u ∈ units)
    (hs : u.scale.isSome) : armLookup (Codegen.fn_scale units) u.ident = some u.scale := by
  unfold Codegen.fn_scale
  exact armLookup_map (units.filter (fun unit => unit.scale.isSome)) (·.ident) (·.scale)
    (nodup_filter_map units _ _ hn) u (List.mem_filter.mpr ⟨hu, hs⟩)

end Qty.AlgoTie
