import QtyModel.Tables
namespace Qty.C04
end Qty.C04
