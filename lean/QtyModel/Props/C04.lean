import QtyModel.Props.C05
import QtyModel.Props.C02
import QtyModel.Derived
/-
  C04 — Derived products and quotients preserve the physical value.

  Property theorems only.  The bound `Oracle.derivedBound` is the expression the
  run-time oracle `Oracle.c04` evaluates on implementation outputs.
-/
set_option linter.unusedSectionVars false
namespace Qty.C04
open Qty

variable {A U V W : Type} [DecidableEq U] [DecidableEq V] [DecidableEq W] (R : Arith A)

/-- which operators a derivation generates: `Q = L * R` gives `L*R`, `R*L` (once if `L = R`),
`Q/R = L` and `Q/L = R`; `Q = L / R` gives `L/R`, `Q*R`, `R*Q` and `L/Q = R` -/
theorem impls_of_product (q l r : Text) (h : l ≠ r) :
    implsOf q (some ⟨l, true, r⟩) =
      [⟨true, l, r, q⟩, ⟨true, r, l, q⟩, ⟨false, q, r, l⟩, ⟨false, q, l, r⟩] := by
  simp [implsOf, implMulQties, implDivQties, h]

theorem impls_of_square (q l : Text) :
    implsOf q (some ⟨l, true, l⟩) = [⟨true, l, l, q⟩, ⟨false, q, l, l⟩] := by
  simp [implsOf, implMulQties, implDivQties]

theorem impls_of_quotient (q l r : Text) (h : q ≠ r) :
    implsOf q (some ⟨l, false, r⟩) =
      [⟨false, l, r, q⟩, ⟨true, q, r, l⟩, ⟨true, r, q, l⟩, ⟨false, l, q, r⟩] := by
  simp [implsOf, implMulQties, implDivQties, h]

/-- Common tail of the generated `Mul`/`Div` bodies: `p` is the computed product (quotient) of
the amounts, `s` the computed product (quotient) of the unit scales. -/
theorem tail_mag {M : ErrModel} (L : Laws R M) (TO : QT A W)
    (hI : TO.fitIdentity = none) (href : TO.ref ∈ TO.units)
    (pa ps : Rat) (p s : A) (pv sv : Rat)
    (hp : R.val p = some pv) (hs : R.val s = some sv)
    (hpe : |pv - pa| ≤ M.E pa) (hse : |sv - ps| ≤ M.E ps)
    (sc : W → Rat) (hsc : ∀ u ∈ TO.units, R.val (TO.scale u) = some (sc u) ∧ sc u ≠ 0)
    (hsafe : ∀ u ∈ TO.units, Oracle.derivedSafe M pa ps (sc u) = true)
    (hneg : ∀ u ∈ TO.units, sc u < 0 →
      M.safe (((ratAbs pa + M.E pa) * (ratAbs ps + M.E ps)
        + M.E ((ratAbs pa + M.E pa) * (ratAbs ps + M.E ps))) / sc u) = true) :
    ∃ res z,
      ((∃ w, unitFromScale R TO s = some w ∧ res = ⟨p, w⟩) ∨
       (unitFromScale R TO s = none ∧ ∃ x, R.mul p s = .ok x ∧ fit R TO x = .ok res)) ∧
      res.unit ∈ TO.units ∧ R.val res.amount = some z ∧
      ratAbs (z * sc res.unit - pa * ps) ≤ Oracle.derivedBound M pa ps (sc res.unit) := by
  simp only [Oracle.derivedSafe, Oracle.derivedBound, Bool.and_eq_true, ratAbs_eq_abs] at *
  have hEpa := L.wf.E_nonneg pa
  have hEps := L.wf.E_nonneg ps
  set P := |pa| + M.E pa with hPdef
  set S := |ps| + M.E ps with hSdef
  have hP0 : 0 ≤ P := by positivity
  have hS0 : 0 ≤ S := by positivity
  have hEPS := L.wf.E_nonneg (P * S)
  have hP : |pv| ≤ P := by
    have := abs_sub_abs_le_abs_sub pv pa
    linarith
  have hS : |sv| ≤ S := by
    have := abs_sub_abs_le_abs_sub sv ps
    linarith
  have hcore : |pv * sv - pa * ps| ≤ P * M.E ps + |ps| * M.E pa := by
    have key : pv * sv - pa * ps = pv * (sv - ps) + ps * (pv - pa) := by ring
    rw [key]
    calc |pv * (sv - ps) + ps * (pv - pa)|
        ≤ |pv * (sv - ps)| + |ps * (pv - pa)| := abs_add_le _ _
      _ = |pv| * |sv - ps| + |ps| * |pv - pa| := by rw [abs_mul, abs_mul]
      _ ≤ P * M.E ps + |ps| * M.E pa := by
          have h1 := mul_le_mul hP hse (abs_nonneg _) hP0
          have h2 := mul_le_mul_of_nonneg_left hpe (abs_nonneg ps)
          linarith
  cases hf : unitFromScale R TO s with
  | some w =>
    have hwm : w ∈ TO.units := List.mem_of_find?_eq_some hf
    have hwb : R.beq (TO.scale w) s = true :=
      List.find?_some (p := fun u => R.beq (TO.scale u) s) hf
    rw [L.beq_val _ _ _ _ (hsc w hwm).1 hs] at hwb
    have hsw : sc w = sv := by simpa using hwb
    refine ⟨⟨p, w⟩, pv, Or.inl ⟨w, rfl, rfl⟩, hwm, hp, ?_⟩
    dsimp only
    rw [hsw]
    have h1 := L.wf.E_nonneg ((P * S + M.E (P * S)) / sv)
    have h2 : 0 ≤ |sv| * M.E ((P * S + M.E (P * S)) / sv) := by positivity
    linarith
  | none =>
    obtain ⟨⟨⟨hsP, hsS⟩, hsX⟩, -⟩ := hsafe TO.ref href
    have hPS0 : 0 ≤ P * S := by positivity
    have hpvsv : |pv * sv| ≤ P * S := by
      rw [abs_mul]; exact mul_le_mul hP hS (abs_nonneg _) hP0
    have hsafe1 : M.safe (pv * sv) = true := by
      apply L.wf.safe_mono _ _ _ hsX
      simp only [ratAbs_eq_abs]
      rw [abs_of_nonneg (by linarith : 0 ≤ P * S + M.E (P * S))]
      linarith
    obtain ⟨x, xv, hmul, hxv, hxe⟩ := L.mul_ok p s pv sv hp hs hsafe1
    rw [ratAbs_eq_abs] at hxe
    have hE1 : M.E (pv * sv) ≤ M.E (P * S) := by
      apply L.wf.E_mono
      simp only [ratAbs_eq_abs]
      rw [abs_of_nonneg hPS0]; exact hpvsv
    have hX0 : 0 ≤ P * S + M.E (P * S) := by linarith
    have hxvX : |xv| ≤ P * S + M.E (P * S) := by
      have := abs_sub_abs_le_abs_sub xv (pv * sv)
      linarith
    obtain ⟨w, hwel, hfit⟩ := C05.fit_eq_div R TO hI href x
    have hwm : w ∈ TO.units := ((C05.mem_eligible TO w).mp hwel).1
    obtain ⟨hswv, hsw0⟩ := hsc w hwm
    obtain ⟨-, hsQ⟩ := hsafe w hwm
    have hquot : |xv / sc w| ≤ |(P * S + M.E (P * S)) / sc w| := by
      rw [abs_div, abs_div, abs_of_nonneg hX0]
      exact div_le_div_of_nonneg_right hxvX (abs_nonneg _)
    have hsafe2 : M.safe (xv / sc w) = true := by
      rcases lt_or_gt_of_ne hsw0 with hlt | hgt
      · apply L.wf.safe_mono _ _ _ (hneg w hwm hlt)
        simp only [ratAbs_eq_abs]; exact hquot
      · apply L.wf.safe_mono _ _ _ hsQ
        simp only [ratAbs_eq_abs]
        refine le_trans hquot ?_
        have h1 : 0 ≤ (P * S + M.E (P * S)) / sc w := div_nonneg hX0 (le_of_lt hgt)
        have h2 := L.wf.E_nonneg ((P * S + M.E (P * S)) / sc w)
        rw [abs_of_nonneg h1, abs_of_nonneg (by linarith)]
        linarith
    obtain ⟨c, z, hdiv, hzv, hze⟩ := L.div_ok x (TO.scale w) xv (sc w) hxv hswv hsw0 hsafe2
    rw [ratAbs_eq_abs] at hze
    have hE2 : M.E (xv / sc w) ≤ M.E ((P * S + M.E (P * S)) / sc w) := by
      apply L.wf.E_mono
      simp only [ratAbs_eq_abs]; exact hquot
    rw [hdiv] at hfit
    refine ⟨⟨c, w⟩, z, Or.inr ⟨rfl, x, hmul, hfit⟩, hwm, hzv, ?_⟩
    dsimp only
    have key : z * sc w - pa * ps
        = sc w * (z - xv / sc w) + (xv - pv * sv) + (pv * sv - pa * ps) := by
      field_simp; ring
    rw [key]
    have h1 : |sc w * (z - xv / sc w)| ≤ |sc w| * M.E ((P * S + M.E (P * S)) / sc w) := by
      rw [abs_mul]
      exact mul_le_mul_of_nonneg_left (le_trans hze hE2) (abs_nonneg _)
    have h2 := abs_add_le (sc w * (z - xv / sc w) + (xv - pv * sv)) (pv * sv - pa * ps)
    have h3 := abs_add_le (sc w * (z - xv / sc w)) (xv - pv * sv)
    linarith

/-- the exact product (quotient) of the amounts and of the scales are in range -/
theorem safe_of_derivedSafe {M : ErrModel} (Wf : M.WF) (pa ps sw : Rat)
    (h : Oracle.derivedSafe M pa ps sw = true) : M.safe pa = true ∧ M.safe ps = true := by
  simp only [Oracle.derivedSafe, Bool.and_eq_true, ratAbs_eq_abs] at h
  obtain ⟨⟨⟨hsP, hsS⟩, -⟩, -⟩ := h
  have hEpa := Wf.E_nonneg pa
  have hEps := Wf.E_nonneg ps
  constructor
  · apply Wf.safe_mono _ _ _ hsP
    simp only [ratAbs_eq_abs]
    rw [abs_of_nonneg (by positivity : 0 ≤ |pa| + M.E pa)]; linarith
  · apply Wf.safe_mono _ _ _ hsS
    simp only [ratAbs_eq_abs]
    rw [abs_of_nonneg (by positivity : 0 ≤ |ps| + M.E ps)]; linarith

/-- General form of `dmul_mag`: scales only non-zero, but for every NEGATIVE result-unit scale the
quotient `X / s_u` itself (not only `X / s_u + E (X / s_u)`, which `derivedSafe` checks and which
may cancel when `X / s_u < 0`) has to be in range.  `X` is the intermediate of `derivedBound`. -/
theorem dmul_mag_gen {M : ErrModel} (L : Laws R M) (TL : QT A U) (TR : QT A V) (TO : QT A W)
    (hI : TO.fitIdentity = none) (href : TO.ref ∈ TO.units)
    (l : Q A U) (r : Q A V) (a b sl sr : Rat)
    (ha : R.val l.amount = some a) (hb : R.val r.amount = some b)
    (hsl : R.val (TL.scale l.unit) = some sl) (hsr : R.val (TR.scale r.unit) = some sr)
    (sc : W → Rat) (hsc : ∀ u ∈ TO.units, R.val (TO.scale u) = some (sc u) ∧ sc u ≠ 0)
    (hsafe : ∀ u ∈ TO.units, Oracle.derivedSafe M (a * b) (sl * sr) (sc u) = true)
    (hneg : ∀ u ∈ TO.units, sc u < 0 →
      M.safe (((ratAbs (a * b) + M.E (a * b)) * (ratAbs (sl * sr) + M.E (sl * sr))
        + M.E ((ratAbs (a * b) + M.E (a * b)) * (ratAbs (sl * sr) + M.E (sl * sr)))) / sc u) = true) :
    ∃ res z, dmul R TL TR TO l r = .ok res ∧ res.unit ∈ TO.units ∧ R.val res.amount = some z ∧
      ratAbs (z * sc res.unit - (a * b) * (sl * sr)) ≤
        Oracle.derivedBound M (a * b) (sl * sr) (sc res.unit) := by
  obtain ⟨hs1, hs2⟩ := safe_of_derivedSafe L.wf _ _ _ (hsafe TO.ref href)
  obtain ⟨s, sv, hsmul, hsv, hse⟩ := L.mul_ok _ _ sl sr hsl hsr hs2
  obtain ⟨p, pv, hpmul, hpv, hpe⟩ := L.mul_ok _ _ a b ha hb hs1
  rw [ratAbs_eq_abs] at hse hpe
  obtain ⟨res, z, hcase, hmem, hz, hbound⟩ :=
    tail_mag R L TO hI href (a * b) (sl * sr) p s pv sv hpv hsv hpe hse sc hsc hsafe hneg
  refine ⟨res, z, ?_, hmem, hz, hbound⟩
  rcases hcase with ⟨w, hf, rfl⟩ | ⟨hf, x, hx, hfit⟩
  · simp [dmul, hsmul, hpmul, hf, bind, Except.bind, pure, Except.pure]
  · simp [dmul, hsmul, hpmul, hf, hx, hfit, bind, Except.bind]

/-- general form of `ddiv_mag`, see `dmul_mag_gen` -/
theorem ddiv_mag_gen {M : ErrModel} (L : Laws R M) (TL : QT A U) (TR : QT A V) (TO : QT A W)
    (hI : TO.fitIdentity = none) (href : TO.ref ∈ TO.units)
    (l : Q A U) (r : Q A V) (a b sl sr : Rat)
    (ha : R.val l.amount = some a) (hb : R.val r.amount = some b) (hb0 : b ≠ 0)
    (hsl : R.val (TL.scale l.unit) = some sl) (hsr : R.val (TR.scale r.unit) = some sr) (hsr0 : sr ≠ 0)
    (sc : W → Rat) (hsc : ∀ u ∈ TO.units, R.val (TO.scale u) = some (sc u) ∧ sc u ≠ 0)
    (hsafe : ∀ u ∈ TO.units, Oracle.derivedSafe M (a / b) (sl / sr) (sc u) = true)
    (hneg : ∀ u ∈ TO.units, sc u < 0 →
      M.safe (((ratAbs (a / b) + M.E (a / b)) * (ratAbs (sl / sr) + M.E (sl / sr))
        + M.E ((ratAbs (a / b) + M.E (a / b)) * (ratAbs (sl / sr) + M.E (sl / sr)))) / sc u) = true) :
    ∃ res z, ddiv R TL TR TO l r = .ok res ∧ res.unit ∈ TO.units ∧ R.val res.amount = some z ∧
      ratAbs (z * sc res.unit - (a / b) * (sl / sr)) ≤
        Oracle.derivedBound M (a / b) (sl / sr) (sc res.unit) := by
  obtain ⟨hs1, hs2⟩ := safe_of_derivedSafe L.wf _ _ _ (hsafe TO.ref href)
  obtain ⟨s, sv, hsdiv, hsv, hse⟩ := L.div_ok _ _ sl sr hsl hsr hsr0 hs2
  obtain ⟨p, pv, hpdiv, hpv, hpe⟩ := L.div_ok _ _ a b ha hb hb0 hs1
  rw [ratAbs_eq_abs] at hse hpe
  obtain ⟨res, z, hcase, hmem, hz, hbound⟩ :=
    tail_mag R L TO hI href (a / b) (sl / sr) p s pv sv hpv hsv hpe hse sc hsc hsafe hneg
  refine ⟨res, z, ?_, hmem, hz, hbound⟩
  rcases hcase with ⟨w, hf, rfl⟩ | ⟨hf, x, hx, hfit⟩
  · simp [ddiv, hsdiv, hpdiv, hf, bind, Except.bind, pure, Except.pure]
  · simp [ddiv, hsdiv, hpdiv, hf, hx, hfit, bind, Except.bind]

/- ORIGINAL STATEMENTS of `dmul_mag` / `ddiv_mag` (false as written): identical to the ones below
  except for

      (hsc : ∀ u ∈ TO.units, R.val (TO.scale u) = some (sc u) ∧ sc u ≠ 0)

  i.e. the result-unit scales were only assumed NON-ZERO.  For a negative scale `s_u` the last
  conjunct of `derivedSafe`, `safe (X / s_u + E (X / s_u))`, does not imply that the quotient
  `x / s_u` computed by `_fit` is in range: `X / s_u` is negative, `E` is non-negative, and the
  sum can cancel (down to zero).  `dmul_mag_false_for_negative_scale` and
  `ddiv_mag_false_for_negative_scale` below are kernel-checked witnesses (an arithmetic satisfying
  `Laws`, a result unit of scale `-1/100`, all original hypotheses true, the operator overflows).
  Corrected: the scales of the result units are POSITIVE (as every scale of a generated unit table
  is).  `dmul_mag_gen` / `ddiv_mag_gen` keep `≠ 0` and state the weakest side condition instead. -/

/-- The reference-unit magnitude of `l * r` is the exact product of the operands'
reference-unit magnitudes up to `derivedBound`, on BOTH branches of the generated body
(natural unit found by `unit_from_scale`, or `_fit`).
`a`, `b`: exact operand amounts; `sl`, `sr`: exact operand unit scales; `sc`: exact (positive)
scales of the result quantity's units. -/
theorem dmul_mag {M : ErrModel} (L : Laws R M) (TL : QT A U) (TR : QT A V) (TO : QT A W)
    (hI : TO.fitIdentity = none) (href : TO.ref ∈ TO.units)
    (l : Q A U) (r : Q A V) (a b sl sr : Rat)
    (ha : R.val l.amount = some a) (hb : R.val r.amount = some b)
    (hsl : R.val (TL.scale l.unit) = some sl) (hsr : R.val (TR.scale r.unit) = some sr)
    (sc : W → Rat) (hsc : ∀ u ∈ TO.units, R.val (TO.scale u) = some (sc u) ∧ 0 < sc u)
    (hsafe : ∀ u ∈ TO.units, Oracle.derivedSafe M (a * b) (sl * sr) (sc u) = true) :
    ∃ res z, dmul R TL TR TO l r = .ok res ∧ res.unit ∈ TO.units ∧ R.val res.amount = some z ∧
      ratAbs (z * sc res.unit - (a * b) * (sl * sr)) ≤
        Oracle.derivedBound M (a * b) (sl * sr) (sc res.unit) :=
  dmul_mag_gen R L TL TR TO hI href l r a b sl sr ha hb hsl hsr sc
    (fun u hu => ⟨(hsc u hu).1, ne_of_gt (hsc u hu).2⟩) hsafe
    (fun u hu hlt => absurd hlt (not_lt.mpr (le_of_lt (hsc u hu).2)))

/-- the same for `l / r` (non-zero divisor amount and divisor scale) -/
theorem ddiv_mag {M : ErrModel} (L : Laws R M) (TL : QT A U) (TR : QT A V) (TO : QT A W)
    (hI : TO.fitIdentity = none) (href : TO.ref ∈ TO.units)
    (l : Q A U) (r : Q A V) (a b sl sr : Rat)
    (ha : R.val l.amount = some a) (hb : R.val r.amount = some b) (hb0 : b ≠ 0)
    (hsl : R.val (TL.scale l.unit) = some sl) (hsr : R.val (TR.scale r.unit) = some sr) (hsr0 : sr ≠ 0)
    (sc : W → Rat) (hsc : ∀ u ∈ TO.units, R.val (TO.scale u) = some (sc u) ∧ 0 < sc u)
    (hsafe : ∀ u ∈ TO.units, Oracle.derivedSafe M (a / b) (sl / sr) (sc u) = true) :
    ∃ res z, ddiv R TL TR TO l r = .ok res ∧ res.unit ∈ TO.units ∧ R.val res.amount = some z ∧
      ratAbs (z * sc res.unit - (a / b) * (sl / sr)) ≤
        Oracle.derivedBound M (a / b) (sl / sr) (sc res.unit) :=
  ddiv_mag_gen R L TL TR TO hI href l r a b sl sr ha hb hb0 hsl hsr hsr0 sc
    (fun u hu => ⟨(hsc u hu).1, ne_of_gt (hsc u hu).2⟩) hsafe
    (fun u hu hlt => absurd hlt (not_lt.mpr (le_of_lt (hsc u hu).2)))

/-! ### why the scales have to be positive: kernel-checked witnesses -/

namespace NegScale

/-- a (contrived) rounding model: relative error up to 100 %, range `[-10, 10]` -/
def M : ErrModel := { E := fun x => ratAbs x, Ea := fun _ => 0, safe := fun x => decide (ratAbs x ≤ 10) }

/-- exact rational arithmetic that overflows outside the range of `M` (except where
`Laws` demands an exact answer) -/
def Rq : Arith Rat where
  zero := 0
  one := 1
  add := fun a b => .ok (a + b)
  sub := fun a b => .ok (a - b)
  mul := fun a b =>
    if M.safe (a * b) || decide (a = 1) || decide (b = 1) then .ok (a * b) else .error .overflow
  div := fun a b =>
    if b = 0 then .error .divByZero
    else if M.safe (a / b) || decide (b = 1) then .ok (a / b) else .error .overflow
  neg := fun a => .ok (-a)
  beq := fun a b => decide (a = b)
  pcmp := fun a b => some (ratCmp a b)
  val := some
  ofLit := fun _ => none
  same := fun a b => decide (a = b)

theorem wf : M.WF where
  E_nonneg := fun x => by simp only [M, ratAbs_eq_abs]; exact abs_nonneg x
  E_mono := fun x y h => h
  Ea_nonneg := fun _ => le_refl _
  Ea_mono := fun _ _ _ => le_refl _
  safe_mono := fun x y h hy => by
    simp only [M, decide_eq_true_eq] at *
    exact le_trans h hy

theorem laws : Laws Rq M where
  wf := wf
  mul_ok := by
    intro a b x y ha hb hs
    cases ha; cases hb
    refine ⟨a * b, a * b, by simp [Rq, hs], rfl, ?_⟩
    simp only [sub_self, M, ratAbs_eq_abs, abs_zero]; exact abs_nonneg _
  div_ok := by
    intro a b x y ha hb hy hs
    cases ha; cases hb
    refine ⟨a / b, a / b, by simp [Rq, hs, hy], rfl, ?_⟩
    simp only [sub_self, M, ratAbs_eq_abs, abs_zero]; exact abs_nonneg _
  add_ok := by
    intro a b x y ha hb _ _ _
    cases ha; cases hb
    exact ⟨a + b, a + b, rfl, rfl, by simp [M, ratAbs]⟩
  sub_ok := by
    intro a b x y ha hb _ _ _
    cases ha; cases hb
    exact ⟨a - b, a - b, rfl, rfl, by simp [M, ratAbs]⟩
  beq_val := by intro a b x y ha hb; cases ha; cases hb; rfl
  pcmp_val := by intro a b x y ha hb; cases ha; cases hb; rfl
  beq_pcmp := by
    intro a b
    show decide (a = b) = (some (ratCmp a b) == some .eq)
    unfold ratCmp
    rcases lt_trichotomy a b with h | h | h
    · simp [h, ne_of_lt h]
    · subst h; simp
    · simp [not_lt.mpr (le_of_lt h), ne_of_gt h]
  pcmp_flip := by
    intro a b
    show some (ratCmp b a) = Oracle.flipOrd (some (ratCmp a b))
    rw [C02.ratCmp_flip]
  one_val := rfl
  zero_val := rfl
  div_self_val := by
    intro a b x ha hb hx
    cases ha; cases hb
    refine ⟨1, ?_, rfl⟩
    have h1 : ratAbs (1 : Rat) ≤ 10 := by decide +kernel
    simp [Rq, hx, M, h1]
  one_mul_val := by
    intro c d y hc hd
    cases hc; cases hd
    exact ⟨d, by simp [Rq], rfl⟩
  mul_one_val := by
    intro c d y hc hd
    cases hc; cases hd
    exact ⟨d, by simp [Rq], rfl⟩
  div_one_val := by
    intro c d y hc hd
    cases hc; cases hd
    exact ⟨d, by simp [Rq], rfl⟩

def TI : QT Rat Unit := { units := [()], scale := fun _ => 1, hasPrefix := fun _ => false, ref := () }
def TO : QT Rat Unit := { units := [()], scale := fun _ => -1/100, hasPrefix := fun _ => false, ref := () }

end NegScale

/-- The original statement of `dmul_mag` (scales only assumed non-zero) is false: with a
result unit of scale `-1/100` all hypotheses hold, but the operator overflows in `_fit`. -/
theorem dmul_mag_false_for_negative_scale :
    ∃ (M : ErrModel) (R : Arith Rat) (_ : Laws R M) (TL TR TO : QT Rat Unit)
      (l r : Q Rat Unit) (a b sl sr : Rat) (sc : Unit → Rat),
      TO.fitIdentity = none ∧ TO.ref ∈ TO.units ∧
      R.val l.amount = some a ∧ R.val r.amount = some b ∧
      R.val (TL.scale l.unit) = some sl ∧ R.val (TR.scale r.unit) = some sr ∧
      (∀ u ∈ TO.units, R.val (TO.scale u) = some (sc u) ∧ sc u ≠ 0) ∧
      (∀ u ∈ TO.units, Oracle.derivedSafe M (a * b) (sl * sr) (sc u) = true) ∧
      dmul R TL TR TO l r = .error .overflow := by
  refine ⟨NegScale.M, NegScale.Rq, NegScale.laws, NegScale.TI, NegScale.TI, NegScale.TO,
    ⟨1, ()⟩, ⟨1, ()⟩, 1, 1, 1, 1, fun _ => -1/100, rfl, by simp [NegScale.TO], rfl, rfl, rfl, rfl,
    ?_, ?_, ?_⟩
  · intro u _; exact ⟨rfl, by norm_num⟩
  · intro u _
    show Oracle.derivedSafe NegScale.M (1 * 1) (1 * 1) (-1 / 100) = true
    decide +kernel
  · decide +kernel

/-- the same for the original statement of `ddiv_mag` -/
theorem ddiv_mag_false_for_negative_scale :
    ∃ (M : ErrModel) (R : Arith Rat) (_ : Laws R M) (TL TR TO : QT Rat Unit)
      (l r : Q Rat Unit) (a b sl sr : Rat) (sc : Unit → Rat),
      TO.fitIdentity = none ∧ TO.ref ∈ TO.units ∧
      R.val l.amount = some a ∧ R.val r.amount = some b ∧ b ≠ 0 ∧
      R.val (TL.scale l.unit) = some sl ∧ R.val (TR.scale r.unit) = some sr ∧ sr ≠ 0 ∧
      (∀ u ∈ TO.units, R.val (TO.scale u) = some (sc u) ∧ sc u ≠ 0) ∧
      (∀ u ∈ TO.units, Oracle.derivedSafe M (a / b) (sl / sr) (sc u) = true) ∧
      ddiv R TL TR TO l r = .error .overflow := by
  refine ⟨NegScale.M, NegScale.Rq, NegScale.laws, NegScale.TI, NegScale.TI, NegScale.TO,
    ⟨1, ()⟩, ⟨1, ()⟩, 1, 1, 1, 1, fun _ => -1/100, rfl, by simp [NegScale.TO], rfl, rfl,
    one_ne_zero, rfl, rfl, one_ne_zero, ?_, ?_, ?_⟩
  · intro u _; exact ⟨rfl, by norm_num⟩
  · intro u _
    show Oracle.derivedSafe NegScale.M (1 / 1) (1 / 1) (-1 / 100) = true
    decide +kernel
  · decide +kernel

/-- non-vacuity: 3 m · 2 m in the decimal back-end with result units (mm², m²) -/
example : Oracle.derivedSafe ErrModel.dec 6 1 1 = true := by decide +kernel

end Qty.C04
