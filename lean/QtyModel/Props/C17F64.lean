import QtyModel.Props.C15F64
import QtyModel.Props.C17
/-
  C17 (binary64 back-end) — the JSON number text `F64.jsonText` computed by the model
  (`QtyModel/F64Text.lean`: ryu's shortest digits and layout, as `serde_json` writes them) and the
  exactly rounding reader `F64.parseJsonNum` (`[-]digits[.digits][(e|E)[+|-]digits]` ↦ the rational
  mantissa · 10^exponent rounded once with `F64.round`; `null` is not a number):

  (a) `jsonText_roundtrip`: the text of every finite canonical datum (every finite bit pattern,
      `jsonText_roundtrip_bits`) reads back as the identical datum, negative zero included;
  (b) `jsonText_injective`; `jsonText_ne_null` / `jsonText_eq_null_iff`: a value is written as
      `null` iff it is NaN or infinite (and then it does NOT read back: `f64_amount_nonfinite`);
  (c) `f64_amount_roundtrip`, `f64_de_ser`, `f64_ser_injective`: C17 with `.num (jsonText x)` as the
      amount leaf, for finite amounts.  `C17.de_ser` / `C17.ser_injective` ask for a codec that
      round-trips on EVERY value of the amount type, which binary64 does not (NaN, ±inf ↦ `null`);
      they are used here in two ways: re-proved with the round-trip hypothesis at the serialised
      value only (`de_ser_at`, `ser_injective_at`), and instantiated as they are with the type
      `Fin64` of finite doubles (`fin64_de_ser`, `fin64_ser_injective`);
  (d) `jsonText_shape`: the text matches the JSON number grammar (`JsonNumber`);
  and `shortestEven_spec`: ryu's digits lie on the same grid as `Display`'s (`C15F64.shortest…`)
  and are equally close to `|x|`; they differ only on an exact tie, where they are even.

  Everything is unconditional for finite canonical data (no `_partial` statement).  The examples at
  the end are kernel evaluations on concrete values and are labelled as tests.
-/
namespace Qty.C17F64
open Qty Qty.Fmt Qty.Digits Qty.F64 Qty.C15F64 Qty.Serde

/-! ### the reader on `mantissa [e exponent]` -/

theorem scale10_eq (v : ℚ) (x : ℤ) : scale10 v x = v * 10 ^ x := by
  unfold scale10
  split
  · next h =>
    obtain ⟨n, rfl⟩ := Int.eq_ofNat_of_zero_le h
    rw [Int.toNat_natCast, pow10_eq, zpow_natCast]
  · next h =>
    obtain ⟨n, hn⟩ := Int.eq_ofNat_of_zero_le (show 0 ≤ -x by omega)
    have he : x = -(n : ℤ) := by omega
    subst he
    rw [neg_neg, Int.toNat_natCast, pow10_eq, zpow_neg, zpow_natCast, div_eq_mul_inv]

theorem parseExp_minus (ds : Text) (hne : ds ≠ []) (hd : ds.all Case.isDigit = true) :
    parseExp (45 :: ds) = some (-((num ds : ℕ) : ℤ)) := by
  have h1 : ds.isEmpty = false := by cases ds <;> simp_all
  simp [parseExp, h1, hd, num]

theorem parseExp_plus (ds : Text) (hne : ds ≠ []) (hd : ds.all Case.isDigit = true) :
    parseExp (43 :: ds) = some ((num ds : ℕ) : ℤ) := by
  have h1 : ds.isEmpty = false := by cases ds <;> simp_all
  simp [parseExp, h1, hd, num]

/-- the always-signed exponent text reads back as the exponent -/
theorem parseExp_intText (x : ℤ) : parseExp (intText x) = some x := by
  unfold intText
  split
  · next h =>
    rw [parseExp_minus _ (natDigits_ne_nil _) (natDigits_all _), natDigits_num]
    congr 1; omega
  · next h =>
    rw [parseExp_plus _ (natDigits_ne_nil _) (natDigits_all _), natDigits_num]
    congr 1; omega

theorem takeWhile_all (p : Nat → Bool) (l : Text) (h : ∀ c ∈ l, p c = true) :
    l.takeWhile p = l ∧ l.dropWhile p = [] := by
  induction l with
  | nil => simp
  | cons a l ih =>
    have ha := h a (by simp)
    have := ih (fun c hc => h c (by simp [hc]))
    simp [ha, this.1, this.2]

theorem takeWhile_stop (p : Nat → Bool) (l r : Text) (b : Nat) (h : ∀ c ∈ l, p c = true)
    (hb : p b = false) :
    (l ++ b :: r).takeWhile p = l ∧ (l ++ b :: r).dropWhile p = b :: r := by
  induction l with
  | nil => simp [hb]
  | cons a l ih =>
    have ha := h a (by simp)
    have := ih (fun c hc => h c (by simp [hc]))
    simp [ha, this.1, this.2]

/-- the reader on a mantissa without `e`/`E`, alone and followed by `e` and a signed exponent -/
theorem parseJsonNum_core (mt : Text) (v : ℚ) (nf : ℕ)
    (hm : ∀ c ∈ mt, (!isExpMark c) = true) (hp : parseDecText mt = some (v, nf)) :
    parseJsonNum mt = some (round v (mt.head? == some 45)) ∧
    ∀ x, parseJsonNum (mt ++ 101 :: intText x)
      = some (round (v * 10 ^ x) (mt.head? == some 45)) := by
  constructor
  · obtain ⟨h1, h2⟩ := takeWhile_all _ mt hm
    unfold parseJsonNum
    simp only [h1, h2, hp]
  · intro x
    obtain ⟨h1, h2⟩ := takeWhile_stop (fun c => !isExpMark c) mt (intText x) 101 hm (by decide)
    unfold parseJsonNum
    simp only [h1, h2, hp, parseExp_intText, scale10_eq]

/-- `body` is a JSON number text denoting the non-negative rational `q`, and so does `-body`
denote `-q`: the reader returns the correctly rounded value, the sign of an exact zero being the
sign of the text -/
def Denotes (body : Text) (q : ℚ) : Prop :=
  ∀ s : Bool, parseJsonNum (if s then 45 :: body else body) = some (round (if s then -q else q) s)

theorem plain_noExp {t : Text} {nf : ℕ} (h : Plain t nf) : ∀ c ∈ t, (!isExpMark c) = true := by
  intro c hc
  rcases h.chars c hc with h | h
  · simp [Case.isDigit] at h
    have h1 : c ≠ 101 := by omega
    have h2 : c ≠ 69 := by omega
    simp [isExpMark, h1, h2]
  · subst h; decide

theorem plain_head_flag {t : Text} {nf : ℕ} (h : Plain t nf) : (t.head? == some 45) = false := by
  obtain ⟨c, r, rfl, hc⟩ := h.head
  have := digit_ne_minus hc
  simp [this]

theorem denotes_plain {t : Text} {nf : ℕ} {v : ℚ} (h : Plain t nf)
    (hp : parseDecText t = some (v, nf)) : Denotes t v := by
  intro s
  cases s with
  | false =>
    have := (parseJsonNum_core t v nf (plain_noExp h) hp).1
    rw [plain_head_flag h] at this
    simpa using this
  | true =>
    have hp' : parseDecText (45 :: t) = some (-v, nf) := by
      rw [parseDecText_minus h, hp]; rfl
    have hm : ∀ c ∈ (45 :: t), (!isExpMark c) = true := by
      intro c hc
      rcases List.mem_cons.mp hc with hc | hc
      · subst hc; decide
      · exact plain_noExp h c hc
    have := (parseJsonNum_core (45 :: t) (-v) nf hm hp').1
    simpa using this

theorem denotes_plain_exp {t : Text} {nf : ℕ} {v : ℚ} (h : Plain t nf)
    (hp : parseDecText t = some (v, nf)) (x : ℤ) : Denotes (t ++ 101 :: intText x) (v * 10 ^ x) := by
  intro s
  cases s with
  | false =>
    have := (parseJsonNum_core t v nf (plain_noExp h) hp).2 x
    rw [plain_head_flag h] at this
    simpa using this
  | true =>
    have hp' : parseDecText (45 :: t) = some (-v, nf) := by
      rw [parseDecText_minus h, hp]; rfl
    have hm : ∀ c ∈ (45 :: t), (!isExpMark c) = true := by
      intro c hc
      rcases List.mem_cons.mp hc with hc | hc
      · subst hc; decide
      · exact plain_noExp h c hc
    have := (parseJsonNum_core (45 :: t) (-v) nf hm hp').2 x
    simpa [neg_mul] using this

/-! ### the two kinds of mantissa -/

theorem plain_int (ip : Text) (hne : ip ≠ []) (hd : ip.all Case.isDigit = true) :
    Plain ip 0 ∧ parseDecText ip = some (((num ip : ℕ) : ℚ), 0) := by
  refine ⟨⟨ip, [], hne, hd, rfl, rfl, rfl⟩, ?_⟩
  rw [parse_int ip hne hd]; simp

theorem plain_frac (ip fp : Text) (hne : ip ≠ []) (hd : ip.all Case.isDigit = true)
    (hfne : fp ≠ []) (hf : fp.all Case.isDigit = true) :
    Plain (ip ++ 46 :: fp) fp.length ∧
    parseDecText (ip ++ 46 :: fp) = some (((num (ip ++ fp) : ℕ) : ℚ) / 10 ^ fp.length, fp.length) := by
  have hl : fp.length ≠ 0 := by simpa using hfne
  refine ⟨⟨ip, fp, hne, hd, hf, rfl, by simp [hl]⟩, ?_⟩
  have := parse_frac ip fp hne hd hfne hf
  rw [List.append_assoc, List.singleton_append] at this
  rw [this, num_append, pow10_eq]; simp

theorem denotes_int (ip : Text) (hne : ip ≠ []) (hd : ip.all Case.isDigit = true) :
    Denotes ip ((num ip : ℕ) : ℚ) :=
  denotes_plain (plain_int ip hne hd).1 (plain_int ip hne hd).2

theorem denotes_int_exp (ip : Text) (hne : ip ≠ []) (hd : ip.all Case.isDigit = true) (x : ℤ) :
    Denotes (ip ++ 101 :: intText x) (((num ip : ℕ) : ℚ) * 10 ^ x) :=
  denotes_plain_exp (plain_int ip hne hd).1 (plain_int ip hne hd).2 x

theorem denotes_frac (ip fp : Text) (hne : ip ≠ []) (hd : ip.all Case.isDigit = true)
    (hfne : fp ≠ []) (hf : fp.all Case.isDigit = true) :
    Denotes (ip ++ 46 :: fp) (((num (ip ++ fp) : ℕ) : ℚ) / 10 ^ fp.length) :=
  denotes_plain (plain_frac ip fp hne hd hfne hf).1 (plain_frac ip fp hne hd hfne hf).2

theorem denotes_frac_exp (ip fp : Text) (hne : ip ≠ []) (hd : ip.all Case.isDigit = true)
    (hfne : fp ≠ []) (hf : fp.all Case.isDigit = true) (x : ℤ) :
    Denotes ((ip ++ 46 :: fp) ++ 101 :: intText x)
      (((num (ip ++ fp) : ℕ) : ℚ) / 10 ^ fp.length * 10 ^ x) :=
  denotes_plain_exp (plain_frac ip fp hne hd hfne hf).1 (plain_frac ip fp hne hd hfne hf).2 x

/-! ### the five layouts of ryu denote `D · 10^k` -/

/-- ryu's layout of the digits `D` (no trailing zero) with the exponent `k` -/
def layout (D : ℕ) (k : ℤ) : Text :=
  let ds := natDigits D
  let len : ℤ := ds.length
  let kk := len + k
  if 0 ≤ k ∧ kk ≤ 16 then ds ++ List.replicate k.toNat 48 ++ [46, 48]
  else if 0 < kk ∧ kk ≤ 16 then ds.take kk.toNat ++ [46] ++ ds.drop kk.toNat
  else if -5 < kk ∧ kk ≤ 0 then [48, 46] ++ List.replicate (-kk).toNat 48 ++ ds
  else if ds.length = 1 then ds ++ [101] ++ intText (kk - 1)
  else ds.take 1 ++ [46] ++ ds.drop 1 ++ [101] ++ intText (kk - 1)

theorem jsonAbs_eq (m : ℕ) (e : ℤ) (hm : m ≠ 0) :
    jsonAbs m e = layout (stripZeros (natDigits (shortestEven m e).1).length (shortestEven m e).1
        (shortestEven m e).2).1
      (stripZeros (natDigits (shortestEven m e).1).length (shortestEven m e).1
        (shortestEven m e).2).2 := by
  unfold jsonAbs layout
  rw [if_neg hm]

theorem scale_helper (D : ℚ) (n : ℕ) (x k : ℤ) (h : x - n = k) :
    D / 10 ^ n * 10 ^ x = D * 10 ^ k := by
  subst h
  rw [zpow_sub₀ (by norm_num : (10 : ℚ) ≠ 0), zpow_natCast]
  field_simp

theorem all_take (ds : Text) (n : ℕ) (h : ds.all Case.isDigit = true) :
    (ds.take n).all Case.isDigit = true := by
  rw [List.all_eq_true] at h ⊢
  exact fun c hc => h c (List.mem_of_mem_take hc)

theorem all_drop (ds : Text) (n : ℕ) (h : ds.all Case.isDigit = true) :
    (ds.drop n).all Case.isDigit = true := by
  rw [List.all_eq_true] at h ⊢
  exact fun c hc => h c (List.mem_of_mem_drop hc)

/-- every layout denotes exactly `D · 10^k` -/
theorem layout_denotes (D : ℕ) (k : ℤ) : Denotes (layout D k) (decVal D k) := by
  rw [decVal_eq]
  unfold layout
  have hne := natDigits_ne_nil D
  have hd := natDigits_all D
  have hnum := natDigits_num D
  generalize natDigits D = ds at hne hd hnum ⊢
  have hlen : 1 ≤ ds.length := by
    cases ds with
    | nil => exact absurd rfl hne
    | cons a l => simp
  dsimp only
  split_ifs with c1 c2 c3 c4
  · -- `ds 0…0 .0`
    obtain ⟨n, rfl⟩ := Int.eq_ofNat_of_zero_le c1.1
    rw [Int.toNat_natCast]
    have hip : (ds ++ rep n 48).all Case.isDigit = true := by
      rw [List.all_append, hd, all_rep_zero]; rfl
    have := denotes_frac (ds ++ rep n 48) [48] (by simp [hne]) hip (by simp) (by decide)
    have e1 : ds ++ List.replicate n 48 ++ [46, 48] = (ds ++ rep n 48) ++ 46 :: [48] := by
      simp [rep]
    rw [e1]
    convert this using 1
    rw [num_append, num_append, num_rep_zero, hnum, zpow_natCast]
    simp [num, rep]
  · -- `dd.ddd`
    have hk : k < 0 := by
      by_contra h
      exact c1 ⟨by omega, c2.2⟩
    obtain ⟨n, hn⟩ := Int.eq_ofNat_of_zero_le (le_of_lt c2.1)
    have hnl : n < ds.length := by omega
    have hn0 : 0 < n := by omega
    rw [hn, Int.toNat_natCast]
    have htn : (ds.take n) ≠ [] := by
      apply List.ne_nil_of_length_pos; rw [List.length_take]; omega
    have hdn : (ds.drop n) ≠ [] := by
      apply List.ne_nil_of_length_pos; rw [List.length_drop]; omega
    have := denotes_frac (ds.take n) (ds.drop n) htn (all_take _ _ hd) hdn (all_drop _ _ hd)
    rw [List.take_append_drop, hnum, List.length_drop] at this
    have e1 : ds.take n ++ [46] ++ ds.drop n = ds.take n ++ 46 :: ds.drop n := by simp
    rw [e1]
    convert this using 1
    have h0 := scale_helper (D : ℚ) (ds.length - n) 0 k (by omega)
    simpa using h0.symm
  · -- `0.00ddd`
    obtain ⟨n, hn⟩ := Int.eq_ofNat_of_zero_le (show 0 ≤ -((ds.length : ℤ) + k) by omega)
    rw [hn, Int.toNat_natCast]
    have hfp : (rep n 48 ++ ds).all Case.isDigit = true := by
      rw [List.all_append, hd, all_rep_zero]; rfl
    have := denotes_frac [48] (rep n 48 ++ ds) (by simp) (by decide) (by simp [hne]) hfp
    have e1 : [48, 46] ++ List.replicate n 48 ++ ds = [48] ++ 46 :: (rep n 48 ++ ds) := by
      simp [rep]
    rw [e1]
    convert this using 1
    rw [num_append, num_append, num_rep_zero, hnum, List.length_append]
    have h0 := scale_helper (D : ℚ) ((rep n 48).length + ds.length) 0 k (by simp only [rep, List.length_replicate]; push_cast; omega)
    simp only [zpow_zero, mul_one] at h0
    rw [← h0]
    simp [num]
  · -- `de±x`
    have hkk : (ds.length : ℤ) + k - 1 = k := by omega
    rw [hkk]
    have := denotes_int_exp ds hne hd k
    have e1 : ds ++ [101] ++ intText k = ds ++ 101 :: intText k := by simp
    rw [e1]
    convert this using 1
    rw [hnum]
  · -- `d.ddde±x`
    have h2 : 2 ≤ ds.length := by omega
    have htn : (ds.take 1) ≠ [] := by
      apply List.ne_nil_of_length_pos; rw [List.length_take]; omega
    have hdn : (ds.drop 1) ≠ [] := by
      apply List.ne_nil_of_length_pos; rw [List.length_drop]; omega
    have := denotes_frac_exp (ds.take 1) (ds.drop 1) htn (all_take _ _ hd) hdn (all_drop _ _ hd)
      ((ds.length : ℤ) + k - 1)
    rw [List.take_append_drop, hnum, List.length_drop] at this
    have e1 : ds.take 1 ++ [46] ++ ds.drop 1 ++ [101] ++ intText ((ds.length : ℤ) + k - 1)
        = (ds.take 1 ++ 46 :: ds.drop 1) ++ 101 :: intText ((ds.length : ℤ) + k - 1) := by simp
    rw [e1]
    convert this using 1
    exact (scale_helper (D : ℚ) (ds.length - 1) _ k (by omega)).symm

/-! ### the digits ryu lays out still read back as `x` -/

/-- ryu's choice on exact ties reads back as the canonical datum: it is `shortest`'s pair or the
explicitly checked lower neighbour -/
theorem shortestEven_ok (m : ℕ) (e : ℤ) :
    round (decVal (shortestEven m e).1 (shortestEven m e).2) false = canon m e := by
  unfold shortestEven
  dsimp only
  split_ifs with h
  · exact h.2.1
  · exact shortest_ok m e

/-- stripping trailing zeros of the digit block does not change the decimal -/
theorem stripZeros_decVal : ∀ (fuel D : ℕ) (k : ℤ),
    decVal (stripZeros fuel D k).1 (stripZeros fuel D k).2 = decVal D k := by
  intro fuel
  induction fuel with
  | zero => intro D k; rfl
  | succ fuel ih =>
    intro D k
    unfold stripZeros
    split_ifs with h
    · rw [ih, decVal_eq, decVal_eq]
      have hD : D = 10 * (D / 10) := by omega
      have hq : (D : ℚ) = 10 * ((D / 10 : ℕ) : ℚ) := by exact_mod_cast hD
      rw [hq, zpow_add₀ (by norm_num : (10 : ℚ) ≠ 0), zpow_one]
      ring
    · rfl

/-- the text of `|x|` denotes a decimal that rounds to the canonical datum of `|x|` -/
theorem jsonAbs_denotes (m : ℕ) (e : ℤ) (hm : m ≠ 0) :
    ∃ q, Denotes (jsonAbs m e) q ∧ round q false = canon m e := by
  rw [jsonAbs_eq m e hm]
  refine ⟨_, layout_denotes _ _, ?_⟩
  rw [stripZeros_decVal, shortestEven_ok]

theorem jsonAbs_zero (e : ℤ) : Denotes (jsonAbs 0 e) 0 := by
  have := denotes_frac [48] [48] (by simp) (by decide) (by simp) (by decide)
  have e1 : jsonAbs 0 e = [48] ++ 46 :: [48] := by simp [jsonAbs]
  rw [e1]
  convert this using 1
  simp [num]

/-! ### (a) bit-exact round trip -/

/-- finite data (what `serde_json` can write as a number) -/
def Finite : F64 → Prop
  | .fin _ _ _ => True
  | _ => False

instance : DecidablePred Finite := fun x => by
  cases x <;> unfold Finite <;> infer_instance

/-- (a) ROUND TRIP.  The JSON number text of every finite canonical datum — every finite bit
pattern: zeros of both signs, subnormals, normal numbers — reads back (exactly rounding reader) as
the identical datum. -/
theorem jsonText_roundtrip (x : F64) (hc : Canonical x) (hf : Finite x) :
    parseJsonNum (jsonText x) = some x := by
  cases x with
  | nan => exact absurd hf (by simp [Finite])
  | inf s => exact absurd hf (by simp [Finite])
  | fin s m e =>
    have ht : jsonText (.fin s m e) = if s then 45 :: jsonAbs m e else jsonAbs m e := by
      cases s <;> simp [jsonText]
    rw [ht]
    by_cases hm : m = 0
    · subst hm
      have he : e = eMin := by
        rcases hc with ⟨_, h⟩ | ⟨h, _⟩
        · exact h
        · exact absurd h (by decide)
      subst he
      rw [jsonAbs_zero eMin s]
      have : (if s = true then -(0 : ℚ) else 0) = 0 := by split <;> simp
      rw [this]
      unfold round; simp
    · obtain ⟨q, hq, hr⟩ := jsonAbs_denotes m e hm
      have hcan : Canonical (.fin false m e) := hc
      have hrc := round_canonical false m e hcan
      have htr : tr false m e = (m : ℚ) * 2 ^ e := by simp [tr]
      rw [htr, ← canon_eq, ← hr] at hrc
      rw [hq s]
      cases s with
      | false => simpa using hrc
      | true =>
        have := round_neg q false
        simp only [Bool.not_false] at this
        simp only [if_true]
        rw [this, hrc]; rfl

/-- every finite bit pattern: write as a JSON number, read back, same bits -/
theorem jsonText_roundtrip_bits (b : ℕ) (hf : Finite (ofBits b)) :
    parseJsonNum (jsonText (ofBits b)) = some (ofBits b) :=
  jsonText_roundtrip _ (ofBits_canonical b) hf

/-- a bit pattern is finite iff its exponent field is not all ones -/
theorem ofBits_finite (b : ℕ) : Finite (ofBits b) ↔ b / two52 % 2048 ≠ 2047 := by
  unfold ofBits
  dsimp only
  split_ifs with h1 h2 h3 <;> simp [Finite] <;> omega

/-! ### (b) injectivity; finite values are never `null` -/

/-- (b) two finite canonical doubles with the same JSON number text are identical (same bits:
`0.0` and `-0.0` have different texts) -/
theorem jsonText_injective (x y : F64) (hx : Canonical x) (hy : Canonical y) (fx : Finite x)
    (fy : Finite y) (h : jsonText x = jsonText y) : x = y := by
  have h1 := jsonText_roundtrip x hx fx
  have h2 := jsonText_roundtrip y hy fy
  rw [h, h2] at h1
  exact (Option.some.inj h1).symm

/-- `null` is not a number for the reader -/
theorem parseJsonNum_null : parseJsonNum nullText = none := by decide

/-- non-finite values are written as `null` … -/
theorem jsonText_nonfinite (x : F64) (hf : ¬ Finite x) : jsonText x = nullText := by
  cases x with
  | fin s m e => exact absurd trivial hf
  | inf s => rfl
  | nan => rfl

/-- every layout starts with a digit -/
theorem layout_head (D : ℕ) (k : ℤ) : ∃ c r, layout D k = c :: r ∧ Case.isDigit c = true := by
  unfold layout
  have hne := natDigits_ne_nil D
  have hd := natDigits_all D
  generalize natDigits D = ds at hne hd ⊢
  cases ds with
  | nil => exact absurd rfl hne
  | cons a l =>
    simp only [List.all_cons, Bool.and_eq_true] at hd
    dsimp only
    split_ifs with c1 c2 c3 c4
    · exact ⟨a, _, rfl, hd.1⟩
    · obtain ⟨n, hn⟩ : ∃ n, (((a :: l).length : ℤ) + k).toNat = n + 1 :=
        ⟨(((a :: l).length : ℤ) + k).toNat - 1, by omega⟩
      rw [hn]
      exact ⟨a, _, rfl, hd.1⟩
    · exact ⟨48, _, rfl, by decide⟩
    · exact ⟨a, _, rfl, hd.1⟩
    · exact ⟨a, _, rfl, hd.1⟩

theorem jsonAbs_head (m : ℕ) (e : ℤ) : ∃ c r, jsonAbs m e = c :: r ∧ Case.isDigit c = true := by
  by_cases hm : m = 0
  · subst hm; exact ⟨48, [46, 48], by simp [jsonAbs], by decide⟩
  · rw [jsonAbs_eq m e hm]; exact layout_head _ _

/-- (b) … and the text of a finite value (ANY mantissa and exponent) is never `null`: it starts with
a digit or with `-` -/
theorem jsonText_ne_null (x : F64) (hf : Finite x) : jsonText x ≠ nullText := by
  cases x with
  | nan => exact absurd hf (by simp [Finite])
  | inf s => exact absurd hf (by simp [Finite])
  | fin s m e =>
    obtain ⟨c, r, hcr, hc⟩ := jsonAbs_head m e
    have hc' : c ≠ 110 := by intro h; subst h; simp [Case.isDigit] at hc
    cases s <;> simp [jsonText, hcr, nullText, hc']

/-- a value is written as a number iff it is finite -/
theorem jsonText_eq_null_iff (x : F64) : jsonText x = nullText ↔ ¬ Finite x :=
  ⟨fun h hf => jsonText_ne_null x hf h, jsonText_nonfinite x⟩

/-! ### (c) the binary64 instance of C17 -/

/-- the binary64 amount leaf of the serde data model: a JSON number with the text of `ryu` -/
def serF64 (x : F64) : JL := .num (jsonText x)

/-- reading the amount leaf: a JSON number, exactly rounded (a string is not an `f64`) -/
def deF64 : JL → Option F64
  | .num t => parseJsonNum t
  | .str _ => none

/-- (c) binary64 back-end: the JSON number written for a finite double reads back as the identical
double (same bits) -/
theorem f64_amount_roundtrip (x : F64) (hc : Canonical x) (hf : Finite x) :
    deF64 (serF64 x) = some x := jsonText_roundtrip x hc hf

/-- … and NaN and the infinities do NOT round-trip: they are written as `null`, which is not a
number (`serde_json` refuses to read `null` as an `f64`) -/
theorem f64_amount_nonfinite (x : F64) (hf : ¬ Finite x) : deF64 (serF64 x) = none := by
  show parseJsonNum (jsonText x) = none
  rw [jsonText_nonfinite x hf]; exact parseJsonNum_null

/-- `C17.de_ser` with the round-trip hypothesis only at the value that is serialised (the codec of
binary64 round-trips on finite values only) -/
theorem de_ser_at {A : Type} (kind : QtyKind) (units : List UnitDef)
    (hn : (units.map (·.ident)).Nodup) (hk : kind = .single → units.length = 1)
    (serAmt : A → JL) (deAmt : JL → Option A) (a : A) (hrt : deAmt (serAmt a) = some a)
    (i : Nat) (u : UnitDef) (hi : units[i]? = some u) :
    deQty kind units deAmt (serQty kind (serAmt a) u) = some (a, i) := by
  have hu := C17.de_ser_unit units hn i u hi
  cases kind with
  | single =>
    have hl := hk rfl
    have hi0 : i = 0 := by
      have := (List.getElem?_eq_some_iff.mp hi).1
      omega
    subst hi0
    simp [serQty, deQty, hrt]
  | noRef => simp [serQty, deQty, hrt, hu]
  | withRef => simp [serQty, deQty, hrt, hu]

theorem ser_injective_at {A : Type} (kind : QtyKind) (units : List UnitDef)
    (hn : (units.map (·.ident)).Nodup) (hk : kind = .single → units.length = 1)
    (serAmt : A → JL) (deAmt : JL → Option A) (a b : A) (hra : deAmt (serAmt a) = some a)
    (hrb : deAmt (serAmt b) = some b) (i j : Nat) (u v : UnitDef) (hi : units[i]? = some u)
    (hj : units[j]? = some v) (h : serQty kind (serAmt a) u = serQty kind (serAmt b) v) :
    a = b ∧ i = j := by
  have h1 := de_ser_at kind units hn hk serAmt deAmt a hra i u hi
  have h2 := de_ser_at kind units hn hk serAmt deAmt b hrb j v hj
  rw [h, h2] at h1
  simpa [eq_comm] using h1

/-- (c) C17 for the binary64 back-end: serialising any quantity with a finite amount and
deserialising the result gives back the identical unit and the bit-identical amount -/
theorem f64_de_ser (kind : QtyKind) (units : List UnitDef) (hn : (units.map (·.ident)).Nodup)
    (hk : kind = .single → units.length = 1) (x : F64) (hc : Canonical x) (hf : Finite x)
    (i : Nat) (u : UnitDef) (hi : units[i]? = some u) :
    deQty kind units deF64 (serQty kind (serF64 x) u) = some (x, i) :=
  de_ser_at kind units hn hk serF64 deF64 x (f64_amount_roundtrip x hc hf) i u hi

/-- (c) quantities with finite amounts that differ in unit or amount (in a single bit, the sign of
zero included) have different serialisations -/
theorem f64_ser_injective (kind : QtyKind) (units : List UnitDef)
    (hn : (units.map (·.ident)).Nodup) (hk : kind = .single → units.length = 1)
    (x y : F64) (hx : Canonical x) (hy : Canonical y) (fx : Finite x) (fy : Finite y)
    (i j : Nat) (u v : UnitDef) (hi : units[i]? = some u) (hj : units[j]? = some v)
    (h : serQty kind (serF64 x) u = serQty kind (serF64 y) v) : x = y ∧ i = j :=
  ser_injective_at kind units hn hk serF64 deF64 x y (f64_amount_roundtrip x hx fx)
    (f64_amount_roundtrip y hy fy) i j u v hi hj h

/-- a quantity with a NaN or infinite amount does not deserialise (`"amount":null`) -/
theorem f64_de_ser_nonfinite (kind : QtyKind) (units : List UnitDef) (x : F64) (hf : ¬ Finite x)
    (u : UnitDef) : deQty kind units deF64 (serQty kind (serF64 x) u) = none := by
  have h := f64_amount_nonfinite x hf
  cases kind <;> simp [serQty, deQty, h]

/-! The generic theorems `C17.de_ser` / `C17.ser_injective` themselves (round trip for EVERY value
of the amount type) are instantiated with the type of finite doubles: -/

instance : DecidablePred Canonical := fun x => by
  cases x <;> unfold Canonical <;> infer_instance

/-- the finite binary64 values (every finite bit pattern) -/
def Fin64 : Type := { x : F64 // Canonical x ∧ Finite x }

def serFin (a : Fin64) : JL := serF64 a.1

def deFin (l : JL) : Option Fin64 :=
  (deF64 l).bind (fun y => if h : Canonical y ∧ Finite y then some ⟨y, h⟩ else none)

theorem fin64_amount_roundtrip (a : Fin64) : deFin (serFin a) = some a := by
  obtain ⟨x, hx⟩ := a
  unfold deFin serFin
  rw [f64_amount_roundtrip x hx.1 hx.2]
  simp [hx]

/-- `C17.de_ser` at the binary64 codec -/
theorem fin64_de_ser (kind : QtyKind) (units : List UnitDef) (hn : (units.map (·.ident)).Nodup)
    (hk : kind = .single → units.length = 1) (a : Fin64) (i : Nat) (u : UnitDef)
    (hi : units[i]? = some u) :
    deQty kind units deFin (serQty kind (serFin a) u) = some (a, i) :=
  C17.de_ser kind units hn hk serFin deFin fin64_amount_roundtrip a i u hi

/-- `C17.ser_injective` at the binary64 codec -/
theorem fin64_ser_injective (kind : QtyKind) (units : List UnitDef)
    (hn : (units.map (·.ident)).Nodup) (hk : kind = .single → units.length = 1)
    (a b : Fin64) (i j : Nat) (u v : UnitDef) (hi : units[i]? = some u) (hj : units[j]? = some v)
    (h : serQty kind (serFin a) u = serQty kind (serFin b) v) : a = b ∧ i = j :=
  C17.ser_injective kind units hn hk serFin deFin fin64_amount_roundtrip a b i j u v hi hj h

/-! ### ryu's digits are as good as `shortest`'s -/

/-- the digits `serde_json` writes lie on the same (coarsest possible, `C15F64.shortest_coarsest`)
grid as the digits `Display` prints and are exactly as close to `|x|`
(`C15F64.shortest_closest`); they differ from them only on an exact tie, where they are even -/
theorem shortestEven_spec (m : ℕ) (e : ℤ) :
    (shortestEven m e).2 = (shortest m e).2 ∧
    |decVal (shortestEven m e).1 (shortestEven m e).2 - (m : ℚ) * 2 ^ e|
      = |decVal (shortest m e).1 (shortest m e).2 - (m : ℚ) * 2 ^ e| ∧
    (shortestEven m e ≠ shortest m e →
      (shortestEven m e).1 % 2 = 0 ∧ (shortestEven m e).1 + 1 = (shortest m e).1) := by
  unfold shortestEven
  dsimp only
  split_ifs with h
  · refine ⟨rfl, ?_, fun _ => ?_⟩
    · have h3 := h.2.2
      rw [pow2_eq] at h3
      simp only [Int.cast_natCast] at h3
      have : decVal ((shortest m e).1 - 1) (shortest m e).2 - (m : ℚ) * 2 ^ e
          = -(decVal (shortest m e).1 (shortest m e).2 - (m : ℚ) * 2 ^ e) := by linarith
      rw [this, abs_neg]
    · dsimp only
      omega
  · exact ⟨rfl, rfl, fun hne => absurd rfl hne⟩

/-! ### (d) shape: the JSON number grammar -/

/-- the number grammar of RFC 8259: `[-] int [. digits] [(e|E) [+|-] digits]`, `int` without
superfluous leading zeros -/
def JsonNumber (t : Text) : Prop :=
  ∃ sg ip fr ex : Text, t = sg ++ ip ++ fr ++ ex ∧
    (sg = [] ∨ sg = [45]) ∧
    ip ≠ [] ∧ ip.all Case.isDigit = true ∧ (ip = [48] ∨ ip.head? ≠ some 48) ∧
    (fr = [] ∨ ∃ fp, fp ≠ [] ∧ fp.all Case.isDigit = true ∧ fr = 46 :: fp) ∧
    (ex = [] ∨ ∃ mk es ed, (mk = 101 ∨ mk = 69) ∧ (es = [] ∨ es = [43] ∨ es = [45]) ∧ ed ≠ [] ∧
      ed.all Case.isDigit = true ∧ ex = mk :: (es ++ ed))

theorem aux_head (fuel : ℕ) : ∀ n, n ≠ 0 → n ≤ fuel →
    natDigitsAux fuel n [] ≠ [] ∧ (natDigitsAux fuel n []).head? ≠ some 48 := by
  induction fuel with
  | zero => intro n h0 h; omega
  | succ fuel ih =>
    intro n h0 h
    rw [aux_succ _ _ h0]
    by_cases hq : n / 10 = 0
    · rw [hq, aux_zero]
      have : n % 10 ≠ 0 := by omega
      simp; omega
    · obtain ⟨i1, i2⟩ := ih (n / 10) hq (by omega)
      refine ⟨by simp, ?_⟩
      rw [List.head?_append_of_ne_nil _ i1]; exact i2

/-- the digits of a non-zero number do not start with `0` -/
theorem natDigits_head (n : ℕ) (h : n ≠ 0) : (natDigits n).head? ≠ some 48 := by
  unfold natDigits
  rw [if_neg h]
  exact (aux_head _ n h (by omega)).2

theorem intText_shape (x : ℤ) : ∃ es ed, (es = [] ∨ es = [43] ∨ es = [45]) ∧ ed ≠ [] ∧
    ed.all Case.isDigit = true ∧ intText x = es ++ ed := by
  unfold intText
  split
  · exact ⟨[45], _, Or.inr (Or.inr rfl), natDigits_ne_nil _, natDigits_all _, rfl⟩
  · exact ⟨[43], _, Or.inr (Or.inl rfl), natDigits_ne_nil _, natDigits_all _, rfl⟩

/-- every layout of non-zero digits is an (unsigned) JSON number -/
theorem layout_shape (D : ℕ) (k : ℤ) (hD : D ≠ 0) (sg : Text) (hsg : sg = [] ∨ sg = [45]) :
    JsonNumber (sg ++ layout D k) := by
  unfold layout
  have hne := natDigits_ne_nil D
  have hd := natDigits_all D
  have hh := natDigits_head D hD
  generalize natDigits D = ds at hne hd hh ⊢
  have hlen : 1 ≤ ds.length := by
    cases ds with
    | nil => exact absurd rfl hne
    | cons a l => simp
  dsimp only
  split_ifs with c1 c2 c3 c4
  · refine ⟨sg, ds ++ rep k.toNat 48, [46, 48], [], by simp [rep], hsg, by simp [hne], ?_,
      Or.inr ?_, Or.inr ⟨[48], by simp, by decide, rfl⟩, Or.inl rfl⟩
    · rw [List.all_append, hd, all_rep_zero]; rfl
    · rw [List.head?_append_of_ne_nil _ hne]; exact hh
  · have hk : k < 0 := by
      by_contra h
      exact c1 ⟨by omega, c2.2⟩
    have htn : (ds.take ((ds.length : ℤ) + k).toNat) ≠ [] := by
      apply List.ne_nil_of_length_pos; rw [List.length_take]; omega
    have hdn : (ds.drop ((ds.length : ℤ) + k).toNat) ≠ [] := by
      apply List.ne_nil_of_length_pos; rw [List.length_drop]; omega
    refine ⟨sg, ds.take ((ds.length : ℤ) + k).toNat, 46 :: ds.drop ((ds.length : ℤ) + k).toNat, [],
      by simp, hsg, htn, all_take _ _ hd, Or.inr ?_, Or.inr ⟨_, hdn, all_drop _ _ hd, rfl⟩,
      Or.inl rfl⟩
    rw [List.head?_take, if_neg (by omega)]; exact hh
  · refine ⟨sg, [48], 46 :: (rep (-((ds.length : ℤ) + k)).toNat 48 ++ ds), [], by simp [rep], hsg,
      by simp, by decide, Or.inl rfl, Or.inr ⟨_, by simp [hne], ?_, rfl⟩, Or.inl rfl⟩
    rw [List.all_append, hd, all_rep_zero]; rfl
  · obtain ⟨es, ed, h1, h2, h3, h4⟩ := intText_shape ((ds.length : ℤ) + k - 1)
    exact ⟨sg, ds, [], 101 :: intText ((ds.length : ℤ) + k - 1), by simp, hsg, hne, hd, Or.inr hh,
      Or.inl rfl, Or.inr ⟨101, es, ed, Or.inl rfl, h1, h2, h3, by rw [h4]⟩⟩
  · obtain ⟨es, ed, h1, h2, h3, h4⟩ := intText_shape ((ds.length : ℤ) + k - 1)
    have htn : (ds.take 1) ≠ [] := by
      apply List.ne_nil_of_length_pos; rw [List.length_take]; omega
    have hdn : (ds.drop 1) ≠ [] := by
      apply List.ne_nil_of_length_pos; rw [List.length_drop]; omega
    refine ⟨sg, ds.take 1, 46 :: ds.drop 1, 101 :: intText ((ds.length : ℤ) + k - 1), by simp, hsg,
      htn, all_take _ _ hd, Or.inr ?_, Or.inr ⟨_, hdn, all_drop _ _ hd, rfl⟩,
      Or.inr ⟨101, es, ed, Or.inl rfl, h1, h2, h3, by rw [h4]⟩⟩
    rw [List.head?_take, if_neg (by omega)]; exact hh

theorem decVal_zero (k : ℤ) : decVal 0 k = 0 := by rw [decVal_eq]; simp

/-- the digits laid out for a well-formed non-zero `x` are not zero -/
theorem jsonDigits_ne_zero (m : ℕ) (e : ℤ) (hm0 : m ≠ 0) (hm : m < two53) (h1 : eMin ≤ e)
    (h2 : e ≤ eMax) :
    (stripZeros (natDigits (shortestEven m e).1).length (shortestEven m e).1
      (shortestEven m e).2).1 ≠ 0 := by
  intro h0
  have hv := stripZeros_decVal (natDigits (shortestEven m e).1).length (shortestEven m e).1
    (shortestEven m e).2
  rw [h0, decVal_zero] at hv
  have := (readback_range m e hm0 hm h1 h2 _ _ (shortestEven_ok m e)).1
  linarith

/-- (d) SHAPE.  The text of every finite canonical double is a JSON number: optional `-`, an
integer part without superfluous leading zeros, optionally `.` and at least one digit, optionally
`e`, a sign and at least one digit. -/
theorem jsonText_shape (x : F64) (hc : Canonical x) (hf : Finite x) : JsonNumber (jsonText x) := by
  cases x with
  | nan => exact absurd hf (by simp [Finite])
  | inf s => exact absurd hf (by simp [Finite])
  | fin s m e =>
    have ht : jsonText (.fin s m e) = (if s then [45] else []) ++ jsonAbs m e := by
      cases s <;> simp [jsonText]
    have hsg : (if s then ([45] : Text) else []) = [] ∨ (if s then ([45] : Text) else []) = [45] := by
      cases s <;> simp
    rw [ht]
    by_cases hm0 : m = 0
    · subst hm0
      exact ⟨_, [48], [46, 48], [], by simp [jsonAbs], hsg, by simp, by decide, Or.inl rfl,
        Or.inr ⟨[48], by simp, by decide, rfl⟩, Or.inl rfl⟩
    · have h52 : two52 = 4503599627370496 := by norm_num [two52]
      have h53 : two53 = 9007199254740992 := by norm_num [two53]
      obtain ⟨hm, h1, h2⟩ : m < two53 ∧ eMin ≤ e ∧ e ≤ eMax := by
        rcases hc with ⟨a, b⟩ | ⟨a, b, c, d⟩
        · subst b; exact ⟨by omega, le_refl _, by decide⟩
        · exact ⟨b, c, d⟩
      rw [jsonAbs_eq m e hm0]
      exact layout_shape _ _ (jsonDigits_ne_zero m e hm0 hm h1 h2) _ hsg

/-- a JSON number is not `null` -/
theorem JsonNumber.ne_null {t : Text} (h : JsonNumber t) : t ≠ nullText := by
  obtain ⟨sg, ip, fr, ex, rfl, hsg, hne, hd, -, -, -⟩ := h
  cases ip with
  | nil => exact absurd rfl hne
  | cons c r =>
    simp only [List.all_cons, Bool.and_eq_true] at hd
    have hc' : c ≠ 110 := by intro h; subst h; simp [Case.isDigit] at hd
    rcases hsg with rfl | rfl <;> simp [nullText, hc']

/-! ### tests (kernel-checked evaluations on concrete values, not theorems of the model) -/

/-- test: `0.1` -/
example : jsonText (ofBits 0x3FB999999999999A) = [48, 46, 49] := by decide +kernel
/-- test: `1.0` -/
example : jsonText (ofBits 0x3FF0000000000000) = [49, 46, 48] := by decide +kernel
/-- test: `1e21` is written `1e+21` (always-signed exponent) -/
example : jsonText (ofBits 0x444B1AE4D6E2EF50) = [49, 101, 43, 50, 49] := by decide +kernel
/-- test: `1e-7` is written `1e-7` -/
example : jsonText (ofBits 0x3E7AD7F29ABCAF48) = [49, 101, 45, 55] := by decide +kernel
/-- test: `123456789012345680000.0` is written `1.2345678901234568e+20` -/
example : jsonText (ofBits 0x441AC53A7E04BCDA)
    = [49, 46, 50, 51, 52, 53, 54, 55, 56, 57, 48, 49, 50, 51, 52, 53, 54, 56, 101, 43, 50, 48] := by
  decide +kernel
/-- test: the exact tie `669438001820031.25` is written `669438001820031.2` (even digit; `Display`
prints `…31.3`) -/
example : jsonText (ofBits 0x430306cd72618bfa)
    = [54, 54, 57, 52, 51, 56, 48, 48, 49, 56, 50, 48, 48, 51, 49, 46, 50] := by decide +kernel
/-- test: `-0.0` -/
example : jsonText (ofBits 0x8000000000000000) = [45, 48, 46, 48] := by decide +kernel
/-- test: `5e-324` -/
example : jsonText (ofBits 1) = [53, 101, 45, 51, 50, 52] := by decide +kernel
/-- test: `f64::MAX` is written `1.7976931348623157e+308` -/
example : jsonText (ofBits 0x7FEFFFFFFFFFFFFF)
    = [49, 46, 55, 57, 55, 54, 57, 51, 49, 51, 52, 56, 54, 50, 51, 49, 53, 55, 101, 43, 51, 48, 56] := by
  decide +kernel
/-- tests: the layout thresholds `1e-5` ↦ `0.00001`, `1e16` ↦ `1e+16` -/
example : jsonText (ofBits 0x3EE4F8B588E368F1) = [48, 46, 48, 48, 48, 48, 49] := by decide +kernel
example : jsonText (ofBits 0x4341C37937E08000) = [49, 101, 43, 49, 54] := by decide +kernel
/-- tests: infinities and NaN are written `null` -/
example : jsonText (ofBits 0x7FF0000000000000) = nullText := by decide +kernel
example : jsonText (ofBits 0x7FF8000000000000) = nullText := by decide +kernel
/-- tests: the reader -/
example : parseJsonNum [48, 46, 49] = some (ofBits 0x3FB999999999999A) := by decide +kernel
example : parseJsonNum [49, 101, 43, 50, 49] = some (ofBits 0x444B1AE4D6E2EF50) := by decide +kernel
example : parseJsonNum [49, 69, 50, 49] = some (ofBits 0x444B1AE4D6E2EF50) := by decide +kernel
example : parseJsonNum [45, 48, 46, 48] = some (ofBits 0x8000000000000000) := by decide +kernel
example : parseJsonNum [53, 101, 45, 51, 50, 52] = some (ofBits 1) := by decide +kernel
example : parseJsonNum [49, 101] = none := by decide +kernel
example : parseJsonNum [49, 46] = none := by decide +kernel
example : parseJsonNum [45] = none := by decide +kernel
/-- test (non-vacuity of (c)): `{"amount":0.1,"unit":"M"}` -/
example : render (serQty .withRef (serF64 (ofBits 0x3FB999999999999A))
      { ident := [77], name := [77], symbol := [109], pfx := none, scale := none, doc := none })
    = [123, 34, 97, 109, 111, 117, 110, 116, 34, 58, 48, 46, 49, 44, 34, 117, 110, 105, 116, 34, 58,
       34, 77, 34, 125] := by
  decide +kernel

end Qty.C17F64
