import QtyModel.Registry
import QtyModel.Generated.Algos
/-
  Tie between code and model for `codegen_unit_constants` (loop body re-emitted from the source).
-/
namespace Qty.AlgoTie
open Qty Qty.MacroFront Qty.Gen.Algos

/-- one constant per unit, named `UPPER_SNAKE` of the variant identifier, bound to that variant -/
theorem constants_of_units (units : List UnitDef) :
    Codegen.constants units = units.map (fun u => (u.constName, u.ident)) := rfl

end Qty.AlgoTie
