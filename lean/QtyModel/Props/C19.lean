import QtyModel.Generated.Features
import QtyModel.Generated.Catalogue
import QtyModel.Registry
/-
  C19 — Every feature combination builds and is self-contained.  (partial: cargo / rustc are modelled)

  The feature graph (`[features]` of Cargo.toml), the `#[cfg(feature = ...)] pub mod` gates of
  src/lib.rs, the three cfg'd `AmountT` definitions and the `use crate::<module>` edges of the
  catalogue modules are regenerated on every run (`Generated/Features.lean`).
  `imports_closed_all` quantifies over ALL sets of requested features (not over a sample).
-/
namespace Qty.C19
open Qty Qty.Features

abbrev tbl : Table := Gen.Features.featuresResolved

/-- the executable closure is sound for cargo's resolution relation -/
theorem stepSet_sound (req s : List Text) (hs : ∀ f ∈ s, Reach tbl req f) :
    ∀ f ∈ stepSet tbl s, Reach tbl req f := by
  intro f hf
  unfold stepSet at hf
  rcases List.mem_append.mp hf with h | h
  · exact hs f h
  · have h1 := (List.mem_filter.mp h).1
    obtain ⟨g, hg, hfg⟩ := List.mem_flatMap.mp h1
    exact Reach.step g f (hs g hg) hfg

theorem closureAux_sound (req : List Text) (n : Nat) (s : List Text) (hs : ∀ f ∈ s, Reach tbl req f) :
    ∀ f ∈ closureAux tbl n s, Reach tbl req f := by
  induction n generalizing s with
  | zero => exact hs
  | succ n ih => exact ih _ (stepSet_sound req s hs)

theorem closure_sound (req : List Text) : ∀ f ∈ closure tbl req, Reach tbl req f :=
  closureAux_sound req _ req (fun f hf => Reach.base f hf)

/-- enabling more never disables: what one feature pulls in is pulled in by any request containing it -/
theorem reach_trans (req : List Text) (g f : Text) (hg : Reach tbl req g) (hf : Reach tbl [g] f) :
    Reach tbl req f := by
  induction hf with
  | base f h => simp at h; rw [h]; exact hg
  | step g' f _ hd ih => exact Reach.step g' f ih hd

theorem reach_mono (req req' : List Text) (h : ∀ f ∈ req, f ∈ req') (f : Text) (hf : Reach tbl req f) :
    Reach tbl req' f := by
  induction hf with
  | base f hm => exact Reach.base f (h f hm)
  | step g f _ hd ih => exact Reach.step g f ih hd

/-- the gated catalogue modules: (module, gate feature) -/
def gatedModules : List (Text × Text) :=
  Gen.Features.gates.filterMap (fun p => (gateFeature p.2).map (fun g => (p.1, g)))

def gateOf (m : Text) : Option Text := (gatedModules.find? (fun p => p.1 == m)).map (·.2)

/-- the `crate::<module>` references of a gated module: (features required by the enclosing
`#[cfg]` items, module referred to) -/
def importsOf (m : Text) : List (List Text × Text) :=
  ((Gen.Features.imports.find? (fun p => p.1 == m)).map (·.2)).getD []

/-- table fact, checked by the kernel on the regenerated tables: enabling the feature of a module
(together with the features a `#[cfg]` around the reference requires) ALONE enables the feature of
every gated module it refers to -/
def singleClosed : Bool :=
  gatedModules.all (fun (m, g) =>
    (importsOf m).all (fun (cs, m') =>
      match gateOf m' with
      | some g' => (closure tbl (g :: cs)).contains g'
      | none => Gen.Features.plainModules.contains m'))

theorem imports_closed_single : singleClosed = true := by decide +kernel

/-- what a set of features pulls in is pulled in by any request that reaches all of them -/
theorem reach_trans_list (req base : List Text) (f : Text) (hb : ∀ g ∈ base, Reach tbl req g)
    (hf : Reach tbl base f) : Reach tbl req f := by
  induction hf with
  | base f h => exact hb f h
  | step g' f _ hd ih => exact Reach.step g' f ih hd

/-- For EVERY set of requested features: every enabled catalogue module refers (in code whose
`#[cfg]` conditions are met) only to modules that are enabled too (or always present) — no feature
combination has a dangling import. -/
theorem imports_closed_all (req : List Text) (m g : Text) (hm : (m, g) ∈ gatedModules)
    (hen : Reach tbl req g) (cs : List Text) (m' : Text)
    (himp : (cs, m') ∈ importsOf m) (hcs : ∀ c ∈ cs, Reach tbl req c) :
    (∃ g', gateOf m' = some g' ∧ Reach tbl req g') ∨
    (gateOf m' = none ∧ m' ∈ Gen.Features.plainModules) := by
  have h := imports_closed_single
  unfold singleClosed at h
  rw [List.all_eq_true] at h
  have h1 := h (m, g) hm
  simp only [List.all_eq_true] at h1
  have h2 := h1 (cs, m') himp
  cases hg : gateOf m' with
  | some g' =>
    left
    refine ⟨g', rfl, ?_⟩
    simp only [hg] at h2
    have : g' ∈ closure tbl (g :: cs) := by simpa using h2
    refine reach_trans_list req (g :: cs) g' ?_ (closure_sound (g :: cs) g' this)
    intro x hx
    rcases List.mem_cons.mp hx with rfl | hx
    · exact hen
    · exact hcs x hx
  | none =>
    right
    simp only [hg] at h2
    exact ⟨rfl, by simpa using h2⟩

/-- non-vacuity: the table has unconditional references to gated modules -/
example : (gatedModules.any (fun p => (importsOf p.1).any (fun e => e.1.isEmpty && (gateOf e.2).isSome))) = true := by
  decide +kernel

/-- exactly one definition of `AmountT` is compiled in every configuration
(fpdec on/off x 32/64-bit target) -/
theorem amount_type_unique :
    [[], [[102, 112, 100, 101, 99]]].all (fun feats => [[51, 50], [54, 52]].all (fun w =>
      (Gen.Features.amountCfgs.filter (fun p => cfgEval feats w p.2)).length == 1)) = true := by
  decide +kernel

/-- the amount type is selected by the feature `fpdec` alone: no other feature (in particular not
`serde`, whose entry `fpdec?/serde-as-str` is a WEAK dependency feature) pulls `fpdec` in, so
enabling further features never swaps `f64` for `Decimal` under existing code -/
theorem only_fpdec_selects_decimal :
    tbl.all (fun p => p.1 == [102, 112, 100, 101, 99] || !(closure tbl [p.1]).contains [102, 112, 100, 101, 99]) = true := by
  decide +kernel

/-- the module of a derived quantity imports the modules of both operand types, and its feature
enables theirs: the derivation operators are available whenever the quantity is -/
theorem derivation_operands_enabled :
    Gen.Catalogue.items.all (fun it =>
      match MacroFront.expand it with
      | .error _ => false
      | .ok d =>
        match d.derived with
        | none => true
        | some dv =>
          let feat := d.name.map Case.toLower
          [dv.lhs, dv.rhs].all (fun t =>
            t == [65, 109, 111, 117, 110, 116, 84] || (closure tbl [feat]).contains (t.map Case.toLower))) = true := by
  decide +kernel

/-- all 14 quantity features are declared and gate exactly their own module -/
theorem fourteen_gated_modules :
    (gatedModules.filter (fun p => p.1 == p.2 && p.2 != [102, 112, 100, 101, 99])).length = 14 := by
  decide +kernel

/-! ### enabling further features never changes what already-available code computes

`Gen.Features.cfgSites` is the regenerated inventory of EVERY place where conditional compilation
enters the library build (`src/*.rs`, `qty-macros/src/*.rs`; `#[cfg(test)]` items excluded). -/

def fpdecName : Text := [102, 112, 100, 101, 99]
def stdName : Text := [115, 116, 100]
def serdeName : Text := [115, 101, 114, 100, 101]
def serdeDerives : Text := Text.ofString "attr:derive ( : : serde : : Deserialize , : : serde : : Serialize )"

/-- what a site of conditional compilation may look like: a module declaration or a re-export
(which names EXIST — the subject of `imports_closed_all`, not of results), the crate-level
`cfg_attr(not(feature = "std"), no_std)`, the serde derives under `feature = "serde"` (they only ADD
impls), or code whose predicate mentions no feature other than the amount-type selector `fpdec` -/
def siteOk (what : Text) (c : Cfg) : Bool :=
  if what == Text.ofString "mod" || what == Text.ofString "use" then true
  else if what == Text.ofString "attr:no_std" then cfgFeats c == [stdName]
  else if what == serdeDerives then cfgFeats c == [serdeName]
  else (cfgFeats c).all (· == fpdecName)

/-- every site in the current source is of one of these kinds: no function body, impl, statement or
expression is compiled differently depending on a quantity feature, `std` or `serde` -/
theorem code_depends_on_fpdec_only :
    Gen.Features.cfgSites.all (fun s => siteOk s.2.1 s.2.2) = true := by
  decide +kernel

mutual
/-- a predicate that mentions only `fpdec` evaluates the same under any two feature sets that agree on `fpdec` -/
theorem cfgEval_congr (f1 f2 : List Text) (w : Text) (h : f1.contains fpdecName = f2.contains fpdecName) :
    ∀ c : Cfg, (cfgFeats c).all (· == fpdecName) = true → cfgEval f1 w c = cfgEval f2 w c
  | .feature n, hc => by
    simp only [cfgFeats, List.all_cons, List.all_nil, Bool.and_true, beq_iff_eq] at hc
    subst hc; simpa [cfgEval] using h
  | .kv _ _, _ => by simp [cfgEval]
  | .flag _, _ => by simp [cfgEval]
  | .not c, hc => by
    simp only [cfgEval]; rw [cfgEval_congr f1 f2 w h c (by simpa [cfgFeats] using hc)]
  | .all cs, hc => by
    simp only [cfgEval]; exact cfgAll_congr f1 f2 w h cs (by simpa [cfgFeats] using hc)
  | .any cs, hc => by
    simp only [cfgEval]; exact cfgAny_congr f1 f2 w h cs (by simpa [cfgFeats] using hc)
theorem cfgAll_congr (f1 f2 : List Text) (w : Text) (h : f1.contains fpdecName = f2.contains fpdecName) :
    ∀ cs : List Cfg, (cfgFeatsL cs).all (· == fpdecName) = true → cfgAll f1 w cs = cfgAll f2 w cs
  | [], _ => rfl
  | c :: cs, hc => by
    simp only [cfgFeatsL, List.all_append, Bool.and_eq_true] at hc
    simp only [cfgAll]
    rw [cfgEval_congr f1 f2 w h c hc.1, cfgAll_congr f1 f2 w h cs hc.2]
theorem cfgAny_congr (f1 f2 : List Text) (w : Text) (h : f1.contains fpdecName = f2.contains fpdecName) :
    ∀ cs : List Cfg, (cfgFeatsL cs).all (· == fpdecName) = true → cfgAny f1 w cs = cfgAny f2 w cs
  | [], _ => rfl
  | c :: cs, hc => by
    simp only [cfgFeatsL, List.all_append, Bool.and_eq_true] at hc
    simp only [cfgAny]
    rw [cfgEval_congr f1 f2 w h c hc.1, cfgAny_congr f1 f2 w h cs hc.2]
end

/-- FOR ALL pairs of feature sets that select the same amount type: every site that gates CODE (not a
module declaration, a re-export, `no_std` or the serde derives) is compiled the same way under both —
so enabling additional features leaves the code of the already-available operations unchanged -/
theorem results_feature_independent (f1 f2 : List Text) (w : Text)
    (h : f1.contains fpdecName = f2.contains fpdecName)
    (file what : Text) (c : Cfg) (hs : (file, what, c) ∈ Gen.Features.cfgSites)
    (hcode : what ≠ Text.ofString "mod" ∧ what ≠ Text.ofString "use" ∧
             what ≠ Text.ofString "attr:no_std" ∧ what ≠ serdeDerives) :
    cfgEval f1 w c = cfgEval f2 w c := by
  have hall := code_depends_on_fpdec_only
  rw [List.all_eq_true] at hall
  have hsite := hall _ hs
  simp only [siteOk] at hsite
  obtain ⟨h1, h2, h3, h4⟩ := hcode
  have e1 : (what == Text.ofString "mod" || what == Text.ofString "use") = false := by
    simp [h1, h2]
  have e3 : (what == Text.ofString "attr:no_std") = false := by simp [h3]
  have e4 : (what == serdeDerives) = false := by simp [h4]
  rw [e1, e3, e4] at hsite
  simp only [Bool.false_eq_true, if_false] at hsite
  exact cfgEval_congr f1 f2 w h c hsite

/-- non-vacuity: there ARE sites that gate code (the two `fpdec` branches of `Quantity::fmt`) -/
example : Gen.Features.cfgSites.any (fun s => s.2.1 == Text.ofString "code") = true := by decide +kernel

/-- non-vacuity: `energy` pulls in force, mass, acceleration, speed, length, duration -/
example : (closure tbl [Text.ofString "energy"]).length = 7 := by decide +kernel

end Qty.C19
