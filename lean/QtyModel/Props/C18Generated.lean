import QtyModel.Props.C18
import QtyModel.Props.Bridge2
/-
  C18Generated — property C18 ("totality") END-TO-END for the types the macro generates.

  `Props/C18` proves totality of the modelled operations over an ARBITRARY unit table under table
  hypotheses (`T.ref ∈ T.units`, exact scale values `s1`, `s2` …).  `Props/Bridge`, `Bridge2`
  prove that every table the macro model generates (`expand it = .ok d`, `d.kind = .withRef`,
  `RTable.ofDef R d = some T`) satisfies such hypotheses.  Here the two are composed:

   1. binary64 (`f64_*_total_generated`): `convert`, `hrEq`, `hrPcmp`, `hrAdd`, `hrSub`, `hrDiv`,
      `_fit`, the derived `Mul`/`Div` operators, the scalar operators and the rate operators
      return `.ok _` for ALL amounts and ALL unit indices; no hypothesis on the table is left.
      `Generated R T` says that `T` is a table of the generated code: built by `RTable.ofDef` from
      an accepted definition with reference unit, or the dimensionless `AmountT`.
   2. decimal (`dec_*_total_generated`): the same operators on generated tables with positive
      scale literals (`LitsPositive d`); the scale hypotheses of `C18.dec_*_total` are discharged
      through `Bridge.dec_scale_litVal` (the exact scales ARE the literal values `litVal d`), so
      that only the property's range condition on the magnitudes is left (`Oracle.convSafe`,
      `Oracle.derivedSafe`, `ErrModel.dec.safe`, or the literal domain `|·| ≤ 1e17` of the
      property text: `dec_convert_total_generated_of_in_range`, `dec_cmp_…`, `dec_addsub_…`,
      `dec_div_…_of_in_range`; the last one also uses the lower end `1e-15` of the domain).
   3. catalogue (`catalogue_*`): the corollaries for every predefined quantity, `LitsPositive`
      discharged by `Bridge.catalogue_lits_positive'`, operand tables of the derived operators
      resolved by name (`Bridge.tableOf`) as the run-time driver does.

  Nothing had to be weakened (no `…_partial` statement).  `LitsPositive d` cannot be dropped in the
  decimal part: `dec_convert_needs_positive_literals` is a kernel-checked witness (a unit of scale
  `0.0` is accepted by the macro; converting to it panics although `convSafe` holds).  The decimal
  result type `AmountT` (e.g. `Frequency * Duration`), which `C04.dmul_mag` excludes
  (`fitIdentity = none`), is covered by `dmul_total_of_fitIdentity` / `ddiv_total_of_fitIdentity`.
  The last sentence of the property (types WITHOUT reference unit: only the documented unit-mismatch
  panic) is `only_documented_panic_generated`, `f64_only_documented_panic_generated`.

  Formatting (`Fmt.qtyFmt`, `Fmt.rateFmt`, `Fmt.decAbsText`, …) is modelled by TOTAL functions into
  `Text` (no `Res`), so "formatting does not panic" holds by construction of the model and there is
  nothing to state.
-/
set_option linter.unusedSectionVars false
set_option linter.unusedVariables false
namespace Qty.C18
open Qty Qty.MacroFront Qty.Bridge Qty.C09

/-! ### tables of the generated code -/

/-- `T` is a run-time table of the generated code for the amount type `R`: the table of an
accepted definition with reference unit, or the dimensionless amount `AmountT` (which the derived
operators accept as an operand or result type) -/
inductive Generated {A : Type} (R : Arith A) : RTable A → Prop
  | ofDef (it : RawItem) (d : QtyDef) (h : expand it = .ok d) (hk : d.kind = .withRef)
      (T : RTable A) (hT : RTable.ofDef R d = some T) : Generated R T
  | amount : Generated R (RTable.amount R)

theorem amount_ref_mem {A : Type} (R : Arith A) :
    ((RTable.amount R).qt R).ref ∈ ((RTable.amount R).qt R).units := by
  show (0 : Nat) ∈ List.range 1
  simp

/-- the hypothesis `T.ref ∈ T.units` of `f64_fit_total`, `f64_dmul_total`, `f64_ddiv_total`,
discharged -/
theorem Generated.ref_mem {A : Type} {R : Arith A} {T : RTable A} (hg : Generated R T) :
    (T.qt R).ref ∈ (T.qt R).units := by
  cases hg with
  | ofDef it d h hk _ hT => exact ofDef_ref_mem R it d h hk T hT
  | amount => exact amount_ref_mem R

/-- the hypothesis `T.kind = .withRef` of `f64_rate_total`, discharged -/
theorem Generated.kind {A : Type} {R : Arith A} {T : RTable A} (hg : Generated R T) :
    T.kind = .withRef := by
  cases hg with
  | ofDef it d h hk _ hT => exact ofDef_kind R d T hk hT
  | amount => rfl

/-! ### 1. binary64: no operation on a generated type panics, whatever the amounts -/

section f64
variable {T : RTable F64} (hg : Generated F64.arith T)
include hg

/-- conversion (`HasRefUnit::convert`, `equiv_amount`) -/
theorem f64_convert_total_generated (q : Q F64 Nat) (u : Nat) :
    ∃ r, convert F64.arith (T.qt F64.arith) q u = .ok r :=
  f64_convert_total _ q u

/-- `==` -/
theorem f64_eq_total_generated (a b : Q F64 Nat) :
    ∃ r, hrEq F64.arith (T.qt F64.arith) a b = .ok r :=
  f64_eq_total _ a b

/-- `partial_cmp` (hence `<`, `<=`, `>`, `>=`) -/
theorem f64_pcmp_total_generated (a b : Q F64 Nat) :
    ∃ r, hrPcmp F64.arith (T.qt F64.arith) a b = .ok r :=
  f64_pcmp_total _ a b

theorem f64_add_total_generated (a b : Q F64 Nat) :
    ∃ r, hrAdd F64.arith (T.qt F64.arith) a b = .ok r :=
  f64_add_total _ a b

theorem f64_sub_total_generated (a b : Q F64 Nat) :
    ∃ r, hrSub F64.arith (T.qt F64.arith) a b = .ok r :=
  f64_sub_total _ a b

/-- `Div<Self>` -/
theorem f64_div_total_generated (a b : Q F64 Nat) :
    ∃ r, hrDiv F64.arith (T.qt F64.arith) a b = .ok r :=
  f64_div_total _ a b

/-- `_fit`: the `unwrap` is safe — `ref ∈ units` is discharged by `Bridge.ofDef_ref_mem` -/
theorem f64_fit_total_generated (x : F64) :
    ∃ r, fit F64.arith (T.qt F64.arith) x = .ok r :=
  f64_fit_total _ hg.ref_mem x

/-- `Rate * Q`, `Q * Rate`, `Q / Rate` -/
theorem f64_rate_total_generated (r : Rate F64) (q : Q F64 Nat) :
    (∃ res, Rate.mulQ F64.arith T r q = .ok res) ∧ (∃ res, Rate.divQ F64.arith T q r = .ok res) :=
  f64_rate_total T hg.kind r q

omit hg
end f64

/-- `k * q`, `q * k`, `q / k` (no table is involved) -/
theorem f64_scalar_total_generated (k : F64) (q : Q F64 Nat) :
    (∃ r, smul F64.arith k q = .ok r) ∧ (∃ r, muls F64.arith q k = .ok r) ∧
    (∃ r, sdiv F64.arith q k = .ok r) :=
  f64_scalar_total k q

/-- derived product, operands of ANY two tables (in binary64 nothing at all is needed of the
operand tables), result type generated -/
theorem f64_dmul_total_generated' {U V : Type} [DecidableEq U] [DecidableEq V]
    (TL : QT F64 U) (TR : QT F64 V) {TO : RTable F64} (hO : Generated F64.arith TO)
    (l : Q F64 U) (r : Q F64 V) :
    ∃ res, dmul F64.arith TL TR (TO.qt F64.arith) l r = .ok res :=
  f64_dmul_total TL TR _ hO.ref_mem l r

theorem f64_ddiv_total_generated' {U V : Type} [DecidableEq U] [DecidableEq V]
    (TL : QT F64 U) (TR : QT F64 V) {TO : RTable F64} (hO : Generated F64.arith TO)
    (l : Q F64 U) (r : Q F64 V) :
    ∃ res, ddiv F64.arith TL TR (TO.qt F64.arith) l r = .ok res :=
  f64_ddiv_total TL TR _ hO.ref_mem l r

/-- the generated `impl Mul<R> for L { type Output = O }` for three tables of the generated code
(each one a generated quantity or `AmountT`) -/
theorem f64_dmul_total_generated {TL TR TO : RTable F64} (hL : Generated F64.arith TL)
    (hR : Generated F64.arith TR) (hO : Generated F64.arith TO) (l r : Q F64 Nat) :
    ∃ res, dmul F64.arith (TL.qt F64.arith) (TR.qt F64.arith) (TO.qt F64.arith) l r = .ok res :=
  f64_dmul_total_generated' _ _ hO l r

/-- the generated `impl Div<R> for L { type Output = O }` -/
theorem f64_ddiv_total_generated {TL TR TO : RTable F64} (hL : Generated F64.arith TL)
    (hR : Generated F64.arith TR) (hO : Generated F64.arith TO) (l r : Q F64 Nat) :
    ∃ res, ddiv F64.arith (TL.qt F64.arith) (TR.qt F64.arith) (TO.qt F64.arith) l r = .ok res :=
  f64_ddiv_total_generated' _ _ hO l r

/-- every modelled operation on the quantity type with table `T` returns, for all amounts (zero,
subnormal, infinite, NaN), all unit indices, all scalars and all rates -/
def F64Total (T : RTable F64) : Prop :=
  ∀ (a b : Q F64 Nat) (u : Nat) (k : F64) (rt : Rate F64),
    (∃ r, convert F64.arith (T.qt F64.arith) a u = .ok r) ∧
    (∃ r, hrEq F64.arith (T.qt F64.arith) a b = .ok r) ∧
    (∃ r, hrPcmp F64.arith (T.qt F64.arith) a b = .ok r) ∧
    (∃ r, hrAdd F64.arith (T.qt F64.arith) a b = .ok r) ∧
    (∃ r, hrSub F64.arith (T.qt F64.arith) a b = .ok r) ∧
    (∃ r, hrDiv F64.arith (T.qt F64.arith) a b = .ok r) ∧
    (∃ r, fit F64.arith (T.qt F64.arith) k = .ok r) ∧
    (∃ r, smul F64.arith k a = .ok r) ∧ (∃ r, muls F64.arith a k = .ok r) ∧
    (∃ r, sdiv F64.arith a k = .ok r) ∧
    (∃ r, Rate.mulQ F64.arith T rt a = .ok r) ∧ (∃ r, Rate.divQ F64.arith T a rt = .ok r)

/-- **1.** summary: every modelled operation on a generated binary64 quantity type returns -/
theorem f64_total_generated {T : RTable F64} (hg : Generated F64.arith T) : F64Total T :=
  fun a b u k rt =>
  ⟨f64_convert_total_generated hg a u, f64_eq_total_generated hg a b,
   f64_pcmp_total_generated hg a b, f64_add_total_generated hg a b,
   f64_sub_total_generated hg a b, f64_div_total_generated hg a b,
   f64_fit_total_generated hg k, (f64_scalar_total k a).1, (f64_scalar_total k a).2.1,
   (f64_scalar_total k a).2.2, (f64_rate_total_generated hg rt a).1,
   (f64_rate_total_generated hg rt a).2⟩

/-! ### 2. decimal: no panic inside the magnitude domain -/

/-- the side condition `ErrModel.dec.safe` in plain words: absolute value at most `1e19` -/
theorem dec_safe_of_le (x : Rat) (h : |x| ≤ 10 ^ 19) : ErrModel.dec.safe x = true :=
  (Dec.safe_iff x).mpr h

/-- the property's literal domain implies the second side condition of `C18.dec_addsub_total`:
both amounts and the converted right operand of absolute value at most `1e17` -/
theorem addsub_safe_of_in_range (s1 s2 x y : Rat)
    (hx : |x| ≤ 10 ^ 17) (hy : |y| ≤ 10 ^ 17) (hρy : |s2 / s1 * y| ≤ 10 ^ 17) :
    ErrModel.dec.safe (ratAbs x + (ratAbs (s2 / s1) * ratAbs y
        + Oracle.convBoundIn ErrModel.dec s2 s1 y)
      + ErrModel.dec.Ea (ratAbs x + (ratAbs (s2 / s1) * ratAbs y
        + Oracle.convBoundIn ErrModel.dec s2 s1 y))) = true := by
  apply dec_safe_of_le
  simp only [Dec.dec_Ea, Oracle.convBoundIn, Dec.dec_E, ratAbs_eq_abs, add_zero]
  rw [abs_mul] at hρy
  have h0 : 0 ≤ |x| + (|s2 / s1| * |y| + (1 / (2 * 10 ^ 18) + |y| * (1 / (2 * 10 ^ 18)))) := by
    positivity
  rw [abs_of_nonneg h0]
  have := abs_nonneg y
  linarith

/-- the property's literal domain implies the side conditions of `C18.dec_div_total`: scale ratio
and divisor expressed in the dividend's unit of absolute value at least `1e-15` (so the divisor is
further from zero than the rounding error of its conversion), quotient at most `1e17` -/
theorem div_safe_of_in_range (s1 s2 x y : Rat)
    (hρlo : 1 / 10 ^ 15 ≤ |s2 / s1|) (htlo : 1 / 10 ^ 15 ≤ |s2 / s1 * y|)
    (hq : |x / (s2 / s1 * y)| ≤ 10 ^ 17) :
    Oracle.convBoundIn ErrModel.dec s2 s1 y < ratAbs (s2 / s1 * y) ∧
    ErrModel.dec.safe (ratAbs x / (ratAbs (s2 / s1 * y) - Oracle.convBoundIn ErrModel.dec s2 s1 y)
      + ErrModel.dec.E (ratAbs x / (ratAbs (s2 / s1 * y)
        - Oracle.convBoundIn ErrModel.dec s2 s1 y))) = true := by
  simp only [Oracle.convBoundIn, Dec.dec_E, ratAbs_eq_abs]
  have hy0 := abs_nonneg y
  have htm : |s2 / s1 * y| = |s2 / s1| * |y| := abs_mul _ _
  have h1 : 1 / 10 ^ 15 * |y| ≤ |s2 / s1| * |y| := mul_le_mul_of_nonneg_right hρlo hy0
  have hcb : (1 : ℚ) / (2 * 10 ^ 18) + |y| * (1 / (2 * 10 ^ 18)) ≤ 1 / 1000 * |s2 / s1 * y| := by
    rw [htm] at htlo ⊢
    linarith
  have htpos : 0 < |s2 / s1 * y| := lt_of_lt_of_le (by positivity) htlo
  refine ⟨by linarith, ?_⟩
  apply dec_safe_of_le
  have hlo : 999 / 1000 * |s2 / s1 * y| ≤
      |s2 / s1 * y| - ((1 : ℚ) / (2 * 10 ^ 18) + |y| * (1 / (2 * 10 ^ 18))) := by linarith
  have hlo0 : 0 < 999 / 1000 * |s2 / s1 * y| := by positivity
  have hdiv : |x| / (|s2 / s1 * y| - ((1 : ℚ) / (2 * 10 ^ 18) + |y| * (1 / (2 * 10 ^ 18))))
      ≤ |x| / (999 / 1000 * |s2 / s1 * y|) :=
    div_le_div_of_nonneg_left (abs_nonneg x) hlo0 hlo
  have heq : |x| / (999 / 1000 * |s2 / s1 * y|) = 1000 / 999 * |x / (s2 / s1 * y)| := by
    rw [abs_div]; field_simp
  have hnn : 0 ≤ |x| / (|s2 / s1 * y| - ((1 : ℚ) / (2 * 10 ^ 18) + |y| * (1 / (2 * 10 ^ 18)))) :=
    div_nonneg (abs_nonneg x) (le_trans (le_of_lt hlo0) hlo)
  rw [abs_of_nonneg (by positivity)]
  rw [heq] at hdiv
  linarith

section dec1
variable (d : QtyDef) (hk : d.kind = .withRef)
variable (T : RTable Dec) (hT : RTable.ofDef Dec.arith d = some T) (hp : LitsPositive d = true)
include hk hT hp

/-- **2.** conversion on a generated decimal table with positive scale literals: `hs1`, `hs2`,
`hs2ne` of `C18.dec_convert_total` are discharged (the scales are the exact literal values
`litVal d`, `Bridge.dec_scale_litVal`; they are positive); `q.unit ≠ u` is not needed.  Left: the
two units are units of the table, the value `a` of the amount, the range condition. -/
theorem dec_convert_total_generated (q : Q Dec Nat) (u : Nat) (hq : q.unit < T.n) (hu : u < T.n)
    (a : Rat) (ha : Dec.arith.val q.amount = some a)
    (hsafe : Oracle.convSafe ErrModel.dec (litVal d q.unit) (litVal d u) a = true) :
    ∃ r, convert Dec.arith (T.qt Dec.arith) q u = .ok r := by
  by_cases hne : q.unit = u
  · subst hne
    exact ⟨_, C01.convert_same_unit _ _ q⟩
  · have h1 := dec_scale_pos d hk T hT hp q.unit hq
    have h2 := dec_scale_pos d hk T hT hp u hu
    obtain ⟨r, _, h, _⟩ := C01.convert_mag Dec.arith (T.qt Dec.arith) Dec.laws q u _ _ a hne
      h1.1 h2.1 (ne_of_gt h2.2) ha hsafe
    exact ⟨r, h⟩

/-- **2.** the same with the LITERAL domain of the property text: the ratio of the two unit scales,
the amount and the converted amount have absolute value at most `1e17` (the lower end `1e-15` of
the property's domain is not needed for a conversion) -/
theorem dec_convert_total_generated_of_in_range (q : Q Dec Nat) (u : Nat) (hq : q.unit < T.n)
    (hu : u < T.n) (a : Rat) (ha : Dec.arith.val q.amount = some a)
    (hρ : |litVal d q.unit / litVal d u| ≤ 10 ^ 17) (hav : |a| ≤ 10 ^ 17)
    (hρa : |litVal d q.unit / litVal d u * a| ≤ 10 ^ 17) :
    ∃ r, convert Dec.arith (T.qt Dec.arith) q u = .ok r :=
  dec_convert_total_generated d hk T hT hp q u hq hu a ha
    (convSafe_of_in_range _ _ a hρ hav hρa)

/-- **2.** `==` and `partial_cmp` -/
theorem dec_cmp_total_generated (a b : Q Dec Nat) (hau : a.unit < T.n) (hbu : b.unit < T.n)
    (x y : Rat) (hx : Dec.arith.val a.amount = some x) (hy : Dec.arith.val b.amount = some y)
    (hs1 : Oracle.convSafe ErrModel.dec (litVal d b.unit) (litVal d a.unit) y = true)
    (hs2 : Oracle.convSafe ErrModel.dec (litVal d a.unit) (litVal d b.unit) x = true) :
    (∃ e, hrEq Dec.arith (T.qt Dec.arith) a b = .ok e) ∧
    (∃ p, hrPcmp Dec.arith (T.qt Dec.arith) a b = .ok p) := by
  have h1 := dec_scale_pos d hk T hT hp a.unit hau
  have h2 := dec_scale_pos d hk T hT hp b.unit hbu
  exact dec_cmp_total (T.qt Dec.arith) a b _ _ x y h1.1 h2.1 (ne_of_gt h1.2) (ne_of_gt h2.2)
    hx hy hs1 hs2

/-- **2.** comparisons, literal domain: both amounts, both scale ratios and both converted amounts
have absolute value at most `1e17` -/
theorem dec_cmp_total_generated_of_in_range (a b : Q Dec Nat) (hau : a.unit < T.n)
    (hbu : b.unit < T.n) (x y : Rat)
    (hx : Dec.arith.val a.amount = some x) (hy : Dec.arith.val b.amount = some y)
    (hxv : |x| ≤ 10 ^ 17) (hyv : |y| ≤ 10 ^ 17)
    (hρ : |litVal d b.unit / litVal d a.unit| ≤ 10 ^ 17)
    (hρ' : |litVal d a.unit / litVal d b.unit| ≤ 10 ^ 17)
    (hρy : |litVal d b.unit / litVal d a.unit * y| ≤ 10 ^ 17)
    (hρx : |litVal d a.unit / litVal d b.unit * x| ≤ 10 ^ 17) :
    (∃ e, hrEq Dec.arith (T.qt Dec.arith) a b = .ok e) ∧
    (∃ p, hrPcmp Dec.arith (T.qt Dec.arith) a b = .ok p) :=
  dec_cmp_total_generated d hk T hT hp a b hau hbu x y hx hy
    (convSafe_of_in_range _ _ y hρ hyv hρy) (convSafe_of_in_range _ _ x hρ' hxv hρx)

/-- **2.** sums and differences of values in different units -/
theorem dec_addsub_total_generated (isSub : Bool) (a b : Q Dec Nat) (hau : a.unit < T.n)
    (hbu : b.unit < T.n) (hne : b.unit ≠ a.unit) (x y : Rat)
    (hx : Dec.arith.val a.amount = some x) (hy : Dec.arith.val b.amount = some y)
    (hsafe : Oracle.convSafe ErrModel.dec (litVal d b.unit) (litVal d a.unit) y = true)
    (hsafe2 : ErrModel.dec.safe (ratAbs x + (ratAbs (litVal d b.unit / litVal d a.unit) * ratAbs y
        + Oracle.convBoundIn ErrModel.dec (litVal d b.unit) (litVal d a.unit) y)
      + ErrModel.dec.Ea (ratAbs x + (ratAbs (litVal d b.unit / litVal d a.unit) * ratAbs y
        + Oracle.convBoundIn ErrModel.dec (litVal d b.unit) (litVal d a.unit) y))) = true) :
    ∃ r, (if isSub then hrSub Dec.arith (T.qt Dec.arith) a b
      else hrAdd Dec.arith (T.qt Dec.arith) a b) = .ok r := by
  have h1 := dec_scale_pos d hk T hT hp a.unit hau
  have h2 := dec_scale_pos d hk T hT hp b.unit hbu
  exact dec_addsub_total (T.qt Dec.arith) isSub a b _ _ x y hne h1.1 h2.1 (ne_of_gt h1.2) hx hy
    hsafe hsafe2

/-- **2.** ratios of like quantities in different units -/
theorem dec_div_total_generated (a b : Q Dec Nat) (hau : a.unit < T.n) (hbu : b.unit < T.n)
    (hne : b.unit ≠ a.unit) (x y : Rat)
    (hx : Dec.arith.val a.amount = some x) (hy : Dec.arith.val b.amount = some y)
    (hsafe : Oracle.convSafe ErrModel.dec (litVal d b.unit) (litVal d a.unit) y = true)
    (hcb : Oracle.convBoundIn ErrModel.dec (litVal d b.unit) (litVal d a.unit) y
      < ratAbs (litVal d b.unit / litVal d a.unit * y))
    (hsafe2 : ErrModel.dec.safe (ratAbs x / (ratAbs (litVal d b.unit / litVal d a.unit * y)
        - Oracle.convBoundIn ErrModel.dec (litVal d b.unit) (litVal d a.unit) y)
      + ErrModel.dec.E (ratAbs x / (ratAbs (litVal d b.unit / litVal d a.unit * y)
        - Oracle.convBoundIn ErrModel.dec (litVal d b.unit) (litVal d a.unit) y))) = true) :
    ∃ c, hrDiv Dec.arith (T.qt Dec.arith) a b = .ok c := by
  have h1 := dec_scale_pos d hk T hT hp a.unit hau
  have h2 := dec_scale_pos d hk T hT hp b.unit hbu
  exact dec_div_total (T.qt Dec.arith) a b _ _ x y hne h1.1 h2.1 (ne_of_gt h1.2) hx hy
    hsafe hcb hsafe2

/-- **2.** sums and differences, literal domain (same unit or not): both amounts, the scale ratio
and the right operand expressed in the left operand's unit of absolute value at most `1e17` -/
theorem dec_addsub_total_generated_of_in_range (isSub : Bool) (a b : Q Dec Nat)
    (hau : a.unit < T.n) (hbu : b.unit < T.n) (x y : Rat)
    (hx : Dec.arith.val a.amount = some x) (hy : Dec.arith.val b.amount = some y)
    (hxv : |x| ≤ 10 ^ 17) (hyv : |y| ≤ 10 ^ 17)
    (hρ : |litVal d b.unit / litVal d a.unit| ≤ 10 ^ 17)
    (hρy : |litVal d b.unit / litVal d a.unit * y| ≤ 10 ^ 17) :
    ∃ r, (if isSub then hrSub Dec.arith (T.qt Dec.arith) a b
      else hrAdd Dec.arith (T.qt Dec.arith) a b) = .ok r := by
  by_cases hne : b.unit = a.unit
  · have hsx : ErrModel.dec.safe x = true := dec_safe_of_le x (le_trans hxv (by norm_num))
    have hsy : ErrModel.dec.safe y = true := dec_safe_of_le y (le_trans hyv (by norm_num))
    cases isSub
    · have hs : ErrModel.dec.safe (x + y) = true :=
        dec_safe_of_le _ (le_trans (abs_add_le x y) (by linarith))
      obtain ⟨c, _, hc, _⟩ := Dec.laws.add_ok a.amount b.amount x y hx hy hsx hsy hs
      simp only [Bool.false_eq_true, if_false]
      rw [C03.add_same_unit Dec.arith _ a b hne, hc]
      exact ⟨_, rfl⟩
    · have hs : ErrModel.dec.safe (x - y) = true :=
        dec_safe_of_le _ (le_trans (abs_sub x y) (by linarith))
      obtain ⟨c, _, hc, _⟩ := Dec.laws.sub_ok a.amount b.amount x y hx hy hsx hsy hs
      simp only [if_true]
      rw [C03.sub_same_unit Dec.arith _ a b hne, hc]
      exact ⟨_, rfl⟩
  · exact dec_addsub_total_generated d hk T hT hp isSub a b hau hbu hne x y hx hy
      (convSafe_of_in_range _ _ y hρ hyv hρy) (addsub_safe_of_in_range _ _ x y hxv hyv hρy)

/-- **2.** ratios, literal domain (same unit or not): scale ratio and divisor expressed in the
dividend's unit of absolute value between `1e-15` and `1e17`, divisor amount and quotient at most
`1e17` — here the LOWER end of the property's domain is used -/
theorem dec_div_total_generated_of_in_range (a b : Q Dec Nat)
    (hau : a.unit < T.n) (hbu : b.unit < T.n) (x y : Rat)
    (hx : Dec.arith.val a.amount = some x) (hy : Dec.arith.val b.amount = some y)
    (hyv : |y| ≤ 10 ^ 17)
    (hρlo : 1 / 10 ^ 15 ≤ |litVal d b.unit / litVal d a.unit|)
    (hρ : |litVal d b.unit / litVal d a.unit| ≤ 10 ^ 17)
    (htlo : 1 / 10 ^ 15 ≤ |litVal d b.unit / litVal d a.unit * y|)
    (ht : |litVal d b.unit / litVal d a.unit * y| ≤ 10 ^ 17)
    (hq : |x / (litVal d b.unit / litVal d a.unit * y)| ≤ 10 ^ 17) :
    ∃ c, hrDiv Dec.arith (T.qt Dec.arith) a b = .ok c := by
  by_cases hne : b.unit = a.unit
  · have h1 := dec_scale_pos d hk T hT hp a.unit hau
    rw [hne, div_self (ne_of_gt h1.2), one_mul] at htlo hq
    have hy0 : y ≠ 0 := by
      intro h0
      rw [h0, abs_zero] at htlo
      norm_num at htlo
    obtain ⟨c, _, hc, _⟩ := Dec.laws.div_ok a.amount b.amount x y hx hy hy0
      (dec_safe_of_le _ (le_trans hq (by norm_num)))
    rw [C03.div_same_unit Dec.arith _ a b hne, hc]
    exact ⟨_, rfl⟩
  · obtain ⟨h1, h2⟩ := div_safe_of_in_range (litVal d a.unit) (litVal d b.unit) x y hρlo htlo hq
    exact dec_div_total_generated d hk T hT hp a b hau hbu hne x y hx hy
      (convSafe_of_in_range _ _ y hρ hyv ht) h1 h2
omit hk hT hp
end dec1

/-! #### derived operators -/

section fitId
variable {A U V W : Type} [DecidableEq U] [DecidableEq V] [DecidableEq W] (R : Arith A)

/-- the product `p * s` formed on the `_fit` branch of the generated `Mul`/`Div` bodies is in
range under `Oracle.derivedSafe` (its first three conjuncts) -/
theorem tail_mul_ok {M : ErrModel} (L : Laws R M) (pa ps : Rat) (p s : A) (pv sv : Rat)
    (hp : R.val p = some pv) (hs : R.val s = some sv)
    (hpe : |pv - pa| ≤ M.E pa) (hse : |sv - ps| ≤ M.E ps) (sw : Rat)
    (hsafe : Oracle.derivedSafe M pa ps sw = true) : ∃ x, R.mul p s = .ok x := by
  simp only [Oracle.derivedSafe, Bool.and_eq_true, ratAbs_eq_abs] at hsafe
  obtain ⟨⟨-, hsX⟩, -⟩ := hsafe
  have hEpa := L.wf.E_nonneg pa
  have hEps := L.wf.E_nonneg ps
  have hP0 : 0 ≤ |pa| + M.E pa := by positivity
  have hS0 : 0 ≤ |ps| + M.E ps := by positivity
  have hEPS := L.wf.E_nonneg ((|pa| + M.E pa) * (|ps| + M.E ps))
  have hP : |pv| ≤ |pa| + M.E pa := by
    have := abs_sub_abs_le_abs_sub pv pa
    linarith
  have hS : |sv| ≤ |ps| + M.E ps := by
    have := abs_sub_abs_le_abs_sub sv ps
    linarith
  have hpvsv : |pv * sv| ≤ (|pa| + M.E pa) * (|ps| + M.E ps) := by
    rw [abs_mul]; exact mul_le_mul hP hS (abs_nonneg _) hP0
  have hsafe1 : M.safe (pv * sv) = true := by
    apply L.wf.safe_mono _ _ _ hsX
    simp only [ratAbs_eq_abs]
    have hPS0 := mul_nonneg hP0 hS0
    have hX0 : 0 ≤ (|pa| + M.E pa) * (|ps| + M.E ps)
        + M.E ((|pa| + M.E pa) * (|ps| + M.E ps)) := by linarith
    rw [abs_of_nonneg hX0]
    linarith
  obtain ⟨x, _, hmul, _⟩ := L.mul_ok p s pv sv hp hs hsafe1
  exact ⟨x, hmul⟩

/-- derived product into a result type whose `_fit` is the identity (`AmountT`) -/
theorem dmul_total_of_fitIdentity {M : ErrModel} (L : Laws R M) (TL : QT A U) (TR : QT A V)
    (TO : QT A W) (mk : A → W → Q A W) (hI : TO.fitIdentity = some mk)
    (l : Q A U) (r : Q A V) (a b sl sr : Rat)
    (ha : R.val l.amount = some a) (hb : R.val r.amount = some b)
    (hsl : R.val (TL.scale l.unit) = some sl) (hsr : R.val (TR.scale r.unit) = some sr)
    (sw : Rat) (hsafe : Oracle.derivedSafe M (a * b) (sl * sr) sw = true) :
    ∃ res, dmul R TL TR TO l r = .ok res := by
  obtain ⟨hs1, hs2⟩ := C04.safe_of_derivedSafe L.wf _ _ _ hsafe
  obtain ⟨s, sv, hsmul, hsv, hse⟩ := L.mul_ok _ _ sl sr hsl hsr hs2
  obtain ⟨p, pv, hpmul, hpv, hpe⟩ := L.mul_ok _ _ a b ha hb hs1
  rw [ratAbs_eq_abs] at hse hpe
  obtain ⟨x, hx⟩ := tail_mul_ok R L _ _ p s pv sv hpv hsv hpe hse sw hsafe
  cases hf : unitFromScale R TO s with
  | some w => exact ⟨⟨p, w⟩, by simp [dmul, hsmul, hpmul, hf, bind, Except.bind, pure, Except.pure]⟩
  | none => exact ⟨mk x TO.ref, by simp [dmul, hsmul, hpmul, hf, hx, fit, hI, bind, Except.bind]⟩

theorem ddiv_total_of_fitIdentity {M : ErrModel} (L : Laws R M) (TL : QT A U) (TR : QT A V)
    (TO : QT A W) (mk : A → W → Q A W) (hI : TO.fitIdentity = some mk)
    (l : Q A U) (r : Q A V) (a b sl sr : Rat)
    (ha : R.val l.amount = some a) (hb : R.val r.amount = some b) (hb0 : b ≠ 0)
    (hsl : R.val (TL.scale l.unit) = some sl) (hsr : R.val (TR.scale r.unit) = some sr)
    (hsr0 : sr ≠ 0)
    (sw : Rat) (hsafe : Oracle.derivedSafe M (a / b) (sl / sr) sw = true) :
    ∃ res, ddiv R TL TR TO l r = .ok res := by
  obtain ⟨hs1, hs2⟩ := C04.safe_of_derivedSafe L.wf _ _ _ hsafe
  obtain ⟨s, sv, hsdiv, hsv, hse⟩ := L.div_ok _ _ sl sr hsl hsr hsr0 hs2
  obtain ⟨p, pv, hpdiv, hpv, hpe⟩ := L.div_ok _ _ a b ha hb hb0 hs1
  rw [ratAbs_eq_abs] at hse hpe
  obtain ⟨x, hx⟩ := tail_mul_ok R L _ _ p s pv sv hpv hsv hpe hse sw hsafe
  cases hf : unitFromScale R TO s with
  | some w => exact ⟨⟨p, w⟩, by simp [ddiv, hsdiv, hpdiv, hf, bind, Except.bind, pure, Except.pure]⟩
  | none => exact ⟨mk x TO.ref, by simp [ddiv, hsdiv, hpdiv, hf, hx, fit, hI, bind, Except.bind]⟩

end fitId

/-- `T` is a DECIMAL table of the generated code and `sc` are the exact values of its unit scales:
the table of an accepted definition with reference unit and positive scale literals (scales
`litVal d`, the exact literal values), or the dimensionless `AmountT` (scale one) -/
inductive GeneratedDec : RTable Dec → (Nat → Rat) → Prop
  | ofDef (it : RawItem) (d : QtyDef) (h : expand it = .ok d) (hk : d.kind = .withRef)
      (T : RTable Dec) (hT : RTable.ofDef Dec.arith d = some T) (hp : LitsPositive d = true) :
      GeneratedDec T (litVal d)
  | amount : GeneratedDec (RTable.amount Dec.arith) (fun _ => 1)

theorem GeneratedDec.generated {T : RTable Dec} {sc : Nat → Rat} (hg : GeneratedDec T sc) :
    Generated Dec.arith T := by
  cases hg with
  | ofDef it d h hk _ hT hp => exact .ofDef it d h hk T hT
  | amount => exact .amount

theorem amount_scale {A : Type} (R : Arith A) (u : Nat) :
    ((RTable.amount R).qt R).scale u = R.one := by
  show (#[R.one] : Array A).getD u R.one = R.one
  cases u <;> simp [Array.getD]

/-- the scale hypotheses `hsl`, `hsr`, `hsc` of `C18.dec_dmul_total` / `dec_ddiv_total`, discharged:
every unit of the table has the finite positive scale `sc u` -/
theorem GeneratedDec.scale {T : RTable Dec} {sc : Nat → Rat} (hg : GeneratedDec T sc) (u : Nat)
    (hu : u < T.n) : Dec.arith.val ((T.qt Dec.arith).scale u) = some (sc u) ∧ 0 < sc u := by
  cases hg with
  | ofDef it d h hk _ hT hp => exact dec_scale_pos d hk T hT hp u hu
  | amount => exact ⟨by rw [amount_scale]; exact Dec.laws.one_val, one_pos⟩

/-- **2.** the generated `impl Mul<R> for L { type Output = O }` in the decimal back-end, for three
tables of the generated code (each a generated quantity with positive scale literals, or
`AmountT`): `hI`, `href`, `hsl`, `hsr`, `hsc` of `C18.dec_dmul_total` are discharged.  Left: the
two units are units of their tables, the values `a`, `b` of the amounts, and the range condition
`Oracle.derivedSafe` for every unit of the result table, on the exact scales.  (For the result type
`AmountT`, whose `_fit` is the identity, `C04.dmul_mag` does not apply; `dmul_total_of_fitIdentity`
covers it.) -/
theorem dec_dmul_total_generated {TL TR TO : RTable Dec} {scL scR scO : Nat → Rat}
    (hL : GeneratedDec TL scL) (hR : GeneratedDec TR scR) (hO : GeneratedDec TO scO)
    (l r : Q Dec Nat) (hlu : l.unit < TL.n) (hru : r.unit < TR.n) (a b : Rat)
    (ha : Dec.arith.val l.amount = some a) (hb : Dec.arith.val r.amount = some b)
    (hsafe : ∀ u, u < TO.n →
      Oracle.derivedSafe ErrModel.dec (a * b) (scL l.unit * scR r.unit) (scO u) = true) :
    ∃ res, dmul Dec.arith (TL.qt Dec.arith) (TR.qt Dec.arith) (TO.qt Dec.arith) l r = .ok res := by
  have hsl := (hL.scale l.unit hlu).1
  have hsr := (hR.scale r.unit hru).1
  cases hO with
  | ofDef it d h hk _ hT hp =>
    exact dec_dmul_total _ _ (TO.qt Dec.arith) (ofDef_fitIdentity Dec.arith d TO hk hT)
      (ofDef_ref_mem Dec.arith it d h hk TO hT) l r a b _ _ ha hb hsl hsr (litVal d)
      (fun u hu => dec_scale_pos d hk TO hT hp u ((mem_qt_units _ _ u).mp hu))
      (fun u hu => hsafe u ((mem_qt_units _ _ u).mp hu))
  | amount =>
    exact dmul_total_of_fitIdentity Dec.arith Dec.laws _ _ _ _ rfl l r a b _ _ ha hb hsl hsr 1
      (hsafe 0 (by decide))

/-- **2.** the generated `impl Div<R> for L { type Output = O }`: additionally `hsr0` (the divisor's
unit scale is not zero) is discharged; the divisor amount must not be zero -/
theorem dec_ddiv_total_generated {TL TR TO : RTable Dec} {scL scR scO : Nat → Rat}
    (hL : GeneratedDec TL scL) (hR : GeneratedDec TR scR) (hO : GeneratedDec TO scO)
    (l r : Q Dec Nat) (hlu : l.unit < TL.n) (hru : r.unit < TR.n) (a b : Rat)
    (ha : Dec.arith.val l.amount = some a) (hb : Dec.arith.val r.amount = some b) (hb0 : b ≠ 0)
    (hsafe : ∀ u, u < TO.n →
      Oracle.derivedSafe ErrModel.dec (a / b) (scL l.unit / scR r.unit) (scO u) = true) :
    ∃ res, ddiv Dec.arith (TL.qt Dec.arith) (TR.qt Dec.arith) (TO.qt Dec.arith) l r = .ok res := by
  have hsl := (hL.scale l.unit hlu).1
  have hsr := hR.scale r.unit hru
  cases hO with
  | ofDef it d h hk _ hT hp =>
    exact dec_ddiv_total _ _ (TO.qt Dec.arith) (ofDef_fitIdentity Dec.arith d TO hk hT)
      (ofDef_ref_mem Dec.arith it d h hk TO hT) l r a b _ _ ha hb hb0 hsl hsr.1 (ne_of_gt hsr.2)
      (litVal d)
      (fun u hu => dec_scale_pos d hk TO hT hp u ((mem_qt_units _ _ u).mp hu))
      (fun u hu => hsafe u ((mem_qt_units _ _ u).mp hu))
  | amount =>
    exact ddiv_total_of_fitIdentity Dec.arith Dec.laws _ _ _ _ rfl l r a b _ _ ha hb hb0 hsl hsr.1
      (ne_of_gt hsr.2) 1 (hsafe 0 (by decide))

/-- `_fit` on a generated decimal table (the `unwrap` is safe, `ref ∈ units` discharged; the one
division `x / scale u` is in range when `x / s` is for every unit scale `s`) -/
theorem dec_fit_total_generated {T : RTable Dec} {sc : Nat → Rat} (hg : GeneratedDec T sc)
    (x : Dec) (xv : Rat) (hx : Dec.arith.val x = some xv)
    (hsafe : ∀ u, u < T.n → ErrModel.dec.safe (xv / sc u) = true) :
    ∃ r, fit Dec.arith (T.qt Dec.arith) x = .ok r := by
  cases hg with
  | amount => exact ⟨_, rfl⟩
  | ofDef it d h hk _ hT hp =>
    obtain ⟨w, hwel, hfit⟩ := C05.fit_eq_div Dec.arith (T.qt Dec.arith)
      (ofDef_fitIdentity Dec.arith d T hk hT) (ofDef_ref_mem Dec.arith it d h hk T hT) x
    have hw := eligible_lt Dec.arith T w hwel
    obtain ⟨hs, hpos⟩ := dec_scale_pos d hk T hT hp w hw
    obtain ⟨c, _, hc, _⟩ := Dec.laws.div_ok x _ xv _ hx hs (ne_of_gt hpos) (hsafe w hw)
    rw [hc] at hfit
    exact ⟨_, hfit⟩

/-! #### rates -/

/-- `approxRateApply` — the error-propagated description of `((q / 1·u) / d) * m` — written on
the exact unit scales `sc` of a table with reference unit: `qv`, `dv`, `mv` are the exact values of
the three amounts, `qu` the unit of `q`; `.ok` of the result records that every intermediate
magnitude stayed in range -/
def rateApprox (sc : Nat → Rat) (qv : Rat) (qu u : Nat) (dv mv : Rat) : Option Approx := do
  let x ← (if qu == u then Approx.div ErrModel.dec (Approx.exact qv) (Approx.exact 1)
    else do
      let ratio ← Approx.div ErrModel.dec (Approx.exact (sc u)) (Approx.exact (sc qu))
      Approx.div ErrModel.dec (Approx.exact qv)
        (Approx.mul ErrModel.dec ratio (Approx.exact 1)))
  let amnt ← Approx.div ErrModel.dec x (Approx.exact dv)
  pure (Approx.mul ErrModel.dec amnt (Approx.exact mv))

/-- on a generated decimal table the run-time scales read by `approxRateApply` are the exact
literal values -/
theorem approxRateApply_generated {T : RTable Dec} {sc : Nat → Rat} (hg : GeneratedDec T sc)
    (qv : Rat) (qu u : Nat) (dv mv : Rat) (hqu : qu < T.n) (hu : u < T.n) :
    approxRateApply Dec.arith ErrModel.dec T (Approx.exact qv) qu u (Approx.exact dv)
      (Approx.exact mv) = .ok (rateApprox sc qv qu u dv mv) := by
  have h1 : Dec.arith.val (T.scaleOf Dec.arith u) = some (sc u) := (hg.scale u hu).1
  have h2 : Dec.arith.val (T.scaleOf Dec.arith qu) = some (sc qu) := (hg.scale qu hqu).1
  unfold approxRateApply approxQDiv rateApprox
  rw [hg.generated.kind]
  by_cases h : qu = u
  · subst h; simp
  · have h' : (qu == u) = false := by simpa using h
    simp only [h', h1, h2]
    rfl

/-- **2.** `Rate * Q` / `Q * Rate` over a generated decimal per-quantity table: what is left of
`C18.dec_rate_total` is the range flag `w.ok` of the propagated description, computed on the exact
literal scales (`rateApprox`), not on the run-time table -/
theorem dec_rate_mul_total_generated {TP : RTable Dec} {sc : Nat → Rat} (hg : GeneratedDec TP sc)
    (r : Rate Dec) (q : Q Dec Nat) (hqu : q.unit < TP.n) (hpu : r.perUnit < TP.n)
    (qv pmv tav : Rat) (w : Approx)
    (hq : Dec.arith.val q.amount = some qv) (hpm : Dec.arith.val r.perMultiple = some pmv)
    (hta : Dec.arith.val r.termAmount = some tav)
    (hw : rateApprox sc qv q.unit r.perUnit pmv tav = some w) (hok : w.ok = true) :
    ∃ res, Rate.mulQ Dec.arith TP r q = .ok res := by
  obtain ⟨res, h, _⟩ := C13.mulQ_sound Dec.arith Dec.laws TP r q qv pmv tav w hq hpm hta
    (by rw [approxRateApply_generated hg qv q.unit r.perUnit pmv tav hqu hpu, hw]) hok
  exact ⟨res, h⟩

/-- **2.** `Q / Rate` over a generated decimal term-quantity table -/
theorem dec_rate_div_total_generated {TT : RTable Dec} {sc : Nat → Rat} (hg : GeneratedDec TT sc)
    (r : Rate Dec) (q : Q Dec Nat) (hqu : q.unit < TT.n) (htu : r.termUnit < TT.n)
    (qv pmv tav : Rat) (w : Approx)
    (hq : Dec.arith.val q.amount = some qv) (hpm : Dec.arith.val r.perMultiple = some pmv)
    (hta : Dec.arith.val r.termAmount = some tav)
    (hw : rateApprox sc qv q.unit r.termUnit tav pmv = some w) (hok : w.ok = true) :
    ∃ res, Rate.divQ Dec.arith TT q r = .ok res := by
  obtain ⟨res, h, _⟩ := C13.divQ_sound Dec.arith Dec.laws TT r q qv pmv tav w hq hpm hta
    (by rw [approxRateApply_generated hg qv q.unit r.termUnit tav pmv hqu htu, hw]) hok
  exact ⟨res, h⟩

/-- **2.** both rate operators in the shape of `C18.dec_rate_total` (one table, one quantity) -/
theorem dec_rate_total_generated {T : RTable Dec} {sc : Nat → Rat} (hg : GeneratedDec T sc)
    (r : Rate Dec) (q : Q Dec Nat) (hqu : q.unit < T.n) (hpu : r.perUnit < T.n)
    (htu : r.termUnit < T.n) (qv pmv tav : Rat) (w w' : Approx)
    (hq : Dec.arith.val q.amount = some qv) (hpm : Dec.arith.val r.perMultiple = some pmv)
    (hta : Dec.arith.val r.termAmount = some tav)
    (hw : rateApprox sc qv q.unit r.perUnit pmv tav = some w) (hok : w.ok = true)
    (hw' : rateApprox sc qv q.unit r.termUnit tav pmv = some w') (hok' : w'.ok = true) :
    (∃ res, Rate.mulQ Dec.arith T r q = .ok res) ∧ (∃ res, Rate.divQ Dec.arith T q r = .ok res) :=
  ⟨dec_rate_mul_total_generated hg r q hqu hpu qv pmv tav w hq hpm hta hw hok,
   dec_rate_div_total_generated hg r q hqu htu qv pmv tav w' hq hpm hta hw' hok'⟩

/-! #### scalar operators (no table is involved) -/

/-- **2.** `k * q`, `q * k`, `q / k`: in range when the exact product (quotient) is, divisor not
zero -/
theorem dec_scalar_total_generated (k : Dec) (q : Q Dec Nat) (kv a : Rat)
    (hk : Dec.arith.val k = some kv) (ha : Dec.arith.val q.amount = some a) :
    (ErrModel.dec.safe (kv * a) = true →
      (∃ r, smul Dec.arith k q = .ok r) ∧ (∃ r, muls Dec.arith q k = .ok r)) ∧
    (kv ≠ 0 → ErrModel.dec.safe (a / kv) = true → ∃ r, sdiv Dec.arith q k = .ok r) := by
  refine ⟨fun hs => ⟨?_, ?_⟩, fun h0 hs => ?_⟩
  · obtain ⟨c, _, hc, _⟩ := Dec.laws.mul_ok k q.amount kv a hk ha hs
    exact ⟨⟨c, q.unit⟩, by simp [smul, hc, bind, Except.bind, pure, Except.pure]⟩
  · obtain ⟨c, _, hc, _⟩ := Dec.laws.mul_ok q.amount k a kv ha hk (by rw [mul_comm]; exact hs)
    exact ⟨⟨c, q.unit⟩, by simp [muls, hc, bind, Except.bind, pure, Except.pure]⟩
  · obtain ⟨c, _, hc, _⟩ := Dec.laws.div_ok q.amount k a kv ha hk h0 hs
    exact ⟨⟨c, q.unit⟩, by simp [sdiv, hc, bind, Except.bind, pure, Except.pure]⟩

/-! ### the only other panic -/

/-- **C18, last sentence** for the generated types WITHOUT reference unit (`Rate.qdiv` shows how
the generated `Div<Self>` dispatches on the kind; `+`, `-` likewise): the only panic beyond the
amount type's own is the documented unit mismatch, and it is raised exactly for different units -/
theorem only_documented_panic_generated {A U : Type} [DecidableEq U] (R : Arith A) (a b : Q A U)
    (p : Panic) :
    (nrAdd R a b = .error p → (p = .unitMismatch ∧ a.unit ≠ b.unit) ∨
      (a.unit = b.unit ∧ R.add a.amount b.amount = .error p)) ∧
    (nrSub R a b = .error p → (p = .unitMismatch ∧ a.unit ≠ b.unit) ∨
      (a.unit = b.unit ∧ R.sub a.amount b.amount = .error p)) ∧
    (nrDiv R a b = .error p → (p = .unitMismatch ∧ a.unit ≠ b.unit) ∨
      (a.unit = b.unit ∧ R.div a.amount b.amount = .error p)) := by
  by_cases hu : a.unit = b.unit
  · rw [C10.add_same_unit R a b hu, C10.sub_same_unit R a b hu, C10.div_same_unit R a b hu]
    refine ⟨fun h => Or.inr ⟨hu, ?_⟩, fun h => Or.inr ⟨hu, ?_⟩, fun h => Or.inr ⟨hu, h⟩⟩
    · cases hm : R.add a.amount b.amount with
      | ok x => rw [hm] at h; cases h
      | error e => rw [hm] at h; cases h; rfl
    · cases hm : R.sub a.amount b.amount with
      | ok x => rw [hm] at h; cases h
      | error e => rw [hm] at h; cases h; rfl
  · rw [C10.add_diff_unit R a b hu, C10.sub_diff_unit R a b hu, C10.div_diff_unit R a b hu]
    refine ⟨fun h => Or.inl ⟨?_, hu⟩, fun h => Or.inl ⟨?_, hu⟩, fun h => Or.inl ⟨?_, hu⟩⟩ <;>
      (cases h; rfl)

/-- in binary64 the amount type never panics, so for a generated type without reference unit the
unit mismatch is the ONLY panic, whatever the amounts -/
theorem f64_only_documented_panic_generated {U : Type} [DecidableEq U] (a b : Q F64 U) (p : Panic) :
    (nrAdd F64.arith a b = .error p → p = .unitMismatch ∧ a.unit ≠ b.unit) ∧
    (nrSub F64.arith a b = .error p → p = .unitMismatch ∧ a.unit ≠ b.unit) ∧
    (nrDiv F64.arith a b = .error p → p = .unitMismatch ∧ a.unit ≠ b.unit) := by
  obtain ⟨h1, h2, h3⟩ := only_documented_panic_generated F64.arith a b p
  refine ⟨fun h => ?_, fun h => ?_, fun h => ?_⟩
  · rcases h1 h with h | ⟨_, h⟩
    · exact h
    · cases h
  · rcases h2 h with h | ⟨_, h⟩
    · exact h
    · cases h
  · rcases h3 h with h | ⟨_, h⟩
    · exact h
    · cases h


/-! ### 3. the catalogue -/

section catalogue
set_option maxRecDepth 100000

theorem expandsTo_spec (f : QtyDef → Bool) (it : RawItem) (hf : expandsTo f it = true) :
    ∃ d, expand it = .ok d ∧ f d = true := by
  unfold expandsTo at hf
  cases he : expand it with
  | error e => rw [he] at hf; cases hf
  | ok d => rw [he] at hf; exact ⟨d, rfl, hf⟩

/-- what `typeOk` says: the name denotes `AmountT`, or a definition of `items` that is accepted with
reference unit and has a table -/
theorem typeOk_inv {A : Type} (R : Arith A) (items : List RawItem) (n : Text)
    (hs : typeOk R items n = true) :
    ∃ T, tableOf R items n = some T ∧
      (T = RTable.amount R ∨ ∃ it ∈ items, ∃ d, expand it = .ok d ∧ d.kind = .withRef ∧
        RTable.ofDef R d = some T) := by
  unfold typeOk at hs
  unfold tableOf
  by_cases hn : n = amountName
  · exact ⟨RTable.amount R, by simp [hn], Or.inl rfl⟩
  · have hn' : (n == amountName) = false := by simpa using hn
    rw [hn', Bool.false_or] at hs
    rw [if_neg hn]
    cases hf : items.find? (fun it => it.name == n) with
    | none => rw [hf] at hs; cases hs
    | some it =>
      rw [hf] at hs
      simp only at hs ⊢
      cases he : expand it with
      | error e => rw [he] at hs; cases hs
      | ok d =>
        rw [he] at hs
        unfold selfOk at hs
        simp only [Bool.and_eq_true, beq_iff_eq, decide_eq_true_eq] at hs
        obtain ⟨⟨hk, -⟩, ht⟩ := hs
        cases hT : RTable.ofDef R d with
        | none => rw [hT] at ht; cases ht
        | some T => exact ⟨T, hT, Or.inr ⟨it, List.mem_of_find?_eq_some hf, d, he, hk, hT⟩⟩

theorem derivedOk_inv {A : Type} (R : Arith A) (items : List RawItem) (it : RawItem) (d : QtyDef)
    (h : expand it = .ok d) (hok : derivedOk R items it = true) (ln rn : Text) (isMul : Bool)
    (hder : d.derived = some ⟨ln, isMul, rn⟩) :
    d.kind = .withRef ∧ (∃ TO, RTable.ofDef R d = some TO) ∧
    typeOk R items ln = true ∧ typeOk R items rn = true := by
  unfold derivedOk at hok
  rw [h] at hok
  simp only [hder, Bool.and_eq_true] at hok
  obtain ⟨⟨hs, hl⟩, hr⟩ := hok
  unfold selfOk at hs
  simp only [Bool.and_eq_true, beq_iff_eq, decide_eq_true_eq] at hs
  obtain ⟨⟨hk, -⟩, ht⟩ := hs
  cases hT : RTable.ofDef R d with
  | none => rw [hT] at ht; cases ht
  | some T => exact ⟨hk, ⟨T, rfl⟩, hl, hr⟩


theorem crate_sub_all_f64 (items : List RawItem) (hc : items ∈ cratesF64) (it : RawItem)
    (hit : it ∈ items) : it ∈ allItems := by
  simp only [cratesF64, List.mem_cons, List.not_mem_nil, or_false] at hc
  unfold allItems
  rcases hc with rfl | rfl | rfl <;> simp [hit]

theorem crate_sub_all_dec (items : List RawItem) (hc : items ∈ cratesDec) (it : RawItem)
    (hit : it ∈ items) : it ∈ allItems := by
  simp only [cratesDec, List.mem_cons, List.not_mem_nil, or_false] at hc
  unfold allItems
  rcases hc with rfl | rfl <;> simp [hit]

/-! #### binary64 -/

/-- **3. `catalogue_f64_total`** — every predefined quantity of the main and of the astronomical
crate is accepted by the macro; if it has a reference unit its binary64 table exists, and every
modelled operation on it returns for all amounts (`F64Total`).  No hypothesis is left. -/
theorem catalogue_f64_total (it : RawItem) (hit : it ∈ Gen.Catalogue.items ++ Gen.Astro.items) :
    ∃ d, expand it = .ok d ∧ (d.kind = .withRef →
      ∃ T, RTable.ofDef F64.arith d = some T ∧ F64Total T) := by
  obtain ⟨d, h, hf⟩ := expandsTo_spec _ it ((List.all_eq_true.mp catalogue_tables_exist.2) it hit)
  refine ⟨d, h, fun hk => ?_⟩
  have hs : (RTable.ofDef F64.arith d).isSome = true := by simpa [hk] using hf
  cases hT : RTable.ofDef F64.arith d with
  | none => rw [hT] at hs; cases hs
  | some T => exact ⟨T, rfl, f64_total_generated (.ofDef it d h hk T hT)⟩

/-- the same for ANY item of the catalogue (synthetic definitions of the harness included) whose
table exists -/
theorem catalogue_f64_total' (it : RawItem) (hit : it ∈ allItems) (d : QtyDef)
    (h : expand it = .ok d) (hk : d.kind = .withRef)
    (T : RTable F64) (hT : RTable.ofDef F64.arith d = some T) : F64Total T :=
  f64_total_generated (.ofDef it d h hk T hT)

/-- the generated `impl Mul<R> for L { type Output = O }` never panics -/
def MulTotalF64 (TL TR TO : RTable F64) : Prop :=
  ∀ l r : Q F64 Nat, ∃ res,
    dmul F64.arith (TL.qt F64.arith) (TR.qt F64.arith) (TO.qt F64.arith) l r = .ok res

/-- the generated `impl Div<R> for L { type Output = O }` never panics -/
def DivTotalF64 (TL TR TO : RTable F64) : Prop :=
  ∀ l r : Q F64 Nat, ∃ res,
    ddiv F64.arith (TL.qt F64.arith) (TR.qt F64.arith) (TO.qt F64.arith) l r = .ok res

theorem typeOk_generated {A : Type} (R : Arith A) (items : List RawItem) (n : Text)
    (hs : typeOk R items n = true) : ∃ T, tableOf R items n = some T ∧ Generated R T := by
  obtain ⟨T, hT, hc⟩ := typeOk_inv R items n hs
  refine ⟨T, hT, ?_⟩
  rcases hc with rfl | ⟨it, -, d, he, hk, hd⟩
  · exact .amount
  · exact .ofDef it d he hk T hd

/-- the three tables of a declared derivation exist and are tables of the generated code -/
theorem derived_tables_generated {A : Type} (R : Arith A) (items : List RawItem) (it : RawItem)
    (d : QtyDef) (h : expand it = .ok d) (hok : derivedOk R items it = true) (ln rn : Text)
    (isMul : Bool) (hder : d.derived = some ⟨ln, isMul, rn⟩) :
    ∃ TL TR TO, tableOf R items ln = some TL ∧ tableOf R items rn = some TR ∧
      RTable.ofDef R d = some TO ∧ Generated R TL ∧ Generated R TR ∧ Generated R TO := by
  obtain ⟨hk, ⟨TO, hTO⟩, hl, hr⟩ := derivedOk_inv R items it d h hok ln rn isMul hder
  obtain ⟨TL, hTL, hgL⟩ := typeOk_generated R items ln hl
  obtain ⟨TR, hTR, hgR⟩ := typeOk_generated R items rn hr
  exact ⟨TL, TR, TO, hTL, hTR, hTO, hgL, hgR, .ofDef it d h hk TO hTO⟩

/-- **3. `catalogue_f64_dmul_total`** — for every predefined (or synthetic) quantity declared as a
product `Q = L * R`, operand tables looked up by name as the run-time driver does: the tables exist
and ALL FOUR generated operators (`L * R = Q`, `R * L = Q`, `Q / R = L`, `Q / L = R`) return for
all operands.  No hypothesis is left. -/
theorem catalogue_f64_dmul_total (items : List RawItem) (hc : items ∈ cratesF64)
    (it : RawItem) (hit : it ∈ items) (d : QtyDef) (h : expand it = .ok d) (ln rn : Text)
    (hder : d.derived = some ⟨ln, true, rn⟩) :
    ∃ TL TR TO, tableOf F64.arith items ln = some TL ∧ tableOf F64.arith items rn = some TR ∧
      RTable.ofDef F64.arith d = some TO ∧
      MulTotalF64 TL TR TO ∧ MulTotalF64 TR TL TO ∧ DivTotalF64 TO TR TL ∧ DivTotalF64 TO TL TR := by
  obtain ⟨TL, TR, TO, hTL, hTR, hTO, hL, hR, hO⟩ := derived_tables_generated F64.arith items it d h
    ((List.all_eq_true.mp ((List.all_eq_true.mp catalogue_derived_ok_f64) items hc)) it hit)
    ln rn true hder
  exact ⟨TL, TR, TO, hTL, hTR, hTO,
    fun l r => f64_dmul_total_generated hL hR hO l r,
    fun l r => f64_dmul_total_generated hR hL hO l r,
    fun l r => f64_ddiv_total_generated hO hR hL l r,
    fun l r => f64_ddiv_total_generated hO hL hR l r⟩

/-- **3. `catalogue_f64_ddiv_total`** — declared quotients `Q = L / R`: `L / R = Q`, `Q * R = L`,
`R * Q = L`, `L / Q = R` -/
theorem catalogue_f64_ddiv_total (items : List RawItem) (hc : items ∈ cratesF64)
    (it : RawItem) (hit : it ∈ items) (d : QtyDef) (h : expand it = .ok d) (ln rn : Text)
    (hder : d.derived = some ⟨ln, false, rn⟩) :
    ∃ TL TR TO, tableOf F64.arith items ln = some TL ∧ tableOf F64.arith items rn = some TR ∧
      RTable.ofDef F64.arith d = some TO ∧
      DivTotalF64 TL TR TO ∧ MulTotalF64 TO TR TL ∧ MulTotalF64 TR TO TL ∧ DivTotalF64 TL TO TR := by
  obtain ⟨TL, TR, TO, hTL, hTR, hTO, hL, hR, hO⟩ := derived_tables_generated F64.arith items it d h
    ((List.all_eq_true.mp ((List.all_eq_true.mp catalogue_derived_ok_f64) items hc)) it hit)
    ln rn false hder
  exact ⟨TL, TR, TO, hTL, hTR, hTO,
    fun l r => f64_ddiv_total_generated hL hR hO l r,
    fun l r => f64_dmul_total_generated hO hR hL l r,
    fun l r => f64_dmul_total_generated hR hO hL l r,
    fun l r => f64_ddiv_total_generated hL hO hR l r⟩


/-! #### decimal -/

/-- `LitsPositive` discharged by `Bridge.catalogue_lits_positive'`: the decimal table of every
item of the catalogue is a `GeneratedDec` table with the exact literal values as scales -/
theorem catalogue_generatedDec (it : RawItem) (hit : it ∈ allItems) (d : QtyDef)
    (h : expand it = .ok d) (hk : d.kind = .withRef)
    (T : RTable Dec) (hT : RTable.ofDef Dec.arith d = some T) : GeneratedDec T (litVal d) :=
  .ofDef it d h hk T hT (catalogue_lits_positive' it hit d h)

/-- every predefined quantity of the main crate is accepted by the macro; if it has a reference
unit its decimal table exists and is a `GeneratedDec` table -/
theorem catalogue_dec_table (it : RawItem) (hit : it ∈ Gen.Catalogue.items) :
    ∃ d, expand it = .ok d ∧ (d.kind = .withRef →
      ∃ T, RTable.ofDef Dec.arith d = some T ∧ GeneratedDec T (litVal d)) := by
  obtain ⟨d, h, hf⟩ := expandsTo_spec _ it ((List.all_eq_true.mp catalogue_tables_exist.1) it hit)
  refine ⟨d, h, fun hk => ?_⟩
  have hs : (RTable.ofDef Dec.arith d).isSome = true := by simpa [hk] using hf
  cases hT : RTable.ofDef Dec.arith d with
  | none => rw [hT] at hs; cases hs
  | some T =>
    exact ⟨T, rfl, catalogue_generatedDec it (by unfold allItems; simp [hit]) d h hk T hT⟩

section catalogueDec1
variable (it : RawItem) (hit : it ∈ allItems) (d : QtyDef) (h : expand it = .ok d)
  (hk : d.kind = .withRef) (T : RTable Dec) (hT : RTable.ofDef Dec.arith d = some T)
include hit h hk hT

/-- **3. `catalogue_dec_convert_total`** — for every item of the catalogue with reference unit, any
two of its units and every amount: if the ratio of the two unit scales, the amount and the
converted amount have absolute value at most `1e17` (the property's domain), the conversion does
not panic.  The scales are the exact literal values `litVal d`. -/
theorem catalogue_dec_convert_total (q : Q Dec Nat) (u : Nat) (hq : q.unit < T.n) (hu : u < T.n)
    (a : Rat) (ha : Dec.arith.val q.amount = some a)
    (hρ : |litVal d q.unit / litVal d u| ≤ 10 ^ 17) (hav : |a| ≤ 10 ^ 17)
    (hρa : |litVal d q.unit / litVal d u * a| ≤ 10 ^ 17) :
    ∃ r, convert Dec.arith (T.qt Dec.arith) q u = .ok r :=
  dec_convert_total_generated_of_in_range d hk T hT (catalogue_lits_positive' it hit d h)
    q u hq hu a ha hρ hav hρa

/-- **3.** `==` and `partial_cmp` -/
theorem catalogue_dec_cmp_total (a b : Q Dec Nat) (hau : a.unit < T.n) (hbu : b.unit < T.n)
    (x y : Rat) (hx : Dec.arith.val a.amount = some x) (hy : Dec.arith.val b.amount = some y)
    (hxv : |x| ≤ 10 ^ 17) (hyv : |y| ≤ 10 ^ 17)
    (hρ : |litVal d b.unit / litVal d a.unit| ≤ 10 ^ 17)
    (hρ' : |litVal d a.unit / litVal d b.unit| ≤ 10 ^ 17)
    (hρy : |litVal d b.unit / litVal d a.unit * y| ≤ 10 ^ 17)
    (hρx : |litVal d a.unit / litVal d b.unit * x| ≤ 10 ^ 17) :
    (∃ e, hrEq Dec.arith (T.qt Dec.arith) a b = .ok e) ∧
    (∃ p, hrPcmp Dec.arith (T.qt Dec.arith) a b = .ok p) :=
  dec_cmp_total_generated_of_in_range d hk T hT (catalogue_lits_positive' it hit d h)
    a b hau hbu x y hx hy hxv hyv hρ hρ' hρy hρx

/-- **3.** `+` and `-` -/
theorem catalogue_dec_addsub_total (isSub : Bool) (a b : Q Dec Nat)
    (hau : a.unit < T.n) (hbu : b.unit < T.n) (x y : Rat)
    (hx : Dec.arith.val a.amount = some x) (hy : Dec.arith.val b.amount = some y)
    (hxv : |x| ≤ 10 ^ 17) (hyv : |y| ≤ 10 ^ 17)
    (hρ : |litVal d b.unit / litVal d a.unit| ≤ 10 ^ 17)
    (hρy : |litVal d b.unit / litVal d a.unit * y| ≤ 10 ^ 17) :
    ∃ r, (if isSub then hrSub Dec.arith (T.qt Dec.arith) a b
      else hrAdd Dec.arith (T.qt Dec.arith) a b) = .ok r :=
  dec_addsub_total_generated_of_in_range d hk T hT (catalogue_lits_positive' it hit d h)
    isSub a b hau hbu x y hx hy hxv hyv hρ hρy

/-- **3.** `Div<Self>` -/
theorem catalogue_dec_div_total (a b : Q Dec Nat)
    (hau : a.unit < T.n) (hbu : b.unit < T.n) (x y : Rat)
    (hx : Dec.arith.val a.amount = some x) (hy : Dec.arith.val b.amount = some y)
    (hyv : |y| ≤ 10 ^ 17)
    (hρlo : 1 / 10 ^ 15 ≤ |litVal d b.unit / litVal d a.unit|)
    (hρ : |litVal d b.unit / litVal d a.unit| ≤ 10 ^ 17)
    (htlo : 1 / 10 ^ 15 ≤ |litVal d b.unit / litVal d a.unit * y|)
    (ht : |litVal d b.unit / litVal d a.unit * y| ≤ 10 ^ 17)
    (hq : |x / (litVal d b.unit / litVal d a.unit * y)| ≤ 10 ^ 17) :
    ∃ c, hrDiv Dec.arith (T.qt Dec.arith) a b = .ok c :=
  dec_div_total_generated_of_in_range d hk T hT (catalogue_lits_positive' it hit d h)
    a b hau hbu x y hx hy hyv hρlo hρ htlo ht hq

/-- **3.** `_fit` -/
theorem catalogue_dec_fit_total (x : Dec) (xv : Rat) (hx : Dec.arith.val x = some xv)
    (hsafe : ∀ u, u < T.n → ErrModel.dec.safe (xv / litVal d u) = true) :
    ∃ r, fit Dec.arith (T.qt Dec.arith) x = .ok r :=
  dec_fit_total_generated (catalogue_generatedDec it hit d h hk T hT) x xv hx hsafe

/-- **3.** rates -/
theorem catalogue_dec_rate_total (r : Rate Dec) (q : Q Dec Nat) (hqu : q.unit < T.n)
    (hpu : r.perUnit < T.n) (htu : r.termUnit < T.n) (qv pmv tav : Rat) (w w' : Approx)
    (hq : Dec.arith.val q.amount = some qv) (hpm : Dec.arith.val r.perMultiple = some pmv)
    (hta : Dec.arith.val r.termAmount = some tav)
    (hw : rateApprox (litVal d) qv q.unit r.perUnit pmv tav = some w) (hok : w.ok = true)
    (hw' : rateApprox (litVal d) qv q.unit r.termUnit tav pmv = some w') (hok' : w'.ok = true) :
    (∃ res, Rate.mulQ Dec.arith T r q = .ok res) ∧ (∃ res, Rate.divQ Dec.arith T q r = .ok res) :=
  dec_rate_total_generated (catalogue_generatedDec it hit d h hk T hT) r q hqu hpu htu qv pmv tav
    w w' hq hpm hta hw hok hw' hok'

omit hit h hk hT
end catalogueDec1

/-- the generated `impl Mul<R> for L { type Output = O }` does not panic inside the domain: operand
units are units of their tables, and the range condition `Oracle.derivedSafe` holds of the exact
product of the amounts, the exact product of the two unit scales and every unit scale of the
result type -/
def MulTotalDec (TL TR TO : RTable Dec) (scL scR scO : Nat → Rat) : Prop :=
  ∀ l r : Q Dec Nat, l.unit < TL.n → r.unit < TR.n → ∀ a b : Rat,
    Dec.arith.val l.amount = some a → Dec.arith.val r.amount = some b →
    (∀ u, u < TO.n →
      Oracle.derivedSafe ErrModel.dec (a * b) (scL l.unit * scR r.unit) (scO u) = true) →
    ∃ res, dmul Dec.arith (TL.qt Dec.arith) (TR.qt Dec.arith) (TO.qt Dec.arith) l r = .ok res

/-- the generated `impl Div<R> for L { type Output = O }` does not panic inside the domain
(divisor amount not zero) -/
def DivTotalDec (TL TR TO : RTable Dec) (scL scR scO : Nat → Rat) : Prop :=
  ∀ l r : Q Dec Nat, l.unit < TL.n → r.unit < TR.n → ∀ a b : Rat,
    Dec.arith.val l.amount = some a → Dec.arith.val r.amount = some b → b ≠ 0 →
    (∀ u, u < TO.n →
      Oracle.derivedSafe ErrModel.dec (a / b) (scL l.unit / scR r.unit) (scO u) = true) →
    ∃ res, ddiv Dec.arith (TL.qt Dec.arith) (TR.qt Dec.arith) (TO.qt Dec.arith) l r = .ok res

theorem mulTotalDec_generated {TL TR TO : RTable Dec} {scL scR scO : Nat → Rat}
    (hL : GeneratedDec TL scL) (hR : GeneratedDec TR scR) (hO : GeneratedDec TO scO) :
    MulTotalDec TL TR TO scL scR scO :=
  fun l r hlu hru a b ha hb hsafe => dec_dmul_total_generated hL hR hO l r hlu hru a b ha hb hsafe

theorem divTotalDec_generated {TL TR TO : RTable Dec} {scL scR scO : Nat → Rat}
    (hL : GeneratedDec TL scL) (hR : GeneratedDec TR scR) (hO : GeneratedDec TO scO) :
    DivTotalDec TL TR TO scL scR scO :=
  fun l r hlu hru a b ha hb hb0 hsafe =>
    dec_ddiv_total_generated hL hR hO l r hlu hru a b ha hb hb0 hsafe

theorem typeOk_generatedDec (items : List RawItem) (hsub : ∀ it ∈ items, it ∈ allItems) (n : Text)
    (hs : typeOk Dec.arith items n = true) :
    ∃ T sc, tableOf Dec.arith items n = some T ∧ GeneratedDec T sc := by
  obtain ⟨T, hT, hc⟩ := typeOk_inv Dec.arith items n hs
  rcases hc with rfl | ⟨it, hit, d, he, hk, hd⟩
  · exact ⟨_, _, hT, .amount⟩
  · exact ⟨T, litVal d, hT, catalogue_generatedDec it (hsub it hit) d he hk T hd⟩

/-- the three decimal tables of a declared derivation of the catalogue exist and are `GeneratedDec`
tables (positive literals: `catalogue_lits_positive'`) -/
theorem catalogue_derived_tables_dec (items : List RawItem) (hc : items ∈ cratesDec)
    (it : RawItem) (hit : it ∈ items) (d : QtyDef) (h : expand it = .ok d) (ln rn : Text)
    (isMul : Bool) (hder : d.derived = some ⟨ln, isMul, rn⟩) :
    ∃ TL TR TO scL scR, tableOf Dec.arith items ln = some TL ∧
      tableOf Dec.arith items rn = some TR ∧ RTable.ofDef Dec.arith d = some TO ∧
      GeneratedDec TL scL ∧ GeneratedDec TR scR ∧ GeneratedDec TO (litVal d) := by
  have hsub := crate_sub_all_dec items hc
  obtain ⟨hk, ⟨TO, hTO⟩, hl, hr⟩ := derivedOk_inv Dec.arith items it d h
    ((List.all_eq_true.mp ((List.all_eq_true.mp catalogue_derived_ok_dec) items hc)) it hit)
    ln rn isMul hder
  obtain ⟨TL, scL, hTL, hgL⟩ := typeOk_generatedDec items hsub ln hl
  obtain ⟨TR, scR, hTR, hgR⟩ := typeOk_generatedDec items hsub rn hr
  exact ⟨TL, TR, TO, scL, scR, hTL, hTR, hTO, hgL, hgR,
    catalogue_generatedDec it (hsub it hit) d h hk TO hTO⟩

/-- **3. `catalogue_dec_dmul_total`** — for every predefined (or synthetic) quantity declared as a
product `Q = L * R`, operand tables looked up by name: the decimal tables exist, are `GeneratedDec`
tables (`scL`, `scR` are the exact literal values of the operand types' unit scales, or one for
`AmountT`) and ALL FOUR generated operators (`L * R = Q`, `R * L = Q`, `Q / R = L`, `Q / L = R`)
do not panic inside the domain `Oracle.derivedSafe` (divisors non-zero) -/
theorem catalogue_dec_dmul_total (items : List RawItem) (hc : items ∈ cratesDec)
    (it : RawItem) (hit : it ∈ items) (d : QtyDef) (h : expand it = .ok d) (ln rn : Text)
    (hder : d.derived = some ⟨ln, true, rn⟩) :
    ∃ TL TR TO scL scR, tableOf Dec.arith items ln = some TL ∧
      tableOf Dec.arith items rn = some TR ∧ RTable.ofDef Dec.arith d = some TO ∧
      GeneratedDec TL scL ∧ GeneratedDec TR scR ∧ GeneratedDec TO (litVal d) ∧
      MulTotalDec TL TR TO scL scR (litVal d) ∧ MulTotalDec TR TL TO scR scL (litVal d) ∧
      DivTotalDec TO TR TL (litVal d) scR scL ∧ DivTotalDec TO TL TR (litVal d) scL scR := by
  obtain ⟨TL, TR, TO, scL, scR, hTL, hTR, hTO, hL, hR, hO⟩ :=
    catalogue_derived_tables_dec items hc it hit d h ln rn true hder
  exact ⟨TL, TR, TO, scL, scR, hTL, hTR, hTO, hL, hR, hO,
    mulTotalDec_generated hL hR hO, mulTotalDec_generated hR hL hO,
    divTotalDec_generated hO hR hL, divTotalDec_generated hO hL hR⟩

/-- **3. `catalogue_dec_ddiv_total`** — declared quotients `Q = L / R`: `L / R = Q`, `Q * R = L`,
`R * Q = L`, `L / Q = R` -/
theorem catalogue_dec_ddiv_total (items : List RawItem) (hc : items ∈ cratesDec)
    (it : RawItem) (hit : it ∈ items) (d : QtyDef) (h : expand it = .ok d) (ln rn : Text)
    (hder : d.derived = some ⟨ln, false, rn⟩) :
    ∃ TL TR TO scL scR, tableOf Dec.arith items ln = some TL ∧
      tableOf Dec.arith items rn = some TR ∧ RTable.ofDef Dec.arith d = some TO ∧
      GeneratedDec TL scL ∧ GeneratedDec TR scR ∧ GeneratedDec TO (litVal d) ∧
      DivTotalDec TL TR TO scL scR (litVal d) ∧ MulTotalDec TO TR TL (litVal d) scR scL ∧
      MulTotalDec TR TO TL scR (litVal d) scL ∧ DivTotalDec TL TO TR scL (litVal d) scR := by
  obtain ⟨TL, TR, TO, scL, scR, hTL, hTR, hTO, hL, hR, hO⟩ :=
    catalogue_derived_tables_dec items hc it hit d h ln rn false hder
  exact ⟨TL, TR, TO, scL, scR, hTL, hTR, hTO, hL, hR, hO,
    divTotalDec_generated hL hR hO, mulTotalDec_generated hO hR hL,
    mulTotalDec_generated hR hO hL, divTotalDec_generated hL hO hR⟩

end catalogue

/-! ### non-vacuity -/

section witnesses
set_option maxRecDepth 100000

/-- `r` is a result, not a panic -/
def isOk {α : Type} : Res α → Bool
  | .ok _ => true
  | .error _ => false

/-- item 2/3, conversion: in the generated `Length` table of the main crate, `3.5 ft → in` satisfies
every hypothesis of `dec_convert_total_generated_of_in_range` / `catalogue_dec_convert_total`
(and the conversion does return) -/
example : Gen.Catalogue.lengthRaw ∈ allItems ∧
    genWitness Dec.arith Gen.Catalogue.lengthRaw (fun d T =>
    LitsPositive d &&
    (match (List.range T.n).find? (fun u => decide (litVal d u = 3048 / 10000)),
        (List.range T.n).find? (fun u => decide (litVal d u = 254 / 10000)) with
     | some ft, some inch =>
       decide (ft < T.n) && decide (inch < T.n) &&
       decide (Dec.arith.val ⟨35, 1⟩ = some (35 / 10)) &&
       decide (|litVal d ft / litVal d inch| ≤ 10 ^ 17) && decide (|(35 / 10 : Rat)| ≤ 10 ^ 17) &&
       decide (|litVal d ft / litVal d inch * (35 / 10)| ≤ 10 ^ 17) &&
       isOk (convert Dec.arith (T.qt Dec.arith) ⟨⟨35, 1⟩, ft⟩ inch)
     | _, _ => false)) = true := by
  decide +kernel

/-- item 2/3, comparison, sum, ratio: `2 ft` and `25 in` satisfy every hypothesis of
`dec_cmp_total_generated_of_in_range`, `dec_addsub_total_generated_of_in_range` and
`dec_div_total_generated_of_in_range` (lower bounds `1e-15` included) -/
example : genWitness Dec.arith Gen.Catalogue.lengthRaw (fun d T =>
    LitsPositive d &&
    (match (List.range T.n).find? (fun u => decide (litVal d u = 3048 / 10000)),
        (List.range T.n).find? (fun u => decide (litVal d u = 254 / 10000)) with
     | some ft, some inch =>
       decide (ft < T.n) && decide (inch < T.n) &&
       decide (Dec.arith.val ⟨2, 0⟩ = some 2) && decide (Dec.arith.val ⟨25, 0⟩ = some 25) &&
       decide (|(2 : Rat)| ≤ 10 ^ 17) && decide (|(25 : Rat)| ≤ 10 ^ 17) &&
       decide (1 / 10 ^ 15 ≤ |litVal d inch / litVal d ft|) &&
       decide (|litVal d inch / litVal d ft| ≤ 10 ^ 17) &&
       decide (|litVal d ft / litVal d inch| ≤ 10 ^ 17) &&
       decide (1 / 10 ^ 15 ≤ |litVal d inch / litVal d ft * 25|) &&
       decide (|litVal d inch / litVal d ft * 25| ≤ 10 ^ 17) &&
       decide (|litVal d ft / litVal d inch * 2| ≤ 10 ^ 17) &&
       decide (|2 / (litVal d inch / litVal d ft * 25)| ≤ 10 ^ 17) &&
       isOk (hrEq Dec.arith (T.qt Dec.arith) ⟨⟨2, 0⟩, ft⟩ ⟨⟨25, 0⟩, inch⟩) &&
       isOk (hrAdd Dec.arith (T.qt Dec.arith) ⟨⟨2, 0⟩, ft⟩ ⟨⟨25, 0⟩, inch⟩) &&
       isOk (hrDiv Dec.arith (T.qt Dec.arith) ⟨⟨2, 0⟩, ft⟩ ⟨⟨25, 0⟩, inch⟩)
     | _, _ => false)) = true := by
  decide +kernel

/-- item 2/3, derived operators with `AmountT` as RESULT type: `Frequency` is declared as
`AmountT / Duration`, so `Frequency * Duration = AmountT` is generated; `50 Hz * 2 s` satisfies the
hypotheses of `dec_dmul_total_generated` (`derivedSafe` for the one unit of `AmountT`) -/
example :
    (match expand Gen.Catalogue.frequencyRaw, expand Gen.Catalogue.durationRaw with
     | .ok dF, .ok dD =>
       dF.kind == .withRef && dD.kind == .withRef && LitsPositive dF && LitsPositive dD &&
       dF.derived == some ⟨amountName, false, Gen.Catalogue.durationRaw.name⟩ &&
       (match RTable.ofDef Dec.arith dF, RTable.ofDef Dec.arith dD with
        | some TF, some TD =>
          let F := TF.qt Dec.arith
          let D := TD.qt Dec.arith
          let TA := RTable.amount Dec.arith
          decide (TA.n = 1) && decide (F.ref < TF.n) && decide (D.ref < TD.n) &&
          decide (Dec.arith.val ⟨50, 0⟩ = some 50) && decide (Dec.arith.val ⟨2, 0⟩ = some 2) &&
          Oracle.derivedSafe ErrModel.dec (50 * 2) (litVal dF F.ref * litVal dD D.ref) 1 &&
          isOk (dmul Dec.arith F D (TA.qt Dec.arith) ⟨⟨50, 0⟩, F.ref⟩ ⟨⟨2, 0⟩, D.ref⟩)
        | _, _ => false)
     | _, _ => false) = true := by
  decide +kernel

/-- item 2/3, rates: over the generated `Duration` table, `3 h` at a rate of `90` (unit `5` of the
term quantity) per `2 h` satisfies the hypotheses of `dec_rate_mul_total_generated` -/
example : genWitness Dec.arith Gen.Catalogue.durationRaw (fun d T =>
    LitsPositive d &&
    (match (List.range T.n).find? (fun u => decide (litVal d u = 3600)) with
     | some hr =>
       decide (hr < T.n) &&
       (match rateApprox (litVal d) 3 hr hr 2 90 with
        | some w => w.ok
        | none => false) &&
       (match rateApprox (litVal d) 3 hr T.refIx.get! 2 90 with
        | some w => w.ok
        | none => false) &&
       isOk (Rate.mulQ Dec.arith T ⟨⟨90, 0⟩, 5, ⟨2, 0⟩, hr⟩ ⟨⟨3, 0⟩, hr⟩)
     | none => false)) = true := by
  decide +kernel

/-- item 1/3: the binary64 `Length` table is a `Generated` table; a NaN amount, `inf / 0` and a
fit of NaN do return -/
example : genWitness F64.arith Gen.Catalogue.lengthRaw (fun d T =>
    isOk (convert F64.arith (T.qt F64.arith) ⟨.nan, 0⟩ 1) &&
    isOk (hrDiv F64.arith (T.qt F64.arith) ⟨.inf false, 0⟩ ⟨.fin false 0 0, 1⟩) &&
    isOk (fit F64.arith (T.qt F64.arith) .nan)) = true := by
  decide +kernel

/-- a definition with a unit of scale zero (`#[ref_unit(R, "r")] #[unit(Z, "z", 0.0)]`); the macro
accepts it and the decimal table exists -/
def itZeroScale : RawItem where
  name := [81]
  args := []
  attrs := [⟨.refUnit, [.ident [82], .comma, .str [114]]⟩,
            ⟨.unit, [.ident [90], .comma, .str [122], .comma,
                     .float { digits := 0, nfrac := 1, isFloat := true }]⟩]

/-- the decimal theorems need `LitsPositive d` (true of the whole catalogue): in the table
generated from `itZeroScale` (units `Z` = 0 of scale zero, `R` = 1 = `REF_UNIT`) every other
hypothesis of `dec_convert_total_generated` holds of converting `1 R` to `Z` — `convSafe` included,
the ratio `1 / 0` being `0` in ℚ — and the conversion panics (division by zero) -/
theorem dec_convert_needs_positive_literals :
    ∃ d T, expand itZeroScale = .ok d ∧ d.kind = .withRef ∧ RTable.ofDef Dec.arith d = some T ∧
      (fun d T => !LitsPositive d && decide (T.n = 2) &&
        decide ((RTable.qt Dec.arith T).ref = 1) &&
        decide (Dec.arith.val ⟨1, 0⟩ = some 1) &&
        Oracle.convSafe ErrModel.dec (litVal d 1) (litVal d 0) 1 &&
        !isOk (convert Dec.arith (RTable.qt Dec.arith T) ⟨⟨1, 0⟩, 1⟩ 0)) d T = true :=
  genWitness_spec Dec.arith itZeroScale _ (by decide +kernel)

/-- in binary64 the same conversion returns (`f64_convert_total_generated` has no hypothesis) -/
example : genWitness F64.arith itZeroScale (fun d T =>
    isOk (convert F64.arith (T.qt F64.arith) ⟨.fin false F64.two52 (-52), 1⟩ 0)) = true := by
  decide +kernel

end witnesses

end Qty.C18
