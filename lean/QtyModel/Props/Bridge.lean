import QtyModel.Props.C01
import QtyModel.Props.C05
import QtyModel.Props.C09Keys
import QtyModel.Props.C11
import QtyModel.Props.Backends
import QtyModel.Props.C18
/-
  Bridge — the table hypotheses of the run-time theorems (C01 … C05, C18) are DISCHARGED for
  every table the macro generates.

  Family (A) (`Props/C01 … C05`, `C18`) is about the algorithms over an ARBITRARY table
  `T : QT A U` under hypotheses (`T.ref ∈ T.units`, `T.fitIdentity = none`, finite scales, eligible
  units listed in non-decreasing scale order, …).  Family (B) (`Registry`, `Props/C09`, `C09Keys`,
  `C11`, `Tables`) is about what the macro produces.  Here the two meet: for `it : RawItem`,
  `h : expand it = .ok d`, `hk : d.kind = .withRef`, `hT : RTable.ofDef R d = some T`

   1. `ofDef_shape` (+ `ofDef_units`, `ofDef_n`, `ofDef_scales_size`, `ofDef_isAmount`,
      `ofDef_fitIdentity`, `ofDef_qt_units`, `ofDef_refIx`, `ofDef_ref_mem`, `ofDef_scale`);
      `units_have_scale`, `units_sorted_keyLe` (= `C09.iter_sorted` with NO hypothesis left);
   2. `dec_scale_value`, `dec_scale_litVal`, `dec_ref_scale_one`;
   3. `f64_scale_eq`, `f64_scale_eq_sortKey`, `f64_scale_val_eq_sortKey`, `f64Le_scale_eq_keyLe`,
      `f64_scales_sorted`, `f64_values_sorted`, `f64_scale_finite`, `f64_ref_scale_one`;
   4. `eligible_sorted_f64`, `fit_spec_generated_f64`, `fit_total_generated_f64`,
      `fit_spec_generated_f64_of_safe`;
   5. `KeysFaithful`, `litVal_sorted`, `eligible_sorted_dec`, `fit_spec_generated_dec`;
   6. `catalogue_keys_faithful'`, `catalogue_fit_spec_dec`, `catalogue_fit_spec_f64`, …;
   7. `convert_mag_generated_dec`, `convert_mag_generated_f64`.

  Statements that need more than was hoped for, each with a kernel-checked witness:
   * "the reference unit has scale one" needs `RefIdentUnique d` (no other unit carries the
     identifier of the reference unit): `ref_scale_one_needs_unique_ident`.  `REF_UNIT` is resolved
     by NAME; the macro does not reject a `#[unit]` repeating the name of the `#[ref_unit]`
     (rustc rejects the `enum` afterwards).
   * "the f64 scale IS the sort key" holds bit for bit except for a float literal `-0.0`
     (scale `-0.0`, key `+0.0`): `scale_eq_sortKey_needs_no_negative_zero`; value and comparison
     behaviour agree unconditionally, which is all the sortedness needs.
   * decimal sortedness needs `KeysFaithful d`: `fit_spec_dec_needs_faithful` exhibits an accepted
     definition on which the conclusion of `C05.fit_spec` is FALSE in the decimal back-end.
-/
set_option linter.unusedSectionVars false
set_option linter.unusedVariables false
namespace Qty.Bridge
open Qty Qty.MacroFront

/-! ### generic list facts -/

theorem all_isSome_eq_map_some {α : Type} : ∀ (l : List (Option α)),
    l.all Option.isSome = true → l = (l.filterMap id).map some
  | [], _ => rfl
  | none :: l, h => by simp at h
  | some x :: l, h => by
    have h' : l.all Option.isSome = true := by simpa using h
    have ih := all_isSome_eq_map_some l h'
    show some x :: l = some x :: List.map some (List.filterMap id l)
    rw [← ih]

/-- relativised `insertBy_sorted`: totality and transitivity are only needed on a class `P` of
elements that contains the list and the inserted element -/
theorem insertBy_sorted_on {α : Type} (le : α → α → Bool) (P : α → Prop)
    (htot : ∀ a b, P a → P b → le a b = true ∨ le b a = true)
    (htr : ∀ a b c, P a → P b → P c → le a b = true → le b c = true → le a c = true)
    (a : α) (ha : P a) (l : List α) (hl : ∀ x ∈ l, P x)
    (h : l.Pairwise (fun x y => le x y = true)) :
    (insertBy le a l).Pairwise (fun x y => le x y = true) := by
  induction l with
  | nil => simp [insertBy]
  | cons b l ih =>
    unfold insertBy
    rw [List.pairwise_cons] at h
    have hb : P b := hl b (List.mem_cons_self ..)
    have hl' : ∀ x ∈ l, P x := fun x hx => hl x (List.mem_cons_of_mem _ hx)
    split
    · next hab =>
      rw [List.pairwise_cons]
      refine ⟨?_, List.pairwise_cons.mpr h⟩
      intro x hx
      rcases List.mem_cons.mp hx with rfl | hx
      · exact hab
      · exact htr _ _ _ ha hb (hl' x hx) hab (h.1 x hx)
    · next hab =>
      have hba : le b a = true := by
        rcases htot a b ha hb with h1 | h1
        · exact absurd h1 hab
        · exact h1
      rw [List.pairwise_cons]
      refine ⟨?_, ih hl' h.2⟩
      intro x hx
      rcases (mem_insertBy le a x l).mp hx with rfl | hx
      · exact hba
      · exact h.1 x hx

theorem isort_sorted_on {α : Type} (le : α → α → Bool) (P : α → Prop)
    (htot : ∀ a b, P a → P b → le a b = true ∨ le b a = true)
    (htr : ∀ a b c, P a → P b → P c → le a b = true → le b c = true → le a c = true)
    (l : List α) (hl : ∀ x ∈ l, P x) :
    (isort le l).Pairwise (fun x y => le x y = true) := by
  induction l with
  | nil => simp [isort]
  | cons a l ih =>
    unfold isort
    have hl' : ∀ x ∈ l, P x := fun x hx => hl x (List.mem_cons_of_mem _ hx)
    exact insertBy_sorted_on le P htot htr a (hl a (List.mem_cons_self ..)) _
      (fun x hx => hl' x ((isort_perm le l).mem_iff.mp hx)) (ih hl')

/-- a relation on list elements, read through the indices -/
theorem pairwise_range_of_pairwise {α : Type} (l : List α) (r : α → α → Prop) (s : Nat → Nat → Prop)
    (h : l.Pairwise r) (hrs : ∀ i j (hi : i < l.length) (hj : j < l.length), r l[i] l[j] → s i j) :
    (List.range l.length).Pairwise s := by
  rw [List.pairwise_iff_getElem]
  intro i j hi hj hij
  simp only [List.length_range] at hi hj
  simp only [List.getElem_range]
  exact hrs i j hi hj ((List.pairwise_iff_getElem.mp h) i j hi hj hij)

/-! ### 1. shape of a generated table -/

section shape
variable {A : Type} (R : Arith A)

/-- the scale column `ofDef` computes: `Amnt!(literal)` per unit -/
def litScales (d : QtyDef) : List (Option A) :=
  d.units.map (fun u => match u.scale with
    | some l => R.ofLit l
    | none => none)

theorem ofDef_inv (d : QtyDef) (T : RTable A) (hk : d.kind = .withRef)
    (hT : RTable.ofDef R d = some T) :
    (litScales R d).all Option.isSome = true ∧
    T.name = d.name ∧ T.kind = .withRef ∧ T.units = d.units.toArray ∧
    T.refIx = (match d.refIdent with
      | none => none
      | some r => d.units.findIdx? (fun u => u.ident == r)) ∧
    T.derived = d.derived ∧ T.scales = ((litScales R d).filterMap id).toArray ∧
    T.isAmount = false := by
  unfold RTable.ofDef at hT
  simp only [hk, beq_self_eq_true, if_true] at hT
  split at hT
  · next hall =>
    cases hT
    exact ⟨hall, rfl, rfl, rfl, rfl, rfl, rfl, rfl⟩
  · cases hT

variable (d : QtyDef) (T : RTable A) (hk : d.kind = .withRef) (hT : RTable.ofDef R d = some T)
include hk hT

theorem ofDef_units : T.units = d.units.toArray := (ofDef_inv R d T hk hT).2.2.2.1

theorem ofDef_n : T.n = d.units.length := by
  simp [RTable.n, ofDef_units R d T hk hT]

theorem ofDef_kind : T.kind = .withRef := (ofDef_inv R d T hk hT).2.2.1

theorem ofDef_isAmount : T.isAmount = false := (ofDef_inv R d T hk hT).2.2.2.2.2.2.2

/-- the scale column is total: every `Amnt!(literal)` compiled -/
theorem ofDef_scales : litScales R d = T.scales.toList.map some := by
  obtain ⟨hall, -, -, -, -, -, hs, -⟩ := ofDef_inv R d T hk hT
  rw [hs]
  exact all_isSome_eq_map_some _ hall

theorem ofDef_scales_size : T.scales.size = T.n := by
  have h := congrArg List.length (ofDef_scales R d T hk hT)
  simp only [litScales, List.length_map, Array.length_toList] at h
  rw [ofDef_n R d T hk hT, ← h]

/-- `_fit` is not overridden: only `AmountT` itself does that -/
theorem ofDef_fitIdentity : (T.qt R).fitIdentity = none := by
  simp [RTable.qt, ofDef_isAmount R d T hk hT]

/-- the units of the view are the indices of the declared units in iteration order -/
theorem ofDef_qt_units : (T.qt R).units = List.range d.units.length := by
  simp [RTable.qt, ofDef_n R d T hk hT]

/-- the scale of unit `u` is `Amnt!(l)` for the scale literal `l` of the `u`-th unit -/
theorem ofDef_scale (u : Nat) (hu : u < d.units.length) :
    ∃ l, d.units[u].scale = some l ∧ R.ofLit l = some (T.scaleOf R u) := by
  have hs := ofDef_scales R d T hk hT
  have hsz := ofDef_scales_size R d T hk hT
  have hn := ofDef_n R d T hk hT
  have hu' : u < T.scales.size := by omega
  have h1 : (litScales R d)[u]? = some (match d.units[u].scale with
      | some l => R.ofLit l
      | none => none) := by
    unfold litScales
    rw [List.getElem?_map, List.getElem?_eq_getElem hu]; rfl
  have h2 : (litScales R d)[u]? = some (some (T.scaleOf R u)) := by
    rw [hs, List.getElem?_map]
    simp [RTable.scaleOf, hu']
  rw [h1] at h2
  cases hsc : d.units[u].scale with
  | none => rw [hsc] at h2; simp at h2
  | some l =>
    rw [hsc] at h2
    exact ⟨l, rfl, by simpa using h2⟩

omit hk hT
end shape

/-! ### what the macro guarantees about a definition with reference unit -/

section macroFacts
open Qty.C09 Qty.C11

theorem refIdent_of_withRef (d : QtyDef) (hk : d.kind = .withRef) : ∃ r, d.refIdent = some r := by
  unfold QtyDef.kind at hk
  cases hr : d.refIdent with
  | some r => exact ⟨r, rfl⟩
  | none =>
    rw [hr] at hk
    split_ifs at hk; simp at *

/-- a definition accepted with a reference unit is the stable `keyLe`-sort of the reference unit
(given the literal `1.0`) followed by the `#[unit]` attributes, each of which carries a scale -/
theorem expand_withRef (it : RawItem) (d : QtyDef) (h : expand it = .ok d) (r : Text)
    (hr : d.refIdent = some r) :
    ∃ rd us, rd.ident = r ∧ rd.scale = some litOne ∧ (∀ u ∈ us, HasScale u) ∧
      d.units = isort keyLe (rd :: us) := by
  have hwf : WellFormedRaw it = true := (expand_ok_iff it).mp ⟨d, h⟩
  obtain ⟨dc, dv, hd, -, rfl⟩ := expand_ok_inv it d h
  obtain ⟨-, -, -, -, us, hus, -, hc⟩ := declared_ok_spec it dc hd
  rcases hc with ⟨-, rfl⟩ | ⟨ra, rd, hra, hpr, hsc, rfl⟩
  · simp at hr
  · simp only [Option.some.injEq] at hr
    refine ⟨{ rd with scale := some litOne }, us, hr, rfl, ?_, ?_⟩
    · intro u hu
      rw [hus, List.mem_filterMap] at hu
      obtain ⟨a, ha, hpa⟩ := hu
      unfold WellFormedRaw at hwf
      rw [hra] at hwf
      simp only [Bool.and_eq_true] at hwf
      have := (List.all_eq_true.mp hwf.2.2) a ha
      rw [hpa] at this
      exact this
    · show isort (orderOf _) _ = _
      rfl

variable (it : RawItem) (d : QtyDef) (h : expand it = .ok d) (hk : d.kind = .withRef)
include h hk

/-- every unit of a generated type with reference unit carries a scale literal -/
theorem units_have_scale : ∀ u ∈ d.units, HasScale u := by
  obtain ⟨r, hr⟩ := refIdent_of_withRef d hk
  obtain ⟨rd, us, -, hrs, hus, hu⟩ := expand_withRef it d h r hr
  intro u hm
  rw [hu] at hm
  rcases List.mem_cons.mp ((isort_perm keyLe _).mem_iff.mp hm) with rfl | hm
  · unfold HasScale; rw [hrs]; rfl
  · exact hus u hm

/-- iteration order is non-decreasing in the `f64` sort key — `C09.iter_sorted` with its
totality/transitivity hypotheses discharged by `C09.keyLe_total` / `keyLe_trans` -/
theorem units_sorted_keyLe : d.units.Pairwise (fun a b => keyLe a b = true) := by
  obtain ⟨r, hr⟩ := refIdent_of_withRef d hk
  obtain ⟨rd, us, -, hrs, hus, hu⟩ := expand_withRef it d h r hr
  rw [hu]
  refine isort_sorted_on keyLe HasScale keyLe_total keyLe_trans _ ?_
  intro u hm
  rcases List.mem_cons.mp hm with rfl | hm
  · unfold HasScale; rw [hrs]; rfl
  · exact hus u hm

/-- the reference unit is one of the units, with scale literal `1.0` -/
theorem ref_unit_mem : ∃ r, d.refIdent = some r ∧ ∃ u ∈ d.units, u.ident = r ∧ u.scale = some litOne := by
  obtain ⟨r, hr⟩ := refIdent_of_withRef d hk
  obtain ⟨rd, us, hri, hrs, -, hu⟩ := expand_withRef it d h r hr
  refine ⟨r, hr, rd, ?_, hri, hrs⟩
  rw [hu]
  exact (isort_perm keyLe _).mem_iff.mpr (List.mem_cons_self ..)

omit h hk
end macroFacts

/-! ### 1 (continued). the reference unit of a generated table -/

section refUnit
variable {A : Type} (R : Arith A)
variable (it : RawItem) (d : QtyDef) (h : expand it = .ok d) (hk : d.kind = .withRef)
variable (T : RTable A) (hT : RTable.ofDef R d = some T)

/-- no other unit shares the variant identifier of the reference unit (rustc rejects an `enum`
with two variants of one name, so every table that is actually generated satisfies this) -/
def RefIdentUnique (d : QtyDef) : Prop :=
  ∀ u ∈ d.units, ∀ v ∈ d.units, d.refIdent = some u.ident → v.ident = u.ident → u = v

instance (d : QtyDef) : Decidable (RefIdentUnique d) := by
  unfold RefIdentUnique; infer_instance

theorem refIdentUnique_of_nodup (d : QtyDef) (hn : (d.units.map (·.ident)).Nodup) :
    RefIdentUnique d :=
  fun u hu v hv _ hvu => (List.inj_on_of_nodup_map hn hu hv hvu.symm)

include h hk hT

/-- `REF_UNIT` is the index of the first unit carrying the reference identifier -/
theorem ofDef_refIx :
    ∃ r i, d.refIdent = some r ∧ T.refIx = some i ∧ ∃ hi : i < d.units.length,
      d.units[i].ident = r ∧ ∀ j (hj : j < i), (d.units[j]'(Nat.lt_trans hj hi)).ident ≠ r := by
  obtain ⟨r, hr, u, hu, hui, -⟩ := ref_unit_mem it d h hk
  have hix := (ofDef_inv R d T hk hT).2.2.2.2.1
  rw [hr] at hix
  simp only at hix
  cases hf : d.units.findIdx? (fun u => u.ident == r) with
  | none =>
    have := (List.findIdx?_eq_none_iff.mp hf) u hu
    simp [hui] at this
  | some i =>
    rw [hf] at hix
    obtain ⟨hi, hp, hlt⟩ := List.findIdx?_eq_some_iff_getElem.mp hf
    refine ⟨r, i, hr, hix, hi, by simpa using hp, ?_⟩
    intro j hj
    simpa using hlt j hj

/-- the table lists its reference unit: the hypothesis `T.ref ∈ T.units` of
`C05.ref_eligible`, `fit_never_unwrap_none`, `fit_eq_div`, `C18.f64_fit_total`, … -/
theorem ofDef_ref_mem : (T.qt R).ref ∈ (T.qt R).units := by
  obtain ⟨r, i, -, hix, hi, -, -⟩ := ofDef_refIx R it d h hk T hT
  rw [ofDef_qt_units R d T hk hT]
  simp [RTable.qt, hix, hi]

/-- the reference unit carries the scale literal `1.0` -/
theorem ofDef_ref_lit (huniq : RefIdentUnique d) :
    ∃ i, T.refIx = some i ∧ ∃ hi : i < d.units.length, d.units[i].scale = some litOne := by
  obtain ⟨r, i, hr, hix, hi, hid, -⟩ := ofDef_refIx R it d h hk T hT
  obtain ⟨r', hr', u, hu, hui, hus⟩ := ref_unit_mem it d h hk
  rw [hr] at hr'
  cases hr'
  have : u = d.units[i] :=
    huniq u hu d.units[i] (List.getElem_mem hi) (by rw [hr, hui]) (by rw [hid, hui])
  exact ⟨i, hix, hi, by rw [← this]; exact hus⟩

/-- **1. `ofDef_shape`** — everything the run-time theorems assume about the shape of a table,
for every table generated from an accepted definition with reference unit -/
theorem ofDef_shape :
    T.units = d.units.toArray ∧ T.n = d.units.length ∧ T.scales.size = T.n ∧
    T.isAmount = false ∧ (T.qt R).fitIdentity = none ∧
    (T.qt R).units = List.range d.units.length ∧
    (∃ r i, d.refIdent = some r ∧ T.refIx = some i ∧ i < T.n ∧ (T.qt R).ref = i ∧
      ∃ hi : i < d.units.length, d.units[i].ident = r) ∧
    (T.qt R).ref ∈ (T.qt R).units ∧
    (∀ u (hu : u < d.units.length), ∃ l, d.units[u].scale = some l ∧
      R.ofLit l = some ((T.qt R).scale u)) := by
  refine ⟨ofDef_units R d T hk hT, ofDef_n R d T hk hT, ofDef_scales_size R d T hk hT,
    ofDef_isAmount R d T hk hT, ofDef_fitIdentity R d T hk hT, ofDef_qt_units R d T hk hT,
    ?_, ofDef_ref_mem R it d h hk T hT, fun u hu => ofDef_scale R d T hk hT u hu⟩
  obtain ⟨r, i, hr, hix, hi, hid, -⟩ := ofDef_refIx R it d h hk T hT
  exact ⟨r, i, hr, hix, by rw [ofDef_n R d T hk hT]; exact hi, by simp [RTable.qt, hix], hi, hid⟩

omit h hk hT
end refUnit

/-! ### 2. the decimal back-end: scales are the exact literal values -/

section decimal

theorem dec_ofLit_wf (l : Lit) (x : Dec) (h : Dec.ofLit l = some x) : x.wf = true := by
  unfold Dec.ofLit at h
  dsimp only at h
  split_ifs at h <;> cases h <;>
    simp only [Dec.wf, Bool.and_eq_true, Dec.maxNfd] at * <;>
    exact ⟨by assumption, decide_eq_true (by omega)⟩

/-- `Dec!(l)` has exactly the value of the literal -/
theorem dec_ofLit_val (l : Lit) (x : Dec) (h : Dec.ofLit l = some x) :
    Dec.arith.val x = some l.value := by
  rw [Dec.val_of_wf (dec_ofLit_wf l x h), C11.scale_is_literal_value l x h]

theorem litOne_value : litOne.value = 1 := by decide +kernel

variable (it : RawItem) (d : QtyDef) (h : expand it = .ok d) (hk : d.kind = .withRef)
variable (T : RTable Dec) (hT : RTable.ofDef Dec.arith d = some T)
include hk hT

/-- **2.** the scale of every unit of a generated decimal table is finite and is EXACTLY the value
of that unit's scale literal -/
theorem dec_scale_value (u : Nat) (hu : u < d.units.length) :
    ∃ l, d.units[u].scale = some l ∧ Dec.arith.val (T.scaleOf Dec.arith u) = some l.value := by
  obtain ⟨l, hl, hof⟩ := ofDef_scale Dec.arith d T hk hT u hu
  exact ⟨l, hl, dec_ofLit_val l _ hof⟩

/-- the exact scale of unit `u` of a definition: the value of its literal (`0` if there is none,
which does not happen in a definition with reference unit) -/
def litVal (d : QtyDef) (u : Nat) : Rat :=
  match d.units[u]? with
  | some ud => (match ud.scale with
    | some l => l.value
    | none => 0)
  | none => 0

theorem dec_scale_litVal (u : Nat) (hu : u < d.units.length) :
    Dec.arith.val ((T.qt Dec.arith).scale u) = some (litVal d u) := by
  obtain ⟨l, hl, hv⟩ := dec_scale_value d hk T hT u hu
  unfold litVal
  rw [List.getElem?_eq_getElem hu]
  simp only [hl]
  exact hv

include h
/-- the reference unit has scale value one, provided no other unit shares its identifier -/
theorem dec_ref_scale_one (huniq : RefIdentUnique d) :
    Dec.arith.val ((T.qt Dec.arith).scale (T.qt Dec.arith).ref) = some 1 := by
  obtain ⟨i, hix, hi, hsc⟩ := ofDef_ref_lit Dec.arith it d h hk T hT huniq
  obtain ⟨l, hl, hv⟩ := dec_scale_value d hk T hT i hi
  rw [hsc] at hl
  cases hl
  rw [litOne_value] at hv
  simpa [RTable.qt, hix] using hv

omit h hk hT
end decimal

/-! ### 3. the binary back-end: the scale IS the sort key -/

section binary
open Qty.C09

/-- what `$lit as f64` computes: float literals are correctly rounded (an exact zero keeps the
sign written in the literal); integer literals are typed `i32` first, so they are rejected beyond
`2^31 - 1` and an integer zero is `+0.0` -/
theorem f64_ofLit_eq (l : Lit) (x : F64) (h : F64.ofLit l = some x) :
    x = F64.round l.value (l.isFloat && l.neg) ∧
    (l.isFloat = false → ratAbs l.value ≤ ((2 ^ 31 - 1 : Nat) : Int)) := by
  unfold F64.ofLit at h
  split at h
  · next hf => cases h; simp [hf]
  · next hf =>
    split at h
    · next hr =>
      cases h
      have hf' : l.isFloat = false := by simpa using hf
      exact ⟨by rw [hf']; rfl, fun _ => hr⟩
    · cases h

/-- the sign given to an exact zero is the only thing the flag of `round` decides -/
theorem round_sign_irrel (q : Rat) (b b' : Bool) (hq : q ≠ 0) : F64.round q b = F64.round q b' := by
  unfold F64.round; rw [if_neg hq, if_neg hq]

theorem round_zero (b : Bool) : F64.round 0 b = .fin b 0 F64.eMin := by
  unfold F64.round; simp

theorem pcmp_zero_left (b : Bool) (e : Int) (z : F64) :
    F64.pcmp (.fin b 0 e) z = F64.pcmp (.fin false 0 e) z := by
  cases z with
  | fin t n f =>
    rw [F64.pcmp_fin, F64.pcmp_fin, F64.tr_eq_zero.mpr rfl, F64.tr_eq_zero.mpr rfl]
  | inf t => rfl
  | nan => rfl

theorem pcmp_zero_right (b : Bool) (e : Int) (z : F64) :
    F64.pcmp z (.fin b 0 e) = F64.pcmp z (.fin false 0 e) := by
  cases z with
  | fin t n f =>
    rw [F64.pcmp_fin, F64.pcmp_fin, F64.tr_eq_zero.mpr rfl, F64.tr_eq_zero.mpr rfl]
  | inf t => rfl
  | nan => rfl

/-- comparisons do not see the sign of a zero -/
theorem pcmp_round_sign (q q' : Rat) (b b' : Bool) :
    F64.pcmp (F64.round q b) (F64.round q' b') = F64.pcmp (F64.round q false) (F64.round q' false) := by
  have h1 : ∀ z, F64.pcmp (F64.round q b) z = F64.pcmp (F64.round q false) z := by
    intro z
    by_cases hq : q = 0
    · subst hq; rw [round_zero, round_zero]; exact pcmp_zero_left _ _ _
    · rw [round_sign_irrel q b false hq]
  have h2 : ∀ z, F64.pcmp z (F64.round q' b') = F64.pcmp z (F64.round q' false) := by
    intro z
    by_cases hq : q' = 0
    · subst hq; rw [round_zero, round_zero]; exact pcmp_zero_right _ _ _
    · rw [round_sign_irrel q' b' false hq]
  rw [h1, h2]

theorem val_round_sign (q : Rat) (b : Bool) : F64.val (F64.round q b) = F64.val (F64.round q false) := by
  by_cases hq : q = 0
  · subst hq; rw [F64.val_round_zero, F64.val_round_zero]
  · rw [round_sign_irrel q b false hq]

/-- on finite values the `f64` order is the order of the exact values -/
theorem f64Le_val (a b : F64) (x y : Rat) (ha : F64.val a = some x) (hb : F64.val b = some y) :
    f64Le a b = true ↔ x ≤ y := by
  obtain ⟨s, m, e, rfl, -, -, -, rfl⟩ := F64.val_some ha
  obtain ⟨t, n, f, rfl, -, -, -, rfl⟩ := F64.val_some hb
  exact f64Le_fin s t m n e f

/-- exact value of a finite `f64` (`0` for NaN / ±inf) -/
def f64Val (a : F64) : Rat := (F64.val a).getD 0

theorem f64Val_spec (a : F64) (hfin : (F64.val a).isSome = true) : F64.val a = some (f64Val a) := by
  unfold f64Val
  cases hv : F64.val a with
  | none => rw [hv] at hfin; cases hfin
  | some x => rfl

variable (it : RawItem) (d : QtyDef) (h : expand it = .ok d) (hk : d.kind = .withRef)
variable (T : RTable F64) (hT : RTable.ofDef F64.arith d = some T)
include hk hT

/-- **3.** the scale of unit `u` of a generated binary table is the correctly rounded value of its
scale literal; integer literals beyond `i32` do not occur (they do not compile) -/
theorem f64_scale_eq (u : Nat) (hu : u < d.units.length) :
    ∃ l, d.units[u].scale = some l ∧
      T.scaleOf F64.arith u = F64.round l.value (l.isFloat && l.neg) ∧
      (l.isFloat = false → ratAbs l.value ≤ ((2 ^ 31 - 1 : Nat) : Int)) := by
  obtain ⟨l, hl, hof⟩ := ofDef_scale F64.arith d T hk hT u hu
  obtain ⟨h1, h2⟩ := f64_ofLit_eq l _ hof
  exact ⟨l, hl, h1, h2⟩

/-- it IS the sort key `opt_lit_to_f64` of that unit, bit for bit, unless the literal is a
negative float zero (`-0.0`: the scale is `-0.0`, the key `+0.0`; the two compare equal) -/
theorem f64_scale_eq_sortKey (u : Nat) (hu : u < d.units.length)
    (hz : ∀ l, d.units[u].scale = some l → l.value ≠ 0 ∨ l.neg = false ∨ l.isFloat = false) :
    T.scaleOf F64.arith u = sortKey d.units[u] := by
  obtain ⟨l, hl, he, -⟩ := f64_scale_eq d hk T hT u hu
  rw [he]
  unfold sortKey
  rw [hl]
  rcases hz l hl with h0 | h0 | h0
  · exact round_sign_irrel _ _ _ h0
  · simp [h0]
  · simp [h0]

/-- unconditionally, scale and sort key have the same value … -/
theorem f64_scale_val_eq_sortKey (u : Nat) (hu : u < d.units.length) :
    F64.arith.val (T.scaleOf F64.arith u) = F64.arith.val (sortKey d.units[u]) := by
  obtain ⟨l, hl, he, -⟩ := f64_scale_eq d hk T hT u hu
  rw [he]
  unfold sortKey
  rw [hl]
  exact val_round_sign _ _

/-- … and compare the same way: the run-time order of the scales is the order the macro sorted by -/
theorem f64Le_scale_eq_keyLe (u v : Nat) (hu : u < d.units.length) (hv : v < d.units.length) :
    f64Le (T.scaleOf F64.arith u) (T.scaleOf F64.arith v) = keyLe d.units[u] d.units[v] := by
  obtain ⟨l, hl, he, -⟩ := f64_scale_eq d hk T hT u hu
  obtain ⟨l', hl', he', -⟩ := f64_scale_eq d hk T hT v hv
  rw [keyLe_eq, he, he']
  unfold sortKey
  rw [hl, hl']
  unfold f64Le
  rw [pcmp_round_sign]

include h

/-- **3.** the iteration order of a generated binary table is non-decreasing in the scales as the
amount type compares them (`partial_cmp` is never `Greater` from an earlier to a later unit) —
no hypothesis, infinite scales (overflowing literals) included -/
theorem f64_scales_sorted :
    (List.range T.n).Pairwise
      (fun u v => f64Le (T.scaleOf F64.arith u) (T.scaleOf F64.arith v) = true) := by
  rw [ofDef_n F64.arith d T hk hT]
  refine pairwise_range_of_pairwise d.units _ _ (units_sorted_keyLe it d h hk) ?_
  intro i j hi hj hij
  rw [f64Le_scale_eq_keyLe d hk T hT i j hi hj]
  exact hij

/-- in terms of exact values, wherever the scales are finite -/
theorem f64_values_sorted (sc : Nat → Rat)
    (hsc : ∀ u, u < T.n → F64.arith.val (T.scaleOf F64.arith u) = some (sc u)) :
    (List.range T.n).Pairwise (fun u v => sc u ≤ sc v) := by
  have hs := f64_scales_sorted it d h hk T hT
  rw [List.pairwise_iff_getElem] at hs ⊢
  intro i j hi hj hij
  have := hs i j hi hj hij
  simp only [List.length_range] at hi hj
  simp only [List.getElem_range] at this ⊢
  exact (f64Le_val _ _ _ _ (hsc i hi) (hsc j hj)).mp this

omit h
/-- a literal below `2^1023` in absolute value gives a finite scale -/
theorem f64_scale_finite (u : Nat) (hu : u < d.units.length)
    (hs : ∀ l, d.units[u].scale = some l → ErrModel.f64.safe l.value = true) :
    (F64.arith.val (T.scaleOf F64.arith u)).isSome = true := by
  obtain ⟨l, hl, he, -⟩ := f64_scale_eq d hk T hT u hu
  obtain ⟨z, hz, -⟩ := F64.round_ok l.value (l.isFloat && l.neg) (hs l hl)
  rw [he]
  show (F64.val _).isSome = true
  rw [hz]; rfl

include h
/-- the reference unit has scale exactly `1.0`, provided no other unit shares its identifier -/
theorem f64_ref_scale_one (huniq : RefIdentUnique d) :
    F64.arith.val ((T.qt F64.arith).scale (T.qt F64.arith).ref) = some 1 := by
  obtain ⟨i, hix, hi, hsc⟩ := ofDef_ref_lit F64.arith it d h hk T hT huniq
  obtain ⟨l, hl, he, -⟩ := f64_scale_eq d hk T hT i hi
  rw [hsc] at hl
  cases hl
  have hs : (T.qt F64.arith).scale (T.qt F64.arith).ref = T.scaleOf F64.arith i := by
    simp [RTable.qt, hix]
  rw [hs, he, litOne_value]
  have := F64.round_exact' false F64.two52 (-52) (litOne.isFloat && litOne.neg)
    (by decide) (by decide) (by decide)
  rw [F64.tr_one] at this
  exact this

omit h hk hT
end binary

/-! ### 4. `C05.fit_spec` for every generated binary table -/

section fitF64
open Qty.C09

/-- the conclusion of `C05.fit_spec`: the unit `w` chosen for the magnitude `xv` is a largest
eligible unit whose scale does not exceed the magnitude, or no eligible scale is `≤` the magnitude
and `w` is a smallest eligible unit -/
def FitSpec {A : Type} (T : QT A Nat) (sc : Nat → Rat) (xv : Rat) (w : Nat) : Prop :=
  w ∈ eligible T ∧
  ((sc w ≤ xv ∧ ∀ v ∈ eligible T, sc v ≤ xv → sc v ≤ sc w) ∨
   ((∀ v ∈ eligible T, xv < sc v) ∧ ∀ v ∈ eligible T, sc w ≤ sc v))

theorem eligible_lt {A : Type} (R : Arith A) (T : RTable A) (u : Nat) (hu : u ∈ eligible (T.qt R)) :
    u < T.n := by
  have := ((C05.mem_eligible (T.qt R) u).mp hu).1
  simpa [RTable.qt] using this

theorem eligible_pairwise {A : Type} (R : Arith A) (T : RTable A) (s : Nat → Nat → Prop)
    (hs : (List.range T.n).Pairwise s) : (eligible (T.qt R)).Pairwise s := by
  unfold eligible
  exact List.Pairwise.filter _ hs

/-- all scale literals are below `2^1023` in absolute value (decidable; true of any literal one
would write): the scales of the binary table are then finite -/
def LitsSafeF64 (d : QtyDef) : Bool :=
  d.units.all (fun u => match u.scale with
    | some l => ErrModel.f64.safe l.value
    | none => true)

variable (it : RawItem) (d : QtyDef) (h : expand it = .ok d) (hk : d.kind = .withRef)
variable (T : RTable F64) (hT : RTable.ofDef F64.arith d = some T)
include hk hT

theorem f64_scales_finite_of_safe (hs : LitsSafeF64 d = true) :
    ∀ u, u < T.n → (F64.arith.val (T.scaleOf F64.arith u)).isSome = true := by
  intro u hu
  rw [ofDef_n F64.arith d T hk hT] at hu
  refine f64_scale_finite d hk T hT u hu ?_
  intro l hl
  have := (List.all_eq_true.mp hs) d.units[u] (List.getElem_mem hu)
  rw [hl] at this
  exact this

include h

/-- **4.** the eligible units of a generated binary table are listed in non-decreasing order of
their exact scale values: the sortedness hypothesis of `C05.fit_spec`, discharged -/
theorem eligible_sorted_f64
    (hfin : ∀ u, u < T.n → (F64.arith.val (T.scaleOf F64.arith u)).isSome = true) :
    (eligible (T.qt F64.arith)).Pairwise
      (fun u v => f64Val (T.scaleOf F64.arith u) ≤ f64Val (T.scaleOf F64.arith v)) :=
  eligible_pairwise F64.arith T _
    (f64_values_sorted it d h hk T hT _ (fun u hu => f64Val_spec _ (hfin u hu)))

/-- **4.** `C05.fit_spec` for EVERY generated table of the binary back-end: no hypothesis on the
table is left, only finiteness of the scales and of the magnitude -/
theorem fit_spec_generated_f64
    (hfin : ∀ u, u < T.n → (F64.arith.val (T.scaleOf F64.arith u)).isSome = true)
    (x : F64) (xv : Rat) (hx : F64.arith.val x = some xv) (r : Q F64 Nat)
    (hfit : fit F64.arith (T.qt F64.arith) x = .ok r) :
    FitSpec (T.qt F64.arith) (fun u => f64Val (T.scaleOf F64.arith u)) xv r.unit :=
  C05.fit_spec F64.arith F64.laws (T.qt F64.arith) (ofDef_fitIdentity F64.arith d T hk hT)
    (fun u => f64Val (T.scaleOf F64.arith u))
    (fun u hu => f64Val_spec _ (hfin u (eligible_lt F64.arith T u hu)))
    (eligible_sorted_f64 it d h hk T hT hfin) x xv hx r hfit

/-- and `_fit` does return a value (`C18.f64_fit_total` with `ref ∈ units` discharged) -/
theorem fit_total_generated_f64
    (hfin : ∀ u, u < T.n → (F64.arith.val (T.scaleOf F64.arith u)).isSome = true)
    (x : F64) (xv : Rat) (hx : F64.arith.val x = some xv) :
    ∃ r, fit F64.arith (T.qt F64.arith) x = .ok r ∧
      FitSpec (T.qt F64.arith) (fun u => f64Val (T.scaleOf F64.arith u)) xv r.unit := by
  obtain ⟨r, hr⟩ := C18.f64_fit_total (T.qt F64.arith) (ofDef_ref_mem F64.arith it d h hk T hT) x
  exact ⟨r, hr, fit_spec_generated_f64 it d h hk T hT hfin x xv hx r hr⟩

/-- the same with the finiteness of the scales read off the literals -/
theorem fit_spec_generated_f64_of_safe (hs : LitsSafeF64 d = true)
    (x : F64) (xv : Rat) (hx : F64.arith.val x = some xv) :
    ∃ r, fit F64.arith (T.qt F64.arith) x = .ok r ∧
      FitSpec (T.qt F64.arith) (fun u => f64Val (T.scaleOf F64.arith u)) xv r.unit :=
  fit_total_generated_f64 it d h hk T hT (f64_scales_finite_of_safe d hk T hT hs) x xv hx

omit h hk hT
end fitF64

/-! ### 5. the decimal back-end: sortedness by exact value needs a faithful sort key -/

section fitDec
open Qty.C09

/-- the `f64` sort key never orders two units against the exact order of their scale literals
(decidable; false e.g. for two literals closer than `f64` resolution declared in descending order,
see `C09.f64_key_not_faithful_for_close_decimals` and `fit_spec_dec_needs_faithful` below) -/
def KeysFaithful (d : QtyDef) : Bool :=
  d.units.all (fun a => d.units.all (fun b => match a.scale, b.scale with
    | some x, some y => !keyLe a b || decide (x.value ≤ y.value)
    | _, _ => true))

variable (it : RawItem) (d : QtyDef) (h : expand it = .ok d) (hk : d.kind = .withRef)
include h hk

/-- with a faithful key the units are iterated in non-decreasing order of their EXACT scales -/
theorem litVal_sorted (hkf : KeysFaithful d = true) :
    (List.range d.units.length).Pairwise (fun u v => litVal d u ≤ litVal d v) := by
  refine pairwise_range_of_pairwise d.units _ _ (units_sorted_keyLe it d h hk) ?_
  intro i j hi hj hij
  have hf := (List.all_eq_true.mp ((List.all_eq_true.mp hkf) d.units[i] (List.getElem_mem hi)))
    d.units[j] (List.getElem_mem hj)
  unfold litVal
  rw [List.getElem?_eq_getElem hi, List.getElem?_eq_getElem hj]
  have hsi := units_have_scale it d h hk d.units[i] (List.getElem_mem hi)
  have hsj := units_have_scale it d h hk d.units[j] (List.getElem_mem hj)
  unfold HasScale at hsi hsj
  cases hx : d.units[i].scale with
  | none => rw [hx] at hsi; cases hsi
  | some x =>
    cases hy : d.units[j].scale with
    | none => rw [hy] at hsj; cases hsj
    | some y =>
      simp only [hx, hy, hij, Bool.not_true, Bool.false_or, decide_eq_true_eq] at hf
      simp only [hx, hy]
      exact hf

variable (T : RTable Dec) (hT : RTable.ofDef Dec.arith d = some T)
include hT

/-- **5.** the eligible units of a generated decimal table are listed in non-decreasing order of
their exact scale values, PROVIDED the `f64` sort key is faithful for the definition -/
theorem eligible_sorted_dec (hkf : KeysFaithful d = true) :
    (eligible (T.qt Dec.arith)).Pairwise (fun u v => litVal d u ≤ litVal d v) := by
  refine eligible_pairwise Dec.arith T _ ?_
  rw [ofDef_n Dec.arith d T hk hT]
  exact litVal_sorted it d h hk hkf

/-- **5.** `C05.fit_spec` for every generated table of the decimal back-end whose definition has a
faithful sort key; the scales are the exact literal values `litVal d` -/
theorem fit_spec_generated_dec (hkf : KeysFaithful d = true)
    (x : Dec) (xv : Rat) (hx : Dec.arith.val x = some xv) (r : Q Dec Nat)
    (hfit : fit Dec.arith (T.qt Dec.arith) x = .ok r) :
    FitSpec (T.qt Dec.arith) (litVal d) xv r.unit :=
  C05.fit_spec Dec.arith Dec.laws (T.qt Dec.arith) (ofDef_fitIdentity Dec.arith d T hk hT)
    (litVal d)
    (fun u hu => dec_scale_litVal d hk T hT u
      (by rw [← ofDef_n Dec.arith d T hk hT]; exact eligible_lt Dec.arith T u hu))
    (eligible_sorted_dec it d h hk T hT hkf) x xv hx r hfit

omit h hk hT
end fitDec

/-! ### 6. the regenerated catalogue -/

section catalogue
open Qty.C09
set_option maxRecDepth 100000

/-- `f` holds of the expansion of `it` (and `it` does expand) -/
def expandsTo (f : QtyDef → Bool) (it : RawItem) : Bool :=
  match expand it with
  | .ok d => f d
  | .error _ => false

theorem expandsTo_of_mem (f : QtyDef → Bool) (items : List RawItem)
    (hall : items.all (expandsTo f) = true) (it : RawItem) (hit : it ∈ items) (d : QtyDef)
    (h : expand it = .ok d) : f d = true := by
  have := (List.all_eq_true.mp hall) it hit
  unfold expandsTo at this
  rw [h] at this
  exact this

/-- **6.** the `f64` sort key is faithful to the exact order for every predefined quantity (main
crate, astronomical crate) and every synthetic definition of the harness -/
theorem catalogue_keys_faithful' : allItems.all (expandsTo KeysFaithful) = true := by
  decide +kernel

/-- every scale literal of the catalogue is far inside the `f64` range -/
theorem catalogue_lits_safe_f64 : allItems.all (expandsTo LitsSafeF64) = true := by
  decide +kernel

/-- no unit of the catalogue shares the identifier of its reference unit -/
theorem catalogue_ref_unique :
    allItems.all (expandsTo (fun d => decide (RefIdentUnique d))) = true := by
  decide +kernel

/-- the tables exist: every literal of the main crate compiles in the decimal back-end, every
literal of the main and of the astronomical crate in the binary back-end (the astronomical crate
is `f64` only: its literals have more than 18 fractional digits) -/
theorem catalogue_tables_exist :
    Gen.Catalogue.items.all
      (expandsTo (fun d => d.kind != .withRef || (RTable.ofDef Dec.arith d).isSome)) = true ∧
    (Gen.Catalogue.items ++ Gen.Astro.items).all
      (expandsTo (fun d => d.kind != .withRef || (RTable.ofDef F64.arith d).isSome)) = true := by
  constructor <;> decide +kernel

/-- **6.** `_fit` chooses the best-fitting unit for every predefined quantity with reference unit
in the decimal back-end — no side condition on the table is left -/
theorem catalogue_fit_spec_dec (it : RawItem) (hit : it ∈ allItems) (d : QtyDef)
    (h : expand it = .ok d) (hk : d.kind = .withRef)
    (T : RTable Dec) (hT : RTable.ofDef Dec.arith d = some T)
    (x : Dec) (xv : Rat) (hx : Dec.arith.val x = some xv) (r : Q Dec Nat)
    (hfit : fit Dec.arith (T.qt Dec.arith) x = .ok r) :
    FitSpec (T.qt Dec.arith) (litVal d) xv r.unit :=
  fit_spec_generated_dec it d h hk T hT
    (expandsTo_of_mem _ _ catalogue_keys_faithful' it hit d h) x xv hx r hfit

/-- and in the binary back-end, where `_fit` moreover always returns -/
theorem catalogue_fit_spec_f64 (it : RawItem) (hit : it ∈ allItems) (d : QtyDef)
    (h : expand it = .ok d) (hk : d.kind = .withRef)
    (T : RTable F64) (hT : RTable.ofDef F64.arith d = some T)
    (x : F64) (xv : Rat) (hx : F64.arith.val x = some xv) :
    ∃ r, fit F64.arith (T.qt F64.arith) x = .ok r ∧
      FitSpec (T.qt F64.arith) (fun u => f64Val (T.scaleOf F64.arith u)) xv r.unit :=
  fit_spec_generated_f64_of_safe it d h hk T hT
    (expandsTo_of_mem _ _ catalogue_lits_safe_f64 it hit d h) x xv hx

/-- the reference unit of every predefined decimal table has scale one -/
theorem catalogue_ref_scale_one_dec (it : RawItem) (hit : it ∈ allItems) (d : QtyDef)
    (h : expand it = .ok d) (hk : d.kind = .withRef)
    (T : RTable Dec) (hT : RTable.ofDef Dec.arith d = some T) :
    Dec.arith.val ((T.qt Dec.arith).scale (T.qt Dec.arith).ref) = some 1 :=
  dec_ref_scale_one it d h hk T hT
    (of_decide_eq_true (expandsTo_of_mem _ _ catalogue_ref_unique it hit d h))

end catalogue

/-! ### witnesses: the hypotheses are satisfiable, the side conditions cannot be dropped -/

section witnesses
set_option maxRecDepth 100000

/-- `it` expands to a definition with reference unit whose table exists in back-end `R`, and `p`
holds of definition and table -/
def genWitness {A : Type} (R : Arith A) (it : RawItem) (p : QtyDef → RTable A → Bool) : Bool :=
  match expand it with
  | .ok d => d.kind == .withRef && (match RTable.ofDef R d with
    | some T => p d T
    | none => false)
  | .error _ => false

theorem genWitness_spec {A : Type} (R : Arith A) (it : RawItem) (p : QtyDef → RTable A → Bool)
    (hw : genWitness R it p = true) :
    ∃ d T, expand it = .ok d ∧ d.kind = .withRef ∧ RTable.ofDef R d = some T ∧ p d T = true := by
  unfold genWitness at hw
  cases he : expand it with
  | error e => rw [he] at hw; cases hw
  | ok d =>
    rw [he] at hw
    simp only [Bool.and_eq_true, beq_iff_eq] at hw
    cases ho : RTable.ofDef R d with
    | none => rw [ho] at hw; cases hw.2
    | some T =>
      rw [ho] at hw
      exact ⟨d, T, rfl, hw.1, ho, hw.2⟩

instance {A : Type} (T : QT A Nat) (sc : Nat → Rat) (xv : Rat) (w : Nat) :
    Decidable (FitSpec T sc xv w) := by
  unfold FitSpec; infer_instance

/-- non-vacuity: `Length` and `Mass` of the main crate satisfy every hypothesis used above, in both
back-ends (accepted, with reference unit, table exists, key faithful, identifier unique, literals
in range) -/
example : genWitness Dec.arith Gen.Catalogue.lengthRaw
    (fun d _ => KeysFaithful d && decide (RefIdentUnique d)) = true := by decide +kernel
example : genWitness Dec.arith Gen.Catalogue.massRaw
    (fun d _ => KeysFaithful d && decide (RefIdentUnique d)) = true := by decide +kernel
example : genWitness F64.arith Gen.Catalogue.lengthRaw
    (fun d T => LitsSafeF64 d && decide (RefIdentUnique d) &&
      (List.range T.n).all (fun u => (F64.arith.val (T.scaleOf F64.arith u)).isSome)) = true := by
  decide +kernel
example : genWitness F64.arith Gen.Astro.massRaw (fun d _ => LitsSafeF64 d) = true := by
  decide +kernel

/-- a definition in which a `#[unit]` repeats the identifier of the `#[ref_unit]`
(`#[ref_unit(A, "a")] #[unit(A, "b", 0.5)]`; rustc rejects the generated `enum`, the macro does not) -/
def itDupRef : RawItem where
  name := [81]
  args := []
  attrs := [⟨.refUnit, [.ident [65], .comma, .str [97]]⟩,
            ⟨.unit, [.ident [65], .comma, .str [98], .comma,
                     .float { digits := 5, nfrac := 1, isFloat := true }]⟩]

/-- `dec_ref_scale_one` needs `RefIdentUnique`: here `REF_UNIT` resolves to the FIRST variant named
`A` in iteration order, which is the unit of scale `0.5` -/
theorem ref_scale_one_needs_unique_ident :
    ∃ d T, expand itDupRef = .ok d ∧ d.kind = .withRef ∧ RTable.ofDef Dec.arith d = some T ∧
      (fun d T => !decide (RefIdentUnique d) &&
        decide (Dec.arith.val ((RTable.qt Dec.arith T).scale (RTable.qt Dec.arith T).ref) = some (1 / 2)))
        d T = true :=
  genWitness_spec Dec.arith itDupRef _ (by decide +kernel)

/-- two scale literals closer than `f64` resolution, declared in descending order
(`#[ref_unit(R, "r")] #[unit(X, "x", 1.00000000000000002)] #[unit(Y, "y", 1.00000000000000001)]`) -/
def itClose : RawItem where
  name := [81]
  args := []
  attrs := [⟨.refUnit, [.ident [82], .comma, .str [114]]⟩,
            ⟨.unit, [.ident [88], .comma, .str [120], .comma,
                     .float { digits := 100000000000000002, nfrac := 17, isFloat := true }]⟩,
            ⟨.unit, [.ident [89], .comma, .str [121], .comma,
                     .float { digits := 100000000000000001, nfrac := 17, isFloat := true }]⟩]

/-- `eligible_sorted_dec` / `fit_spec_generated_dec` need `KeysFaithful`: the three units share the
sort key `1.0`, so they stay in declaration order `R, X, Y` although `X > Y` exactly; fitting
`1.00000000000000003` then answers `Y` (the last candidate) while `X` is the largest unit whose
scale does not exceed the magnitude — the conclusion of `C05.fit_spec` fails -/
theorem fit_spec_dec_needs_faithful :
    ∃ d T, expand itClose = .ok d ∧ d.kind = .withRef ∧ RTable.ofDef Dec.arith d = some T ∧
      (fun d T => !KeysFaithful d &&
        !decide ((eligible (RTable.qt Dec.arith T)).Pairwise (fun u v => litVal d u ≤ litVal d v)) &&
        (match fit Dec.arith (RTable.qt Dec.arith T) ⟨100000000000000003, 17⟩ with
         | .ok r => r.unit == 2 &&
             decide (Dec.arith.val ⟨100000000000000003, 17⟩ = some (100000000000000003 / 10 ^ 17)) &&
             !decide (FitSpec (RTable.qt Dec.arith T) (litVal d) (100000000000000003 / 10 ^ 17) r.unit)
         | .error _ => false)) d T = true :=
  genWitness_spec Dec.arith itClose _ (by decide +kernel)

/-- a float zero written with a sign (`Tok.float` with `neg := true`; Rust's tokeniser never
produces such a literal token, the sign is a separate punctuation token which `UnitDef::parse`
rejects — but the token type of the model allows it) -/
def itNegZero : RawItem where
  name := [81]
  args := []
  attrs := [⟨.refUnit, [.ident [82], .comma, .str [114]]⟩,
            ⟨.unit, [.ident [90], .comma, .str [122], .comma,
                     .float { neg := true, digits := 0, nfrac := 1, isFloat := true }]⟩]

/-- `f64_scale_eq_sortKey` needs its hypothesis: the scale of that unit is `-0.0`, its key `+0.0` -/
theorem scale_eq_sortKey_needs_no_negative_zero :
    ∃ d T, expand itNegZero = .ok d ∧ d.kind = .withRef ∧ RTable.ofDef F64.arith d = some T ∧
      (fun d T => decide (RTable.scaleOf F64.arith T 0 = .fin true 0 F64.eMin) &&
        decide ((d.units.map sortKey)[0]? = some (.fin false 0 F64.eMin))) d T = true :=
  genWitness_spec F64.arith itNegZero _ (by decide +kernel)

end witnesses

/-! ### 7. `C01.convert_mag` for generated tables: finite non-zero scales -/

section convert
open Qty.C09

/-- every scale literal is positive -/
def LitsPositive (d : QtyDef) : Bool :=
  d.units.all (fun u => match u.scale with
    | some l => decide (0 < l.value)
    | none => true)

theorem litVal_pos (d : QtyDef) (hp : LitsPositive d = true) (u : Nat) (hu : u < d.units.length)
    (hs : HasScale d.units[u]) : 0 < litVal d u := by
  have := (List.all_eq_true.mp hp) d.units[u] (List.getElem_mem hu)
  unfold litVal
  rw [List.getElem?_eq_getElem hu]
  unfold HasScale at hs
  cases hl : d.units[u].scale with
  | none => rw [hl] at hs; cases hs
  | some l =>
    rw [hl] at this
    simp only [decide_eq_true_eq] at this
    simp only [hl]
    exact this

/-- **7.** `C01.convert_mag` for every generated decimal table with positive scale literals: the
hypotheses "the two scales are finite, the target scale is non-zero" are discharged, the scales
are the exact literal values -/
theorem convert_mag_generated_dec (d : QtyDef) (hk : d.kind = .withRef)
    (T : RTable Dec) (hT : RTable.ofDef Dec.arith d = some T) (hp : LitsPositive d = true)
    (q : Q Dec Nat) (u : Nat) (hq : q.unit < T.n) (hu : u < T.n) (hne : q.unit ≠ u)
    (a : Rat) (ha : Dec.arith.val q.amount = some a)
    (hsafe : Oracle.convSafe ErrModel.dec (litVal d q.unit) (litVal d u) a = true) :
    ∃ r y, convert Dec.arith (T.qt Dec.arith) q u = .ok r ∧ r.unit = u ∧
      Dec.arith.val r.amount = some y ∧
      ratAbs (y * litVal d u - a * litVal d q.unit) ≤
        Oracle.convBound ErrModel.dec (litVal d q.unit) (litVal d u) a := by
  rw [ofDef_n Dec.arith d T hk hT] at hq hu
  have hsu : HasScale d.units[u] := by
    obtain ⟨l, hl, -⟩ := ofDef_scale Dec.arith d T hk hT u hu
    unfold HasScale; rw [hl]; rfl
  exact C01.convert_mag Dec.arith (T.qt Dec.arith) Dec.laws q u _ _ a hne
    (dec_scale_litVal d hk T hT q.unit hq) (dec_scale_litVal d hk T hT u hu)
    (ne_of_gt (litVal_pos d hp u hu hsu)) ha hsafe

/-- a positive rational in the `f64` range that is not below `2^-1073` rounds to a positive value -/
theorem f64_round_pos (q : Rat) (b : Bool) (hlo : F64.pow2 (-1073) ≤ q)
    (hs : ErrModel.f64.safe q = true) : ∃ z, F64.val (F64.round q b) = some z ∧ 0 < z := by
  obtain ⟨z, hz, hb⟩ := F64.round_spec q b ((F64.safe_iff q).mp hs)
  refine ⟨z, hz, ?_⟩
  rw [F64.pow2_eq] at hlo
  have h1 : (2:ℚ) ^ (-1073:ℤ) = 4 * 2 ^ (-1075:ℤ) := by
    have : (-1073:ℤ) = 2 + -1075 := by norm_num
    rw [this, F64.P_add]; norm_num
  have h2 : (2:ℚ) ^ (-53:ℤ) ≤ 1 / 2 := by
    have := F64.P_le (a := -53) (b := -1) (by norm_num)
    simpa using this
  have hε := F64.P_pos (-1075)
  have hq : 0 < q := by linarith
  rw [abs_of_pos hq] at hb
  have h3 := (abs_le.mp hb).1
  have h4 : (2:ℚ) ^ (-53:ℤ) * q ≤ 1 / 2 * q := mul_le_mul_of_nonneg_right h2 (le_of_lt hq)
  generalize (2:ℚ) ^ (-1075:ℤ) = ε at *
  generalize (2:ℚ) ^ (-1073:ℤ) = a at *
  generalize (2:ℚ) ^ (-53:ℤ) * q = c at *
  linarith

/-- every scale literal lies in `[2^-1073, 2^1023)` -/
def LitsNormalF64 (d : QtyDef) : Bool :=
  d.units.all (fun u => match u.scale with
    | some l => decide (F64.pow2 (-1073) ≤ l.value) && ErrModel.f64.safe l.value
    | none => true)

/-- **7.** the same for the binary back-end: literals in `[2^-1073, 2^1023)` give finite positive
scales, so `C01.convert_mag` applies with `s = ` the exact value of the rounded literal -/
theorem convert_mag_generated_f64 (d : QtyDef) (hk : d.kind = .withRef)
    (T : RTable F64) (hT : RTable.ofDef F64.arith d = some T) (hp : LitsNormalF64 d = true)
    (q : Q F64 Nat) (u : Nat) (hq : q.unit < T.n) (hu : u < T.n) (hne : q.unit ≠ u)
    (a : Rat) (ha : F64.arith.val q.amount = some a)
    (hsafe : Oracle.convSafe ErrModel.f64 (f64Val (T.scaleOf F64.arith q.unit))
      (f64Val (T.scaleOf F64.arith u)) a = true) :
    ∃ r y, convert F64.arith (T.qt F64.arith) q u = .ok r ∧ r.unit = u ∧
      F64.arith.val r.amount = some y ∧
      ratAbs (y * f64Val (T.scaleOf F64.arith u) - a * f64Val (T.scaleOf F64.arith q.unit)) ≤
        Oracle.convBound ErrModel.f64 (f64Val (T.scaleOf F64.arith q.unit))
          (f64Val (T.scaleOf F64.arith u)) a := by
  rw [ofDef_n F64.arith d T hk hT] at hq hu
  have key : ∀ v, v < d.units.length →
      ∃ z, F64.arith.val (T.scaleOf F64.arith v) = some z ∧ 0 < z := by
    intro v hv
    obtain ⟨l, hl, he, -⟩ := f64_scale_eq d hk T hT v hv
    have := (List.all_eq_true.mp hp) d.units[v] (List.getElem_mem hv)
    rw [hl] at this
    simp only [Bool.and_eq_true, decide_eq_true_eq] at this
    rw [he]
    exact f64_round_pos _ _ this.1 this.2
  obtain ⟨z1, hz1, -⟩ := key q.unit hq
  obtain ⟨z2, hz2, hpos⟩ := key u hu
  have e1 : f64Val (T.scaleOf F64.arith q.unit) = z1 := by
    unfold f64Val; rw [show F64.val _ = some z1 from hz1]; rfl
  have e2 : f64Val (T.scaleOf F64.arith u) = z2 := by
    unfold f64Val; rw [show F64.val _ = some z2 from hz2]; rfl
  rw [e1, e2] at hsafe ⊢
  exact C01.convert_mag F64.arith (T.qt F64.arith) F64.laws q u z1 z2 a hne hz1 hz2
    (ne_of_gt hpos) ha hsafe

set_option maxRecDepth 100000 in
/-- every scale literal of the catalogue is positive and in the normal `f64` range -/
theorem catalogue_lits_positive :
    allItems.all (expandsTo (fun d => LitsPositive d && LitsNormalF64 d)) = true := by
  decide +kernel

end convert

end Qty.Bridge
