import QtyModel.UnitSpec
import QtyModel.Tables
import QtyModel.Generated.Catalogue
import QtyModel.Generated.Astro
/-
  C07 — Catalogue units carry their defined scales, prefixes and symbols.

  The unit tables are regenerated from the source on every run
  (`Generated/Catalogue.lean`, `Generated/Astro.lean`); the theorems compare them,
  through the model of the macro front end, with the independently written
  definition table `Spec/Units.lean` (hand-written source: /verif/spec/units.spec).
  All proofs are kernel evaluations of a Boolean checker over the WHOLE table.
-/
namespace Qty.C07
open Qty Qty.UnitSpec

/-- qualified quantity name: `A:` prefix for the astronomical crate -/
def qual (astro : Bool) (n : Text) : Text := if astro then [65, 58] ++ n else n

/-- one `#[quantity]` item: expands, and every unit matches its published definition
(symbol, SI prefix, name spelled by the identifier, scale: EXACT when the definition is a
terminating decimal, within 1e-15 relative otherwise), no unit is missing, reference units have
scale one, SI prefixes are mutually consistent; `except` lists the units allowed to differ -/
def itemOk (astro : Bool) (except : List Text) (it : RawItem) : Bool :=
  match MacroFront.expand it with
  | .ok d =>
    (badUnits (qual astro d.name) d == except) && complete (qual astro d.name) d && siConsistent d &&
    d.units.all (fun u => match d.refIdent with
      | some r => if u.ident == r then (u.scale.map (·.value)) == some 1 else true
      | none => true)
  | .error _ => false

/-- the 14 catalogue quantities of the main crate: every unit matches -/
theorem catalogue_matches_spec : Gen.Catalogue.items.all (itemOk false []) = true := by
  decide +kernel

def unitCount (items : List RawItem) : Nat :=
  (items.map (fun it => match MacroFront.expand it with
    | .ok d => d.units.length
    | .error _ => 0)).sum

theorem catalogue_counts : Gen.Catalogue.items.length = 14 ∧ unitCount Gen.Catalogue.items = 112 := by
  decide +kernel

/-- "Sideral Day" -/
def sideralDay : Text := [83, 105, 100, 101, 114, 97, 108, 32, 68, 97, 121]

/-- the astronomical crate: every unit matches EXCEPT the sidereal day (next theorem) -/
theorem astro_matches_spec_partial :
    Gen.Astro.items.all (fun it => itemOk true (if it.name == [68, 117, 114, 97, 116, 105, 111, 110] then [sideralDay] else []) it) = true := by
  decide +kernel

theorem astro_counts : Gen.Astro.items.length = 4 ∧ unitCount Gen.Astro.items = 27 := by
  decide +kernel

/-- KNOWN FINDING (kernel-checked witness): the declared scale of `Sideral_Day`,
0.9972685185185185 (= 86164/86400), is not its published definition a·d/(a+d) = 1461/1465
(0.99726962…): the relative distance is 1.1e-6, far outside the 1e-15 tolerance -/
theorem sideral_day_mismatch :
    (1461 : Rat) / 1465 - 9972685185185185 / 10000000000000000 > 1 / 1000000 := by
  decide +kernel

/-- in the decimal back-end every catalogue scale literal is representable EXACTLY
(at most 18 fractional digits): `Amnt!(lit)` = the literal's value -/
theorem dec_scales_exact :
    Gen.Catalogue.items.all (fun it => match MacroFront.expand it with
      | .ok d => d.units.all (fun u => match u.scale with
        | some l => (Dec.ofLit l).map Dec.toRat == some l.value
        | none => true)
      | .error _ => false) = true := by
  decide +kernel

/-- in the binary back-end the scale is the correctly rounded literal (by definition of
`F64.ofLit`), and every catalogue and astronomical literal is accepted -/
theorem f64_scales_rounded :
    (Gen.Catalogue.items ++ Gen.Astro.items).all (fun it => match MacroFront.expand it with
      | .ok d => d.units.all (fun u => match u.scale with
        | some l => (F64.ofLit l).isSome
        | none => true)
      | .error _ => false) = true := by
  decide +kernel

/-- non-vacuity: the checker is not trivially true — a wrong scale is rejected -/
example : scaleOk ⟨[], [], [], none, .defined, [.num (254 / 100), .unit [76] [67] 1]⟩
    (some { digits := 254, nfrac := 4, isFloat := true }) = false := by decide +kernel

end Qty.C07
