import QtyModel.Serde
import QtyModel.Lemmas.ListFind
import QtyModel.Lemmas.Digits
/-
  C17 — Serialisation round-trips values exactly.  (partial: serde_derive / serde_json are modelled)

  Property theorems only, on the serde data-model tree.  The amount codec is a
  parameter: for the decimal back-end it is `str ∘ Display` / `FromStr`
  (`dec_amount_roundtrip`), for the binary back-end it is the JSON number, whose text
  is produced by serde_json and checked in the correspondence run with an exactly
  rounding parser.
-/
namespace Qty.C17
open Qty Qty.Serde Qty.Fmt Qty.Digits

/-- units serialise as their variant names -/
theorem unit_ser_is_variant_name (u : UnitDef) : serUnit u = .str u.ident := rfl

/-- a unit read back is the unit itself (variant identifiers are distinct) -/
theorem de_ser_unit (units : List UnitDef) (hn : (units.map (·.ident)).Nodup) (i : Nat) (u : UnitDef)
    (hi : units[i]? = some u) : deUnit units (serUnit u) = some i := by
  show units.findIdx? (fun x => x.ident == u.ident) = some i
  induction units generalizing i with
  | nil => simp at hi
  | cons a as ih =>
    simp only [List.map_cons, List.nodup_cons] at hn
    cases i with
    | zero =>
      simp only [List.getElem?_cons_zero, Option.some.injEq] at hi
      subst hi
      simp [List.findIdx?_cons]
    | succ i =>
      simp only [List.getElem?_cons_succ] at hi
      have hu : u ∈ as := List.mem_of_getElem? hi
      have hne : a.ident ≠ u.ident := by
        intro e
        exact hn.1 (e ▸ List.mem_map_of_mem hu)
      have : (a.ident == u.ident) = false := by simp [hne]
      simp [List.findIdx?_cons, this, ih hn.2 i hi]

/-- serialising any value and deserialising the result gives back the identical unit and the
identical amount, for every amount codec that round-trips -/
theorem de_ser {A : Type} (kind : QtyKind) (units : List UnitDef) (hn : (units.map (·.ident)).Nodup)
    (hk : kind = .single → units.length = 1)
    (serAmt : A → JL) (deAmt : JL → Option A) (hrt : ∀ a, deAmt (serAmt a) = some a)
    (a : A) (i : Nat) (u : UnitDef) (hi : units[i]? = some u) :
    deQty kind units deAmt (serQty kind (serAmt a) u) = some (a, i) := by
  have hu := de_ser_unit units hn i u hi
  cases kind with
  | single =>
    have hl := hk rfl
    have hi0 : i = 0 := by
      have := (List.getElem?_eq_some_iff.mp hi).1
      omega
    subst hi0
    simp [serQty, deQty, hrt]
  | noRef => simp [serQty, deQty, hrt, hu]
  | withRef => simp [serQty, deQty, hrt, hu]

/-- values that differ in unit or amount have different serialisations -/
theorem ser_injective {A : Type} (kind : QtyKind) (units : List UnitDef) (hn : (units.map (·.ident)).Nodup)
    (hk : kind = .single → units.length = 1)
    (serAmt : A → JL) (deAmt : JL → Option A) (hrt : ∀ a, deAmt (serAmt a) = some a)
    (a b : A) (i j : Nat) (u v : UnitDef) (hi : units[i]? = some u) (hj : units[j]? = some v)
    (h : serQty kind (serAmt a) u = serQty kind (serAmt b) v) : a = b ∧ i = j := by
  have h1 := de_ser kind units hn hk serAmt deAmt hrt a i u hi
  have h2 := de_ser kind units hn hk serAmt deAmt hrt b j v hj
  rw [h, h2] at h1
  simpa [eq_comm] using h1

/-- `decOfText` after the sign has been split off -/
def decCore (neg : Bool) (t : Text) : Option Dec :=
  let ip := t.takeWhile (· != 46)
  let rest := t.dropWhile (· != 46)
  let fp := match rest with
    | 46 :: r => r
    | _ => []
  if ip.isEmpty || !(ip.all Case.isDigit) || !(fp.all Case.isDigit) || (rest.length = 1) then none
  else
    let c : Int := (num (ip ++ fp) : Nat)
    some ⟨if neg then -c else c, fp.length⟩

theorem decCore_eq (neg : Bool) (t : Text) :
    decCore neg t = (splitDigits t).map (fun p =>
      let c : Int := (num (p.1 ++ p.2) : Nat)
      (⟨if neg then -c else c, p.2.length⟩ : Dec)) := by
  unfold decCore splitDigits
  dsimp only
  split_ifs <;> first | rfl | contradiction

theorem decOfText_eq (t : Text) :
    decOfText t = (splitDigits (stripSign t).2).map (fun p =>
      let c : Int := (num (p.1 ++ p.2) : Nat)
      (⟨if (stripSign t).1 then -c else c, p.2.length⟩ : Dec)) := by
  rw [← decCore_eq]; rfl

/-- decimal back-end: the `Display` text of a `Decimal` parses back to the identical value
(coefficient AND number of fractional digits), for every well-formed `Decimal` -/
theorem dec_amount_roundtrip (d : Dec) (h : d.nfd ≤ 18) : decOfText (decText d) = some d := by
  obtain ⟨ip, fp, hs, hnum, hlen, hns⟩ := absText_split d
  rw [decOfText_eq]
  by_cases hc : d.coeff < 0
  · have e : decText d = 45 :: decAbsText none d := by simp [decText, hc]
    rw [e, stripSign_minus]
    simp only [hs, Option.map_some, hnum, hlen, if_true]
    congr 1
    cases d with
    | mk c n =>
      simp only at hc ⊢
      congr 1
      omega
  · have e : decText d = decAbsText none d := by simp [decText, hc]
    rw [e, stripSign_nosign _ hns]
    simp only [hs, Option.map_some, hnum, hlen]
    congr 1
    cases d with
    | mk c n =>
      simp only at hc ⊢
      congr 1
      simp; omega

/-- non-vacuity -/
example : render (serQty .withRef (.str (decText ⟨-125, 2⟩)) { ident := [77], name := [77], symbol := [109], pfx := none, scale := none, doc := none })
    = [123, 34, 97, 109, 111, 117, 110, 116, 34, 58, 34, 45, 49, 46, 50, 53, 34, 44, 34, 117, 110, 105, 116, 34, 58, 34, 77, 34, 125] := by
  decide +kernel   -- {"amount":"-1.25","unit":"M"}

end Qty.C17
