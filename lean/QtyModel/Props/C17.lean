import QtyModel.Serde
namespace Qty.C17
end Qty.C17
