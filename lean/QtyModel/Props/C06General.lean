import QtyModel.TypingSpec
/-
  C06 — the general statement: for EVERY list of declarations (not only the regenerated
  catalogue) the lookup in the generated impl table agrees with the specification relation.
-/
namespace Qty.C06
open Qty

/-- well-formed declaration lists: distinct type names, none of them `AmountT` or `bool`,
and no derivation whose operand or result is the type being defined twice over -/
def DeclsOk (decls : List TyDecl) : Prop :=
  (decls.map (·.name)).Nodup ∧ (∀ d ∈ decls, d.name ≠ amountName ∧ d.name ≠ boolName)

/-! ### generic lookup lemmas -/

/-- the lookup key of the type checker -/
def key (op : BinOp) (l r : Text) : OpImpl → Bool :=
  fun i => i.op == op && i.lhs == l && i.rhs == r

theorem find_flatMap_map {α β γ : Type} (f : α → List β) (p : β → Bool) (g : β → γ)
    (F : α → Option γ) (l : List α) (h : ∀ a ∈ l, ((f a).find? p).map g = F a) :
    ((l.flatMap f).find? p).map g = l.findSome? F := by
  induction l with
  | nil => rfl
  | cons a as ih =>
    rw [List.flatMap_cons, List.find?_append, Option.map_or, h a (List.mem_cons_self ..),
      ih (fun x hx => h x (List.mem_cons_of_mem _ hx)), List.findSome?_cons]
    cases F a <;> rfl

theorem findSome_const {α γ : Type} (c : α → Bool) (v : γ) (l : List α) :
    l.findSome? (fun a => if c a then some v else none) = if l.any c then some v else none := by
  induction l with
  | nil => rfl
  | cons a as ih =>
    rw [List.findSome?_cons, List.any_cons]
    cases h : c a <;> simp [ih]

theorem find_flatMap_const {α β γ : Type} (f : α → List β) (p : β → Bool) (g : β → γ)
    (c : α → Bool) (v : γ) (l : List α)
    (h : ∀ a ∈ l, ((f a).find? p).map g = if c a then some v else none) :
    ((l.flatMap f).find? p).map g = if l.any c then some v else none := by
  rw [find_flatMap_map f p g _ l h, findSome_const]

theorem find_filter_key (g : Text → Bool) (op : BinOp) (l r : Text) (xs : List OpImpl) :
    (xs.filter (fun i => g i.lhs && g i.rhs)).find? (key op l r) =
      if g l && g r then xs.find? (key op l r) else none := by
  induction xs with
  | nil => simp
  | cons a as ih =>
    rw [List.filter_cons]
    by_cases hk : key op l r a = true
    · have hk' := hk
      simp only [key, Bool.and_eq_true, beq_iff_eq] at hk'
      obtain ⟨⟨_, h2⟩, h3⟩ := hk'
      rw [h2, h3]
      cases hg : (g l && g r)
      · simp only [Bool.false_eq_true, if_false]; simpa [hg] using ih
      · simp [hk]
    · have hk' : key op l r a = false := by simpa using hk
      split
      · rw [List.find?_cons, hk', List.find?_cons, hk']; exact ih
      · rw [List.find?_cons, hk']; exact ih


/-! ### the three segments of the impl table -/

/-- result type of the primitive impls of the amount type -/
def amountOut : BinOp → Text
  | .eq | .lt => boolName
  | _ => amountName

theorem amount_seg (op : BinOp) (l r : Text) :
    (amountImpls.find? (key op l r)).map (·.out) =
      if l == amountName && r == amountName then some (amountOut op) else none := by
  by_cases hl : l = amountName
  · by_cases hr : r = amountName
    · subst hl; subst hr; cases op <;> decide
    · have : (amountName == r) = false := by simpa using Ne.symm hr
      simp [amountImpls, key, this, hr]
  · have : (amountName == l) = false := by simpa using Ne.symm hl
    simp [amountImpls, key, this, hl]

/-- closed form of the lookup among the impls every quantity type gets -/
def baseSpec (decls : List TyDecl) (op : BinOp) (l r : Text) : Option Text :=
  match op with
  | .add | .sub => if l == r && TypingSpec.isQty decls l then some l else none
  | .eq | .lt =>
    if l == r && decls.any (fun d => d.name == l && d.kind != .single) then some boolName else none
  | .mul =>
    if r == amountName && TypingSpec.isQty decls l then some l
    else if l == amountName && TypingSpec.isQty decls r then some r else none
  | .div =>
    if l == r && TypingSpec.isQty decls l then some amountName
    else if r == amountName && TypingSpec.isQty decls l then some l else none

/-- lookup among the base impls of ONE declaration -/
def base1 (d : TyDecl) (op : BinOp) (l r : Text) : Option Text :=
  match op with
  | .add | .sub => if d.name == l && d.name == r then some d.name else none
  | .eq | .lt => if d.kind != .single && d.name == l && d.name == r then some boolName else none
  | .mul =>
    if d.name == l && amountName == r then some d.name
    else if amountName == l && d.name == r then some d.name else none
  | .div =>
    if d.name == l && d.name == r then some amountName
    else if d.name == l && amountName == r then some d.name else none

theorem base1_eq (d : TyDecl) (op : BinOp) (l r : Text) :
    ((baseImpls d).find? (key op l r)).map (·.out) = base1 d op l r := by
  by_cases hk : d.kind = .single <;> cases h1 : (d.name == l) <;> cases h2 : (d.name == r) <;>
    cases h3 : (amountName == l) <;> cases h4 : (amountName == r) <;>
    cases op <;> simp [baseImpls, key, base1, hk, h1, h2, h3, h4]

theorem base_seg (decls : List TyDecl) (h : ∀ d ∈ decls, d.name ≠ amountName)
    (op : BinOp) (l r : Text) :
    ((decls.flatMap baseImpls).find? (key op l r)).map (·.out) = baseSpec decls op l r := by
  have hA : TypingSpec.isQty decls amountName = false := by
    simp only [TypingSpec.isQty, List.any_eq_false, beq_iff_eq]
    exact fun d hd => h d hd
  have seg : ∀ (c : TyDecl → Bool) (v : Text) (op : BinOp) (l r : Text),
      (∀ d ∈ decls, base1 d op l r = if c d then some v else none) →
      ((decls.flatMap baseImpls).find? (key op l r)).map (·.out) =
        if decls.any c then some v else none := fun c v op l r hc =>
    find_flatMap_const baseImpls _ _ c v decls (fun d hd => by rw [base1_eq, hc d hd])
  have never : ∀ (op : BinOp) (l r : Text), (∀ d ∈ decls, base1 d op l r = none) →
      ((decls.flatMap baseImpls).find? (key op l r)).map (·.out) = none := fun op l r hc => by
    rw [seg (fun _ => false) l op l r (fun d hd => by rw [hc d hd]; rfl)]
    simp
  have hne : ∀ d ∈ decls, (d.name == amountName) = false := fun d hd => by simpa using h d hd
  have hne' : ∀ d ∈ decls, (amountName == d.name) = false := fun d hd => by
    simpa using Ne.symm (h d hd)
  cases op
  case add =>
    by_cases hlr : l = r
    · subst hlr
      rw [seg (fun d => d.name == l) l]
      · simp [baseSpec, TypingSpec.isQty]
      · intro d _; simp only [base1, Bool.and_self]
        by_cases hd : d.name = l <;> simp [hd]
    · rw [never]
      · simp [baseSpec, hlr]
      · intro d _; simp only [base1]
        by_cases hd : d.name = l
        · subst hd; simp [hlr]
        · simp [hd]
  case sub =>
    by_cases hlr : l = r
    · subst hlr
      rw [seg (fun d => d.name == l) l]
      · simp [baseSpec, TypingSpec.isQty]
      · intro d _; simp only [base1, Bool.and_self]
        by_cases hd : d.name = l <;> simp [hd]
    · rw [never]
      · simp [baseSpec, hlr]
      · intro d _; simp only [base1]
        by_cases hd : d.name = l
        · subst hd; simp [hlr]
        · simp [hd]
  case eq =>
    by_cases hlr : l = r
    · subst hlr
      rw [seg (fun d => d.name == l && d.kind != .single) boolName]
      · simp [baseSpec]
      · intro d _; simp only [base1]
        by_cases hd : d.name = l <;> simp [hd]
    · rw [never]
      · simp [baseSpec, hlr]
      · intro d _; simp only [base1]
        by_cases hd : d.name = l
        · subst hd; simp [hlr]
        · simp [hd]
  case lt =>
    by_cases hlr : l = r
    · subst hlr
      rw [seg (fun d => d.name == l && d.kind != .single) boolName]
      · simp [baseSpec]
      · intro d _; simp only [base1]
        by_cases hd : d.name = l <;> simp [hd]
    · rw [never]
      · simp [baseSpec, hlr]
      · intro d _; simp only [base1]
        by_cases hd : d.name = l
        · subst hd; simp [hlr]
        · simp [hd]
  case mul =>
    by_cases hr : r = amountName
    · subst hr
      by_cases hl : l = amountName
      · subst hl
        rw [never]
        · simp [baseSpec, hA]
        · intro d hd; simp [base1, hne d hd]
      · rw [seg (fun d => d.name == l) l]
        · simp [baseSpec, TypingSpec.isQty, hl]
        · intro d _
          have : (amountName == l) = false := by simpa using Ne.symm hl
          simp only [base1, this, beq_self_eq_true, Bool.and_true, Bool.false_and]
          by_cases hd : d.name = l <;> simp [hd]
    · have hr' : (amountName == r) = false := by simpa using Ne.symm hr
      by_cases hl : l = amountName
      · subst hl
        rw [seg (fun d => d.name == r) r]
        · simp [baseSpec, TypingSpec.isQty, hr]
        · intro d _
          simp only [base1, hr', beq_self_eq_true, Bool.true_and, Bool.and_false]
          by_cases hd : d.name = r <;> simp [hd]
      · have hl' : (amountName == l) = false := by simpa using Ne.symm hl
        rw [never]
        · simp [baseSpec, hr, hl]
        · intro d _; simp [base1, hr', hl']
  case div =>
    by_cases hlr : l = r
    · subst hlr
      rw [seg (fun d => d.name == l) amountName]
      · simp only [baseSpec, TypingSpec.isQty, beq_self_eq_true, Bool.true_and]
        by_cases hq : (decls.any fun d => d.name == l) = true <;> simp [hq]
      · intro d _; simp only [base1, Bool.and_self]
        by_cases hd : d.name = l <;> simp [hd]
    · by_cases hr : r = amountName
      · subst hr
        rw [seg (fun d => d.name == l) l]
        · simp [baseSpec, TypingSpec.isQty, hlr]
        · intro d hd
          simp only [base1, hne d hd, beq_self_eq_true, Bool.and_true, Bool.and_false]
          by_cases hd : d.name = l <;> simp [hd]
      · have hr' : (amountName == r) = false := by simpa using Ne.symm hr
        rw [never]
        · simp [baseSpec, hr, hlr]
        · intro d _; simp only [base1, hr']
          by_cases hd : d.name = l
          · subst hd; simp [hlr]
          · simp [hd]

/-- the per-declaration function of `TypingSpec.alongDerivation` -/
def alongF (isMul : Bool) (l r : Text) (d : TyDecl) : Option Text :=
  match d.derived with
  | none => none
  | some dv =>
    let q := d.name
    let a := dv.lhs
    let b := dv.rhs
    if dv.isMul then
      if isMul then (if (l == a && r == b) || (l == b && r == a) then some q else none)
      else (if l == q && r == b then some a else if l == q && r == a then some b else none)
    else
      if isMul then (if (l == q && r == b) || (l == b && r == q) then some a else none)
      else (if l == a && r == b then some q else if l == a && r == q then some b else none)

theorem along_eq (decls : List TyDecl) (isMul : Bool) (l r : Text) :
    TypingSpec.alongDerivation decls isMul l r = decls.filterMap (alongF isMul l r) := rfl

def derF (op : BinOp) (l r : Text) (d : TyDecl) : Option Text :=
  match op with
  | .mul => alongF true l r d
  | .div => alongF false l r d
  | _ => none

set_option linter.unusedSimpArgs false in
theorem der1_eq (d : TyDecl) (op : BinOp) (l r : Text) :
    ((derivedImpls d).find? (key op l r)).map (·.out) = derF op l r d := by
  obtain ⟨q, k, dv⟩ := d
  cases dv with
  | none => cases op <;> simp [derivedImpls, implsOf, derF, alongF]
  | some dv =>
    obtain ⟨a, m, b⟩ := dv
    cases m
    · -- `q = a / b`
      by_cases hqb : q = b
      · subst hqb
        cases h1 : (l == a) <;> have h1' := (Bool.beq_comm (a := a) (b := l)).trans h1 <;>
        cases h2 : (l == q) <;> have h2' := (Bool.beq_comm (a := q) (b := l)).trans h2 <;>
        cases h4 : (r == q) <;> have h4' := (Bool.beq_comm (a := q) (b := r)).trans h4 <;>
        cases op <;>
        simp [derivedImpls, implsOf, implMulQties, implDivQties, derF, alongF, key,
          h1, h1', h2, h2', h4, h4']
      · cases h1 : (l == a) <;> have h1' := (Bool.beq_comm (a := a) (b := l)).trans h1 <;>
        cases h2 : (l == q) <;> have h2' := (Bool.beq_comm (a := q) (b := l)).trans h2 <;>
        cases h3 : (l == b) <;> have h3' := (Bool.beq_comm (a := b) (b := l)).trans h3 <;>
        cases h4 : (r == q) <;> have h4' := (Bool.beq_comm (a := q) (b := r)).trans h4 <;>
        cases h5 : (r == b) <;> have h5' := (Bool.beq_comm (a := b) (b := r)).trans h5 <;>
        cases op <;>
        simp [derivedImpls, implsOf, implMulQties, implDivQties, derF, alongF, key, hqb,
          h1, h1', h2, h2', h3, h3', h4, h4', h5, h5']
    · -- `q = a * b`
      by_cases hab : a = b
      · subst hab
        cases h1 : (l == a) <;> have h1' := (Bool.beq_comm (a := a) (b := l)).trans h1 <;>
        cases h2 : (l == q) <;> have h2' := (Bool.beq_comm (a := q) (b := l)).trans h2 <;>
        cases h3 : (r == a) <;> have h3' := (Bool.beq_comm (a := a) (b := r)).trans h3 <;>
        cases op <;>
        simp [derivedImpls, implsOf, implMulQties, implDivQties, derF, alongF, key,
          h1, h1', h2, h2', h3, h3']
      · cases h1 : (l == a) <;> have h1' := (Bool.beq_comm (a := a) (b := l)).trans h1 <;>
        cases h2 : (l == q) <;> have h2' := (Bool.beq_comm (a := q) (b := l)).trans h2 <;>
        cases h3 : (l == b) <;> have h3' := (Bool.beq_comm (a := b) (b := l)).trans h3 <;>
        cases h4 : (r == a) <;> have h4' := (Bool.beq_comm (a := a) (b := r)).trans h4 <;>
        cases h5 : (r == b) <;> have h5' := (Bool.beq_comm (a := b) (b := r)).trans h5 <;>
        cases op <;>
        simp [derivedImpls, implsOf, implMulQties, implDivQties, derF, alongF, key, hab,
          h1, h1', h2, h2', h3, h3', h4, h4', h5, h5']

theorem der_seg (decls : List TyDecl) (op : BinOp) (l r : Text) :
    (((decls.flatMap derivedImpls).filter
        (fun i => hasRefUnit decls i.lhs && hasRefUnit decls i.rhs)).find? (key op l r)).map (·.out) =
      if hasRefUnit decls l && hasRefUnit decls r then decls.findSome? (derF op l r) else none := by
  rw [find_filter_key (hasRefUnit decls)]
  split
  · exact find_flatMap_map derivedImpls _ _ _ decls (fun d _ => der1_eq d op l r)
  · rfl

theorem findSome_derF (decls : List TyDecl) (op : BinOp) (l r : Text) :
    decls.findSome? (derF op l r) =
      match op with
      | .mul => (TypingSpec.alongDerivation decls true l r).head?
      | .div => (TypingSpec.alongDerivation decls false l r).head?
      | _ => none := by
  cases op <;> simp only [along_eq, List.head?_filterMap]
  case mul => rfl
  case div => rfl
  all_goals exact List.findSome?_eq_none_iff.mpr (fun _ _ => rfl)

theorem typechecks_split (decls : List TyDecl) (h : ∀ d ∈ decls, d.name ≠ amountName)
    (op : BinOp) (l r : Text) :
    typechecks decls op l r =
      (if l == amountName && r == amountName then some (amountOut op) else none).or
        ((baseSpec decls op l r).or
          (if hasRefUnit decls l && hasRefUnit decls r then decls.findSome? (derF op l r) else none)) := by
  rw [← amount_seg, ← base_seg decls h, ← der_seg]
  unfold typechecks implTable
  rw [List.find?_append, List.find?_append, Option.map_or, Option.map_or, Option.or_assoc]
  rfl

theorem hasRef_isQty (decls : List TyDecl) (n : Text) (hn : n ≠ amountName)
    (h : hasRefUnit decls n = true) : TypingSpec.isQty decls n = true := by
  have hn' : (n == amountName) = false := by simpa using hn
  simp only [hasRefUnit, hn', Bool.false_or, List.any_eq_true, Bool.and_eq_true] at h
  obtain ⟨d, hd, h1, _⟩ := h
  exact List.any_eq_true.mpr ⟨d, hd, h1⟩

/-- The agreement needs only one part of `DeclsOk`: no declared type is called `AmountT`
(neither distinctness of names nor `≠ bool` is used). -/
theorem typechecks_eq_spec_of_names (decls : List TyDecl)
    (hname : ∀ d ∈ decls, d.name ≠ amountName) (op : BinOp) (l r : Text) :
    typechecks decls op l r = TypingSpec.result decls op l r := by
  have hA : TypingSpec.isQty decls amountName = false := by
    simp only [TypingSpec.isQty, List.any_eq_false, beq_iff_eq]
    exact fun d hd => hname d hd
  have hRA : hasRefUnit decls amountName = true := by simp [hasRefUnit]
  have hcq : ∀ n, decls.any (fun d => d.name == n && d.kind != .single) = true →
      TypingSpec.isQty decls n = true := fun n hn => by
    obtain ⟨d, hd, h1⟩ := List.any_eq_true.mp hn
    exact List.any_eq_true.mpr ⟨d, hd, (Bool.and_eq_true _ _ ▸ h1).1⟩
  rw [typechecks_split decls hname, findSome_derF]
  unfold TypingSpec.result
  simp only [baseSpec, amountOut, TypingSpec.isType, TypingSpec.comparable]
  by_cases hl : l = amountName
  · subst hl
    by_cases hr : r = amountName
    · subst hr
      cases op <;> simp [hA, hRA]
    · have hr' : ¬ amountName = r := Ne.symm hr
      have e2 := hasRef_isQty decls r hr
      have e3 := hcq r
      clear hname hcq
      by_cases q2 : TypingSpec.isQty decls r = true <;>
      by_cases r2 : hasRefUnit decls r = true <;>
      cases op <;> simp_all
  · have hl' : ¬ amountName = l := Ne.symm hl
    have e1 := hasRef_isQty decls l hl
    have e3 := hcq l
    by_cases hr : r = amountName
    · subst hr
      clear hname hcq
      by_cases q1 : TypingSpec.isQty decls l = true <;>
      by_cases r1 : hasRefUnit decls l = true <;>
      cases op <;> simp_all
    · have hr' : ¬ amountName = r := Ne.symm hr
      by_cases hlr : l = r
      · subst hlr
        clear hname hcq
        by_cases q1 : TypingSpec.isQty decls l = true <;>
        by_cases r1 : hasRefUnit decls l = true <;>
        by_cases c1 : (decls.any fun d => d.name == l && d.kind != .single) = true <;>
        cases op <;> simp_all
      · have e2 := hasRef_isQty decls r hr
        clear hname hcq
        by_cases q1 : TypingSpec.isQty decls l = true <;>
        by_cases r1 : hasRefUnit decls l = true <;>
        by_cases q2 : TypingSpec.isQty decls r = true <;>
        by_cases r2 : hasRefUnit decls r = true <;>
        cases op <;> simp_all

/-- For every well-formed declaration list, every operator and every pair of type names, the
type checker's verdict (first matching generated impl) is the specification's result. -/
theorem typechecks_eq_spec (decls : List TyDecl) (h : DeclsOk decls) (op : BinOp) (l r : Text) :
    typechecks decls op l r = TypingSpec.result decls op l r :=
  typechecks_eq_spec_of_names decls (fun d hd => (h.2 d hd).1) op l r

end Qty.C06
