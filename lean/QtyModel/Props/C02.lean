import QtyModel.Lemmas.Conv
/-
  C02 — Cross-unit comparison is physically correct and order-independent.

  Property theorems only.  They describe the code AFTER the repair
  "fix: make cross-unit == and partial_cmp independent of operand order"
  (values in different units are compared in the unit with the smaller scale).
  For the code before the repair `cmp_symm` is false: see
  `cmp_symm_fails_for_old_code` below (a concrete witness, evaluated by the kernel).
-/
namespace Qty.C02
open Qty

variable {A U : Type} [DecidableEq U] (R : Arith A) (T : QT A U)

/-! ### equal units: the amount type's own comparison -/

theorem pcmp_same_unit (a b : Q A U) (h : a.unit = b.unit) :
    hrPcmp R T a b = .ok (R.pcmp a.amount b.amount) := by
  simp [hrPcmp, h]

theorem eq_same_unit (a b : Q A U) (h : a.unit = b.unit) :
    hrEq R T a b = .ok (R.beq a.amount b.amount) := by
  unfold hrEq
  split <;> simp [equivAmount, h, bind, Except.bind, pure, Except.pure]

/-! ### `partial_cmp` reports `Equal` exactly when `==` holds (all values, NaN included) -/

theorem eq_iff_pcmp_eq {M : ErrModel} (L : Laws R M) (a b : Q A U) (e : Bool) (p : Option Ordering)
    (he : hrEq R T a b = .ok e) (hp : hrPcmp R T a b = .ok p) : e = (p == some .eq) := by
  by_cases hu : a.unit = b.unit
  · rw [eq_same_unit R T a b hu] at he
    rw [pcmp_same_unit R T a b hu] at hp
    cases he; cases hp
    exact L.beq_pcmp _ _
  · unfold hrEq at he
    unfold hrPcmp at hp
    simp only [hu, if_false] at hp
    by_cases hl : R.le (T.scale a.unit) (T.scale b.unit) = true
    · simp only [hl, if_true] at he hp
      cases hq : equivAmount R T b a.unit with
      | error x => simp [hq, bind, Except.bind] at he
      | ok v =>
        simp [hq, bind, Except.bind, pure, Except.pure] at he hp
        rw [← he, ← hp]; exact L.beq_pcmp _ _
    · simp only [hl] at he hp
      cases hq : equivAmount R T a b.unit with
      | error x => simp [hq, bind, Except.bind] at he
      | ok v =>
        simp [hq, bind, Except.bind, pure, Except.pure] at he hp
        rw [← he, ← hp]; exact L.beq_pcmp _ _

/-! ### the six operators are derived from `eq`/`partial_cmp` as Rust derives them -/

theorem operators_derived (e : Bool) (p : Option Ordering) :
    (Oracle.CmpObs.ofPcmp e p).lt = (p == some .lt) ∧
    (Oracle.CmpObs.ofPcmp e p).gt = (p == some .gt) ∧
    (Oracle.CmpObs.ofPcmp e p).le = (p == some .lt || p == some .eq) ∧
    (Oracle.CmpObs.ofPcmp e p).ge = (p == some .gt || p == some .eq) ∧
    (Oracle.CmpObs.ofPcmp e p).ne = !e := ⟨rfl, rfl, rfl, rfl, rfl⟩

/-! ### helper facts about three-way comparison of rationals -/

theorem ratCmp_flip (x y : Rat) : Oracle.flipOrd (some (ratCmp x y)) = some (ratCmp y x) := by
  unfold ratCmp
  rcases lt_trichotomy x y with h | h | h
  · simp [h, not_lt.mpr (le_of_lt h), ne_of_gt h, Oracle.flipOrd]
  · subst h; simp [Oracle.flipOrd]
  · simp [h, not_lt.mpr (le_of_lt h), ne_of_gt h, Oracle.flipOrd]

theorem le_total_of_val {M : ErrModel} (L : Laws R M) (c d : A) (x y : Rat)
    (hc : R.val c = some x) (hd : R.val d = some y) :
    (R.le c d = true ↔ x ≤ y) := by
  unfold Arith.le
  rw [L.pcmp_val c d x y hc hd]
  unfold ratCmp
  by_cases h1 : x < y
  · simp only [h1, if_true]; exact ⟨fun _ => le_of_lt h1, fun _ => by decide⟩
  · by_cases h2 : x = y
    · subst h2; simp only [lt_irrefl, if_false, if_true]; exact ⟨fun _ => le_refl _, fun _ => by decide⟩
    · simp only [h1, h2, if_false]
      constructor
      · intro h; exact absurd h (by decide)
      · intro h; exact absurd (lt_of_le_of_ne h h2) h1

/-! ### answers do not depend on operand order -/

/-- `a == b` exactly when `b == a`, and `partial_cmp` is reversed when the operands are
swapped (hence `a < b` exactly when `b > a`), for all finite amounts and all units. -/
theorem cmp_symm {M : ErrModel} (L : Laws R M) (a b : Q A U) (sa sb x y : Rat)
    (hsa : R.val (T.scale a.unit) = some sa) (hsb : R.val (T.scale b.unit) = some sb)
    (hsa0 : sa ≠ 0) (hx : R.val a.amount = some x) (hy : R.val b.amount = some y) :
    hrPcmp R T b a = (hrPcmp R T a b).map Oracle.flipOrd ∧ hrEq R T b a = hrEq R T a b := by
  by_cases hu : a.unit = b.unit
  · have hu' : b.unit = a.unit := hu.symm
    rw [pcmp_same_unit R T a b hu, pcmp_same_unit R T b a hu', eq_same_unit R T a b hu,
      eq_same_unit R T b a hu']
    refine ⟨by rw [L.pcmp_flip a.amount b.amount]; rfl, ?_⟩
    rw [L.beq_pcmp, L.beq_pcmp, L.pcmp_flip a.amount b.amount]
    cases R.pcmp a.amount b.amount with
    | none => rfl
    | some o => cases o <;> rfl
  · have hu' : ¬ b.unit = a.unit := fun h => hu h.symm
    have hab := le_total_of_val R L _ _ sa sb hsa hsb
    have hba := le_total_of_val R L _ _ sb sa hsb hsa
    unfold hrPcmp hrEq
    simp only [hu, hu', if_false]
    rcases lt_trichotomy sa sb with h | h | h
    · -- a's unit is strictly smaller: both orders compare a.amount with b converted
      have h1 : R.le (T.scale a.unit) (T.scale b.unit) = true := hab.mpr (le_of_lt h)
      have h2 : ¬ R.le (T.scale b.unit) (T.scale a.unit) = true := fun hh => not_le.mpr h (hba.mp hh)
      simp only [h1, h2, ↓reduceIte, Bool.false_eq_true]
      cases hq : equivAmount R T b a.unit with
      | error e => simp [bind, Except.bind, Except.map]
      | ok v =>
        simp only [bind, Except.bind, pure, Except.pure, Except.map]
        refine ⟨by rw [L.pcmp_flip], ?_⟩
        rw [L.beq_pcmp, L.beq_pcmp, L.pcmp_flip a.amount v]
        cases R.pcmp a.amount v with
        | none => rfl
        | some o => cases o <;> rfl
    · -- equal scales, different units: both conversions are exact
      subst h
      have h1 : R.le (T.scale a.unit) (T.scale b.unit) = true := hab.mpr (le_refl _)
      have h2 : R.le (T.scale b.unit) (T.scale a.unit) = true := hba.mpr (le_refl _)
      simp only [h1, h2, if_true]
      obtain ⟨c1, hd1, hc1⟩ := L.div_self_val _ _ sa hsb hsa hsa0
      obtain ⟨c2, hd2, hc2⟩ := L.div_self_val _ _ sa hsa hsb hsa0
      obtain ⟨d1, hm1, hd1v⟩ := L.one_mul_val c1 b.amount y hc1 hy
      obtain ⟨d2, hm2, hd2v⟩ := L.one_mul_val c2 a.amount x hc2 hx
      have e1 : equivAmount R T b a.unit = .ok d1 := by
        simp [equivAmount, hu', ratio, hd1, hm1, bind, Except.bind]
      have e2 : equivAmount R T a b.unit = .ok d2 := by
        simp [equivAmount, hu, ratio, hd2, hm2, bind, Except.bind]
      simp only [e1, e2, bind, Except.bind, pure, Except.pure, Except.map]
      rw [L.pcmp_val _ _ y x hy hd2v, L.pcmp_val _ _ x y hx hd1v, ratCmp_flip]
      refine ⟨rfl, ?_⟩
      rw [L.beq_val _ _ y x hy hd2v, L.beq_val _ _ x y hx hd1v]
      simp [eq_comm]
    · -- b's unit is strictly smaller
      have h1 : ¬ R.le (T.scale a.unit) (T.scale b.unit) = true := fun hh => not_le.mpr h (hab.mp hh)
      have h2 : R.le (T.scale b.unit) (T.scale a.unit) = true := hba.mpr (le_of_lt h)
      simp only [h1, h2, ↓reduceIte, Bool.false_eq_true]
      cases hq : equivAmount R T a b.unit with
      | error e => simp [bind, Except.bind, Except.map]
      | ok v =>
        simp only [bind, Except.bind, pure, Except.pure, Except.map]
        refine ⟨by rw [L.pcmp_flip v b.amount], ?_⟩
        rw [L.beq_pcmp, L.beq_pcmp, L.pcmp_flip v b.amount]
        cases R.pcmp v b.amount with
        | none => rfl
        | some o => cases o <;> rfl

/-! ### agreement with the exact order of the physical magnitudes -/

theorem ratCmp_of_close (p q q' : Rat) (m : Rat) (hq : |q' - q| ≤ m) (hgap : m < |p - q|) :
    ratCmp p q' = ratCmp p q := by
  unfold ratCmp
  rcases lt_trichotomy p q with h | h | h
  · have : p < q' := by
      rw [abs_of_neg (by linarith : p - q < 0)] at hgap
      have := (abs_le.mp hq).1; linarith
    simp [h, this]
  · subst h; simp at hgap; have := abs_nonneg (q' - p); linarith
  · have : q' < p := by
      rw [abs_of_pos (by linarith : 0 < p - q)] at hgap
      have := (abs_le.mp hq).2; linarith
    simp [not_lt.mpr (le_of_lt h), ne_of_gt h, not_lt.mpr (le_of_lt this), ne_of_gt this]

theorem ratCmp_scale (p q s : Rat) (hs : 0 < s) : ratCmp (p * s) (q * s) = ratCmp p q := by
  unfold ratCmp
  simp [mul_lt_mul_iff_of_pos_right hs, mul_left_inj' (ne_of_gt hs)]

/-- Whenever the physical magnitudes `x·sₐ` and `y·s_b` differ by more than the rounding
error of one conversion (the larger of the two directions' bounds — the same margin the
run-time oracle uses), `partial_cmp` answers as their exact order and `==` is false. -/
theorem cmp_physical {M : ErrModel} (L : Laws R M) (a b : Q A U) (sa sb x y : Rat)
    (hu : a.unit ≠ b.unit)
    (hsa : R.val (T.scale a.unit) = some sa) (hsb : R.val (T.scale b.unit) = some sb)
    (hsa0 : 0 < sa) (hsb0 : 0 < sb)
    (hx : R.val a.amount = some x) (hy : R.val b.amount = some y)
    (hs1 : Oracle.convSafe M sb sa y = true) (hs2 : Oracle.convSafe M sa sb x = true)
    (hgap : max (Oracle.convBound M sb sa y) (Oracle.convBound M sa sb x) < |x * sa - y * sb|) :
    hrPcmp R T a b = .ok (some (ratCmp (x * sa) (y * sb))) ∧ hrEq R T a b = .ok false := by
  have hu' : b.unit ≠ a.unit := fun h => hu h.symm
  have hcmp_ne : ratCmp (x * sa) (y * sb) ≠ .eq := by
    unfold ratCmp
    intro h
    by_cases h1 : x * sa < y * sb
    · simp [h1] at h
    · by_cases h2 : x * sa = y * sb
      · rw [h2] at hgap; simp at hgap
        have := le_max_left (Oracle.convBound M sb sa y) (Oracle.convBound M sa sb x)
        have h0 : 0 ≤ Oracle.convBound M sb sa y := by
          unfold Oracle.convBound
          have := convBoundIn_nonneg L.wf sb sa y
          rw [ratAbs_eq_abs]; positivity
        linarith
      · simp [h1, h2] at h
  unfold hrPcmp hrEq
  simp only [hu, if_false]
  by_cases hl : R.le (T.scale a.unit) (T.scale b.unit) = true
  · simp only [hl, if_true]
    obtain ⟨c, y', heq, hy'v, hy'e, _⟩ :=
      equiv_ok R T L b a.unit sb sa y hu' hsb hsa (ne_of_gt hsa0) hy hs1
    simp only [heq, bind, Except.bind, pure, Except.pure]
    have hclose : |y' * sa - y * sb| ≤ Oracle.convBound M sb sa y := by
      unfold Oracle.convBound
      rw [ratAbs_eq_abs]
      have key : y' * sa - y * sb = sa * (y' - sb / sa * y) := by field_simp
      rw [key, abs_mul]
      exact mul_le_mul_of_nonneg_left hy'e (abs_nonneg sa)
    have hc : ratCmp x y' = ratCmp (x * sa) (y * sb) := by
      rw [← ratCmp_scale x y' sa hsa0]
      exact ratCmp_of_close _ _ _ _ hclose (lt_of_le_of_lt (le_max_left _ _) hgap)
    have hp : R.pcmp a.amount c = some (ratCmp (x * sa) (y * sb)) := by
      rw [L.pcmp_val _ _ x y' hx hy'v, hc]
    refine ⟨by rw [hp], ?_⟩
    rw [L.beq_pcmp, hp]
    cases h : ratCmp (x * sa) (y * sb) <;> simp_all
  · simp only [hl, ↓reduceIte, Bool.false_eq_true]
    obtain ⟨c, x', heq, hx'v, hx'e, _⟩ :=
      equiv_ok R T L a b.unit sa sb x hu hsa hsb (ne_of_gt hsb0) hx hs2
    simp only [heq, bind, Except.bind, pure, Except.pure]
    have hclose : |x' * sb - x * sa| ≤ Oracle.convBound M sa sb x := by
      unfold Oracle.convBound
      rw [ratAbs_eq_abs]
      have key : x' * sb - x * sa = sb * (x' - sa / sb * x) := by field_simp
      rw [key, abs_mul]
      exact mul_le_mul_of_nonneg_left hx'e (abs_nonneg sb)
    have hgap' : max (Oracle.convBound M sb sa y) (Oracle.convBound M sa sb x) < |y * sb - x * sa| := by
      rw [abs_sub_comm]; exact hgap
    have hc : ratCmp y x' = ratCmp (y * sb) (x * sa) := by
      rw [← ratCmp_scale y x' sb hsb0]
      exact ratCmp_of_close _ _ _ _ hclose (lt_of_le_of_lt (le_max_right _ _) hgap')
    have hflip : ratCmp x' y = ratCmp (x * sa) (y * sb) := by
      have h1 := ratCmp_flip y x'
      have h2 := ratCmp_flip (y * sb) (x * sa)
      rw [hc] at h1
      rw [h2] at h1
      exact (Option.some.inj h1).symm
    have hp : R.pcmp c b.amount = some (ratCmp (x * sa) (y * sb)) := by
      rw [L.pcmp_val _ _ x' y hx'v hy, hflip]
    refine ⟨by rw [hp], ?_⟩
    rw [L.beq_pcmp, hp]
    cases h : ratCmp (x * sa) (y * sb) <;> simp_all

/-! ### the defect of the code before the repair, as a kernel-checked witness -/

/-- `HasRefUnit::eq` as it was before the repair: always converts `other` into `self`'s unit. -/
def oldEq (a b : Q A U) : Res Bool := do
  return R.beq a.amount (← equivAmount R T b a.unit)

/-- decimal back-end, units with scales 1 (second) and 60 (minute):
`1 min == 60 s` was false while `60 s == 1 min` was true. -/
theorem cmp_symm_fails_for_old_code :
    let T : QT Dec Nat := { units := [0, 1], scale := fun u => if u = 0 then ⟨10, 1⟩ else ⟨60, 0⟩,
                            hasPrefix := fun _ => false, ref := 0 }
    oldEq Dec.arith T ⟨⟨1, 0⟩, 1⟩ ⟨⟨60, 0⟩, 0⟩ = .ok false ∧
    oldEq Dec.arith T ⟨⟨60, 0⟩, 0⟩ ⟨⟨1, 0⟩, 1⟩ = .ok true ∧
    hrEq Dec.arith T ⟨⟨1, 0⟩, 1⟩ ⟨⟨60, 0⟩, 0⟩ = .ok true ∧
    hrEq Dec.arith T ⟨⟨60, 0⟩, 0⟩ ⟨⟨1, 0⟩, 1⟩ = .ok true := by
  decide +kernel

/-- non-vacuity of `cmp_physical`: 2 ft vs 25 in (decimal) are further apart than the margin -/
example : Oracle.convSafe ErrModel.dec (254 / 10000) (3048 / 10000) 25 = true ∧
    max (Oracle.convBound ErrModel.dec (254 / 10000) (3048 / 10000) 25)
        (Oracle.convBound ErrModel.dec (3048 / 10000) (254 / 10000) 2)
      < |(2 : Rat) * (3048 / 10000) - 25 * (254 / 10000)| := by
  constructor
  · decide +kernel
  · norm_num [Oracle.convBound, Oracle.convBoundIn, ErrModel.dec, ErrModel.eta18, ratAbs, pow10]

end Qty.C02
