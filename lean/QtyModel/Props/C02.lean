import QtyModel.Tables
namespace Qty.C02
end Qty.C02
