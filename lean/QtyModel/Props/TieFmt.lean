import QtyModel.Fmt
import QtyModel.Generated.FmtAlgos
/-
  Tie between code and model for the TEXT OUTPUT code.

  `Generated/FmtAlgos.lean` is re-emitted from `Unit::fmt`, `Quantity::fmt` (src/lib.rs) and
  `impl Display for Rate` (src/rate.rs) on every run (tools/translate_fmt.py).  The theorems below
  state that the re-emitted functions ARE the hand-written `padStr`, `qtyFmt`, `rateFmt` which the
  C15 theorems are about.  `F` is whatever the amount type provides (its own `Display`, `>=`, `==`,
  `abs`, unary minus); nothing is assumed about it.
-/
namespace Qty.AlgoTie
open Qty Qty.Fmt Qty.Gen.FmtAlgos

/-- `Unit::fmt` hands the symbol to the string formatting of `core::fmt` -/
theorem unit_fmt_eq (sp : Spec) (symbol : Text) : Unit.fmt sp symbol = padStr sp symbol := rfl

/-- with the default format specification a string is written as it is -/
theorem padStr_default (s : Text) : padStr {} s = s := rfl

/-- the sign `Quantity::fmt` writes -/
def signOf (nonneg plus : Bool) : Text := if (!nonneg) then [45] else (if plus then [43] else [])

/-- the sign strings are ASCII: their byte length (`str::len`) is their length in characters -/
theorem utf8Len_sign (nonneg plus : Bool) : utf8Len (signOf nonneg plus) = (signOf nonneg plus).length := by
  cases nonneg <;> cases plus <;> rfl

/-- the padding part of the re-emitted `Quantity::fmt`, with the sign and the text
`<amount> <symbol>` abstracted -/
def padShape (sp : Spec) (sign body : Text) : Text :=
  let len := (body.length + utf8Len sign)
  let pad := (match sp.width with | some width => if decide (width > len) then (width - len) else 0 | none => 0)
  if sp.zero then
    sign ++ rep pad 48 ++ body
  else
    let (pre, post) := (match sp.align with | some .left => (0, pad) | some .center => ((pad / 2), (((pad + 1)) / 2)) | _ => (pad, 0))
    let fill := (sp.fill.getD 32)
    rep pre fill ++ sign ++ body ++ rep post fill

/-- that padding IS `padNumeric` (`pad_integral` with the width counted in characters) -/
theorem padShape_eq (sp : Spec) (nonneg : Bool) (body : Text) :
    padShape sp (signOf nonneg sp.plus) body = padNumeric sp nonneg body := by
  unfold padShape padNumeric
  rw [utf8Len_sign]
  rcases sp with ⟨fill, align, plus, zero, width, prec⟩
  simp only [signOf]
  cases width with
  | none =>
    cases zero
    · rcases align with _ | (_ | _ | _) <;> simp [rep]
    · simp [rep]
  | some w =>
    by_cases h : w ≤ body.length + (if (!nonneg) = true then ([45] : Text) else if plus = true then [43] else []).length
    · have h' : ¬ (w > body.length + (if (!nonneg) = true then ([45] : Text) else if plus = true then [43] else []).length) := by omega
      simp only [h, h', decide_false, if_true, Bool.false_eq_true, if_false]
      cases zero
      · rcases align with _ | (_ | _ | _) <;> simp [rep]
      · simp [rep]
    · have h' : (w > body.length + (if (!nonneg) = true then ([45] : Text) else if plus = true then [43] else []).length) := by omega
      simp only [h, h', decide_true, if_true, if_false]
      cases zero
      · rcases align with _ | (_ | _ | _) <;> simp
      · simp

/-- the amount that `Quantity::fmt` displays: `.abs()` under the decimal back-end, the amount or its
negation otherwise -/
def absShown {A : Type} (F : AmtFmt A) (amount : A) : A :=
  if F.isDec then F.abs amount else (if F.ge amount F.zero then amount else F.neg amount)

/-- `Quantity::fmt` of a unit-less value is the amount's own `Display` under the same specification -/
theorem quantity_fmt_unitless {A : Type} (F : AmtFmt A) (sp : Spec) (amount : A) :
    Quantity.fmt F sp amount [] = F.disp sp amount := rfl

/-- the re-emitted body, for a unit with a symbol, is the padding shape around `<abs amount> <symbol>` -/
theorem quantity_fmt_shape {A : Type} (F : AmtFmt A) (sp : Spec) (amount : A) (symbol : Text)
    (hs : symbol ≠ []) :
    Quantity.fmt F sp amount symbol =
      padShape sp (signOf (F.ge amount F.zero) sp.plus)
        (F.disp { prec := sp.prec } (absShown F amount) ++ [32] ++ symbol) := by
  have he : symbol.isEmpty = false := by
    cases symbol with
    | nil => exact absurd rfl hs
    | cons _ _ => rfl
  unfold Quantity.fmt
  simp only [he, Bool.false_eq_true, if_false]
  rcases sp with ⟨fill, align, plus, zero, width, prec⟩
  cases prec <;> rfl

/-- `Quantity::fmt` for a unit with a symbol: the absolute amount (under the requested precision, or
plain), one space, the symbol; sign, `+` flag, fill, alignment, width and sign-aware zero padding
applied to the whole with the width counted in characters — i.e. `qtyFmt` -/
theorem quantity_fmt_eq {A : Type} (F : AmtFmt A) (sp : Spec) (amount : A) (symbol : Text)
    (hs : symbol ≠ []) :
    Quantity.fmt F sp amount symbol =
      qtyFmt sp (F.ge amount F.zero) (F.disp { prec := sp.prec } (absShown F amount)) symbol := by
  rw [quantity_fmt_shape F sp amount symbol hs, padShape_eq]
  rfl

/-- `Display for Rate`: `term / per`; the per-multiple is left out when it equals one, a symbol is
left out when it is empty -/
theorem rate_fmt_eq {A : Type} (F : AmtFmt A) (sp : Spec) (ta : A) (ts : Text) (pm : A) (ps : Text) :
    Rate.fmt F sp ta ts pm ps =
      rateFmt (F.disp {} ta) ts (F.disp {} pm) ps (F.beq pm F.one) := by
  unfold Rate.fmt rateFmt
  simp only [padStr_default]
  cases hts : ts.isEmpty <;> cases hps : ps.isEmpty <;> cases hb : F.beq pm F.one <;>
    simp [List.append_assoc]

end Qty.AlgoTie
