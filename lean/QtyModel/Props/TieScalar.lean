import QtyModel.Ops
import QtyModel.Rate
import QtyModel.Generated.Algos
/-
  Tie between code and model for the ALGORITHMS (`k * q`, `q * k`, `q / k` of `codegen_impl_std_traits`, `Unit::as_qty`).

  `Generated/Algos.lean` is re-emitted from the Rust source on every run
  (tools/translate_algos.py).  Every theorem below states that the re-emitted definition IS the
  hand-written definition which the property theorems are about.  If a change of the code
  changes what one of these functions computes, its theorem no longer checks.
-/
namespace Qty.AlgoTie
open Qty Qty.Gen.Algos

set_option linter.unusedSectionVars false
variable {A U V W : Type} [DecidableEq U] [DecidableEq V] [DecidableEq W]
variable (R : Arith A) (T : QT A U)

theorem amnt_mul_qty_eq (k : A) (q : Q A U) : Scalar.amnt_mul_qty R T k q = smul R k q := rfl

theorem qty_mul_amnt_eq (q : Q A U) (k : A) : Scalar.qty_mul_amnt R T q k = muls R q k := rfl

theorem qty_div_amnt_eq (q : Q A U) (k : A) : Scalar.qty_div_amnt R T q k = sdiv R q k := rfl

theorem as_qty_eq (u : U) : Gen.Algos.Unit.as_qty R u = (⟨R.one, u⟩ : Q A U) := rfl

end Qty.AlgoTie
