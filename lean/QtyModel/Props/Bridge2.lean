import QtyModel.Props.Bridge
import QtyModel.Props.C02
import QtyModel.Props.C03
import QtyModel.Props.C04
import QtyModel.Props.C05
/-
  Bridge2 — continuation of `Props/Bridge`: END-TO-END statements of the run-time theorems of
  C02 … C05 for tables the macro generates (`expand it = .ok d`, `d.kind = .withRef`,
  `RTable.ofDef R d = some T`).

   1. the reference unit comes first among the units of scale one.
      `insertBy_split`, `units_ref_split`: the reference unit is declared first, hence inserted
      LAST by the insertion sort, in front of the first unit whose key is not below `1.0`; so
      every unit iterated before it has a key STRICTLY below `1.0`.  Neither stability nor
      transitivity of `keyLe` is needed (so nothing has to be relativised to non-NaN keys).
      `ref_position`, `ref_eq_position`, `ref_position_unique`;
      `ref_first_among_scale_one` (exact literal values, any back-end; `RefIdentUnique d`, NOT
      `KeysFaithful d`), `ref_first_among_scale_one_of_ref_one` (weakest hypothesis: the literal of
      `REF_UNIT` has value one), `ref_first_among_scale_one_dec`,
      `ref_first_among_scale_one_f64` (+ `_f64_cmp`, comparison form without finiteness);
      `dmul_ref_units_generated_dec` / `ddiv_…` / `…_f64` (three generated tables) and the primed
      versions (operands: any tables whose reference unit has scale one, e.g. `AmountT`).
      No arithmetic-range hypothesis is left, in either back-end (`unitFromScale_one_f64`,
      `dmul_ref_units_f64`, `ddiv_ref_units_f64` do not need finite scales).
      Witness `ref_units_needs_unique_ident`: `RefIdentUnique` of the result cannot be dropped.
   2. `dmul_mag_generated_dec`, `ddiv_mag_generated_dec`, `cmp_physical_generated_dec`,
      `addsub_mag_generated_dec`, `div_ratio_generated_dec` (scales = exact literal values
      `litVal`, hypothesis `LitsPositive`), and the same five `…_f64` (scales `f64Sc`,
      hypothesis `LitsNormalF64`).
   3. `catalogue_dmul_ref_units_dec` / `catalogue_ddiv_ref_units_dec` / `…_f64`: for every
      definition of the catalogue declared as `L * R` (`L / R`), operands resolved by name as
      `Main.buildWorld` does, all four generated operators map reference units to the reference
      unit (`catalogue_derived_ok_dec/_f64` by kernel evaluation; `product_ref_units`,
      `quotient_ref_units` for any list of definitions passing the decidable check `derivedOk`).
-/
set_option linter.unusedSectionVars false
set_option linter.unusedVariables false
namespace Qty.Bridge
open Qty Qty.MacroFront Qty.C09

/-! ### 1. the reference unit comes first among the units of scale one -/

/-- where `insertBy` puts the new element: in front of the first element it is `≤` to.  No
totality, transitivity or sortedness is needed for this. -/
theorem insertBy_split {α : Type} (le : α → α → Bool) (a : α) (l : List α) :
    ∃ pre post, l = pre ++ post ∧ insertBy le a l = pre ++ a :: post ∧
      ∀ x ∈ pre, le a x = false := by
  induction l with
  | nil => exact ⟨[], [], rfl, rfl, by simp⟩
  | cons b l ih =>
    unfold insertBy
    split
    · exact ⟨[], b :: l, rfl, rfl, by simp⟩
    · next hab =>
      obtain ⟨pre, post, h1, h2, h3⟩ := ih
      refine ⟨b :: pre, post, by rw [h1]; rfl, by rw [h2]; rfl, ?_⟩
      intro x hx
      rcases List.mem_cons.mp hx with rfl | hx
      · simpa using hab
      · exact h3 x hx

/-- the reference unit is declared FIRST (`insert(0, ref_unit_def)`), so the stable sort inserts
it LAST: every unit iterated before it has a sort key strictly below the key `1.0` -/
theorem units_ref_split (it : RawItem) (d : QtyDef) (h : expand it = .ok d) (r : Text)
    (hr : d.refIdent = some r) :
    ∃ rd pre post, rd.ident = r ∧ rd.scale = some litOne ∧ d.units = pre ++ rd :: post ∧
      ∀ u ∈ pre, keyLe rd u = false := by
  obtain ⟨rd, us, hri, hrs, -, hu⟩ := expand_withRef it d h r hr
  obtain ⟨pre, post, -, h2, h3⟩ := insertBy_split keyLe rd (isort keyLe us)
  exact ⟨rd, pre, post, hri, hrs, by rw [hu]; exact h2, h3⟩

theorem keyLe_self (u : UnitDef) (hu : HasScale u) : keyLe u u = true := by
  rcases keyLe_total u u hu hu with h | h <;> exact h

theorem range_split (n k : Nat) (hk : k < n) :
    List.range n = List.range k ++ k :: (List.range n).drop (k + 1) := by
  have h1 : List.range n = (List.range n).take k ++ (List.range n).drop k :=
    (List.take_append_drop k _).symm
  have h2 : (List.range n).take k = List.range k := by
    rw [List.take_range]; congr 1; omega
  have h3 : (List.range n).drop k = k :: (List.range n).drop (k + 1) := by
    rw [List.drop_eq_getElem_cons (by simpa using hk)]
    simp
  rw [h2, h3] at h1
  exact h1

section refFirst
variable {A : Type} (R : Arith A)
variable (it : RawItem) (d : QtyDef) (h : expand it = .ok d) (hk : d.kind = .withRef)
variable (T : RTable A) (hT : RTable.ofDef R d = some T)
include h hk hT

/-- the position `k` of the declared reference unit: it carries the literal `1.0`, every unit
before it has a strictly smaller sort key, and `REF_UNIT` (the first variant named like the
reference unit) is at or before `k` -/
theorem ref_position :
    ∃ k, ∃ hk' : k < d.units.length, d.units[k].scale = some litOne ∧
      (∀ j (hj : j < k), keyLe d.units[k] (d.units[j]'(Nat.lt_trans hj hk')) = false) ∧
      (T.qt R).ref ≤ k ∧ ∃ hr : (T.qt R).ref < d.units.length,
        d.units[(T.qt R).ref].ident = d.units[k].ident ∧
        d.refIdent = some d.units[k].ident := by
  obtain ⟨r, i, hr, hix, hi, hid, hlt⟩ := ofDef_refIx R it d h hk T hT
  obtain ⟨rd, pre, post, hri, hrs, hu, hpre⟩ := units_ref_split it d h r hr
  have hlen : pre.length < d.units.length := by rw [hu]; simp
  have hget : d.units[pre.length] = rd := by simp [hu]
  have href : (T.qt R).ref = i := by simp [RTable.qt, hix]
  refine ⟨pre.length, hlen, by rw [hget]; exact hrs, ?_, ?_, ?_⟩
  · intro j hj
    rw [hget]
    apply hpre
    have : d.units[j]'(Nat.lt_trans hj hlen) = pre[j] := by
      simp [hu, List.getElem_append_left hj]
    rw [this]
    exact List.getElem_mem hj
  · rw [href]
    by_contra hc
    have hc' : pre.length < i := by omega
    exact hlt pre.length hc' (by rw [hget]; exact hri)
  · rw [href]
    exact ⟨hi, by rw [hget, hid, hri], by rw [hget, hri]; exact hr⟩

/-- `REF_UNIT` IS the declared reference unit as soon as its sort key is not below `1.0` -/
theorem ref_eq_position (k : Nat) (hk' : k < d.units.length)
    (hpre : ∀ j (hj : j < k), keyLe d.units[k] (d.units[j]'(Nat.lt_trans hj hk')) = false)
    (hle : (T.qt R).ref ≤ k) (hr : (T.qt R).ref < d.units.length)
    (hkey : keyLe d.units[k] d.units[(T.qt R).ref] = true) : (T.qt R).ref = k := by
  by_contra hc
  have hlt : (T.qt R).ref < k := by omega
  have := hpre _ hlt
  rw [this] at hkey
  cases hkey

/-- with `RefIdentUnique` it is -/
theorem ref_position_unique (huniq : RefIdentUnique d) :
    ∃ hr : (T.qt R).ref < d.units.length, d.units[(T.qt R).ref].scale = some litOne ∧
      ∀ j (hj : j < (T.qt R).ref),
        keyLe d.units[(T.qt R).ref] (d.units[j]'(Nat.lt_trans hj hr)) = false := by
  obtain ⟨k, hk', hsc, hpre, hle, hr, hid, hri⟩ := ref_position R it d h hk T hT
  have heq : d.units[k] = d.units[(T.qt R).ref] :=
    huniq _ (List.getElem_mem hk') _ (List.getElem_mem hr) hri hid
  have hs : HasScale d.units[k] := by unfold HasScale; rw [hsc]; rfl
  have hkey : keyLe d.units[k] d.units[(T.qt R).ref] = true := by
    rw [← heq]; exact keyLe_self _ hs
  have := ref_eq_position R it d h hk T hT k hk' hpre hle hr hkey
  subst this
  exact ⟨hk', hsc, hpre⟩

omit h hk hT
end refFirst

/-! #### exact literal values (any back-end; used for the decimal one) -/

theorem litVal_eq (d : QtyDef) (u : Nat) (hu : u < d.units.length) (l : Lit)
    (hl : d.units[u].scale = some l) : litVal d u = l.value := by
  unfold litVal
  rw [List.getElem?_eq_getElem hu]
  simp only [hl]

/-- a literal of exact value one has the sort key `1.0` (`round 1 = 1.0`) -/
theorem keyLe_of_lit_one (rd u : UnitDef) (l : Lit) (hrs : rd.scale = some litOne)
    (hl : u.scale = some l) (h1 : l.value = 1) : keyLe rd u = true := by
  have hk : sortKey u = sortKey rd := by
    unfold sortKey; rw [hrs, hl]; simp only; rw [h1, litOne_value]
  have hs : HasScale rd := by unfold HasScale; rw [hrs]; rfl
  have := keyLe_self rd hs
  rw [keyLe_eq] at this ⊢
  rw [hk]; exact this

/-- a unit whose sort key is strictly below the key of a unit with literal `1.0` does not have
the exact scale one -/
theorem lit_ne_one_of_not_keyLe (rd u : UnitDef) (l : Lit) (hrs : rd.scale = some litOne)
    (hl : u.scale = some l) (hlt : keyLe rd u = false) : l.value ≠ 1 := by
  intro h1
  rw [keyLe_of_lit_one rd u l hrs hl h1] at hlt
  cases hlt

section refFirstLit
variable {A : Type} (R : Arith A)
variable (it : RawItem) (d : QtyDef) (h : expand it = .ok d) (hk : d.kind = .withRef)
variable (T : RTable A) (hT : RTable.ofDef R d = some T)
include h hk hT

/-- **1. `ref_first_among_scale_one`** (exact literal values, any back-end) — in the form
`C05.dmul_ref_units` / `ddiv_ref_units` / `unitFromScale_one` need it: the units of the generated
table are `pre ++ REF_UNIT :: post`, the scale literal of `REF_UNIT` has the exact value one and
no unit of `pre` has.  Needs `RefIdentUnique d` (otherwise `REF_UNIT` need not be the declared
reference unit, see `Bridge.ref_scale_one_needs_unique_ident`); does NOT need `KeysFaithful d`:
a unit iterated before the reference unit has an `f64` key strictly below `1.0`, and the key of
a literal of exact value one is `1.0`. -/
theorem ref_first_among_scale_one (huniq : RefIdentUnique d) :
    ∃ pre post, (T.qt R).units = pre ++ (T.qt R).ref :: post ∧
      litVal d (T.qt R).ref = 1 ∧ ∀ u ∈ pre, litVal d u ≠ 1 := by
  obtain ⟨hr, hsc, hpre⟩ := ref_position_unique R it d h hk T hT huniq
  refine ⟨List.range (T.qt R).ref, (List.range d.units.length).drop ((T.qt R).ref + 1), ?_, ?_, ?_⟩
  · rw [ofDef_qt_units R d T hk hT]
    exact range_split _ _ hr
  · rw [litVal_eq d _ hr litOne hsc, litOne_value]
  · intro u hu
    have hu' : u < (T.qt R).ref := List.mem_range.mp hu
    have hul : u < d.units.length := Nat.lt_trans hu' hr
    obtain ⟨l, hl, -⟩ := ofDef_scale R d T hk hT u hul
    rw [litVal_eq d u hul l hl]
    exact lit_ne_one_of_not_keyLe _ _ l hsc hl (hpre u hu')

/-- the same under the weakest hypothesis: all `RefIdentUnique` is used for is that the scale
literal of `REF_UNIT` has the value one.  If it has, `REF_UNIT` is the declared reference unit
(any other variant of that name and of exact scale one is iterated after it) and comes first
among the units of scale one. -/
theorem ref_first_among_scale_one_of_ref_one (hone : litVal d (T.qt R).ref = 1) :
    ∃ pre post, (T.qt R).units = pre ++ (T.qt R).ref :: post ∧
      litVal d (T.qt R).ref = 1 ∧ ∀ u ∈ pre, litVal d u ≠ 1 := by
  obtain ⟨k, hk', hsc, hpre, hle, hr, hid, hri⟩ := ref_position R it d h hk T hT
  obtain ⟨l, hl, -⟩ := ofDef_scale R d T hk hT _ hr
  rw [litVal_eq d _ hr l hl] at hone
  have hkey := keyLe_of_lit_one _ _ l hsc hl hone
  have hrk := ref_eq_position R it d h hk T hT k hk' hpre hle hr hkey
  refine ⟨List.range (T.qt R).ref, (List.range d.units.length).drop ((T.qt R).ref + 1), ?_, ?_, ?_⟩
  · rw [ofDef_qt_units R d T hk hT]
    exact range_split _ _ hr
  · rw [litVal_eq d _ hr l hl]; exact hone
  · intro u hu
    have hu' : u < (T.qt R).ref := List.mem_range.mp hu
    have hul : u < d.units.length := Nat.lt_trans hu' hr
    obtain ⟨l', hl', -⟩ := ofDef_scale R d T hk hT u hul
    rw [litVal_eq d u hul l' hl']
    have hu'' : u < k := by omega
    exact lit_ne_one_of_not_keyLe _ _ l' hsc hl' (hpre u hu'')

omit h hk hT
end refFirstLit

/-! #### decimal back-end -/

section refUnitsDec
variable {U V : Type} [DecidableEq U] [DecidableEq V]
variable (it : RawItem) (d : QtyDef) (h : expand it = .ok d) (hk : d.kind = .withRef)
variable (T : RTable Dec) (hT : RTable.ofDef Dec.arith d = some T)
include h hk hT

/-- **1.** the decimal instance: `sc = litVal d` are the exact values of the run-time scales
(`dec_scale_litVal`) -/
theorem ref_first_among_scale_one_dec (huniq : RefIdentUnique d) :
    (∀ u ∈ (T.qt Dec.arith).units,
      Dec.arith.val ((T.qt Dec.arith).scale u) = some (litVal d u)) ∧
    ∃ pre post, (T.qt Dec.arith).units = pre ++ (T.qt Dec.arith).ref :: post ∧
      litVal d (T.qt Dec.arith).ref = 1 ∧ ∀ u ∈ pre, litVal d u ≠ 1 := by
  refine ⟨?_, ref_first_among_scale_one Dec.arith it d h hk T hT huniq⟩
  intro u hu
  rw [ofDef_qt_units Dec.arith d T hk hT] at hu
  exact dec_scale_litVal d hk T hT u (List.mem_range.mp hu)

/-- **1.** operands given in reference units (of ANY two tables whose reference units have scale
one, e.g. the dimensionless `AmountT`) multiply to a result in `REF_UNIT` of a generated decimal
table — no hypothesis on the result table is left except `RefIdentUnique` -/
theorem dmul_ref_units_generated_dec' (huniq : RefIdentUnique d)
    (TL : QT Dec U) (TR : QT Dec V)
    (hsl : Dec.arith.val (TL.scale TL.ref) = some 1) (hsr : Dec.arith.val (TR.scale TR.ref) = some 1)
    (l : Q Dec U) (r : Q Dec V) (hl : l.unit = TL.ref) (hr : r.unit = TR.ref)
    (res : Q Dec Nat) (hres : dmul Dec.arith TL TR (T.qt Dec.arith) l r = .ok res) :
    res.unit = (T.qt Dec.arith).ref := by
  obtain ⟨hsc, pre, post, hunits, href, hpre⟩ :=
    ref_first_among_scale_one_dec it d h hk T hT huniq
  exact C05.dmul_ref_units Dec.arith Dec.laws TL TR (T.qt Dec.arith) l r hl hr hsl hsr
    (litVal d) hsc pre post hunits href hpre res hres

theorem ddiv_ref_units_generated_dec' (huniq : RefIdentUnique d)
    (TL : QT Dec U) (TR : QT Dec V)
    (hsl : Dec.arith.val (TL.scale TL.ref) = some 1) (hsr : Dec.arith.val (TR.scale TR.ref) = some 1)
    (l : Q Dec U) (r : Q Dec V) (hl : l.unit = TL.ref) (hr : r.unit = TR.ref)
    (res : Q Dec Nat) (hres : ddiv Dec.arith TL TR (T.qt Dec.arith) l r = .ok res) :
    res.unit = (T.qt Dec.arith).ref := by
  obtain ⟨hsc, pre, post, hunits, href, hpre⟩ :=
    ref_first_among_scale_one_dec it d h hk T hT huniq
  exact C05.ddiv_ref_units Dec.arith Dec.laws TL TR (T.qt Dec.arith) l r hl hr hsl hsr
    (litVal d) hsc pre post hunits href hpre res hres

omit h hk hT
end refUnitsDec

/-- **1. `dmul_ref_units_generated_dec`** — three generated decimal tables (left operand, right
operand, result): reference unit times reference unit is expressed in the reference unit.  No
arithmetic hypothesis at all is left (if the product of the amounts overflows there is no `res`). -/
theorem dmul_ref_units_generated_dec
    (itL : RawItem) (dL : QtyDef) (hL : expand itL = .ok dL) (hkL : dL.kind = .withRef)
    (TL : RTable Dec) (hTL : RTable.ofDef Dec.arith dL = some TL) (huL : RefIdentUnique dL)
    (itR : RawItem) (dR : QtyDef) (hR : expand itR = .ok dR) (hkR : dR.kind = .withRef)
    (TR : RTable Dec) (hTR : RTable.ofDef Dec.arith dR = some TR) (huR : RefIdentUnique dR)
    (itO : RawItem) (dO : QtyDef) (hO : expand itO = .ok dO) (hkO : dO.kind = .withRef)
    (TO : RTable Dec) (hTO : RTable.ofDef Dec.arith dO = some TO) (huO : RefIdentUnique dO)
    (l r : Q Dec Nat) (hl : l.unit = (TL.qt Dec.arith).ref) (hr : r.unit = (TR.qt Dec.arith).ref)
    (res : Q Dec Nat)
    (hres : dmul Dec.arith (TL.qt Dec.arith) (TR.qt Dec.arith) (TO.qt Dec.arith) l r = .ok res) :
    res.unit = (TO.qt Dec.arith).ref :=
  dmul_ref_units_generated_dec' itO dO hO hkO TO hTO huO _ _
    (dec_ref_scale_one itL dL hL hkL TL hTL huL) (dec_ref_scale_one itR dR hR hkR TR hTR huR)
    l r hl hr res hres

/-- **1. `ddiv_ref_units_generated_dec`** -/
theorem ddiv_ref_units_generated_dec
    (itL : RawItem) (dL : QtyDef) (hL : expand itL = .ok dL) (hkL : dL.kind = .withRef)
    (TL : RTable Dec) (hTL : RTable.ofDef Dec.arith dL = some TL) (huL : RefIdentUnique dL)
    (itR : RawItem) (dR : QtyDef) (hR : expand itR = .ok dR) (hkR : dR.kind = .withRef)
    (TR : RTable Dec) (hTR : RTable.ofDef Dec.arith dR = some TR) (huR : RefIdentUnique dR)
    (itO : RawItem) (dO : QtyDef) (hO : expand itO = .ok dO) (hkO : dO.kind = .withRef)
    (TO : RTable Dec) (hTO : RTable.ofDef Dec.arith dO = some TO) (huO : RefIdentUnique dO)
    (l r : Q Dec Nat) (hl : l.unit = (TL.qt Dec.arith).ref) (hr : r.unit = (TR.qt Dec.arith).ref)
    (res : Q Dec Nat)
    (hres : ddiv Dec.arith (TL.qt Dec.arith) (TR.qt Dec.arith) (TO.qt Dec.arith) l r = .ok res) :
    res.unit = (TO.qt Dec.arith).ref :=
  ddiv_ref_units_generated_dec' itO dO hO hkO TO hTO huO _ _
    (dec_ref_scale_one itL dL hL hkL TL hTL huL) (dec_ref_scale_one itR dR hR hkR TR hTR huR)
    l r hl hr res hres

/-! #### binary back-end -/

section refUnitsF64gen
variable {U V W : Type} [DecidableEq U] [DecidableEq V] [DecidableEq W]

/-- `unit_from_scale` of an amount of exact value one in the binary back-end: it finds the
reference unit when every unit listed before it has a scale that compares strictly below the
scale (of value one) of the reference unit.  Unlike `C05.unitFromScale_one` nothing is assumed
about the finiteness of the scales (overflowing literals give `inf`, which is not `== 1.0`). -/
theorem unitFromScale_one_f64 (TO : QT F64 W) (pre post : List W)
    (hunits : TO.units = pre ++ TO.ref :: post)
    (href : F64.val (TO.scale TO.ref) = some 1)
    (hpre : ∀ u ∈ pre, f64Le (TO.scale TO.ref) (TO.scale u) = false)
    (s : F64) (hs : F64.val s = some 1) : unitFromScale F64.arith TO s = some TO.ref := by
  unfold unitFromScale
  have hrefb : F64.arith.beq (TO.scale TO.ref) s = true := by
    rw [F64.laws.beq_val _ _ 1 1 href hs]; simp
  have hnone : pre.find? (fun u => F64.arith.beq (TO.scale u) s) = none := by
    rw [List.find?_eq_none]
    intro u hu
    have hlt := hpre u hu
    obtain ⟨s0, m0, e0, h0, -, -, -, hx0⟩ := F64.val_some href
    obtain ⟨s1, m1, e1, h1, -, -, -, hx1⟩ := F64.val_some hs
    rw [h0] at hlt
    show ¬ (F64.beq (TO.scale u) s = true)
    rw [h1]
    cases hsu : TO.scale u with
    | nan => rw [hsu] at hlt; simp [f64Le, F64.pcmp] at hlt
    | inf t => cases t <;> simp [F64.beq, F64.pcmp]
    | fin t n f =>
      rw [hsu] at hlt
      have h2 : ¬ (F64.tr s0 m0 e0 ≤ F64.tr t n f) := by
        rw [← f64Le_fin]; simp [hlt]
      rw [← hx0] at h2
      unfold F64.beq
      rw [F64.pcmp_fin, F64.ratCmp_eq_iff, ← hx1]
      have : ¬ (F64.tr t n f = 1) := fun hc => h2 (by rw [hc])
      simp [this]
  have : (pre ++ TO.ref :: post).find? (fun u => F64.arith.beq (TO.scale u) s) = some TO.ref := by
    rw [List.find?_append, hnone, List.find?_cons]
    simp [hrefb]
  rw [← hunits] at this
  exact this

/-- `C05.dmul_ref_units` for the binary back-end without the finiteness of the scales -/
theorem dmul_ref_units_f64 (TL : QT F64 U) (TR : QT F64 V) (TO : QT F64 W)
    (l : Q F64 U) (r : Q F64 V) (hl : l.unit = TL.ref) (hr : r.unit = TR.ref)
    (hsl : F64.arith.val (TL.scale TL.ref) = some 1) (hsr : F64.arith.val (TR.scale TR.ref) = some 1)
    (pre post : List W) (hunits : TO.units = pre ++ TO.ref :: post)
    (href : F64.val (TO.scale TO.ref) = some 1)
    (hpre : ∀ u ∈ pre, f64Le (TO.scale TO.ref) (TO.scale u) = false)
    (res : Q F64 W) (h : dmul F64.arith TL TR TO l r = .ok res) : res.unit = TO.ref := by
  obtain ⟨s, hs, hsv⟩ := F64.laws.one_mul_val _ _ 1 hsl hsr
  rw [← hl, ← hr] at hs
  have hf := unitFromScale_one_f64 TO pre post hunits href hpre s hsv
  rw [C05.dmul_natural F64.arith TL TR TO l r s hs TO.ref hf] at h
  cases hp : F64.arith.mul l.amount r.amount with
  | error e => rw [hp] at h; cases h
  | ok p => rw [hp] at h; cases h; rfl

theorem ddiv_ref_units_f64 (TL : QT F64 U) (TR : QT F64 V) (TO : QT F64 W)
    (l : Q F64 U) (r : Q F64 V) (hl : l.unit = TL.ref) (hr : r.unit = TR.ref)
    (hsl : F64.arith.val (TL.scale TL.ref) = some 1) (hsr : F64.arith.val (TR.scale TR.ref) = some 1)
    (pre post : List W) (hunits : TO.units = pre ++ TO.ref :: post)
    (href : F64.val (TO.scale TO.ref) = some 1)
    (hpre : ∀ u ∈ pre, f64Le (TO.scale TO.ref) (TO.scale u) = false)
    (res : Q F64 W) (h : ddiv F64.arith TL TR TO l r = .ok res) : res.unit = TO.ref := by
  obtain ⟨s, hs, hsv⟩ := F64.laws.div_self_val _ _ 1 hsl hsr one_ne_zero
  rw [← hl, ← hr] at hs
  have hf := unitFromScale_one_f64 TO pre post hunits href hpre s hsv
  rw [C05.ddiv_natural F64.arith TL TR TO l r s hs TO.ref hf] at h
  cases hp : F64.arith.div l.amount r.amount with
  | error e => rw [hp] at h; cases h
  | ok p => rw [hp] at h; cases h; rfl

end refUnitsF64gen

section refUnitsF64
variable {U V : Type} [DecidableEq U] [DecidableEq V]
variable (it : RawItem) (d : QtyDef) (h : expand it = .ok d) (hk : d.kind = .withRef)
variable (T : RTable F64) (hT : RTable.ofDef F64.arith d = some T)
include h hk hT

/-- **1.** comparison form for the binary back-end: the scale of `REF_UNIT` is exactly `1.0` and
every unit iterated before it has a scale that the amount type compares strictly BELOW it
(`partial_cmp` from `REF_UNIT`'s scale is `Greater`) — no finiteness hypothesis -/
theorem ref_first_among_scale_one_f64_cmp (huniq : RefIdentUnique d) :
    ∃ pre post, (T.qt F64.arith).units = pre ++ (T.qt F64.arith).ref :: post ∧
      F64.val ((T.qt F64.arith).scale (T.qt F64.arith).ref) = some 1 ∧
      ∀ u ∈ pre, f64Le ((T.qt F64.arith).scale (T.qt F64.arith).ref) ((T.qt F64.arith).scale u)
        = false := by
  obtain ⟨hr, hsc, hpre⟩ := ref_position_unique F64.arith it d h hk T hT huniq
  refine ⟨List.range (T.qt F64.arith).ref,
    (List.range d.units.length).drop ((T.qt F64.arith).ref + 1), ?_,
    f64_ref_scale_one it d h hk T hT huniq, ?_⟩
  · rw [ofDef_qt_units F64.arith d T hk hT]
    exact range_split _ _ hr
  · intro u hu
    have hu' : u < (T.qt F64.arith).ref := List.mem_range.mp hu
    have hul : u < d.units.length := Nat.lt_trans hu' hr
    show f64Le (T.scaleOf F64.arith _) (T.scaleOf F64.arith u) = false
    rw [f64Le_scale_eq_keyLe d hk T hT _ u hr hul]
    exact hpre u hu'

/-- **1. `ref_first_among_scale_one_f64`** — the form `C05.dmul_ref_units` needs, with the `f64`
scale values `sc u = f64Val (scale u)` (`0` for an infinite scale): `REF_UNIT` has value one, no
unit before it has.  To feed `C05.dmul_ref_units` one also needs `hsc` (all scales finite, e.g.
from `LitsSafeF64 d` through `f64_scales_finite_of_safe`); `dmul_ref_units_generated_f64` below
avoids that. -/
theorem ref_first_among_scale_one_f64 (huniq : RefIdentUnique d) :
    ∃ pre post, (T.qt F64.arith).units = pre ++ (T.qt F64.arith).ref :: post ∧
      f64Val (T.scaleOf F64.arith (T.qt F64.arith).ref) = 1 ∧
      ∀ u ∈ pre, f64Val (T.scaleOf F64.arith u) ≠ 1 := by
  obtain ⟨pre, post, hunits, href, hpre⟩ :=
    ref_first_among_scale_one_f64_cmp it d h hk T hT huniq
  refine ⟨pre, post, hunits, ?_, ?_⟩
  · unfold f64Val
    rw [show F64.val (T.scaleOf F64.arith (T.qt F64.arith).ref) = some 1 from href]; rfl
  · intro u hu
    have hlt := hpre u hu
    unfold f64Val
    cases hv : F64.val (T.scaleOf F64.arith u) with
    | none => simp
    | some z =>
      intro hz
      simp only [Option.getD_some] at hz
      subst hz
      have := (f64Le_val _ _ 1 1 href hv).mpr (le_refl _)
      rw [show (T.qt F64.arith).scale u = T.scaleOf F64.arith u from rfl, this] at hlt
      cases hlt

/-- **1.** operands given in reference units (of any two tables whose reference units have scale
one) multiply to a result in `REF_UNIT` of a generated binary table; NO arithmetic-range
hypothesis is left (scales may be infinite, the product of the amounts may be anything) -/
theorem dmul_ref_units_generated_f64' (huniq : RefIdentUnique d)
    (TL : QT F64 U) (TR : QT F64 V)
    (hsl : F64.arith.val (TL.scale TL.ref) = some 1) (hsr : F64.arith.val (TR.scale TR.ref) = some 1)
    (l : Q F64 U) (r : Q F64 V) (hl : l.unit = TL.ref) (hr : r.unit = TR.ref)
    (res : Q F64 Nat) (hres : dmul F64.arith TL TR (T.qt F64.arith) l r = .ok res) :
    res.unit = (T.qt F64.arith).ref := by
  obtain ⟨pre, post, hunits, href, hpre⟩ :=
    ref_first_among_scale_one_f64_cmp it d h hk T hT huniq
  exact dmul_ref_units_f64 TL TR (T.qt F64.arith) l r hl hr hsl hsr pre post hunits href hpre
    res hres

theorem ddiv_ref_units_generated_f64' (huniq : RefIdentUnique d)
    (TL : QT F64 U) (TR : QT F64 V)
    (hsl : F64.arith.val (TL.scale TL.ref) = some 1) (hsr : F64.arith.val (TR.scale TR.ref) = some 1)
    (l : Q F64 U) (r : Q F64 V) (hl : l.unit = TL.ref) (hr : r.unit = TR.ref)
    (res : Q F64 Nat) (hres : ddiv F64.arith TL TR (T.qt F64.arith) l r = .ok res) :
    res.unit = (T.qt F64.arith).ref := by
  obtain ⟨pre, post, hunits, href, hpre⟩ :=
    ref_first_among_scale_one_f64_cmp it d h hk T hT huniq
  exact ddiv_ref_units_f64 TL TR (T.qt F64.arith) l r hl hr hsl hsr pre post hunits href hpre
    res hres

/-- the route through `C05.dmul_ref_units` itself, to show that `ref_first_among_scale_one_f64`
has the form that theorem needs: it costs the finiteness of the scales of the result table -/
theorem dmul_ref_units_generated_f64_of_fin (huniq : RefIdentUnique d)
    (hfin : ∀ u, u < T.n → (F64.arith.val (T.scaleOf F64.arith u)).isSome = true)
    (TL : QT F64 U) (TR : QT F64 V)
    (hsl : F64.arith.val (TL.scale TL.ref) = some 1) (hsr : F64.arith.val (TR.scale TR.ref) = some 1)
    (l : Q F64 U) (r : Q F64 V) (hl : l.unit = TL.ref) (hr : r.unit = TR.ref)
    (res : Q F64 Nat) (hres : dmul F64.arith TL TR (T.qt F64.arith) l r = .ok res) :
    res.unit = (T.qt F64.arith).ref := by
  obtain ⟨pre, post, hunits, href, hpre⟩ := ref_first_among_scale_one_f64 it d h hk T hT huniq
  refine C05.dmul_ref_units F64.arith F64.laws TL TR (T.qt F64.arith) l r hl hr hsl hsr
    (fun u => f64Val (T.scaleOf F64.arith u)) ?_ pre post hunits href hpre res hres
  intro u hu
  have : u < T.n := by simpa [RTable.qt] using hu
  exact f64Val_spec _ (hfin u this)

omit h hk hT
end refUnitsF64

/-- **1. `dmul_ref_units_generated_f64`** — three generated binary tables: reference unit times
reference unit is expressed in the reference unit; no arithmetic-range hypothesis is left -/
theorem dmul_ref_units_generated_f64
    (itL : RawItem) (dL : QtyDef) (hL : expand itL = .ok dL) (hkL : dL.kind = .withRef)
    (TL : RTable F64) (hTL : RTable.ofDef F64.arith dL = some TL) (huL : RefIdentUnique dL)
    (itR : RawItem) (dR : QtyDef) (hR : expand itR = .ok dR) (hkR : dR.kind = .withRef)
    (TR : RTable F64) (hTR : RTable.ofDef F64.arith dR = some TR) (huR : RefIdentUnique dR)
    (itO : RawItem) (dO : QtyDef) (hO : expand itO = .ok dO) (hkO : dO.kind = .withRef)
    (TO : RTable F64) (hTO : RTable.ofDef F64.arith dO = some TO) (huO : RefIdentUnique dO)
    (l r : Q F64 Nat) (hl : l.unit = (TL.qt F64.arith).ref) (hr : r.unit = (TR.qt F64.arith).ref)
    (res : Q F64 Nat)
    (hres : dmul F64.arith (TL.qt F64.arith) (TR.qt F64.arith) (TO.qt F64.arith) l r = .ok res) :
    res.unit = (TO.qt F64.arith).ref :=
  dmul_ref_units_generated_f64' itO dO hO hkO TO hTO huO _ _
    (f64_ref_scale_one itL dL hL hkL TL hTL huL) (f64_ref_scale_one itR dR hR hkR TR hTR huR)
    l r hl hr res hres

/-- **1. `ddiv_ref_units_generated_f64`** -/
theorem ddiv_ref_units_generated_f64
    (itL : RawItem) (dL : QtyDef) (hL : expand itL = .ok dL) (hkL : dL.kind = .withRef)
    (TL : RTable F64) (hTL : RTable.ofDef F64.arith dL = some TL) (huL : RefIdentUnique dL)
    (itR : RawItem) (dR : QtyDef) (hR : expand itR = .ok dR) (hkR : dR.kind = .withRef)
    (TR : RTable F64) (hTR : RTable.ofDef F64.arith dR = some TR) (huR : RefIdentUnique dR)
    (itO : RawItem) (dO : QtyDef) (hO : expand itO = .ok dO) (hkO : dO.kind = .withRef)
    (TO : RTable F64) (hTO : RTable.ofDef F64.arith dO = some TO) (huO : RefIdentUnique dO)
    (l r : Q F64 Nat) (hl : l.unit = (TL.qt F64.arith).ref) (hr : r.unit = (TR.qt F64.arith).ref)
    (res : Q F64 Nat)
    (hres : ddiv F64.arith (TL.qt F64.arith) (TR.qt F64.arith) (TO.qt F64.arith) l r = .ok res) :
    res.unit = (TO.qt F64.arith).ref :=
  ddiv_ref_units_generated_f64' itO dO hO hkO TO hTO huO _ _
    (f64_ref_scale_one itL dL hL hkL TL hTL huL) (f64_ref_scale_one itR dR hR hkR TR hTR huR)
    l r hl hr res hres

/-! ### 2. magnitude theorems of C02, C03, C04 for generated decimal tables -/

section magDec

/-- the facts about one generated decimal table with positive literals that the magnitude
theorems consume: every unit `u < T.n` has the finite, positive scale `litVal d u` -/
theorem dec_scale_pos (d : QtyDef) (hk : d.kind = .withRef)
    (T : RTable Dec) (hT : RTable.ofDef Dec.arith d = some T) (hp : LitsPositive d = true)
    (u : Nat) (hu : u < T.n) :
    Dec.arith.val ((T.qt Dec.arith).scale u) = some (litVal d u) ∧ 0 < litVal d u := by
  rw [ofDef_n Dec.arith d T hk hT] at hu
  have hsu : HasScale d.units[u] := by
    obtain ⟨l, hl, -⟩ := ofDef_scale Dec.arith d T hk hT u hu
    unfold HasScale; rw [hl]; rfl
  exact ⟨dec_scale_litVal d hk T hT u hu, litVal_pos d hp u hu hsu⟩

theorem mem_qt_units {A : Type} (R : Arith A) (T : RTable A) (u : Nat) :
    u ∈ (T.qt R).units ↔ u < T.n := by
  simp [RTable.qt]

/-- **2. `dmul_mag_generated_dec`** — `C04.dmul_mag` for three generated decimal tables (operands
`dL`, `dR`, result `dO`; result with positive scale literals): the operator returns, the result
carries a unit of the result table, and its reference-unit magnitude is the exact product of the
operands' magnitudes up to `Oracle.derivedBound`.  What is left: the two units are units of their
tables, the values `a`, `b` of the two amounts, and the range condition `Oracle.derivedSafe`
(for every unit of the result table).  All scales are the exact literal values `litVal`. -/
theorem dmul_mag_generated_dec
    (dL : QtyDef) (hkL : dL.kind = .withRef) (TL : RTable Dec)
    (hTL : RTable.ofDef Dec.arith dL = some TL)
    (dR : QtyDef) (hkR : dR.kind = .withRef) (TR : RTable Dec)
    (hTR : RTable.ofDef Dec.arith dR = some TR)
    (itO : RawItem) (dO : QtyDef) (hO : expand itO = .ok dO) (hkO : dO.kind = .withRef)
    (TO : RTable Dec) (hTO : RTable.ofDef Dec.arith dO = some TO) (hpO : LitsPositive dO = true)
    (l r : Q Dec Nat) (hlu : l.unit < TL.n) (hru : r.unit < TR.n) (a b : Rat)
    (ha : Dec.arith.val l.amount = some a) (hb : Dec.arith.val r.amount = some b)
    (hsafe : ∀ u, u < TO.n → Oracle.derivedSafe ErrModel.dec (a * b)
      (litVal dL l.unit * litVal dR r.unit) (litVal dO u) = true) :
    ∃ res z, dmul Dec.arith (TL.qt Dec.arith) (TR.qt Dec.arith) (TO.qt Dec.arith) l r = .ok res ∧
      res.unit < TO.n ∧ Dec.arith.val res.amount = some z ∧
      ratAbs (z * litVal dO res.unit - (a * b) * (litVal dL l.unit * litVal dR r.unit)) ≤
        Oracle.derivedBound ErrModel.dec (a * b) (litVal dL l.unit * litVal dR r.unit)
          (litVal dO res.unit) := by
  rw [ofDef_n Dec.arith dL TL hkL hTL] at hlu
  rw [ofDef_n Dec.arith dR TR hkR hTR] at hru
  obtain ⟨res, z, h1, h2, h3, h4⟩ :=
    C04.dmul_mag Dec.arith Dec.laws (TL.qt Dec.arith) (TR.qt Dec.arith) (TO.qt Dec.arith)
      (ofDef_fitIdentity Dec.arith dO TO hkO hTO) (ofDef_ref_mem Dec.arith itO dO hO hkO TO hTO)
      l r a b (litVal dL l.unit) (litVal dR r.unit) ha hb
      (dec_scale_litVal dL hkL TL hTL l.unit hlu) (dec_scale_litVal dR hkR TR hTR r.unit hru)
      (litVal dO)
      (fun u hu => dec_scale_pos dO hkO TO hTO hpO u ((mem_qt_units _ _ u).mp hu))
      (fun u hu => hsafe u ((mem_qt_units _ _ u).mp hu))
  exact ⟨res, z, h1, (mem_qt_units _ _ _).mp h2, h3, h4⟩

/-- **2. `ddiv_mag_generated_dec`** — the same for the quotient; the divisor table needs positive
literals too (its scale must not be zero), the divisor amount must not be zero -/
theorem ddiv_mag_generated_dec
    (dL : QtyDef) (hkL : dL.kind = .withRef) (TL : RTable Dec)
    (hTL : RTable.ofDef Dec.arith dL = some TL)
    (dR : QtyDef) (hkR : dR.kind = .withRef) (TR : RTable Dec)
    (hTR : RTable.ofDef Dec.arith dR = some TR) (hpR : LitsPositive dR = true)
    (itO : RawItem) (dO : QtyDef) (hO : expand itO = .ok dO) (hkO : dO.kind = .withRef)
    (TO : RTable Dec) (hTO : RTable.ofDef Dec.arith dO = some TO) (hpO : LitsPositive dO = true)
    (l r : Q Dec Nat) (hlu : l.unit < TL.n) (hru : r.unit < TR.n) (a b : Rat)
    (ha : Dec.arith.val l.amount = some a) (hb : Dec.arith.val r.amount = some b) (hb0 : b ≠ 0)
    (hsafe : ∀ u, u < TO.n → Oracle.derivedSafe ErrModel.dec (a / b)
      (litVal dL l.unit / litVal dR r.unit) (litVal dO u) = true) :
    ∃ res z, ddiv Dec.arith (TL.qt Dec.arith) (TR.qt Dec.arith) (TO.qt Dec.arith) l r = .ok res ∧
      res.unit < TO.n ∧ Dec.arith.val res.amount = some z ∧
      ratAbs (z * litVal dO res.unit - (a / b) * (litVal dL l.unit / litVal dR r.unit)) ≤
        Oracle.derivedBound ErrModel.dec (a / b) (litVal dL l.unit / litVal dR r.unit)
          (litVal dO res.unit) := by
  have hsr := dec_scale_pos dR hkR TR hTR hpR r.unit hru
  rw [ofDef_n Dec.arith dL TL hkL hTL] at hlu
  obtain ⟨res, z, h1, h2, h3, h4⟩ :=
    C04.ddiv_mag Dec.arith Dec.laws (TL.qt Dec.arith) (TR.qt Dec.arith) (TO.qt Dec.arith)
      (ofDef_fitIdentity Dec.arith dO TO hkO hTO) (ofDef_ref_mem Dec.arith itO dO hO hkO TO hTO)
      l r a b (litVal dL l.unit) (litVal dR r.unit) ha hb hb0
      (dec_scale_litVal dL hkL TL hTL l.unit hlu) hsr.1 (ne_of_gt hsr.2)
      (litVal dO)
      (fun u hu => dec_scale_pos dO hkO TO hTO hpO u ((mem_qt_units _ _ u).mp hu))
      (fun u hu => hsafe u ((mem_qt_units _ _ u).mp hu))
  exact ⟨res, z, h1, (mem_qt_units _ _ _).mp h2, h3, h4⟩

variable (d : QtyDef) (hk : d.kind = .withRef)
variable (T : RTable Dec) (hT : RTable.ofDef Dec.arith d = some T) (hp : LitsPositive d = true)
include hk hT hp

/-- **2. `cmp_physical_generated_dec`** — `C02.cmp_physical` for one generated decimal table with
positive literals: values in different units whose physical magnitudes are further apart than
the rounding margin of one conversion compare as the exact magnitudes do.  Left: the values of
the amounts, the range conditions `Oracle.convSafe` and the gap. -/
theorem cmp_physical_generated_dec (a b : Q Dec Nat) (hau : a.unit < T.n) (hbu : b.unit < T.n)
    (hu : a.unit ≠ b.unit) (x y : Rat)
    (hx : Dec.arith.val a.amount = some x) (hy : Dec.arith.val b.amount = some y)
    (hs1 : Oracle.convSafe ErrModel.dec (litVal d b.unit) (litVal d a.unit) y = true)
    (hs2 : Oracle.convSafe ErrModel.dec (litVal d a.unit) (litVal d b.unit) x = true)
    (hgap : max (Oracle.convBound ErrModel.dec (litVal d b.unit) (litVal d a.unit) y)
        (Oracle.convBound ErrModel.dec (litVal d a.unit) (litVal d b.unit) x)
      < |x * litVal d a.unit - y * litVal d b.unit|) :
    hrPcmp Dec.arith (T.qt Dec.arith) a b
      = .ok (some (ratCmp (x * litVal d a.unit) (y * litVal d b.unit))) ∧
    hrEq Dec.arith (T.qt Dec.arith) a b = .ok false := by
  have h1 := dec_scale_pos d hk T hT hp a.unit hau
  have h2 := dec_scale_pos d hk T hT hp b.unit hbu
  exact C02.cmp_physical Dec.arith (T.qt Dec.arith) Dec.laws a b _ _ x y hu h1.1 h2.1 h1.2 h2.2
    hx hy hs1 hs2 hgap

/-- **2. `addsub_mag_generated_dec`** — `C03.addsub_mag` for one generated decimal table with
positive literals -/
theorem addsub_mag_generated_dec (isSub : Bool) (a b : Q Dec Nat) (hau : a.unit < T.n)
    (hbu : b.unit < T.n) (hne : b.unit ≠ a.unit) (x y : Rat)
    (hx : Dec.arith.val a.amount = some x) (hy : Dec.arith.val b.amount = some y)
    (hsafe : Oracle.convSafe ErrModel.dec (litVal d b.unit) (litVal d a.unit) y = true)
    (hsafe2 : ErrModel.dec.safe (ratAbs x + (ratAbs (litVal d b.unit / litVal d a.unit) * ratAbs y
        + Oracle.convBoundIn ErrModel.dec (litVal d b.unit) (litVal d a.unit) y)
      + ErrModel.dec.Ea (ratAbs x + (ratAbs (litVal d b.unit / litVal d a.unit) * ratAbs y
        + Oracle.convBoundIn ErrModel.dec (litVal d b.unit) (litVal d a.unit) y))) = true) :
    ∃ r z, (if isSub then hrSub Dec.arith (T.qt Dec.arith) a b
        else hrAdd Dec.arith (T.qt Dec.arith) a b) = .ok r ∧ r.unit = a.unit ∧
      Dec.arith.val r.amount = some z ∧
      ratAbs (z * litVal d a.unit - (if isSub then x * litVal d a.unit - y * litVal d b.unit
          else x * litVal d a.unit + y * litVal d b.unit)) ≤
        ratAbs (litVal d a.unit) *
          (ErrModel.dec.Ea (ratAbs x + (ratAbs (litVal d b.unit / litVal d a.unit) * ratAbs y
              + Oracle.convBoundIn ErrModel.dec (litVal d b.unit) (litVal d a.unit) y))
            + Oracle.convBoundIn ErrModel.dec (litVal d b.unit) (litVal d a.unit) y) := by
  have h1 := dec_scale_pos d hk T hT hp a.unit hau
  have h2 := dec_scale_pos d hk T hT hp b.unit hbu
  exact C03.addsub_mag Dec.arith (T.qt Dec.arith) Dec.laws isSub a b _ _ x y hne h1.1 h2.1
    (ne_of_gt h1.2) hx hy hsafe hsafe2

/-- **2. `div_ratio_generated_dec`** — `C03.div_ratio` for one generated decimal table with
positive literals -/
theorem div_ratio_generated_dec (a b : Q Dec Nat) (hau : a.unit < T.n)
    (hbu : b.unit < T.n) (hne : b.unit ≠ a.unit) (x y : Rat)
    (hx : Dec.arith.val a.amount = some x) (hy : Dec.arith.val b.amount = some y)
    (hsafe : Oracle.convSafe ErrModel.dec (litVal d b.unit) (litVal d a.unit) y = true)
    (hcb : Oracle.convBoundIn ErrModel.dec (litVal d b.unit) (litVal d a.unit) y
      < ratAbs (litVal d b.unit / litVal d a.unit * y))
    (hsafe2 : ErrModel.dec.safe (ratAbs x / (ratAbs (litVal d b.unit / litVal d a.unit * y)
        - Oracle.convBoundIn ErrModel.dec (litVal d b.unit) (litVal d a.unit) y)
      + ErrModel.dec.E (ratAbs x / (ratAbs (litVal d b.unit / litVal d a.unit * y)
        - Oracle.convBoundIn ErrModel.dec (litVal d b.unit) (litVal d a.unit) y))) = true) :
    ∃ c z, hrDiv Dec.arith (T.qt Dec.arith) a b = .ok c ∧ Dec.arith.val c = some z ∧
      ratAbs (z - x / (litVal d b.unit / litVal d a.unit * y)) ≤
        ratAbs x * Oracle.convBoundIn ErrModel.dec (litVal d b.unit) (litVal d a.unit) y /
            ((ratAbs (litVal d b.unit / litVal d a.unit * y)
                - Oracle.convBoundIn ErrModel.dec (litVal d b.unit) (litVal d a.unit) y)
              * ratAbs (litVal d b.unit / litVal d a.unit * y))
          + ErrModel.dec.E (ratAbs x / (ratAbs (litVal d b.unit / litVal d a.unit * y)
              - Oracle.convBoundIn ErrModel.dec (litVal d b.unit) (litVal d a.unit) y)) := by
  have h1 := dec_scale_pos d hk T hT hp a.unit hau
  have h2 := dec_scale_pos d hk T hT hp b.unit hbu
  exact C03.div_ratio Dec.arith (T.qt Dec.arith) Dec.laws a b _ _ x y hne h1.1 h2.1
    (ne_of_gt h1.2) hx hy hsafe hcb hsafe2

omit hk hT hp
end magDec

/-! #### the same for the binary back-end -/

section magF64

/-- exact value of the `f64` scale of unit `u` (`0` if it is not finite) -/
def f64Sc (T : RTable F64) (u : Nat) : Rat := f64Val (T.scaleOf F64.arith u)

/-- literals in `[2^-1073, 2^1023)` give finite positive scales -/
theorem f64_scale_pos (d : QtyDef) (hk : d.kind = .withRef)
    (T : RTable F64) (hT : RTable.ofDef F64.arith d = some T) (hp : LitsNormalF64 d = true)
    (u : Nat) (hu : u < T.n) :
    F64.arith.val ((T.qt F64.arith).scale u) = some (f64Sc T u) ∧ 0 < f64Sc T u := by
  rw [ofDef_n F64.arith d T hk hT] at hu
  obtain ⟨l, hl, he, -⟩ := f64_scale_eq d hk T hT u hu
  have := (List.all_eq_true.mp hp) d.units[u] (List.getElem_mem hu)
  rw [hl] at this
  simp only [Bool.and_eq_true, decide_eq_true_eq] at this
  obtain ⟨z, hz, hpos⟩ := f64_round_pos l.value (l.isFloat && l.neg) this.1 this.2
  rw [← he] at hz
  have e : f64Sc T u = z := by
    unfold f64Sc f64Val; rw [hz]; rfl
  rw [e]
  exact ⟨hz, hpos⟩

/-- **2. `dmul_mag_generated_f64`** — `C04.dmul_mag` for three generated binary tables (operands
`dL`, `dR`, result `dO`, all with scale literals in `[2^-1073, 2^1023)`): the operator returns,
the result carries a unit of the result table, and its reference-unit magnitude is the exact
product of the operands' magnitudes up to `Oracle.derivedBound`.  What is left: the two units are
units of their tables, the values `a`, `b` of the two amounts, and the range condition
`Oracle.derivedSafe` (for every unit of the result table).  All scales are the exact values
`f64Sc` of the rounded literals. -/
theorem dmul_mag_generated_f64
    (dL : QtyDef) (hkL : dL.kind = .withRef) (TL : RTable F64)
    (hTL : RTable.ofDef F64.arith dL = some TL) (hpL : LitsNormalF64 dL = true)
    (dR : QtyDef) (hkR : dR.kind = .withRef) (TR : RTable F64)
    (hTR : RTable.ofDef F64.arith dR = some TR) (hpR : LitsNormalF64 dR = true)
    (itO : RawItem) (dO : QtyDef) (hO : expand itO = .ok dO) (hkO : dO.kind = .withRef)
    (TO : RTable F64) (hTO : RTable.ofDef F64.arith dO = some TO) (hpO : LitsNormalF64 dO = true)
    (l r : Q F64 Nat) (hlu : l.unit < TL.n) (hru : r.unit < TR.n) (a b : Rat)
    (ha : F64.arith.val l.amount = some a) (hb : F64.arith.val r.amount = some b)
    (hsafe : ∀ u, u < TO.n → Oracle.derivedSafe ErrModel.f64 (a * b)
      (f64Sc TL l.unit * f64Sc TR r.unit) (f64Sc TO u) = true) :
    ∃ res z, dmul F64.arith (TL.qt F64.arith) (TR.qt F64.arith) (TO.qt F64.arith) l r = .ok res ∧
      res.unit < TO.n ∧ F64.arith.val res.amount = some z ∧
      ratAbs (z * f64Sc TO res.unit - (a * b) * (f64Sc TL l.unit * f64Sc TR r.unit)) ≤
        Oracle.derivedBound ErrModel.f64 (a * b) (f64Sc TL l.unit * f64Sc TR r.unit)
          (f64Sc TO res.unit) := by
  obtain ⟨res, z, h1, h2, h3, h4⟩ :=
    C04.dmul_mag F64.arith F64.laws (TL.qt F64.arith) (TR.qt F64.arith) (TO.qt F64.arith)
      (ofDef_fitIdentity F64.arith dO TO hkO hTO) (ofDef_ref_mem F64.arith itO dO hO hkO TO hTO)
      l r a b (f64Sc TL l.unit) (f64Sc TR r.unit) ha hb
      (f64_scale_pos dL hkL TL hTL hpL l.unit hlu).1 (f64_scale_pos dR hkR TR hTR hpR r.unit hru).1
      (f64Sc TO)
      (fun u hu => f64_scale_pos dO hkO TO hTO hpO u ((mem_qt_units _ _ u).mp hu))
      (fun u hu => hsafe u ((mem_qt_units _ _ u).mp hu))
  exact ⟨res, z, h1, (mem_qt_units _ _ _).mp h2, h3, h4⟩

/-- **2. `ddiv_mag_generated_f64`** — the same for the quotient; the divisor amount must not be
zero -/
theorem ddiv_mag_generated_f64
    (dL : QtyDef) (hkL : dL.kind = .withRef) (TL : RTable F64)
    (hTL : RTable.ofDef F64.arith dL = some TL) (hpL : LitsNormalF64 dL = true)
    (dR : QtyDef) (hkR : dR.kind = .withRef) (TR : RTable F64)
    (hTR : RTable.ofDef F64.arith dR = some TR) (hpR : LitsNormalF64 dR = true)
    (itO : RawItem) (dO : QtyDef) (hO : expand itO = .ok dO) (hkO : dO.kind = .withRef)
    (TO : RTable F64) (hTO : RTable.ofDef F64.arith dO = some TO) (hpO : LitsNormalF64 dO = true)
    (l r : Q F64 Nat) (hlu : l.unit < TL.n) (hru : r.unit < TR.n) (a b : Rat)
    (ha : F64.arith.val l.amount = some a) (hb : F64.arith.val r.amount = some b) (hb0 : b ≠ 0)
    (hsafe : ∀ u, u < TO.n → Oracle.derivedSafe ErrModel.f64 (a / b)
      (f64Sc TL l.unit / f64Sc TR r.unit) (f64Sc TO u) = true) :
    ∃ res z, ddiv F64.arith (TL.qt F64.arith) (TR.qt F64.arith) (TO.qt F64.arith) l r = .ok res ∧
      res.unit < TO.n ∧ F64.arith.val res.amount = some z ∧
      ratAbs (z * f64Sc TO res.unit - (a / b) * (f64Sc TL l.unit / f64Sc TR r.unit)) ≤
        Oracle.derivedBound ErrModel.f64 (a / b) (f64Sc TL l.unit / f64Sc TR r.unit)
          (f64Sc TO res.unit) := by
  have hsr := f64_scale_pos dR hkR TR hTR hpR r.unit hru
  obtain ⟨res, z, h1, h2, h3, h4⟩ :=
    C04.ddiv_mag F64.arith F64.laws (TL.qt F64.arith) (TR.qt F64.arith) (TO.qt F64.arith)
      (ofDef_fitIdentity F64.arith dO TO hkO hTO) (ofDef_ref_mem F64.arith itO dO hO hkO TO hTO)
      l r a b (f64Sc TL l.unit) (f64Sc TR r.unit) ha hb hb0
      (f64_scale_pos dL hkL TL hTL hpL l.unit hlu).1 hsr.1 (ne_of_gt hsr.2)
      (f64Sc TO)
      (fun u hu => f64_scale_pos dO hkO TO hTO hpO u ((mem_qt_units _ _ u).mp hu))
      (fun u hu => hsafe u ((mem_qt_units _ _ u).mp hu))
  exact ⟨res, z, h1, (mem_qt_units _ _ _).mp h2, h3, h4⟩

variable (d : QtyDef) (hk : d.kind = .withRef)
variable (T : RTable F64) (hT : RTable.ofDef F64.arith d = some T)
  (hp : LitsNormalF64 d = true)
include hk hT hp

/-- **2. `cmp_physical_generated_f64`** — `C02.cmp_physical` for one generated binary table with
literals in `[2^-1073, 2^1023)`: values in different units whose physical magnitudes are further apart than
the rounding margin of one conversion compare as the exact magnitudes do.  Left: the values of
the amounts, the range conditions `Oracle.convSafe` and the gap. -/
theorem cmp_physical_generated_f64 (a b : Q F64 Nat) (hau : a.unit < T.n) (hbu : b.unit < T.n)
    (hu : a.unit ≠ b.unit) (x y : Rat)
    (hx : F64.arith.val a.amount = some x) (hy : F64.arith.val b.amount = some y)
    (hs1 : Oracle.convSafe ErrModel.f64 (f64Sc T b.unit) (f64Sc T a.unit) y = true)
    (hs2 : Oracle.convSafe ErrModel.f64 (f64Sc T a.unit) (f64Sc T b.unit) x = true)
    (hgap : max (Oracle.convBound ErrModel.f64 (f64Sc T b.unit) (f64Sc T a.unit) y)
        (Oracle.convBound ErrModel.f64 (f64Sc T a.unit) (f64Sc T b.unit) x)
      < |x * f64Sc T a.unit - y * f64Sc T b.unit|) :
    hrPcmp F64.arith (T.qt F64.arith) a b
      = .ok (some (ratCmp (x * f64Sc T a.unit) (y * f64Sc T b.unit))) ∧
    hrEq F64.arith (T.qt F64.arith) a b = .ok false := by
  have h1 := f64_scale_pos d hk T hT hp a.unit hau
  have h2 := f64_scale_pos d hk T hT hp b.unit hbu
  exact C02.cmp_physical F64.arith (T.qt F64.arith) F64.laws a b _ _ x y hu h1.1 h2.1 h1.2 h2.2
    hx hy hs1 hs2 hgap

/-- **2. `addsub_mag_generated_f64`** — `C03.addsub_mag` for one generated binary table with
literals in `[2^-1073, 2^1023)` -/
theorem addsub_mag_generated_f64 (isSub : Bool) (a b : Q F64 Nat) (hau : a.unit < T.n)
    (hbu : b.unit < T.n) (hne : b.unit ≠ a.unit) (x y : Rat)
    (hx : F64.arith.val a.amount = some x) (hy : F64.arith.val b.amount = some y)
    (hsafe : Oracle.convSafe ErrModel.f64 (f64Sc T b.unit) (f64Sc T a.unit) y = true)
    (hsafe2 : ErrModel.f64.safe (ratAbs x + (ratAbs (f64Sc T b.unit / f64Sc T a.unit) * ratAbs y
        + Oracle.convBoundIn ErrModel.f64 (f64Sc T b.unit) (f64Sc T a.unit) y)
      + ErrModel.f64.Ea (ratAbs x + (ratAbs (f64Sc T b.unit / f64Sc T a.unit) * ratAbs y
        + Oracle.convBoundIn ErrModel.f64 (f64Sc T b.unit) (f64Sc T a.unit) y))) = true) :
    ∃ r z, (if isSub then hrSub F64.arith (T.qt F64.arith) a b
        else hrAdd F64.arith (T.qt F64.arith) a b) = .ok r ∧ r.unit = a.unit ∧
      F64.arith.val r.amount = some z ∧
      ratAbs (z * f64Sc T a.unit - (if isSub then x * f64Sc T a.unit - y * f64Sc T b.unit
          else x * f64Sc T a.unit + y * f64Sc T b.unit)) ≤
        ratAbs (f64Sc T a.unit) *
          (ErrModel.f64.Ea (ratAbs x + (ratAbs (f64Sc T b.unit / f64Sc T a.unit) * ratAbs y
              + Oracle.convBoundIn ErrModel.f64 (f64Sc T b.unit) (f64Sc T a.unit) y))
            + Oracle.convBoundIn ErrModel.f64 (f64Sc T b.unit) (f64Sc T a.unit) y) := by
  have h1 := f64_scale_pos d hk T hT hp a.unit hau
  have h2 := f64_scale_pos d hk T hT hp b.unit hbu
  exact C03.addsub_mag F64.arith (T.qt F64.arith) F64.laws isSub a b _ _ x y hne h1.1 h2.1
    (ne_of_gt h1.2) hx hy hsafe hsafe2

/-- **2. `div_ratio_generated_f64`** — `C03.div_ratio` for one generated binary table with
literals in `[2^-1073, 2^1023)` -/
theorem div_ratio_generated_f64 (a b : Q F64 Nat) (hau : a.unit < T.n)
    (hbu : b.unit < T.n) (hne : b.unit ≠ a.unit) (x y : Rat)
    (hx : F64.arith.val a.amount = some x) (hy : F64.arith.val b.amount = some y)
    (hsafe : Oracle.convSafe ErrModel.f64 (f64Sc T b.unit) (f64Sc T a.unit) y = true)
    (hcb : Oracle.convBoundIn ErrModel.f64 (f64Sc T b.unit) (f64Sc T a.unit) y
      < ratAbs (f64Sc T b.unit / f64Sc T a.unit * y))
    (hsafe2 : ErrModel.f64.safe (ratAbs x / (ratAbs (f64Sc T b.unit / f64Sc T a.unit * y)
        - Oracle.convBoundIn ErrModel.f64 (f64Sc T b.unit) (f64Sc T a.unit) y)
      + ErrModel.f64.E (ratAbs x / (ratAbs (f64Sc T b.unit / f64Sc T a.unit * y)
        - Oracle.convBoundIn ErrModel.f64 (f64Sc T b.unit) (f64Sc T a.unit) y))) = true) :
    ∃ c z, hrDiv F64.arith (T.qt F64.arith) a b = .ok c ∧ F64.arith.val c = some z ∧
      ratAbs (z - x / (f64Sc T b.unit / f64Sc T a.unit * y)) ≤
        ratAbs x * Oracle.convBoundIn ErrModel.f64 (f64Sc T b.unit) (f64Sc T a.unit) y /
            ((ratAbs (f64Sc T b.unit / f64Sc T a.unit * y)
                - Oracle.convBoundIn ErrModel.f64 (f64Sc T b.unit) (f64Sc T a.unit) y)
              * ratAbs (f64Sc T b.unit / f64Sc T a.unit * y))
          + ErrModel.f64.E (ratAbs x / (ratAbs (f64Sc T b.unit / f64Sc T a.unit * y)
              - Oracle.convBoundIn ErrModel.f64 (f64Sc T b.unit) (f64Sc T a.unit) y)) := by
  have h1 := f64_scale_pos d hk T hT hp a.unit hau
  have h2 := f64_scale_pos d hk T hT hp b.unit hbu
  exact C03.div_ratio F64.arith (T.qt F64.arith) F64.laws a b _ _ x y hne h1.1 h2.1
    (ne_of_gt h1.2) hx hy hsafe hcb hsafe2

omit hk hT hp
end magF64

/-! ### 3. the catalogue: every generated `Mul`/`Div` operator maps reference units to the
reference unit -/

section natural
variable {A U V W : Type} [DecidableEq U] [DecidableEq V] [DecidableEq W] (R : Arith A)

/-- what the reference-unit theorems use of a table: the reference unit has scale one, and
`unit_from_scale` of ANY amount of exact value one answers the reference unit -/
def RefNatural (T : QT A W) : Prop :=
  R.val (T.scale T.ref) = some 1 ∧ ∀ s, R.val s = some 1 → unitFromScale R T s = some T.ref

theorem dmul_ref_units_natural {M : ErrModel} (L : Laws R M) (TL : QT A U) (TR : QT A V)
    (TO : QT A W) (hL : RefNatural R TL) (hR : RefNatural R TR) (hO : RefNatural R TO)
    (l : Q A U) (r : Q A V) (hl : l.unit = TL.ref) (hr : r.unit = TR.ref)
    (res : Q A W) (h : dmul R TL TR TO l r = .ok res) : res.unit = TO.ref := by
  obtain ⟨s, hs, hsv⟩ := L.one_mul_val _ _ 1 hL.1 hR.1
  rw [← hl, ← hr] at hs
  rw [C05.dmul_natural R TL TR TO l r s hs TO.ref (hO.2 s hsv)] at h
  cases hp : R.mul l.amount r.amount with
  | error e => rw [hp] at h; cases h
  | ok p => rw [hp] at h; cases h; rfl

theorem ddiv_ref_units_natural {M : ErrModel} (L : Laws R M) (TL : QT A U) (TR : QT A V)
    (TO : QT A W) (hL : RefNatural R TL) (hR : RefNatural R TR) (hO : RefNatural R TO)
    (l : Q A U) (r : Q A V) (hl : l.unit = TL.ref) (hr : r.unit = TR.ref)
    (res : Q A W) (h : ddiv R TL TR TO l r = .ok res) : res.unit = TO.ref := by
  obtain ⟨s, hs, hsv⟩ := L.div_self_val _ _ 1 hL.1 hR.1 one_ne_zero
  rw [← hl, ← hr] at hs
  rw [C05.ddiv_natural R TL TR TO l r s hs TO.ref (hO.2 s hsv)] at h
  cases hp : R.div l.amount r.amount with
  | error e => rw [hp] at h; cases h
  | ok p => rw [hp] at h; cases h; rfl

/-- the dimensionless `AmountT` (one unit `One` of scale `AmountT::ONE`) -/
theorem refNatural_amount {M : ErrModel} (L : Laws R M) :
    RefNatural R ((RTable.amount R).qt R) := by
  have hsc : ∀ u, ((RTable.amount R).qt R).scale u = R.one := by
    intro u
    show (#[R.one] : Array A).getD u R.one = R.one
    cases u <;> simp [Array.getD]
  refine ⟨by rw [hsc]; exact L.one_val, ?_⟩
  intro s hs
  have hb : R.beq R.one s = true := by rw [L.beq_val _ _ 1 1 L.one_val hs]; simp
  show List.find? (fun u => R.beq (((RTable.amount R).qt R).scale u) s) (List.range 1) = some 0
  simp only [hsc]
  simp [List.range, List.range.loop, hb]

end natural

theorem refNatural_generated_dec (it : RawItem) (d : QtyDef) (h : expand it = .ok d)
    (hk : d.kind = .withRef) (T : RTable Dec) (hT : RTable.ofDef Dec.arith d = some T)
    (huniq : RefIdentUnique d) : RefNatural Dec.arith (T.qt Dec.arith) := by
  obtain ⟨hsc, pre, post, hunits, href, hpre⟩ :=
    ref_first_among_scale_one_dec it d h hk T hT huniq
  exact ⟨dec_ref_scale_one it d h hk T hT huniq, fun s hs =>
    C05.unitFromScale_one Dec.arith Dec.laws (T.qt Dec.arith) (litVal d) hsc pre post hunits href
      hpre s hs⟩

theorem refNatural_generated_f64 (it : RawItem) (d : QtyDef) (h : expand it = .ok d)
    (hk : d.kind = .withRef) (T : RTable F64) (hT : RTable.ofDef F64.arith d = some T)
    (huniq : RefIdentUnique d) : RefNatural F64.arith (T.qt F64.arith) := by
  obtain ⟨pre, post, hunits, href, hpre⟩ :=
    ref_first_among_scale_one_f64_cmp it d h hk T hT huniq
  exact ⟨href, fun s hs => unitFromScale_one_f64 (T.qt F64.arith) pre post hunits href hpre s hs⟩

section catalogueOps
variable {A : Type} (R : Arith A)

/-- reference unit times reference unit is the reference unit -/
def MulRef (TL TR TO : RTable A) : Prop :=
  ∀ l r : Q A Nat, l.unit = (TL.qt R).ref → r.unit = (TR.qt R).ref → ∀ res,
    dmul R (TL.qt R) (TR.qt R) (TO.qt R) l r = .ok res → res.unit = (TO.qt R).ref

/-- reference unit by reference unit is the reference unit -/
def DivRef (TL TR TO : RTable A) : Prop :=
  ∀ l r : Q A Nat, l.unit = (TL.qt R).ref → r.unit = (TR.qt R).ref → ∀ res,
    ddiv R (TL.qt R) (TR.qt R) (TO.qt R) l r = .ok res → res.unit = (TO.qt R).ref

/-- the table a type name denotes among the definitions `items` of one crate (`AmountT` is the
dimensionless amount) — the lookup of `Main.buildWorld` / `World.find` -/
def tableOf (items : List RawItem) (n : Text) : Option (RTable A) :=
  if n = amountName then some (RTable.amount R)
  else match items.find? (fun it => it.name == n) with
    | none => none
    | some it => (match expand it with
      | .ok d => RTable.ofDef R d
      | .error _ => none)

/-- decidable: the definition is accepted with a reference unit that no other unit shares the
identifier of, and its table exists in back-end `R` -/
def selfOk (d : QtyDef) : Bool :=
  d.kind == .withRef && decide (RefIdentUnique d) && (RTable.ofDef R d).isSome

/-- decidable: the name denotes `AmountT` or such a definition of `items` -/
def typeOk (items : List RawItem) (n : Text) : Bool :=
  n == amountName || (match items.find? (fun it => it.name == n) with
    | none => false
    | some it => (match expand it with
      | .ok d => selfOk R d
      | .error _ => false))

/-- decidable: a definition declared as `L * R` / `L / R` is such a definition and so are the
definitions its two operand names denote -/
def derivedOk (items : List RawItem) (it : RawItem) : Bool :=
  match expand it with
  | .ok d => (match d.derived with
    | none => true
    | some der => selfOk R d && typeOk R items der.lhs && typeOk R items der.rhs)
  | .error _ => false

variable {M : ErrModel} (L : Laws R M)
  (hgen : ∀ (it : RawItem) (d : QtyDef), expand it = .ok d → d.kind = .withRef →
    ∀ T : RTable A, RTable.ofDef R d = some T → RefIdentUnique d → RefNatural R (T.qt R))
include L hgen

theorem selfOk_spec (it : RawItem) (d : QtyDef) (h : expand it = .ok d) (hs : selfOk R d = true) :
    ∃ T, RTable.ofDef R d = some T ∧ RefNatural R (T.qt R) := by
  unfold selfOk at hs
  simp only [Bool.and_eq_true, beq_iff_eq, decide_eq_true_eq] at hs
  obtain ⟨⟨hk, hu⟩, ht⟩ := hs
  cases hT : RTable.ofDef R d with
  | none => rw [hT] at ht; cases ht
  | some T => exact ⟨T, rfl, hgen it d h hk T hT hu⟩

theorem typeOk_spec (items : List RawItem) (n : Text) (hs : typeOk R items n = true) :
    ∃ T, tableOf R items n = some T ∧ RefNatural R (T.qt R) := by
  unfold typeOk at hs
  unfold tableOf
  by_cases hn : n = amountName
  · exact ⟨RTable.amount R, by simp [hn], refNatural_amount R L⟩
  · have hn' : (n == amountName) = false := by simpa using hn
    rw [hn', Bool.false_or] at hs
    rw [if_neg hn]
    cases hf : items.find? (fun it => it.name == n) with
    | none => rw [hf] at hs; cases hs
    | some it =>
      rw [hf] at hs
      simp only at hs ⊢
      cases he : expand it with
      | error e => rw [he] at hs; cases hs
      | ok d =>
        rw [he] at hs
        exact selfOk_spec R L hgen it d he hs

/-- all four operators `codegen_impl_mul_div_qties` generates for `Q = L * R`
(`L * R = Q`, `R * L = Q`, `Q / R = L`, `Q / L = R`) map reference units to the reference unit -/
theorem product_ref_units (items : List RawItem) (it : RawItem) (d : QtyDef)
    (h : expand it = .ok d) (hok : derivedOk R items it = true) (ln rn : Text)
    (hder : d.derived = some ⟨ln, true, rn⟩) :
    ∃ TL TR TO, tableOf R items ln = some TL ∧ tableOf R items rn = some TR ∧
      RTable.ofDef R d = some TO ∧
      MulRef R TL TR TO ∧ MulRef R TR TL TO ∧ DivRef R TO TR TL ∧ DivRef R TO TL TR := by
  unfold derivedOk at hok
  rw [h] at hok
  simp only [hder, Bool.and_eq_true] at hok
  obtain ⟨⟨hs, hl⟩, hr⟩ := hok
  obtain ⟨TO, hTO, hO⟩ := selfOk_spec R L hgen it d h hs
  obtain ⟨TL, hTL, hL⟩ := typeOk_spec R L hgen items ln hl
  obtain ⟨TR, hTR, hR⟩ := typeOk_spec R L hgen items rn hr
  exact ⟨TL, TR, TO, hTL, hTR, hTO,
    fun l r hl hr res hres => dmul_ref_units_natural R L _ _ _ hL hR hO l r hl hr res hres,
    fun l r hl hr res hres => dmul_ref_units_natural R L _ _ _ hR hL hO l r hl hr res hres,
    fun l r hl hr res hres => ddiv_ref_units_natural R L _ _ _ hO hR hL l r hl hr res hres,
    fun l r hl hr res hres => ddiv_ref_units_natural R L _ _ _ hO hL hR l r hl hr res hres⟩

/-- all four operators generated for `Q = L / R` (`L / R = Q`, `Q * R = L`, `R * Q = L`,
`L / Q = R`) map reference units to the reference unit -/
theorem quotient_ref_units (items : List RawItem) (it : RawItem) (d : QtyDef)
    (h : expand it = .ok d) (hok : derivedOk R items it = true) (ln rn : Text)
    (hder : d.derived = some ⟨ln, false, rn⟩) :
    ∃ TL TR TO, tableOf R items ln = some TL ∧ tableOf R items rn = some TR ∧
      RTable.ofDef R d = some TO ∧
      DivRef R TL TR TO ∧ MulRef R TO TR TL ∧ MulRef R TR TO TL ∧ DivRef R TL TO TR := by
  unfold derivedOk at hok
  rw [h] at hok
  simp only [hder, Bool.and_eq_true] at hok
  obtain ⟨⟨hs, hl⟩, hr⟩ := hok
  obtain ⟨TO, hTO, hO⟩ := selfOk_spec R L hgen it d h hs
  obtain ⟨TL, hTL, hL⟩ := typeOk_spec R L hgen items ln hl
  obtain ⟨TR, hTR, hR⟩ := typeOk_spec R L hgen items rn hr
  exact ⟨TL, TR, TO, hTL, hTR, hTO,
    fun l r hl hr res hres => ddiv_ref_units_natural R L _ _ _ hL hR hO l r hl hr res hres,
    fun l r hl hr res hres => dmul_ref_units_natural R L _ _ _ hO hR hL l r hl hr res hres,
    fun l r hl hr res hres => dmul_ref_units_natural R L _ _ _ hR hO hL l r hl hr res hres,
    fun l r hl hr res hres => ddiv_ref_units_natural R L _ _ _ hL hO hR l r hl hr res hres⟩

omit L hgen
end catalogueOps

section catalogueEval
set_option maxRecDepth 100000

/-- the groups of definitions that refer to each other by name, per back-end: main crate and
synthetic definitions of the harness; the astronomical crate is `f64` only -/
def cratesDec : List (List RawItem) := [Gen.Catalogue.items, Gen.Synth.items]
def cratesF64 : List (List RawItem) := [Gen.Catalogue.items, Gen.Astro.items, Gen.Synth.items]

/-- kernel evaluation, decimal back-end: every definition declared as a product or quotient, and
both its operand types (looked up by name in the same crate, or `AmountT`), are accepted with
reference unit, have a unique reference identifier and a table -/
theorem catalogue_derived_ok_dec :
    cratesDec.all (fun items => items.all (derivedOk Dec.arith items)) = true := by
  decide +kernel

/-- the same for the binary back-end, astronomical crate included -/
theorem catalogue_derived_ok_f64 :
    cratesF64.all (fun items => items.all (derivedOk F64.arith items)) = true := by
  decide +kernel

/-- **3. `catalogue_dmul_ref_units_dec`** — for every predefined (or synthetic) quantity declared
as a product `Q = L * R`, with the operand tables looked up by name as the run-time driver does:
the tables exist and ALL FOUR generated operators (`L * R = Q`, `R * L = Q`, `Q / R = L`,
`Q / L = R`) map operands in reference units to a result in the reference unit.  No hypothesis
is left. -/
theorem catalogue_dmul_ref_units_dec (items : List RawItem) (hc : items ∈ cratesDec)
    (it : RawItem) (hit : it ∈ items) (d : QtyDef) (h : expand it = .ok d) (ln rn : Text)
    (hder : d.derived = some ⟨ln, true, rn⟩) :
    ∃ TL TR TO, tableOf Dec.arith items ln = some TL ∧ tableOf Dec.arith items rn = some TR ∧
      RTable.ofDef Dec.arith d = some TO ∧
      MulRef Dec.arith TL TR TO ∧ MulRef Dec.arith TR TL TO ∧
      DivRef Dec.arith TO TR TL ∧ DivRef Dec.arith TO TL TR :=
  product_ref_units Dec.arith Dec.laws refNatural_generated_dec items it d h
    ((List.all_eq_true.mp ((List.all_eq_true.mp catalogue_derived_ok_dec) items hc)) it hit)
    ln rn hder

/-- **3. `catalogue_ddiv_ref_units_dec`** — declared quotients `Q = L / R`: `L / R = Q`,
`Q * R = L`, `R * Q = L`, `L / Q = R` -/
theorem catalogue_ddiv_ref_units_dec (items : List RawItem) (hc : items ∈ cratesDec)
    (it : RawItem) (hit : it ∈ items) (d : QtyDef) (h : expand it = .ok d) (ln rn : Text)
    (hder : d.derived = some ⟨ln, false, rn⟩) :
    ∃ TL TR TO, tableOf Dec.arith items ln = some TL ∧ tableOf Dec.arith items rn = some TR ∧
      RTable.ofDef Dec.arith d = some TO ∧
      DivRef Dec.arith TL TR TO ∧ MulRef Dec.arith TO TR TL ∧
      MulRef Dec.arith TR TO TL ∧ DivRef Dec.arith TL TO TR :=
  quotient_ref_units Dec.arith Dec.laws refNatural_generated_dec items it d h
    ((List.all_eq_true.mp ((List.all_eq_true.mp catalogue_derived_ok_dec) items hc)) it hit)
    ln rn hder

/-- **3.** binary back-end (main crate, astronomical crate, synthetic definitions) -/
theorem catalogue_dmul_ref_units_f64 (items : List RawItem) (hc : items ∈ cratesF64)
    (it : RawItem) (hit : it ∈ items) (d : QtyDef) (h : expand it = .ok d) (ln rn : Text)
    (hder : d.derived = some ⟨ln, true, rn⟩) :
    ∃ TL TR TO, tableOf F64.arith items ln = some TL ∧ tableOf F64.arith items rn = some TR ∧
      RTable.ofDef F64.arith d = some TO ∧
      MulRef F64.arith TL TR TO ∧ MulRef F64.arith TR TL TO ∧
      DivRef F64.arith TO TR TL ∧ DivRef F64.arith TO TL TR :=
  product_ref_units F64.arith F64.laws refNatural_generated_f64 items it d h
    ((List.all_eq_true.mp ((List.all_eq_true.mp catalogue_derived_ok_f64) items hc)) it hit)
    ln rn hder

theorem catalogue_ddiv_ref_units_f64 (items : List RawItem) (hc : items ∈ cratesF64)
    (it : RawItem) (hit : it ∈ items) (d : QtyDef) (h : expand it = .ok d) (ln rn : Text)
    (hder : d.derived = some ⟨ln, false, rn⟩) :
    ∃ TL TR TO, tableOf F64.arith items ln = some TL ∧ tableOf F64.arith items rn = some TR ∧
      RTable.ofDef F64.arith d = some TO ∧
      DivRef F64.arith TL TR TO ∧ MulRef F64.arith TO TR TL ∧
      MulRef F64.arith TR TO TL ∧ DivRef F64.arith TL TO TR :=
  quotient_ref_units F64.arith F64.laws refNatural_generated_f64 items it d h
    ((List.all_eq_true.mp ((List.all_eq_true.mp catalogue_derived_ok_f64) items hc)) it hit)
    ln rn hder

/-- every predefined quantity has positive scale literals, so `dmul_mag_generated_dec`,
`cmp_physical_generated_dec`, … apply to the whole catalogue -/
theorem catalogue_lits_positive' (it : RawItem) (hit : it ∈ allItems) (d : QtyDef)
    (h : expand it = .ok d) : LitsPositive d = true := by
  have := expandsTo_of_mem _ _ catalogue_lits_positive it hit d h
  simp only [Bool.and_eq_true] at this
  exact this.1

end catalogueEval

/-! ### witnesses and non-vacuity -/

section witnesses2
set_option maxRecDepth 100000

/-- non-vacuity of item 1: `Area`, `Length` and `Duration` of the main crate satisfy every
hypothesis of `dmul_ref_units_generated_dec` / `_f64` -/
example : genWitness Dec.arith Gen.Catalogue.areaRaw (fun d _ => decide (RefIdentUnique d)) = true ∧
    genWitness Dec.arith Gen.Catalogue.lengthRaw (fun d _ => decide (RefIdentUnique d)) = true ∧
    genWitness F64.arith Gen.Catalogue.areaRaw (fun d _ => decide (RefIdentUnique d)) = true ∧
    genWitness F64.arith Gen.Catalogue.lengthRaw (fun d _ => decide (RefIdentUnique d)) = true := by
  decide +kernel

/-- "Length" -/
def lengthName : Text := [76, 101, 110, 103, 116, 104]

/-- non-vacuity of item 3: `Area` is declared as `Length * Length`, `Speed` as
`Length / Duration`, `Frequency` as `AmountT / Duration` -/
example : Gen.Catalogue.areaRaw ∈ Gen.Catalogue.items ∧
    (match expand Gen.Catalogue.areaRaw with
     | .ok d => d.derived == some ⟨lengthName, true, lengthName⟩
     | .error _ => false) = true ∧
    (match expand Gen.Catalogue.speedRaw with
     | .ok d => d.derived == some ⟨lengthName, false, Gen.Catalogue.durationRaw.name⟩
     | .error _ => false) = true ∧
    (match expand Gen.Catalogue.frequencyRaw with
     | .ok d => d.derived == some ⟨amountName, false, Gen.Catalogue.durationRaw.name⟩
     | .error _ => false) = true := by
  decide +kernel

/-- and concretely, decimal back-end: `3 m * 2 m = 6 m²`, `6 m² / 2 m = 3 m`, in reference units
(`tableOf` resolves the names, `REF_UNIT` of `Length` is not its first unit) -/
example :
    (match tableOf Dec.arith Gen.Catalogue.items lengthName,
        tableOf Dec.arith Gen.Catalogue.items Gen.Catalogue.areaRaw.name with
     | some TL, some TO =>
       let L := TL.qt Dec.arith
       let O := TO.qt Dec.arith
       decide (dmul Dec.arith L L O ⟨⟨3, 0⟩, L.ref⟩ ⟨⟨2, 0⟩, L.ref⟩ = .ok ⟨⟨6, 0⟩, O.ref⟩) &&
       decide (ddiv Dec.arith O L L ⟨⟨6, 0⟩, O.ref⟩ ⟨⟨2, 0⟩, L.ref⟩ = .ok ⟨⟨3, 0⟩, L.ref⟩) &&
       decide (0 < L.ref)
     | _, _ => false) = true := by
  decide +kernel

/-- `dmul_ref_units_generated_*` need `RefIdentUnique` of the RESULT definition: for
`#[ref_unit(A, "a")] #[unit(A, "b", 0.5)]` (`Bridge.itDupRef`) `REF_UNIT` is variant `0` (the
first variant named `A`, scale `0.5`), while `1 * 1` of the dimensionless amount — whose unit is
its reference unit, of scale one — is answered in variant `1`, the unit of scale one -/
theorem ref_units_needs_unique_ident :
    ∃ d T, expand itDupRef = .ok d ∧ d.kind = .withRef ∧ RTable.ofDef Dec.arith d = some T ∧
      (fun d T => !decide (RefIdentUnique d) &&
        decide ((RTable.qt Dec.arith T).ref = 0) &&
        decide (((RTable.amount Dec.arith).qt Dec.arith).ref = 0) &&
        (match dmul Dec.arith ((RTable.amount Dec.arith).qt Dec.arith)
            ((RTable.amount Dec.arith).qt Dec.arith) (RTable.qt Dec.arith T)
            ⟨Dec.one, 0⟩ ⟨Dec.one, 0⟩ with
         | .ok res => res.unit == 1
         | .error _ => false)) d T = true :=
  genWitness_spec Dec.arith itDupRef _ (by decide +kernel)

/-- non-vacuity of item 2 (derived operators): `Length`, `Area` satisfy every hypothesis of
`dmul_mag_generated_dec` for `3 m * 2 m`, including the range condition for every unit of `Area` -/
example :
    (match expand Gen.Catalogue.lengthRaw, expand Gen.Catalogue.areaRaw with
     | .ok dL, .ok dO =>
       dL.kind == .withRef && dO.kind == .withRef && LitsPositive dO &&
       (match RTable.ofDef Dec.arith dL, RTable.ofDef Dec.arith dO with
        | some TL, some TO =>
          let m := (TL.qt Dec.arith).ref
          decide (m < TL.n) && decide (Dec.arith.val ⟨3, 0⟩ = some 3) &&
          decide (Dec.arith.val ⟨2, 0⟩ = some 2) &&
          (List.range TO.n).all (fun u =>
            Oracle.derivedSafe ErrModel.dec (3 * 2) (litVal dL m * litVal dL m) (litVal dO u))
        | _, _ => false)
     | _, _ => false) = true := by
  decide +kernel

/-- non-vacuity of item 2 (one table): in the generated `Length` table, `2 ft` and `25 in` satisfy
the hypotheses of `cmp_physical_generated_dec`, `addsub_mag_generated_dec` and
`div_ratio_generated_dec` (the gap is written with `ratAbs`, which is `|·|`:
`ratAbs_eq_abs`) -/
example : genWitness Dec.arith Gen.Catalogue.lengthRaw (fun d T =>
    LitsPositive d &&
    (match (List.range T.n).find? (fun u => decide (litVal d u = 3048 / 10000)),
        (List.range T.n).find? (fun u => decide (litVal d u = 254 / 10000)) with
     | some ft, some inch =>
       decide (ft < T.n) && decide (inch < T.n) && decide (ft ≠ inch) &&
       Oracle.convSafe ErrModel.dec (litVal d inch) (litVal d ft) 25 &&
       Oracle.convSafe ErrModel.dec (litVal d ft) (litVal d inch) 2 &&
       decide (max (Oracle.convBound ErrModel.dec (litVal d inch) (litVal d ft) 25)
           (Oracle.convBound ErrModel.dec (litVal d ft) (litVal d inch) 2)
         < ratAbs (2 * litVal d ft - 25 * litVal d inch)) &&
       ErrModel.dec.safe (ratAbs 2 + (ratAbs (litVal d inch / litVal d ft) * ratAbs 25
           + Oracle.convBoundIn ErrModel.dec (litVal d inch) (litVal d ft) 25)
         + ErrModel.dec.Ea (ratAbs 2 + (ratAbs (litVal d inch / litVal d ft) * ratAbs 25
           + Oracle.convBoundIn ErrModel.dec (litVal d inch) (litVal d ft) 25))) &&
       decide (Oracle.convBoundIn ErrModel.dec (litVal d inch) (litVal d ft) 25
         < ratAbs (litVal d inch / litVal d ft * 25)) &&
       ErrModel.dec.safe (ratAbs 2 / (ratAbs (litVal d inch / litVal d ft * 25)
           - Oracle.convBoundIn ErrModel.dec (litVal d inch) (litVal d ft) 25)
         + ErrModel.dec.E (ratAbs 2 / (ratAbs (litVal d inch / litVal d ft * 25)
           - Oracle.convBoundIn ErrModel.dec (litVal d inch) (litVal d ft) 25)))
     | _, _ => false)) = true := by
  decide +kernel

/-- the same range conditions in the binary back-end (`dmul_mag_generated_f64` for `3 m * 2 m`) -/
example :
    (match expand Gen.Catalogue.lengthRaw, expand Gen.Catalogue.areaRaw with
     | .ok dL, .ok dO =>
       dL.kind == .withRef && dO.kind == .withRef && LitsNormalF64 dL && LitsNormalF64 dO &&
       (match RTable.ofDef F64.arith dL, RTable.ofDef F64.arith dO with
        | some TL, some TO =>
          let m := (TL.qt F64.arith).ref
          decide (m < TL.n) &&
          (List.range TO.n).all (fun u =>
            Oracle.derivedSafe ErrModel.f64 (3 * 2) (f64Sc TL m * f64Sc TL m) (f64Sc TO u))
        | _, _ => false)
     | _, _ => false) = true := by
  decide +kernel

end witnesses2

end Qty.Bridge
