import QtyModel.Case
/-
  Model of cargo feature resolution (transitive closure of the `[features]`
  table), of `#[cfg(...)]` evaluation and of the module gates of `src/lib.rs`.
-/
namespace Qty

inductive Cfg where
  | feature (name : Text)
  | kv (key value : Text)
  | flag (name : Text)
  | not (c : Cfg)
  | all (cs : List Cfg)
  | any (cs : List Cfg)
  deriving Repr, Inhabited

end Qty
