import QtyModel.Case
/-
  Model of cargo feature resolution (least set of features closed under the
  `[features]` table), of `#[cfg(...)]` evaluation and of the module gates of `src/lib.rs`.
-/
namespace Qty

inductive Cfg where
  | feature (name : Text)
  | kv (key value : Text)
  | flag (name : Text)
  | not (c : Cfg)
  | all (cs : List Cfg)
  | any (cs : List Cfg)
  deriving Repr, Inhabited

namespace Features

abbrev Table := List (Text × List Text)

def depsOf (tbl : Table) (f : Text) : List Text :=
  ((tbl.find? (fun p => p.1 == f)).map (·.2)).getD []

/-- cargo's resolution as a relation: the least set containing the requested features and
closed under the dependency lists -/
inductive Reach (tbl : Table) (req : List Text) : Text → Prop
  | base (f : Text) : f ∈ req → Reach tbl req f
  | step (g f : Text) : Reach tbl req g → f ∈ depsOf tbl g → Reach tbl req f

/-- one round of closure -/
def stepSet (tbl : Table) (s : List Text) : List Text :=
  s ++ (s.flatMap (depsOf tbl)).filter (fun f => !s.contains f)

/-- executable closure: `fuel` rounds -/
def closureAux (tbl : Table) : Nat → List Text → List Text
  | 0, s => s
  | n + 1, s => closureAux tbl n (stepSet tbl s)

def closure (tbl : Table) (req : List Text) : List Text := closureAux tbl (tbl.length + 1) req

/-- evaluation of a cfg predicate: enabled features and target pointer width are the only
inputs that occur; `target_pointer_width` is the code-point list of that key -/
def ptrKey : Text := [116, 97, 114, 103, 101, 116, 95, 112, 111, 105, 110, 116, 101, 114, 95, 119, 105, 100, 116, 104]

mutual
def cfgEval (feats : List Text) (ptrWidth : Text) : Cfg → Bool
  | .feature n => feats.contains n
  | .kv k v => k == ptrKey && v == ptrWidth
  | .flag _ => false
  | .not c => !cfgEval feats ptrWidth c
  | .all cs => cfgAll feats ptrWidth cs
  | .any cs => cfgAny feats ptrWidth cs
def cfgAll (feats : List Text) (ptrWidth : Text) : List Cfg → Bool
  | [] => true
  | c :: cs => cfgEval feats ptrWidth c && cfgAll feats ptrWidth cs
def cfgAny (feats : List Text) (ptrWidth : Text) : List Cfg → Bool
  | [] => false
  | c :: cs => cfgEval feats ptrWidth c || cfgAny feats ptrWidth cs
end

mutual
/-- the feature names a cfg predicate mentions -/
def cfgFeats : Cfg → List Text
  | .feature n => [n]
  | .kv _ _ => []
  | .flag _ => []
  | .not c => cfgFeats c
  | .all cs => cfgFeatsL cs
  | .any cs => cfgFeatsL cs
def cfgFeatsL : List Cfg → List Text
  | [] => []
  | c :: cs => cfgFeats c ++ cfgFeatsL cs
end

/-- the gate feature of a module whose gate is the plain `cfg(feature = "f")` -/
def gateFeature : Cfg → Option Text
  | .feature n => some n
  | _ => none

end Features
end Qty
