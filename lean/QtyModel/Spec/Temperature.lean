import QtyModel.Case
/-
  The exact physical temperature formulas (hand-written, independent of
  src/temperature.rs): `[to] = [from] * factor + offset`, with
  0 °C = 273.15 K, [°F] = [°C]·9/5 + 32.
-/
namespace Qty.Spec.Temp
open Qty

def kelvin : Text := [75, 101, 108, 118, 105, 110]
def celsius : Text := [68, 101, 103, 114, 101, 101, 32, 67, 101, 108, 115, 105, 117, 115]
def fahrenheit : Text := [68, 101, 103, 114, 101, 101, 32, 70, 97, 104, 114, 101, 110, 104, 101, 105, 116]

/-- (factor, offset) of the exact formula, by unit NAME ("Kelvin", "Degree Celsius", "Degree Fahrenheit") -/
def formula (f t : Text) : Option (Rat × Rat) :=
  if f == kelvin && t == celsius then some (1, -27315 / 100)
  else if f == celsius && t == kelvin then some (1, 27315 / 100)
  else if f == kelvin && t == fahrenheit then some (9 / 5, -45967 / 100)
  else if f == fahrenheit && t == kelvin then some (5 / 9, 45967 / 100 * (5 / 9))
  else if f == celsius && t == fahrenheit then some (9 / 5, 32)
  else if f == fahrenheit && t == celsius then some (5 / 9, -32 * (5 / 9))
  else none

end Qty.Spec.Temp
