import QtyModel.Case
/-
  Dimension vectors of the predefined quantities, hand-written from the SI:
  exponents of (mass, length, time, temperature, information).
-/
namespace Qty.Spec.Dim
open Qty

abbrev Vec := List Int   -- [M, L, T, Θ, I]

def table : List (String × Vec) := [
  ("AmountT",        [0, 0, 0, 0, 0]),
  ("Mass",           [1, 0, 0, 0, 0]),
  ("Length",         [0, 1, 0, 0, 0]),
  ("Duration",       [0, 0, 1, 0, 0]),
  ("Area",           [0, 2, 0, 0, 0]),
  ("Volume",         [0, 3, 0, 0, 0]),
  ("Speed",          [0, 1, -1, 0, 0]),
  ("Acceleration",   [0, 1, -2, 0, 0]),
  ("Force",          [1, 1, -2, 0, 0]),
  ("Energy",         [1, 2, -2, 0, 0]),
  ("Power",          [1, 2, -3, 0, 0]),
  ("Frequency",      [0, 0, -1, 0, 0]),
  ("DataVolume",     [0, 0, 0, 0, 1]),
  ("DataThroughput", [0, 0, -1, 0, 1]),
  ("Temperature",    [0, 0, 0, 1, 0])]

end Qty.Spec.Dim
