import QtyModel.Base
/-
  Text as code-point lists (so that kernel evaluation never has to unfold
  `String` literals) and a transcription of `convert_case 0.8`'s `split` with
  its nine default boundaries, restricted to ASCII (the crate denies non-ASCII
  identifiers: `#![deny(non_ascii_idents)]`).
-/
namespace Qty

abbrev Text := List Nat

def Text.toString (t : Text) : String := String.ofList (t.map Char.ofNat)
def Text.ofString (s : String) : Text := s.toList.map Char.toNat

namespace Case

def isUpper (c : Nat) : Bool := 65 ≤ c && c ≤ 90
def isLower (c : Nat) : Bool := 97 ≤ c && c ≤ 122
def isDigit (c : Nat) : Bool := 48 ≤ c && c ≤ 57
def toUpper (c : Nat) : Nat := if isLower c then c - 32 else c
def toLower (c : Nat) : Nat := if isUpper c then c + 32 else c

/-- Which boundary (if any) matches at the head of `s`: returns `(start, len)`.
Order as in `Boundary::defaults()`: UNDERSCORE, HYPHEN, SPACE, LOWER_UPPER,
LOWER_DIGIT, UPPER_DIGIT, DIGIT_LOWER, DIGIT_UPPER, ACRONYM. -/
def boundaryAt : List Nat → Option (Nat × Nat)
  | [] => none
  | a :: rest =>
    if a = 95 || a = 45 || a = 32 then some (0, 1)
    else match rest with
      | [] => none
      | b :: rest2 =>
        if isLower a && isUpper b then some (1, 0)
        else if isLower a && isDigit b then some (1, 0)
        else if isUpper a && isDigit b then some (1, 0)
        else if isDigit a && isLower b then some (1, 0)
        else if isDigit a && isUpper b then some (1, 0)
        else match rest2 with
          | c :: _ => if isUpper a && isUpper b && isLower c then some (1, 0) else none
          | [] => none

/-- `split`: walk over all positions `i`; `cur` is the (reversed) text since the
end of the last boundary; `skip` counts characters still swallowed by a
delimiter boundary. -/
def splitAux : List Nat → List Nat → Nat → List (List Nat) → List (List Nat)
  | [], cur, _, acc => (cur.reverse :: acc).reverse
  | c :: rest, cur, skip, acc =>
    match boundaryAt (c :: rest) with
    | some (0, _) =>
      -- delimiter: word ends before `c`, `c` itself is dropped
      splitAux rest [] 0 (cur.reverse :: acc)
    | some (_, _) =>
      -- letter/digit boundary after `c`
      splitAux rest [] 0 ((c :: cur).reverse :: acc)
    | none => splitAux rest (c :: cur) skip acc

def split (s : List Nat) : List (List Nat) :=
  (splitAux s [] 0 []).filter (fun w => !w.isEmpty)

def capital : List Nat → List Nat
  | [] => []
  | c :: rest => toUpper c :: rest.map toLower

def upperCamel (s : Text) : Text := ((split s).map capital).flatten

def upperSnake (s : Text) : Text :=
  List.intercalate [95] ((split s).map (·.map toUpper))

end Case
end Qty
