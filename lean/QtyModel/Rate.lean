import QtyModel.Tables
import QtyModel.Oracle
/-
  Model of `src/rate.rs` (`Rate<TQ, PQ>`), of the generated `Mul<Rate<TQ, Self>>` /
  `Div<Rate<Self, PQ>>` operators (`codegen_impl_std_traits`) and of
  `ConversionTable::convert` (`src/converter.rs`).
-/
namespace Qty

/-- `Rate<TQ, PQ>`: units are indices into the tables of `TQ` / `PQ` -/
structure Rate (A : Type) where
  termAmount : A
  termUnit : Nat
  perMultiple : A
  perUnit : Nat
  deriving Repr, DecidableEq

namespace Rate
variable {A : Type} (R : Arith A)

/-- `Rate::from_qty_vals` -/
def fromQtyVals (term per : Q A Nat) : Rate A := ⟨term.amount, term.unit, per.amount, per.unit⟩

/-- `Rate::reciprocal` -/
def reciprocal (r : Rate A) : Rate A := ⟨r.perMultiple, r.perUnit, r.termAmount, r.termUnit⟩

/-- `Div<Self>` of a quantity type, whichever template it was generated from -/
def qdiv (T : RTable A) (a b : Q A Nat) : Res A :=
  match T.kind with
  | .withRef => hrDiv R (T.qt R) a b
  | .noRef => nrDiv R a b
  | .single => R.div a.amount b.amount

/-- `Rate * PQ` and `PQ * Rate`: `((q / 1·per_unit) / per_unit_multiple) * term_amount` in the term unit -/
def mulQ (TP : RTable A) (r : Rate A) (q : Q A Nat) : Res (Q A Nat) := do
  let x ← qdiv R TP q ⟨R.one, r.perUnit⟩
  let amnt ← R.div x r.perMultiple
  return ⟨← R.mul amnt r.termAmount, r.termUnit⟩

/-- `TQ / Rate`: `((q / 1·term_unit) / term_amount) * per_unit_multiple` in the per unit -/
def divQ (TT : RTable A) (q : Q A Nat) (r : Rate A) : Res (Q A Nat) := do
  let x ← qdiv R TT q ⟨R.one, r.termUnit⟩
  let amnt ← R.div x r.termAmount
  return ⟨← R.mul amnt r.perMultiple, r.perUnit⟩

end Rate

/-- error-propagated value of `q / (1·u)` for a quantity `q = (a, qu)` of table `T`
(`Div<Self>`): `.error` = the documented unit-mismatch panic is expected -/
def approxQDiv {A : Type} (R : Arith A) (M : ErrModel) (T : RTable A) (a : Approx) (qu u : Nat) : Except Unit (Option Approx) :=
  let one := Approx.exact 1
  match T.kind with
  | .withRef =>
    if qu == u then .ok (Approx.div M a one)
    else match R.val (T.scaleOf R u), R.val (T.scaleOf R qu) with
      | some su, some sq =>
        .ok (do
          let ratio ← Approx.div M (Approx.exact su) (Approx.exact sq)
          Approx.div M a (Approx.mul M ratio one))
      | _, _ => .ok none
  | .noRef => if qu == u then .ok (Approx.div M a one) else .error ()
  | .single => .ok (Approx.div M a one)

/-- `((q / 1·u) / d) * m` -/
def approxRateApply {A : Type} (R : Arith A) (M : ErrModel) (T : RTable A) (a : Approx) (qu u : Nat) (d m : Approx) :
    Except Unit (Option Approx) :=
  match approxQDiv R M T a qu u with
  | .error e => .error e
  | .ok x => .ok (do
      let x ← x
      let amnt ← Approx.div M x d
      pure (Approx.mul M amnt m))

/-- one row of a `ConversionTable`: `to_amount = from_amount * factor + offset` -/
structure ConvRow (A : Type) where
  fromU : Nat
  toU : Nat
  factor : A
  offset : A
  deriving Repr

/-- `ConversionTable::convert` -/
def tconv {A : Type} (R : Arith A) (rows : List (ConvRow A)) (q : Q A Nat) (to : Nat) :
    Res (Option (Q A Nat)) :=
  if q.unit = to then .ok (some q)
  else
    match rows.find? (fun r => r.fromU == q.unit && r.toU == to) with
    | none => .ok none
    | some r => do
      let m ← R.mul q.amount r.factor
      return some ⟨← R.add m r.offset, to⟩

end Qty
