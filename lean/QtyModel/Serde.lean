import QtyModel.Fmt
import QtyModel.Registry
/-
  Model of the `serde` derives on the generated unit enum and quantity struct
  (`cfg_attr(feature = "serde", derive(Deserialize, Serialize))`) in serde's data
  model, rendered as compact JSON the way `serde_json::to_string` does:
  * unit enum  ↦ string with the variant identifier,
  * struct     ↦ map `{"amount": A, "unit": U}` (single-unit types: `{"amount": A}`),
  * `f64`      ↦ JSON number (text chosen by serde_json, given to the model),
  * `Decimal`  ↦ string with its `Display` text (fpdec feature `serde-as-str`).
-/
namespace Qty.Serde
open Qty

/-- scalar nodes -/
inductive JL where
  | num (repr : Text)
  | str (s : Text)
  deriving Repr, Inhabited, DecidableEq

/-- the trees that occur: a scalar, or a map of scalars -/
inductive JV where
  | leaf (l : JL)
  | obj (fields : List (Text × JL))
  deriving Repr, Inhabited, DecidableEq

def amountKey : Text := [97, 109, 111, 117, 110, 116]   -- "amount"
def unitKey : Text := [117, 110, 105, 116]              -- "unit"

/-- serialisation of a unit: its variant name -/
def serUnit (u : UnitDef) : JL := .str u.ident

/-- serialisation of a quantity value, given the serialised amount -/
def serQty (kind : QtyKind) (amt : JL) (u : UnitDef) : JV :=
  match kind with
  | .single => .obj [(amountKey, amt)]
  | _ => .obj [(amountKey, amt), (unitKey, serUnit u)]

/-- deserialisation of a unit among the variants of its enum -/
def deUnit (units : List UnitDef) : JL → Option Nat
  | .str s => units.findIdx? (fun u => u.ident == s)
  | _ => none

/-- deserialisation of a quantity (field order as serialised), given the amount decoder -/
def deQty {A : Type} (kind : QtyKind) (units : List UnitDef) (deAmt : JL → Option A) : JV → Option (A × Nat)
  | .obj [(k1, a)] => if kind == .single && k1 == amountKey then (deAmt a).map (·, 0) else none
  | .obj [(k1, a), (k2, u)] =>
    if kind != .single && k1 == amountKey && k2 == unitKey then do
      let x ← deAmt a
      let i ← deUnit units u
      pure (x, i)
    else none
  | _ => none

/-- compact JSON text (identifiers and decimal texts need no escaping) -/
def renderLeaf : JL → Text
  | .num r => r
  | .str s => [34] ++ s ++ [34]

def render : JV → Text
  | .leaf l => renderLeaf l
  | .obj fs =>
    [123] ++ List.intercalate [44] (fs.map (fun (k, v) => [34] ++ k ++ [34, 58] ++ renderLeaf v)) ++ [125]

/-- `Display for Decimal` without precision: sign and digits -/
def decText (d : Dec) : Text := (if d.coeff < 0 then [45] else []) ++ Fmt.decAbsText none d

end Qty.Serde

namespace Qty.Serde
open Qty

/-- `FromStr for Decimal` restricted to plain decimal texts `[-]digits[.digits]`
(what `Display` produces): coefficient = all digits, digit count = number of fractional digits -/
def decOfText (t : Text) : Option Dec :=
  let (neg, t) := match t with
    | 45 :: r => (true, r)
    | _ => (false, t)
  let ip := t.takeWhile (· != 46)
  let rest := t.dropWhile (· != 46)
  let fp := match rest with
    | 46 :: r => r
    | _ => []
  if ip.isEmpty || !(ip.all Case.isDigit) || !(fp.all Case.isDigit) || (rest.length = 1) then none
  else
    let num (ds : Text) : Nat := ds.foldl (fun acc c => acc * 10 + (c - 48)) 0
    let c : Int := (num (ip ++ fp) : Nat)
    some ⟨if neg then -c else c, fp.length⟩

end Qty.Serde
