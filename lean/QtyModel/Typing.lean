import QtyModel.Derived
/-
  Model of which operator applications between quantity types type-check:
  the table of `impl Op<Rhs> for Lhs { type Output = Out }` items the macro
  generates for a list of definitions (rustc's trait selection is then a lookup).

  Types are names; `AmountT` is the dimensionless amount.  Operators:
  `+ - * /` and the comparison operators `==` (PartialEq) and `<` (PartialOrd),
  whose result is `bool`.
-/
namespace Qty

inductive BinOp where
  | add | sub | mul | div | eq | lt
  deriving DecidableEq, Repr, Inhabited

def BinOp.all : List BinOp := [.add, .sub, .mul, .div, .eq, .lt]

def BinOp.sym : BinOp → String
  | .add => "+" | .sub => "-" | .mul => "*" | .div => "/" | .eq => "==" | .lt => "<"

/-- "bool" -/
def boolName : Text := [98, 111, 111, 108]

/-- one `impl`: `lhs op rhs : out` -/
structure OpImpl where
  op : BinOp
  lhs : Text
  rhs : Text
  out : Text
  deriving DecidableEq, Repr, Inhabited

/-- what a definition looks like to the type checker -/
structure TyDecl where
  name : Text
  kind : QtyKind
  derived : Option Derived
  deriving DecidableEq, Repr, Inhabited

def TyDecl.ofDef (d : QtyDef) : TyDecl := ⟨d.name, d.kind, d.derived⟩

/-- the impls every quantity type gets (`codegen_qty_*`, `codegen_impl_std_traits`) -/
def baseImpls (d : TyDecl) : List OpImpl :=
  [⟨.add, d.name, d.name, d.name⟩, ⟨.sub, d.name, d.name, d.name⟩, ⟨.div, d.name, d.name, amountName⟩,
   ⟨.mul, d.name, amountName, d.name⟩, ⟨.div, d.name, amountName, d.name⟩, ⟨.mul, amountName, d.name, d.name⟩] ++
  (if d.kind = .single then [] else [⟨.eq, d.name, d.name, boolName⟩, ⟨.lt, d.name, d.name, boolName⟩])

/-- the impls of a derivation; they carry `where Self: HasRefUnit, Rhs: HasRefUnit` bounds,
so they only apply when both operand types have a reference unit -/
def derivedImpls (d : TyDecl) : List OpImpl :=
  (implsOf d.name d.derived).map (fun i => ⟨if i.isMul then .mul else .div, i.lhs, i.rhs, i.out⟩)

/-- the primitive impls of the amount type itself -/
def amountImpls : List OpImpl :=
  [⟨.add, amountName, amountName, amountName⟩, ⟨.sub, amountName, amountName, amountName⟩,
   ⟨.mul, amountName, amountName, amountName⟩, ⟨.div, amountName, amountName, amountName⟩,
   ⟨.eq, amountName, amountName, boolName⟩, ⟨.lt, amountName, amountName, boolName⟩]

def hasRefUnit (decls : List TyDecl) (n : Text) : Bool :=
  n == amountName || decls.any (fun d => d.name == n && d.kind == .withRef)

def implTable (decls : List TyDecl) : List OpImpl :=
  amountImpls ++ decls.flatMap baseImpls ++
    (decls.flatMap derivedImpls).filter (fun i => hasRefUnit decls i.lhs && hasRefUnit decls i.rhs)

/-- verdict of the type checker for `l op r`: the result type, or `none` = rejected -/
def typechecks (decls : List TyDecl) (op : BinOp) (l r : Text) : Option Text :=
  ((implTable decls).find? (fun i => i.op == op && i.lhs == l && i.rhs == r)).map (·.out)

end Qty
