import QtyModel.Lemmas.F64Laws
/-
  Helper lemmas about the software binary64 model for operands that may be
  infinite: multiplying by a datum of exact value 1 is invisible to `partial_cmp`
  for every non-NaN binary64 value (finite or infinite).
-/
namespace Qty
namespace F64

/-- `partial_cmp` sees only the exact value of a finite (well-formed) left operand. -/
theorem pcmp_congr_left {p q : F64} {y : ℚ} (hp : val p = some y) (hq : val q = some y)
    (z : F64) : pcmp p z = pcmp q z := by
  obtain ⟨s, m, e, rfl, -, -, -, h1⟩ := val_some hp
  obtain ⟨t, n, f, rfl, -, -, -, h2⟩ := val_some hq
  cases z with
  | nan => simp [pcmp]
  | inf u => simp [pcmp]
  | fin u k g => rw [pcmp_fin, pcmp_fin, ← h1, ← h2]

/-- `partial_cmp` sees only the exact value of a finite (well-formed) right operand. -/
theorem pcmp_congr_right {p q : F64} {y : ℚ} (hp : val p = some y) (hq : val q = some y)
    (z : F64) : pcmp z p = pcmp z q := by
  rw [pcmp_flip p z, pcmp_flip q z, pcmp_congr_left hp hq]

/-- a datum of exact value 1 is a positive, non-zero finite datum -/
theorem val_one_form {c : F64} (hc : val c = some 1) :
    ∃ m e, c = .fin false m e ∧ m ≠ 0 := by
  obtain ⟨s, m, e, rfl, -, -, -, h⟩ := val_some hc
  have hm : m ≠ 0 := fun h0 => by
    rw [tr_eq_zero.mpr h0] at h; exact one_ne_zero h
  cases s with
  | false => exact ⟨m, e, rfl, hm⟩
  | true =>
    exfalso
    unfold tr at h
    have h1 := P_pos e
    have h2 : (0:ℚ) ≤ (m:ℚ) := Nat.cast_nonneg m
    have h3 : 0 ≤ (m:ℚ) * 2 ^ e := mul_nonneg h2 (le_of_lt h1)
    simp only [if_true] at h
    have h4 : (-1:ℚ) * (m:ℚ) * 2 ^ e = -((m:ℚ) * 2 ^ e) := by ring
    rw [h4] at h
    linarith

/-- `1 · (±inf) = ±inf`, whatever representation the `1` has -/
theorem one_mul_inf {c : F64} (hc : val c = some 1) (t : Bool) : mul c (.inf t) = .inf t := by
  obtain ⟨m, e, rfl, hm⟩ := val_one_form hc
  simp [mul, hm]

/-- `1 · x` of a finite well-formed `x` has the exact value of `x` -/
theorem one_mul_fin_val {c : F64} (hc : val c = some 1) (t : Bool) (n : ℕ) (f : ℤ)
    (hw : wf (.fin t n f) = true) :
    val (.fin t n f) = some (tr t n f) ∧ val (mul c (.fin t n f)) = some (tr t n f) := by
  have hv : val (.fin t n f) = some (tr t n f) := by
    unfold val; rw [if_pos hw, toRat_fin]
  obtain ⟨d, hd, hdv⟩ := laws.one_mul_val c _ _ hc hv
  have hd' : mul c (.fin t n f) = d := Except.ok.inj hd
  exact ⟨hv, by rw [hd']; exact hdv⟩

/-- `1 · x` compares (as left operand) exactly like `x`, for every non-NaN binary64 `x` -/
theorem one_mul_pcmp_left {c x : F64} (hc : val c = some 1) (hx : x ≠ .nan)
    (hw : wf x = true) (z : F64) : pcmp (mul c x) z = pcmp x z := by
  cases x with
  | nan => exact absurd rfl hx
  | inf t => rw [one_mul_inf hc]
  | fin t n f =>
    obtain ⟨h1, h2⟩ := one_mul_fin_val hc t n f hw
    exact pcmp_congr_left h2 h1 z

/-- `1 · x` compares (as right operand) exactly like `x`, for every non-NaN binary64 `x` -/
theorem one_mul_pcmp_right {c x : F64} (hc : val c = some 1) (hx : x ≠ .nan)
    (hw : wf x = true) (z : F64) : pcmp z (mul c x) = pcmp z x := by
  rw [pcmp_flip (mul c x) z, pcmp_flip x z, one_mul_pcmp_left hc hx hw]

end F64
end Qty
