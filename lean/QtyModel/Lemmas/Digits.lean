import QtyModel.Fmt
import QtyModel.Lemmas.Basic
/-
  Decimal digit strings: `natDigits` denotes its argument, digit counts, zero padding,
  and the behaviour of the `[-]digits[.digits]` splitter on such texts.
-/
namespace Qty.Digits
open Qty Qty.Fmt

/-- value of a digit string -/
def num (ds : Text) : Nat := ds.foldl (fun acc c => acc * 10 + (c - 48)) 0

theorem foldl_start (xs : Text) (a : Nat) :
    xs.foldl (fun acc c => acc * 10 + (c - 48)) a = a * 10 ^ xs.length + num xs := by
  induction xs generalizing a with
  | nil => simp [num]
  | cons x xs ih =>
    simp only [List.foldl_cons, List.length_cons, num]
    rw [ih, ih (0 * 10 + (x - 48))]
    ring

theorem num_append (xs ys : Text) : num (xs ++ ys) = num xs * 10 ^ ys.length + num ys := by
  unfold num
  rw [List.foldl_append, foldl_start]
  rfl

theorem num_nil : num [] = 0 := rfl

theorem num_single (c : Nat) : num [c] = c - 48 := by simp [num]

theorem num_rep_zero (k : Nat) : num (rep k 48) = 0 := by
  induction k with
  | zero => rfl
  | succ k ih =>
    have : rep (k + 1) 48 = rep k 48 ++ [48] := by
      simp [rep, List.replicate_succ']
    rw [this, num_append, ih]; simp [num]

theorem all_rep_zero (k : Nat) : (rep k 48).all Case.isDigit = true := by
  simp [rep, List.all_replicate, Case.isDigit]

/-! ### `natDigitsAux` -/

theorem aux_acc (fuel : Nat) : ∀ (n : Nat) (acc : Text),
    natDigitsAux fuel n acc = natDigitsAux fuel n [] ++ acc := by
  induction fuel with
  | zero => intro n acc; simp [natDigitsAux]
  | succ fuel ih =>
    intro n acc
    unfold natDigitsAux
    split
    · simp
    · rw [ih _ (_ :: acc), ih _ [_]]; simp

theorem aux_succ (fuel n : Nat) (h : n ≠ 0) :
    natDigitsAux (fuel + 1) n [] = natDigitsAux fuel (n / 10) [] ++ [48 + n % 10] := by
  rw [natDigitsAux, if_neg h, aux_acc]

theorem aux_zero (fuel : Nat) : natDigitsAux fuel 0 [] = [] := by
  cases fuel <;> simp [natDigitsAux]

theorem aux_num (fuel : Nat) : ∀ n, n ≤ fuel → num (natDigitsAux fuel n []) = n := by
  induction fuel with
  | zero => intro n h; have : n = 0 := by omega
            subst this; rfl
  | succ fuel ih =>
    intro n h
    by_cases h0 : n = 0
    · subst h0; rw [aux_zero]; rfl
    · rw [aux_succ _ _ h0, num_append, ih _ (by omega), num_single]
      simp; omega

theorem aux_all (fuel : Nat) : ∀ n, (natDigitsAux fuel n []).all Case.isDigit = true := by
  induction fuel with
  | zero => intro n; rfl
  | succ fuel ih =>
    intro n
    by_cases h0 : n = 0
    · subst h0; rw [aux_zero]; rfl
    · rw [aux_succ _ _ h0, List.all_append, ih]
      have : n % 10 < 10 := Nat.mod_lt _ (by omega)
      simp [Case.isDigit]; omega

theorem aux_len (fuel : Nat) : ∀ n k, n ≤ fuel → n < 10 ^ k → (natDigitsAux fuel n []).length ≤ k := by
  induction fuel with
  | zero => intro n k h _; simp [natDigitsAux]
  | succ fuel ih =>
    intro n k h hk
    by_cases h0 : n = 0
    · subst h0; rw [aux_zero]; simp
    · rw [aux_succ _ _ h0, List.length_append]
      cases k with
      | zero => simp at hk; omega
      | succ k =>
        have := ih (n / 10) k (by omega) (by rw [Nat.pow_succ] at hk; omega)
        simp; omega

/-! ### `natDigits` -/

theorem natDigits_num (n : Nat) : num (natDigits n) = n := by
  unfold natDigits
  split
  · next h => subst h; rfl
  · exact aux_num _ _ (by omega)

theorem natDigits_all (n : Nat) : (natDigits n).all Case.isDigit = true := by
  unfold natDigits
  split
  · rfl
  · exact aux_all _ _

theorem natDigits_ne_nil (n : Nat) : natDigits n ≠ [] := by
  unfold natDigits
  split
  · simp
  · next h => rw [aux_succ _ _ h]; simp

theorem natDigits_len (n k : Nat) (hk : 0 < k) (h : n < 10 ^ k) : (natDigits n).length ≤ k := by
  unfold natDigits
  split
  · simp; omega
  · exact aux_len _ _ _ (by omega) h

/-! ### zero padding -/

theorem zeroPad_num (w : Nat) (t : Text) : num (zeroPadLeft w t) = num t := by
  unfold zeroPadLeft
  rw [num_append, num_rep_zero]; simp

theorem zeroPad_all (w : Nat) (t : Text) (h : t.all Case.isDigit = true) :
    (zeroPadLeft w t).all Case.isDigit = true := by
  unfold zeroPadLeft
  rw [List.all_append, all_rep_zero, h]; rfl

theorem zeroPad_len (w : Nat) (t : Text) (h : t.length ≤ w) : (zeroPadLeft w t).length = w := by
  unfold zeroPadLeft
  simp [rep]; omega

/-! ### the `[-]digits[.digits]` splitter shared by `parseDecText` and `decOfText` -/

theorem digit_ne_dot {c : Nat} (h : Case.isDigit c = true) : (c != 46) = true := by
  simp [Case.isDigit] at h ⊢; omega

theorem digit_ne_minus {c : Nat} (h : Case.isDigit c = true) : c ≠ 45 := by
  simp [Case.isDigit] at h; omega

theorem takeWhile_digits (ip : Text) (h : ip.all Case.isDigit = true) :
    ip.takeWhile (· != 46) = ip := by
  induction ip with
  | nil => simp
  | cons a ip ih =>
    simp only [List.all_cons, Bool.and_eq_true] at h
    simp [digit_ne_dot h.1, ih h.2]

theorem dropWhile_digits (ip : Text) (h : ip.all Case.isDigit = true) :
    ip.dropWhile (· != 46) = [] := by
  induction ip with
  | nil => simp
  | cons a ip ih =>
    simp only [List.all_cons, Bool.and_eq_true] at h
    simp [digit_ne_dot h.1, ih h.2]

theorem takeWhile_split (ip fp : Text) (h : ip.all Case.isDigit = true) :
    (ip ++ 46 :: fp).takeWhile (· != 46) = ip := by
  induction ip with
  | nil => simp
  | cons a ip ih =>
    simp only [List.all_cons, Bool.and_eq_true] at h
    simp [digit_ne_dot h.1, ih h.2]

theorem dropWhile_split (ip fp : Text) (h : ip.all Case.isDigit = true) :
    (ip ++ 46 :: fp).dropWhile (· != 46) = 46 :: fp := by
  induction ip with
  | nil => simp
  | cons a ip ih =>
    simp only [List.all_cons, Bool.and_eq_true] at h
    simp [digit_ne_dot h.1, ih h.2]

/-- the optional leading `-` -/
def stripSign (t : Text) : Bool × Text :=
  match t with
  | 45 :: r => (true, r)
  | _ => (false, t)

/-- integral and fractional digit strings of `digits[.digits]` -/
def splitDigits (t : Text) : Option (Text × Text) :=
  let ip := t.takeWhile (· != 46)
  let rest := t.dropWhile (· != 46)
  let fp := match rest with
    | 46 :: r => r
    | _ => []
  if ip.isEmpty || !(ip.all Case.isDigit) || !(fp.all Case.isDigit) || (rest.length = 1) then none
  else some (ip, fp)

theorem stripSign_nosign (t : Text) (h : ∀ r, t ≠ 45 :: r) : stripSign t = (false, t) := by
  unfold stripSign
  split
  · next r => exact absurd rfl (h r)
  · rfl

theorem stripSign_minus (t : Text) : stripSign (45 :: t) = (true, t) := rfl

theorem head_digit_nosign (t : Text) (hne : t ≠ []) (h : t.all Case.isDigit = true) (s : Text) :
    ∀ r, t ++ s ≠ 45 :: r := by
  intro r e
  cases t with
  | nil => exact hne rfl
  | cons a t =>
    simp only [List.all_cons, Bool.and_eq_true] at h
    simp only [List.cons_append, List.cons.injEq] at e
    exact digit_ne_minus h.1 e.1

theorem split_int (ip : Text) (hne : ip ≠ []) (hd : ip.all Case.isDigit = true) :
    splitDigits ip = some (ip, []) := by
  unfold splitDigits
  simp only [takeWhile_digits ip hd, dropWhile_digits ip hd, hd]
  simp [hne]

theorem split_frac (ip fp : Text) (hne : ip ≠ []) (hd : ip.all Case.isDigit = true)
    (hfne : fp ≠ []) (hf : fp.all Case.isDigit = true) :
    splitDigits (ip ++ 46 :: fp) = some (ip, fp) := by
  unfold splitDigits
  simp only [takeWhile_split ip fp hd, dropWhile_split ip fp hd, hd, hf]
  have : fp.length ≠ 0 := by simpa using hfne
  simp [hne, this]

/-- `parseDecText` after the sign has been split off -/
def parseCore (neg : Bool) (t : Text) : Option (Rat × Nat) :=
  let ip := t.takeWhile (· != 46)
  let rest := t.dropWhile (· != 46)
  let fp := match rest with
    | 46 :: r => r
    | _ => []
  if ip.isEmpty || !(ip.all Case.isDigit) || !(fp.all Case.isDigit) || (rest.length = 1) then none
  else
    let v : Rat := ((num (ip ++ fp) : Nat) : Int) / pow10 fp.length
    some (if neg then -v else v, fp.length)

theorem parseCore_eq (neg : Bool) (t : Text) :
    parseCore neg t = (splitDigits t).map (fun p =>
      let v : Rat := ((num (p.1 ++ p.2) : Nat) : Int) / pow10 p.2.length
      (if neg then -v else v, p.2.length)) := by
  unfold parseCore splitDigits
  dsimp only
  split_ifs <;> rfl

theorem parse_eq (t : Text) :
    parseDecText t = (splitDigits (stripSign t).2).map (fun p =>
      let v : Rat := ((num (p.1 ++ p.2) : Nat) : Int) / pow10 p.2.length
      (if (stripSign t).1 then -v else v, p.2.length)) := by
  rw [← parseCore_eq]; rfl

theorem parse_int (ip : Text) (hne : ip ≠ []) (hd : ip.all Case.isDigit = true) :
    parseDecText ip = some ((((num ip : Nat) : Int) : Rat), 0) := by
  rw [parse_eq, stripSign_nosign _ (by simpa using head_digit_nosign ip hne hd [])]
  simp only [split_int ip hne hd, Option.map_some]
  simp [pow10]

theorem parse_frac (ip fp : Text) (hne : ip ≠ []) (hd : ip.all Case.isDigit = true)
    (hfne : fp ≠ []) (hf : fp.all Case.isDigit = true) :
    parseDecText (ip ++ [46] ++ fp)
      = some ((((num ip * 10 ^ fp.length + num fp : Nat) : Int) : Rat) / pow10 fp.length, fp.length) := by
  rw [List.append_assoc, List.singleton_append, parse_eq,
    stripSign_nosign _ (head_digit_nosign ip hne hd _)]
  simp only [split_frac ip fp hne hd hfne hf, Option.map_some, num_append]
  simp

/-- `i.f` with `f` written with exactly `p` digits -/
theorem parse_fixed (i f p : Nat) (hp : 0 < p) (hf : f < 10 ^ p) :
    parseDecText (natDigits i ++ [46] ++ zeroPadLeft p (natDigits f))
      = some ((((i * 10 ^ p + f : Nat) : Int) : Rat) / pow10 p, p) := by
  have hl : (zeroPadLeft p (natDigits f)).length = p := zeroPad_len _ _ (natDigits_len f p hp hf)
  rw [parse_frac _ _ (natDigits_ne_nil i) (natDigits_all i)
    (by intro e; rw [e] at hl; simp at hl; omega) (zeroPad_all _ _ (natDigits_all f)),
    hl, natDigits_num, zeroPad_num, natDigits_num]

theorem parse_nat (i : Nat) : parseDecText (natDigits i) = some ((((i : Nat) : Int) : Rat), 0) := by
  rw [parse_int _ (natDigits_ne_nil i) (natDigits_all i), natDigits_num]

/-- the text without a precision -/
theorem decAbsText_none (d : Dec) :
    decAbsText none d =
      if d.nfd = 0 then natDigits d.coeff.natAbs
      else natDigits (d.coeff.natAbs / 10 ^ d.nfd) ++ [46]
        ++ zeroPadLeft d.nfd (natDigits (d.coeff.natAbs % 10 ^ d.nfd)) := by
  unfold decAbsText
  by_cases h : d.nfd = 0
  · simp [h]
  · have : 0 < d.nfd := Nat.pos_of_ne_zero h
    simp [h, this]

/-- the digit strings of the text without a precision: all digits of `|coeff|`, `nfd` of them
after the point; the text does not start with `-` -/
theorem absText_split (d : Dec) :
    ∃ ip fp, splitDigits (decAbsText none d) = some (ip, fp) ∧ num (ip ++ fp) = d.coeff.natAbs ∧
      fp.length = d.nfd ∧ ∀ r, decAbsText none d ≠ 45 :: r := by
  rw [decAbsText_none]
  split
  · next h =>
    refine ⟨_, [], split_int _ (natDigits_ne_nil _) (natDigits_all _), ?_, h.symm, ?_⟩
    · simp [natDigits_num]
    · simpa using head_digit_nosign _ (natDigits_ne_nil d.coeff.natAbs) (natDigits_all _) []
  · next h =>
    have hp : 0 < d.nfd := Nat.pos_of_ne_zero h
    have hl : (zeroPadLeft d.nfd (natDigits (d.coeff.natAbs % 10 ^ d.nfd))).length = d.nfd :=
      zeroPad_len _ _ (natDigits_len _ _ hp (Nat.mod_lt _ (by positivity)))
    refine ⟨natDigits (d.coeff.natAbs / 10 ^ d.nfd),
      zeroPadLeft d.nfd (natDigits (d.coeff.natAbs % 10 ^ d.nfd)), ?_, ?_, hl, ?_⟩
    · rw [List.append_assoc, List.singleton_append]
      exact split_frac _ _ (natDigits_ne_nil _) (natDigits_all _)
        (by intro e; rw [e] at hl; simp at hl; omega) (zeroPad_all _ _ (natDigits_all _))
    · rw [num_append, hl, natDigits_num, zeroPad_num, natDigits_num, Nat.div_add_mod']
    · rw [List.append_assoc]
      exact head_digit_nosign _ (natDigits_ne_nil _) (natDigits_all _) _

end Qty.Digits
