import QtyModel.Lemmas.Basic
import Mathlib.Tactic.Linarith
import Mathlib.Tactic.NormNum
import Mathlib.Tactic.Positivity
import Mathlib.Tactic.Ring
import Mathlib.Tactic.FieldSimp
import Mathlib.Data.Rat.Cast.Order
import Mathlib.Algebra.Order.Ring.Abs
/-
  The rounding laws for the exact model of `fpdec::Decimal`.
-/
namespace Qty

/-! ### basic facts -/

theorem pow10_eq (n : Nat) : pow10 n = (10 : ℚ) ^ n := by
  unfold pow10; push_cast; rfl

theorem pow10_pos (n : Nat) : 0 < pow10 n := by
  rw [pow10_eq]; positivity

namespace Dec

theorem tenPow_eq (n : Nat) : tenPow n = (10 : Int) ^ n := by
  unfold tenPow; push_cast; rfl

theorem tenPow_pos (n : Nat) : 0 < tenPow n := by
  rw [tenPow_eq]; positivity

theorem tenPow_cast (n : Nat) : ((tenPow n : Int) : ℚ) = (10 : ℚ) ^ n := by
  rw [tenPow_eq]; push_cast; rfl

theorem toRat_eq (d : Dec) : d.toRat = (d.coeff : ℚ) / (10 : ℚ) ^ d.nfd := by
  unfold toRat; rw [pow10_eq]

theorem fits_iff (c : Int) : fits c = true ↔ -(2 ^ 127) ≤ c ∧ c ≤ 2 ^ 127 - 1 := by
  unfold fits i128Min i128Max; simp

theorem wf_iff (d : Dec) : d.wf = true ↔ fits d.coeff = true ∧ d.nfd ≤ 18 := by
  unfold wf maxNfd; simp

theorem val_some {a : Dec} {x : ℚ} (h : Dec.arith.val a = some x) :
    a.wf = true ∧ x = a.toRat := by
  simp only [arith] at h
  split at h
  · next hw => exact ⟨hw, by injection h with h; exact h.symm⟩
  · cases h

theorem val_of_wf {a : Dec} (h : a.wf = true) : Dec.arith.val a = some a.toRat := by
  simp [arith, h]

/-- an integer whose magnitude is at most `10^37 + 1/2` is an `i128` -/
theorem fits_of_abs_le (c : Int) (h : |(c : ℚ)| ≤ 10 ^ 37 + 1 / 2) : fits c = true := by
  rw [abs_le] at h
  obtain ⟨h1, h2⟩ := h
  have h1' : ((-(10 ^ 37 + 1) : Int) : ℚ) < (c : ℚ) := by push_cast; linarith
  have h2' : (c : ℚ) < ((10 ^ 37 + 1 : Int) : ℚ) := by push_cast; linarith
  have h1'' : -(10 ^ 37 + 1) < c := by exact_mod_cast h1'
  have h2'' : c < 10 ^ 37 + 1 := by exact_mod_cast h2'
  rw [fits_iff]
  constructor <;> omega

end Dec

/-! ### round-half-even division -/

/-- the positive-divisor core of `divRoundHalfEven` -/
def rheCore (n d : Int) : Int :=
  if n % d = 0 then n / d
  else if 2 * (n % d) > d ∨ (2 * (n % d) = d ∧ (n / d) % 2 ≠ 0) then n / d + 1 else n / d

theorem divRoundHalfEven_eq (n d : Int) :
    divRoundHalfEven n d = if d < 0 then rheCore (-n) (-d) else rheCore n d := by
  unfold divRoundHalfEven rheCore
  by_cases h : d < 0
  · simp only [h, if_true]
  · simp only [h, if_false]

theorem rheCore_bound (n d : Int) (hd : 0 < d) :
    -d ≤ 2 * (rheCore n d * d - n) ∧ 2 * (rheCore n d * d - n) ≤ d := by
  have h1 : d * (n / d) + n % d = n := Int.mul_ediv_add_emod n d
  have h2 : 0 ≤ n % d := Int.emod_nonneg n (ne_of_gt hd)
  have h3 : n % d < d := Int.emod_lt_of_pos n hd
  unfold rheCore
  generalize n / d = q at *
  generalize n % d = r at *
  split_ifs with e1 e2
  · constructor <;> nlinarith
  · rcases e2 with e2 | ⟨e2, _⟩ <;> constructor <;> nlinarith
  · have : 2 * r ≤ d := by
      by_contra hc
      exact e2 (Or.inl (by omega))
    constructor <;> nlinarith

theorem rheCore_bound_rat (n d : Int) (hd : 0 < d) :
    |((rheCore n d : Int) : ℚ) - (n : ℚ) / (d : ℚ)| ≤ 1 / 2 := by
  obtain ⟨h1, h2⟩ := rheCore_bound n d hd
  have h1' : -(d : ℚ) ≤ 2 * (((rheCore n d : Int) : ℚ) * d - n) := by exact_mod_cast h1
  have h2' : 2 * (((rheCore n d : Int) : ℚ) * d - n) ≤ (d : ℚ) := by exact_mod_cast h2
  have hdq : (0 : ℚ) < d := by exact_mod_cast hd
  have e : ((rheCore n d : Int) : ℚ) - (n : ℚ) / (d : ℚ)
      = (((rheCore n d : Int) : ℚ) * d - n) / d := by field_simp
  rw [e, abs_le]
  constructor
  · rw [le_div_iff₀ hdq]; linarith
  · rw [div_le_iff₀ hdq]; linarith

theorem rhe_bound (n d : Int) (hd : d ≠ 0) :
    |((divRoundHalfEven n d : Int) : ℚ) - (n : ℚ) / (d : ℚ)| ≤ 1 / 2 := by
  rw [divRoundHalfEven_eq]
  split_ifs with h
  · have := rheCore_bound_rat (-n) (-d) (by omega)
    push_cast at this
    rwa [neg_div_neg_eq] at this
  · exact rheCore_bound_rat n d (by omega)

namespace Dec

theorem i128Max_toNat : i128Max.toNat = 2 ^ 127 - 1 := by
  unfold i128Max; rfl

/-- the rounding step shared by `mul` and `div`: the exact quotient `N / D` is `q·10^18`
with `|q| ≤ 10^19`. -/
theorem round_core (N D : Int) (hD : D ≠ 0) (q : ℚ) (hq : (N : ℚ) / (D : ℚ) = q * 10 ^ 18)
    (hs : |q| ≤ 10 ^ 19) :
    fits (divRoundHalfEven N D) = true ∧
    |((divRoundHalfEven N D : Int) : ℚ) / 10 ^ 18 - q| ≤ 1 / (2 * 10 ^ 18) ∧
    ¬ (N.natAbs / D.natAbs > i128Max.toNat) := by
  have hb := rhe_bound N D hD
  rw [hq] at hb
  generalize divRoundHalfEven N D = r at *
  have hq18 : |q * 10 ^ 18| ≤ 10 ^ 37 := by
    rw [abs_mul, abs_of_pos (by positivity : (0 : ℚ) < 10 ^ 18)]
    calc |q| * 10 ^ 18 ≤ 10 ^ 19 * 10 ^ 18 := by
          apply mul_le_mul_of_nonneg_right hs (by positivity)
      _ = 10 ^ 37 := by norm_num
  refine ⟨?_, ?_, ?_⟩
  · apply fits_of_abs_le
    have : (r : ℚ) = ((r : ℚ) - q * 10 ^ 18) + q * 10 ^ 18 := by ring
    rw [this]
    calc _ ≤ |(r : ℚ) - q * 10 ^ 18| + |q * 10 ^ 18| := abs_add_le _ _
      _ ≤ 1 / 2 + 10 ^ 37 := add_le_add hb hq18
      _ = 10 ^ 37 + 1 / 2 := by ring
  · have e : (r : ℚ) / 10 ^ 18 - q = ((r : ℚ) - q * 10 ^ 18) / 10 ^ 18 := by field_simp
    rw [e, abs_div, abs_of_pos (by positivity : (0 : ℚ) < 10 ^ 18), div_le_iff₀ (by positivity)]
    calc _ ≤ (1 : ℚ) / 2 := hb
      _ = _ := by norm_num
  · have hDq : (D : ℚ) ≠ 0 := by exact_mod_cast hD
    have hDpos : (0 : ℚ) < |(D : ℚ)| := abs_pos.mpr hDq
    have h1 : |(N : ℚ)| ≤ |(D : ℚ)| * 10 ^ 37 := by
      rw [← hq, abs_div, div_le_iff₀ hDpos] at hq18
      linarith
    have h2 : ((N.natAbs : Nat) : ℚ) ≤ ((D.natAbs * 10 ^ 37 : Nat) : ℚ) := by
      push_cast
      rw [Nat.cast_natAbs, Nat.cast_natAbs, Int.cast_abs, Int.cast_abs]
      exact h1
    have h3 : N.natAbs ≤ D.natAbs * 10 ^ 37 := by exact_mod_cast h2
    have h4 : N.natAbs / D.natAbs ≤ 10 ^ 37 := Nat.div_le_of_le_mul h3
    rw [i128Max_toNat]
    omega

end Dec

namespace Dec

/-! ### `normalize` -/

theorem normalizeAux_spec (fuel : Nat) : ∀ (c : Int) (n : Nat), fits c = true → n ≤ 18 →
    (normalizeAux fuel c n).wf = true ∧
    (normalizeAux fuel c n).toRat = (c : ℚ) / (10 : ℚ) ^ n := by
  induction fuel with
  | zero =>
    intro c n hc hn
    unfold normalizeAux
    exact ⟨(wf_iff _).mpr ⟨hc, hn⟩, toRat_eq _⟩
  | succ fuel ih =>
    intro c n hc hn
    unfold normalizeAux
    split_ifs with h
    · obtain ⟨hn0, hc0⟩ := h
      have hc' : fits (c / 10) = true := by
        rw [fits_iff] at hc ⊢
        constructor <;> omega
      obtain ⟨w, e⟩ := ih (c / 10) (n - 1) hc' (by omega)
      refine ⟨w, ?_⟩
      rw [e]
      have hck : c = 10 * (c / 10) := by omega
      have hnk : n = (n - 1) + 1 := by omega
      generalize c / 10 = k at *
      generalize n - 1 = j at *
      subst hck hnk
      push_cast
      rw [pow_succ]
      field_simp
    · exact ⟨(wf_iff _).mpr ⟨hc, hn⟩, toRat_eq _⟩

theorem normalize_spec (c : Int) (n : Nat) (hc : fits c = true) (hn : n ≤ 18) :
    (normalize c n).wf = true ∧ (normalize c n).toRat = (c : ℚ) / (10 : ℚ) ^ n := by
  unfold normalize
  split_ifs with h
  · subst h
    refine ⟨by decide, ?_⟩
    rw [toRat_eq]; simp
  · exact normalizeAux_spec n c n hc hn

/-! ### helpers -/

theorem safe_iff (t : ℚ) : ErrModel.dec.safe t = true ↔ |t| ≤ 10 ^ 19 := by
  simp [ErrModel.dec, ratAbs_eq_abs, pow10_eq]

theorem dec_E (t : ℚ) : ErrModel.dec.E t = 1 / (2 * 10 ^ 18) := by
  simp [ErrModel.dec, ErrModel.eta18, pow10_eq]

theorem dec_Ea (t : ℚ) : ErrModel.dec.Ea t = 0 := rfl

theorem eqZero_iff (a : Dec) : a.eqZero = true ↔ a.coeff = 0 := by
  simp [eqZero]

theorem eqOne_iff (a : Dec) : a.eqOne = true ↔ a.coeff = tenPow a.nfd := by
  simp [eqOne]

theorem toRat_of_coeff_zero {a : Dec} (h : a.coeff = 0) : a.toRat = 0 := by
  rw [toRat_eq, h]; simp

theorem toRat_of_eqOne {a : Dec} (h : a.coeff = tenPow a.nfd) : a.toRat = 1 := by
  rw [toRat_eq, h, tenPow_cast]
  exact div_self (by positivity)

theorem coeff_zero_of_toRat {a : Dec} (h : a.toRat = 0) : a.coeff = 0 := by
  rw [toRat_eq, div_eq_zero_iff] at h
  rcases h with h | h
  · exact_mod_cast h
  · exact absurd h (by positivity)

theorem eqOne_of_toRat {a : Dec} (h : a.toRat = 1) : a.coeff = tenPow a.nfd := by
  rw [toRat_eq, div_eq_one_iff_eq (by positivity)] at h
  have : (a.coeff : ℚ) = ((tenPow a.nfd : Int) : ℚ) := by rw [tenPow_cast]; exact h
  exact_mod_cast this

theorem wf_zero : zero.wf = true := by decide
theorem wf_one : one.wf = true := by decide
theorem toRat_zero : zero.toRat = 0 := toRat_of_coeff_zero rfl
theorem toRat_one : one.toRat = 1 := by rw [toRat_eq]; simp [one]

theorem chk_ok {c : Int} (n : Nat) (h : fits c = true) : chk c n = .ok ⟨c, n⟩ := by
  simp [chk, h]

/-- a coefficient whose value at `k ≤ 18` digits is in the safe range is an `i128` -/
theorem fits_of_scaled (c : Int) (k : Nat) (hk : k ≤ 18) (h : |(c : ℚ) / 10 ^ k| ≤ 10 ^ 19) :
    fits c = true := by
  apply fits_of_abs_le
  have hp : (0 : ℚ) < 10 ^ k := by positivity
  have hk' : (10 : ℚ) ^ k ≤ 10 ^ 18 := pow_le_pow_right₀ (by norm_num) hk
  rw [abs_div, abs_of_pos hp, div_le_iff₀ hp] at h
  calc |(c : ℚ)| ≤ 10 ^ 19 * 10 ^ k := h
    _ ≤ 10 ^ 19 * 10 ^ 18 := by apply mul_le_mul_of_nonneg_left hk' (by positivity)
    _ ≤ 10 ^ 37 + 1 / 2 := by norm_num

theorem eta_pos : (0 : ℚ) ≤ 1 / (2 * 10 ^ 18) := by positivity

end Dec

namespace Dec

/-! ### multiplication -/

theorem toRat_mul (a b : Dec) :
    a.toRat * b.toRat = ((a.coeff * b.coeff : Int) : ℚ) / 10 ^ (a.nfd + b.nfd) := by
  rw [toRat_eq, toRat_eq, pow_add]; push_cast
  field_simp

theorem mul_ok (a b : Dec) (x y : ℚ) (ha : Dec.arith.val a = some x)
    (hb : Dec.arith.val b = some y) (hs : ErrModel.dec.safe (x * y) = true) :
    ∃ c z, Dec.arith.mul a b = .ok c ∧ Dec.arith.val c = some z ∧
      ratAbs (z - x * y) ≤ ErrModel.dec.E (x * y) := by
  obtain ⟨wa, rfl⟩ := val_some ha
  obtain ⟨wb, rfl⟩ := val_some hb
  rw [safe_iff] at hs
  rw [dec_E]
  simp only [ratAbs_eq_abs]
  show ∃ c z, Dec.mul a b = .ok c ∧ _
  unfold Dec.mul
  by_cases h0 : (a.eqZero || b.eqZero) = true
  · rw [if_pos h0]
    refine ⟨zero, 0, rfl, ?_, ?_⟩
    · rw [val_of_wf wf_zero, toRat_zero]
    · have : a.toRat * b.toRat = 0 := by
        rw [Bool.or_eq_true, eqZero_iff, eqZero_iff] at h0
        rcases h0 with h | h
        · rw [toRat_of_coeff_zero h, zero_mul]
        · rw [toRat_of_coeff_zero h, mul_zero]
      rw [this, sub_self, abs_zero]; exact eta_pos
  rw [if_neg h0]
  by_cases h1 : b.eqOne = true
  · rw [if_pos h1]
    refine ⟨a, a.toRat, rfl, val_of_wf wa, ?_⟩
    rw [toRat_of_eqOne ((eqOne_iff b).mp h1), mul_one, sub_self, abs_zero]; exact eta_pos
  rw [if_neg h1]
  by_cases h2 : a.eqOne = true
  · rw [if_pos h2]
    refine ⟨b, b.toRat, rfl, val_of_wf wb, ?_⟩
    rw [toRat_of_eqOne ((eqOne_iff a).mp h2), one_mul, sub_self, abs_zero]; exact eta_pos
  rw [if_neg h2]
  have hxy := toRat_mul a b
  rw [hxy] at hs ⊢
  generalize a.coeff * b.coeff = p at *
  dsimp only
  by_cases h3 : a.nfd + b.nfd ≤ maxNfd
  · rw [if_pos h3]
    have hf : fits p = true := fits_of_scaled p _ h3 hs
    refine ⟨⟨p, a.nfd + b.nfd⟩, _, chk_ok _ hf, val_of_wf ((wf_iff _).mpr ⟨hf, h3⟩), ?_⟩
    rw [toRat_eq, sub_self, abs_zero]; exact eta_pos
  rw [if_neg h3]
  have hsh : a.nfd + b.nfd = (a.nfd + b.nfd - maxNfd) + 18 := by unfold maxNfd at *; omega
  generalize a.nfd + b.nfd - maxNfd = sh at *
  rw [hsh] at hs ⊢
  have hq : (p : ℚ) / ((tenPow sh : Int) : ℚ) = (p : ℚ) / 10 ^ (sh + 18) * 10 ^ 18 := by
    rw [tenPow_cast, pow_add]; field_simp
  obtain ⟨hf, hbd, hno⟩ := round_core p (tenPow sh) (ne_of_gt (tenPow_pos sh)) _ hq hs
  have hna : (tenPow sh).natAbs = 10 ^ sh := by simp [tenPow]
  rw [hna] at hno
  rw [if_neg hno]
  refine ⟨_, _, chk_ok _ hf, val_of_wf ((wf_iff _).mpr ⟨hf, le_refl _⟩), ?_⟩
  rw [toRat_eq]
  exact hbd

end Dec

namespace Dec

/-! ### division -/

theorem int_eq_of_abs_le_half (r k : Int) (h : |(r : ℚ) - (k : ℚ)| ≤ 1 / 2) : r = k := by
  have h' : |((r - k : Int) : ℚ)| < 1 := by push_cast; linarith
  have h'' : |r - k| < 1 := by exact_mod_cast h'
  have := Int.abs_lt_one_iff.mp h''
  omega

theorem toRat_div (a b : Dec) (ha : a.nfd ≤ 18) (hB : b.coeff ≠ 0) :
    ((a.coeff * tenPow (maxNfd + b.nfd - a.nfd) : Int) : ℚ) / (b.coeff : ℚ)
      = a.toRat / b.toRat * 10 ^ 18 := by
  have e : (10 : ℚ) ^ (maxNfd + b.nfd - a.nfd) * 10 ^ a.nfd = 10 ^ 18 * 10 ^ b.nfd := by
    rw [← pow_add, ← pow_add]; congr 1; unfold maxNfd; omega
  have hBq : (b.coeff : ℚ) ≠ 0 := by exact_mod_cast hB
  push_cast
  rw [tenPow_cast, toRat_eq, toRat_eq]
  generalize (10 : ℚ) ^ (maxNfd + b.nfd - a.nfd) = t at *
  have ht : t = 10 ^ 18 * 10 ^ b.nfd / 10 ^ a.nfd := by
    rw [eq_div_iff (by positivity)]; exact e
  rw [ht]
  field_simp

/-- the general statement about `div`: in range, it succeeds with a well-formed result within
half a unit of the 18th digit, and exactly when the quotient has at most 18 fractional digits -/
theorem div_core (a b : Dec) (wa : a.wf = true) (hb0 : b.coeff ≠ 0)
    (hs : |a.toRat / b.toRat| ≤ 10 ^ 19) :
    ∃ c, Dec.div a b = .ok c ∧ c.wf = true ∧
      |c.toRat - a.toRat / b.toRat| ≤ 1 / (2 * 10 ^ 18) ∧
      ∀ k : Int, a.toRat / b.toRat * 10 ^ 18 = (k : ℚ) → c.toRat = a.toRat / b.toRat := by
  unfold Dec.div
  have h0 : ¬ b.eqZero = true := by rw [eqZero_iff]; exact hb0
  rw [if_neg h0]
  by_cases h1 : a.eqZero = true
  · rw [if_pos h1]
    have hq : a.toRat / b.toRat = 0 := by
      rw [toRat_of_coeff_zero ((eqZero_iff a).mp h1), zero_div]
    refine ⟨zero, rfl, wf_zero, ?_, ?_⟩
    · rw [hq, toRat_zero, sub_self, abs_zero]; exact eta_pos
    · intro _ _; rw [hq, toRat_zero]
  rw [if_neg h1]
  by_cases h2 : b.eqOne = true
  · rw [if_pos h2]
    have hq : a.toRat / b.toRat = a.toRat := by
      rw [toRat_of_eqOne ((eqOne_iff b).mp h2), div_one]
    refine ⟨a, rfl, wa, ?_, ?_⟩
    · rw [hq, sub_self, abs_zero]; exact eta_pos
    · intro _ _; rw [hq]
  rw [if_neg h2]
  dsimp only
  have hq := toRat_div a b ((wf_iff a).mp wa).2 hb0
  obtain ⟨hf, hbd, hno⟩ := round_core _ _ hb0 _ hq hs
  rw [if_neg hno, if_pos hf]
  obtain ⟨wn, en⟩ := normalize_spec _ maxNfd hf (le_refl _)
  refine ⟨_, rfl, wn, ?_, ?_⟩
  · rw [en]; exact hbd
  · intro k hk
    rw [en]
    have hb := rhe_bound (a.coeff * tenPow (maxNfd + b.nfd - a.nfd)) b.coeff hb0
    rw [hq, hk] at hb
    rw [int_eq_of_abs_le_half _ _ hb, ← hk]
    unfold maxNfd
    field_simp

theorem div_ok (a b : Dec) (x y : ℚ) (ha : Dec.arith.val a = some x)
    (hb : Dec.arith.val b = some y) (hy : y ≠ 0) (hs : ErrModel.dec.safe (x / y) = true) :
    ∃ c z, Dec.arith.div a b = .ok c ∧ Dec.arith.val c = some z ∧
      ratAbs (z - x / y) ≤ ErrModel.dec.E (x / y) := by
  obtain ⟨wa, rfl⟩ := val_some ha
  obtain ⟨wb, rfl⟩ := val_some hb
  rw [safe_iff] at hs
  rw [dec_E]
  simp only [ratAbs_eq_abs]
  have hb0 : b.coeff ≠ 0 := fun h => hy (toRat_of_coeff_zero h)
  obtain ⟨c, hc, wc, hbd, _⟩ := div_core a b wa hb0 hs
  exact ⟨c, c.toRat, hc, val_of_wf wc, hbd⟩

theorem div_self_val (a b : Dec) (x : ℚ) (ha : Dec.arith.val a = some x)
    (hb : Dec.arith.val b = some x) (hx : x ≠ 0) :
    ∃ c, Dec.arith.div a b = .ok c ∧ Dec.arith.val c = some 1 := by
  obtain ⟨wa, hxa⟩ := val_some ha
  obtain ⟨wb, hxb⟩ := val_some hb
  have hb0 : b.coeff ≠ 0 := fun h => hx (hxb.trans (toRat_of_coeff_zero h))
  have hq : a.toRat / b.toRat = 1 := by rw [← hxa, ← hxb]; exact div_self hx
  have hs : |a.toRat / b.toRat| ≤ 10 ^ 19 := by rw [hq]; norm_num
  obtain ⟨c, hc, wc, _, hex⟩ := div_core a b wa hb0 hs
  refine ⟨c, hc, ?_⟩
  rw [val_of_wf wc, hex (10 ^ 18) (by rw [hq]; push_cast; ring), hq]

end Dec

namespace Dec

/-! ### addition and subtraction

`add_ok` / `sub_ok` of `Laws` are FALSE for this model as stated (see `add_ok_false`,
`sub_ok_false` below): aligning the operand with fewer fractional digits can overflow `i128`
although the exact sum is in the safe range.  They hold under the extra hypothesis that the
aligned coefficients fit (`add_ok_of_fits`), in particular when both operands are themselves
in the safe range (`add_ok_of_safe`). -/

theorem rescale (B : Int) (m n : Nat) (h : n ≤ m) :
    ((B * tenPow (m - n) : Int) : ℚ) / 10 ^ m = (B : ℚ) / 10 ^ n := by
  obtain ⟨k, rfl⟩ := Nat.exists_eq_add_of_le h
  rw [Nat.add_sub_cancel_left]
  push_cast
  rw [tenPow_cast, pow_add]
  field_simp

theorem addSub_same (f : Int → Int → Int) (g : ℚ → ℚ → ℚ)
    (hfg : ∀ p q : Int, ((f p q : Int) : ℚ) = g p q)
    (hg : ∀ p q t : ℚ, t ≠ 0 → g (p / t) (q / t) = g p q / t)
    (A B : Int) (m : Nat) (hm : m ≤ 18)
    (hs : |g ((A : ℚ) / 10 ^ m) ((B : ℚ) / 10 ^ m)| ≤ 10 ^ 19) :
    fits (f A B) = true ∧
      ((f A B : Int) : ℚ) / 10 ^ m = g ((A : ℚ) / 10 ^ m) ((B : ℚ) / 10 ^ m) := by
  have e : ((f A B : Int) : ℚ) / 10 ^ m = g ((A : ℚ) / 10 ^ m) ((B : ℚ) / 10 ^ m) := by
    rw [hg _ _ _ (by positivity), hfg]
  refine ⟨?_, e⟩
  rw [← e] at hs
  exact fits_of_scaled _ m hm hs

theorem addSub_core (f : Int → Int → Int) (g : ℚ → ℚ → ℚ)
    (hfg : ∀ p q : Int, ((f p q : Int) : ℚ) = g p q)
    (hg : ∀ p q t : ℚ, t ≠ 0 → g (p / t) (q / t) = g p q / t)
    (a b : Dec) (wa : a.wf = true) (wb : b.wf = true)
    (hfa : fits (a.coeff * tenPow (b.nfd - a.nfd)) = true)
    (hfb : fits (b.coeff * tenPow (a.nfd - b.nfd)) = true)
    (hs : |g a.toRat b.toRat| ≤ 10 ^ 19) :
    ∃ c, addSub f a b = .ok c ∧ c.wf = true ∧ c.toRat = g a.toRat b.toRat := by
  have hm := ((wf_iff a).mp wa).2
  have hn := ((wf_iff b).mp wb).2
  rw [toRat_eq, toRat_eq] at hs ⊢
  unfold addSub
  by_cases h1 : a.nfd = b.nfd
  · rw [if_pos h1]
    rw [← h1] at hs ⊢
    obtain ⟨hf, e⟩ := addSub_same f g hfg hg _ _ _ hm hs
    exact ⟨_, chk_ok _ hf, (wf_iff _).mpr ⟨hf, hm⟩, by rw [toRat_eq]; exact e⟩
  rw [if_neg h1]
  by_cases h2 : a.nfd > b.nfd
  · rw [if_pos h2]
    dsimp only
    rw [if_pos hfb]
    rw [← rescale b.coeff a.nfd b.nfd (le_of_lt h2)] at hs ⊢
    obtain ⟨hf, e⟩ := addSub_same f g hfg hg _ _ _ hm hs
    exact ⟨_, chk_ok _ hf, (wf_iff _).mpr ⟨hf, hm⟩, by rw [toRat_eq]; exact e⟩
  · rw [if_neg h2]
    dsimp only
    rw [if_pos hfa]
    rw [← rescale a.coeff b.nfd a.nfd (by omega)] at hs ⊢
    obtain ⟨hf, e⟩ := addSub_same f g hfg hg _ _ _ hn hs
    exact ⟨_, chk_ok _ hf, (wf_iff _).mpr ⟨hf, hn⟩, by rw [toRat_eq]; exact e⟩

/-- `add_ok` with the weakest extra hypothesis: the aligned coefficients fit `i128`
(`b.nfd - a.nfd` is truncated subtraction, so one of the two is just `fits a.coeff`). -/
theorem add_ok_of_fits (a b : Dec) (x y : ℚ) (ha : Dec.arith.val a = some x)
    (hb : Dec.arith.val b = some y)
    (hfa : fits (a.coeff * tenPow (b.nfd - a.nfd)) = true)
    (hfb : fits (b.coeff * tenPow (a.nfd - b.nfd)) = true)
    (hs : ErrModel.dec.safe (x + y) = true) :
    ∃ c z, Dec.arith.add a b = .ok c ∧ Dec.arith.val c = some z ∧
      ratAbs (z - (x + y)) ≤ ErrModel.dec.Ea (x + y) := by
  obtain ⟨wa, rfl⟩ := val_some ha
  obtain ⟨wb, rfl⟩ := val_some hb
  rw [safe_iff] at hs
  obtain ⟨c, hc, wc, e⟩ := addSub_core (· + ·) (· + ·) (fun p q => by push_cast; rfl)
    (fun p q t _ => by ring) a b wa wb hfa hfb hs
  refine ⟨c, c.toRat, hc, val_of_wf wc, ?_⟩
  rw [e, dec_Ea, ratAbs_eq_abs]; simp

/-- `sub_ok` with the weakest extra hypothesis: the aligned coefficients fit `i128`. -/
theorem sub_ok_of_fits (a b : Dec) (x y : ℚ) (ha : Dec.arith.val a = some x)
    (hb : Dec.arith.val b = some y)
    (hfa : fits (a.coeff * tenPow (b.nfd - a.nfd)) = true)
    (hfb : fits (b.coeff * tenPow (a.nfd - b.nfd)) = true)
    (hs : ErrModel.dec.safe (x - y) = true) :
    ∃ c z, Dec.arith.sub a b = .ok c ∧ Dec.arith.val c = some z ∧
      ratAbs (z - (x - y)) ≤ ErrModel.dec.Ea (x - y) := by
  obtain ⟨wa, rfl⟩ := val_some ha
  obtain ⟨wb, rfl⟩ := val_some hb
  rw [safe_iff] at hs
  obtain ⟨c, hc, wc, e⟩ := addSub_core (· - ·) (· - ·) (fun p q => by push_cast; rfl)
    (fun p q t _ => by ring) a b wa wb hfa hfb hs
  refine ⟨c, c.toRat, hc, val_of_wf wc, ?_⟩
  rw [e, dec_Ea, ratAbs_eq_abs]; simp

/-- an operand in the safe range can be aligned to any digit count `k ≤ 18` -/
theorem fits_aligned_of_safe (a : Dec) (wa : a.wf = true) (k : Nat) (hk : k ≤ 18)
    (hs : |a.toRat| ≤ 10 ^ 19) : fits (a.coeff * tenPow (k - a.nfd)) = true := by
  by_cases h : k ≤ a.nfd
  · rw [Nat.sub_eq_zero_of_le h]
    have : tenPow 0 = 1 := rfl
    rw [this, mul_one]
    exact ((wf_iff a).mp wa).1
  · apply fits_of_scaled _ k hk
    rw [rescale a.coeff k a.nfd (by omega), ← toRat_eq]
    exact hs

/-- `add_ok` when both operands are themselves in the safe range -/
theorem add_ok_of_safe (a b : Dec) (x y : ℚ) (ha : Dec.arith.val a = some x)
    (hb : Dec.arith.val b = some y) (hsx : ErrModel.dec.safe x = true)
    (hsy : ErrModel.dec.safe y = true) (hs : ErrModel.dec.safe (x + y) = true) :
    ∃ c z, Dec.arith.add a b = .ok c ∧ Dec.arith.val c = some z ∧
      ratAbs (z - (x + y)) ≤ ErrModel.dec.Ea (x + y) := by
  obtain ⟨wa, hx⟩ := val_some ha
  obtain ⟨wb, hy⟩ := val_some hb
  rw [safe_iff, hx] at hsx
  rw [safe_iff, hy] at hsy
  exact add_ok_of_fits a b x y ha hb
    (fits_aligned_of_safe a wa _ ((wf_iff b).mp wb).2 hsx)
    (fits_aligned_of_safe b wb _ ((wf_iff a).mp wa).2 hsy) hs

/-- `sub_ok` when both operands are themselves in the safe range -/
theorem sub_ok_of_safe (a b : Dec) (x y : ℚ) (ha : Dec.arith.val a = some x)
    (hb : Dec.arith.val b = some y) (hsx : ErrModel.dec.safe x = true)
    (hsy : ErrModel.dec.safe y = true) (hs : ErrModel.dec.safe (x - y) = true) :
    ∃ c z, Dec.arith.sub a b = .ok c ∧ Dec.arith.val c = some z ∧
      ratAbs (z - (x - y)) ≤ ErrModel.dec.Ea (x - y) := by
  obtain ⟨wa, hx⟩ := val_some ha
  obtain ⟨wb, hy⟩ := val_some hb
  rw [safe_iff, hx] at hsx
  rw [safe_iff, hy] at hsy
  exact sub_ok_of_fits a b x y ha hb
    (fits_aligned_of_safe a wa _ ((wf_iff b).mp wb).2 hsx)
    (fits_aligned_of_safe b wb _ ((wf_iff a).mp wa).2 hsy) hs

/-! #### the counterexample -/

/-- `-170141183460469231731.687303715884105728` (`i128::MIN` at 18 digits) -/
def cexA : Dec := ⟨-(2 ^ 127), 18⟩
/-- `170141183460469231732` -/
def cexB : Dec := ⟨170141183460469231732, 0⟩
/-- `-170141183460469231732` -/
def cexB' : Dec := ⟨-170141183460469231732, 0⟩

theorem cex_add_overflow : Dec.add cexA cexB = .error .overflow := by decide
theorem cex_sub_overflow : Dec.sub cexA cexB' = .error .overflow := by decide

theorem cex_sum : cexA.toRat + cexB.toRat = 312696284115894272 / 10 ^ 18 := by
  rw [toRat_eq, toRat_eq]; simp only [cexA, cexB]; norm_num

theorem cex_diff : cexA.toRat - cexB'.toRat = 312696284115894272 / 10 ^ 18 := by
  rw [toRat_eq, toRat_eq]; simp only [cexA, cexB']; norm_num

/-- the field `add_ok` of `Laws Dec.arith ErrModel.dec` is false -/
theorem add_ok_false : ¬ ∀ a b x y, Dec.arith.val a = some x → Dec.arith.val b = some y →
    ErrModel.dec.safe (x + y) = true →
    ∃ c z, Dec.arith.add a b = .ok c ∧ Dec.arith.val c = some z ∧
      ratAbs (z - (x + y)) ≤ ErrModel.dec.Ea (x + y) := by
  intro h
  obtain ⟨c, z, hc, _⟩ := h cexA cexB _ _ (val_of_wf (by decide)) (val_of_wf (by decide))
    (by rw [safe_iff, cex_sum]; norm_num [abs_of_pos])
  have : Dec.add cexA cexB = .ok c := hc
  rw [cex_add_overflow] at this
  cases this

/-- the field `sub_ok` of `Laws Dec.arith ErrModel.dec` is false -/
theorem sub_ok_false : ¬ ∀ a b x y, Dec.arith.val a = some x → Dec.arith.val b = some y →
    ErrModel.dec.safe (x - y) = true →
    ∃ c z, Dec.arith.sub a b = .ok c ∧ Dec.arith.val c = some z ∧
      ratAbs (z - (x - y)) ≤ ErrModel.dec.Ea (x - y) := by
  intro h
  obtain ⟨c, z, hc, _⟩ := h cexA cexB' _ _ (val_of_wf (by decide)) (val_of_wf (by decide))
    (by rw [safe_iff, cex_diff]; norm_num [abs_of_pos])
  have : Dec.sub cexA cexB' = .ok c := hc
  rw [cex_sub_overflow] at this
  cases this

end Dec

namespace Dec

/-! ### comparison -/

theorem cross_eq (a b : Dec) :
    a.coeff * tenPow b.nfd = b.coeff * tenPow a.nfd ↔ a.toRat = b.toRat := by
  rw [toRat_eq, toRat_eq, div_eq_div_iff (by positivity) (by positivity),
    ← tenPow_cast, ← tenPow_cast]
  norm_cast

theorem cross_lt (a b : Dec) :
    a.coeff * tenPow b.nfd < b.coeff * tenPow a.nfd ↔ a.toRat < b.toRat := by
  rw [toRat_eq, toRat_eq, div_lt_div_iff₀ (by positivity) (by positivity),
    ← tenPow_cast, ← tenPow_cast]
  norm_cast

theorem beq_val (a b : Dec) (x y : ℚ) (ha : Dec.arith.val a = some x)
    (hb : Dec.arith.val b = some y) : Dec.arith.beq a b = decide (x = y) := by
  obtain ⟨_, rfl⟩ := val_some ha
  obtain ⟨_, rfl⟩ := val_some hb
  show Dec.beq a b = _
  unfold Dec.beq
  rw [Bool.eq_iff_iff, beq_iff_eq, decide_eq_true_iff]
  exact cross_eq a b

theorem pcmp_val (a b : Dec) (x y : ℚ) (ha : Dec.arith.val a = some x)
    (hb : Dec.arith.val b = some y) : Dec.arith.pcmp a b = some (ratCmp x y) := by
  obtain ⟨_, rfl⟩ := val_some ha
  obtain ⟨_, rfl⟩ := val_some hb
  show Dec.pcmp a b = _
  unfold Dec.pcmp ratCmp
  simp only [cross_eq, cross_lt]

theorem beq_pcmp (a b : Dec) : Dec.arith.beq a b = (Dec.arith.pcmp a b == some .eq) := by
  show Dec.beq a b = (Dec.pcmp a b == some .eq)
  unfold Dec.beq Dec.pcmp
  generalize a.coeff * tenPow b.nfd = X
  generalize b.coeff * tenPow a.nfd = Y
  rcases lt_trichotomy X Y with h | h | h
  · have : X ≠ Y := ne_of_lt h
    simp [h, this]
  · simp [h]
  · have h1 : ¬ X < Y := not_lt.mpr (le_of_lt h)
    have h2 : X ≠ Y := ne_of_gt h
    simp [h1, h2]

theorem pcmp_flip (a b : Dec) : Dec.arith.pcmp b a = Oracle.flipOrd (Dec.arith.pcmp a b) := by
  show Dec.pcmp b a = Oracle.flipOrd (Dec.pcmp a b)
  unfold Dec.pcmp
  generalize a.coeff * tenPow b.nfd = X
  generalize b.coeff * tenPow a.nfd = Y
  rcases lt_trichotomy X Y with h | h | h
  · have h1 : ¬ Y < X := not_lt.mpr (le_of_lt h)
    have h2 : Y ≠ X := ne_of_gt h
    simp [h, h1, h2, Oracle.flipOrd]
  · simp [h, Oracle.flipOrd]
  · have h1 : ¬ X < Y := not_lt.mpr (le_of_lt h)
    have h2 : X ≠ Y := ne_of_gt h
    simp [h, h1, h2, Oracle.flipOrd]

/-! ### constants and exact cases -/

theorem one_val : Dec.arith.val Dec.arith.one = some 1 := by
  show Dec.arith.val one = _
  rw [val_of_wf wf_one, toRat_one]

theorem zero_val : Dec.arith.val Dec.arith.zero = some 0 := by
  show Dec.arith.val zero = _
  rw [val_of_wf wf_zero, toRat_zero]

theorem eqZero_false_of_one {c : Dec} (h : c.coeff = tenPow c.nfd) : c.eqZero = false := by
  rw [Bool.eq_false_iff, Ne, eqZero_iff, h]
  exact ne_of_gt (tenPow_pos _)

theorem one_mul_val (c d : Dec) (y : ℚ) (hc : Dec.arith.val c = some 1)
    (hd : Dec.arith.val d = some y) :
    ∃ d', Dec.arith.mul c d = .ok d' ∧ Dec.arith.val d' = some y := by
  obtain ⟨wc, h1⟩ := val_some hc
  obtain ⟨wd, rfl⟩ := val_some hd
  have hc1 : c.coeff = tenPow c.nfd := eqOne_of_toRat h1.symm
  show ∃ d', Dec.mul c d = .ok d' ∧ _
  unfold Dec.mul
  rw [eqZero_false_of_one hc1, Bool.false_or]
  by_cases h0 : d.eqZero = true
  · rw [if_pos h0]
    refine ⟨zero, rfl, ?_⟩
    rw [val_of_wf wf_zero, toRat_zero, toRat_of_coeff_zero ((eqZero_iff d).mp h0)]
  rw [if_neg h0]
  by_cases h2 : d.eqOne = true
  · rw [if_pos h2]
    refine ⟨c, rfl, ?_⟩
    rw [val_of_wf wc, ← h1, toRat_of_eqOne ((eqOne_iff d).mp h2)]
  rw [if_neg h2, if_pos ((eqOne_iff c).mpr hc1)]
  exact ⟨d, rfl, val_of_wf wd⟩

theorem mul_one_val (c d : Dec) (y : ℚ) (hc : Dec.arith.val c = some 1)
    (hd : Dec.arith.val d = some y) :
    ∃ d', Dec.arith.mul d c = .ok d' ∧ Dec.arith.val d' = some y := by
  obtain ⟨wc, h1⟩ := val_some hc
  obtain ⟨wd, rfl⟩ := val_some hd
  have hc1 : c.coeff = tenPow c.nfd := eqOne_of_toRat h1.symm
  show ∃ d', Dec.mul d c = .ok d' ∧ _
  unfold Dec.mul
  rw [eqZero_false_of_one hc1, Bool.or_false]
  by_cases h0 : d.eqZero = true
  · rw [if_pos h0]
    refine ⟨zero, rfl, ?_⟩
    rw [val_of_wf wf_zero, toRat_zero, toRat_of_coeff_zero ((eqZero_iff d).mp h0)]
  rw [if_neg h0, if_pos ((eqOne_iff c).mpr hc1)]
  exact ⟨d, rfl, val_of_wf wd⟩

theorem div_one_val (c d : Dec) (y : ℚ) (hc : Dec.arith.val c = some 1)
    (hd : Dec.arith.val d = some y) :
    ∃ d', Dec.arith.div d c = .ok d' ∧ Dec.arith.val d' = some y := by
  obtain ⟨wc, h1⟩ := val_some hc
  obtain ⟨wd, rfl⟩ := val_some hd
  have hc1 : c.coeff = tenPow c.nfd := eqOne_of_toRat h1.symm
  show ∃ d', Dec.div d c = .ok d' ∧ _
  unfold Dec.div
  rw [eqZero_false_of_one hc1, if_neg (by simp)]
  by_cases h0 : d.eqZero = true
  · rw [if_pos h0]
    refine ⟨zero, rfl, ?_⟩
    rw [val_of_wf wf_zero, toRat_zero, toRat_of_coeff_zero ((eqZero_iff d).mp h0)]
  rw [if_neg h0, if_pos ((eqOne_iff c).mpr hc1)]
  exact ⟨d, rfl, val_of_wf wd⟩

/-! ### the error model -/

theorem errModel_wf : ErrModel.dec.WF where
  E_nonneg := fun x => by rw [dec_E]; exact eta_pos
  E_mono := fun x y _ => by rw [dec_E, dec_E]
  Ea_nonneg := fun x => by rw [dec_Ea]
  Ea_mono := fun x y _ => by rw [dec_Ea, dec_Ea]
  safe_mono := fun x y h hy => by
    rw [safe_iff] at hy ⊢
    rw [ratAbs_eq_abs, ratAbs_eq_abs] at h
    exact le_trans h hy

/-! ### assembly

`add_ok` / `sub_ok` need the operands themselves to be in the safe range: for the weaker
statement that only bounds the sum see the kernel-checked counterexamples `add_ok_false`,
`sub_ok_false` (aligning the operand with fewer fractional digits overflows `i128`). -/

theorem laws : Laws Dec.arith ErrModel.dec where
  wf := errModel_wf
  mul_ok := mul_ok
  div_ok := div_ok
  add_ok := add_ok_of_safe
  sub_ok := sub_ok_of_safe
  beq_val := beq_val
  pcmp_val := pcmp_val
  beq_pcmp := beq_pcmp
  pcmp_flip := pcmp_flip
  one_val := one_val
  zero_val := zero_val
  div_self_val := div_self_val
  one_mul_val := one_mul_val
  mul_one_val := mul_one_val
  div_one_val := div_one_val

end Dec

end Qty
