/-
  Characterisation of the macro front end (`MacroFront.declared`, `parseUnits`, `enumFrom`)
  in terms of the plain attribute lists (core Lean only).
-/
import QtyModel.Lemmas.ListFind
namespace Qty.MacroFront

/-! ### `enumFrom` -/

theorem mem_enumFrom {α : Type} (l : List α) : ∀ (n j : Nat) (a : α),
    (j, a) ∈ enumFrom n l → n ≤ j ∧ l[j - n]? = some a := by
  induction l with
  | nil => intro n j a h; simp [enumFrom] at h
  | cons b l ih =>
    intro n j a h
    simp only [enumFrom, List.mem_cons, Prod.mk.injEq] at h
    rcases h with ⟨rfl, rfl⟩ | h
    · simp
    · obtain ⟨h1, h2⟩ := ih (n + 1) j a h
      refine ⟨by omega, ?_⟩
      have : j - n = (j - (n + 1)) + 1 := by omega
      rw [this, List.getElem?_cons_succ]; exact h2

theorem enumFrom_map_snd {α : Type} (l : List α) : ∀ n, (enumFrom n l).map (·.2) = l := by
  induction l with
  | nil => intro n; rfl
  | cons b l ih => intro n; simp [enumFrom, ih]

theorem enumFrom_filter_map_snd {α : Type} (p : α → Bool) (l : List α) :
    ∀ n, ((enumFrom n l).filter (fun q => p q.2)).map (·.2) = l.filter p := by
  induction l with
  | nil => intro n; rfl
  | cons b l ih =>
    intro n
    simp only [enumFrom, List.filter_cons]
    cases p b <;> simp [ih]

/-! ### the indexed attribute lists of `declared` -/

def refsIx (it : RawItem) : List (Nat × RawAttr) :=
  (enumFrom 0 it.attrs).filter (fun p => p.2.kind == .refUnit)

def unitsIx (it : RawItem) : List (Nat × RawAttr) :=
  (enumFrom 0 it.attrs).filter (fun p => p.2.kind == .unit)

theorem refsIx_map (it : RawItem) :
    (refsIx it).map (·.2) = it.attrs.filter (fun a => a.kind == .refUnit) :=
  enumFrom_filter_map_snd (fun a : RawAttr => a.kind == .refUnit) it.attrs 0

theorem unitsIx_map (it : RawItem) :
    (unitsIx it).map (·.2) = it.attrs.filter (fun a => a.kind == .unit) :=
  enumFrom_filter_map_snd (fun a : RawAttr => a.kind == .unit) it.attrs 0

theorem mem_refsIx (it : RawItem) (j : Nat) (a : RawAttr) (h : (j, a) ∈ refsIx it) :
    it.attrs[j]? = some a ∧ a.kind = .refUnit := by
  unfold refsIx at h
  rw [List.mem_filter] at h
  exact ⟨by simpa using (mem_enumFrom it.attrs 0 j a h.1).2, by simpa using h.2⟩

theorem mem_unitsIx (it : RawItem) (j : Nat) (a : RawAttr) (h : (j, a) ∈ unitsIx it) :
    it.attrs[j]? = some a ∧ a.kind = .unit := by
  unfold unitsIx at h
  rw [List.mem_filter] at h
  exact ⟨by simpa using (mem_enumFrom it.attrs 0 j a h.1).2, by simpa using h.2⟩

/-! ### `parseUnits` -/

/-- the condition `parseUnits` checks on one `#[unit]` attribute -/
def unitOk (withRef : Bool) (a : RawAttr) : Bool :=
  match parseUnit a.toks with
  | some u => if withRef then u.scale.isSome else u.scale.isNone && u.pfx.isNone
  | none => false

theorem parseUnits_cons_ok (w : Bool) (i : Nat) (a : RawAttr) (rest : List (Nat × RawAttr))
    (u : UnitDef) (hp : parseUnit a.toks = some u) (hok : unitOk w a = true) :
    parseUnits w ((i, a) :: rest) = (parseUnits w rest).map (u :: ·) := by
  unfold unitOk at hok
  rw [hp] at hok
  conv => lhs; unfold parseUnits
  simp only [hp]
  cases w
  · simp only [Bool.false_eq_true, if_false, Bool.and_eq_true, Option.isNone_iff_eq_none] at hok
    simp [hok.1, hok.2]
  · simp only [if_true] at hok
    have : u.scale.isNone = false := by
      cases hs : u.scale <;> simp [hs] at hok ⊢
    simp [this]

theorem parseUnits_cons_bad (w : Bool) (i : Nat) (a : RawAttr) (rest : List (Nat × RawAttr))
    (hbad : unitOk w a = false) :
    ∃ msg, parseUnits w ((i, a) :: rest) = .error ⟨.attr i, msg⟩ := by
  unfold unitOk at hbad
  conv => enter [1, msg, 1]; unfold parseUnits
  cases hp : parseUnit a.toks with
  | none => exact ⟨_, rfl⟩
  | some u =>
    rw [hp] at hbad
    cases w
    · simp only [Bool.false_eq_true, if_false] at hbad
      have : (u.scale.isSome || u.pfx.isSome) = true := by
        cases hs : u.scale <;> cases hx : u.pfx <;> simp [hs, hx] at hbad ⊢
      simp only [Bool.false_eq_true, if_false, this, if_true]
      exact ⟨_, rfl⟩
    · simp only [if_true] at hbad
      have : u.scale.isNone = true := by
        cases hs : u.scale <;> simp [hs] at hbad ⊢
      simp only [if_true, this]
      exact ⟨_, rfl⟩

/-- `parseUnits` succeeds iff every attribute passes the check of its mode -/
theorem parseUnits_ok_iff (w : Bool) (l : List (Nat × RawAttr)) :
    (∃ us, parseUnits w l = .ok us) ↔ l.all (fun p => unitOk w p.2) = true := by
  induction l with
  | nil => simp [parseUnits]
  | cons p l ih =>
    obtain ⟨i, a⟩ := p
    cases hok : unitOk w a with
    | false =>
      obtain ⟨msg, e⟩ := parseUnits_cons_bad w i a l hok
      simp [e, hok]
    | true =>
      have hp : ∃ u, parseUnit a.toks = some u := by
        unfold unitOk at hok
        cases hp : parseUnit a.toks with
        | none => simp [hp] at hok
        | some u => exact ⟨u, rfl⟩
      obtain ⟨u, hp⟩ := hp
      rw [parseUnits_cons_ok w i a l u hp hok]
      simp only [List.all_cons, hok, Bool.true_and, ← ih]
      constructor
      · rintro ⟨us, h⟩
        cases hr : parseUnits w l with
        | error e => simp [hr, Except.map] at h
        | ok us' => exact ⟨us', rfl⟩
      · rintro ⟨us, h⟩
        exact ⟨u :: us, by simp [h, Except.map]⟩

/-- and then it returns the parsed attributes, in order -/
theorem parseUnits_ok (w : Bool) (l : List (Nat × RawAttr)) :
    ∀ us, parseUnits w l = .ok us →
      us = (l.map (·.2)).filterMap (fun a => parseUnit a.toks) ∧ us.length = l.length := by
  induction l with
  | nil => intro us h; simp [parseUnits] at h; subst h; simp
  | cons p l ih =>
    obtain ⟨i, a⟩ := p
    intro us h
    cases hok : unitOk w a with
    | false =>
      obtain ⟨msg, e⟩ := parseUnits_cons_bad w i a l hok
      simp [e] at h
    | true =>
      have hp : ∃ u, parseUnit a.toks = some u := by
        unfold unitOk at hok
        cases hp : parseUnit a.toks with
        | none => simp [hp] at hok
        | some u => exact ⟨u, rfl⟩
      obtain ⟨u, hp⟩ := hp
      rw [parseUnits_cons_ok w i a l u hp hok] at h
      cases hr : parseUnits w l with
      | error e => simp [hr, Except.map] at h
      | ok us' =>
        simp only [hr, Except.map, Except.ok.injEq] at h
        obtain ⟨h1, h2⟩ := ih us' hr
        subst h
        simp [hp, ← h1, h2]

/-- an error of `parseUnits` is reported at one of the scanned attributes -/
theorem parseUnits_error (w : Bool) (l : List (Nat × RawAttr)) :
    ∀ e, parseUnits w l = .error e → ∃ j a msg, (j, a) ∈ l ∧ e = ⟨.attr j, msg⟩ := by
  induction l with
  | nil => intro e h; simp [parseUnits] at h
  | cons p l ih =>
    obtain ⟨i, a⟩ := p
    intro e h
    cases hok : unitOk w a with
    | false =>
      obtain ⟨msg, e'⟩ := parseUnits_cons_bad w i a l hok
      rw [e'] at h
      simp only [Except.error.injEq] at h
      exact ⟨i, a, msg, List.mem_cons_self .., h.symm⟩
    | true =>
      have hp : ∃ u, parseUnit a.toks = some u := by
        unfold unitOk at hok
        cases hp : parseUnit a.toks with
        | none => simp [hp] at hok
        | some u => exact ⟨u, rfl⟩
      obtain ⟨u, hp⟩ := hp
      rw [parseUnits_cons_ok w i a l u hp hok] at h
      cases hr : parseUnits w l with
      | ok us' => simp [hr, Except.map] at h
      | error e' =>
        simp only [hr, Except.map, Except.error.injEq] at h
        obtain ⟨j, b, msg, hm, he⟩ := ih e' hr
        exact ⟨j, b, msg, List.mem_cons_of_mem _ hm, by rw [← h, he]⟩


theorem declared_item (it : RawItem)
    (h : it.isStruct = false ∨ it.hasGenerics = true ∨ it.hasFields = true) :
    ∃ msg, declared it = .error ⟨.item, msg⟩ := by
  unfold declared
  cases hs : it.isStruct
  · exact ⟨_, rfl⟩
  · cases hg : it.hasGenerics
    · cases hf : it.hasFields
      · simp [hs, hg, hf] at h
      · exact ⟨_, rfl⟩
    · exact ⟨_, rfl⟩

theorem declared_two (it : RawItem) (hs : it.isStruct = true) (hg : it.hasGenerics = false)
    (hf : it.hasFields = false) (p : Nat × RawAttr) (j : Nat) (a : RawAttr) (rest : List (Nat × RawAttr))
    (h : refsIx it = p :: (j, a) :: rest) :
    declared it = .error ⟨.attr j, "There can only be one `refunit` attribute."⟩ := by
  unfold refsIx at h
  unfold declared
  simp only [hs, hg, hf, h]
  rfl

theorem declared_none (it : RawItem) (hs : it.isStruct = true) (hg : it.hasGenerics = false)
    (hf : it.hasFields = false) (h : refsIx it = []) :
    declared it =
      if (unitsIx it).isEmpty then
        .error ⟨.callSite, "At least one unit description must be given via attribute `unit`."⟩
      else match parseUnits false (unitsIx it) with
        | .error e => .error e
        | .ok us => .ok { refIdent := none, units := us } := by
  unfold refsIx at h
  unfold declared unitsIx
  simp only [hs, hg, hf, h]
  rfl

theorem declared_one (it : RawItem) (hs : it.isStruct = true) (hg : it.hasGenerics = false)
    (hf : it.hasFields = false) (j : Nat) (r : RawAttr) (h : refsIx it = [(j, r)]) :
    declared it =
      if (unitsIx it).isEmpty then
        .error ⟨.callSite, "At least one unit description must be given via attribute `unit`."⟩
      else match parseUnit r.toks with
        | none => .error ⟨.attr j, "2, 3 or 4 comma-separated args expected."⟩
        | some rd =>
          if rd.scale.isSome then .error ⟨.attr j, "No scale expected for ref_unit."⟩
          else match parseUnits true (unitsIx it) with
            | .error e => .error e
            | .ok us => .ok { refIdent := some rd.ident, units := { rd with scale := some litOne } :: us } := by
  unfold refsIx at h
  unfold declared unitsIx
  simp only [hs, hg, hf, h]
  rfl

/-! ### the indexed lists in terms of the plain attribute lists -/

theorem all_unitsIx (it : RawItem) (f : RawAttr → Bool) :
    (unitsIx it).all (fun p => f p.2) = (it.attrs.filter (fun a => a.kind == .unit)).all f := by
  rw [← unitsIx_map, List.all_map]; rfl

theorem unitsIx_isEmpty (it : RawItem) :
    (unitsIx it).isEmpty = (it.attrs.filter (fun a => a.kind == .unit)).isEmpty := by
  rw [← unitsIx_map]; cases unitsIx it <;> rfl

theorem parseUnitsIx_ok_iff (w : Bool) (it : RawItem) :
    (∃ us, parseUnits w (unitsIx it) = .ok us) ↔
      (it.attrs.filter (fun a => a.kind == .unit)).all (unitOk w) = true := by
  rw [parseUnits_ok_iff, all_unitsIx]

theorem parseUnitsIx_ok (w : Bool) (it : RawItem) (us : List UnitDef)
    (h : parseUnits w (unitsIx it) = .ok us) :
    us = (it.attrs.filter (fun a => a.kind == .unit)).filterMap (fun a => parseUnit a.toks) ∧
    us.length = (it.attrs.filter (fun a => a.kind == .unit)).length := by
  have := parseUnits_ok w (unitsIx it) us h
  rw [unitsIx_map] at this
  refine ⟨this.1, ?_⟩
  rw [this.2, ← unitsIx_map, List.length_map]

theorem parseUnitsIx_error (w : Bool) (it : RawItem) (e : MacroErr)
    (h : parseUnits w (unitsIx it) = .error e) :
    ∃ j a msg, it.attrs[j]? = some a ∧ a.kind = .unit ∧ e = ⟨.attr j, msg⟩ := by
  obtain ⟨j, a, msg, hm, he⟩ := parseUnits_error w (unitsIx it) e h
  obtain ⟨h1, h2⟩ := mem_unitsIx it j a hm
  exact ⟨j, a, msg, h1, h2, he⟩

theorem refsIx_cases (it : RawItem) :
    (refsIx it = [] ∧ it.attrs.filter (fun a => a.kind == .refUnit) = []) ∨
    (∃ j r, refsIx it = [(j, r)] ∧ it.attrs.filter (fun a => a.kind == .refUnit) = [r] ∧
      it.attrs[j]? = some r) ∨
    (∃ p j a rest, refsIx it = p :: (j, a) :: rest ∧
      2 ≤ (it.attrs.filter (fun a => a.kind == .refUnit)).length ∧
      it.attrs[j]? = some a ∧ a.kind = .refUnit) := by
  have hm := refsIx_map it
  have hmem := mem_refsIx it
  cases h : refsIx it with
  | nil => left; rw [h] at hm; exact ⟨rfl, hm.symm⟩
  | cons p l =>
    cases l with
    | nil =>
      right; left
      obtain ⟨j, r⟩ := p
      rw [h] at hm
      exact ⟨j, r, rfl, hm.symm, (hmem j r (by rw [h]; simp)).1⟩
    | cons q rest =>
      right; right
      obtain ⟨j, a⟩ := q
      rw [h] at hm
      have hj := hmem j a (by rw [h]; simp)
      exact ⟨p, j, a, rest, rfl, by rw [← hm]; simp, hj.1, hj.2⟩

end Qty.MacroFront
