import QtyModel.Lemmas.Basic
/-
  Helper: error analysis of `HasRefUnit::equiv_amount` under the rounding laws.
-/
namespace Qty
open Qty

variable {A U : Type} [DecidableEq U] (R : Arith A) (T : QT A U)

theorem convBoundIn_nonneg {M : ErrModel} (W : M.WF) (s1 s2 a : Rat) :
    0 ≤ Oracle.convBoundIn M s1 s2 a := by
  unfold Oracle.convBoundIn
  have h1 := W.E_nonneg ((ratAbs (s1 / s2) + M.E (s1 / s2)) * ratAbs a)
  have h2 : 0 ≤ ratAbs a := by rw [ratAbs_eq_abs]; exact abs_nonneg a
  have h3 := W.E_nonneg (s1 / s2)
  positivity

/-- `equiv_amount` of a value `a·(unit with scale s₁)` in a different unit with scale `s₂`:
the result `y` satisfies `|y − (s₁/s₂)·a| ≤ convBoundIn` and `|y| ≤ |s₁/s₂|·|a| + convBoundIn`. -/
theorem equiv_ok {M : ErrModel} (L : Laws R M) (q : Q A U) (u : U) (s1 s2 a : Rat)
    (hne : q.unit ≠ u)
    (hs1 : R.val (T.scale q.unit) = some s1) (hs2 : R.val (T.scale u) = some s2) (hs2ne : s2 ≠ 0)
    (ha : R.val q.amount = some a) (hsafe : Oracle.convSafe M s1 s2 a = true) :
    ∃ c y, equivAmount R T q u = .ok c ∧ R.val c = some y ∧
      |y - s1 / s2 * a| ≤ Oracle.convBoundIn M s1 s2 a ∧
      |y| ≤ |s1 / s2| * |a| + Oracle.convBoundIn M s1 s2 a := by
  simp only [Oracle.convSafe, Bool.and_eq_true] at hsafe
  obtain ⟨hsafe1, hsafe2⟩ := hsafe
  obtain ⟨ρ', r', hdiv, hρ'v, hρ'e⟩ := L.div_ok _ _ s1 s2 hs1 hs2 hs2ne hsafe1
  have hE := L.wf.E_nonneg (s1 / s2)
  have hcb := convBoundIn_nonneg L.wf s1 s2 a
  rw [ratAbs_eq_abs] at hρ'e
  have hr' : |r'| ≤ |s1 / s2| + M.E (s1 / s2) := by
    have := abs_sub_abs_le_abs_sub r' (s1 / s2)
    linarith
  have hprod : ratAbs (r' * a) ≤ ratAbs ((ratAbs (s1 / s2) + M.E (s1 / s2)) * ratAbs a) := by
    simp only [ratAbs_eq_abs]
    rw [abs_mul, abs_mul, abs_abs]
    have : |r'| ≤ abs (|s1 / s2| + M.E (s1 / s2)) := le_trans hr' (le_abs_self _)
    exact mul_le_mul_of_nonneg_right this (abs_nonneg a)
  have hsafe3 : M.safe (r' * a) = true := by
    apply L.wf.safe_mono _ _ _ hsafe2
    refine le_trans hprod ?_
    simp only [ratAbs_eq_abs]
    have h0 : 0 ≤ (|s1 / s2| + M.E (s1 / s2)) * |a| := by positivity
    exact abs_le_abs_of_nonneg h0 (by linarith)
  obtain ⟨c, y, hmul, hyv, hye⟩ := L.mul_ok _ _ r' a hρ'v ha hsafe3
  have hE2 : M.E (r' * a) ≤ M.E ((ratAbs (s1 / s2) + M.E (s1 / s2)) * ratAbs a) :=
    L.wf.E_mono _ _ hprod
  rw [ratAbs_eq_abs] at hye
  have hmain : |y - s1 / s2 * a| ≤ Oracle.convBoundIn M s1 s2 a := by
    unfold Oracle.convBoundIn
    simp only [ratAbs_eq_abs] at *
    have key : y - s1 / s2 * a = (y - r' * a) + (r' - s1 / s2) * a := by ring
    rw [key]
    calc |y - r' * a + (r' - s1 / s2) * a|
        ≤ |y - r' * a| + |(r' - s1 / s2) * a| := abs_add_le _ _
      _ = |y - r' * a| + |r' - s1 / s2| * |a| := by rw [abs_mul]
      _ ≤ M.E ((|s1 / s2| + M.E (s1 / s2)) * |a|) + |a| * M.E (s1 / s2) := by
          have := mul_le_mul_of_nonneg_right hρ'e (abs_nonneg a)
          linarith [mul_comm (M.E (s1 / s2)) |a|]
  refine ⟨c, y, ?_, hyv, hmain, ?_⟩
  · simp [equivAmount, hne, ratio, hdiv, hmul, bind, Except.bind]
  · have h1 := abs_sub_abs_le_abs_sub y (s1 / s2 * a)
    rw [abs_mul] at h1
    linarith

end Qty
