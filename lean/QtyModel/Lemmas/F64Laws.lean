import QtyModel.Lemmas.Basic
import Mathlib.Tactic.NormNum
import Mathlib.Tactic.Positivity
import Mathlib.Algebra.Order.Field.Power
import Mathlib.Data.Rat.Defs
import Mathlib.Data.Rat.Lemmas
import Mathlib.Data.Nat.Log
import Mathlib.Tactic.Push
/-
  `F64.laws`: the software binary64 model satisfies the rounding laws with the
  error model `ErrModel.f64` (`E x = 2^-53·|x| + 2^-1075`, safe = `|x| < 2^1023`).
-/
namespace Qty
namespace F64

/-! ### powers of two -/

theorem cast_two_pow (n : ℕ) : ((((2 ^ n : Nat) : Int)) : Rat) = (2:ℚ) ^ (n : ℤ) := by
  rw [zpow_natCast]; push_cast; rfl

theorem pow2_eq (e : Int) : pow2 e = (2:ℚ) ^ e := by
  unfold pow2
  split
  · next h =>
    obtain ⟨n, rfl⟩ := Int.eq_ofNat_of_zero_le h
    rw [Int.toNat_natCast, cast_two_pow]
  · next h =>
    have h' : 0 ≤ -e := by omega
    obtain ⟨n, hn⟩ := Int.eq_ofNat_of_zero_le h'
    have : e = -(n:ℤ) := by omega
    subst this
    rw [neg_neg, Int.toNat_natCast, cast_two_pow, zpow_neg, one_div]

theorem u64_eq : ErrModel.u64 = (2:ℚ) ^ (-53 : ℤ) := by
  unfold ErrModel.u64
  rw [cast_two_pow, zpow_neg, one_div]; simp only [Nat.cast_ofNat]

set_option exponentiation.threshold 1100 in
theorem eta64_eq : ErrModel.eta64 = (2:ℚ) ^ (-1075 : ℤ) := by
  unfold ErrModel.eta64
  rw [cast_two_pow, zpow_neg, one_div]; simp only [Nat.cast_ofNat]

theorem two1023_eq : ((((2 ^ 1023 : Nat) : Int)) : Rat) = (2:ℚ) ^ (1023 : ℤ) := by
  rw [cast_two_pow]; simp only [Nat.cast_ofNat]

theorem P_pos (e : ℤ) : (0:ℚ) < 2 ^ e := zpow_pos (by norm_num) e
theorem P_add (a b : ℤ) : (2:ℚ) ^ (a + b) = 2 ^ a * 2 ^ b := zpow_add₀ (by norm_num) a b
theorem P_le {a b : ℤ} (h : a ≤ b) : (2:ℚ) ^ a ≤ 2 ^ b := zpow_le_zpow_right₀ (by norm_num) h
theorem P_lt {a b : ℤ} (h : a < b) : (2:ℚ) ^ a < 2 ^ b := zpow_lt_zpow_right₀ (by norm_num) h
theorem P_lt_iff {a b : ℤ} : (2:ℚ) ^ a < 2 ^ b ↔ a < b := zpow_lt_zpow_iff_right₀ (by norm_num)
theorem P_le_iff {a b : ℤ} : (2:ℚ) ^ a ≤ 2 ^ b ↔ a ≤ b := zpow_le_zpow_iff_right₀ (by norm_num)

theorem two53_cast : ((two53 : ℕ) : ℚ) = 2 ^ (53 : ℤ) := by
  unfold two53; norm_num
theorem two52_cast : ((two52 : ℕ) : ℚ) = 2 ^ (52 : ℤ) := by
  unfold two52; norm_num

/-! ### round-half-even to an integer -/

theorem drhe_spec (n d : Int) (hd : 0 < d) :
    2 * |divRoundHalfEven n d * d - n| ≤ d := by
  unfold divRoundHalfEven
  have hnd : ¬ d < 0 := by omega
  simp only [hnd, if_false]
  have h1 := Int.emod_add_mul_ediv n d
  have h2 := Int.emod_nonneg n (ne_of_gt hd)
  have h3 := Int.emod_lt_of_pos n hd
  generalize n % d = r at *
  generalize hq : n / d = q at *
  have h4 : (q + 1) * d = d * q + d := by ring
  have h5 : q * d = d * q := by ring
  split
  · next hr => rw [h5, abs_of_nonneg] <;> omega
  · split
    · next hr hc =>
      rw [h4, abs_of_nonneg] <;> omega
    · next hr hc =>
      rw [h5, abs_of_nonpos] <;> omega

theorem drhe_nonneg (n d : Int) (hn : 0 ≤ n) (hd : 0 < d) : 0 ≤ divRoundHalfEven n d := by
  unfold divRoundHalfEven
  have hnd : ¬ d < 0 := by omega
  simp only [hnd, if_false]
  have := Int.ediv_nonneg hn (le_of_lt hd)
  split
  · exact this
  · split <;> omega

theorem rne_spec (x : ℚ) (hx : 0 ≤ x) : |(roundHalfEvenRat x : ℚ) - x| ≤ 1 / 2 := by
  unfold roundHalfEvenRat
  have hd : (0:ℤ) < x.den := by exact_mod_cast x.den_pos
  have hn : 0 ≤ x.num := Rat.num_nonneg.mpr hx
  have h1 := drhe_spec x.num x.den hd
  have h2 := drhe_nonneg x.num x.den hn hd
  generalize divRoundHalfEven x.num x.den = R at *
  have hR : ((R.toNat : ℕ) : ℚ) = (R : ℚ) := by
    have : ((R.toNat : ℕ) : ℤ) = R := Int.toNat_of_nonneg h2
    exact_mod_cast congrArg (Int.cast (R := ℚ)) this
  rw [hR]
  have hdq : (0:ℚ) < x.den := by exact_mod_cast x.den_pos
  have hx' : x = x.num / x.den := (Rat.num_div_den x).symm
  have h1q : 2 * |(R:ℚ) * x.den - x.num| ≤ x.den := by exact_mod_cast h1
  have : (R:ℚ) - x = ((R:ℚ) * x.den - x.num) / x.den := by
    conv_lhs => rw [hx']
    field_simp
  rw [this, abs_div, abs_of_pos hdq, div_le_iff₀ hdq]
  linarith

theorem rne_nat (k : ℕ) : roundHalfEvenRat (k : ℚ) = k := by
  unfold roundHalfEvenRat divRoundHalfEven
  simp

/-! ### `floorLog2` -/

theorem nat_log2_bounds (n : ℕ) (hn : n ≠ 0) :
    (2:ℚ) ^ (n.log2 : ℤ) ≤ n ∧ (n:ℚ) < 2 ^ ((n.log2 : ℤ) + 1) := by
  constructor
  · rw [zpow_natCast]; exact_mod_cast Nat.log2_self_le hn
  · have : ((n.log2 : ℤ) + 1) = ((n.log2 + 1 : ℕ) : ℤ) := by push_cast; rfl
    rw [this, zpow_natCast]; exact_mod_cast Nat.lt_log2_self

theorem floorLog2_spec (a : ℚ) (ha : 0 < a) :
    (2:ℚ) ^ (floorLog2 a) ≤ a ∧ a < 2 ^ (floorLog2 a + 1) := by
  have hnum : 0 < a.num := Rat.num_pos.mpr ha
  have hn0 : a.num.natAbs ≠ 0 := by omega
  have hd0 : a.den ≠ 0 := a.den_nz
  obtain ⟨hn1, hn2⟩ := nat_log2_bounds _ hn0
  obtain ⟨hd1, hd2⟩ := nat_log2_bounds _ hd0
  have hdq : (0:ℚ) < a.den := by exact_mod_cast a.den_pos
  have hnq : ((a.num.natAbs : ℕ) : ℚ) = (a.num : ℚ) := by
    rw [Nat.cast_natAbs, abs_of_pos hnum]
  have hx : a = (a.num.natAbs : ℚ) / a.den := by rw [hnq]; exact (Rat.num_div_den a).symm
  generalize (a.num.natAbs : ℚ) = n at *
  generalize (a.den : ℚ) = d at *
  unfold floorLog2
  generalize (a.num.natAbs.log2 : ℤ) = ln at *
  generalize (a.den.log2 : ℤ) = ld at *
  have hlt : a < 2 ^ (ln - ld + 1) := by
    rw [hx, div_lt_iff₀ hdq]
    have : (2:ℚ) ^ (ln + 1) = 2 ^ (ln - ld + 1) * 2 ^ ld := by rw [← P_add]; congr 1; ring
    have h2 := mul_le_mul_of_nonneg_left hd1 (le_of_lt (P_pos (ln - ld + 1)))
    linarith
  have hgt : 2 ^ (ln - ld - 1) < a := by
    rw [hx, lt_div_iff₀ hdq]
    have : (2:ℚ) ^ ln = 2 ^ (ln - ld - 1) * 2 ^ (ld + 1) := by rw [← P_add]; congr 1; ring
    have h2 := mul_lt_mul_of_pos_left hd2 (P_pos (ln - ld - 1))
    linarith
  simp only [pow2_eq]
  split
  · next h => exact ⟨h, hlt⟩
  · next h =>
    refine ⟨le_of_lt hgt, ?_⟩
    have : ln - ld - 1 + 1 = ln - ld := by ring
    rw [this]; exact not_le.mp h

/-! ### the exponent chosen by `round` -/

/-- the exponent chosen by `round` for magnitude `a` -/
def rexp (a : ℚ) : ℤ := if floorLog2 a - 52 < eMin then eMin else floorLog2 a - 52

theorem rexp_spec (a : ℚ) (ha : 0 < a) (hlt : a < 2 ^ (1024 : ℤ)) :
    -1074 ≤ rexp a ∧ rexp a ≤ 971 ∧ a / 2 ^ (rexp a) < 2 ^ (53 : ℤ) ∧
    (rexp a = -1074 ∨ 2 ^ (rexp a + 52) ≤ a) ∧ (a < 2 ^ (1023 : ℤ) → rexp a ≤ 970) := by
  obtain ⟨h1, h2⟩ := floorLog2_spec a ha
  have hfl : floorLog2 a < 1024 := P_lt_iff.mp (lt_of_le_of_lt h1 hlt)
  have hfl' : a < 2 ^ (1023 : ℤ) → floorLog2 a < 1023 := fun h => P_lt_iff.mp (lt_of_le_of_lt h1 h)
  unfold rexp eMin
  generalize floorLog2 a = fl at *
  split
  · next h =>
    refine ⟨le_refl _, by omega, ?_, Or.inl rfl, fun _ => by omega⟩
    rw [div_lt_iff₀ (P_pos _), ← P_add]
    exact lt_of_lt_of_le h2 (P_le (by omega))
  · next h =>
    refine ⟨by omega, by omega, ?_, Or.inr ?_, fun h' => by have := hfl' h'; omega⟩
    · rw [div_lt_iff₀ (P_pos _), ← P_add]
      exact lt_of_lt_of_le h2 (P_le (by omega))
    · have : fl - 52 + 52 = fl := by ring
      rw [this]; exact h1

theorem round_unfold (q : ℚ) (b : Bool) (hq : q ≠ 0) :
    round q b =
      if roundHalfEvenRat (|q| / 2 ^ (rexp |q|)) = two53 then
        (if rexp |q| + 1 > eMax then .inf (decide (q < 0)) else .fin (decide (q < 0)) two52 (rexp |q| + 1))
      else
        (if rexp |q| > eMax then .inf (decide (q < 0))
         else .fin (decide (q < 0)) (roundHalfEvenRat (|q| / 2 ^ (rexp |q|))) (rexp |q|)) := by
  unfold round
  simp only [hq, if_false, ratAbs_eq_abs, pow2_eq]
  unfold rexp
  generalize (if floorLog2 |q| - 52 < eMin then eMin else floorLog2 |q| - 52) = e
  by_cases hm : roundHalfEvenRat (|q| / 2 ^ e) = two53
  · simp only [hm, if_true]
  · simp only [hm, if_false]


/-! ### value of `round`, error bound, exactness -/

theorem val_fin (s : Bool) (m : ℕ) (e : ℤ) (hm : m < two53) (h1 : eMin ≤ e) (h2 : e ≤ eMax) :
    val (.fin s m e) = some ((if s then -1 else 1) * (m:ℚ) * 2 ^ e) := by
  simp [val, wf, toRat, hm, h1, h2, pow2_eq]

/-- sign of a rational as used by `round` -/
def sgn (q : ℚ) : ℚ := if q < 0 then -1 else 1

theorem sgn_mul_abs (q : ℚ) : sgn q * |q| = q := by
  unfold sgn; split
  · next h => rw [abs_of_neg h]; ring
  · next h => rw [abs_of_nonneg (not_lt.mp h)]; ring

theorem abs_sgn (q : ℚ) : |sgn q| = 1 := by
  unfold sgn; split <;> simp

theorem rne_le_two53 (x : ℚ) (hx : 0 ≤ x) (h : x < 2 ^ (53:ℤ)) : roundHalfEvenRat x ≤ two53 := by
  have h1 := (abs_le.mp (rne_spec x hx)).2
  have : (roundHalfEvenRat x : ℚ) < (two53 : ℚ) + 1 := by rw [two53_cast]; linarith
  have : roundHalfEvenRat x < two53 + 1 := by exact_mod_cast this
  omega

theorem round_val (q : ℚ) (b : Bool) (hq : q ≠ 0) (hlt : |q| < 2 ^ (1024:ℤ))
    (hc : roundHalfEvenRat (|q| / 2 ^ rexp |q|) ≠ two53 ∨ rexp |q| ≤ 970) :
    val (round q b) = some (sgn q * (roundHalfEvenRat (|q| / 2 ^ rexp |q|) : ℚ) * 2 ^ rexp |q|) := by
  have ha : 0 < |q| := abs_pos.mpr hq
  obtain ⟨h1, h2, h3, -, -⟩ := rexp_spec |q| ha hlt
  have hx0 : 0 ≤ |q| / 2 ^ rexp |q| := div_nonneg (le_of_lt ha) (le_of_lt (P_pos _))
  have hm := rne_le_two53 _ hx0 h3
  rw [round_unfold q b hq]
  generalize rexp |q| = e at *
  generalize roundHalfEvenRat (|q| / 2 ^ e) = m at *
  by_cases hm2 : m = two53
  · have he : e ≤ 970 := by rcases hc with hc | hc; exact absurd hm2 hc; exact hc
    have : ¬ (e + 1 > eMax) := by unfold eMax; omega
    simp only [hm2, if_true, this, if_false]
    rw [val_fin _ _ _ (by decide) (by unfold eMin; omega) (by unfold eMax; omega)]
    rw [two52_cast, two53_cast, P_add]
    unfold sgn
    simp only [decide_eq_true_eq]
    congr 1
    have : (2:ℚ) ^ (53:ℤ) = 2 ^ (52:ℤ) * 2 ^ (1:ℤ) := by rw [← P_add]; rfl
    rw [this]; ring
  · have : ¬ (e > eMax) := by unfold eMax; omega
    simp only [hm2, if_false, this]
    rw [val_fin _ _ _ (by omega) (by unfold eMin; omega) (by unfold eMax; omega)]
    unfold sgn
    simp only [decide_eq_true_eq]

theorem val_round_zero (b : Bool) : val (round 0 b) = some 0 := by
  have : round 0 b = .fin b 0 eMin := by unfold round; simp
  rw [this, val_fin _ _ _ (by decide) (le_refl _) (by decide)]
  simp

theorem round_spec (q : ℚ) (b : Bool) (h : |q| < 2 ^ (1023:ℤ)) :
    ∃ z, val (round q b) = some z ∧ |z - q| ≤ 2 ^ (-53:ℤ) * |q| + 2 ^ (-1075:ℤ) := by
  by_cases hq : q = 0
  · subst hq
    refine ⟨0, val_round_zero b, ?_⟩
    have := P_pos (-1075)
    simp only [sub_self, abs_zero, mul_zero, zero_add]
    exact le_of_lt this
  · have ha : 0 < |q| := abs_pos.mpr hq
    have hlt : |q| < 2 ^ (1024:ℤ) := lt_trans h (P_lt (by norm_num))
    obtain ⟨h1, h2, h3, h4, h5⟩ := rexp_spec |q| ha hlt
    have he := h5 h
    have hx0 : 0 ≤ |q| / 2 ^ rexp |q| := div_nonneg (le_of_lt ha) (le_of_lt (P_pos _))
    refine ⟨_, round_val q b hq hlt (Or.inr he), ?_⟩
    have hr := rne_spec _ hx0
    generalize rexp |q| = e at *
    generalize hm : (roundHalfEvenRat (|q| / 2 ^ e) : ℚ) = m at *
    have hpe := P_pos e
    have hsg := abs_sgn q
    have hq' : q = sgn q * |q| := (sgn_mul_abs q).symm
    generalize sgn q = σ at *
    generalize |q| = a at *
    have key : σ * m * 2 ^ e - q = σ * ((m - a / 2 ^ e) * 2 ^ e) := by
      rw [hq']; field_simp
    rw [key, abs_mul, hsg, one_mul, abs_mul, abs_of_pos hpe]
    have hb : |m - a / 2 ^ e| * 2 ^ e ≤ 1 / 2 * 2 ^ e := mul_le_mul_of_nonneg_right hr (le_of_lt hpe)
    have h53 : (2:ℚ) ^ (-53:ℤ) * 2 ^ (e + 52) = 1 / 2 * 2 ^ e := by
      rw [← P_add]
      have : (-53:ℤ) + (e + 52) = -1 + e := by ring
      rw [this, P_add]; norm_num
    rcases h4 with h4 | h4
    · subst h4
      have : (1:ℚ) / 2 * 2 ^ (-1074:ℤ) = 2 ^ (-1075:ℤ) := by
        have : (-1075:ℤ) = -1 + -1074 := by norm_num
        rw [this, P_add]; norm_num
      have h0 : 0 ≤ (2:ℚ) ^ (-53:ℤ) * a := mul_nonneg (le_of_lt (P_pos _)) (le_of_lt ha)
      linarith
    · have := mul_le_mul_of_nonneg_left h4 (le_of_lt (P_pos (-53)))
      have := P_pos (-1075)
      linarith

theorem round_exact (s : Bool) (M : ℕ) (E : ℤ) (b : Bool) (hM : M < two53) (hE1 : eMin ≤ E)
    (hE2 : E ≤ eMax) (q : ℚ) (hqv : q = (if s then -1 else 1) * (M:ℚ) * 2 ^ E) :
    val (round q b) = some q := by
  by_cases hq : q = 0
  · rw [hq]; exact val_round_zero b
  · have ha : 0 < |q| := abs_pos.mpr hq
    have hpE := P_pos E
    have habs : |q| = (M:ℚ) * 2 ^ E := by
      rw [hqv, abs_mul, abs_mul, abs_of_pos hpE, Nat.abs_cast]
      split <;> simp
    have hMq : (M:ℚ) < 2 ^ (53:ℤ) := by rw [← two53_cast]; exact_mod_cast hM
    have hltE : |q| < 2 ^ (53 + E) := by
      rw [habs, P_add]; exact mul_lt_mul_of_pos_right hMq hpE
    have hlt : |q| < 2 ^ (1024:ℤ) := lt_of_lt_of_le hltE (P_le (by unfold eMax at hE2; omega))
    obtain ⟨h1, h2, h3, h4, -⟩ := rexp_spec |q| ha hlt
    have heE : rexp |q| ≤ E := by
      rcases h4 with h4 | h4
      · unfold eMin at hE1; omega
      · have := P_lt_iff.mp (lt_of_le_of_lt h4 hltE); omega
    obtain ⟨k, hk⟩ := Int.eq_ofNat_of_zero_le (sub_nonneg.mpr heE)
    have hx : |q| / 2 ^ rexp |q| = ((M * 2 ^ k : ℕ) : ℚ) := by
      rw [div_eq_iff (ne_of_gt (P_pos _))]
      nth_rewrite 1 [habs]
      push_cast
      rw [← zpow_natCast, mul_assoc, ← P_add]
      congr 2; omega
    have hm : roundHalfEvenRat (|q| / 2 ^ rexp |q|) = M * 2 ^ k := by rw [hx, rne_nat]
    have hne : roundHalfEvenRat (|q| / 2 ^ rexp |q|) ≠ two53 := by
      intro hc
      have : ((M * 2 ^ k : ℕ) : ℚ) = 2 ^ (53:ℤ) := by rw [← hm, hc, two53_cast]
      rw [← hx] at this; linarith
    rw [round_val q b hq hlt (Or.inl hne), hm, ← hx]
    congr 1
    rw [mul_assoc, div_mul_cancel₀ _ (ne_of_gt (P_pos _)), sgn_mul_abs]

/-- value of the raw datum `fin s m e` -/
def tr (s : Bool) (m : ℕ) (e : ℤ) : ℚ := (if s then -1 else 1) * (m:ℚ) * 2 ^ e

theorem toRat_fin (s : Bool) (m : ℕ) (e : ℤ) : toRat (.fin s m e) = some (tr s m e) := by
  simp [toRat, tr, pow2_eq]

theorem val_some {a : F64} {x : ℚ} (h : val a = some x) :
    ∃ s m e, a = .fin s m e ∧ m < two53 ∧ eMin ≤ e ∧ e ≤ eMax ∧ x = tr s m e := by
  cases a with
  | fin s m e =>
    unfold val at h
    split at h
    · next hw =>
      simp only [wf, Bool.and_eq_true, decide_eq_true_eq] at hw
      rw [toRat_fin] at h
      exact ⟨s, m, e, rfl, hw.1.1, hw.1.2, hw.2, (Option.some.inj h).symm⟩
    · cases h
  | inf s => simp [val, wf, toRat] at h
  | nan => simp [val, wf, toRat] at h

theorem round_exact' (s : Bool) (m : ℕ) (e : ℤ) (b : Bool) (hm : m < two53) (h1 : eMin ≤ e)
    (h2 : e ≤ eMax) : val (round (tr s m e) b) = some (tr s m e) :=
  round_exact s m e b hm h1 h2 _ rfl

theorem tr_eq_zero {s : Bool} {m : ℕ} {e : ℤ} : tr s m e = 0 ↔ m = 0 := by
  unfold tr
  have := P_pos e
  constructor
  · intro h
    rcases mul_eq_zero.mp h with h | h
    · rcases mul_eq_zero.mp h with h | h
      · split at h <;> norm_num at h
      · exact_mod_cast h
    · linarith
  · intro h; subst h; simp

theorem tr_neg (s : Bool) (m : ℕ) (e : ℤ) : tr (!s) m e = - tr s m e := by
  unfold tr; cases s <;> simp

theorem mul_fin (s t : Bool) (m n : ℕ) (e f : ℤ) :
    mul (.fin s m e) (.fin t n f) = round (tr s m e * tr t n f) (s != t) := by
  simp only [mul, toRat_fin]

theorem add_fin (s t : Bool) (m n : ℕ) (e f : ℤ) :
    add (.fin s m e) (.fin t n f) = round (tr s m e + tr t n f) (s && t) := by
  simp only [add, toRat_fin]

theorem sub_fin (s t : Bool) (m n : ℕ) (e f : ℤ) :
    sub (.fin s m e) (.fin t n f) = round (tr s m e - tr t n f) (s && !t) := by
  simp only [sub, neg, add_fin, tr_neg, sub_eq_add_neg]

theorem div_fin (s t : Bool) (m n : ℕ) (e f : ℤ) (hn : n ≠ 0) :
    div (.fin s m e) (.fin t n f) = round (tr s m e / tr t n f) (s != t) := by
  simp only [div, toRat_fin, hn, if_false]

theorem pcmp_fin (s t : Bool) (m n : ℕ) (e f : ℤ) :
    pcmp (.fin s m e) (.fin t n f) = some (ratCmp (tr s m e) (tr t n f)) := by
  simp only [pcmp, toRat_fin]

theorem safe_iff (q : ℚ) : ErrModel.f64.safe q = true ↔ |q| < 2 ^ (1023:ℤ) := by
  simp only [ErrModel.f64, decide_eq_true_eq, ratAbs_eq_abs, two1023_eq]

theorem E_eq (q : ℚ) : ErrModel.f64.E q = 2 ^ (-53:ℤ) * |q| + 2 ^ (-1075:ℤ) := by
  simp only [ErrModel.f64, ratAbs_eq_abs, u64_eq, eta64_eq]

theorem Ea_eq (q : ℚ) : ErrModel.f64.Ea q = 2 ^ (-53:ℤ) * |q| + 2 ^ (-1075:ℤ) := by
  simp only [ErrModel.f64, ratAbs_eq_abs, u64_eq, eta64_eq]

theorem round_ok (q : ℚ) (b : Bool) (hs : ErrModel.f64.safe q = true) :
    ∃ z, val (round q b) = some z ∧ ratAbs (z - q) ≤ ErrModel.f64.E q ∧
      ratAbs (z - q) ≤ ErrModel.f64.Ea q := by
  obtain ⟨z, hz, hb⟩ := round_spec q b ((safe_iff q).mp hs)
  exact ⟨z, hz, by rw [ratAbs_eq_abs, E_eq]; exact hb, by rw [ratAbs_eq_abs, Ea_eq]; exact hb⟩

theorem f64_wf : ErrModel.f64.WF where
  E_nonneg x := by
    rw [E_eq]
    have := P_pos (-53); have := P_pos (-1075); have := abs_nonneg x
    positivity
  E_mono x y h := by
    rw [E_eq, E_eq]; simp only [ratAbs_eq_abs] at h
    have := mul_le_mul_of_nonneg_left h (le_of_lt (P_pos (-53)))
    linarith
  Ea_nonneg x := by
    rw [Ea_eq]
    have := P_pos (-53); have := P_pos (-1075); have := abs_nonneg x
    positivity
  Ea_mono x y h := by
    rw [Ea_eq, Ea_eq]; simp only [ratAbs_eq_abs] at h
    have := mul_le_mul_of_nonneg_left h (le_of_lt (P_pos (-53)))
    linarith
  safe_mono x y h hs := by
    rw [safe_iff] at *; simp only [ratAbs_eq_abs] at h
    exact lt_of_le_of_lt h hs

theorem ratCmp_flip (x y : ℚ) : some (ratCmp y x) = Oracle.flipOrd (some (ratCmp x y)) := by
  unfold ratCmp
  rcases lt_trichotomy x y with h | h | h
  · have h1 : ¬ y < x := not_lt.mpr (le_of_lt h)
    have h2 : ¬ y = x := fun h' => by rw [h'] at h; exact lt_irrefl _ h
    simp [h, h1, h2, Oracle.flipOrd]
  · subst h; simp [Oracle.flipOrd]
  · have h1 : ¬ x < y := not_lt.mpr (le_of_lt h)
    have h2 : ¬ x = y := fun h' => by rw [h'] at h; exact lt_irrefl _ h
    simp [h, h1, h2, Oracle.flipOrd]

theorem pcmp_flip (a b : F64) : pcmp b a = Oracle.flipOrd (pcmp a b) := by
  cases a with
  | nan => cases b <;> simp [pcmp, Oracle.flipOrd]
  | inf s =>
    cases b with
    | nan => simp [pcmp, Oracle.flipOrd]
    | inf t => cases s <;> cases t <;> simp [pcmp, Oracle.flipOrd]
    | fin t n f => cases s <;> simp [pcmp, Oracle.flipOrd]
  | fin s m e =>
    cases b with
    | nan => simp [pcmp, Oracle.flipOrd]
    | inf t => cases t <;> simp [pcmp, Oracle.flipOrd]
    | fin t n f => rw [pcmp_fin, pcmp_fin]; exact ratCmp_flip _ _

theorem ratCmp_eq_iff (x y : ℚ) : (some (ratCmp x y) == some Ordering.eq) = decide (x = y) := by
  unfold ratCmp
  by_cases h : x < y
  · have : ¬ x = y := ne_of_lt h
    simp [h, this]
  · by_cases h2 : x = y <;> simp [h, h2]

theorem one_eq : one = .fin false two52 (-52) := rfl

theorem tr_one : tr false two52 (-52) = 1 := by
  unfold tr; rw [two52_cast]; simp only [Bool.false_eq_true, if_false, one_mul]
  rw [← P_add]; rfl

theorem laws : Laws F64.arith ErrModel.f64 where
  wf := f64_wf
  mul_ok a b x y ha hb hs := by
    obtain ⟨s, m, e, rfl, -, -, -, rfl⟩ := val_some ha
    obtain ⟨t, n, f, rfl, -, -, -, rfl⟩ := val_some hb
    obtain ⟨z, hz, hb, -⟩ := round_ok _ (s != t) hs
    exact ⟨_, z, rfl, by rw [mul_fin]; exact hz, hb⟩
  div_ok a b x y ha hb hy hs := by
    obtain ⟨s, m, e, rfl, -, -, -, rfl⟩ := val_some ha
    obtain ⟨t, n, f, rfl, -, -, -, rfl⟩ := val_some hb
    have hn : n ≠ 0 := fun h => hy (tr_eq_zero.mpr h)
    obtain ⟨z, hz, hb, -⟩ := round_ok _ (s != t) hs
    exact ⟨_, z, rfl, by rw [div_fin _ _ _ _ _ _ hn]; exact hz, hb⟩
  add_ok a b x y ha hb _ _ hs := by
    obtain ⟨s, m, e, rfl, -, -, -, rfl⟩ := val_some ha
    obtain ⟨t, n, f, rfl, -, -, -, rfl⟩ := val_some hb
    obtain ⟨z, hz, -, hb⟩ := round_ok _ (s && t) hs
    exact ⟨_, z, rfl, by rw [add_fin]; exact hz, hb⟩
  sub_ok a b x y ha hb _ _ hs := by
    obtain ⟨s, m, e, rfl, -, -, -, rfl⟩ := val_some ha
    obtain ⟨t, n, f, rfl, -, -, -, rfl⟩ := val_some hb
    obtain ⟨z, hz, -, hb⟩ := round_ok _ (s && !t) hs
    exact ⟨_, z, rfl, by rw [sub_fin]; exact hz, hb⟩
  beq_val a b x y ha hb := by
    obtain ⟨s, m, e, rfl, -, -, -, rfl⟩ := val_some ha
    obtain ⟨t, n, f, rfl, -, -, -, rfl⟩ := val_some hb
    show beq _ _ = _
    unfold beq
    rw [pcmp_fin]; exact ratCmp_eq_iff _ _
  pcmp_val a b x y ha hb := by
    obtain ⟨s, m, e, rfl, -, -, -, rfl⟩ := val_some ha
    obtain ⟨t, n, f, rfl, -, -, -, rfl⟩ := val_some hb
    exact pcmp_fin _ _ _ _ _ _
  beq_pcmp a b := rfl
  pcmp_flip a b := pcmp_flip a b
  one_val := by
    show val one = some 1
    rw [one_eq, val_fin _ _ _ (by decide) (by decide) (by decide)]
    exact congrArg some tr_one
  zero_val := by
    show val zero = some 0
    unfold zero
    rw [val_fin _ _ _ (by decide) (by decide) (by decide)]
    simp
  div_self_val a b x ha hb hx := by
    obtain ⟨s, m, e, rfl, -, -, -, hxa⟩ := val_some ha
    obtain ⟨t, n, f, rfl, -, -, -, hxb⟩ := val_some hb
    have hn : n ≠ 0 := fun h => hx (hxb ▸ tr_eq_zero.mpr h)
    refine ⟨_, rfl, ?_⟩
    rw [div_fin _ _ _ _ _ _ hn, ← hxa, ← hxb, div_self hx, ← tr_one]
    exact round_exact' _ _ _ _ (by decide) (by decide) (by decide)
  one_mul_val c d y hc hd := by
    obtain ⟨s, m, e, rfl, -, -, -, hx⟩ := val_some hc
    obtain ⟨t, n, f, rfl, h1, h2, h3, rfl⟩ := val_some hd
    refine ⟨_, rfl, ?_⟩
    rw [mul_fin, ← hx, one_mul]
    exact round_exact' _ _ _ _ h1 h2 h3
  mul_one_val c d y hc hd := by
    obtain ⟨s, m, e, rfl, -, -, -, hx⟩ := val_some hc
    obtain ⟨t, n, f, rfl, h1, h2, h3, rfl⟩ := val_some hd
    refine ⟨_, rfl, ?_⟩
    rw [mul_fin, ← hx, mul_one]
    exact round_exact' _ _ _ _ h1 h2 h3
  div_one_val c d y hc hd := by
    obtain ⟨s, m, e, rfl, -, -, -, hx⟩ := val_some hc
    obtain ⟨t, n, f, rfl, h1, h2, h3, rfl⟩ := val_some hd
    have hm : m ≠ 0 := fun h => by
      have : tr s m e = 0 := tr_eq_zero.mpr h
      rw [← hx] at this; exact one_ne_zero this
    refine ⟨_, rfl, ?_⟩
    rw [div_fin _ _ _ _ _ _ hm, ← hx, div_one]
    exact round_exact' _ _ _ _ h1 h2 h3

end F64
end Qty
