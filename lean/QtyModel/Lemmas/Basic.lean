import QtyModel.Laws
import Mathlib.Tactic.Linarith
import Mathlib.Tactic.FieldSimp
import Mathlib.Tactic.Ring
import Mathlib.Algebra.Order.Field.Basic
import Mathlib.Algebra.Order.AbsoluteValue.Basic
/-
  Bridge between the core-only helpers of the model and Mathlib's order/abs API on `ℚ`.
-/
namespace Qty

theorem ratAbs_eq_abs (x : Rat) : ratAbs x = |x| := by
  unfold ratAbs
  split
  · next h => rw [abs_of_neg h]
  · next h => rw [abs_of_nonneg (not_lt.mp h)]

end Qty
