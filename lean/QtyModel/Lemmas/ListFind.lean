/-
  Generic facts about keyed lookup (`List.find?`) and about the stable insertion
  sort used by the model of `analyze` (core Lean only).
-/
import QtyModel.Registry
namespace Qty

theorem find_key_iff {α κ : Type} [BEq κ] [LawfulBEq κ] (rows : List α) (key : α → κ)
    (h : (rows.map key).Nodup) (k : κ) (r : α) :
    rows.find? (fun x => key x == k) = some r ↔ r ∈ rows ∧ key r = k := by
  induction rows with
  | nil => simp
  | cons a as ih =>
    simp only [List.map_cons, List.nodup_cons] at h
    by_cases hk : key a = k
    · simp only [List.find?_cons, hk, beq_self_eq_true, Option.some.injEq, List.mem_cons]
      constructor
      · intro e; subst e; exact ⟨Or.inl rfl, hk⟩
      · rintro ⟨hm | hm, hr⟩
        · exact hm.symm
        · exfalso; apply h.1; rw [hk, ← hr]; exact List.mem_map_of_mem hm
    · have : (key a == k) = false := by simp [hk]
      simp only [List.find?_cons, this, List.mem_cons]
      rw [ih h.2]
      constructor
      · rintro ⟨hm, hr⟩; exact ⟨Or.inr hm, hr⟩
      · rintro ⟨hm | hm, hr⟩
        · subst hm; exact absurd hr hk
        · exact ⟨hm, hr⟩

/-- `find?` returns the FIRST element satisfying the predicate: everything before it fails it -/
theorem find_first {α : Type} (l : List α) (p : α → Bool) (r : α) (h : l.find? p = some r) :
    ∃ pre post, l = pre ++ r :: post ∧ p r = true ∧ ∀ x ∈ pre, p x = false := by
  induction l with
  | nil => simp at h
  | cons a as ih =>
    by_cases ha : p a = true
    · simp [List.find?_cons, ha] at h
      subst h
      exact ⟨[], as, rfl, ha, by simp⟩
    · have ha' : p a = false := by simpa using ha
      simp [List.find?_cons, ha'] at h
      obtain ⟨pre, post, e, hr, hp⟩ := ih h
      refine ⟨a :: pre, post, by rw [e]; rfl, hr, ?_⟩
      intro x hx
      rcases List.mem_cons.mp hx with rfl | hx
      · exact ha'
      · exact hp x hx

theorem find_none_iff {α : Type} (l : List α) (p : α → Bool) :
    l.find? p = none ↔ ∀ x ∈ l, p x = false := by
  simp [List.find?_eq_none]

section sort
open MacroFront
variable {α : Type} (le : α → α → Bool)

theorem insertBy_perm (a : α) (l : List α) : (insertBy le a l).Perm (a :: l) := by
  induction l with
  | nil => exact List.Perm.refl _
  | cons b l ih =>
    unfold insertBy
    split
    · exact List.Perm.refl _
    · exact (List.Perm.cons b ih).trans (List.Perm.swap a b l)

/-- the sort only permutes: every declared unit appears exactly once -/
theorem isort_perm (l : List α) : (isort le l).Perm l := by
  induction l with
  | nil => exact List.Perm.refl _
  | cons a l ih =>
    unfold isort
    exact (insertBy_perm le a _).trans (List.Perm.cons a ih)

theorem mem_insertBy (a x : α) (l : List α) : x ∈ insertBy le a l ↔ x = a ∨ x ∈ l := by
  rw [(insertBy_perm le a l).mem_iff]; simp

theorem insertBy_sorted (htot : ∀ a b, le a b = true ∨ le b a = true)
    (htr : ∀ a b c, le a b = true → le b c = true → le a c = true)
    (a : α) (l : List α) (h : l.Pairwise (fun x y => le x y = true)) :
    (insertBy le a l).Pairwise (fun x y => le x y = true) := by
  induction l with
  | nil => simp [insertBy]
  | cons b l ih =>
    unfold insertBy
    rw [List.pairwise_cons] at h
    split
    · next hab =>
      rw [List.pairwise_cons]
      refine ⟨?_, List.pairwise_cons.mpr h⟩
      intro x hx
      rcases List.mem_cons.mp hx with rfl | hx
      · exact hab
      · exact htr _ _ _ hab (h.1 x hx)
    · next hab =>
      have hba : le b a = true := by
        rcases htot a b with h1 | h1
        · exact absurd h1 hab
        · exact h1
      rw [List.pairwise_cons]
      refine ⟨?_, ih h.2⟩
      intro x hx
      rcases (mem_insertBy le a x l).mp hx with rfl | hx
      · exact hba
      · exact h.1 x hx

/-- iteration order is non-decreasing in the sort key -/
theorem isort_sorted (htot : ∀ a b, le a b = true ∨ le b a = true)
    (htr : ∀ a b c, le a b = true → le b c = true → le a c = true) (l : List α) :
    (isort le l).Pairwise (fun x y => le x y = true) := by
  induction l with
  | nil => simp [isort]
  | cons a l ih => unfold isort; exact insertBy_sorted le htot htr a _ ih

/-- stability: among the elements selected by a predicate `p` that is a union of key classes
(`p` cannot tell `a` from elements `a` is ≤-equivalent to… here: `p b` and `¬ p a` imply the
insertion test does not depend on it) the original order is kept.  Stated for the classes
of `le`-equivalence: if `p` holds exactly for the elements equivalent to `a₀`. -/
theorem insertBy_filter (p : α → Bool) (a : α) (l : List α)
    (hl : l.Pairwise (fun x y => le x y = true))
    (hp : ∀ b ∈ l, p a = true → p b = true → le a b = true) :
    (insertBy le a l).filter p = (a :: l).filter p := by
  induction l with
  | nil => simp [insertBy]
  | cons b l ih =>
    unfold insertBy
    split
    · rfl
    · next hab =>
      rw [List.pairwise_cons] at hl
      have ih' := ih hl.2 (fun c hc => hp c (List.mem_cons_of_mem _ hc))
      by_cases hpa : p a = true
      · by_cases hpb : p b = true
        · exact absurd (hp b (List.mem_cons_self ..) hpa hpb) hab
        · have hpb' : p b = false := by simpa using hpb
          simp only [List.filter_cons, hpb', hpa] at ih' ⊢
          simpa using ih'
      · have hpa' : p a = false := by simpa using hpa
        simp only [List.filter_cons, hpa'] at ih' ⊢
        simp [ih']

end sort
end Qty
