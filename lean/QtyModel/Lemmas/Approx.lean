import QtyModel.Lemmas.Basic
import QtyModel.Rate
/-
  Soundness of the error-propagation calculus `Approx` (Oracle.lean) with respect
  to any arithmetic satisfying `Laws`.
-/
namespace Qty
open Qty

variable {A : Type} (R : Arith A)

/-- the amount `a` is a computed value of the expression described by `x`:
finite, and within `x.err` of the exact value `x.v` -/
def Realises (a : A) (x : Approx) : Prop := ∃ z, R.val a = some z ∧ |z - x.v| ≤ x.err

theorem exact_sound (a : A) (q : Rat) (h : R.val a = some q) : Realises R a (Approx.exact q) :=
  ⟨q, h, by simp [Approx.exact]⟩

theorem mul_err_nonneg {M : ErrModel} (W : M.WF) (x y : Approx) (hx : 0 ≤ x.err) (hy : 0 ≤ y.err) :
    0 ≤ (Approx.mul M x y).err := by
  simp only [Approx.mul, ratAbs_eq_abs]
  have h1 := W.E_nonneg (|x.v * y.v| + (|x.v| * y.err + |y.v| * x.err + x.err * y.err))
  have h2 : 0 ≤ |x.v| * y.err + |y.v| * x.err + x.err * y.err := by positivity
  linarith

theorem add_err_nonneg {M : ErrModel} (W : M.WF) (x y : Approx) (hx : 0 ≤ x.err) (hy : 0 ≤ y.err) :
    0 ≤ (Approx.add M x y).err := by
  simp only [Approx.add, ratAbs_eq_abs]
  have h1 := W.Ea_nonneg (|x.v + y.v| + (x.err + y.err))
  linarith

theorem div_err_nonneg {M : ErrModel} (W : M.WF) (x y w : Approx) (hx : 0 ≤ x.err) (hy : 0 ≤ y.err)
    (h : Approx.div M x y = some w) : 0 ≤ w.err := by
  unfold Approx.div at h
  split at h
  · exact absurd h (by simp)
  · next hlo =>
    simp only [Option.some.injEq] at h
    subst h
    simp only [ratAbs_eq_abs] at hlo ⊢
    have hlo' : 0 < |y.v| - y.err := by linarith [not_le.mp hlo]
    have hy0 : 0 < |y.v| := by linarith
    have h1 := W.E_nonneg (|x.v / y.v| + (|x.v| * y.err + |y.v| * x.err) / (|y.v| * (|y.v| - y.err)))
    have h2 : 0 ≤ (|x.v| * y.err + |y.v| * x.err) / (|y.v| * (|y.v| - y.err)) := by positivity
    linarith

/-! projections of the `ok` flag and of the exact value -/

theorem exact_err_nonneg (q : Rat) : 0 ≤ (Approx.exact q).err := by simp [Approx.exact]

theorem mul_ok_left {M : ErrModel} (x y : Approx) (h : (Approx.mul M x y).ok = true) : x.ok = true := by
  simp only [Approx.mul, Bool.and_eq_true] at h
  exact h.1.1

theorem mul_ok_right {M : ErrModel} (x y : Approx) (h : (Approx.mul M x y).ok = true) : y.ok = true := by
  simp only [Approx.mul, Bool.and_eq_true] at h
  exact h.1.2

theorem add_ok_left {M : ErrModel} (x y : Approx) (h : (Approx.add M x y).ok = true) : x.ok = true := by
  simp only [Approx.add, Bool.and_eq_true] at h
  exact h.1.1.1.1

theorem add_ok_right {M : ErrModel} (x y : Approx) (h : (Approx.add M x y).ok = true) : y.ok = true := by
  simp only [Approx.add, Bool.and_eq_true] at h
  exact h.1.1.1.2

theorem div_ok_left {M : ErrModel} (x y w : Approx) (hd : Approx.div M x y = some w)
    (h : w.ok = true) : x.ok = true := by
  unfold Approx.div at hd
  split at hd
  · exact absurd hd (by simp)
  · simp only [Option.some.injEq] at hd
    subst hd
    simp only [Bool.and_eq_true] at h
    exact h.1.1

theorem div_ok_right {M : ErrModel} (x y w : Approx) (hd : Approx.div M x y = some w)
    (h : w.ok = true) : y.ok = true := by
  unfold Approx.div at hd
  split at hd
  · exact absurd hd (by simp)
  · simp only [Option.some.injEq] at hd
    subst hd
    simp only [Bool.and_eq_true] at h
    exact h.1.2

theorem mul_v {M : ErrModel} (x y : Approx) : (Approx.mul M x y).v = x.v * y.v := rfl

theorem add_v {M : ErrModel} (x y : Approx) : (Approx.add M x y).v = x.v + y.v := rfl

theorem div_v {M : ErrModel} (x y w : Approx) (hd : Approx.div M x y = some w) : w.v = x.v / y.v := by
  unfold Approx.div at hd
  split at hd
  · exact absurd hd (by simp)
  · simp only [Option.some.injEq] at hd
    subst hd
    rfl

theorem mul_sound {M : ErrModel} (L : Laws R M) (a b : A) (x y : Approx)
    (ha : Realises R a x) (hb : Realises R b y) (hx : 0 ≤ x.err) (hy : 0 ≤ y.err)
    (hok : (Approx.mul M x y).ok = true) :
    ∃ c, R.mul a b = .ok c ∧ Realises R c (Approx.mul M x y) := by
  obtain ⟨p, hp, hpe⟩ := ha
  obtain ⟨q, hq, hqe⟩ := hb
  simp only [Approx.mul, Bool.and_eq_true, ratAbs_eq_abs] at hok
  obtain ⟨-, hsafe⟩ := hok
  unfold Realises
  simp only [Approx.mul, ratAbs_eq_abs]
  set perr := |x.v| * y.err + |y.v| * x.err + x.err * y.err with hperr
  have hperr0 : 0 ≤ perr := by positivity
  have hcore : |p * q - x.v * y.v| ≤ perr := by
    have key : p * q - x.v * y.v = x.v * (q - y.v) + y.v * (p - x.v) + (p - x.v) * (q - y.v) := by
      ring
    rw [key]
    calc |x.v * (q - y.v) + y.v * (p - x.v) + (p - x.v) * (q - y.v)|
        ≤ |x.v * (q - y.v)| + |y.v * (p - x.v)| + |(p - x.v) * (q - y.v)| := abs_add_three _ _ _
      _ = |x.v| * |q - y.v| + |y.v| * |p - x.v| + |p - x.v| * |q - y.v| := by
          rw [abs_mul, abs_mul, abs_mul]
      _ ≤ perr := by
          have h1 := mul_le_mul_of_nonneg_left hqe (abs_nonneg x.v)
          have h2 := mul_le_mul_of_nonneg_left hpe (abs_nonneg y.v)
          have h3 := mul_le_mul hpe hqe (abs_nonneg _) hx
          linarith
  have hB0 : 0 ≤ |x.v * y.v| + perr := by positivity
  have hpq : |p * q| ≤ |x.v * y.v| + perr := by
    have := abs_sub_abs_le_abs_sub (p * q) (x.v * y.v)
    linarith
  have hE0 := L.wf.E_nonneg (|x.v * y.v| + perr)
  have hsafe1 : M.safe (p * q) = true := by
    apply L.wf.safe_mono _ _ _ hsafe
    simp only [ratAbs_eq_abs]
    rw [abs_of_nonneg (by linarith : 0 ≤ |x.v * y.v| + perr + M.E (|x.v * y.v| + perr))]
    linarith
  obtain ⟨c, z, hmul, hzv, hze⟩ := L.mul_ok a b p q hp hq hsafe1
  rw [ratAbs_eq_abs] at hze
  have hE1 : M.E (p * q) ≤ M.E (|x.v * y.v| + perr) := by
    apply L.wf.E_mono
    simp only [ratAbs_eq_abs]
    rw [abs_of_nonneg hB0]; exact hpq
  refine ⟨c, hmul, z, hzv, ?_⟩
  have key : z - x.v * y.v = (z - p * q) + (p * q - x.v * y.v) := by ring
  rw [key]
  have := abs_add_le (z - p * q) (p * q - x.v * y.v)
  linarith

theorem div_sound {M : ErrModel} (L : Laws R M) (a b : A) (x y w : Approx)
    (ha : Realises R a x) (hb : Realises R b y) (hx : 0 ≤ x.err) (hy : 0 ≤ y.err)
    (hd : Approx.div M x y = some w) (hok : w.ok = true) :
    ∃ c, R.div a b = .ok c ∧ Realises R c w := by
  obtain ⟨p, hp, hpe⟩ := ha
  obtain ⟨q, hq, hqe⟩ := hb
  unfold Approx.div at hd
  split at hd
  · exact absurd hd (by simp)
  next hlo =>
  simp only [Option.some.injEq] at hd
  subst hd
  simp only [Bool.and_eq_true, ratAbs_eq_abs] at hok hlo
  obtain ⟨-, hsafe⟩ := hok
  unfold Realises
  simp only [ratAbs_eq_abs]
  have hlo0 : 0 < |y.v| - y.err := by linarith [not_le.mp hlo]
  have hyv0 : 0 < |y.v| := by linarith
  have hyvne : y.v ≠ 0 := abs_pos.mp hyv0
  have hqlo : |y.v| - y.err ≤ |q| := by
    have := abs_sub_abs_le_abs_sub y.v q
    rw [abs_sub_comm y.v q] at this
    linarith
  have hq0 : 0 < |q| := lt_of_lt_of_le hlo0 hqlo
  have hqne : q ≠ 0 := abs_pos.mp hq0
  set num := |x.v| * y.err + |y.v| * x.err with hnum
  set perr := num / (|y.v| * (|y.v| - y.err)) with hperr
  have hnum0 : 0 ≤ num := by positivity
  have hperr0 : 0 ≤ perr := by positivity
  have hcore : |p / q - x.v / y.v| ≤ perr := by
    have key : p / q - x.v / y.v = ((p - x.v) * y.v - x.v * (q - y.v)) / (q * y.v) := by
      field_simp
      ring
    rw [key, abs_div, abs_mul]
    have hn : |(p - x.v) * y.v - x.v * (q - y.v)| ≤ num := by
      calc |(p - x.v) * y.v - x.v * (q - y.v)|
          ≤ |(p - x.v) * y.v| + |x.v * (q - y.v)| := abs_sub _ _
        _ = |p - x.v| * |y.v| + |x.v| * |q - y.v| := by rw [abs_mul, abs_mul]
        _ ≤ num := by
            have h1 := mul_le_mul_of_nonneg_right hpe (abs_nonneg y.v)
            have h2 := mul_le_mul_of_nonneg_left hqe (abs_nonneg x.v)
            linarith
    have hden : |y.v| * (|y.v| - y.err) ≤ |q| * |y.v| := by
      have := mul_le_mul_of_nonneg_right hqlo (le_of_lt hyv0)
      linarith
    have hden0 : 0 < |y.v| * (|y.v| - y.err) := by positivity
    calc |(p - x.v) * y.v - x.v * (q - y.v)| / (|q| * |y.v|)
        ≤ num / (|q| * |y.v|) := div_le_div_of_nonneg_right hn (by positivity)
      _ ≤ num / (|y.v| * (|y.v| - y.err)) := div_le_div_of_nonneg_left hnum0 hden0 hden
  have hB0 : 0 ≤ |x.v / y.v| + perr := by positivity
  have hpq : |p / q| ≤ |x.v / y.v| + perr := by
    have := abs_sub_abs_le_abs_sub (p / q) (x.v / y.v)
    linarith
  have hE0 := L.wf.E_nonneg (|x.v / y.v| + perr)
  have hsafe1 : M.safe (p / q) = true := by
    apply L.wf.safe_mono _ _ _ hsafe
    simp only [ratAbs_eq_abs]
    rw [abs_of_nonneg (by linarith : 0 ≤ |x.v / y.v| + perr + M.E (|x.v / y.v| + perr))]
    linarith
  obtain ⟨c, z, hdiv, hzv, hze⟩ := L.div_ok a b p q hp hq hqne hsafe1
  rw [ratAbs_eq_abs] at hze
  have hE1 : M.E (p / q) ≤ M.E (|x.v / y.v| + perr) := by
    apply L.wf.E_mono
    simp only [ratAbs_eq_abs]
    rw [abs_of_nonneg hB0]; exact hpq
  refine ⟨c, hdiv, z, hzv, ?_⟩
  have key : z - x.v / y.v = (z - p / q) + (p / q - x.v / y.v) := by ring
  rw [key]
  have := abs_add_le (z - p / q) (p / q - x.v / y.v)
  linarith

theorem add_sound {M : ErrModel} (L : Laws R M) (a b : A) (x y : Approx)
    (ha : Realises R a x) (hb : Realises R b y) (hx : 0 ≤ x.err) (hy : 0 ≤ y.err)
    (hok : (Approx.add M x y).ok = true) :
    ∃ c, R.add a b = .ok c ∧ Realises R c (Approx.add M x y) := by
  obtain ⟨p, hp, hpe⟩ := ha
  obtain ⟨q, hq, hqe⟩ := hb
  simp only [Approx.add, Bool.and_eq_true, ratAbs_eq_abs] at hok
  obtain ⟨⟨⟨-, hsx⟩, hsy⟩, hsafe⟩ := hok
  unfold Realises
  simp only [Approx.add, ratAbs_eq_abs]
  have hpa : |p| ≤ |x.v| + x.err := by
    have := abs_sub_abs_le_abs_sub p x.v
    linarith
  have hqa : |q| ≤ |y.v| + y.err := by
    have := abs_sub_abs_le_abs_sub q y.v
    linarith
  have hsp : M.safe p = true := by
    apply L.wf.safe_mono _ _ _ hsx
    simp only [ratAbs_eq_abs]
    rw [abs_of_nonneg (by positivity : 0 ≤ |x.v| + x.err)]; exact hpa
  have hsq : M.safe q = true := by
    apply L.wf.safe_mono _ _ _ hsy
    simp only [ratAbs_eq_abs]
    rw [abs_of_nonneg (by positivity : 0 ≤ |y.v| + y.err)]; exact hqa
  have hcore : |p + q - (x.v + y.v)| ≤ x.err + y.err := by
    have key : p + q - (x.v + y.v) = (p - x.v) + (q - y.v) := by ring
    rw [key]
    have := abs_add_le (p - x.v) (q - y.v)
    linarith
  have hB0 : 0 ≤ |x.v + y.v| + (x.err + y.err) := by positivity
  have hpq : |p + q| ≤ |x.v + y.v| + (x.err + y.err) := by
    have := abs_sub_abs_le_abs_sub (p + q) (x.v + y.v)
    linarith
  have hE0 := L.wf.Ea_nonneg (|x.v + y.v| + (x.err + y.err))
  have hsafe1 : M.safe (p + q) = true := by
    apply L.wf.safe_mono _ _ _ hsafe
    simp only [ratAbs_eq_abs]
    rw [abs_of_nonneg (by linarith :
      0 ≤ |x.v + y.v| + (x.err + y.err) + M.Ea (|x.v + y.v| + (x.err + y.err)))]
    linarith
  obtain ⟨c, z, hadd, hzv, hze⟩ := L.add_ok a b p q hp hq hsp hsq hsafe1
  rw [ratAbs_eq_abs] at hze
  have hE1 : M.Ea (p + q) ≤ M.Ea (|x.v + y.v| + (x.err + y.err)) := by
    apply L.wf.Ea_mono
    simp only [ratAbs_eq_abs]
    rw [abs_of_nonneg hB0]; exact hpq
  refine ⟨c, hadd, z, hzv, ?_⟩
  have key : z - (x.v + y.v) = (z - (p + q)) + (p + q - (x.v + y.v)) := by ring
  rw [key]
  have := abs_add_le (z - (p + q)) (p + q - (x.v + y.v))
  linarith

end Qty
