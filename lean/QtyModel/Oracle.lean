import QtyModel.Tables
import QtyModel.F64
/-
  Decidable conclusions of the property theorems, evaluated at run time on what
  the IMPLEMENTATION returned.  The numeric bounds are explicit rational
  functions of the exact inputs; the same functions appear in the theorems of
  `Props/`.
-/
namespace Qty

/-- Rounding model of an amount type: `E x` bounds the absolute error of one
`*` or `/` whose exact result is `x`; `Ea x` the same for `+`/`-`;
`safe x` says the exact result `x` is representable without overflow. -/
structure ErrModel where
  E : Rat → Rat
  Ea : Rat → Rat
  safe : Rat → Bool

namespace ErrModel

def u64 : Rat := 1 / (((2 ^ 53 : Nat) : Int) : Rat)
def eta64 : Rat := 1 / (((2 ^ 1075 : Nat) : Int) : Rat)

def f64 : ErrModel where
  E := fun x => u64 * ratAbs x + eta64
  Ea := fun x => u64 * ratAbs x + eta64
  safe := fun x => decide (ratAbs x < (((2 ^ 1023 : Nat) : Int) : Rat))

def eta18 : Rat := 1 / (2 * pow10 18)

def dec : ErrModel where
  E := fun _ => eta18
  Ea := fun _ => 0
  safe := fun x => decide (ratAbs x ≤ pow10 19)

end ErrModel

inductive Verdict where
  | ok
  | skip (why : String)
  | fail (why : String)
  deriving Repr, Inhabited

def Verdict.toString : Verdict → String
  | .ok => "ok"
  | .skip w => "skip:" ++ w
  | .fail w => "FAIL:" ++ w

def Verdict.and : Verdict → Verdict → Verdict
  | .fail w, _ => .fail w
  | _, .fail w => .fail w
  | .skip w, _ => .skip w
  | _, .skip w => .skip w
  | .ok, .ok => .ok

def check (b : Bool) (why : String) : Verdict := if b then .ok else .fail why

namespace Oracle
variable (M : ErrModel)

/-- error bound of one conversion `from → to` of amount value `a`
(`s₁`, `s₂` the unit scales): `s₂ · (E((|ρ| + E ρ)·|a|) + |a| · E ρ)`, `ρ = s₁/s₂`. -/
def convBoundIn (s1 s2 a : Rat) : Rat :=
  let ρ := s1 / s2
  M.E ((ratAbs ρ + M.E ρ) * ratAbs a) + ratAbs a * M.E ρ

def convBound (s1 s2 a : Rat) : Rat := ratAbs s2 * convBoundIn M s1 s2 a

/-- all intermediates of a conversion are in range -/
def convSafe (s1 s2 a : Rat) : Bool :=
  let ρ := s1 / s2
  M.safe ρ && M.safe ((ratAbs ρ + M.E ρ) * ratAbs a + convBoundIn M s1 s2 a)

/-- C01: conversion of `a·from` to unit `to` observed as `(u', y)`. -/
def c01 (sameUnit : Bool) (to u' : Nat) (s1 s2 : Rat) (a : Option Rat) (sameAmt : Bool)
    (y : Option Rat) : Verdict :=
  (check (u' = to) "result does not carry the requested unit").and <|
  if sameUnit then check sameAmt "same-unit conversion changed the amount"
  else match a with
    | none => .skip "non-finite amount"
    | some a =>
      if !(convSafe M s1 s2 a) then .skip "out of range"
      else match y with
        | none => .fail "finite in-range conversion gave a non-finite amount"
        | some y =>
          check (ratAbs (y * s2 - a * s1) ≤ convBound M s1 s2 a)
            "magnitude not preserved within the rounding bound"

end Oracle
end Qty
