import QtyModel.Tables
import QtyModel.F64
/-
  Decidable conclusions of the property theorems, evaluated at run time on what
  the IMPLEMENTATION returned.  The numeric bounds are explicit rational
  functions of the exact inputs; the same functions appear in the theorems of
  `Props/`.
-/
namespace Qty

/-- Rounding model of an amount type: `E x` bounds the absolute error of one
`*` or `/` whose exact result is `x`; `Ea x` the same for `+`/`-`;
`safe x` says the exact result `x` is representable without overflow. -/
structure ErrModel where
  E : Rat → Rat
  Ea : Rat → Rat
  safe : Rat → Bool

namespace ErrModel

def u64 : Rat := 1 / (((2 ^ 53 : Nat) : Int) : Rat)
def eta64 : Rat := 1 / (((2 ^ 1075 : Nat) : Int) : Rat)

def f64 : ErrModel where
  E := fun x => u64 * ratAbs x + eta64
  Ea := fun x => u64 * ratAbs x + eta64
  safe := fun x => decide (ratAbs x < (((2 ^ 1023 : Nat) : Int) : Rat))

def eta18 : Rat := 1 / (2 * pow10 18)

def dec : ErrModel where
  E := fun _ => eta18
  Ea := fun _ => 0
  safe := fun x => decide (ratAbs x ≤ pow10 19)

end ErrModel

inductive Verdict where
  | ok
  | skip (why : String)
  | fail (why : String)
  deriving Repr, Inhabited

def Verdict.toString : Verdict → String
  | .ok => "ok"
  | .skip w => "skip:" ++ w
  | .fail w => "FAIL:" ++ w

def Verdict.and : Verdict → Verdict → Verdict
  | .fail w, _ => .fail w
  | _, .fail w => .fail w
  | .skip w, _ => .skip w
  | _, .skip w => .skip w
  | .ok, .ok => .ok

def check (b : Bool) (why : String) : Verdict := if b then .ok else .fail why

namespace Oracle
variable (M : ErrModel)

/-- error bound of one conversion `from → to` of amount value `a`
(`s₁`, `s₂` the unit scales): `s₂ · (E((|ρ| + E ρ)·|a|) + |a| · E ρ)`, `ρ = s₁/s₂`. -/
def convBoundIn (s1 s2 a : Rat) : Rat :=
  let ρ := s1 / s2
  M.E ((ratAbs ρ + M.E ρ) * ratAbs a) + ratAbs a * M.E ρ

def convBound (s1 s2 a : Rat) : Rat := ratAbs s2 * convBoundIn M s1 s2 a

/-- all intermediates of a conversion are in range -/
def convSafe (s1 s2 a : Rat) : Bool :=
  let ρ := s1 / s2
  M.safe ρ && M.safe ((ratAbs ρ + M.E ρ) * ratAbs a + convBoundIn M s1 s2 a)

/-- C01: conversion of `a·from` to unit `to` observed as `(u', y)`. -/
def c01 (sameUnit : Bool) (to u' : Nat) (s1 s2 : Rat) (a : Option Rat) (sameAmt : Bool)
    (y : Option Rat) : Verdict :=
  (check (u' = to) "result does not carry the requested unit").and <|
  if sameUnit then check sameAmt "same-unit conversion changed the amount"
  else match a with
    | none => .skip "non-finite amount"
    | some a =>
      if !(convSafe M s1 s2 a) then .skip "out of range"
      else match y with
        | none => .fail "finite in-range conversion gave a non-finite amount"
        | some y =>
          check (ratAbs (y * s2 - a * s1) ≤ convBound M s1 s2 a)
            "magnitude not preserved within the rounding bound"


/-- C03: `a ± b` with `a = x·unit i`, `b = y·unit j` observed as `(u', z)`;
`s1`, `s2` the scales of units `i`, `j`. -/
def c03addsub (isSub : Bool) (i j u' : Nat) (s1 s2 : Rat) (x y : Option Rat) (sameAsOwn : Bool)
    (z : Option Rat) : Verdict :=
  (check (u' = i) "result is not expressed in the left operand's unit").and <|
  if i = j then check sameAsOwn "same-unit result differs from the amount type's own operator"
  else match x, y with
    | some x, some y =>
      let ρ := s2 / s1
      let cb := convBoundIn M s2 s1 y
      let yMax := ratAbs ρ * ratAbs y + cb
      if !(convSafe M s2 s1 y && M.safe (ratAbs x + yMax + M.Ea (ratAbs x + yMax))) then .skip "out of range"
      else match z with
        | none => .fail "finite in-range operands gave a non-finite result"
        | some z =>
          let exact := if isSub then x * s1 - y * s2 else x * s1 + y * s2
          check (ratAbs (z * s1 - exact) ≤ ratAbs s1 * (M.Ea (ratAbs x + yMax) + cb))
            "magnitude of the sum/difference outside the rounding bound"
    | _, _ => .skip "non-finite amount"

/-- C03: `a / b` observed as the amount `z`. -/
def c03div (i j : Nat) (s1 s2 : Rat) (x y : Option Rat) (sameAsOwn : Bool) (z : Option Rat) : Verdict :=
  if i = j then check sameAsOwn "same-unit quotient differs from the amount type's own operator"
  else match x, y with
    | some x, some y =>
      let ρ := s2 / s1
      let t := ρ * y
      let cb := convBoundIn M s2 s1 y
      if t = 0 then .skip "zero divisor"
      else if !(convSafe M s2 s1 y) then .skip "out of range"
      else if cb ≥ ratAbs t then .skip "divisor within rounding error of zero"
      else
        let lo := ratAbs t - cb
        if !(M.safe (ratAbs x / lo + M.E (ratAbs x / lo))) then .skip "out of range"
        else match z with
          | none => .fail "finite in-range operands gave a non-finite ratio"
          | some z =>
            check (ratAbs (z - x / t) ≤ ratAbs x * cb / (lo * ratAbs t) + M.E (ratAbs x / lo))
              "ratio of magnitudes outside the rounding bound"
    | _, _ => .skip "non-finite amount"

/-- what the six comparison operators and `partial_cmp` returned -/
structure CmpObs where
  eq : Bool
  ne : Bool
  lt : Bool
  le : Bool
  gt : Bool
  ge : Bool
  pc : Option Ordering
  deriving DecidableEq, Repr, Inhabited

def CmpObs.ofPcmp (e : Bool) (p : Option Ordering) : CmpObs :=
  { eq := e, ne := !e, lt := p == some .lt, le := p == some .lt || p == some .eq,
    gt := p == some .gt, ge := p == some .gt || p == some .eq, pc := p }

/-- the operators are derived from `eq` / `partial_cmp` as Rust derives them, and
`partial_cmp` reports `Equal` exactly when `==` holds -/
def CmpObs.consistent (o : CmpObs) : Bool :=
  o == CmpObs.ofPcmp o.eq o.pc && (o.eq == (o.pc == some .eq))

def flipOrd : Option Ordering → Option Ordering
  | some .lt => some .gt
  | some .gt => some .lt
  | o => o

/-- C02, one operand order: `a = x·unit i` (magnitude `mx`), `b = y·unit j` (magnitude `my`);
`own` = the amount type's own comparison of the two amounts; `margin` = error bound of
converting `b` into `a`'s unit (as a magnitude). -/
def c02one (sameUnit : Bool) (own obs : CmpObs) (mx my : Option Rat) (margin : Option Rat) : Verdict :=
  (check obs.consistent "operators inconsistent with ==/partial_cmp").and <|
  if sameUnit then check (obs == own) "same-unit comparison differs from the amount type's own"
  else match mx, my, margin with
    | some mx, some my, some mg =>
      if ratAbs (mx - my) > mg then
        check (obs.pc == some (ratCmp mx my) && obs.eq == false)
          "comparison contradicts the exact order of the physical magnitudes"
      else .ok
    | _, _, _ => .skip "non-finite or out of range"

/-- C02: answers do not depend on operand order (non-NaN amounts) -/
def c02symm (ab ba : CmpObs) : Verdict :=
  check (ab.eq == ba.eq && ab.lt == ba.gt && ab.gt == ba.lt && ab.le == ba.ge && ab.ge == ba.le
    && ab.pc == flipOrd ba.pc) "answers depend on operand order"

/-- C04: error bound of a derived product/quotient.  `pa` = exact product (quotient) of the
operand amounts, `ps` = exact product (quotient) of the operand unit scales, `sw` = scale of
the unit the result carries.  Covers both branches of the generated operator body. -/
def derivedBound (pa ps sw : Rat) : Rat :=
  let P := ratAbs pa + M.E pa
  let S := ratAbs ps + M.E ps
  let X := P * S + M.E (P * S)
  ratAbs sw * M.E (X / sw) + M.E (P * S) + P * M.E ps + ratAbs ps * M.E pa

def derivedSafe (pa ps sw : Rat) : Bool :=
  let P := ratAbs pa + M.E pa
  let S := ratAbs ps + M.E ps
  let X := P * S + M.E (P * S)
  M.safe P && M.safe S && M.safe X && M.safe (X / sw + M.E (X / sw))

/-- C04: the result `(w, z)` of `l ⊗ r` has reference-unit magnitude `z·s_w` within
`derivedBound` of the exact product/quotient of the operands' magnitudes. -/
def c04 (pa ps : Option Rat) (sw z : Option Rat) : Verdict :=
  match pa, ps, sw with
  | some pa, some ps, some sw =>
    if sw ≤ 0 then .skip "non-positive scale"
    else if !(derivedSafe M pa ps sw) then .skip "out of range"
    else match z with
      | none => .fail "finite in-range operands gave a non-finite derived result"
      | some z =>
        check (ratAbs (z * sw - pa * ps) ≤ derivedBound M pa ps sw)
          "magnitude of the derived result outside the rounding bound"
  | _, _, _ => .skip "non-finite operand"

/-- C04, two-step chain ("multiplying by a value and then dividing by it, or the reverse, returns
the original magnitude"): the conclusion of `C04.mul_then_div_mag` (`isMul = true`: `(x·y)/y`) and
`C04.div_then_mul_mag` (`isMul = false`: `(x/y)·y`), evaluated on implementation outputs.
`m0` = exact reference-unit magnitude `a·s_a` of the original value, `pa1`, `ps1` = exact
product/quotient of the operand amounts and of the operand scales of the FIRST step, `sw1` = scale of
the unit the intermediate carries, `z1` = its amount, `bs` = `b·s_b` (amount times unit scale of the
value multiplied and divided by), `pa2`, `ps2` = exact amounts/scales combination of the SECOND step
(computed from the intermediate the implementation returned), `sw2`, `z2` = unit scale and amount of
the final result. -/
def c04rt (isMul : Bool) (m0 pa1 ps1 sw1 bs pa2 ps2 sw2 z2 : Option Rat) : Verdict :=
  match m0, pa1, ps1, sw1, bs, pa2, ps2, sw2 with
  | some m0, some pa1, some ps1, some sw1, some bs, some pa2, some ps2, some sw2 =>
    if sw1 ≤ 0 || sw2 ≤ 0 then .skip "non-positive scale"
    else if bs == 0 then .skip "zero factor"
    else if !(derivedSafe M pa1 ps1 sw1) || !(derivedSafe M pa2 ps2 sw2) then .skip "out of range"
    else match z2 with
      | none => .fail "finite in-range operands gave a non-finite result after the round trip"
      | some z2 =>
        let b1 := derivedBound M pa1 ps1 sw1
        let b2 := derivedBound M pa2 ps2 sw2
        let total := if isMul then b2 + b1 / ratAbs bs else b2 + b1 * ratAbs bs
        check (ratAbs (z2 * sw2 - m0) ≤ total)
          "multiplying and then dividing by a value (or the reverse) does not return the original magnitude"
  | _, _, _, _, _, _, _, _ => .skip "non-finite operand"

/-- C05 (tolerant form evaluated on implementation outputs): the unit `w` of a fitted
result with reference-unit magnitude `mag` is eligible, no larger eligible unit fits
below `mag` (by more than `tol`), and unless `w` is the smallest eligible unit its own
scale does not exceed `mag` (by more than `tol`).  `elig` = scales of the eligible units. -/
def c05fit (eligScales : List Rat) (wElig : Bool) (sw mag tol : Rat) : Verdict :=
  (check wElig "result unit is not an eligible unit of the result quantity").and <|
  (check (eligScales.all (fun s => !(sw < s && s ≤ mag - tol)))
    "a larger eligible unit also fits below the result magnitude").and <|
  check (eligScales.all (fun s => sw ≤ s) || sw ≤ mag + tol)
    "result unit exceeds the magnitude although a smaller eligible unit exists"

end Oracle

/-! ### error propagation for straight-line amount arithmetic

`Approx` pairs the EXACT value `v` of an expression with a bound `err` on the distance
between `v` and what the amount type computes for it; `ok` records that every
intermediate result stayed in the safe range.  (Soundness: `Lemmas/Approx.lean`.) -/

structure Approx where
  v : Rat
  err : Rat
  ok : Bool := true
  deriving Repr, Inhabited

namespace Approx
variable (M : ErrModel)

def exact (q : Rat) : Approx := ⟨q, 0, true⟩

def mul (a b : Approx) : Approx :=
  let ev := a.v * b.v
  let perr := ratAbs a.v * b.err + ratAbs b.v * a.err + a.err * b.err
  let r := M.E (ratAbs ev + perr)
  ⟨ev, perr + r, a.ok && b.ok && M.safe (ratAbs ev + perr + r)⟩

/-- `none` when the divisor cannot be told from zero -/
def div (a b : Approx) : Option Approx :=
  if ratAbs b.v ≤ b.err then none
  else
    let lo := ratAbs b.v - b.err
    let ev := a.v / b.v
    let perr := (ratAbs a.v * b.err + ratAbs b.v * a.err) / (ratAbs b.v * lo)
    let r := M.E (ratAbs ev + perr)
    some ⟨ev, perr + r, a.ok && b.ok && M.safe (ratAbs ev + perr + r)⟩

def add (a b : Approx) : Approx :=
  let ev := a.v + b.v
  let perr := a.err + b.err
  let r := M.Ea (ratAbs ev + perr)
  ⟨ev, perr + r, a.ok && b.ok && M.safe (ratAbs a.v + a.err) && M.safe (ratAbs b.v + b.err)
    && M.safe (ratAbs ev + perr + r)⟩

/-- verdict: the observed value `z` lies within the propagated bound -/
def judge (x : Option Approx) (z : Option Rat) (why : String) : Verdict :=
  match x with
  | none => .skip "divisor within rounding error of zero"
  | some x =>
    if !x.ok then .skip "out of range"
    else match z with
      | none => .fail ("finite in-range operands gave a non-finite result: " ++ why)
      | some z => check (ratAbs (z - x.v) ≤ x.err) why

end Approx

end Qty
