import QtyModel.Oracle
/-
  The rounding laws an amount type has to satisfy for the numeric property
  theorems (C01-C05, C13, C14, C18).  `Prop`-valued fields only; stated with the
  core-only helpers `ratAbs`/`ratCmp` so that this file stays Mathlib-free.

  Instances: `Dec.laws` (Lemmas/DecLaws) and `F64.laws` (Lemmas/F64Laws).
-/
namespace Qty

structure ErrModel.WF (M : ErrModel) : Prop where
  E_nonneg : ∀ x, 0 ≤ M.E x
  E_mono : ∀ x y, ratAbs x ≤ ratAbs y → M.E x ≤ M.E y
  Ea_nonneg : ∀ x, 0 ≤ M.Ea x
  Ea_mono : ∀ x y, ratAbs x ≤ ratAbs y → M.Ea x ≤ M.Ea y
  safe_mono : ∀ x y, ratAbs x ≤ ratAbs y → M.safe y = true → M.safe x = true

structure Laws {A : Type} (R : Arith A) (M : ErrModel) : Prop where
  wf : M.WF
  mul_ok : ∀ a b x y, R.val a = some x → R.val b = some y → M.safe (x * y) = true →
    ∃ c z, R.mul a b = .ok c ∧ R.val c = some z ∧ ratAbs (z - x * y) ≤ M.E (x * y)
  div_ok : ∀ a b x y, R.val a = some x → R.val b = some y → y ≠ 0 → M.safe (x / y) = true →
    ∃ c z, R.div a b = .ok c ∧ R.val c = some z ∧ ratAbs (z - x / y) ≤ M.E (x / y)
  /-- operands must be in range too: aligning a decimal operand to the other's digit count
      can overflow although the sum is small (`Dec.add_ok_false`) -/
  add_ok : ∀ a b x y, R.val a = some x → R.val b = some y → M.safe x = true → M.safe y = true →
    M.safe (x + y) = true →
    ∃ c z, R.add a b = .ok c ∧ R.val c = some z ∧ ratAbs (z - (x + y)) ≤ M.Ea (x + y)
  sub_ok : ∀ a b x y, R.val a = some x → R.val b = some y → M.safe x = true → M.safe y = true →
    M.safe (x - y) = true →
    ∃ c z, R.sub a b = .ok c ∧ R.val c = some z ∧ ratAbs (z - (x - y)) ≤ M.Ea (x - y)
  beq_val : ∀ a b x y, R.val a = some x → R.val b = some y → R.beq a b = decide (x = y)
  pcmp_val : ∀ a b x y, R.val a = some x → R.val b = some y → R.pcmp a b = some (ratCmp x y)
  /-- `==` is `partial_cmp == Some(Equal)`, for ALL values (NaN, infinities included) -/
  beq_pcmp : ∀ a b, R.beq a b = (R.pcmp a b == some .eq)
  /-- swapping the operands of `partial_cmp` reverses the answer, for ALL values -/
  pcmp_flip : ∀ a b, R.pcmp b a = Oracle.flipOrd (R.pcmp a b)
  one_val : R.val R.one = some 1
  zero_val : R.val R.zero = some 0
  /-- exact cases: no rounding when the exact result is an operand or one -/
  div_self_val : ∀ a b x, R.val a = some x → R.val b = some x → x ≠ 0 →
    ∃ c, R.div a b = .ok c ∧ R.val c = some 1
  one_mul_val : ∀ c d y, R.val c = some 1 → R.val d = some y →
    ∃ d', R.mul c d = .ok d' ∧ R.val d' = some y
  mul_one_val : ∀ c d y, R.val c = some 1 → R.val d = some y →
    ∃ d', R.mul d c = .ok d' ∧ R.val d' = some y
  div_one_val : ∀ c d y, R.val c = some 1 → R.val d = some y →
    ∃ d', R.div d c = .ok d' ∧ R.val d' = some y

end Qty
