def hello := "world"
