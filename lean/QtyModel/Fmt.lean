import QtyModel.Dec
import QtyModel.Case
/-
  Model of the text output: `Quantity::fmt` (src/lib.rs), `Unit::fmt`,
  `Display for Rate` (src/rate.rs) and `Display for Decimal` (fpdec format.rs).

  The padding of `Quantity::fmt` measures the width in CHARACTERS (after the repair
  "fix: pad quantities by characters"); `padNumeric` has the semantics of
  `core::fmt::Formatter::pad_integral`: sign, `+` flag, fill, alignment (default: right),
  sign-aware zero padding.
-/
namespace Qty.Fmt
open Qty

inductive Align where
  | left | center | right
  deriving DecidableEq, Repr, Inhabited

structure Spec where
  fill : Option Nat := none
  align : Option Align := none
  plus : Bool := false
  zero : Bool := false
  width : Option Nat := none
  prec : Option Nat := none
  deriving DecidableEq, Repr, Inhabited

def rep (n : Nat) (c : Nat) : Text := List.replicate n c

/-- `pad_integral(nonneg, "", body)` with the width counted in characters -/
def padNumeric (sp : Spec) (nonneg : Bool) (body : Text) : Text :=
  let sign : Text := if !nonneg then [45] else if sp.plus then [43] else []
  let len := body.length + sign.length
  match sp.width with
  | none => sign ++ body
  | some w =>
    if w ≤ len then sign ++ body
    else
      let pad := w - len
      if sp.zero then sign ++ rep pad 48 ++ body
      else
        let (pre, post) := match sp.align with
          | some .left => (0, pad)
          | some .center => (pad / 2, (pad + 1) / 2)
          | _ => (pad, 0)
        let f := sp.fill.getD 32
        rep pre f ++ sign ++ body ++ rep post f

/-- `Formatter::pad` (what `Unit::fmt` does with the symbol): precision truncates to that many
characters, width pads with the fill character, default alignment LEFT; the `+` and `0`
flags have no effect on strings -/
def padStr (sp : Spec) (s : Text) : Text :=
  let s := match sp.prec with
    | some p => s.take p
    | none => s
  match sp.width with
  | none => s
  | some w =>
    if w ≤ s.length then s
    else
      let pad := w - s.length
      let (pre, post) := match sp.align with
        | some .right => (pad, 0)
        | some .center => (pad / 2, (pad + 1) / 2)
        | _ => (0, pad)
      let f := sp.fill.getD 32
      rep pre f ++ s ++ rep post f

/-- `Quantity::fmt` for a unit with a non-empty symbol: amount text, one space, symbol -/
def qtyFmt (sp : Spec) (nonneg : Bool) (absAmountText symbol : Text) : Text :=
  padNumeric sp nonneg (absAmountText ++ [32] ++ symbol)

/-- decimal digits of a natural number -/
def natDigitsAux : Nat → Nat → Text → Text
  | 0, _, acc => acc
  | fuel + 1, n, acc => if n = 0 then acc else natDigitsAux fuel (n / 10) ((48 + n % 10) :: acc)

def natDigits (n : Nat) : Text := if n = 0 then [48] else natDigitsAux (n + 1) n []

def zeroPadLeft (w : Nat) (t : Text) : Text := rep (w - t.length) 48 ++ t

/-- the text `Display for Decimal` produces for `|d|` before `pad_integral`
(`prec` = the formatter's precision; fpdec clamps it to 18) -/
def decAbsText (prec : Option Nat) (d : Dec) : Text :=
  let p := match prec with
    | some p => min p Dec.maxNfd
    | none => d.nfd
  let c := d.coeff.natAbs
  if d.nfd = 0 then
    if p > 0 then natDigits c ++ [46] ++ rep p 48 else natDigits c
  else
    let (i, f) : Nat × Nat :=
      if p = d.nfd then (c / 10 ^ d.nfd, c % 10 ^ d.nfd)
      else if p < d.nfd then
        let c' := (divRoundHalfEven d.coeff (Dec.tenPow (d.nfd - p))).natAbs
        (c' / 10 ^ p, c' % 10 ^ p)
      else (c / 10 ^ d.nfd, (c % 10 ^ d.nfd) * 10 ^ (p - d.nfd))
    if p > 0 then natDigits i ++ [46] ++ zeroPadLeft p (natDigits f) else natDigits i

/-- `Display for Rate`: `term / per`, the per-multiple omitted when it is one -/
def rateFmt (termAmt termSym perAmt perSym : Text) (perIsOne : Bool) : Text :=
  let t := if termSym.isEmpty then termAmt ++ [32, 47, 32] else termAmt ++ [32] ++ termSym ++ [32, 47, 32]
  let p := if perSym.isEmpty then perAmt else if perIsOne then perSym else perAmt ++ [32] ++ perSym
  t ++ p

/-- parse a plain decimal text `[-]digits[.digits]` into its exact value and the number of
fractional digits -/
def parseDecText (t : Text) : Option (Rat × Nat) :=
  let (neg, t) := match t with
    | 45 :: r => (true, r)
    | _ => (false, t)
  let ip := t.takeWhile (· != 46)
  let rest := t.dropWhile (· != 46)
  let fp := match rest with
    | 46 :: r => r
    | _ => []
  if ip.isEmpty || !(ip.all Case.isDigit) || !(fp.all Case.isDigit) || (rest.length = 1) then none
  else
    let num (ds : Text) : Nat := ds.foldl (fun acc c => acc * 10 + (c - 48)) 0
    let v : Rat := ((num (ip ++ fp) : Nat) : Int) / pow10 fp.length
    some (if neg then -v else v, fp.length)

end Qty.Fmt
