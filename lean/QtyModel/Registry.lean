import QtyModel.Case
import QtyModel.F64
/-
  Model of the front half of the `#[quantity]` attribute macro
  (`qty-macros/src/quantity_attr_helper.rs`): `parse_args`, `check_struct`,
  `get_unit_attrs`, `UnitDef::parse`, `ref_unit_def_from_attr`,
  `unit_defs_with(out)_scale_from_attrs`, `analyze` (ordering), and the
  classification done by `codegen` (single unit / no reference unit / with
  reference unit).

  Input is the raw token list of each attribute, as produced by the translator
  from the source text (or by the program generator for synthetic definitions).
-/
namespace Qty

inductive Tok where
  | ident (s : Text)
  | str (s : Text)
  | int (l : Lit)
  | float (l : Lit)
  | comma
  | punct (c : Nat)
  /-- anything else (groups, lifetimes, char literals, ...) -/
  | other
  deriving DecidableEq, Repr, Inhabited

inductive AttrKind where
  | refUnit | unit
  deriving DecidableEq, Repr, Inhabited

structure RawAttr where
  kind : AttrKind
  toks : List Tok
  deriving DecidableEq, Repr, Inhabited

/-- An item the macro is applied to, as far as the macro looks at it. -/
structure RawItem where
  /-- tokens inside `#[quantity( ... )]` -/
  args : List Tok
  /-- the `#[ref_unit]` / `#[unit]` attributes in source order -/
  attrs : List RawAttr
  name : Text
  isStruct : Bool := true
  hasGenerics : Bool := false
  hasFields : Bool := false
  deriving DecidableEq, Repr, Inhabited

/-- Where the macro reports its error. -/
inductive ErrSite where
  | callSite
  | args
  | item
  /-- index into `RawItem.attrs` -/
  | attr (i : Nat)
  deriving DecidableEq, Repr, Inhabited

structure MacroErr where
  site : ErrSite
  msg : String
  deriving DecidableEq, Repr, Inhabited

structure Derived where
  lhs : Text
  isMul : Bool
  rhs : Text
  deriving DecidableEq, Repr, Inhabited

/-- `UnitDef` of the macro after `parse`. -/
structure UnitDef where
  /-- variant identifier (`UpperCamel` of the written identifier) -/
  ident : Text
  /-- written identifier with `_` → space -/
  name : Text
  symbol : Text
  pfx : Option Text
  scale : Option Lit
  doc : Option Text
  deriving DecidableEq, Repr, Inhabited

def UnitDef.constName (u : UnitDef) : Text := Case.upperSnake u.ident

inductive QtyKind where
  | single | noRef | withRef
  deriving DecidableEq, Repr, Inhabited

structure QtyDef where
  name : Text
  derived : Option Derived
  refIdent : Option Text
  units : List UnitDef
  deriving DecidableEq, Repr, Inhabited

/-- `codegen`: which template is used. -/
def QtyDef.kind (d : QtyDef) : QtyKind :=
  if d.units.length = 1 then .single
  else if d.refIdent.isNone then .noRef else .withRef

namespace MacroFront

/-- `parse_args` -/
def parseArgs (args : List Tok) : Except MacroErr (Option Derived) :=
  match args with
  | [] => .ok none
  | [.ident l, .punct c, .ident r] =>
    if c = 42 then .ok (some ⟨l, true, r⟩)
    else if c = 47 then .ok (some ⟨l, false, r⟩)
    else .error ⟨.args, "Binary expression with '*' or '/' expected."⟩
  | _ => .error ⟨.args, "Unknown argument(s) given to attribute `quantity`."⟩

/-- the "optional comma, else must be at the end" step of `UnitDef::parse` -/
def optComma : List Tok → Option (List Tok)
  | .comma :: rest => some rest
  | [] => some []
  | _ => none

/-- `impl Parse for UnitDef` -/
def parseUnit (toks : List Tok) : Option UnitDef :=
  match toks with
  | .ident id :: .comma :: .str sym :: rest =>
    match optComma rest with
    | none => none
    | some rest =>
      let step1 : Option (Option Text × List Tok) :=
        match rest with
        | .ident p :: rest' => (optComma rest').map (fun r => (some p, r))
        | _ => some (none, rest)
      match step1 with
      | none => none
      | some (pfx, rest) =>
        let step2 : Option (Option Lit × List Tok) :=
          match rest with
          | .float l :: rest' => (optComma rest').map (fun r => (some l, r))
          | .int l :: rest' => (optComma rest').map (fun r => (some l, r))
          | _ => some (none, rest)
        match step2 with
        | none => none
        | some (scale, rest) =>
          let (doc, rest) : Option Text × List Tok :=
            match rest with
            | .str d :: rest' => (some d, rest')
            | _ => (none, rest)
          if rest.isEmpty then
            some { ident := Case.upperCamel id
                   name := id.map (fun c => if c = 95 then 32 else c)
                   symbol := sym, pfx := pfx, scale := scale, doc := doc }
          else none
  | _ => none

/-- literal `1.0` inserted for the reference unit -/
def litOne : Lit := { digits := 10, nfrac := 1, isFloat := true }

/-- `opt_lit_to_f64`: the sort key -/
def sortKey (u : UnitDef) : F64 :=
  match u.scale with
  | some l => F64.round l.value false
  | none => F64.nan

/-- `x.partial_cmp(&y).unwrap()` as a `≤` for the stable sort (keys are finite
and non-NaN for numeric literals) -/
def keyLe (a b : UnitDef) : Bool :=
  match F64.pcmp (sortKey a) (sortKey b) with
  | some .gt => false
  | _ => true

/-- lexicographic order on texts (`str::cmp` on ASCII-derived names) -/
def textLe : Text → Text → Bool
  | [], _ => true
  | _ :: _, [] => false
  | a :: as, b :: bs => if a < b then true else if a > b then false else textLe as bs

def nameLe (a b : UnitDef) : Bool := textLe a.name b.name

/-- stable insertion sort (structural recursion, so that the kernel can evaluate it):
`sort_by` of the Rust standard library is a stable sort, and every stable sort by a total
preorder yields the same list -/
def insertBy {α} (le : α → α → Bool) (a : α) : List α → List α
  | [] => [a]
  | b :: l => if le a b then a :: b :: l else b :: insertBy le a l

def isort {α} (le : α → α → Bool) : List α → List α
  | [] => []
  | a :: l => insertBy le a (isort le l)

/-- scan the unit attributes in order (`unit_defs_*_from_attrs`) -/
def parseUnits (withRef : Bool) : List (Nat × RawAttr) → Except MacroErr (List UnitDef)
  | [] => .ok []
  | (i, a) :: rest =>
    match parseUnit a.toks with
    | none => .error ⟨.attr i, "wrong number of args"⟩
    | some u =>
      if withRef then
        if u.scale.isNone then .error ⟨.attr i, "<scale> arg expected."⟩
        else (parseUnits withRef rest).map (u :: ·)
      else
        if u.scale.isSome || u.pfx.isSome then .error ⟨.attr i, "2 or 3 comma-separated args expected."⟩
        else (parseUnits withRef rest).map (u :: ·)

def enumFrom {α} : Nat → List α → List (Nat × α)
  | _, [] => []
  | n, a :: as => (n, a) :: enumFrom (n + 1) as

/-- what a definition declares, before ordering: the reference unit (given the scale literal
`1.0`) first, then the `#[unit]` attributes in source order -/
structure Declared where
  refIdent : Option Text
  units : List UnitDef
  deriving DecidableEq, Repr, Inhabited

/-- validation and parsing part of `analyze` (with `parse_item`, `check_struct`, `get_unit_attrs`) -/
def declared (it : RawItem) : Except MacroErr Declared :=
  if !it.isStruct then .error ⟨.item, "expected `struct`"⟩
  else if it.hasGenerics then .error ⟨.item, "Given struct must not have generic parameters."⟩
  else if it.hasFields then .error ⟨.item, "Given struct must not have fields."⟩
  else
    let ix := enumFrom 0 it.attrs
    let refs := ix.filter (fun p => p.2.kind == .refUnit)
    let units := ix.filter (fun p => p.2.kind == .unit)
    match refs with
    | _ :: (j, _) :: _ => .error ⟨.attr j, "There can only be one `refunit` attribute."⟩
    | refs =>
      if units.isEmpty then
        .error ⟨.callSite, "At least one unit description must be given via attribute `unit`."⟩
      else
        match refs with
        | (j, r) :: _ =>
          match parseUnit r.toks with
          | none => .error ⟨.attr j, "2, 3 or 4 comma-separated args expected."⟩
          | some rd =>
            if rd.scale.isSome then .error ⟨.attr j, "No scale expected for ref_unit."⟩
            else
              let rd := { rd with scale := some litOne }
              match parseUnits true units with
              | .error e => .error e
              | .ok us => .ok { refIdent := some rd.ident, units := rd :: us }
        | [] =>
          match parseUnits false units with
          | .error e => .error e
          | .ok us => .ok { refIdent := none, units := us }

/-- the order `analyze` sorts by: the `f64` value of the scale literal if there is a reference
unit, the unit name otherwise -/
def orderOf (dc : Declared) : UnitDef → UnitDef → Bool :=
  if dc.refIdent.isSome then keyLe else nameLe

/-- `analyze`: stable sort of the declared units -/
def analyze (it : RawItem) : Except MacroErr QtyDef :=
  match declared it with
  | .error e => .error e
  | .ok dc => .ok { name := it.name, derived := none, refIdent := dc.refIdent
                    units := isort (orderOf dc) dc.units }

/-- the whole macro front end, in the order of `quantity()` in `qty-macros/src/lib.rs`:
`parse_item`, `analyze`, then `parse_args`. -/
def expand (it : RawItem) : Except MacroErr QtyDef :=
  match analyze it with
  | .error e => .error e
  | .ok q =>
    match parseArgs it.args with
    | .error e => .error e
    | .ok d => .ok { q with derived := d }

end MacroFront
end Qty
