import QtyModel.Spec.Units
import QtyModel.Registry
import QtyModel.Generated.SI
/-
  Evaluation of the independent unit definitions (`Spec/Units.lean`) down to the
  reference unit, as exact rationals (as a rational enclosure where π occurs), and
  the Boolean checker comparing a unit produced by the model of the macro with
  its specification row.
-/
namespace Qty.UnitSpec
open Qty Qty.Spec.Units

/-- closed interval of positive rationals -/
structure Iv where
  lo : Rat
  hi : Rat
  deriving Repr, Inhabited

def Iv.exact (q : Rat) : Iv := ⟨q, q⟩
def Iv.mul (a b : Iv) : Iv := ⟨a.lo * b.lo, a.hi * b.hi⟩
def Iv.inv (a : Iv) : Iv := ⟨1 / a.hi, 1 / a.lo⟩

def Iv.npow (a : Iv) : Nat → Iv
  | 0 => Iv.exact 1
  | n + 1 => (a.npow n).mul a

def Iv.pow (a : Iv) (n : Int) : Iv :=
  if n ≥ 0 then a.npow n.toNat else (a.npow (-n).toNat).inv

/-- 20 decimals of π (`Real.pi_gt_d20`, `Real.pi_lt_d20`) -/
def piIv : Iv := ⟨314159265358979323846 / 100000000000000000000, 314159265358979323847 / 100000000000000000000⟩

def findRow (qty ident : Text) : Option Row :=
  rows.find? (fun r => r.qty == qty && r.ident == ident)

/-- scale of a unit relative to the reference unit of its quantity -/
def evalRow : Nat → Row → Option Iv
  | 0, _ => none
  | fuel + 1, r =>
    match r.kind with
    | .ref => some (Iv.exact 1)
    | .noScale => none
    | .defined =>
      r.factors.foldl (fun acc f => do
        let a ← acc
        match f with
        | .num q => pure (a.mul (Iv.exact q))
        | .pi p => pure (a.mul (piIv.pow p))
        | .unit q i p =>
          let r' ← findRow q i
          let v ← evalRow fuel r'
          pure (a.mul (v.pow p))) (some (Iv.exact 1))

/-- strip all factors `p` from `n` -/
def stripFactor (p : Nat) : Nat → Nat → Nat
  | 0, n => n
  | fuel + 1, n => if n % p = 0 ∧ n > 1 then stripFactor p fuel (n / p) else n

/-- the rational has a terminating decimal expansion -/
def terminating (q : Rat) : Bool :=
  stripFactor 5 200 (stripFactor 2 200 q.den) == 1

def relTol : Rat := 1 / 1000000000000000   -- 1e-15, the repository's own "almost equal"

def spaced (t : Text) : Text := t.map (fun c => if c = 95 then 32 else c)

/-- does the declared literal match the published definition? -/
def scaleOk (r : Row) (scale : Option Lit) : Bool :=
  match r.kind, scale with
  | .noScale, none => true
  | .ref, some l => l.value == 1
  | .defined, some l =>
    match evalRow 12 r with
    | some iv =>
      if iv.lo == iv.hi && terminating iv.lo then l.value == iv.lo
      else decide (iv.lo * (1 - relTol) ≤ l.value) && decide (l.value ≤ iv.hi * (1 + relTol))
    | none => false
  | _, _ => false

/-- one unit of quantity `qty` (qualified name, `A:` for the astronomical crate) against its row -/
def unitOk (qty : Text) (u : UnitDef) : Bool :=
  match rows.find? (fun r => r.qty == qty && spaced r.ident == u.name) with
  | none => false
  | some r =>
    r.symbol == u.symbol && r.pfx == u.pfx && Case.upperCamel r.ident == u.ident && scaleOk r u.scale

/-- names of the units of a quantity that do NOT match their published definition -/
def badUnits (qty : Text) (d : QtyDef) : List Text :=
  (d.units.filter (fun u => !unitOk qty u)).map (·.name)

/-- every specification row of the quantity is present in the definition -/
def complete (qty : Text) (d : QtyDef) : Bool :=
  (rows.filter (fun r => r.qty == qty)).length == d.units.length

def prefixExp (p : Text) : Option Int := (Gen.SI.variants.find? (fun v => v.1 == p)).map (·.2)

def pow10Int (e : Int) : Rat := if e ≥ 0 then pow10 e.toNat else 1 / pow10 (-e).toNat

/-- within one quantity the scales of two SI-prefixed units differ by exactly ten to the
difference of their prefix exponents -/
def siConsistent (d : QtyDef) : Bool :=
  d.units.all (fun u => d.units.all (fun v =>
    match u.pfx, v.pfx, u.scale, v.scale with
    | some p, some q, some a, some b =>
      match prefixExp p, prefixExp q with
      | some e, some f => a.value == b.value * pow10Int (e - f)
      | _, _ => false
    | _, _, _, _ => true))

end Qty.UnitSpec
