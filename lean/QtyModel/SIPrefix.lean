import QtyModel.Generated.SI
/-
  Model of `SIPrefix` (src/si_prefixes.rs) over the regenerated tables:
  `name()`, `abbr()`, `exp()` (= the enum discriminant), `from_abbr`, `from_exp`
  (match arms: first matching arm wins, `_` matches everything), `iter()`
  (the `EnumIter` derive: `VARIANTS` in declaration order).
-/
namespace Qty.SIPrefix
open Qty

/-- semantics of a Rust `match` with literal patterns and an optional `_` arm -/
def armsLookup {α β : Type} [BEq α] (arms : List (Option α × Option β)) (k : α) : Option β :=
  match arms.find? (fun a => a.1 == none || a.1 == some k) with
  | some a => a.2
  | none => none

def assoc {α β : Type} [BEq α] (arms : List (α × β)) (k : α) : Option β :=
  (arms.find? (fun a => a.1 == k)).map (·.2)

/-- `iter()` -/
def iter : List Text := Gen.SI.variants.map (·.1)
/-- `exp()` -/
def exp (p : Text) : Option Int := assoc Gen.SI.variants p
/-- `name()` -/
def name (p : Text) : Option Text := assoc Gen.SI.nameArms p
/-- `abbr()` -/
def abbr (p : Text) : Option Text := assoc Gen.SI.abbrArms p
/-- `from_abbr` -/
def fromAbbr (s : Text) : Option Text := armsLookup Gen.SI.fromAbbrArms s
/-- `from_exp` on an `i8` -/
def fromExp (e : Int) : Option Text := armsLookup Gen.SI.fromExpArms e

end Qty.SIPrefix
