import QtyModel.Arith
/-
  Software model of IEEE-754 binary64 with round-to-nearest-even, gradual
  underflow, signed zeros, infinities and one canonical NaN.  Nothing here uses
  Lean's opaque hardware `Float`.

  `fin neg m e` denotes `(-1)^neg · m · 2^e` in canonical form:
  `m < 2^53`, `-1074 ≤ e ≤ 971`, and `2^52 ≤ m` unless `e = -1074`.
-/
namespace Qty

inductive F64 where
  | fin (neg : Bool) (m : Nat) (e : Int)
  | inf (neg : Bool)
  | nan
  deriving DecidableEq, Repr, Inhabited

namespace F64

def pow2 (e : Int) : Rat :=
  if e ≥ 0 then ((2 ^ e.toNat : Nat) : Int) else 1 / (((2 ^ (-e).toNat : Nat) : Int) : Rat)

def two52 : Nat := 2 ^ 52
def two53 : Nat := 2 ^ 53
def eMin : Int := -1074
def eMax : Int := 971

def zero : F64 := .fin false 0 eMin
def negZero : F64 := .fin true 0 eMin
def one : F64 := .fin false two52 (-52)

def toRat : F64 → Option Rat
  | .fin s m e => some ((if s then -1 else 1) * ((m : Int) : Rat) * pow2 e)
  | _ => none

/-- the datum denotes a binary64 value (not necessarily normalised) -/
def wf : F64 → Bool
  | .fin _ m e => decide (m < two53) && decide (eMin ≤ e) && decide (e ≤ eMax)
  | _ => true

/-- exact value of a finite, well-formed datum -/
def val (a : F64) : Option Rat := if a.wf then toRat a else none

def signBit : F64 → Bool
  | .fin s _ _ => s
  | .inf s => s
  | .nan => false

/-- `⌊log₂ a⌋` for `a > 0`. -/
def floorLog2 (a : Rat) : Int :=
  let k : Int := (a.num.natAbs.log2 : Int) - (a.den.log2 : Int)
  if pow2 k ≤ a then k else k - 1

/-- nearest integer, ties to even, of a non-negative rational -/
def roundHalfEvenRat (x : Rat) : Nat := (divRoundHalfEven x.num x.den).toNat

/-- Round an exact rational to binary64 (`zeroNeg` = sign given to an exact zero). -/
def round (q : Rat) (zeroNeg : Bool) : F64 :=
  if q = 0 then .fin zeroNeg 0 eMin
  else
    let s := decide (q < 0)
    let a := ratAbs q
    let fl := floorLog2 a
    let e := if fl - 52 < eMin then eMin else fl - 52
    let m := roundHalfEvenRat (a / pow2 e)
    let (m, e) := if m = two53 then (two52, e + 1) else (m, e)
    if e > eMax then .inf s else .fin s m e

def isZero : F64 → Bool
  | .fin _ m _ => m == 0
  | _ => false

def add (a b : F64) : F64 :=
  match a, b with
  | .nan, _ => .nan
  | _, .nan => .nan
  | .inf s, .inf t => if s = t then .inf s else .nan
  | .inf s, _ => .inf s
  | _, .inf t => .inf t
  | .fin s m e, .fin t n f =>
    match toRat (.fin s m e), toRat (.fin t n f) with
    | some x, some y => round (x + y) (s && t)
    | _, _ => .nan

def neg : F64 → F64
  | .fin s m e => .fin (!s) m e
  | .inf s => .inf (!s)
  | .nan => .nan

def sub (a b : F64) : F64 := add a (neg b)

def mul (a b : F64) : F64 :=
  match a, b with
  | .nan, _ => .nan
  | _, .nan => .nan
  | .inf s, .inf t => .inf (s != t)
  | .inf s, .fin t n _ => if n = 0 then .nan else .inf (s != t)
  | .fin s m _, .inf t => if m = 0 then .nan else .inf (s != t)
  | .fin s m e, .fin t n f =>
    match toRat (.fin s m e), toRat (.fin t n f) with
    | some x, some y => round (x * y) (s != t)
    | _, _ => .nan

def div (a b : F64) : F64 :=
  match a, b with
  | .nan, _ => .nan
  | _, .nan => .nan
  | .inf _, .inf _ => .nan
  | .inf s, .fin t _ _ => .inf (s != t)
  | .fin s _ _, .inf t => .fin (s != t) 0 eMin
  | .fin s m e, .fin t n f =>
    if n = 0 then (if m = 0 then .nan else .inf (s != t))
    else
      match toRat (.fin s m e), toRat (.fin t n f) with
      | some x, some y => round (x / y) (s != t)
      | _, _ => .nan

def pcmp (a b : F64) : Option Ordering :=
  match a, b with
  | .nan, _ => none
  | _, .nan => none
  | .inf s, .inf t => some (if s = t then .eq else if s then .lt else .gt)
  | .inf s, .fin _ _ _ => some (if s then .lt else .gt)
  | .fin _ _ _, .inf t => some (if t then .gt else .lt)
  | .fin s m e, .fin t n f =>
    match toRat (.fin s m e), toRat (.fin t n f) with
    | some x, some y => some (ratCmp x y)
    | _, _ => none

def beq (a b : F64) : Bool := pcmp a b == some .eq

/-- `$lit as f64`: float literals are correctly rounded by rustc; integer
literals are typed `i32` first (out-of-range is a deny-by-default lint). -/
def ofLit (l : Lit) : Option F64 :=
  if l.isFloat then some (round l.value l.neg)
  else if ratAbs l.value ≤ ((2 ^ 31 - 1 : Nat) : Int) then some (round l.value false)
  else none

def toBits : F64 → Nat
  | .fin s m e =>
    let sb := if s then 2 ^ 63 else 0
    if m < two52 then sb + m
    else sb + (e + 1075).toNat * two52 + (m - two52)
  | .inf s => (if s then 2 ^ 63 else 0) + 2047 * two52
  | .nan => 2047 * two52 + 2 ^ 51

def ofBits (b : Nat) : F64 :=
  let s := decide (b / 2 ^ 63 % 2 = 1)
  let field := b / two52 % 2048
  let frac := b % two52
  if field = 0 then .fin s frac eMin
  else if field = 2047 then (if frac = 0 then .inf s else .nan)
  else .fin s (frac + two52) ((field : Int) - 1075)

def same (a b : F64) : Bool := toBits a == toBits b

def arith : Arith F64 where
  zero := zero
  one := one
  add := fun a b => .ok (add a b)
  sub := fun a b => .ok (sub a b)
  mul := fun a b => .ok (mul a b)
  div := fun a b => .ok (div a b)
  neg := fun a => .ok (neg a)
  beq := beq
  pcmp := pcmp
  val := val
  ofLit := ofLit
  same := same

end F64
end Qty
