/-
  Base definitions shared by the whole model: panic kinds, the result monad,
  exact decimal literals as they appear in `#[unit(...)]` attributes and in
  `Amnt!(...)`.

  Model files import nothing outside core Lean so that the line-protocol
  driver links as a `lean_exe`.
-/
namespace Qty

/-- The panic kinds the Rust harness can observe (classified by message). -/
inductive Panic where
  /-- documented panic of `Quantity::add/sub/div` for different units -/
  | unitMismatch
  /-- `fpdec`: division by zero -/
  | divByZero
  /-- `fpdec` internal overflow / debug-profile `i128` arithmetic overflow -/
  | overflow
  /-- `Option::unwrap` on `None` (the `unwrap` in `HasRefUnit::_fit`) -/
  | unwrapNone
  deriving DecidableEq, Repr, Inhabited

def Panic.toString : Panic → String
  | .unitMismatch => "unit-mismatch"
  | .divByZero => "div-by-zero"
  | .overflow => "overflow"
  | .unwrapNone => "unwrap-none"

instance : ToString Panic := ⟨Panic.toString⟩

deriving instance DecidableEq for Except

abbrev Res := Except Panic

/-- `Option::unwrap` -/
def unwrapOpt {α : Type} : Option α → Res α
  | some x => .ok x
  | none => .error .unwrapNone

/-- A numeric literal exactly as written: `digits·10^(exp - nfrac)`, negated if
`neg`.  `isFloat` records whether rustc lexes it as a float literal (it has a
`.` or an exponent). -/
structure Lit where
  neg : Bool := false
  digits : Nat
  nfrac : Nat := 0
  exp : Int := 0
  isFloat : Bool := false
  deriving DecidableEq, Repr, Inhabited

/-- `10^n` as a rational. -/
def pow10 (n : Nat) : Rat := ((10 ^ n : Nat) : Int)

/-- Exact rational value of a literal. -/
def Lit.value (l : Lit) : Rat :=
  let e : Int := l.exp - l.nfrac
  let m : Rat := (l.digits : Int)
  let v : Rat := if e ≥ 0 then m * pow10 e.toNat else m / pow10 (-e).toNat
  if l.neg then -v else v

/-- Three-way comparison on rationals (core has no `Ord Rat`). -/
def ratCmp (x y : Rat) : Ordering :=
  if x < y then .lt else if x = y then .eq else .gt

def ratAbs (x : Rat) : Rat := if x < 0 then -x else x

/-- Round-half-even of `n / d` to an integer, `d ≠ 0`. -/
def divRoundHalfEven (n d : Int) : Int :=
  let (n, d) := if d < 0 then (-n, -d) else (n, d)
  let q := n / d        -- floor, since d > 0
  let r := n % d        -- 0 ≤ r < d
  if r = 0 then q
  else if 2 * r > d ∨ (2 * r = d ∧ q % 2 ≠ 0) then q + 1 else q

end Qty
