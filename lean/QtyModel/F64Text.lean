import QtyModel.F64
import QtyModel.Fmt
/-
  The text `core::fmt::Display for f64` prints (Rust 1.95), computed by the model itself
  (core Lean only, exact `Nat`/`Int`/`Rat` arithmetic, nothing taken from Rust's std):

  * `{}`     — the SHORTEST decimal that reads back as the same double (the semantics of
               `flt2dec::strategy::{grisu,dragon}::format_shortest`), written positionally
               without an exponent;
  * `{:.p}`  — the EXACT decimal expansion of the binary value rounded to `p` fractional
               digits, ties to even (`format_exact`).

  `F64.absText` is the text of `|x|`; the sign is added by the caller
  (`Formatter::pad_integral` semantics, see `Fmt.padNumeric`).
  `F64.parseText` is the correctly rounded reading (`f64::from_str`) of such texts.

  The shortest-digits search walks the decimal grids `10^k` from coarse to fine exactly as
  Dragon4 does (first digit position = the decade of the upper interval bound) and, on each
  grid, looks at the two neighbours `⌊x/10^k⌋·10^k` and `(⌊x/10^k⌋+1)·10^k` of `x`.  Membership
  in the rounding interval of `x` is CHECKED with `F64.round` itself (a decimal is inside
  the interval iff it rounds to `x`), so that the round-trip property holds by construction.
-/
namespace Qty
namespace F64
open Qty.Fmt

/-- `inf` -/
def infText : Text := [105, 110, 102]
/-- `NaN` -/
def nanText : Text := [78, 97, 78]

/-- `N / 10^p` written positionally with exactly `p` fractional digits -/
def fixedText (N p : Nat) : Text :=
  if p = 0 then natDigits N
  else natDigits (N / 10 ^ p) ++ [46] ++ zeroPadLeft p (natDigits (N % 10 ^ p))

/-- numerator of `m · 2^e` -/
def absNum (m : Nat) (e : Int) : Nat := if e ≥ 0 then m * 2 ^ e.toNat else m
/-- denominator of `m · 2^e` -/
def absDen (e : Int) : Nat := if e ≥ 0 then 1 else 2 ^ (-e).toNat

/-- `m · 2^e · 10^p` rounded to an integer, ties to even -/
def fixedDigits (m : Nat) (e : Int) (p : Nat) : Nat :=
  (divRoundHalfEven ((absNum m e * 10 ^ p : Nat) : Int) ((absDen e : Nat) : Int)).toNat

/-- the rational `D · 10^k` -/
def decVal (D : Nat) (k : Int) : Rat :=
  if k ≥ 0 then (((D * 10 ^ k.toNat : Nat) : Int) : Rat)
  else (((D : Nat) : Int) : Rat) / pow10 (-k).toNat

/-- `D · 10^k` written positionally -/
def decText (D : Nat) (k : Int) : Text :=
  if k ≥ 0 then natDigits (D * 10 ^ k.toNat) else fixedText D (-k).toNat

/-- The search of the shortest digits of `x = A / B` (`tgt` = the canonical datum of `x`):
on the grid `10^k` the neighbours `D·10^k ≤ x < (D+1)·10^k` are tested; if neither reads back
as `x` the grid is refined.  When both do, the closer one wins (upper one on a tie, as in
Dragon4; ties DO occur, e.g. `669438001820031.25` between `…31.2` and `…31.3`, cf. `shortestEven`).  `exact` is returned when the fuel runs out (it
never does: the fuel reaches the grid on which `x` itself lies). -/
def shortAux (tgt : F64) (A B : Nat) (exact : Nat × Int) : Nat → Int → Nat × Int
  | 0, _ => exact
  | fuel + 1, k =>
    let num := A * 10 ^ (-k).toNat
    let den := B * 10 ^ k.toNat
    let D := num / den
    let lo := decide (round (decVal D k) false = tgt)
    let hi := decide (round (decVal (D + 1) k) false = tgt)
    if lo && hi then (if 2 * (num % den) < den then (D, k) else (D + 1, k))
    else if lo then (D, k)
    else if hi then (D + 1, k)
    else shortAux tgt A B exact fuel (k - 1)

/-- all digits of `m · 2^e`: `m·2^e·10^0` or `m·5^(-e)·10^e` -/
def exactDigits (m : Nat) (e : Int) : Nat × Int :=
  if e ≥ 0 then (m * 2 ^ e.toNat, 0) else (m * 5 ^ (-e).toNat, e)

/-- the coarsest grid tried: `10^k0 > ` upper interval bound, from `x < 2^(⌊log₂ m⌋+e+1)` and
`log₁₀ 2 < 0.30103` (one spare decade for negative exponents) -/
def startExp (m : Nat) (e : Int) : Int := (((m.log2 : Int) + e + 2) * 30103) / 100000 + 1

/-- the canonical datum of `m · 2^e` (what every decimal inside the rounding interval reads
back as) -/
def canon (m : Nat) (e : Int) : F64 := round (((m : Int) : Rat) * pow2 e) false

/-- shortest digits `(D, k)` of `m · 2^e`, `m ≠ 0`: the text is `D · 10^k` -/
def shortest (m : Nat) (e : Int) : Nat × Int :=
  let k0 := startExp m e
  let kmin : Int := if e ≥ 0 then 0 else e
  shortAux (canon m e) (absNum m e) (absDen e) (exactDigits m e) ((k0 - kmin + 1).toNat) k0

/-- the characters `Display for f64` prints for `|x|` (`prec` = the formatter's precision) -/
def absText (prec : Option Nat) : F64 → Text
  | .nan => nanText
  | .inf _ => infText
  | .fin _ m e =>
    match prec with
    | some p => fixedText (fixedDigits m e p) p
    | none =>
      if m = 0 then [48]
      else
        let r := shortest m e
        decText r.1 r.2

/-- the text with its sign (`-` also for negative zero; `NaN` has none) -/
def text (prec : Option Nat) (x : F64) : Text :=
  match x with
  | .nan => nanText
  | _ => if x.signBit then 45 :: absText prec x else absText prec x

/-- `f64::from_str` on `inf`, `-inf`, `NaN` and `[-]digits[.digits]`: the correctly rounded
double (a leading `-` gives a negative zero) -/
def parseText (t : Text) : Option F64 :=
  if t = infText then some (.inf false)
  else if t = 45 :: infText then some (.inf true)
  else if t = nanText then some .nan
  else (parseDecText t).map (fun r => round r.1 (t.head? == some 45))

/-! ### the JSON number text (`serde_json` → `ryu::Buffer::format_finite`)

The same shortest digits, laid out by ryu's `format64`: integers get `.0`, values with
`1e-5 ≤ |x| < 1e16` are written positionally, everything else as `d[.ddd]e±x` (the exponent always signed, not
padded).  Non-finite values serialise as `null`. -/

/-- strip the trailing zeros of the digit block: `(D, k)` with `10 ∤ D` (fuel = number of digits) -/
def stripZeros : Nat → Nat → Int → Nat × Int
  | 0, D, k => (D, k)
  | fuel + 1, D, k => if D ≠ 0 ∧ D % 10 = 0 then stripZeros fuel (D / 10) (k + 1) else (D, k)

/-- the exponent as the vendored `serde_json` writes it: always signed (`e+143`, `e-7`) -/
def intText (i : Int) : Text := if i < 0 then 45 :: natDigits i.natAbs else 43 :: natDigits i.toNat

def nullText : Text := [110, 117, 108, 108]

/-- the shortest digits as `ryu` chooses them: where two decimals of the shortest length read back as `x`
and are EXACTLY equally close (e.g. `669438001820031.25`: `…31.2` and `…31.3`), `Display for f64` (Dragon4 /
Grisu) takes the upper one and `ryu` the one with the even last digit -/
def shortestEven (m : Nat) (e : Int) : Nat × Int :=
  let r := shortest m e
  let D := r.1
  let k := r.2
  let x : Rat := ((m : Int) : Rat) * pow2 e
  if D % 2 = 1 ∧ round (decVal (D - 1) k) false = canon m e ∧ decVal D k - x = x - decVal (D - 1) k
  then (D - 1, k) else r

/-- `ryu::pretty::format64` of `|x|` for a finite `x = m · 2^e` -/
def jsonAbs (m : Nat) (e : Int) : Text :=
  if m = 0 then [48, 46, 48]
  else
    let r0 := shortestEven m e
    let r := stripZeros (natDigits r0.1).length r0.1 r0.2
    let ds := natDigits r.1
    let len : Int := ds.length
    let k := r.2
    let kk := len + k
    if 0 ≤ k ∧ kk ≤ 16 then ds ++ List.replicate k.toNat 48 ++ [46, 48]                 -- 1234e7 -> 12340000000.0
    else if 0 < kk ∧ kk ≤ 16 then ds.take kk.toNat ++ [46] ++ ds.drop kk.toNat          -- 1234e-2 -> 12.34
    else if -5 < kk ∧ kk ≤ 0 then [48, 46] ++ List.replicate (-kk).toNat 48 ++ ds       -- 1234e-6 -> 0.001234
    else if ds.length = 1 then ds ++ [101] ++ intText (kk - 1)                          -- 1e30
    else ds.take 1 ++ [46] ++ ds.drop 1 ++ [101] ++ intText (kk - 1)                    -- 1234e30 -> 1.234e33

/-- what `serde_json` writes for an `f64` -/
def jsonText : F64 → Text
  | .nan => nullText
  | .inf _ => nullText
  | .fin s m e => if s then 45 :: jsonAbs m e else jsonAbs m e

/-! ### reading a JSON number back (an EXACTLY ROUNDING reader)

`[-]digits[.digits][(e|E)[+|-]digits]` denotes the rational `mantissa · 10^exponent`; the reader returns
that rational rounded ONCE with `F64.round` (a leading `-` gives the negative zero for a zero mantissa).
Anything else — in particular `null`, what `serde_json` writes for NaN and the infinities — is not a
number. -/

/-- `e` or `E` -/
def isExpMark (c : Nat) : Bool := c == 101 || c == 69

/-- the exponent part `[+|-]digits` -/
def parseExp (t : Text) : Option Int :=
  let (neg, ds) : Bool × Text := match t with
    | 45 :: r => (true, r)
    | 43 :: r => (false, r)
    | _ => (false, t)
  if ds.isEmpty || !(ds.all Case.isDigit) then none
  else
    let n : Nat := ds.foldl (fun acc c => acc * 10 + (c - 48)) 0
    some (if neg then -(n : Int) else (n : Int))

/-- `v · 10^x`, exactly -/
def scale10 (v : Rat) (x : Int) : Rat := if x ≥ 0 then v * pow10 x.toNat else v / pow10 (-x).toNat

/-- the JSON number `t` read with exact rounding: the mantissa `[-]digits[.digits]` up to the first
`e`/`E`, then the exponent; `none` for every text that is not of this form (e.g. `null`) -/
def parseJsonNum (t : Text) : Option F64 :=
  let mant := t.takeWhile (fun c => !isExpMark c)
  let rest := t.dropWhile (fun c => !isExpMark c)
  match parseDecText mant with
  | none => none
  | some (v, _) =>
    let neg := mant.head? == some 45
    match rest with
    | [] => some (round v neg)
    | _ :: ex =>
      match parseExp ex with
      | none => none
      | some x => some (round (scale10 v x) neg)

end F64
end Qty
