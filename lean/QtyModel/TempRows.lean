import QtyModel.Rate
import QtyModel.Generated.TempTable
import QtyModel.Generated.Catalogue
/-
  The predefined `TEMPERATURE_CONVERTER` as the model sees it: the regenerated rows of
  `Generated/TempTable.lean` (constant names and literals read from `src/temperature.rs`) resolved
  against the unit table of `Temperature`.  ONE definition, used by the driver (`temp rows`,
  `temp conv`) and by the theorems of `Props/C14RoundTrip.lean`, so that what is proved is what the
  correspondence check executes.
-/
namespace Qty

/-- the regenerated temperature table for a back-end: constants resolved to unit indices -/
def tempRows {A} (R : Arith A) (T : RTable A) : Option (List (ConvRow A)) :=
  Gen.Temp.rows.mapM (fun (f, t, fa, off) => do
    let fi ← T.units.toList.findIdx? (fun u => u.constName == f)
    let ti ← T.units.toList.findIdx? (fun u => u.constName == t)
    let fa ← R.ofLit fa
    let off ← R.ofLit off
    pure { fromU := fi, toU := ti, factor := fa, offset := off })

/-- the `Temperature` definition, through the model of the macro -/
def tempDef : Option QtyDef :=
  match Gen.Catalogue.items.find? (fun it => it.name == [84, 101, 109, 112, 101, 114, 97, 116, 117, 114, 101]) with
  | some it => match MacroFront.expand it with
    | .ok d => some d
    | .error _ => none
  | none => none

/-- its unit table in a back-end (as `buildWorld` of the driver builds it) -/
def tempTable {A} (R : Arith A) : Option (RTable A) := tempDef.bind (RTable.ofDef R)

end Qty
