import QtyModel.Typing
/-
  Specification of "dimensionally meaningful", written from the property text and
  independently of the generator model (`implsOf`, `implTable`):

  * like with like for `+`, `-`, comparison and ratio;
  * a number times a quantity, a quantity times or divided by a number;
  * for `*` and `/` between quantities only operand pairs related by a declared derivation
    `Q = A * B` or `Q = A / B` (both operand types having a reference unit), whose result then
    has exactly the declared type: `A*B`, `B*A → Q`, `Q/B → A`, `Q/A → B`, resp.
    `A/B → Q`, `Q*B`, `B*Q → A`, `A/Q → B`.
-/
namespace Qty.TypingSpec
open Qty

def isQty (decls : List TyDecl) (n : Text) : Bool := decls.any (fun d => d.name == n)
def isType (decls : List TyDecl) (n : Text) : Bool := n == amountName || isQty decls n
def comparable (decls : List TyDecl) (n : Text) : Bool :=
  n == amountName || decls.any (fun d => d.name == n && d.kind != .single)

/-- the derivations that relate `l` and `r` under `op`, with the result type -/
def alongDerivation (decls : List TyDecl) (isMul : Bool) (l r : Text) : List Text :=
  decls.filterMap (fun d =>
    match d.derived with
    | none => none
    | some dv =>
      let q := d.name
      let a := dv.lhs
      let b := dv.rhs
      if dv.isMul then
        if isMul then (if (l == a && r == b) || (l == b && r == a) then some q else none)
        else (if l == q && r == b then some a else if l == q && r == a then some b else none)
      else
        if isMul then (if (l == q && r == b) || (l == b && r == q) then some a else none)
        else (if l == a && r == b then some q else if l == a && r == q then some b else none))

/-- the meaningful result type of `l op r`, `none` if the combination is not meaningful -/
def result (decls : List TyDecl) (op : BinOp) (l r : Text) : Option Text :=
  if !(isType decls l && isType decls r) then none
  else match op with
  | .add | .sub => if l == r then some l else none
  | .eq | .lt => if l == r && comparable decls l then some boolName else none
  | .mul =>
    if l == amountName && r == amountName then some amountName
    else if l == amountName then some r
    else if r == amountName then some l
    else if hasRefUnit decls l && hasRefUnit decls r then (alongDerivation decls true l r).head? else none
  | .div =>
    if l == r then some amountName
    else if r == amountName then some l
    else if hasRefUnit decls l && hasRefUnit decls r then (alongDerivation decls false l r).head? else none

end Qty.TypingSpec
