import QtyModel.Oracle
import QtyModel.Generated.Catalogue
import QtyModel.Generated.Astro
import QtyModel.Generated.Synth
import QtyModel.Generated.SynthBig
import QtyModel.SIPrefix
import QtyModel.Spec.SI
import QtyModel.UnitSpec
import QtyModel.Rate
import QtyModel.Fmt
import QtyModel.Serde
import QtyModel.Typing
import QtyModel.TypingSpec
import QtyModel.Spec.Temperature
import QtyModel.Generated.TempTable
import QtyModel.TempRows
import QtyModel.F64Text
/-
  Line-protocol driver.

    driver <f64|dec> dump                      registry of the model (JSON lines)
    driver <f64|dec> run <ops> <impl-out>      per line: model output, TAB, oracle verdict

  `ops` holds one operation per line; `impl-out` the implementation's output
  for the same line (or `-` when the harness was not run).
-/
open Qty

structure Codec (A : Type) where
  parse : String → Option A
  render : A → String

def hexDigit (c : Char) : Option Nat :=
  if '0' ≤ c ∧ c ≤ '9' then some (c.toNat - '0'.toNat)
  else if 'a' ≤ c ∧ c ≤ 'f' then some (c.toNat - 'a'.toNat + 10)
  else none

def parseHex (s : String) : Option Nat :=
  s.toList.foldl (fun acc c => do
    let a ← acc
    let d ← hexDigit c
    pure (a * 16 + d)) (some 0)

def toHex (n width : Nat) : String :=
  let rec go (fuel n : Nat) (acc : List Char) : List Char :=
    match fuel with
    | 0 => acc
    | fuel + 1 =>
      let d := n % 16
      let c := if d < 10 then Char.ofNat (d + 48) else Char.ofNat (d - 10 + 97)
      go fuel (n / 16) (c :: acc)
  String.ofList (go width n [])

def f64Codec : Codec F64 where
  parse := fun s =>
    if s == "xnan" then some .nan
    else if s.startsWith "x" ∧ s.length = 17 then (parseHex (s.drop 1).toString).map F64.ofBits
    else none
  render := fun a => match a with
    | .nan => "xnan"
    | a => "x" ++ toHex (F64.toBits a) 16

def decCodec : Codec Dec where
  parse := fun s =>
    if s.startsWith "d" then
      match (s.drop 1).toString.splitOn "/" with
      | [c, n] => do
        let c ← c.toInt?
        let n ← n.toNat?
        -- only values a `Decimal` can hold (i128 coefficient, at most 18 fractional digits): the theorems
        -- about comparison symmetry (`OracleSound.c02symm_accepts_model_partial`) speak about those
        if Dec.wf ⟨c, n⟩ then pure ⟨c, n⟩ else none
      | _ => none
    else none
  render := fun a => s!"d{a.coeff}/{a.nfd}"

/-- UTF-8 hex of a text -/
def hexOfText (t : Text) : String :=
  let bytes := (Text.toString t).toUTF8
  bytes.foldl (fun acc b => acc ++ toHex b.toNat 2) ""

def textOfHex (s : String) : Option Text := do
  if !s.startsWith "h" then none
  let cs := (s.drop 1).toString.toList
  if cs.length % 2 ≠ 0 then none
  let rec go : List Char → List UInt8 → Option (List UInt8)
    | a :: b :: rest, acc => do
      let x ← hexDigit a
      let y ← hexDigit b
      go rest ((UInt8.ofNat (x * 16 + y)) :: acc)
    | [], acc => some acc.reverse
    | _, _ => none
  let bytes ← go cs []
  let ba := ByteArray.mk bytes.toArray
  match String.fromUTF8? ba with
  | some s => some (Text.ofString s)
  | none => none

/-! ### definitions supplied at run time (generated programs of C11 / C12 / C06-thorough)

One definition per block:
```
item <name> <struct|other> <generics 0|1> <fields 0|1>
args <tok>*
attr <ref_unit|unit> <tok>*
end
```
tokens: `i:<hex>` identifier, `s:<hex>` string literal, `n:<digits>:<nfrac>:<exp>:<float 0|1>` number,
`c` comma, `p:<code>` punctuation, `o` anything else. -/

def parseTok (s : String) : Tok :=
  match s.splitOn ":" with
  | ["c"] => .comma
  | ["o"] => .other
  | ["i", h] => match textOfHex ("h" ++ h) with
    | some t => .ident t | none => .other
  | ["s", h] => match textOfHex ("h" ++ h) with
    | some t => .str t | none => .other
  | ["p", c] => match c.toNat? with
    | some c => .punct c | none => .other
  | ["n", d, nf, e, fl] =>
    match d.toNat?, nf.toNat?, e.toInt? with
    | some d, some nf, some e =>
      let l : Lit := { digits := d, nfrac := nf, exp := e, isFloat := fl == "1" }
      if fl == "1" then .float l else .int l
    | _, _, _ => .other
  | _ => .other

def parseItems (lines : List String) : List RawItem :=
  let rec go (ls : List String) (cur : Option RawItem) (acc : List RawItem) : List RawItem :=
    match ls with
    | [] => acc.reverse
    | l :: rest =>
      match l.splitOn " " with
      | "item" :: name :: kind :: g :: f :: _ =>
        go rest (some { args := [], attrs := [], name := Text.ofString name, isStruct := kind == "struct",
                        hasGenerics := g == "1", hasFields := f == "1" }) acc
      | "args" :: toks =>
        go rest (cur.map (fun it => { it with args := (toks.filter (· != "")).map parseTok })) acc
      | "attr" :: kind :: toks =>
        go rest (cur.map (fun it => { it with attrs := it.attrs ++
          [⟨if kind == "ref_unit" then .refUnit else .unit, (toks.filter (· != "")).map parseTok⟩] })) acc
      | ["end"] => match cur with
        | some it => go rest none (it :: acc)
        | none => go rest none acc
      | _ => go rest cur acc
  go lines none []

def siteStr : ErrSite → String
  | .callSite => "callsite"
  | .args => "args"
  | .item => "item"
  | .attr i => s!"attr:{i}"

structure World (A : Type) where
  tables : List (String × RTable A)
  /-- definitions whose macro expansion or literals fail in this back-end -/
  failed : List (String × String)

def buildWorld {A} (R : Arith A) (isF64 : Bool) (custom : Option (List RawItem) := none) : World A :=
  let groups : List (String × List RawItem) :=
    match custom with
    | some items => [("S:", items)]
    | none =>
      [("", Gen.Catalogue.items), ("S:", Gen.Synth.items), ("S:", Gen.SynthBig.items)] ++
      (if isF64 then [("A:", Gen.Astro.items)] else [])
  let step (w : World A) (pfx : String) (it : RawItem) : World A :=
    let nm := pfx ++ Text.toString it.name
    match MacroFront.expand it with
    | .error e => { w with failed := w.failed ++ [(nm, "macro:" ++ e.msg)] }
    | .ok d =>
      match RTable.ofDef R d with
      | none => { w with failed := w.failed ++ [(nm, "literal")] }
      | some t => { w with tables := w.tables ++ [(nm, t)] }
  let w0 : World A := { tables := [("AmountT", RTable.amount R)], failed := [] }
  groups.foldl (fun w g => g.2.foldl (fun w it => step w g.1 it) w) w0

def World.find {A} (w : World A) (n : String) : Option (RTable A) :=
  (w.tables.find? (fun p => p.1 == n)).map (·.2)

def resStr {α} (f : α → String) : Res α → String
  | .ok a => f a
  | .error p => "panic:" ++ toString p

def ordStr : Option Ordering → String
  | some .lt => "lt"
  | some .eq => "eq"
  | some .gt => "gt"
  | none => "none"

def bit (b : Bool) : String := if b then "1" else "0"

def rateFields {A} (C : Codec A) (r : Rate A) : String :=
  s!"{C.render r.termAmount} {r.termUnit} {C.render r.perMultiple} {r.perUnit}"

def optQStr {A} (C : Codec A) : Res (Option (Q A Nat)) → String
  | .ok (some q) => s!"some {q.unit} {C.render q.amount}"
  | .ok none => "none"
  | .error p => "panic:" ++ toString p

def parseRows {A} (C : Codec A) (s : String) : Option (List (ConvRow A)) :=
  if s == "-" then some [] else
  (s.splitOn ";").mapM (fun r =>
    match r.splitOn ":" with
    | [f, t, fa, off] => do
      let f ← f.toNat?
      let t ← t.toNat?
      let fa ← C.parse fa
      let off ← C.parse off
      pure { fromU := f, toU := t, factor := fa, offset := off }
    | _ => none)

def parseSpec (flags w p : String) : Option Fmt.Spec :=
  match flags.toList with
  | [f, a, pl, z] =>
    let fill : Option (Option Nat) := match f with
      | 'n' => some none | 's' => some (some 42) | 'z' => some (some 48) | 'u' => some (some 95)
      | 'e' => some (some 233) | 'w' => some (some 8594) | _ => none
    let align : Option (Option Fmt.Align) := match a with
      | 'n' => some none | 'l' => some (some .left) | 'c' => some (some .center) | 'r' => some (some .right) | _ => none
    match fill, align with
    | some fill, some align =>
      some { fill, align, plus := pl == '1', zero := z == '1', width := w.toNat?, prec := p.toNat? }
    | _, _ => none
  | _ => none

structure AmtSer (A : Type) where
  /-- JSON of the amount where the model can compute it (decimal: string of the Display text;
  binary64: the number text of `ryu`, computed by `F64.jsonText`) -/
  ser : Option (A → Serde.JL)
  /-- the JSON TEXT has to read back to the identical amount through `serde_json::from_str` (decimal: yes;
  binary64: `serde_json`'s own text parser is not exactly rounding, see DESIGN §5, so only the value tree
  and an exactly rounding reading of the amount text are required) -/
  textExact : Bool := true

structure AmtText (A : Type) where
  /-- text of `|a|` under an optional precision, where the model can compute it (decimal) -/
  absText : Option (Option Nat → A → Text)
  /-- signed text of the amount type's own `Display` under an optional precision -/
  fullText : Option (Option Nat → A → Text) := none

section run
variable {A : Type} (R : Arith A) (C : Codec A) (M : ErrModel) (W : World A) (AT : AmtText A) (AS : AmtSer A)

def qStr (q : Q A Nat) : String := s!"{q.unit} {C.render q.amount}"

/-- registry line of the model -/
def regLine (T : RTable A) : String :=
  let kind := match T.kind with
    | .single => "single" | .noRef => "noref" | .withRef => "withref"
  let refS := match T.refIx with
    | some i => toString i | none => "-"
  let rows := T.units.toList.zipIdx.map (fun (u, i) =>
    let pf := match u.pfx with
      | some p => Text.toString p | none => "-"
    let sc := if T.kind == .withRef then C.render (T.scaleOf R i) else "-"
    s!"{Text.toString u.ident},{hexOfText u.name},{hexOfText u.symbol},{pf},{sc},{Text.toString u.constName}:ok")
  s!"n={T.n} ref={refS} kind={kind} | " ++ " | ".intercalate rows

def cmpGroup (T : RTable A) (a b : Q A Nat) : String :=
  if T.kind == .withRef then
    match hrEq R (T.qt R) a b, hrPcmp R (T.qt R) a b with
    | .ok e, .ok p =>
      let lt := p == some .lt
      let gt := p == some .gt
      let eqp := p == some .eq
      bit e ++ bit (!e) ++ bit lt ++ bit (lt || eqp) ++ bit gt ++ bit (gt || eqp) ++ ":" ++ ordStr p
    | .error x, _ => "panic:" ++ toString x
    | _, .error x => "panic:" ++ toString x
  else
    let e := nrEq R a b
    let p := nrPcmp R a b
    let lt := p == some .lt
    let gt := p == some .gt
    let eqp := p == some .eq
    bit e ++ bit (!e) ++ bit lt ++ bit (lt || eqp) ++ bit gt ++ bit (gt || eqp) ++ ":" ++ ordStr p

def valOf (a : A) : Option Rat := R.val a

/-- parse `<ix> <amt>` of an implementation output -/
def parseQ (s : String) : Option (Nat × A) :=
  match s.splitOn " " with
  | [i, a] => do
    let i ← i.toNat?
    let a ← C.parse a
    pure (i, a)
  | _ => none

/-- one unit row of a registry dump: ident, name, symbol, prefix, scale, const:ok -/
structure RegRow (A : Type) where
  ident : String
  name : Text
  symbol : Text
  pfx : Option String
  scale : Option A
  constOk : Bool

def parseReg {A} (C : Codec A) (s : String) : Option (Nat × String × String × List (RegRow A)) :=
  match s.splitOn " | " with
  | head :: rows =>
    match head.splitOn " " with
    | [n, r, k] =>
      let rs := rows.filterMap (fun row =>
        match row.splitOn "," with
        | [i, nm, sy, pf, sc, c] => do
          let nm ← textOfHex ("h" ++ nm)
          let sy ← textOfHex ("h" ++ sy)
          pure { ident := i, name := nm, symbol := sy, pfx := if pf == "-" then none else some pf,
                 scale := if sc == "-" then none else C.parse sc, constOk := c.endsWith ":ok" }
        | _ => none)
      if rs.length == rows.length then
        some ((n.drop 2).toString.toNat?.getD 0, (r.drop 4).toString, (k.drop 5).toString, rs)
      else none
    | _ => none
  | [] => none

/-- parse `<6 bits>:<lt|eq|gt|none>` -/
def parseCmp (s : String) : Option Oracle.CmpObs :=
  match s.splitOn ":" with
  | [bits, pc] =>
    match bits.toList.map (· == '1'), pc with
    | [e, n, l, le, g, ge], pcs =>
      let p : Option (Option Ordering) :=
        if pcs == "lt" then some (some .lt) else if pcs == "eq" then some (some .eq)
        else if pcs == "gt" then some (some .gt) else if pcs == "none" then some none else none
      p.map (fun p => { eq := e, ne := n, lt := l, le := le, gt := g, ge := ge, pc := p })
    | _, _ => none
  | _ => none

def step (line impl : String) : String × Verdict :=
  let ws := line.splitOn " "
  let bad := ("bad-op", Verdict.skip "bad-op")
  -- displaying a value, a unit or a rate always produces text: a panic (e.g. a formatting trait
  -- implementation returning an error) is a failing input of its own, whatever the text would have been
  let isFmtOp := match ws with
    | "fmt" :: _ => true | "fmtu" :: _ => true | "fmtrt" :: _ => true | "ftxt" :: _ => true | "fmtnest" :: _ => true
    | _ => ws.getLast? == some "fmt" && ws.head? == some "rate"
  if isFmtOp && impl.startsWith "panic:" then
    ("text", .fail "displaying the value panicked instead of producing text")
  else if ws.head? == some "ser" && impl.startsWith "panic:" then
    ("json", .fail "serialising / deserialising the value panicked")
  else
  match ws with
  | ["reg", t] =>
    match W.find t with
    | none => ("no-such-type", .skip "type not in this back-end")
    | some T =>
      let out := regLine R C T
      (out, check (impl == out) "registry (iteration order, names, symbols, prefixes, scales, REF_UNIT, constants) differs from the stably sorted declaration")
  | ["conv", t, i, j, a] =>
    match W.find t, i.toNat?, j.toNat?, C.parse a with
    | some T, some i, some j, some a =>
      let q : Q A Nat := ⟨a, i⟩
      let r := convert R (T.qt R) q j
      let e := equivAmount R (T.qt R) q j
      let out := match r, e with
        | .ok q', .ok e' => s!"{qStr C q'} {C.render e'}"
        | .error p, _ => "panic:" ++ toString p
        | _, .error p => "panic:" ++ toString p
      let v : Verdict :=
        match impl.splitOn " " with
        | [u', y, ye] =>
          match u'.toNat?, C.parse y, C.parse ye with
          | some u', some y, some ye =>
            (check (R.same y ye) "equiv_amount differs from the converted amount").and <|
            match R.val (T.scaleOf R i), R.val (T.scaleOf R j) with
            | some s1, some s2 =>
              Oracle.c01 M (i == j) j u' s1 s2 (R.val a) (R.same y a) (R.val y)
            | _, _ => .skip "non-finite scale"
          | _, _, _ => .skip "unparsed impl output"
        | _ => if impl.startsWith "panic:" then .skip "panic" else .skip "no impl output"
      (out, v)
    | _, _, _, _ => bad
  | ["cmp", t, i, a, j, b] =>
    match W.find t, i.toNat?, C.parse a, j.toNat?, C.parse b with
    | some T, some i, some a, some j, some b =>
      let x : Q A Nat := ⟨a, i⟩
      let y : Q A Nat := ⟨b, j⟩
      -- third group: the value compared with ITSELF, both operands one object (`x == x`, `x <= x`, ...)
      let out := cmpGroup R T x y ++ "|" ++ cmpGroup R T y x ++ "|" ++ cmpGroup R T x x
      let v : Verdict :=
        match impl.splitOn "|" with
        | [g1, g2, g3] =>
          let vSelf : Verdict := match parseCmp g3 with
            | some o3 => check (o3 == Oracle.CmpObs.ofPcmp (R.beq a a) (R.pcmp a a))
                "comparing a value with itself is not the amount type's own comparison of the amount with itself"
            | none => .skip "unparsed impl output"
          vSelf.and <|
          match parseCmp g1, parseCmp g2 with
          | some o1, some o2 =>
            if T.kind == .withRef then
              let si := R.val (T.scaleOf R i)
              let sj := R.val (T.scaleOf R j)
              let mag (s v : Option Rat) : Option Rat := do
                let s ← s
                let v ← v
                pure (s * v)
              let mx := mag si (R.val a)
              let my := mag sj (R.val b)
              let margin (sFrom sTo : Option Rat) (v : Option Rat) : Option Rat := do
                let s1 ← sFrom
                let s2 ← sTo
                let v ← v
                if Oracle.convSafe M s1 s2 v then pure (Oracle.convBound M s1 s2 v) else none
              let ownAB := Oracle.CmpObs.ofPcmp (R.beq a b) (R.pcmp a b)
              let ownBA := Oracle.CmpObs.ofPcmp (R.beq b a) (R.pcmp b a)
              let nanFree := (R.pcmp a a).isSome && (R.pcmp b b).isSome
              -- "the rounding error of one conversion": whichever operand is converted
              let mg : Option Rat := do
                let m1 ← margin sj si (R.val b)
                let m2 ← margin si sj (R.val a)
                pure (if m1 < m2 then m2 else m1)
              ((Oracle.c02one (i == j) ownAB o1 mx my mg).and
                (Oracle.c02one (i == j) ownBA o2 my mx mg)).and
                (if nanFree then Oracle.c02symm o1 o2 else .ok)
            else
              -- C10: no reference unit
              let exp1 := if i == j then Oracle.CmpObs.ofPcmp (R.beq a b) (R.pcmp a b)
                          else Oracle.CmpObs.ofPcmp false none
              let exp2 := if i == j then Oracle.CmpObs.ofPcmp (R.beq b a) (R.pcmp b a)
                          else Oracle.CmpObs.ofPcmp false none
              check (o1 == exp1 && o2 == exp2)
                "values without reference unit: equal only with same unit and amount, unordered across units"
          | _, _ => if impl.contains "panic:" then .skip "panic" else .skip "unparsed impl output"
        | _ => .skip "no impl output"
      (out, v)
    | _, _, _, _, _ => bad
  | ["spec", t] =>
    match W.find t with
    | none => ("no-such-type", .skip "type not in this back-end")
    | some T =>
      let out := regLine R C T
      let qual : Text := if t.startsWith "A:" then [65, 58] ++ T.name else T.name
      let v : Verdict :=
        if t.startsWith "S:" || t == "AmountT" then .skip "not a predefined quantity"
        else match parseReg C impl with
        | none => .skip "unparsed impl output"
        | some (_, _, _, rows) =>
          let specRows := Spec.Units.rows.filter (fun r => r.qty == qual)
          -- a unit the independent definition table does not know cannot be judged: it is not a failing
          -- input (the theorem over the regenerated table breaks and reports it)
          let unknown := rows.filter (fun (row : RegRow A) =>
            (specRows.find? (fun r => UnitSpec.spaced r.ident == row.name)).isNone)
          let bad := rows.filterMap (fun (row : RegRow A) =>
            match specRows.find? (fun r => UnitSpec.spaced r.ident == row.name) with
            | none => none
            | some r =>
              let symOk := r.symbol == row.symbol
              let pfxOk := (r.pfx.map Text.toString) == row.pfx
              let identOk := Text.toString (Case.upperCamel r.ident) == row.ident
              let scaleOk : Bool :=
                match r.kind, row.scale with
                | .noScale, none => true
                | .ref, some a => R.val a == some 1
                | .defined, some a =>
                  match UnitSpec.evalRow 12 r, R.val a with
                  | some iv, some x =>
                    if iv.lo == iv.hi && UnitSpec.terminating iv.lo then
                      -- exact definition: the amount type's nearest value
                      decide (ratAbs (x - iv.lo) ≤ M.E iv.lo)
                    else decide (iv.lo * (1 - UnitSpec.relTol) ≤ x) && decide (x ≤ iv.hi * (1 + UnitSpec.relTol))
                  | _, _ => false
                | _, _ => false
              if symOk && pfxOk && identOk && scaleOk then none
              else some (Text.toString row.name))
          let missing := specRows.length > rows.length - unknown.length
          if !bad.isEmpty || missing then
            .fail ("units not matching their published definition: " ++ ", ".intercalate bad
                      ++ (if missing then " (a published unit is missing)" else ""))
          else if !unknown.isEmpty then
            .skip ("units without a row in the definition table: " ++ ", ".intercalate (unknown.map (fun r => Text.toString r.name)))
          else .ok
      (out, v)
  | "rate" :: tq :: pq :: ta :: tu :: pm :: pu :: op :: rest =>
    match W.find tq, W.find pq, C.parse ta, tu.toNat?, C.parse pm, pu.toNat? with
    | some TT, some TP, some ta, some tu, some pm, some pu =>
      let rate : Rate A := ⟨ta, tu, pm, pu⟩
      let vTa := R.val ta
      let vPm := R.val pm
      match op, rest with
      | "acc", [] =>
        let out := rateFields C rate ++ "|" ++ rateFields C rate.reciprocal ++ "|"
          ++ rateFields C rate.reciprocal.reciprocal ++ "|"
          ++ rateFields C (Rate.fromQtyVals ⟨ta, tu⟩ ⟨pm, pu⟩)
        (out, check (impl == out) "rate accessors / reciprocal / from_qty_vals do not report exactly the four components")
      | "mulq", [qi, qa] =>
        match qi.toNat?, C.parse qa with
        | some qi, some qa =>
          let q : Q A Nat := ⟨qa, qi⟩
          let r1 := Rate.mulQ R TP rate q
          let s1 := resStr (qStr C) r1
          let s2 := if TP.isAmount then "na" else s1
          let s3 := if TT.isAmount then "na" else
            resStr (qStr C) (do Rate.divQ R TT (← r1) rate)
          let out := s1 ++ "|" ++ s2 ++ "|" ++ s3
          let v : Verdict :=
            match impl.splitOn "|", R.val qa, vTa, vPm with
            | [i1, i2, i3], some qv, some tav, some pmv =>
              let a1 := approxRateApply R M TP (Approx.exact qv) qi pu (Approx.exact pmv) (Approx.exact tav)
              match a1 with
              | .error _ =>
                check (i1 == "panic:unit-mismatch" && (i2 == "na" || i2 == i1))
                  "different units of a per-quantity without reference unit must give the documented panic"
              | .ok a1 =>
                let both := check (i2 == "na" || i2 == i1) "rate * q and q * rate differ"
                let v1 := match parseQ C i1 with
                  | some (u, z) =>
                    (check (u == tu) "rate * q is not expressed in the term unit").and
                      (Approx.judge a1 (R.val z) "rate * q is not term amount x (value / per value) within rounding")
                  | none => .skip "panic or unparsed"
                -- (rate * q) / rate returns q (expressed in the per unit)
                let v3 := if i3 == "na" then Verdict.ok else
                  match parseQ C i3, a1 with
                  | some (u, z), some a1 =>
                    match approxRateApply R M TT a1 tu tu (Approx.exact tav) (Approx.exact pmv) with
                    | .ok a3 =>
                      (check (u == pu) "(rate * q) / rate is not expressed in the per unit").and
                        (Approx.judge a3 (R.val z) "(rate * q) / rate does not return the original value within rounding")
                    | .error _ => .skip "mismatch"
                  | _, _ => .skip "panic or unparsed"
                (both.and v1).and v3
            | _, _, _, _ => .skip "non-finite or unparsed"
          (out, v)
        | _, _ => bad
      | "divq", [qi, qa] =>
        match qi.toNat?, C.parse qa with
        | some qi, some qa =>
          let q : Q A Nat := ⟨qa, qi⟩
          let r1 := Rate.divQ R TT q rate
          let s1 := if TT.isAmount then "na" else resStr (qStr C) r1
          let s2 := if TT.isAmount then "na" else resStr (qStr C) (Rate.mulQ R TT rate.reciprocal q)
          let s3 := if TT.isAmount then "na" else resStr (qStr C) (do Rate.mulQ R TP rate (← r1))
          let out := s1 ++ "|" ++ s2 ++ "|" ++ s3
          let v : Verdict :=
            if TT.isAmount then check (impl == out) "operators not available for the dimensionless amount" else
            match impl.splitOn "|", R.val qa, vTa, vPm with
            | [i1, i2, i3], some qv, some tav, some pmv =>
              match approxRateApply R M TT (Approx.exact qv) qi tu (Approx.exact tav) (Approx.exact pmv) with
              | .error _ =>
                check (i1 == "panic:unit-mismatch" && i2 == i1)
                  "different units of a term quantity without reference unit must give the documented panic"
              | .ok a1 =>
                let v1 := match parseQ C i1 with
                  | some (u, z) =>
                    (check (u == pu) "q / rate is not expressed in the per unit").and
                      (Approx.judge a1 (R.val z) "q / rate is not per amount x (value / term value) within rounding")
                  | none => .skip "panic or unparsed"
                let v2 := match parseQ C i2 with
                  | some (u, z) =>
                    (check (u == pu) "q * reciprocal is not expressed in the per unit").and
                      (Approx.judge a1 (R.val z) "q * reciprocal(rate) disagrees with q / rate beyond rounding")
                  | none => .skip "panic or unparsed"
                let v3 := match parseQ C i3, a1 with
                  | some (u, z), some a1 =>
                    match approxRateApply R M TP a1 pu pu (Approx.exact pmv) (Approx.exact tav) with
                    | .ok a3 =>
                      (check (u == tu) "rate * (q / rate) is not expressed in the term unit").and
                        (Approx.judge a3 (R.val z) "rate * (q / rate) does not return the original value within rounding")
                    | .error _ => .skip "mismatch"
                  | _, _ => .skip "panic or unparsed"
                (v1.and v2).and v3
            | _, _, _, _ => .skip "non-finite or unparsed"
          (out, v)
        | _, _ => bad
      | "fmt", [] =>
        match impl.splitOn " " with
        | [o, taT, pmT] =>
          match textOfHex o, textOfHex taT, textOfHex pmT with
          | some outT, some taT, some pmT =>
            let tsym : Text := (TT.units[tu]?.map (·.symbol)).getD []
            let psym : Text := (TP.units[pu]?.map (·.symbol)).getD []
            let exp := Fmt.rateFmt taT tsym pmT psym (R.beq pm R.one)
            ("h" ++ hexOfText exp ++ " " ++ "h" ++ hexOfText taT ++ " h" ++ hexOfText pmT,
              check (outT == exp) "a rate is not displayed as `term / per` with a per-multiple of one omitted")
          | _, _, _ => (impl, .skip "unparsed impl output")
        | _ => (impl, .skip "unparsed impl output")
      | _, _ => bad
    | _, _, _, _, _, _ => bad
  | ["tconv", t, rows, i, a, j] =>
    match W.find t, parseRows C rows, i.toNat?, C.parse a, j.toNat? with
    | some _, some rows, some i, some a, some j =>
      let out := optQStr C (tconv R rows ⟨a, i⟩ j)
      (out, check (impl == out)
        "table conversion is not: value unchanged for the same unit, else amount x factor + offset of the FIRST matching row, else nothing")
    | _, _, _, _, _ => bad
  | ["temp", "rows"] =>
    match W.find "Temperature" with
    | none => ("no-such-type", .skip "type not in this back-end")
    | some T =>
      match tempRows R T with
      | none => ("untranslatable", .skip "temperature table not available")
      | some rows =>
        let out := ";".intercalate (rows.map (fun r => s!"{r.fromU}:{r.toU}:{C.render r.factor}:{C.render r.offset}"))
        (out, check (impl == out) "TEMPERATURE_CONVERTER.mappings differs from the declared rows")
  | ["temp", "conv", i, a, j] =>
    match W.find "Temperature", i.toNat?, C.parse a, j.toNat? with
    | some T, some i, some a, some j =>
      match tempRows R T with
      | none => ("untranslatable", .skip "temperature table not available")
      | some rows =>
        let out := optQStr C (tconv R rows ⟨a, i⟩ j)
        let nameOf (u : Nat) : Text := (T.units[u]?.map (·.name)).getD []
        let v : Verdict :=
          if i == j then check (impl == s!"some {i} {C.render a}") "same-unit conversion must return the value unchanged"
          else match Spec.Temp.formula (nameOf i) (nameOf j), R.val a with
            | some (F, O), some x =>
              match impl.splitOn " " with
              | ["some", u, z] =>
                match u.toNat?, C.parse z with
                | some u, some z =>
                  -- factor and offset are the published constants up to one rounding (or 18 digits)
                  let slack (q : Rat) : Rat := M.E q + 1 / (2 * pow10 18)
                  let fApprox : Approx := ⟨F, slack F, true⟩
                  let oApprox : Approx := ⟨O, slack O, true⟩
                  (check (u == j) "temperature conversion does not carry the requested unit").and
                    (Approx.judge (some (Approx.add M (Approx.mul M (Approx.exact x) fApprox) oApprox)) (R.val z)
                      "temperature conversion does not match the exact physical formula within rounding")
                | _, _ => .skip "unparsed"
              | _ => if impl == "none" then .fail "the temperature table does not cover this unit pair" else .skip "panic or unparsed"
            | _, _ => .skip "non-finite or unknown unit"
        (out, v)
    | _, _, _, _ => bad
  | ["fmt", t, i, a, flags, w, p] =>
    match W.find t, i.toNat?, C.parse a, parseSpec flags w p with
    | some T, some i, some a, some sp =>
      let sym : Text := (T.units[i]?.map (·.symbol)).getD []
      match impl.splitOn " " with
      | [o, r] =>
        match textOfHex o, textOfHex r with
        | some outT, some refT =>
          if sym.isEmpty then
            -- unit-less: the amount type's own Display with the full specification
            ("h" ++ hexOfText refT ++ " " ++ r,
              check (outT == refT) "unit-less value is not displayed as the bare amount under the same format specification")
          else
            let nonneg := R.ge a R.zero
            let amtT : Text := match AT.absText with
              | some f => f sp.prec a
              | none => refT
            let expected := Fmt.qtyFmt sp nonneg amtT sym
            let vText := check (amtT == refT) "amount text differs from the amount type's own Display"
            let vOut := check (outT == expected)
              "display is not: sign, amount text, one space, symbol, padded as a whole to the width (in characters) with fill/alignment/zero flag"
            let vPrec : Verdict := match sp.prec, R.val a with
              | some pr, some x =>
                match Fmt.parseDecText refT with
                | some (tv, nf) =>
                  (check (nf == pr) "amount does not have exactly the requested number of fractional digits").and
                    (check (ratAbs (tv - ratAbs x) ≤ 1 / (2 * pow10 pr)) "amount is not correctly rounded to the requested precision")
                | none => .skip "amount text not a plain decimal"
              | _, _ => .ok
            ("h" ++ hexOfText expected ++ " h" ++ hexOfText amtT, (vText.and vOut).and vPrec)
        | _, _ => (impl, .skip "unparsed impl output")
      | _ => (impl, if impl.startsWith "panic:" then .skip "panic" else .skip "unparsed impl output")
    | _, _, _, _ => bad
  | ["fmtu", t, i, flags, w, p] =>
    match W.find t, i.toNat?, parseSpec flags w p with
    | some T, some i, some sp =>
      let sym : Text := (T.units[i]?.map (·.symbol)).getD []
      let exp := "h" ++ hexOfText (Fmt.padStr sp sym)
      match impl.splitOn " " with
      | [o, r] =>
        -- the model of `Formatter::pad` and std's own formatting of the symbol string must both agree
        (exp ++ " " ++ exp, (check (o == r) "a unit is not displayed as its symbol under ordinary string formatting rules").and
          (check (o == exp) "unit display differs from symbol padded/truncated as a string"))
      | _ => (impl, .skip "unparsed impl output")
    | _, _, _ => bad
  | ["fmtnest", t, i, a] =>
    -- re-entrant formatting (the sink formats the value again for every chunk): it returns
    match W.find t, i.toNat?, C.parse a with
    | some _, some _, some _ => ("ok", check (impl == "ok") "formatting through a sink that itself formats the value does not return normally")
    | _, _, _ => bad
  | ["fmtrt", t, i, a] =>
    match W.find t, i.toNat?, C.parse a with
    | some T, some i, some a =>
      let sym : Text := (T.units[i]?.map (·.symbol)).getD []
      match impl.splitOn " " with
      | [o, back, ix] =>
        let symUnique := (T.units.toList.filter (fun u => u.symbol == sym)).length == 1
        let vAmt : Verdict := match C.parse back with
          | some b => if (R.val a).isSome then check (R.same a b) "displayed amount does not parse back to exactly the stored amount"
                      else .skip "non-finite"
          | none => if (R.val a).isSome then .fail "displayed amount does not parse back" else .skip "non-finite"
        let vUnit : Verdict :=
          if sym.isEmpty then .ok
          else if symUnique then check (ix == toString i) "displayed symbol does not resolve to the stored unit"
          else .skip "symbol not unique"
        let vShape : Verdict := match textOfHex o, AT.absText with
          | some outT, some f =>
            let nonneg := R.ge a R.zero
            let exp := if sym.isEmpty then (if nonneg then [] else [45]) ++ f none a
                       else Fmt.qtyFmt {} nonneg (f none a) sym
            check (outT == exp) "display is not amount, one space, symbol"
          | some outT, none =>
            if sym.isEmpty then .ok
            else check (outT.length ≥ sym.length + 2 && outT.drop (outT.length - sym.length - 1) == [32] ++ sym)
              "display does not end in one space and the symbol"
          | none, _ => .skip "unparsed"
        (impl, (vAmt.and vUnit).and vShape)
      | _ => (impl, .skip "unparsed impl output")
    | _, _, _ => bad
  | ["ser", t, i, a] =>
    match W.find t, i.toNat?, C.parse a with
    | some T, some i, some a =>
      match T.units[i]? with
      | none => bad
      | some u =>
        match impl.splitOn " " with
        | [qj, aj, uj, tree, back, backTree, uback, aparsed] =>
          match textOfHex qj, textOfHex aj, textOfHex uj with
          | some qjT, some ajT, some ujT =>
            let amtJ : Serde.JL := match AS.ser with
              | some f => f a
              | none => .num ajT
            let expQ := Serde.render (Serde.serQty T.kind amtJ u)
            let expU := Serde.renderLeaf (Serde.serUnit u)
            let want := s!"{i},{C.render a}"
            let fin := (R.val a).isSome
            let v :=
              (check (ujT == expU) "a unit does not serialise as its variant name").and <|
              (check (qjT == expQ) "a value does not serialise as {amount, unit}").and <|
              (check (Serde.renderLeaf amtJ == ajT) "amount serialisation differs from the amount type's own").and <|
              -- binary back-end: serde_json's own text parser is not exactly rounding (it may be one ulp off
              -- without its `float_roundtrip` feature), so for JSON TEXT the property asks for an exactly rounding
              -- parser (`aparsed` below); the value tree must round-trip exactly in both back-ends
              (if AS.ser.isSome && AS.textExact then check (tree == "tree=text") "value tree and JSON text differ" else .ok).and <|
              (if fin then
                (check (backTree == want && (AS.ser.isNone || !AS.textExact || back == want)) "deserialising the serialised value does not give back the identical unit and amount").and <|
                (check ((back.splitOn ",").head? == some (toString i)) "deserialising the JSON text does not give back the unit").and <|
                (check (aparsed == C.render a) "the serialised amount read back with an exactly rounding parser differs from the stored amount")
               else .skip "non-finite amount").and <|
              check (uback == toString i) "deserialising the serialised unit does not give back the unit"
            ("h" ++ hexOfText expQ ++ " h" ++ hexOfText (Serde.renderLeaf amtJ) ++ " h" ++ hexOfText expU
              ++ (if AS.ser.isSome && AS.textExact then s!" tree=text {want} {want} {i} {C.render a}"
                  else s!" {tree} {back} {want} {i} {C.render a}"), v)
          | _, _, _ => (impl, .skip "unparsed impl output")
        | _ => (impl, if impl.startsWith "panic:" then .skip "panic" else .skip "unparsed impl output")
    | _, _, _ => bad
  | ["si", "iter"] =>
    let row (i : Text) : String :=
      s!"{Text.toString i}:h{hexOfText ((SIPrefix.name i).getD [])}:h{hexOfText ((SIPrefix.abbr i).getD [])}:{(SIPrefix.exp i).getD 999}"
    let out := " ".intercalate (SIPrefix.iter.map row)
    let specOut := " ".intercalate (Spec.SI.rows.map (fun r =>
      s!"{Text.toString r.ident}:h{hexOfText r.name}:h{hexOfText r.abbr}:{r.exp}"))
    (out, check (impl == specOut) "prefix table (iteration order, names, abbreviations, exponents) differs from the SI brochure table")
  | ["si", "exp", n] =>
    match n.toInt? with
    | some e =>
      let f (o : Option Text) : String := match o with
        | some p => Text.toString p | none => "none"
      let specR := (Spec.SI.rows.find? (fun r => r.exp == e)).map (·.ident)
      (f (SIPrefix.fromExp e), check (impl == f specR) "from_exp does not return exactly the prefix with that exponent")
    | none => bad
  | ["si", "abbr", h] =>
    match textOfHex h with
    | some t =>
      let f (o : Option Text) : String := match o with
        | some p => Text.toString p | none => "none"
      let specR := (Spec.SI.rows.find? (fun r => r.abbr == t)).map (·.ident)
      (f (SIPrefix.fromAbbr t), check (impl == f specR) "from_abbr does not return exactly the prefix with that abbreviation")
    | none => bad
  | ["fit", t, a] =>
    match W.find t, C.parse a with
    | some T, some a =>
      if T.kind != .withRef then bad else
      let r := fit R (T.qt R) a
      let out := resStr (qStr C) r
      let v : Verdict :=
        match parseQ C impl, R.val a with
        | some (w, z), some x =>
          match R.val (T.scaleOf R w), R.val z with
          | some sw, some zv =>
            let E := (eligible (T.qt R)).filterMap (fun u => R.val (T.scaleOf R u))
            let wElig := (eligible (T.qt R)).contains w || T.isAmount
            if T.isAmount then check (R.same z a) "fitting a dimensionless amount must return it unchanged"
            else
              (Oracle.c05fit E wElig sw x 0).and
                (check (ratAbs (zv * sw - x) ≤ ratAbs sw * M.E (x / sw) || !(M.safe (x / sw + M.E (x / sw))))
                  "fitted value does not preserve the magnitude")
          | _, _ => .skip "non-finite"
        | _, _ => if impl.startsWith "panic:" then .skip "panic" else .skip "non-finite or unparsed"
      (out, v)
    | _, _ => bad
  | ["fsym", t, h] =>
    match W.find t, textOfHex h with
    | some T, some sym =>
      let r := (List.range T.n).find? (fun u => (T.units[u]?.map (·.symbol)) == some sym)
      let f := match r with
        | some u => toString u | none => "none"
      let out := f ++ " " ++ f
      (out, check (impl == out) "lookup by symbol is not the first unit (in iteration order) with that symbol")
    | _, _ => bad
  | ["fscale", t, a] =>
    match W.find t, C.parse a with
    | some T, some a =>
      if T.kind != .withRef then bad else
      let r := unitFromScale R (T.qt R) a
      let f := match r with
        | some u => toString u | none => "none"
      let out := f ++ " " ++ f
      (out, check (impl == out) "lookup by scale is not the first unit (in iteration order) with that scale")
    | _, _ => bad
  | [op, l, r, o, i, a, j, b] =>
    -- `x ⊗ x` of a square / self-quotient with the very same operand: the harness adds a fifth form in which
    -- both borrowed operands are ONE object (`&x * &x`)
    let sameRef : Bool := l == r && i == j && a == b
    match W.find l, W.find r, W.find o, i.toNat?, C.parse a, j.toNat?, C.parse b with
    | some TL, some TR, some TO, some i, some a, some j, some b =>
      if op == "dmd" || op == "ddm" then
        -- two-step chain: `dmd L R Q` = (x * y) / y with `L*R -> Q`, `Q/R -> L`; `ddm` = (x / y) * y
        if !(TL.kind == .withRef && TR.kind == .withRef && TO.kind == .withRef) then bad else
        let isMul := op == "dmd"
        let x : Q A Nat := ⟨a, i⟩
        let y : Q A Nat := ⟨b, j⟩
        let step1 (u : Q A Nat) : Res (Q A Nat) :=
          if isMul then dmul R (TL.qt R) (TR.qt R) (TO.qt R) u y else ddiv R (TL.qt R) (TR.qt R) (TO.qt R) u y
        let step2 (p : Q A Nat) : Res (Q A Nat) :=
          if isMul then ddiv R (TO.qt R) (TR.qt R) (TL.qt R) p y else dmul R (TO.qt R) (TR.qt R) (TL.qt R) p y
        let r1 := step1 x
        let out := match r1 with
          | .ok p => qStr C p ++ "|" ++ resStr (qStr C) (step2 p)
          | .error _ => resStr (qStr C) r1 ++ "|-"
        let v : Verdict :=
          match impl.splitOn "|" with
          | [i1, i2] =>
            match parseQ C i1, parseQ C i2 with
            | some (w1, z1), some (w2, z2) =>
              if w1 ≥ TO.n then .fail "intermediate unit is not a unit of the result quantity"
              else if w2 ≥ TL.n then .fail "final unit is not a unit of the original quantity" else
              let opQ (fwd : Bool) (p q : Rat) : Rat := if fwd then p * q else p / q
              let av := R.val a
              let bv := R.val b
              let sa := R.val (TL.scaleOf R i)
              let sb := R.val (TR.scaleOf R j)
              let sw1 := R.val (TO.scaleOf R w1)
              let sw2 := R.val (TL.scaleOf R w2)
              let zv1 := R.val z1
              let nz (q : Option Rat) : Option Rat := q.bind (fun q => if q == 0 then none else some q)
              let pa1 : Option Rat := do pure (opQ isMul (← av) (← (if isMul then bv else nz bv)))
              let ps1 : Option Rat := do pure (opQ isMul (← sa) (← (if isMul then sb else nz sb)))
              let pa2 : Option Rat := do pure (opQ (!isMul) (← zv1) (← (if isMul then nz bv else bv)))
              let ps2 : Option Rat := do pure (opQ (!isMul) (← sw1) (← (if isMul then nz sb else sb)))
              let m0 : Option Rat := do pure ((← av) * (← sa))
              let bs : Option Rat := do pure ((← bv) * (← sb))
              ((Oracle.c04 M pa1 ps1 sw1 zv1).and (Oracle.c04 M pa2 ps2 sw2 (R.val z2))).and
                (Oracle.c04rt M isMul m0 pa1 ps1 sw1 bs pa2 ps2 sw2 (R.val z2))
            | _, _ => if impl.startsWith "panic:" || (impl.splitOn "|").any (·.startsWith "panic:") then .skip "panic"
                      else .skip "unparsed impl output"
          | _ => .skip "unparsed impl output"
        (out, v)
      else
      if !(op == "dmul" || op == "ddiv" || op == "dmulu" || op == "ddivu") then bad else
      -- `dmul`/`ddiv`: oracle of C04 (magnitude); `dmulu`/`ddivu`: oracle of C05 (choice of the unit)
      let unitOracle := op == "dmulu" || op == "ddivu"
      if !(TL.kind == .withRef && TR.kind == .withRef && TO.kind == .withRef) then bad else
      let isMul := op == "dmul" || op == "dmulu"
      let x : Q A Nat := ⟨a, i⟩
      let y : Q A Nat := ⟨b, j⟩
      let res := if isMul then dmul R (TL.qt R) (TR.qt R) (TO.qt R) x y
                 else ddiv R (TL.qt R) (TR.qt R) (TO.qt R) x y
      let one := resStr (qStr C) res
      let out := one ++ "|" ++ one ++ "|" ++ one ++ "|" ++ one ++ (if sameRef then "|" ++ one else "")
      let forms := impl.splitOn "|"
      let v : Verdict :=
        if forms.length != (if sameRef then 5 else 4) then .skip "unparsed impl output"
        else if !(forms.all (· == forms.head!)) then .fail "owned/borrowed operand forms give different results"
        else match parseQ C forms.head! with
          | none => if impl.startsWith "panic:" then .skip "panic" else .skip "unparsed impl output"
          | some (w, z) =>
            if w ≥ TO.n then .fail "result unit is not a unit of the result quantity" else
            let sL := TL.scaleOf R i
            let sR := TR.scaleOf R j
            let opA (p q : A) : Res A := if isMul then R.mul p q else R.div p q
            let opQ (p q : Rat) : Rat := if isMul then p * q else p / q
            let sw := R.val (TO.scaleOf R w)
            let pa : Option Rat := do
              let p ← R.val a
              let q ← R.val b
              if !isMul && q == 0 then none else pure (opQ p q)
            let ps : Option Rat := do
              let p ← R.val sL
              let q ← R.val sR
              -- a divisor unit of scale zero (`OracleSound.c04_div_rejects_model_zero_divisor_scale`): no exact quotient
              if !isMul && q == 0 then none else pure (opQ p q)
            let magV := Oracle.c04 M pa ps sw (R.val z)
            let refV : Verdict :=
              if some i == TL.refIx && some j == TR.refIx then
                check (some w == TO.refIx) "operands in reference units must give a result in the reference unit"
              else .ok
            let unitV : Verdict :=
              match opA sL sR with
              | .error _ => .skip "scale product panics"
              | .ok sc =>
                let natural := (List.range TO.n).any (fun u => R.beq (TO.scaleOf R u) sc)
                if natural then
                  (check (R.beq (TO.scaleOf R w) sc) "a unit with the product/quotient of the operand scales exists but was not used").and
                    (match opA a b with
                     | .ok own => check (R.same z own) "amount is not exactly the product/quotient of the operand amounts"
                     | .error _ => .skip "amount product panics")
                else if TO.isAmount then .ok
                else match pa, ps, sw, R.val z with
                  | some pa, some ps, some sw, some zv =>
                    let mag := zv * sw
                    let tol := 8 * (M.E mag + ratAbs sw * M.E (mag / sw) + ratAbs pa * M.E ps + ratAbs ps * M.E pa)
                    let E := (eligible (TO.qt R)).filterMap (fun u => R.val (TO.scaleOf R u))
                    Oracle.c05fit E ((eligible (TO.qt R)).contains w) sw mag tol
                  | _, _, _, _ => .skip "non-finite"
            if unitOracle then refV.and unitV else magV
      (out, v)
    | _, _, _, _, _, _, _ => bad
  | ["ftxt", a, p] =>
    -- the amount type's own Display: for binary64 the model computes the digits itself (`F64Text.lean`)
    match C.parse a, AT.fullText with
    | some a, some f =>
      let prec : Option Nat := p.toNat?
      if p != "-" && prec.isNone then bad else
      let out := "h" ++ hexOfText (f prec a)
      (out, check (impl == out) "text of the amount differs from the model of the amount type's Display")
    | some _, none => (impl, .skip "no text model for this amount type")
    | none, _ => bad
  | ["asq", t, i] =>
    match W.find t, i.toNat? with
    | some _, some i =>
      let out := qStr C (Q.new R.one i)
      (out, check (impl == out) "a unit taken as a quantity is not one of itself")
    | _, _ => bad
  | ["new", t, i, a] =>
    match W.find t, i.toNat?, C.parse a with
    | some _, some i, some a =>
      let q : Q A Nat := Q.new a i
      let s := qStr C q
      let out := s ++ "|" ++ s ++ "|" ++ s
      (out, check (impl == out) "constructor does not store exactly the given amount and unit")
    | _, _, _ => bad
  | ["smul", t, i, a, k] =>
    match W.find t, i.toNat?, C.parse a, C.parse k with
    | some _, some i, some a, some k =>
      let q : Q A Nat := ⟨a, i⟩
      let out := resStr (qStr C) (smul R k q) ++ "|" ++ resStr (qStr C) (muls R q k) ++ "|"
        ++ resStr (qStr C) (sdiv R q k)
      (out, check (impl == out) "k*q, q*k or q/k is not the amount type's own product/quotient in the same unit")
    | _, _, _, _ => bad
  | [op, t, i, a, j, b] =>
    match W.find t, i.toNat?, C.parse a, j.toNat?, C.parse b with
    | some T, some i, some a, some j, some b =>
      let x : Q A Nat := ⟨a, i⟩
      let y : Q A Nat := ⟨b, j⟩
      let wr := T.kind == .withRef
      let s1 := R.val (T.scaleOf R i)
      let s2 := R.val (T.scaleOf R j)
      if op == "add" || op == "sub" then
        let isSub := op == "sub"
        let r := if wr then (if isSub then hrSub R (T.qt R) x y else hrAdd R (T.qt R) x y)
                 else (if isSub then nrSub R x y else nrAdd R x y)
        let out := resStr (qStr C) r
        let own := if isSub then R.sub a b else R.add a b
        let v : Verdict :=
          if !wr then
            -- C10
            if i != j then check (impl == "panic:unit-mismatch") "different units of a type without reference unit must panic"
            else check (impl == resStr (qStr C) (own.map (fun z => (⟨z, i⟩ : Q A Nat))))
              "same-unit result differs from the amount type's own operator"
          else match parseQ C impl with
            | some (u', z) =>
              match s1, s2 with
              | some s1, some s2 =>
                let sameOwn := match own with
                  | .ok o => R.same z o
                  | .error _ => false
                Oracle.c03addsub M isSub i j u' s1 s2 (R.val a) (R.val b) sameOwn (R.val z)
              | _, _ => .skip "non-finite scale"
            | none => if impl.startsWith "panic:" then
                        (if i == j then check (impl == resStr (qStr C) (own.map (fun z => (⟨z, i⟩ : Q A Nat))))
                            "same-unit result differs from the amount type's own operator"
                         else .skip "panic")
                      else .skip "unparsed impl output"
        (out, v)
      else if op == "div" then
        let r := if wr then hrDiv R (T.qt R) x y else nrDiv R x y
        let out := resStr C.render r
        let own := R.div a b
        let v : Verdict :=
          if !wr then
            if i != j then check (impl == "panic:unit-mismatch") "different units of a type without reference unit must panic"
            else check (impl == resStr C.render own) "same-unit quotient differs from the amount type's own operator"
          else match C.parse impl with
            | some z =>
              match s1, s2 with
              | some s1, some s2 =>
                let sameOwn := match own with
                  | .ok o => R.same z o
                  | .error _ => false
                Oracle.c03div M i j s1 s2 (R.val a) (R.val b) sameOwn (R.val z)
              | _, _ => .skip "non-finite scale"
            | none => if impl.startsWith "panic:" then
                        (if i == j then check (impl == resStr C.render own)
                            "same-unit quotient differs from the amount type's own operator"
                         else .skip "panic")
                      else .skip "unparsed impl output"
        (out, v)
      else bad
    | _, _, _, _, _ => bad
  | _ => bad

end run

/-- canonical form of a scale literal: `<i|f>:<mantissa>e<exp10>`, mantissa without trailing zeros
(the macro-level harness prints the same form from `syn::Lit`) -/
def canonLit (l : Lit) : String :=
  let rec strip (fuel : Nat) (m : Nat) (e : Int) : Nat × Int :=
    match fuel with
    | 0 => (m, e)
    | fuel + 1 => if m != 0 && m % 10 == 0 then strip fuel (m / 10) (e + 1) else (m, e)
  let (m, e) := if l.digits == 0 then (0, (0 : Int)) else strip 400 l.digits (l.exp - l.nfrac)
  s!"{if l.isFloat then "f" else "i"}:{m}e{e}"

/-- the operator impls the macro generates for one definition, in the notation of the macro-level
harness: `op lhs rhs [form:out,...]`, sorted -/
def frontImpls (d : QtyDef) : List String :=
  let n := Text.toString d.name
  let td := TyDecl.ofDef d
  let opS (o : BinOp) : String := match o with
    | .add => "add" | .sub => "sub" | .mul => "mul" | .div => "div" | .eq => "eq" | .lt => "lt"
  let base := (baseImpls td).map (fun i =>
    s!"{opS i.op} {Text.toString i.lhs} {Text.toString i.rhs} [oo:{Text.toString i.out}]")
  let der := (derivedImpls td).map (fun i =>
    s!"{opS i.op} {Text.toString i.lhs} {Text.toString i.rhs} [oo:{Text.toString i.out},or:fwd,ro:fwd,rr:fwd]")
  let extra := [s!"g:div {n} Rate<Self,PQ> [oo:PQ]", s!"g:mul {n} Rate<TQ,Self> [oo:TQ]",
                s!"mul AmountT {n}Unit [oo:{n}]", s!"mul {n}Unit AmountT [oo:{n}]"]
  (base ++ der ++ extra).toArray.qsort (· < ·) |>.toList

def frontLine (d : QtyDef) : String :=
  let o (x : Option Text) : String := match x with
    | some t => Text.toString t | none => "-"
  let oh (x : Option Text) : String := match x with
    | some t => hexOfText t | none => "-"
  let der := match d.derived with
    | some dv => s!"{Text.toString dv.lhs}{if dv.isMul then "*" else "/"}{Text.toString dv.rhs}"
    | none => "-"
  let units := d.units.map (fun u =>
    s!" | {Text.toString u.ident},{hexOfText u.name},{hexOfText u.symbol},{o u.pfx},{match u.scale with | some l => canonLit l | none => "-"},{oh u.doc}")
  let consts := ",".intercalate (d.units.map (fun u => s!"{Text.toString u.constName}={Text.toString u.ident}"))
  let variants := ",".intercalate (d.units.map (fun u => Text.toString u.ident))
  -- the only serde wiring of the generated code: the derives on the unit enum and on the quantity struct, under
  -- the feature `serde` of the crate that contains the definition; no attribute on a field or a variant
  let deriveAttr := "cfg_attr(feature=\"serde\",derive(::serde::Deserialize,::serde::Serialize))"
  let qn := Text.toString d.name
  let serdeAttrs := ";".intercalate ([s!"{qn}:{deriveAttr}", s!"{qn}Unit:{deriveAttr}"].toArray.qsort (· < ·)).toList
  -- what the GENERATED accessors `name()`, `symbol()`, `si_prefix()`, `scale()` answer per variant
  -- (`scale()` exists only for types with a reference unit)
  let arms := " | ".intercalate (d.units.map (fun u =>
    let sc := match d.refIdent with
      | some _ => (match u.scale with | some l => "l:" ++ canonLit l | none => "missing")
      | none => "-"
    s!"{Text.toString u.ident},s:{hexOfText u.name},s:{hexOfText u.symbol},p:{o u.pfx},{sc}"))
  s!"ok {Text.toString d.name} ref={o d.refIdent} derived={der}{String.join units} # {"; ".intercalate (frontImpls d)} # consts {consts} # variants {variants} # arms {arms} # items  # serde {serdeAttrs}"


/-- the amount text `Quantity::fmt` builds in the binary64 configuration: `Display` (with the optional
precision) of `if amount >= 0 { amount } else { -amount }` — NOT of `|amount|`: `-0.0 >= 0` holds, so a negative
zero keeps its sign (`-0`), and `NaN >= 0` does not, so NaN is negated (and still prints `NaN`).  The digits are
computed by the model (`QtyModel/F64Text.lean`: shortest round-trip digits / exact expansion rounded half-even,
`Props/C15F64.lean`), not taken from std. -/
def f64AmountText (prec : Option Nat) (a : F64) : Text :=
  let b : F64 := if F64.arith.ge a F64.arith.zero then a else
    (match F64.arith.neg a with
     | .ok n => n
     | .error _ => a)
  F64.text prec b

def runWith {A} (R : Arith A) (C : Codec A) (M : ErrModel) (AT : AmtText A) (AS : AmtSer A) (isF64 : Bool) (args : List String) : IO UInt32 := do
  let custom ← match args with
    | ["dumpf", f] => pure (some (parseItems (← IO.FS.lines f).toList))
    | ["runf", f, _, _] => pure (some (parseItems (← IO.FS.lines f).toList))
    | ["expandf", f] => pure (some (parseItems (← IO.FS.lines f).toList))
    | ["frontf", f] => pure (some (parseItems (← IO.FS.lines f).toList))
    | ["typingf", f] => pure (some (parseItems (← IO.FS.lines f).toList))
    | _ => pure none
  let W := buildWorld R isF64 custom
  let args := match args with
    | ["dumpf", _] => ["dump"]
    | ["runf", _, o, i] => ["run", o, i]
    | a => a
  match args with
  | ["expandf", _] =>
    -- verdict of the macro front end (and of the literal conversion) per definition
    for it in custom.getD [] do
      match MacroFront.expand it with
      | .error e => IO.println s!"err {Text.toString it.name} {siteStr e.site} {e.msg}"
      | .ok d =>
        match RTable.ofDef R d with
        | none => IO.println s!"err {Text.toString it.name} literal scale literal not representable in this back-end"
        | some _ => IO.println s!"ok {Text.toString it.name}"
    return 0
  | ["frontf", _] =>
    -- what the macro front end (and the set of generated impls) looks like per definition
    for it in custom.getD [] do
      match MacroFront.expand it with
      | .error _ => IO.println "rejected"
      | .ok d => IO.println (frontLine d)
    return 0
  | ["typingf", _] =>
    let defs := (custom.getD []).filterMap (fun it => match MacroFront.expand it with
      | .ok d => some (TyDecl.ofDef d) | .error _ => none)
    let names := amountName :: defs.map (·.name)
    for op in BinOp.all do
      for l in names do
        for r in names do
          let v := match typechecks defs op l r with
            | some t => Text.toString t | none => "-"
          let sp := match TypingSpec.result defs op l r with
            | some t => Text.toString t | none => "-"
          IO.println s!"{op.sym} {Text.toString l} {Text.toString r} {v} {sp}"
    return 0
  | ["dump"] =>
    for (n, T) in W.tables do
      IO.println s!"type {n} {regLine R C T}"
      let impls := implsOf T.name T.derived
      for im in impls do
        IO.println s!"impl {n} {if im.isMul then "mul" else "div"} {Text.toString im.lhs} {Text.toString im.rhs} {Text.toString im.out}"
    for (n, why) in W.failed do
      IO.println s!"failed {n} {why}"
    return 0
  | ["typing", group] =>
    -- predicted verdict of the type checker for every `L op R` over the group's types and AmountT
    let items := if group == "astro" then Gen.Astro.items else if group == "synth" then Gen.Synth.items
                 else Gen.Catalogue.items
    let defs := items.filterMap (fun it => match MacroFront.expand it with
      | .ok d => some (TyDecl.ofDef d) | .error _ => none)
    let names := amountName :: defs.map (·.name)
    for op in BinOp.all do
      for l in names do
        for r in names do
          let v := match typechecks defs op l r with
            | some t => Text.toString t | none => "-"
          let sp := match TypingSpec.result defs op l r with
            | some t => Text.toString t | none => "-"
          IO.println s!"{op.sym} {Text.toString l} {Text.toString r} {v} {sp}"
    return 0
  | ["run", ops, implOut] =>
    let ls ← IO.FS.lines ops
    let im ← if implOut == "-" then pure #[] else IO.FS.lines implOut
    let out ← IO.getStdout
    let mut i := 0
    for l in ls do
      let io := im.getD i "-"
      let (m, v) := step R C M W AT AS l io
      out.putStrLn (m ++ "\t" ++ v.toString)
      i := i + 1
    return 0
  | _ =>
    IO.eprintln "usage: driver <f64|dec> (dump | run <ops> <impl-out>)"
    return 2

def main (args : List String) : IO UInt32 :=
  match args with
  | "f64" :: rest => runWith F64.arith f64Codec ErrModel.f64 ⟨some f64AmountText, some F64.text⟩ ⟨some (fun a => .num (F64.jsonText a)), false⟩ true rest
  | "dec" :: rest => runWith Dec.arith decCodec ErrModel.dec ⟨some Fmt.decAbsText, none⟩ ⟨some (fun d => .str (Serde.decText d)), true⟩ false rest
  | _ => do
    IO.eprintln "usage: driver <f64|dec> ..."
    return 2
